/-
  What an accepting run of the trace monitor `Mon` means, in plain terms about positions in the
  trace (no reference to the store model).
-/
import BitcaskVerif.Store.TraceLemmas

namespace Store.Tr
/-! ### verdicts are sticky -/

theorem Mon.step_okFresh {m : Mon} {e : TEv} (h : (m.step e).okFresh = true) : m.okFresh = true := by
  cases e with
  | restart => exact h
  | call c =>
    cases c with
    | create f => simp only [Mon.step, Bool.and_eq_true] at h; exact h.1
    | append f p => exact h
    | fsync f => exact h
    | unlink f => exact h

theorem Mon.step_okOwn {m : Mon} {e : TEv} (h : (m.step e).okOwn = true) : m.okOwn = true := by
  cases e with
  | restart => exact h
  | call c =>
    cases c with
    | create f => exact h
    | append f p => simp only [Mon.step, Bool.and_eq_true] at h; exact h.1
    | fsync f => exact h
    | unlink f => exact h

theorem Mon.step_okTop {m : Mon} {e : TEv} (h : (m.step e).okTop = true) : m.okTop = true := by
  cases e with
  | restart => exact h
  | call c =>
    cases c with
    | create f => exact h
    | append f p => exact h
    | fsync f => exact h
    | unlink f => simp only [Mon.step, Bool.and_eq_true] at h; exact h.1

theorem Mon.run_okFresh (evs : List TEv) : ∀ {m : Mon}, (m.run evs).okFresh = true → m.okFresh = true := by
  induction evs with
  | nil => intro m h; exact h
  | cons e es ih => intro m h; exact Mon.step_okFresh (ih h)

theorem Mon.run_okOwn (evs : List TEv) : ∀ {m : Mon}, (m.run evs).okOwn = true → m.okOwn = true := by
  induction evs with
  | nil => intro m h; exact h
  | cons e es ih => intro m h; exact Mon.step_okOwn (ih h)

theorem Mon.run_okTop (evs : List TEv) : ∀ {m : Mon}, (m.run evs).okTop = true → m.okTop = true := by
  induction evs with
  | nil => intro m h; exact h
  | cons e es ih => intro m h; exact Mon.step_okTop (ih h)

/-! ### the bound -/

theorem Mon.step_bound_le (m : Mon) (e : TEv) : m.bound ≤ (m.step e).bound := by
  cases e with
  | restart => exact Nat.le_refl _
  | call c =>
    cases c with
    | create f => simp only [Mon.step]; omega
    | append f p => exact Nat.le_refl _
    | fsync f => exact Nat.le_refl _
    | unlink f => exact Nat.le_refl _

theorem Mon.run_bound_le (evs : List TEv) : ∀ (m : Mon), m.bound ≤ (m.run evs).bound := by
  induction evs with
  | nil => intro m; exact Nat.le_refl _
  | cons e es ih => intro m; exact Nat.le_trans (m.step_bound_le e) (ih _)

/-- every id created so far is below the bound -/
theorem Mon.run_create_lt (evs : List TEv) : ∀ (m : Mon) (g : FName),
    TEv.call (.create g) ∈ evs → g.id < (m.run evs).bound := by
  induction evs with
  | nil => intro m g h; cases h
  | cons e es ih =>
    intro m g h
    rcases List.mem_cons.mp h with e1 | e1
    · subst e1
      have h1 : g.id < (m.step (.call (.create g))).bound := by simp only [Mon.step]; omega
      exact Nat.lt_of_lt_of_le h1 (Mon.run_bound_le es _)
    · exact ih _ g e1

/-- the bound is the initial one or one above a created id -/
theorem Mon.run_bound_witness (evs : List TEv) : ∀ (m : Mon),
    (m.run evs).bound = m.bound ∨ ∃ g, TEv.call (.create g) ∈ evs ∧ (m.run evs).bound = g.id + 1 := by
  induction evs with
  | nil => intro m; exact .inl rfl
  | cons e es ih =>
    intro m
    rcases ih (m.step e) with h | ⟨g, hg, hb⟩
    · cases e with
      | restart => exact .inl h
      | call c =>
        cases c with
        | create f =>
          by_cases hf : m.bound ≤ f.id + 1
          · right
            refine ⟨f, List.mem_cons_self, ?_⟩
            rw [Mon.run_cons, h]; simp only [Mon.step]; omega
          · left
            rw [Mon.run_cons, h]; simp only [Mon.step]; omega
        | append f p => exact .inl h
        | fsync f => exact .inl h
        | unlink f => exact .inl h
    · exact .inr ⟨g, List.mem_cons_of_mem _ hg, hb⟩

/-! ### the previous call -/

def TEv.asLast : TEv → Option Call
  | .call c => some c
  | .restart => none

theorem Mon.step_last (m : Mon) (e : TEv) : (m.step e).last = e.asLast := by
  cases e with
  | restart => rfl
  | call c => cases c <;> rfl

theorem Mon.run_snoc_last (m : Mon) (pre : List TEv) (e : TEv) : (m.run (pre ++ [e])).last = e.asLast := by
  rw [Mon.run_append, Mon.run_cons, Mon.run_nil, Mon.step_last]

/-- after a non-empty prefix, `last` is its final event -/
theorem Mon.run_last (m : Mon) (pre : List TEv) (c : Call) (h : (m.run pre).last = some c) :
    (pre = [] ∧ m.last = some c) ∨ ∃ pre', pre = pre' ++ [TEv.call c] := by
  rcases List.eq_nil_or_concat pre with e | ⟨pre', e, he⟩
  · subst e; exact .inl ⟨rfl, h⟩
  · right
    rw [he, List.concat_eq_append, Mon.run_snoc_last] at h
    cases e with
    | restart => cases h
    | call d =>
      simp only [TEv.asLast, Option.some.injEq] at h
      subst h
      exact ⟨pre', by rw [he, List.concat_eq_append]⟩

/-! ### freshness, explicitly -/

/-- **an accepted `create` of a data file has an id at or above the initial bound and above the
    id of every file created earlier in the trace** -/
theorem mon_fresh_data (m : Mon) (evs : List TEv) (hok : (m.run evs).okFresh = true)
    (pre post : List TEv) (id : Nat) (h : evs = pre ++ TEv.call (.create ⟨.data, id⟩) :: post) :
    m.bound ≤ id ∧ ∀ g, TEv.call (.create g) ∈ pre → g.id < id := by
  rw [h, Mon.run_append, Mon.run_cons] at hok
  have h1 := Mon.run_okFresh post hok
  simp only [Mon.step, Mon.freshTest, Bool.and_eq_true, decide_eq_true_eq] at h1
  refine ⟨Nat.le_trans (Mon.run_bound_le pre m) h1.2, ?_⟩
  intro g hg
  exact Nat.lt_of_lt_of_le (Mon.run_create_lt pre m g hg) h1.2

/-- **an accepted `create` of a hint file directly follows the `create` of the data file with the
    same id** -/
theorem mon_fresh_hint (m : Mon) (evs : List TEv) (hok : (m.run evs).okFresh = true)
    (pre post : List TEv) (id : Nat) (h : evs = pre ++ TEv.call (.create ⟨.hint, id⟩) :: post) :
    (pre = [] ∧ m.last = some (.create ⟨.data, id⟩)) ∨
      ∃ pre', pre = pre' ++ [TEv.call (.create ⟨.data, id⟩)] := by
  rw [h, Mon.run_append, Mon.run_cons] at hok
  have h1 := Mon.run_okFresh post hok
  simp only [Mon.step, Mon.freshTest, Bool.and_eq_true, decide_eq_true_eq] at h1
  exact Mon.run_last m pre _ h1.2

/-- **an accepted `unlink` removes a file whose id is below the largest id used so far** -/
theorem mon_top (m : Mon) (evs : List TEv) (hok : (m.run evs).okTop = true)
    (pre post : List TEv) (f : FName) (h : evs = pre ++ TEv.call (.unlink f) :: post) :
    f.id + 1 < (m.run pre).bound := by
  rw [h, Mon.run_append, Mon.run_cons] at hok
  have h1 := Mon.run_okTop post hok
  simp only [Mon.step, Bool.and_eq_true, decide_eq_true_eq] at h1
  exact h1.2

/-! ### lives -/

def lifeStep (acc : List TEv) : TEv → List TEv
  | .restart => []
  | .call c => acc ++ [.call c]

/-- the events since the last restart -/
def lastLife (evs : List TEv) : List TEv := evs.foldl lifeStep []

theorem lifeFold_spec (evs : List TEv) : ∀ (acc pre0 : List TEv), TEv.restart ∉ acc →
    (pre0 = [] ∨ ∃ p, pre0 = p ++ [TEv.restart]) →
    ∃ pre1, pre0 ++ acc ++ evs = pre1 ++ evs.foldl lifeStep acc ∧ TEv.restart ∉ evs.foldl lifeStep acc ∧
      (pre1 = [] ∨ ∃ p, pre1 = p ++ [TEv.restart]) := by
  induction evs with
  | nil => intro acc pre0 h1 h2; exact ⟨pre0, by simp, h1, h2⟩
  | cons e es ih =>
    intro acc pre0 h1 h2
    cases e with
    | restart =>
      obtain ⟨p1, q1, q2, q3⟩ := ih [] (pre0 ++ acc ++ [TEv.restart]) (by simp) (.inr ⟨_, rfl⟩)
      exact ⟨p1, by simpa [lifeStep] using q1, q2, q3⟩
    | call c =>
      obtain ⟨p1, q1, q2, q3⟩ := ih (acc ++ [TEv.call c]) pre0 (by simp [h1]) h2
      exact ⟨p1, by simpa [lifeStep] using q1, q2, q3⟩

/-- `lastLife evs` is the suffix of `evs` after its last `restart` -/
theorem lastLife_spec (evs : List TEv) :
    ∃ pre1, evs = pre1 ++ lastLife evs ∧ TEv.restart ∉ lastLife evs ∧
      (pre1 = [] ∨ ∃ p, pre1 = p ++ [TEv.restart]) := by
  have := lifeFold_spec evs [] [] (by simp) (.inl rfl)
  simpa [lastLife] using this

/-- the monitor's `created` / `unlinked` are the files created / removed in the current life -/
theorem mon_life_rel (evs : List TEv) : ∀ (m : Mon) (acc : List TEv),
    (∀ f, f ∈ m.created ↔ TEv.call (.create f) ∈ acc) → (∀ f, f ∈ m.unlinked ↔ TEv.call (.unlink f) ∈ acc) →
    (∀ f, f ∈ (m.run evs).created ↔ TEv.call (.create f) ∈ evs.foldl lifeStep acc) ∧
    (∀ f, f ∈ (m.run evs).unlinked ↔ TEv.call (.unlink f) ∈ evs.foldl lifeStep acc) := by
  induction evs with
  | nil => intro m acc h1 h2; exact ⟨h1, h2⟩
  | cons e es ih =>
    intro m acc h1 h2
    rw [Mon.run_cons, List.foldl_cons]
    apply ih
    · intro f
      cases e with
      | restart => simp [Mon.step, lifeStep]
      | call c =>
        cases c with
        | create g =>
          simp only [Mon.step, lifeStep, List.mem_cons, List.mem_append, h1 f,
            TEv.call.injEq, Call.create.injEq, List.not_mem_nil, or_false]
          exact or_comm
        | append g p => simp [Mon.step, lifeStep, h1 f]
        | fsync g => simp [Mon.step, lifeStep, h1 f]
        | unlink g => simp [Mon.step, lifeStep, h1 f]
    · intro f
      cases e with
      | restart => simp [Mon.step, lifeStep]
      | call c =>
        cases c with
        | create g => simp [Mon.step, lifeStep, h2 f]
        | append g p => simp [Mon.step, lifeStep, h2 f]
        | fsync g => simp [Mon.step, lifeStep, h2 f]
        | unlink g =>
          simp only [Mon.step, lifeStep, List.mem_cons, List.mem_append, h2 f,
            TEv.call.injEq, Call.unlink.injEq, List.not_mem_nil, or_false]
          exact or_comm

/-- **an accepted `append f` is preceded, since the last restart, by `create f` and by no
    `unlink f`** (monitor started with empty `created` / `unlinked`) -/
theorem mon_own (m : Mon) (hc : m.created = []) (hu : m.unlinked = []) (evs : List TEv)
    (hok : (m.run evs).okOwn = true) (pre post : List TEv) (f : FName) (p : Payload)
    (h : evs = pre ++ TEv.call (.append f p) :: post) :
    TEv.call (.create f) ∈ lastLife pre ∧ TEv.call (.unlink f) ∉ lastLife pre := by
  rw [h, Mon.run_append, Mon.run_cons] at hok
  have h1 := Mon.run_okOwn post hok
  simp only [Mon.step, Bool.and_eq_true, decide_eq_true_eq] at h1
  obtain ⟨r1, r2⟩ := mon_life_rel pre m [] (by simp [hc]) (by simp [hu])
  exact ⟨(r1 f).mp h1.2.1, fun hx => h1.2.2 ((r2 f).mpr hx)⟩

end Store.Tr