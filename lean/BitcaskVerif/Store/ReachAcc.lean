/-
  C19 / C13: the states of crash-free histories (`AReach`; `AReachPD` for sets and deletes only)
  and the invariants they all satisfy (`Good` = `Inv` + `AccInv` + `DiskWf`).
-/
import BitcaskVerif.Store.StatsMerge
import BitcaskVerif.Store.StatsReopen

namespace Store
open Store.Stats

/-- states reachable from a fresh store by sets and deletes (any configuration, any timestamps) -/
inductive AReachPD : St → Prop where
  | fresh : AReachPD fresh
  | put (cfg : Cfg) (s : St) (ts : Int) (k : Key) (v : Val) : AReachPD s → AReachPD (put cfg s ts k v).1
  | del (cfg : Cfg) (s : St) (ts : Int) (k : Key) : AReachPD s → AReachPD (delete cfg s ts k).1

/-- states reachable in a crash-free history: sets, deletes, merge passes (the selected files are
    existing ones, i.e. ids up to the active id, and the iteration order covers the KeyDir — the
    conditions of `ValidFrom`), and close/reopen cycles -/
inductive AReach : St → Prop where
  | fresh : AReach fresh
  | put (cfg : Cfg) (s : St) (ts : Int) (k : Key) (v : Val) : AReach s → AReach (put cfg s ts k v).1
  | del (cfg : Cfg) (s : St) (ts : Int) (k : Key) : AReach s → AReach (delete cfg s ts k).1
  | merge (cfg : Cfg) (s : St) (sel : List Nat) (order : List Key) : AReach s →
      (∀ id, id ∈ sel → id ≤ s.active) → Covers order s → AReach (mergeWith cfg s sel order).1
  | reopen (s : St) : AReach s → AReach (reopen s).1

theorem AReachPD.reach {s : St} (h : AReachPD s) : AReach s := by
  induction h with
  | fresh => exact .fresh
  | put cfg s ts k v _ ih => exact .put cfg s ts k v ih
  | del cfg s ts k _ ih => exact .del cfg s ts k ih

/-- the operation sequences of C01 stay inside `AReach` -/
theorem areach_run (cfg : Cfg) (ops : List Op) : ∀ (s : St), AReach s → ValidFrom cfg s ops →
    AReach (run cfg s ops).1 := by
  induction ops with
  | nil => intro s h _; exact h
  | cons op ops ih =>
    intro s h hv
    simp only [run]
    apply ih _ _ hv.2
    cases op with
    | put k v => exact .put cfg s 0 k v h
    | del k => exact .del cfg s 0 k h
    | get k => exact h
    | merge sel order => exact .merge cfg s sel order h hv.1.1 hv.1.2

/-- the three invariants every reachable state satisfies -/
structure Good (s : St) : Prop where
  inv : Inv s
  acc : AccInv s
  wf : DiskWf s

theorem areach_good {s : St} (h : AReach s) : Good s := by
  induction h with
  | fresh => exact ⟨fresh_inv, fresh_acc, fresh_wf⟩
  | put cfg s ts k v _ ih =>
    exact ⟨put_inv cfg s ts k v ih.inv, put_acc cfg s ts k v ih.inv ih.acc, put_wf cfg s ts k v ih.inv ih.wf⟩
  | del cfg s ts k _ ih =>
    exact ⟨delete_inv cfg s ts k ih.inv, delete_acc cfg s ts k ih.inv ih.acc, delete_wf cfg s ts k ih.inv ih.wf⟩
  | merge cfg s sel order _ hsel hcov ih =>
    obtain ⟨a, b⟩ := mergeWith_acc cfg s sel order ih.inv ih.acc ih.wf hsel hcov
    exact ⟨(mergeWith_inv_abs cfg s sel order ih.inv hsel hcov).1, a, b⟩
  | reopen s _ ih =>
    obtain ⟨a, b, c⟩ := reopen_inv s ih.inv ih.wf
    exact ⟨a, b, c⟩

end Store
