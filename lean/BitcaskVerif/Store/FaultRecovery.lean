/-
  What a restart reads after a history of puts and deletes some of which failed (C20), for
  histories without merges: the *durable* map evolves like the in-memory one, except that a
  failed operation is durable iff its entry reached the file completely (`Fault.taken`).

  The invariant `DurInv` (the index a restart would rebuild has valid entries) is preserved by
  every successful and every failed write; merges need the recovery theory of hint files and are
  not covered here.
-/
import BitcaskVerif.Store.FaultRestart

namespace Store.Tr
/-- does the entry of an operation that failed with this fault reach the file completely? -/
def Fault.taken : Fault → Bool
  | .appendLarge _ => false
  | _ => true

theorem Fault.taken_iff (f : Fault) : f.taken = true ↔ ∀ hdr, f ≠ .appendLarge hdr := by
  cases f <;> simp [Fault.taken]

theorem Fault.not_taken (f : Fault) (h : f.taken = false) : ∃ hdr, f = .appendLarge hdr := by
  cases f with
  | appendLarge hdr => exact ⟨hdr, rfl⟩
  | appendSmall => simp [Fault.taken] at h
  | fsync => simp [Fault.taken] at h
  | create => simp [Fault.taken] at h

/-- what a restart would make of the current directory is healthy -/
structure DurInv (s : St) : Prop where
  idinv : IdInv s
  locs : ∀ k loc, AL.get k (reopen s).1.keydir = some loc → LocOk (reopen s).1.disk k loc

theorem _root_.Store.LocOk.of_dataOf_eq {d d' : Disk} (h : ∀ fid, dataOf d' fid = dataOf d fid) {k : Key} {loc : Loc}
    (hl : LocOk d k loc) : LocOk d' k loc := by
  obtain ⟨x, h1, h2, h3, h4, _⟩ := hl
  have hne : dataOf d loc.fid ≠ [] := fun e => by rw [e, recAt_nil] at h1; cases h1
  exact ⟨x, by rw [h]; exact h1, h2, h3, h4, isSome_of_dataOf_ne (by rw [h]; exact hne)⟩

theorem reopen_congr_disk {x y : St} (h : x.disk = y.disk) : reopen x = reopen y := by
  unfold reopen; rw [h]

theorem DurInv.congr {s s' : St} (hd : s'.disk = s.disk) (ha : s'.active = s.active) (h : DurInv s) : DurInv s' :=
  ⟨h.idinv.congr hd ha, by rw [reopen_congr_disk hd]; exact h.locs⟩

/-- an entry of another key stays valid across a completed write -/
theorem reopen_writeF_other_locOk (s : St) (r : Rec) (f : Fault) (h : DurInv s) (hf : ∀ hdr, f ≠ .appendLarge hdr)
    (k : Key) (hk : k ≠ r.key) (loc : Loc) (hg : AL.get k (reopen (writeF s r f)).1.keydir = some loc) :
    LocOk (reopen (writeF s r f)).1.disk k loc := by
  have hkd : AL.get k (reopen (writeF s r f)).1.keydir = AL.get k (reopen s).1.keydir := by
    rw [reopen_keydir, rebuild_writeF_taken s r f h.idinv hf, idxTaken_keydir]
    simp only [hk, ↓reduceIte]; rfl
  rw [hkd] at hg
  obtain ⟨x, h1, h2, h3, h4, _⟩ := h.locs k loc hg
  have h1' : recAt (dataOf (reopen (writeF s r f)).1.disk loc.fid) loc.pos = some x := by
    rw [reopen_dataOf (writeF_idinv s r f h.idinv), dataOf_writeF_taken s r f h.idinv hf]
    rw [reopen_dataOf h.idinv] at h1
    by_cases e : loc.fid = s.active
    · rw [e, appendDisk, dataOf_set_same]; rw [e] at h1; exact recAt_append_left h1 _
    · rw [appendDisk, dataOf_set_other _ e]; exact h1
  have hne' : dataOf (reopen (writeF s r f)).1.disk loc.fid ≠ [] := fun e => by
    rw [e, recAt_nil] at h1'; cases h1'
  exact ⟨x, h1', h2, h3, h4, isSome_of_dataOf_ne hne'⟩

/-- **a write whose entry is complete in the file (failed or not) is durable**: the invariant is
    kept and a restart reads the record's value for its key, everything else as before -/
theorem writeF_taken_dur (s : St) (r : Rec) (f : Fault) (h : DurInv s) (hf : ∀ hdr, f ≠ .appendLarge hdr) :
    DurInv (writeF s r f) ∧
    (reopen (writeF s r f)).1.abs = fun k => if k = r.key then r.val else (reopen s).1.abs k := by
  constructor
  · refine ⟨writeF_idinv s r f h.idinv, ?_⟩
    intro k loc hg
    by_cases hk : k = r.key
    · subst hk; exact reopen_writeF_locOk s r f h.idinv hf loc hg
    · exact reopen_writeF_other_locOk s r f h hf k hk loc hg
  · funext k
    by_cases hk : k = r.key
    · simp only [hk, ↓reduceIte]; exact reopen_writeF_failed_key s r f h.idinv hf
    · simp only [hk, ↓reduceIte]
      exact reopen_writeF_other_key s r f h.idinv k hk (h.locs k)

theorem write_dur (cfg : Cfg) (s : St) (r : Rec) (h : DurInv s) :
    DurInv (write cfg s r).1 ∧
    (reopen (write cfg s r).1).1.abs = fun k => if k = r.key then r.val else (reopen s).1.abs k := by
  have hf : ∀ hdr, Fault.fsync ≠ .appendLarge hdr := by simp
  obtain ⟨t1, t2⟩ := writeF_taken_dur s r .fsync h hf
  obtain ⟨e1, _, _, e4⟩ := reopen_writeF_taken cfg s r .fsync h.idinv hf
  have hi := write_idinv cfg s r h.idinv
  refine ⟨⟨hi, ?_⟩, by rw [← e4]; exact t2⟩
  intro k loc hg
  rw [← e1] at hg
  apply (t1.locs k loc hg).of_dataOf_eq
  intro fid
  rw [reopen_dataOf hi, reopen_dataOf t1.idinv, dataOf_write cfg s r h.idinv]
  rfl

theorem writeF_untaken_dur (s : St) (r : Rec) (hdr : Nat) (h : DurInv s) :
    DurInv (writeF s r (.appendLarge hdr)) ∧ (reopen (writeF s r (.appendLarge hdr))).1.abs = (reopen s).1.abs := by
  obtain ⟨e1, _, _, e4⟩ := reopen_writeF_large s r hdr h.idinv
  have hi := writeF_idinv s r (.appendLarge hdr) h.idinv
  refine ⟨⟨hi, ?_⟩, e4⟩
  intro k loc hg
  rw [e1] at hg
  apply (h.locs k loc hg).of_dataOf_eq
  intro fid
  rw [reopen_dataOf hi, reopen_dataOf h.idinv]
  exact dataOf_set_empty s.disk _ (dataOf_above h.idinv (by omega)) _ _ fid

theorem reopen_fresh_keydir : (reopen fresh).1.keydir = [] := by
  simp [reopen, openDisk, rebuild, sortedIds, fresh, AL.keys, List.eraseDups_cons, scanData, dataOf, AL.get]

theorem fresh_durInv : DurInv fresh := by
  refine ⟨fresh_idinv, ?_⟩
  intro k loc hg
  rw [reopen_fresh_keydir] at hg
  cases hg

theorem fresh_dur_abs : (reopen fresh).1.abs = Map.empty := by
  funext k
  apply abs_none_of_none
  rw [reopen_fresh_keydir]; rfl

end Store.Tr