/-
  Helper lemmas for C19 / C13: association lists with distinct keys and weighted sums over
  them (`wsum`). Core Lean only.
-/
import BitcaskVerif.Store.MergeLemmas

set_option linter.unusedSectionVars false

namespace Store.Stats

variable {κ : Type} [DecidableEq κ] {β : Type}

/-! ### distinct keys -/

theorem keys_cons (x : κ × β) (l : List (κ × β)) : AL.keys (x :: l) = x.1 :: AL.keys l := rfl

theorem del_of_not_mem {k : κ} {l : List (κ × β)} (h : k ∉ AL.keys l) : AL.del k l = l := by
  induction l with
  | nil => rfl
  | cons x xs ih =>
    obtain ⟨k', v'⟩ := x
    simp only [keys_cons, List.mem_cons, not_or] at h
    have h1 : ¬ k' = k := fun e => h.1 e.symm
    simp only [AL.del, h1, ↓reduceIte, ih h.2]

theorem nodup_set {k : κ} {v : β} {l : List (κ × β)} (h : (AL.keys l).Nodup) :
    (AL.keys (AL.set k v l)).Nodup := by
  induction l with
  | nil => simp [AL.set, AL.keys]
  | cons x xs ih =>
    obtain ⟨k', v'⟩ := x
    simp only [keys_cons, List.nodup_cons] at h
    by_cases hk : k' = k
    · subst hk
      simp only [AL.set, ↓reduceIte, keys_cons, List.nodup_cons]
      exact h
    · simp only [AL.set, hk, ↓reduceIte, keys_cons, List.nodup_cons]
      refine ⟨?_, ih h.2⟩
      intro hm
      rcases mem_keys_set hm with e | e
      · exact hk e
      · exact h.1 e

theorem nodup_del {k : κ} {l : List (κ × β)} (h : (AL.keys l).Nodup) :
    (AL.keys (AL.del k l)).Nodup := by
  induction l with
  | nil => simp [AL.del, AL.keys]
  | cons x xs ih =>
    obtain ⟨k', v'⟩ := x
    simp only [keys_cons, List.nodup_cons] at h
    by_cases hk : k' = k
    · simp only [AL.del, hk, ↓reduceIte]; exact ih h.2
    · simp only [AL.del, hk, ↓reduceIte, keys_cons, List.nodup_cons]
      exact ⟨fun hm => h.1 (mem_keys_del hm).2, ih h.2⟩

theorem mem_of_get {k : κ} {v : β} {l : List (κ × β)} (h : AL.get k l = some v) : (k, v) ∈ l := by
  induction l with
  | nil => simp [AL.get] at h
  | cons x xs ih =>
    obtain ⟨k', v'⟩ := x
    by_cases hk : k' = k
    · subst hk
      simp only [AL.get, ↓reduceIte, Option.some.injEq] at h
      subst h; exact List.mem_cons_self
    · simp only [AL.get, hk, ↓reduceIte] at h
      exact List.mem_cons_of_mem _ (ih h)

theorem mem_keys_of_mem {k : κ} {v : β} {l : List (κ × β)} (h : (k, v) ∈ l) : k ∈ AL.keys l := by
  unfold AL.keys
  exact List.mem_map.mpr ⟨(k, v), h, rfl⟩

theorem get_of_mem {k : κ} {v : β} {l : List (κ × β)} (hnd : (AL.keys l).Nodup) (h : (k, v) ∈ l) :
    AL.get k l = some v := by
  induction l with
  | nil => cases h
  | cons x xs ih =>
    obtain ⟨k', v'⟩ := x
    simp only [keys_cons, List.nodup_cons] at hnd
    rcases List.mem_cons.mp h with e | e
    · cases e; simp [AL.get]
    · have hk : ¬ k' = k := fun e' => hnd.1 (e' ▸ mem_keys_of_mem e)
      simp only [AL.get, hk, ↓reduceIte]
      exact ih hnd.2 e

theorem get_none_of_not_mem {k : κ} {l : List (κ × β)} (h : k ∉ AL.keys l) : AL.get k l = none :=
  AL.get_eq_none_iff.mpr h

/-! ### weighted sums over the bindings -/

/-- `Σ w v` over the bindings `(k, v)` of the list -/
def wsum (w : β → Nat) (l : List (κ × β)) : Nat := (l.map fun x => w x.2).sum

/-- weight of an optional binding -/
def ow (w : β → Nat) : Option β → Nat
  | some p => w p
  | none => 0

@[simp] theorem ow_none (w : β → Nat) : ow w none = 0 := rfl
@[simp] theorem ow_some (w : β → Nat) (p : β) : ow w (some p) = w p := rfl

@[simp] theorem wsum_nil (w : β → Nat) : wsum w ([] : List (κ × β)) = 0 := rfl
@[simp] theorem wsum_cons (w : β → Nat) (x : κ × β) (l : List (κ × β)) :
    wsum w (x :: l) = w x.2 + wsum w l := by simp [wsum]

/-- replacing the binding of `k`: the old weight leaves, the new one enters -/
theorem wsum_set (w : β → Nat) (k : κ) (v : β) (l : List (κ × β)) :
    wsum w (AL.set k v l) + ow w (AL.get k l) = wsum w l + w v := by
  induction l with
  | nil => simp [AL.set, AL.get]
  | cons x xs ih =>
    obtain ⟨k', v'⟩ := x
    by_cases hk : k' = k
    · simp only [AL.set, AL.get, hk, ↓reduceIte, wsum_cons, ow_some]; omega
    · simp only [AL.set, AL.get, hk, ↓reduceIte, wsum_cons]; omega

theorem wsum_del (w : β → Nat) (k : κ) {l : List (κ × β)} (hnd : (AL.keys l).Nodup) :
    wsum w (AL.del k l) + ow w (AL.get k l) = wsum w l := by
  induction l with
  | nil => simp [AL.del, AL.get]
  | cons x xs ih =>
    obtain ⟨k', v'⟩ := x
    simp only [keys_cons, List.nodup_cons] at hnd
    by_cases hk : k' = k
    · subst hk
      simp only [AL.del, AL.get, ↓reduceIte, wsum_cons, ow_some, del_of_not_mem hnd.1]; omega
    · have := ih hnd.2
      simp only [AL.del, AL.get, hk, ↓reduceIte, wsum_cons]; omega

theorem wsum_ge_of_get (w : β → Nat) {k : κ} {v : β} {l : List (κ × β)} (h : AL.get k l = some v) :
    w v ≤ wsum w l := by
  induction l with
  | nil => simp [AL.get] at h
  | cons x xs ih =>
    obtain ⟨k', v'⟩ := x
    by_cases hk : k' = k
    · simp only [AL.get, hk, ↓reduceIte, Option.some.injEq] at h
      subst h; simp only [wsum_cons]; omega
    · simp only [AL.get, hk, ↓reduceIte] at h
      have := ih h
      simp only [wsum_cons]; omega

theorem wsum_congr {w w' : β → Nat} {l : List (κ × β)} (h : ∀ k v, (k, v) ∈ l → w v = w' v) :
    wsum w l = wsum w' l := by
  induction l with
  | nil => rfl
  | cons x xs ih =>
    obtain ⟨k', v'⟩ := x
    simp only [wsum_cons]
    rw [h k' v' List.mem_cons_self, ih (fun k v hm => h k v (List.mem_cons_of_mem _ hm))]

theorem wsum_add {w w1 w2 : β → Nat} {l : List (κ × β)} (h : ∀ k v, (k, v) ∈ l → w v = w1 v + w2 v) :
    wsum w l = wsum w1 l + wsum w2 l := by
  induction l with
  | nil => rfl
  | cons x xs ih =>
    obtain ⟨k', v'⟩ := x
    simp only [wsum_cons]
    rw [h k' v' List.mem_cons_self, ih (fun k v hm => h k v (List.mem_cons_of_mem _ hm))]
    omega

theorem wsum_le {w w' : β → Nat} {l : List (κ × β)} (h : ∀ k v, (k, v) ∈ l → w v ≤ w' v) :
    wsum w l ≤ wsum w' l := by
  induction l with
  | nil => exact Nat.le_refl _
  | cons x xs ih =>
    obtain ⟨k', v'⟩ := x
    simp only [wsum_cons]
    have := h k' v' List.mem_cons_self
    have := ih (fun k v hm => h k v (List.mem_cons_of_mem _ hm))
    omega

theorem wsum_zero {w : β → Nat} {l : List (κ × β)} (h : ∀ k v, (k, v) ∈ l → w v = 0) :
    wsum w l = 0 := by
  induction l with
  | nil => rfl
  | cons x xs ih =>
    obtain ⟨k', v'⟩ := x
    simp only [wsum_cons]
    rw [h k' v' List.mem_cons_self, ih (fun k v hm => h k v (List.mem_cons_of_mem _ hm))]

/-- a weight that vanishes off the key `k0` sums to its value at the binding of `k0` -/
theorem wsum_single {w : β → Nat} {k0 : κ} {l : List (κ × β)} (hnd : (AL.keys l).Nodup)
    (h : ∀ k v, (k, v) ∈ l → k ≠ k0 → w v = 0) : wsum w l = ow w (AL.get k0 l) := by
  induction l with
  | nil => rfl
  | cons x xs ih =>
    obtain ⟨k', v'⟩ := x
    simp only [keys_cons, List.nodup_cons] at hnd
    have ih' := ih hnd.2 (fun k v hm => h k v (List.mem_cons_of_mem _ hm))
    by_cases hk : k' = k0
    · subst hk
      simp only [wsum_cons, AL.get, ↓reduceIte, ow_some]
      rw [ih', get_none_of_not_mem hnd.1]; simp
    · simp only [wsum_cons, AL.get, hk, ↓reduceIte]
      rw [h k' v' List.mem_cons_self hk, ih']; simp

/-! ### sums with key-dependent weights -/

/-- `Σ w k v` over the bindings `(k, v)` of the list -/
def ksum (w : κ → β → Nat) (l : List (κ × β)) : Nat := (l.map fun x => w x.1 x.2).sum

/-- weight of an optional binding of key `k` -/
def okw (w : κ → β → Nat) (k : κ) : Option β → Nat
  | some p => w k p
  | none => 0

@[simp] theorem okw_none (w : κ → β → Nat) (k : κ) : okw w k none = 0 := rfl
@[simp] theorem okw_some (w : κ → β → Nat) (k : κ) (p : β) : okw w k (some p) = w k p := rfl

@[simp] theorem ksum_nil (w : κ → β → Nat) : ksum w ([] : List (κ × β)) = 0 := rfl
@[simp] theorem ksum_cons (w : κ → β → Nat) (x : κ × β) (l : List (κ × β)) :
    ksum w (x :: l) = w x.1 x.2 + ksum w l := by simp [ksum]

theorem ksum_set (w : κ → β → Nat) (k : κ) (v : β) (l : List (κ × β)) :
    ksum w (AL.set k v l) + okw w k (AL.get k l) = ksum w l + w k v := by
  induction l with
  | nil => simp [AL.set, AL.get]
  | cons x xs ih =>
    obtain ⟨k', v'⟩ := x
    by_cases hk : k' = k
    · subst hk
      simp only [AL.set, AL.get, ↓reduceIte, ksum_cons, okw_some]; omega
    · simp only [AL.set, AL.get, hk, ↓reduceIte, ksum_cons]; omega

/-- removing every binding of `k` = giving them weight 0 -/
theorem ksum_del (w : κ → β → Nat) (k : κ) (l : List (κ × β)) :
    ksum w (AL.del k l) = ksum (fun k' v => if k' = k then 0 else w k' v) l := by
  induction l with
  | nil => rfl
  | cons x xs ih =>
    obtain ⟨k', v'⟩ := x
    by_cases hk : k' = k
    · simp only [AL.del, hk, ↓reduceIte, ksum_cons, ih]; omega
    · simp only [AL.del, hk, ↓reduceIte, ksum_cons, ih]

theorem ksum_congr {w w' : κ → β → Nat} {l : List (κ × β)} (h : ∀ k v, (k, v) ∈ l → w k v = w' k v) :
    ksum w l = ksum w' l := by
  induction l with
  | nil => rfl
  | cons x xs ih =>
    obtain ⟨k', v'⟩ := x
    simp only [ksum_cons]
    rw [h k' v' List.mem_cons_self, ih (fun k v hm => h k v (List.mem_cons_of_mem _ hm))]

theorem ksum_add {w w1 w2 : κ → β → Nat} {l : List (κ × β)}
    (h : ∀ k v, (k, v) ∈ l → w k v = w1 k v + w2 k v) : ksum w l = ksum w1 l + ksum w2 l := by
  induction l with
  | nil => rfl
  | cons x xs ih =>
    obtain ⟨k', v'⟩ := x
    simp only [ksum_cons]
    rw [h k' v' List.mem_cons_self, ih (fun k v hm => h k v (List.mem_cons_of_mem _ hm))]
    omega

theorem ksum_le {w w' : κ → β → Nat} {l : List (κ × β)} (h : ∀ k v, (k, v) ∈ l → w k v ≤ w' k v) :
    ksum w l ≤ ksum w' l := by
  induction l with
  | nil => exact Nat.le_refl _
  | cons x xs ih =>
    obtain ⟨k', v'⟩ := x
    simp only [ksum_cons]
    have := h k' v' List.mem_cons_self
    have := ih (fun k v hm => h k v (List.mem_cons_of_mem _ hm))
    omega

theorem ksum_zero {w : κ → β → Nat} {l : List (κ × β)} (h : ∀ k v, (k, v) ∈ l → w k v = 0) :
    ksum w l = 0 := by
  induction l with
  | nil => rfl
  | cons x xs ih =>
    obtain ⟨k', v'⟩ := x
    simp only [ksum_cons]
    rw [h k' v' List.mem_cons_self, ih (fun k v hm => h k v (List.mem_cons_of_mem _ hm))]

theorem ksum_single {w : κ → β → Nat} {k0 : κ} {l : List (κ × β)} (hnd : (AL.keys l).Nodup)
    (h : ∀ k v, (k, v) ∈ l → k ≠ k0 → w k v = 0) : ksum w l = okw w k0 (AL.get k0 l) := by
  induction l with
  | nil => rfl
  | cons x xs ih =>
    obtain ⟨k', v'⟩ := x
    simp only [keys_cons, List.nodup_cons] at hnd
    have ih' := ih hnd.2 (fun k v hm => h k v (List.mem_cons_of_mem _ hm))
    by_cases hk : k' = k0
    · subst hk
      simp only [ksum_cons, AL.get, ↓reduceIte, okw_some]
      rw [ih', get_none_of_not_mem hnd.1]; simp
    · simp only [ksum_cons, AL.get, hk, ↓reduceIte]
      rw [h k' v' List.mem_cons_self hk, ih']; simp

end Store.Stats
