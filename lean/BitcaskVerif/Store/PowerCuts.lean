/-
  Power loss during a merge pass (C09), part 3: the merge loop with durability bookkeeping, every
  cut of the copy phase, and the theorem for the whole merge pass.
-/
import BitcaskVerif.Store.PowerImage

namespace Store

/-- loop invariant: `LI`, every image of the current output opens to the contents of `s`, and
    everything except the current output is durable -/
structure PI (s : St) (sd0 : SDisk2) (m : MergeSt) : Prop where
  li : LI s m
  img : ImgOk s m.mid m.s.disk
  sync : AllBut m.mid (syncCalls2 sd0 m.calls)

/-- the outcome for the calls `c`: for some output id, everything else is durable and every image
    of that output opens to the contents of `s` -/
def PGood (s : St) (sd0 : SDisk2) (c : List Call) : Prop :=
  ∃ mid, AllBut mid (syncCalls2 sd0 c) ∧ ImgOk s mid (applyCalls s.disk c)

/-- **what `PGood` means**: every power-loss image opens to the contents of `s` -/
theorem PGood.recovers {s : St} {sd0 : SDisk2} (hd : sd0.disk = s.disk) {c : List Call} (h : PGood s sd0 c)
    {I : Disk} (hp : PowerLoss2 (syncCalls2 sd0 c) I) : RecoversW I s.abs := by
  obtain ⟨mid, h1, h2⟩ := h
  have := powerLoss2_outImage h1 hp
  rw [syncCalls2_disk, hd] at this
  exact h2 I this

theorem Clean.empty_above {d : Disk} {kd : List (Key × Loc)} {a : Nat} (h : Clean d kd a) {b : Nat} (hb : a < b) :
    dataOf d b = [] ∧ hintsOf d b = [] := by
  constructor
  · cases hg : AL.get b d.data with
    | none => simp [dataOf, hg]
    | some v => have := h.max _ (AL.mem_keys_of_get hg); omega
  · cases hg : AL.get b d.hint with
    | none => simp [hintsOf, hg]
    | some v => have := h.hmax _ (AL.mem_keys_of_get hg); omega

/-- a clean directory with one more, empty, data file: images of the (not yet existing) output
    above it -/
theorem imgOk_addData {s : St} {d : Disk} {kd : List (Key × Loc)} {a : Nat} (hc : Clean d kd a)
    (hm : absOf d kd = s.abs) : ImgOk s (a + 1) { d with data := AL.set (a + 1) [] d.data } := by
  apply imgOk_of_clean_empty (hc.addData (Nat.lt_succ_self a)) ((hc.absOf_addData (Nat.lt_succ_self a)).trans hm)
  · exact dataOf_set_same _ _ _
  · exact (hc.empty_above (Nat.lt_succ_self a)).2

theorem mergeStart_pi {s : St} (h : RInv s) (hf : Full s) {sd0 : SDisk2} (hfs : FullySynced2 sd0) :
    PI s sd0 (mergeStart s) := by
  have li := mergeStart_li h hf
  refine ⟨li, ?_, ?_⟩
  · apply imgOk_of_clean_empty li.clean li.absOf
    · simp [mergeStart, rollDisk, dataOf, AL.get_set_same]
    · simp [mergeStart, rollDisk, hintsOf, AL.get_set_same]
  · apply FullySynced2.allBut
    apply fullySynced2_steps _ hfs
    intro c hc f p
    simp only [mergeStart, List.mem_cons, List.not_mem_nil, or_false] at hc
    rcases hc with rfl | rfl <;> simp

/-- calls that append only to files with id `mid` -/
def OnlyMid (mid : Nat) (cs : List Call) : Prop := ∀ c ∈ cs, ∀ f p, c = Call.append f p → f.id = mid

theorem pgood_of {s : St} {sd0 : SDisk2} {m : MergeSt} (h : PI s sd0 m) {c' : List Call}
    (happ : OnlyMid m.mid c') (himg : ImgOk s m.mid (applyCalls m.s.disk c')) : PGood s sd0 (m.calls ++ c') :=
  ⟨m.mid, by rw [syncCalls2_append]; exact allBut_steps c' h.sync happ,
    by rw [applyCalls_append, h.li.frame]; exact himg⟩

/-- every cut of the two appends of a merge iteration, with power loss -/
theorem move_pcuts {s : St} {sd0 : SDisk2} {m : MergeSt} (h : PI s sd0 m) (k : Key) (loc : Loc) (r : Rec)
    (hlen : r.len = loc.len) (hmove : LI s (Tr.moveNoRoll m k loc r)) {c : List Call}
    (hc : Cut [Call.append ⟨.data, m.mid⟩ (.ofRec r),
      Call.append ⟨.hint, m.mid⟩ (.ofHint { ts := loc.ts, len := loc.len, pos := m.mpos, key := k })] c) :
    PGood s sd0 (m.calls ++ c) := by
  have hhalf := imgOk_half h.li h.img r
  have hfull := imgOk_move h.li k loc r hlen hmove hhalf
  rcases cut_two_appends hc with rfl | ⟨bs, rfl⟩ | rfl | ⟨bs, rfl⟩ | rfl
  · exact pgood_of h (by intro c hc; cases hc) h.img
  · exact pgood_of h (by intro c hc f p e; simp only [List.mem_singleton] at hc; subst hc; cases e; rfl)
      (h.img.tails _)
  · exact pgood_of h (by intro c hc f p e; simp only [List.mem_singleton] at hc; subst hc; cases e; rfl) hhalf
  · exact pgood_of h (by
      intro c hc f p e
      simp only [List.mem_cons, List.not_mem_nil, or_false] at hc
      rcases hc with rfl | rfl <;> cases e <;> rfl) hhalf
  · exact pgood_of h (by
      intro c hc f p e
      simp only [List.mem_cons, List.not_mem_nil, or_false] at hc
      rcases hc with rfl | rfl <;> cases e <;> rfl) hfull

theorem onlyMid_move (m : MergeSt) (k : Key) (loc : Loc) (r : Rec) :
    OnlyMid m.mid [Call.append ⟨.data, m.mid⟩ (.ofRec r),
      Call.append ⟨.hint, m.mid⟩ (.ofHint { ts := loc.ts, len := loc.len, pos := m.mpos, key := k })] := by
  intro c hc f p e
  simp only [List.mem_cons, List.not_mem_nil, or_false] at hc
  rcases hc with rfl | rfl <;> cases e <;> rfl

/-- one merge iteration keeps the power-loss invariant, and every cut inside it is a cut of the
    calls before it or is good -/
theorem mergeStep_pi (cfg : Cfg) (sel : List Nat) {s : St} (hsel : ∀ id, id ∈ sel → id ≤ s.active)
    {sd0 : SDisk2} {m : MergeSt} (h : PI s sd0 m) (k : Key) :
    PI s sd0 (mergeStep cfg sel m k) ∧
    ∀ {c : List Call}, Cut (mergeStep cfg sel m k).calls c → Cut m.calls c ∨ PGood s sd0 c := by
  cases hk : AL.get k m.s.keydir with
  | none => rw [mergeStep_skip_none cfg sel m k hk]; exact ⟨h, fun hc => .inl hc⟩
  | some loc =>
    by_cases hs : loc.fid ∈ sel
    · obtain ⟨r, h1, _, _, hlen, _⟩ := h.li.minv.locs k loc hk
      have hNR : mergeStep { cfg with maxFile := m.mpos + loc.len } sel m k = Tr.moveNoRoll m k loc r := by
        rw [mergeStep_move _ sel m k loc r hk hs h1]
        simp [Tr.moveNoRoll]
      have hliNR : LI s (Tr.moveNoRoll m k loc r) := hNR ▸ mergeStep_li _ sel hsel h.li k
      have hli' := mergeStep_li cfg sel hsel h.li k
      have hhalf := imgOk_half h.li h.img r
      have hfull : ImgOk s m.mid (moveDisk m k loc r) := imgOk_move h.li k loc r hlen hliNR hhalf
      -- durability after the two appends, and after the two fsyncs
      have hab2 : AllBut m.mid (syncCalls2 sd0 (moveCalls m k loc r)) := by
        unfold moveCalls; rw [syncCalls2_append]
        exact allBut_steps _ h.sync (onlyMid_move m k loc r)
      rw [mergeStep_move cfg sel m k loc r hk hs h1] at hli' ⊢
      by_cases hroll : m.mpos + loc.len > cfg.maxFile
      · simp only [hroll, ↓reduceIte] at hli' ⊢
        have hfs4 : FullySynced2 (syncCalls2 sd0 (moveCalls m k loc r ++
            [Call.fsync ⟨.data, m.mid⟩, Call.fsync ⟨.hint, m.mid⟩])) := by
          rw [syncCalls2_append]; exact allBut_fsyncs hab2
        have hfr2 : applyCalls s.disk (moveCalls m k loc r) = moveDisk m k loc r := by
          unfold moveCalls; rw [applyCalls_append, h.li.frame, move_frame]
        refine ⟨⟨hli', ?_, ?_⟩, ?_⟩
        · apply imgOk_of_clean_empty hli'.clean hli'.absOf
          · simp [rollDisk, dataOf, AL.get_set_same]
          · simp [rollDisk, hintsOf, AL.get_set_same]
        · apply FullySynced2.allBut
          have e : moveCalls m k loc r ++ [Call.fsync ⟨.data, m.mid⟩, Call.fsync ⟨.hint, m.mid⟩,
              Call.create ⟨.data, m.mid + 1⟩, Call.create ⟨.hint, m.mid + 1⟩] =
              (moveCalls m k loc r ++ [Call.fsync ⟨.data, m.mid⟩, Call.fsync ⟨.hint, m.mid⟩]) ++
              [Call.create ⟨.data, m.mid + 1⟩, Call.create ⟨.hint, m.mid + 1⟩] := by simp
          rw [e, syncCalls2_append]
          apply fullySynced2_steps _ hfs4
          intro c hc f p
          simp only [List.mem_cons, List.not_mem_nil, or_false] at hc
          rcases hc with rfl | rfl <;> simp
        · intro c hc
          unfold moveCalls at hc
          rw [List.append_assoc] at hc
          rcases cut_append hc with h2 | ⟨c', rfl, h2⟩
          · exact .inl h2
          · right
            rcases cut_append h2 with h3 | ⟨c'', rfl, h4⟩
            · exact move_pcuts h k loc r hlen hliNR h3
            · obtain ⟨post, e⟩ := cut_noappend (by
                intro x hx f p
                simp only [List.mem_cons, List.not_mem_nil, or_false] at hx
                rcases hx with rfl | rfl | rfl | rfl <;> simp) h4
              rw [← List.append_assoc]
              have hmc : m.calls ++ [Call.append ⟨.data, m.mid⟩ (.ofRec r),
                  Call.append ⟨.hint, m.mid⟩ (.ofHint { ts := loc.ts, len := loc.len, pos := m.mpos, key := k })] =
                  moveCalls m k loc r := rfl
              rw [hmc]
              rcases prefix_cases4 e with rfl | rfl | rfl | rfl | rfl
              · exact ⟨m.mid, by rw [List.append_nil]; exact hab2, by rw [List.append_nil, hfr2]; exact hfull⟩
              · exact ⟨m.mid, by
                  rw [syncCalls2_append]
                  exact allBut_steps _ hab2 (by
                    intro c hc f p e; simp only [List.mem_singleton] at hc; subst hc; cases e),
                  by rw [applyCalls_append, hfr2]; exact hfull⟩
              · exact ⟨m.mid, hfs4.allBut _, by rw [applyCalls_append, hfr2]; exact hfull⟩
              · refine ⟨m.mid + 1, ?_, ?_⟩
                · apply FullySynced2.allBut
                  have e : moveCalls m k loc r ++ [Call.fsync ⟨.data, m.mid⟩, Call.fsync ⟨.hint, m.mid⟩,
                      Call.create ⟨.data, m.mid + 1⟩] =
                      (moveCalls m k loc r ++ [Call.fsync ⟨.data, m.mid⟩, Call.fsync ⟨.hint, m.mid⟩]) ++
                      [Call.create ⟨.data, m.mid + 1⟩] := by simp
                  rw [e, syncCalls2_append]
                  apply fullySynced2_steps _ hfs4
                  intro c hc f p
                  simp only [List.mem_singleton] at hc
                  subst hc; simp
                · rw [applyCalls_append, hfr2]
                  exact imgOk_addData hliNR.clean hliNR.absOf
              · have hpi' : ImgOk s (m.mid + 1) (rollDisk (moveDisk m k loc r) (m.mid + 1)) := by
                  apply imgOk_of_clean_empty hli'.clean hli'.absOf
                  · simp [rollDisk, dataOf, AL.get_set_same]
                  · simp [rollDisk, hintsOf, AL.get_set_same]
                refine ⟨m.mid + 1, ?_, ?_⟩
                · apply FullySynced2.allBut
                  have e : moveCalls m k loc r ++ [Call.fsync ⟨.data, m.mid⟩, Call.fsync ⟨.hint, m.mid⟩,
                      Call.create ⟨.data, m.mid + 1⟩, Call.create ⟨.hint, m.mid + 1⟩] =
                      (moveCalls m k loc r ++ [Call.fsync ⟨.data, m.mid⟩, Call.fsync ⟨.hint, m.mid⟩]) ++
                      [Call.create ⟨.data, m.mid + 1⟩, Call.create ⟨.hint, m.mid + 1⟩] := by simp
                  rw [e, syncCalls2_append]
                  apply fullySynced2_steps _ hfs4
                  intro c hc f p
                  simp only [List.mem_cons, List.not_mem_nil, or_false] at hc
                  rcases hc with rfl | rfl <;> simp
                · rw [applyCalls_append, hfr2]
                  exact hpi'
      · simp only [hroll, ↓reduceIte] at hli' ⊢
        refine ⟨⟨hli', hfull, hab2⟩, ?_⟩
        intro c hc
        unfold moveCalls at hc
        rcases cut_append hc with h2 | ⟨c', rfl, h2⟩
        · exact .inl h2
        · exact .inr (move_pcuts h k loc r hlen hliNR h2)
    · rw [mergeStep_skip_unsel cfg sel m k loc hk hs]; exact ⟨h, fun hc => .inl hc⟩

theorem mergeFold_pi (cfg : Cfg) (sel : List Nat) {s : St} (hsel : ∀ id, id ∈ sel → id ≤ s.active)
    {sd0 : SDisk2} (order : List Key) : ∀ {m : MergeSt}, PI s sd0 m →
      PI s sd0 (order.foldl (mergeStep cfg sel) m) ∧
      ∀ {c : List Call}, Cut (order.foldl (mergeStep cfg sel) m).calls c → Cut m.calls c ∨ PGood s sd0 c := by
  induction order with
  | nil => intro m h; exact ⟨h, fun hc => .inl hc⟩
  | cons k ks ih =>
    intro m h
    obtain ⟨a, b⟩ := mergeStep_pi cfg sel hsel h k
    obtain ⟨a', b'⟩ := ih a
    refine ⟨a', ?_⟩
    intro c hc
    rcases b' hc with h1 | h1
    · exact b h1
    · exact .inr h1

/-- a power failure while the first output pair is being created -/
theorem mergeStart_pcuts {s : St} (h : RInv s) (hf : Full s) {sd0 : SDisk2}
    (hfs : FullySynced2 sd0) {c : List Call} (hc : Cut (mergeStart s).calls c) : PGood s sd0 c := by
  obtain ⟨post, e⟩ := cut_noappend (by
    intro x hx f p
    simp only [mergeStart, List.mem_cons, List.not_mem_nil, or_false] at hx
    rcases hx with rfl | rfl <;> simp) hc
  have hcl := clean_of_rinv h hf
  have hfs' : ∀ cs : List Call, (∀ x ∈ cs, ∀ f p, x ≠ Call.append f p) →
      AllBut (s.active + 1) (syncCalls2 sd0 cs) :=
    fun cs hcs => (fullySynced2_steps cs hfs hcs).allBut _
  rcases prefix_cases2 e with rfl | rfl | rfl
  · refine ⟨s.active + 1, hfs' [] (by simp), ?_⟩
    exact imgOk_of_clean_empty hcl (abs_eq_absOf s).symm (hcl.empty_above (Nat.lt_succ_self _)).1
      (hcl.empty_above (Nat.lt_succ_self _)).2
  · refine ⟨s.active + 1, hfs' _ (by intro x hx f p; simp only [List.mem_singleton] at hx; subst hx; simp), ?_⟩
    exact imgOk_addData hcl (abs_eq_absOf s).symm
  · exact ⟨s.active + 1, (mergeStart_pi h hf hfs).sync, (mergeStart_pi (sd0 := sd0) h hf hfs).img⟩

/-- **power failure anywhere in the copy phase of a merge** -/
theorem mergeLoop_pcuts (cfg : Cfg) {s : St} (h : RInv s) (hf : Full s) (sel : List Nat)
    (hsel : ∀ id, id ∈ sel → id ≤ s.active) (order : List Key) {sd0 : SDisk2}
    (hfs : FullySynced2 sd0) :
    PI s sd0 (mergeLoop cfg s sel order) ∧
    ∀ {c : List Call}, Cut (mergeLoop cfg s sel order).calls c → PGood s sd0 c := by
  obtain ⟨a, b⟩ := mergeFold_pi cfg sel hsel order (mergeStart_pi h hf hfs)
  refine ⟨a, ?_⟩
  intro c hc
  rcases b hc with h1 | h1
  · exact mergeStart_pcuts h hf hfs h1
  · exact h1

/-! ### the whole merge pass -/

theorem cut_length_le {cs c : List Call} (h : Cut cs c) : c.length ≤ cs.length := by
  rcases h with ⟨post, e⟩ | ⟨pre, f, p, post, bs, e, _, rfl⟩
  · rw [e]; simp
  · rw [e]; simp

theorem cut_cancel_left {a b c' : List Call} (h : Cut (a ++ b) (a ++ c')) : Cut b c' := by
  rcases cut_append h with h1 | ⟨c'', e, h2⟩
  · have := cut_length_le h1
    simp only [List.length_append] at this
    have : c' = [] := List.eq_nil_of_length_eq_zero (by omega)
    rw [this]; exact Cut.nil _
  · rw [List.append_cancel_left e]; exact h2

/-- the calls after the merge loop: the two fsyncs of the last output, then calls that are not
    appends (unlinks, creation of the new active file) -/
theorem mergeWith_calls_tail (cfg : Cfg) (s : St) (sel : List Nat) (order : List Key) :
    ∃ post, (mergeWith cfg s sel order).2 = (mergeLoop cfg s sel order).calls ++
      (Call.fsync ⟨.data, (mergeLoop cfg s sel order).mid⟩ :: Call.fsync ⟨.hint, (mergeLoop cfg s sel order).mid⟩ :: post) ∧
      ∀ x ∈ post, ∀ f p, x ≠ Call.append f p := by
  rw [mergeWith_calls]
  obtain ⟨post, e, hp⟩ := unlinkFold_calls sel ((mergeLoop cfg s sel order).s,
    (mergeLoop cfg s sel order).calls ++
      [Call.fsync ⟨.data, (mergeLoop cfg s sel order).mid⟩, Call.fsync ⟨.hint, (mergeLoop cfg s sel order).mid⟩])
  refine ⟨post ++ [Call.create ⟨.data, (mergeLoop cfg s sel order).mid + 1⟩], by rw [e]; simp, ?_⟩
  intro x hx f p
  rcases List.mem_append.mp hx with hx | hx
  · exact hp x hx f p
  · simp only [List.mem_singleton] at hx; subst hx; simp

/-- **Power failure anywhere in a merge pass.**  `s` satisfies the recovery invariant, the
    selection consists of existing files, the iteration order covers the KeyDir, every prefix of
    the selection is hazard-free (see `mergeWith_cut_recovers`); when the merge starts everything
    in the directory is durable (`sd0`).  The power fails after the calls `c` (any cut, torn
    appends included) of the merge pass.  Every directory `I` the failure can leave — every data
    file and every hint file cut back independently to any length at or above its durable
    length — opens to a store that satisfies the invariant and reads exactly as before the
    merge. -/
theorem mergeWith_powerLoss_recovers (cfg : Cfg) {s : St} (h : RInv s) (sel : List Nat) (order : List Key)
    (hsel : ∀ id, id ∈ sel → id ≤ s.active) (hcov : Covers order s)
    (hz : ∀ done, done <+: sel → NoHazard s done) {sd0 : SDisk2} (hd : sd0.disk = s.disk)
    (hfs : FullySynced2 sd0) {c : List Call} (hc : Cut (mergeWith cfg s sel order).2 c) {I : Disk}
    (hp : PowerLoss2 (syncCalls2 sd0 c) I) : RecoversW I s.abs := by
  have hf : Full s := (noHazard_nil_iff s).mp (hz [] (List.nil_prefix))
  obtain ⟨pi, hcuts⟩ := mergeLoop_pcuts cfg h hf sel hsel order hfs
  rcases mergeWith_cut_cases cfg h sel order hsel hcov hz hc with h1 | ⟨hcl, c', rfl⟩
  · exact (hcuts h1).recovers hd hp
  · obtain ⟨post', e, hpost⟩ := mergeWith_calls_tail cfg s sel order
    rw [e] at hc
    have hc' := cut_cancel_left hc
    have hna : ∀ x ∈ (Call.fsync ⟨.data, (mergeLoop cfg s sel order).mid⟩ ::
        Call.fsync ⟨.hint, (mergeLoop cfg s sel order).mid⟩ :: post'), ∀ f p, x ≠ Call.append f p := by
      intro x hx f p
      simp only [List.mem_cons] at hx
      rcases hx with rfl | rfl | hx
      · simp
      · simp
      · exact hpost x hx f p
    obtain ⟨post, e2⟩ := cut_noappend hna hc'
    have hna' : ∀ x ∈ c', ∀ f p, x ≠ Call.append f p := by
      intro x hx; exact hna x (by rw [e2]; exact List.mem_append_left _ hx)
    rcases c' with _ | ⟨x, _ | ⟨y, c''⟩⟩
    · -- nothing after the loop yet
      exact (pgood_of pi (c' := []) (by intro c hc; cases hc) pi.img).recovers hd hp
    · simp only [List.cons_append, List.nil_append, List.cons.injEq] at e2
      obtain ⟨rfl, _⟩ := e2
      exact (pgood_of pi (c' := [Call.fsync ⟨.data, (mergeLoop cfg s sel order).mid⟩])
        (by intro c hc f p e; simp only [List.mem_singleton] at hc; subst hc; cases e) pi.img).recovers hd hp
    · simp only [List.cons_append, List.cons.injEq] at e2
      obtain ⟨rfl, rfl, _⟩ := e2
      -- both fsyncs done: everything is durable from here on
      have hfs2 : FullySynced2 (syncCalls2 sd0 ((mergeLoop cfg s sel order).calls ++
          (Call.fsync ⟨.data, (mergeLoop cfg s sel order).mid⟩ ::
           Call.fsync ⟨.hint, (mergeLoop cfg s sel order).mid⟩ :: c''))) := by
        have e3 : (mergeLoop cfg s sel order).calls ++
            (Call.fsync ⟨.data, (mergeLoop cfg s sel order).mid⟩ ::
             Call.fsync ⟨.hint, (mergeLoop cfg s sel order).mid⟩ :: c'') =
            ((mergeLoop cfg s sel order).calls ++ [Call.fsync ⟨.data, (mergeLoop cfg s sel order).mid⟩,
              Call.fsync ⟨.hint, (mergeLoop cfg s sel order).mid⟩]) ++ c'' := by simp
        rw [e3, syncCalls2_append, syncCalls2_append]
        apply fullySynced2_steps _ (allBut_fsyncs pi.sync)
        intro x hx
        exact hna' x (List.mem_cons_of_mem _ (List.mem_cons_of_mem _ hx))
      have hsf := powerLoss2_sameFiles hfs2 hp
      rw [syncCalls2_disk, hd] at hsf
      obtain ⟨kd, a, hclean, habs⟩ := hcl
      exact recoversW_sameFiles hclean habs hsf

end Store
