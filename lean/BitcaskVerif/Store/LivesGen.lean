/-
  Lives after a crash inside a merge, part 11: a general recovery theorem for directories that
  consist of the OLD files of a store satisfying the lives invariant, followed by NEW files
  (merge outputs) whose records are copies of records the index addresses.

  `visOf d`: the visible part of `d`, computed (every file with a hint file cut back to the
  accepted hint entries and as many records).  `HPn d` (= `HintsPrefix` with the number of records
  made explicit) is exactly what makes the hint files of `visOf d` exact.

  `recW_newFiles`: old files + new files `NI` with `HPn NI` whose records are copies (`CopyRec`)
  open to the contents of the store.  This covers every crash cut of the copy phase of a merge
  AND every power-loss image of such a cut (Store/LivesPower.lean): whatever part of the outputs
  reached the disk — records without hint entries, hint entries without records — the scan sees
  copies of live records or nothing.
-/
import BitcaskVerif.Store.LivesHistory

namespace Store


/-- the records of file `fid` the scan sees -/
def visRecs (d : Disk) (fid : Nat) (rs : List Rec) : List Rec :=
  match AL.get fid d.hint with
  | none => rs
  | some hs => rs.take (accOf d fid hs).length

/-- the visible part of a directory, computed: every file with a hint file is cut back to the
    accepted hint entries and as many records -/
def visOf (d : Disk) : Disk :=
  { data := d.data.map (fun p => (p.1, visRecs d p.1 p.2)),
    hint := d.hint.map (fun p => (p.1, accOf d p.1 p.2)),
    tails := d.tails }

theorem get_hint_visOf (d : Disk) (fid : Nat) :
    AL.get fid (visOf d).hint = (AL.get fid d.hint).map (accOf d fid) := by
  simp only [visOf]
  exact get_map_val (fun id (hs : List Hint) => accOf d id hs) fid d.hint

theorem dataOf_visOf (d : Disk) (fid : Nat) : dataOf (visOf d) fid = visRecs d fid (dataOf d fid) := by
  simp only [dataOf, visOf]
  rw [get_map_val (fun id (rs : List Rec) => visRecs d id rs)]
  cases AL.get fid d.data with
  | some v => rfl
  | none =>
    simp only [Option.map_none, Option.getD_none]
    unfold visRecs
    cases AL.get fid d.hint <;> simp

theorem keys_visOf (d : Disk) : AL.keys (visOf d).data = AL.keys d.data ∧ AL.keys (visOf d).hint = AL.keys d.hint :=
  ⟨keys_map_val (fun id (rs : List Rec) => visRecs d id rs) d.data,
   keys_map_val (fun id (hs : List Hint) => accOf d id hs) d.hint⟩

theorem fileSim_visOf (d : Disk) (fid : Nat) : FileSim (visOf d) d fid := by
  refine ⟨?_, ?_, ?_⟩
  · rw [dataOf_visOf]
    unfold visRecs
    cases AL.get fid d.hint with
    | none => exact List.prefix_refl _
    | some hs => exact List.take_prefix _ _
  · intro hg
    rw [dataOf_visOf]
    unfold visRecs
    rw [hg]
  · intro hs hg
    rw [get_hint_visOf, hg]; rfl

/-- `HintsPrefix` with the number of records made explicit: the accepted entries describe
    exactly as many records -/
def HPn (d : Disk) : Prop :=
  ∀ fid hs, AL.get fid d.hint = some hs →
    hintEvs fid (accOf d fid hs) = evData fid ((dataOf d fid).take (accOf d fid hs).length) 0

theorem hintsExact_visOf {d : Disk} (h : HPn d) : HintsExact (visOf d) := by
  intro fid hs' hg
  rw [get_hint_visOf] at hg
  cases hg0 : AL.get fid d.hint with
  | none => rw [hg0] at hg; cases hg
  | some hs =>
    rw [hg0] at hg
    simp only [Option.map_some, Option.some.injEq] at hg
    subst hg
    rw [dataOf_visOf]
    unfold visRecs
    rw [hg0]
    exact h fid hs hg0

theorem sim_visOf (d : Disk) : Sim (visOf d) d :=
  ⟨(keys_visOf d).1.symm, (keys_visOf d).2.symm, rfl, fileSim_visOf d⟩

/-! ### the general theorem -/

theorem asc_max {β : Type} : ∀ {l : List (Nat × β)}, Asc l → l ≠ [] →
    ∃ a, a ∈ AL.keys l ∧ ∀ id ∈ AL.keys l, id ≤ a
  | [], _, h => absurd rfl h
  | [x], _, _ => ⟨x.1, by simp [AL.keys], by intro id hid; simp [AL.keys] at hid; omega⟩
  | x :: y :: ys, h, _ => by
    obtain ⟨a, ha, hmax⟩ := asc_max (l := y :: ys) h.tail (by simp)
    refine ⟨a, ?_, ?_⟩
    · simp only [AL.keys, List.map_cons, List.mem_cons] at ha ⊢
      exact .inr ha
    · intro id hid
      simp only [AL.keys, List.map_cons, List.mem_cons] at hid
      rcases hid with rfl | hid
      · have := h.head_lt a ha
        omega
      · exact hmax id (by simp only [AL.keys, List.map_cons, List.mem_cons]; exact hid)

/-- the real directory and its visible part with DIFFERENT new files that are in the relation -/
theorem Sim.dapp2 {A : Nat} {d1 d n1 n : Disk} (h : Sim d1 d) (hb : Below A d) (hb1 : Below A d1)
    (hn : NewOk A d.tails n) (hk : AL.keys n.data = AL.keys n1.data)
    (hhk : AL.keys n.hint = AL.keys n1.hint) (ht : n1.tails = n.tails)
    (hfile : ∀ fid, A < fid → FileSim n1 n fid) : Sim (Store.dapp d1 n1) (Store.dapp d n) := by
  have hn1 : NewOk A d.tails n1 := ⟨by rw [← hk]; exact hn.ids, by rw [← hhk]; exact hn.hids, by rw [ht]; exact hn.tails⟩
  refine ⟨?_, ?_, ht, ?_⟩
  · show AL.keys (d.data ++ n.data) = AL.keys (d1.data ++ n1.data)
    rw [keys_append, keys_append, h.keys, hk]
  · show AL.keys (d.hint ++ n.hint) = AL.keys (d1.hint ++ n1.hint)
    rw [keys_append, keys_append, h.hkeys, hhk]
  · intro fid
    by_cases hf : fid ≤ A
    · exact (h.file fid).congr (dataOf_dapp_le hn1 hf) (dataOf_dapp_le hn hf) (get_hint_dapp_le hn1 hf)
        (get_hint_dapp_le hn hf) (hn.tails fid hf)
    · have hf' : A < fid := by omega
      exact (hfile fid hf').congr (dataOf_dapp_gt hb1 hf') (dataOf_dapp_gt hb hf') (get_hint_dapp_gt hb1 hf')
        (get_hint_dapp_gt hb hf') rfl

/-- every event of a directory with ascending ids is the event of a record at its position -/
theorem mem_allEvs_rec {d : Disk} (ha : Asc d.data) {e : Ev} (h : e ∈ allEvs d.data) :
    ∃ fid q r, fid ∈ AL.keys d.data ∧ recAt (dataOf d fid) q = some r ∧ e = mkEv fid q r := by
  obtain ⟨fid, rs, hm, he⟩ := mem_allEvs h
  obtain ⟨r, q, h1, h2, _⟩ := mem_evData he
  have hg := get_of_mem_asc ha hm
  refine ⟨fid, q, r, AL.mem_keys_of_get hg, ?_, by rw [h2, Nat.zero_add]⟩
  simp only [dataOf, hg, Option.getD_some]; exact h1

/-- **old files of a store satisfying the lives invariant + new files of copies** -/
theorem recW_newFiles {s : St} {d1 : Disk} (w : LJw s d1) {NI : Disk}
    (hn : NewOk s.active s.disk.tails NI) (hasc : Asc NI.data)
    (hhmax : ∀ id ∈ AL.keys NI.hint, ∃ b ∈ AL.keys NI.data, id ≤ b)
    (hHP : HPn NI) (hcopy : ∀ fid p r, recAt (dataOf NI fid) p = some r → CopyRec s r) :
    RecW (dapp s.disk NI) s.abs := by
  have kV := keys_visOf NI
  have hnV : NewOk s.active s.disk.tails (visOf NI) :=
    ⟨by rw [kV.1]; exact hn.ids, by rw [kV.2]; exact hn.hids, hn.tails⟩
  have hsim : Sim (dapp d1 (visOf NI)) (dapp s.disk NI) :=
    w.sim.dapp2 w.below w.below1 hn kV.1.symm kV.2.symm rfl (fun fid _ => fileSim_visOf NI fid)
  have hascV : Asc (visOf NI).data := by unfold Asc; rw [kV.1]; exact hasc
  have hascI : Asc (dapp d1 (visOf NI)).data := by
    show Asc (d1.data ++ (visOf NI).data)
    unfold Asc
    rw [keys_append, List.pairwise_append]
    refine ⟨w.rinv.asc, hascV, ?_⟩
    intro a ha b hb
    have := w.below1.ids a ha
    have := hnV.ids b hb
    omega
  have hxV : HintsExact (visOf NI) := hintsExact_visOf hHP
  have hxI : HintsExact (dapp d1 (visOf NI)) := by
    intro fid hs hg
    by_cases hf : fid ≤ s.active
    · rw [get_hint_dapp_le hnV hf] at hg
      rw [dataOf_dapp_le hnV hf]
      exact w.rinv.hx fid hs hg
    · have hf' : s.active < fid := by omega
      rw [get_hint_dapp_gt w.below1 hf'] at hg
      rw [dataOf_dapp_gt w.below1 hf']
      exact hxV fid hs hg
  have hne : (dapp d1 (visOf NI)).data ≠ [] := by
    intro hc
    have := w.rinv.active_mem
    have h2 : s.active ∈ AL.keys (dapp d1 (visOf NI)).data := by
      show s.active ∈ AL.keys (d1.data ++ (visOf NI).data)
      rw [keys_append]; exact List.mem_append_left _ this
    rw [hc] at h2; simp [AL.keys] at h2
  obtain ⟨a, ha, hmax⟩ := asc_max hascI hne
  have hmemK : ∀ b, b ∈ AL.keys (visOf NI).data → b ∈ AL.keys (dapp d1 (visOf NI)).data := by
    intro b hb
    show b ∈ AL.keys (d1.data ++ (visOf NI).data)
    rw [keys_append]; exact List.mem_append_right _ hb
  have hAa : s.active ≤ a := by
    apply hmax
    show s.active ∈ AL.keys (d1.data ++ (visOf NI).data)
    rw [keys_append]; exact List.mem_append_left _ w.rinv.active_mem
  have hhm : ∀ id ∈ AL.keys (dapp d1 (visOf NI)).hint, id ≤ a := by
    intro id hid
    have hid' : id ∈ AL.keys (d1.hint ++ (visOf NI).hint) := hid
    rw [keys_append] at hid'
    rcases List.mem_append.mp hid' with h1 | h1
    · have := w.below1.hids id h1; omega
    · rw [kV.2] at h1
      obtain ⟨b, hb, hle⟩ := hhmax id h1
      have := hmax b (hmemK b (by rw [kV.1]; exact hb))
      omega
  have hkd : kdF (rebuild (dapp d1 (visOf NI))).1.keydir = replay (allEvs (dapp d1 (visOf NI)).data) :=
    rebuild_keydir hascI hxI
  have hclean : Clean (dapp d1 (visOf NI)) (rebuild (dapp d1 (visOf NI))).1.keydir a :=
    ⟨hascI, hxI, ha, hmax, hhm, fun k loc hk => locOk_of_replay' hascI (by rw [← hkd]; exact hk), hkd⟩
  have hsplit : allEvs (dapp d1 (visOf NI)).data = allEvs d1.data ++ allEvs (visOf NI).data := allEvs_append _ _
  have hkdS : ∀ k, AL.get k s.keydir = replay (allEvs d1.data) k := fun k => congrFun w.kd_eq k
  -- the events of the new visible files
  have hev : ∀ e ∈ allEvs (visOf NI).data, ∃ fid q r, s.active < fid ∧ e = mkEv fid q r ∧
      recAt (dataOf (visOf NI) fid) q = some r ∧ recAt (dataOf NI fid) q = some r ∧ CopyRec s r := by
    intro e he
    obtain ⟨fid, q, r, hm, h1, h2⟩ := mem_allEvs_rec hascV he
    have h3 : recAt (dataOf NI fid) q = some r := by
      obtain ⟨t, et⟩ := (fileSim_visOf NI fid).pre
      rw [← et]; exact recAt_append_left h1 t
    exact ⟨fid, q, r, hnV.ids fid hm, h2, h1, h3, hcopy fid q r h3⟩
  have key : ∀ k, (lastFor k (allEvs (visOf NI).data) = none ∧
        AL.get k (rebuild (dapp d1 (visOf NI))).1.keydir = AL.get k s.keydir) ∨
      ∃ fid q r loc0, s.active < fid ∧
        AL.get k (rebuild (dapp d1 (visOf NI))).1.keydir = some ⟨fid, q, r.len, r.ts⟩ ∧
        recAt (dataOf (visOf NI) fid) q = some r ∧ recAt (dataOf NI fid) q = some r ∧ r.key = k ∧
        AL.get k s.keydir = some loc0 ∧ recAt (dataOf s.disk loc0.fid) loc0.pos = some r := by
    intro k
    have hk := congrFun hkd k
    unfold kdF at hk
    rw [hsplit, replay_eq, lastFor_append] at hk
    cases hl : lastFor k (allEvs (visOf NI).data) with
    | none =>
      left
      refine ⟨rfl, ?_⟩
      rw [hl] at hk
      rw [hk, hkdS, replay_eq]
    | some e =>
      right
      rw [hl] at hk
      obtain ⟨hek, hem⟩ := lastFor_key hl
      obtain ⟨fid, q, r, hf, he, hrV, hrI, hv, loc0, hk0, hr0⟩ := hev e hem
      have hrk : r.key = k := by rw [← hek, he]; rfl
      have hnone : r.val.isNone = false := by
        cases hv' : r.val with
        | none => simp [hv'] at hv
        | some v => rfl
      refine ⟨fid, q, r, loc0, hf, ?_, hrV, hrI, hrk, by rw [← hrk]; exact hk0, hr0⟩
      rw [hk]
      simp only [evVal, he, mkEv, hnone, Bool.false_eq_true, ↓reduceIte]
  have hkeepOld : Keeps s.active d1 (dapp d1 (visOf NI)) := by
    intro fid p x hle h1 h2
    rw [dataOf_dapp_le hnV hle, get_data_dapp_le hnV hle]
    exact ⟨h1, h2⟩
  -- (i) the contents
  have habs : absOf (dapp d1 (visOf NI)) (rebuild (dapp d1 (visOf NI))).1.keydir = s.abs := by
    funext k
    show St.abs { disk := dapp d1 (visOf NI), keydir := (rebuild (dapp d1 (visOf NI))).1.keydir } k = s.abs k
    rcases key k with ⟨_, hk⟩ | ⟨fid, q, r, loc0, hf, hkk, hrV, _, _, hk0, hr0⟩
    · rw [← congrFun w.abs k]
      apply abs_keeps (b := s.active)
      · intro loc hl
        have := w.rinv.inv.locs k loc hl
        exact ⟨this, LocOk.fid_le w.rinv.inv this⟩
      · exact hk
      · exact hkeepOld
    · obtain ⟨x, x1, _, _, x4, x5⟩ := w.inv.locs k loc0 hk0
      rw [hr0] at x1
      cases x1
      rw [abs_of_locOk hk0 hr0 x4 x5]
      refine abs_of_locOk (s := { disk := dapp d1 (visOf NI), keydir := (rebuild (dapp d1 (visOf NI))).1.keydir })
        (loc := ⟨fid, q, r.len, r.ts⟩) hkk ?_ rfl ?_
      · show recAt (dataOf (dapp d1 (visOf NI)) fid) q = some r
        rw [dataOf_dapp_gt w.below1 hf]; exact hrV
      · show (AL.get fid (dapp d1 (visOf NI)).data).isSome
        rw [get_data_dapp_gt w.below1 hf]; exact recAt_some_isSome hrV
  -- (ii) the invisible records
  have hj : JunkOK (dapp d1 (visOf NI)) (dapp s.disk NI) (kdF (rebuild (dapp d1 (visOf NI))).1.keydir) := by
    intro fid p j h1 h2
    by_cases hf : fid ≤ s.active
    · rw [dataOf_dapp_le hn hf] at h1
      rw [dataOf_dapp_le hnV hf] at h2
      obtain ⟨v, P⟩ := w.junk fid p j h1 h2
      refine ⟨v, fun loc hl hlt => ?_⟩
      unfold kdF at hl
      rcases key j.key with ⟨_, hk⟩ | ⟨fid', q, r, loc0, hf', hkk, _, _, _, _, _⟩
      · rw [hk] at hl
        have := P loc hl hlt
        have hle : loc.fid ≤ s.active := w.inv.ids _ (recAt_some_mem this)
        rw [dataOf_dapp_le hn hle]; exact this
      · rw [hkk] at hl
        have : loc.fid = fid' := by rw [← Option.some.inj hl]
        unfold lexlt at hlt
        omega
    · have hf' : s.active < fid := by omega
      rw [dataOf_dapp_gt w.below hf'] at h1
      obtain ⟨v, loc0, hk0, hr0⟩ := hcopy fid p j h1
      refine ⟨v, fun loc hl _ => ?_⟩
      unfold kdF at hl
      rcases key j.key with ⟨_, hk⟩ | ⟨fid', q, r, loc0', hf'', hkk, _, hrI, _, hk0', hr0'⟩
      · rw [hk, hk0] at hl
        cases hl
        have hle : loc0.fid ≤ s.active := w.inv.ids _ (recAt_some_mem hr0)
        rw [dataOf_dapp_le hn hle]; exact hr0
      · rw [hk0] at hk0'
        cases hk0'
        rw [hr0] at hr0'
        cases hr0'
        rw [hkk] at hl
        cases hl
        show recAt (dataOf (dapp s.disk NI) fid') q = some j
        rw [dataOf_dapp_gt w.below hf'']; exact hrI
  -- (iii) nothing absent is resurrectable
  have hf : FullAll (dapp s.disk NI) (kdF (rebuild (dapp d1 (visOf NI))).1.keydir) := by
    intro k hk
    unfold kdF at hk
    rcases key k with ⟨_, hkk⟩ | ⟨fid', q, r, loc0, _, hkk, _, _, _, _, _⟩
    · rw [hkk] at hk
      show replay (allEvs (s.disk.data ++ NI.data)) k = none
      rw [allEvs_append, replay_append_of_no_key]
      · exact w.fullA k hk
      · intro e he hek
        obtain ⟨fid, q, r, _, h1, h2⟩ := mem_allEvs_rec hasc he
        obtain ⟨_, loc0, hk0, _⟩ := hcopy fid q r h1
        have : r.key = k := by rw [← hek, h2]; rfl
        rw [this, hk] at hk0
        cases hk0
    · rw [hkk] at hk; cases hk
  exact ⟨_, _, a, hclean, habs, hsim, hj, hf⟩


end Store
