/-
  Histories with failed writes (C20): `stepF` / `runF`, their specification on the abstract map,
  the one-step refinement, and the durable map (what a restart reads) for merge-free histories.
-/
import BitcaskVerif.Store.FaultRecovery

namespace Store.Tr
inductive FOut where
  | done (o : OpOut)
  | error
deriving DecidableEq

def FOut.ofPut : Bool → FOut
  | true => .done .done
  | false => .error

def FOut.ofDel : Option Bool → FOut
  | some b => .done (.flag b)
  | none => .error

/-- one operation, possibly with a failing call (faults are modelled for put and delete; a `get`
    or `merge` paired with a fault runs fault-free) -/
def stepF (cfg : Cfg) (s : St) (op : Op) (fault : Option Fault) : St × FOut :=
  match op with
  | .put k v => ((putF cfg s 0 k v fault).1, .ofPut (putF cfg s 0 k v fault).2)
  | .del k => ((deleteF cfg s 0 k fault).1, .ofDel (deleteF cfg s 0 k fault).2)
  | .get k => (s, .done (.read (get s k)))
  | .merge sel order => ((mergeWith cfg s sel order).1, .done .done)

/-- the specification: a failed put / delete returns the error and has no effect -/
def _root_.Store.Map.stepF (m : Map) (op : Op) (fault : Option Fault) : Map × FOut :=
  match op, fault with
  | .put _ _, some _ => (m, .error)
  | .del _, some _ => (m, .error)
  | op, _ => ((m.step op).1, .done (m.step op).2)

def runF (cfg : Cfg) : St → List (Op × Option Fault) → St × List FOut
  | s, [] => (s, [])
  | s, (op, fl) :: ops => ((runF cfg (stepF cfg s op fl).1 ops).1, (stepF cfg s op fl).2 :: (runF cfg (stepF cfg s op fl).1 ops).2)

def _root_.Store.Map.runF : Map → List (Op × Option Fault) → Map × List FOut
  | m, [] => (m, [])
  | m, (op, fl) :: ops => ((Map.runF (m.stepF op fl).1 ops).1, (m.stepF op fl).2 :: (Map.runF (m.stepF op fl).1 ops).2)

def ValidF (cfg : Cfg) : St → List (Op × Option Fault) → Prop
  | _, [] => True
  | s, (op, fl) :: ops =>
    (match op with
     | .merge sel order => (∀ id, id ∈ sel → id ≤ s.active) ∧ Covers order s
     | _ => True) ∧ ValidF cfg (stepF cfg s op fl).1 ops

theorem stepF_refines (cfg : Cfg) (s : St) (op : Op) (fl : Option Fault) (h : Inv s)
    (hv : match op with
          | .merge sel order => (∀ id, id ∈ sel → id ≤ s.active) ∧ Covers order s
          | _ => True) :
    Inv (stepF cfg s op fl).1 ∧ (stepF cfg s op fl).2 = (s.abs.stepF op fl).2 ∧
      (stepF cfg s op fl).1.abs = (s.abs.stepF op fl).1 := by
  have hok : ∀ op', (match op' with
          | .merge sel order => (∀ id, id ∈ sel → id ≤ s.active) ∧ Covers order s
          | _ => True) → Inv (stepF cfg s op' none).1 ∧ (stepF cfg s op' none).2 = .done (s.abs.step op').2 ∧
      (stepF cfg s op' none).1.abs = (s.abs.step op').1 := by
    intro op' hv'
    obtain ⟨a, b, c⟩ := step_refines cfg s op' h hv'
    cases op' with
    | put k v => exact ⟨a, rfl, c⟩
    | del k => exact ⟨a, by rw [← b]; rfl, c⟩
    | get k => exact ⟨a, by rw [← b]; rfl, c⟩
    | merge sel order => exact ⟨a, rfl, c⟩
  cases fl with
  | none =>
    obtain ⟨a, b, c⟩ := hok op hv
    cases op <;> exact ⟨a, b, c⟩
  | some f =>
    cases op with
    | put k v => exact ⟨writeF_inv s _ f h, rfl, writeF_abs s _ f h⟩
    | del k => exact ⟨writeF_inv s _ f h, rfl, writeF_abs s _ f h⟩
    | get k => exact hok (.get k) hv
    | merge sel order => exact hok (.merge sel order) hv

/-- the id invariant (`Store/TraceLemmas.lean`) holds along every history with failed writes -/
theorem stepF_idinv (cfg : Cfg) (s : St) (op : Op) (fl : Option Fault) (h : IdInv s)
    (hv : match op with
          | .merge sel order => (∀ id, id ∈ sel → id ≤ s.active) ∧ Covers order s
          | _ => True) : IdInv (stepF cfg s op fl).1 := by
  have hok : IdInv (step cfg s op).1 := by
    rw [← stepC_ofOp]
    apply run_idinv cfg [TOp.ofOp op] s h
    refine ⟨?_, trivial⟩
    cases op with
    | put k v => trivial
    | del k => trivial
    | get k => trivial
    | merge sel order => exact hv.1
  cases fl with
  | none => cases op <;> exact hok
  | some f =>
    cases op with
    | put k v => exact writeF_idinv s _ f h
    | del k => exact writeF_idinv s _ f h
    | get k => exact hok
    | merge sel order => exact hok

theorem runF_idinv (cfg : Cfg) (ops : List (Op × Option Fault)) : ∀ (s : St), IdInv s → ValidF cfg s ops →
    IdInv (runF cfg s ops).1 := by
  induction ops with
  | nil => intro s h _; exact h
  | cons x ops ih =>
    obtain ⟨op, fl⟩ := x
    intro s h hv
    exact ih _ (stepF_idinv cfg s op fl h hv.1) hv.2


/-! ### the durable map -/

/-- the durable effect of one operation: a successful put / delete is durable; a failed one is
    durable iff its entry reached the file completely -/
def _root_.Store.Map.stepDur (d : Map) (op : Op) (fl : Option Fault) : Map :=
  match op, fl with
  | .put k v, none => d.set k v
  | .put k v, some f => if f.taken then d.set k v else d
  | .del k, none => d.del k
  | .del k, some f => if f.taken then d.del k else d
  | _, _ => d

def _root_.Store.Map.runDur : Map → List (Op × Option Fault) → Map
  | d, [] => d
  | d, (op, fl) :: ops => Map.runDur (d.stepDur op fl) ops

def _root_.Store.Op.isMerge : Op → Bool
  | .merge _ _ => true
  | _ => false

/-- histories without merges -/
def NoMerge (ops : List (Op × Option Fault)) : Prop := ∀ x, x ∈ ops → x.1.isMerge = false

instance (ops : List (Op × Option Fault)) : Decidable (NoMerge ops) :=
  inferInstanceAs (Decidable (∀ x, x ∈ ops → x.1.isMerge = false))

theorem NoMerge.head {x : Op × Option Fault} {ops : List (Op × Option Fault)} (h : NoMerge (x :: ops)) :
    x.1.isMerge = false := h x List.mem_cons_self

theorem NoMerge.tail {x : Op × Option Fault} {ops : List (Op × Option Fault)} (h : NoMerge (x :: ops)) :
    NoMerge ops := fun y hy => h y (List.mem_cons_of_mem _ hy)

theorem set_eq_ite (d : Map) (k : Key) (v : Val) :
    d.set k v = fun k' => if k' = ({ ts := 0, key := k, val := some v } : Rec).key then
      ({ ts := 0, key := k, val := some v } : Rec).val else d k' := rfl

theorem del_eq_ite (d : Map) (k : Key) :
    d.del k = fun k' => if k' = ({ ts := 0, key := k, val := none } : Rec).key then
      ({ ts := 0, key := k, val := none } : Rec).val else d k' := rfl

/-- one operation without merge: the durability invariant is kept and the durable map makes the
    step `Map.stepDur` -/
theorem stepF_dur (cfg : Cfg) (s : St) (op : Op) (fl : Option Fault) (h : DurInv s)
    (hm : op.isMerge = false) :
    DurInv (stepF cfg s op fl).1 ∧ (reopen (stepF cfg s op fl).1).1.abs = ((reopen s).1.abs).stepDur op fl := by
  cases op with
  | merge sel order => simp [Op.isMerge] at hm
  | get k => cases fl <;> exact ⟨h, rfl⟩
  | put k v =>
    cases fl with
    | none =>
      obtain ⟨a, b⟩ := write_dur cfg s { ts := 0, key := k, val := some v } h
      refine ⟨a.congr (put_disk ..) (put_active ..), ?_⟩
      show (reopen (put cfg s 0 k v).1).1.abs = _
      rw [reopen_congr_disk (put_disk cfg s 0 k v), b]; rfl
    | some f =>
      by_cases ht : f.taken = true
      · obtain ⟨a, b⟩ := writeF_taken_dur s { ts := 0, key := k, val := some v } f h ((Fault.taken_iff f).mp ht)
        refine ⟨a, ?_⟩
        show (reopen (writeF s _ f)).1.abs = _
        rw [b]; simp only [Map.stepDur, ht, ↓reduceIte]; rfl
      · have ht' : f.taken = false := by simpa using ht
        obtain ⟨hdr, rfl⟩ := Fault.not_taken f ht'
        obtain ⟨a, b⟩ := writeF_untaken_dur s { ts := 0, key := k, val := some v } hdr h
        exact ⟨a, by show (reopen (writeF s _ _)).1.abs = _; rw [b]; rfl⟩
  | del k =>
    cases fl with
    | none =>
      obtain ⟨a, b⟩ := write_dur cfg s { ts := 0, key := k, val := none } h
      refine ⟨a.congr (delete_disk ..) (delete_active ..), ?_⟩
      show (reopen (delete cfg s 0 k).1).1.abs = _
      rw [reopen_congr_disk (delete_disk cfg s 0 k), b]; rfl
    | some f =>
      by_cases ht : f.taken = true
      · obtain ⟨a, b⟩ := writeF_taken_dur s { ts := 0, key := k, val := none } f h ((Fault.taken_iff f).mp ht)
        refine ⟨a, ?_⟩
        show (reopen (writeF s _ f)).1.abs = _
        rw [b]; simp only [Map.stepDur, ht, ↓reduceIte]; rfl
      · have ht' : f.taken = false := by simpa using ht
        obtain ⟨hdr, rfl⟩ := Fault.not_taken f ht'
        obtain ⟨a, b⟩ := writeF_untaken_dur s { ts := 0, key := k, val := none } hdr h
        exact ⟨a, by show (reopen (writeF s _ _)).1.abs = _; rw [b]; rfl⟩

theorem runF_dur (cfg : Cfg) (ops : List (Op × Option Fault)) : ∀ (s : St), DurInv s → NoMerge ops →
    DurInv (runF cfg s ops).1 ∧ (reopen (runF cfg s ops).1).1.abs = Map.runDur (reopen s).1.abs ops := by
  induction ops with
  | nil => intro s h _; exact ⟨h, rfl⟩
  | cons x ops ih =>
    obtain ⟨op, fl⟩ := x
    intro s h hm
    obtain ⟨a, b⟩ := stepF_dur cfg s op fl h hm.head
    obtain ⟨c, d⟩ := ih _ a hm.tail
    simp only [runF, Map.runDur]
    exact ⟨c, by rw [d, b]⟩

theorem validF_of_noMerge (cfg : Cfg) (ops : List (Op × Option Fault)) : ∀ (s : St), NoMerge ops → ValidF cfg s ops := by
  induction ops with
  | nil => intro s _; trivial
  | cons x ops ih =>
    obtain ⟨op, fl⟩ := x
    intro s hm
    refine ⟨?_, ih _ hm.tail⟩
    cases op with
    | merge sel order => have := hm.head; simp [Op.isMerge] at this
    | put k v => trivial
    | del k => trivial
    | get k => trivial

/-- after a restart no read hits a bad location -/
theorem DurInv.reads_sound {s : St} (h : DurInv s) (k : Key) : get (reopen s).1 k ≠ .corrupt := by
  cases hk : AL.get k (reopen s).1.keydir with
  | none => rw [get_absent_of_none hk]; simp
  | some loc =>
    obtain ⟨v, hv⟩ := get_of_locOk hk (h.locs k loc hk)
    rw [hv]; simp

/-! ### which keys may differ after a restart -/

/-- is the last put / delete of `k` in the history a failed one? (`b`: the status before) -/
def dirtyAfter (k : Key) : Bool → List (Op × Option Fault) → Bool
  | b, [] => b
  | b, (op, fl) :: ops =>
    dirtyAfter k (match op with
      | .put k' _ => if k' = k then fl.isSome else b
      | .del k' => if k' = k then fl.isSome else b
      | _ => b) ops

/-- the acknowledged map and the durable map agree on every key that is not dirty -/
theorem dur_agree (k : Key) (ops : List (Op × Option Fault)) : ∀ (b : Bool) (m d : Map),
    (b = false → m k = d k) → dirtyAfter k b ops = false → (Map.runF m ops).1 k = Map.runDur d ops k := by
  induction ops with
  | nil => intro b m d h hb; exact h hb
  | cons x ops ih =>
    obtain ⟨op, fl⟩ := x
    intro b m d h hb
    simp only [Map.runF, Map.runDur]
    simp only [dirtyAfter] at hb
    refine ih _ _ _ ?_ hb
    cases op with
    | get k' => intro hb'; cases fl <;> exact h hb'
    | merge sel order => intro hb'; cases fl <;> exact h hb'
    | put k' v =>
      by_cases e : k' = k
      · simp only [e, ↓reduceIte]
        intro hfl
        cases fl with
        | none => simp [Map.stepF, Map.stepDur, Map.step, Map.set]
        | some f => simp at hfl
      · simp only [e, ↓reduceIte]
        intro hb'
        have e' : ¬ k = k' := fun c => e c.symm
        cases fl with
        | none => simp [Map.stepF, Map.stepDur, Map.step, Map.set, e', h hb']
        | some f =>
          by_cases ht : f.taken = true
          · simp [Map.stepF, Map.stepDur, ht, Map.set, e', h hb']
          · simp [Map.stepF, Map.stepDur, ht, h hb']
    | del k' =>
      by_cases e : k' = k
      · simp only [e, ↓reduceIte]
        intro hfl
        cases fl with
        | none => simp [Map.stepF, Map.stepDur, Map.step, Map.del]
        | some f => simp at hfl
      · simp only [e, ↓reduceIte]
        intro hb'
        have e' : ¬ k = k' := fun c => e c.symm
        cases fl with
        | none => simp [Map.stepF, Map.stepDur, Map.step, Map.del, e', h hb']
        | some f =>
          by_cases ht : f.taken = true
          · simp [Map.stepF, Map.stepDur, ht, Map.del, e', h hb']
          · simp [Map.stepF, Map.stepDur, ht, h hb']

/-! ### restarts inside a history -/

/-- reopening twice rebuilds the same index as reopening once -/
theorem rebuild_reopen {s : St} (h : IdInv s) : (rebuild (reopen s).1.disk).1 = (rebuild s.disk).1 := by
  have hb : ∀ x, x ∈ AL.keys s.disk.data → x < s.active + 1 := by
    intro x hx; have := h.ids x hx; omega
  have ha := reopen_active h
  have hk : AL.keys (reopen s).1.disk.data = AL.keys s.disk.data ++ [s.active + 1] := by
    rw [reopen_disk, ha]
    exact keys_set_new _ _ _ (fun hc => Nat.lt_irrefl _ (hb _ hc))
  refine (rebuild_create (d := s.disk) (b := s.active + 1) hk hb rfl (h.no_hint_above (by omega)) ?_ ?_ ?_).1
  · intro fid _; exact reopen_dataOf h fid
  · rw [reopen_dataOf h]; exact dataOf_above h (by omega)
  · intro fid _; rfl

theorem reopen_reopen_abs {s : St} (h : IdInv s) : (reopen (reopen s).1).1.abs = (reopen s).1.abs := by
  apply abs_of_dataOf_eq
  · rw [reopen_keydir, reopen_keydir, rebuild_reopen h]
  · intro fid; exact reopen_dataOf (reopen_idinv h) fid

/-- the restarted store satisfies the store invariant and is itself healthy to restart -/
theorem DurInv.reopen {s : St} (h : DurInv s) : Inv (reopen s).1 ∧ DurInv (reopen s).1 := by
  have hi := reopen_idinv h.idinv
  constructor
  · exact ⟨h.locs, hi.ids, fun id hid => Nat.le_of_lt (hi.hlt id hid), hi.act⟩
  · refine ⟨hi, ?_⟩
    intro k loc hg
    rw [reopen_keydir, rebuild_reopen h.idinv] at hg
    exact (h.locs k loc hg).of_dataOf_eq (fun fid => reopen_dataOf hi fid)

/-- history events: an operation (possibly failing), or a restart of the store -/
inductive HEv where
  | op (o : Op) (fl : Option Fault)
  | restart

def stepH (cfg : Cfg) (s : St) : HEv → St × Option FOut
  | .op o fl => ((stepF cfg s o fl).1, some (stepF cfg s o fl).2)
  | .restart => ((reopen s).1, none)

def runH (cfg : Cfg) : St → List HEv → St × List (Option FOut)
  | s, [] => (s, [])
  | s, e :: es => ((runH cfg (stepH cfg s e).1 es).1, (stepH cfg s e).2 :: (runH cfg (stepH cfg s e).1 es).2)

/-- the specification: the acknowledged map `m` and the durable map `d`; a restart forgets `m` -/
structure SpecSt where
  m : Map
  d : Map

def SpecSt.step (x : SpecSt) : HEv → SpecSt × Option FOut
  | .op o fl => ({ m := (x.m.stepF o fl).1, d := x.d.stepDur o fl }, some (x.m.stepF o fl).2)
  | .restart => ({ m := x.d, d := x.d }, none)

def SpecSt.run : SpecSt → List HEv → SpecSt × List (Option FOut)
  | x, [] => (x, [])
  | x, e :: es => ((SpecSt.run (x.step e).1 es).1, (x.step e).2 :: (SpecSt.run (x.step e).1 es).2)

def HEv.isMerge : HEv → Bool
  | .op o _ => o.isMerge
  | .restart => false

structure HRel (s : St) (x : SpecSt) : Prop where
  inv : Inv s
  dur : DurInv s
  abs : s.abs = x.m
  dabs : (reopen s).1.abs = x.d

theorem valid_of_not_merge (s : St) (o : Op) : o.isMerge = false →
    (match o with
     | .merge sel order => (∀ id, id ∈ sel → id ≤ s.active) ∧ Covers order s
     | _ => True) := by
  intro h
  cases o with
  | merge sel order => simp [Op.isMerge] at h
  | put k v => trivial
  | del k => trivial
  | get k => trivial

theorem stepH_refines (cfg : Cfg) (s : St) (x : SpecSt) (e : HEv) (h : HRel s x) (hm : e.isMerge = false) :
    HRel (stepH cfg s e).1 (x.step e).1 ∧ (stepH cfg s e).2 = (x.step e).2 := by
  cases e with
  | restart =>
    obtain ⟨a, b⟩ := h.dur.reopen
    refine ⟨⟨a, b, h.dabs, ?_⟩, rfl⟩
    show (reopen (reopen s).1).1.abs = x.d
    rw [← h.dabs]; exact reopen_reopen_abs h.dur.idinv
  | op o fl =>
    have hm' : o.isMerge = false := hm
    have hv := valid_of_not_merge s o hm'
    obtain ⟨i1, i2, i3⟩ := stepF_refines cfg s o fl h.inv hv
    obtain ⟨d1, d2⟩ := stepF_dur cfg s o fl h.dur hm'
    refine ⟨⟨i1, d1, ?_, ?_⟩, ?_⟩
    · show (stepF cfg s o fl).1.abs = (x.m.stepF o fl).1
      rw [i3, h.abs]
    · show (reopen (stepF cfg s o fl).1).1.abs = x.d.stepDur o fl
      rw [d2, h.dabs]
    · show some (stepF cfg s o fl).2 = some (x.m.stepF o fl).2
      rw [i2, h.abs]

theorem runH_refines (cfg : Cfg) (es : List HEv) : ∀ (s : St) (x : SpecSt), HRel s x →
    (∀ e, e ∈ es → e.isMerge = false) →
    (runH cfg s es).2 = (x.run es).2 ∧ HRel (runH cfg s es).1 (x.run es).1 := by
  induction es with
  | nil => intro s x h _; exact ⟨rfl, h⟩
  | cons e es ih =>
    intro s x h hm
    obtain ⟨a, b⟩ := stepH_refines cfg s x e h (hm e List.mem_cons_self)
    obtain ⟨c, d⟩ := ih _ _ a (fun y hy => hm y (List.mem_cons_of_mem _ hy))
    simp only [runH, SpecSt.run]
    exact ⟨by rw [b, c], d⟩

theorem fresh_hrel : HRel fresh { m := Map.empty, d := Map.empty } :=
  ⟨fresh_inv, fresh_durInv, fresh_abs, fresh_dur_abs⟩

end Store.Tr