/-
  Byte-codec laws for `Store/Codec.lean`: encodings have the modelled sizes, decoding inverts
  encoding, a strict prefix of an encoding is "cut short" (`eof`, never an error), and a file
  made of whole entries followed by a truncated one scans to exactly the whole entries.
  Core Lean only.
-/
import BitcaskVerif.Store.CodecBase

namespace Store

/-! ### encodability bounds -/

/-- the record is encodable: lengths fit in u64, timestamp fits in i64 -/
def Rec.Enc (r : Rec) : Prop :=
  r.key.length < 18446744073709551616 ∧ (∀ v, r.val = some v → v.length < 18446744073709551616) ∧
  -9223372036854775808 ≤ r.ts ∧ r.ts < 9223372036854775808

def Hint.Enc (h : Hint) : Prop :=
  h.key.length < 18446744073709551616 ∧ h.len < 18446744073709551616 ∧ h.pos < 18446744073709551616 ∧
  -9223372036854775808 ≤ h.ts ∧ h.ts < 9223372036854775808

/-! ### sizes -/

theorem encRec_length (r : Rec) : (encRec r).length = r.len := by
  unfold encRec Rec.len
  cases r.val <;> simp <;> omega

theorem encHint_length (h : Hint) : (encHint h).length = h.size := by
  unfold encHint Hint.size
  simp
  omega

theorem flatMap_encRec_length (rs : List Rec) : (rs.flatMap encRec).length = fileSize rs := by
  induction rs with
  | nil => rfl
  | cons r rs ih => simp [List.flatMap_cons, encRec_length, ih]

theorem flatMap_encHint_length (hs : List Hint) : (hs.flatMap encHint).length = hintFileSize hs := by
  induction hs with
  | nil => rfl
  | cons h hs ih => simp [List.flatMap_cons, encHint_length, ih, hintFileSize]

/-! ### decoding inverts encoding -/

theorem decRec_encRec (r : Rec) (hr : r.Enc) (rest : List UInt8) :
    decRec (encRec r ++ rest) = .ok r rest := by
  obtain ⟨ts, key, val⟩ := r
  obtain ⟨hk, hv, ht1, ht2⟩ := hr
  simp only at hk hv ht1 ht2
  unfold decRec encRec
  simp only [List.append_assoc]
  rw [takeN_append_left (i64le_length ts)]
  simp only
  rw [takeN_append_left (u64le_length _)]
  simp only [leNat_u64le _ hk]
  rw [takeN_append_left rfl]
  simp only [toI64_leNat_i64le ts ht1 ht2]
  cases val with
  | none => rfl
  | some v =>
    simp only [List.cons_append, List.nil_append, List.append_assoc]
    rw [takeN_append_left (u64le_length _)]
    simp only [leNat_u64le _ (hv v rfl)]
    rw [takeN_append_left rfl]

theorem decHint_encHint (h : Hint) (hh : h.Enc) (rest : List UInt8) :
    decHint (encHint h ++ rest) = .ok h rest := by
  obtain ⟨ts, len, pos, key⟩ := h
  obtain ⟨hk, hl, hp, ht1, ht2⟩ := hh
  simp only at hk hl hp ht1 ht2
  unfold decHint encHint
  simp only [List.append_assoc]
  rw [takeN_append_left (i64le_length ts)]
  simp only
  rw [takeN_append_left (u64le_length _)]
  simp only
  rw [takeN_append_left (u64le_length _)]
  simp only
  rw [takeN_append_left (u64le_length _)]
  simp only [leNat_u64le _ hk]
  rw [takeN_append_left rfl]
  simp only [toI64_leNat_i64le ts ht1 ht2, leNat_u64le _ hl, leNat_u64le _ hp]

/-! ### the one-entry decoders are stable under appending bytes -/

theorem decRec_append_ok {p : List UInt8} {r : Rec} {rest : List UInt8} (h : decRec p = .ok r rest)
    (q : List UInt8) : decRec (p ++ q) = .ok r (rest ++ q) := by
  unfold decRec at h
  split at h
  · cases h
  · rename_i t r1 h1
    split at h
    · cases h
    · rename_i kl r2 h2
      split at h
      · cases h
      · rename_i k r3 h3
        split at h
        · cases h
        · rename_i r4
          cases h
          unfold decRec
          simp [takeN_append_of_some h1, takeN_append_of_some h2, takeN_append_of_some h3]
        · rename_i r4
          split at h
          · cases h
          · rename_i vl r5 h5
            split at h
            · cases h
            · rename_i v r6 h6
              cases h
              unfold decRec
              simp [takeN_append_of_some h1, takeN_append_of_some h2, takeN_append_of_some h3,
                takeN_append_of_some h5, takeN_append_of_some h6]
        · cases h

theorem decRec_append_bad {p : List UInt8} (h : decRec p = .bad) (q : List UInt8) :
    decRec (p ++ q) = .bad := by
  unfold decRec at h
  split at h
  · cases h
  · rename_i t r1 h1
    split at h
    · cases h
    · rename_i kl r2 h2
      split at h
      · cases h
      · rename_i k r3 h3
        split at h
        · cases h
        · cases h
        · rename_i r4
          split at h
          · cases h
          · split at h <;> cases h
        · rename_i b r4 hb0 hb1
          unfold decRec
          simp only [takeN_append_of_some h1, takeN_append_of_some h2, takeN_append_of_some h3,
            List.cons_append]

theorem decHint_append_ok {p : List UInt8} {x : Hint} {rest : List UInt8}
    (h : decHint p = .ok x rest) (q : List UInt8) : decHint (p ++ q) = .ok x (rest ++ q) := by
  unfold decHint at h
  split at h
  · cases h
  · rename_i t r1 h1
    split at h
    · cases h
    · rename_i l r2 h2
      split at h
      · cases h
      · rename_i ps r3 h3
        split at h
        · cases h
        · rename_i kl r4 h4
          split at h
          · cases h
          · rename_i k r5 h5
            cases h
            unfold decHint
            simp [takeN_append_of_some h1, takeN_append_of_some h2, takeN_append_of_some h3,
              takeN_append_of_some h4, takeN_append_of_some h5]

theorem decHint_ne_bad (p : List UInt8) : decHint p ≠ .bad := by
  unfold decHint
  intro h
  repeat' (split at h)
  all_goals cases h

/-! ### a strict prefix of an encoding is cut short -/

/-- a strict prefix of an encoding is "cut short": eof, never an error -/
theorem decRec_prefix_eof (r : Rec) (hr : r.Enc) (p : List UInt8) (hp : p <+: encRec r)
    (hlt : p.length < (encRec r).length) : decRec p = .eof := by
  obtain ⟨q, hq⟩ := hp
  have hfull : decRec (p ++ q) = .ok r [] := by
    have := decRec_encRec r hr []
    rwa [List.append_nil, ← hq] at this
  have hqne : q ≠ [] := by
    intro h0
    rw [← hq, h0, List.append_nil] at hlt
    exact Nat.lt_irrefl _ hlt
  cases hd : decRec p with
  | eof => rfl
  | bad =>
    rw [decRec_append_bad hd q] at hfull
    cases hfull
  | ok r' rest' =>
    rw [decRec_append_ok hd q] at hfull
    injection hfull with _ h2
    exact absurd (List.append_eq_nil_iff.mp h2).2 hqne

theorem decHint_prefix_eof (h : Hint) (hh : h.Enc) (p : List UInt8) (hp : p <+: encHint h)
    (hlt : p.length < (encHint h).length) : decHint p = .eof := by
  obtain ⟨q, hq⟩ := hp
  have hfull : decHint (p ++ q) = .ok h [] := by
    have := decHint_encHint h hh []
    rwa [List.append_nil, ← hq] at this
  have hqne : q ≠ [] := by
    intro h0
    rw [← hq, h0, List.append_nil] at hlt
    exact Nat.lt_irrefl _ hlt
  cases hd : decHint p with
  | eof => rfl
  | bad => exact absurd hd (decHint_ne_bad p)
  | ok h' rest' =>
    rw [decHint_append_ok hd q] at hfull
    injection hfull with _ h2
    exact absurd (List.append_eq_nil_iff.mp h2).2 hqne

/-! ### scanning a file with a truncated last entry -/

/-- a file = whole entries followed by a truncated one scans to exactly the whole entries -/
theorem scanRecs_truncated (rs : List Rec) (hrs : ∀ r ∈ rs, r.Enc) (r : Rec) (hr : r.Enc)
    (p : List UInt8) (hp : p <+: encRec r) (hlt : p.length < (encRec r).length) (fuel : Nat)
    (hf : rs.length < fuel) : scanRecs fuel (rs.flatMap encRec ++ p) = some rs := by
  induction rs generalizing fuel with
  | nil =>
    cases fuel with
    | zero => cases hf
    | succ fuel => simp [scanRecs, decRec_prefix_eof r hr p hp hlt]
  | cons x xs ih =>
    cases fuel with
    | zero => cases hf
    | succ fuel =>
      have hx : x.Enc := hrs x (List.mem_cons_self ..)
      have hxs : ∀ y ∈ xs, y.Enc := fun y hy => hrs y (List.mem_cons_of_mem _ hy)
      have hf' : xs.length < fuel := by simpa using hf
      simp only [List.flatMap_cons, List.append_assoc, scanRecs, decRec_encRec x hx, ih hxs fuel hf',
        Option.map_some]

theorem scanHintsBytes_truncated (hs : List Hint) (hhs : ∀ h ∈ hs, h.Enc) (h : Hint) (hh : h.Enc)
    (p : List UInt8) (hp : p <+: encHint h) (hlt : p.length < (encHint h).length) (fuel : Nat)
    (hf : hs.length < fuel) : scanHintsBytes fuel (hs.flatMap encHint ++ p) = some hs := by
  induction hs generalizing fuel with
  | nil =>
    cases fuel with
    | zero => cases hf
    | succ fuel => simp [scanHintsBytes, decHint_prefix_eof h hh p hp hlt]
  | cons x xs ih =>
    cases fuel with
    | zero => cases hf
    | succ fuel =>
      have hx : x.Enc := hhs x (List.mem_cons_self ..)
      have hxs : ∀ y ∈ xs, y.Enc := fun y hy => hhs y (List.mem_cons_of_mem _ hy)
      have hf' : xs.length < fuel := by simpa using hf
      simp only [List.flatMap_cons, List.append_assoc, scanHintsBytes, decHint_encHint x hx,
        ih hxs fuel hf', Option.map_some]

theorem length_le_fileSize (rs : List Rec) : rs.length ≤ fileSize rs := by
  induction rs with
  | nil => simp
  | cons r rs ih =>
    have := Rec.len_pos r
    simp only [List.length_cons, fileSize_cons]; omega

theorem length_le_hintFileSize (hs : List Hint) : hs.length ≤ hintFileSize hs := by
  induction hs with
  | nil => simp
  | cons h hs ih =>
    simp only [hintFileSize, List.map_cons, List.sum_cons, List.length_cons, Hint.size] at ih ⊢
    omega

/-- the fuel `ByteDisk.toDisk` supplies (file length + 1) is enough -/
theorem scanRecs_file (rs : List Rec) (hrs : ∀ r ∈ rs, r.Enc) (r : Rec) (hr : r.Enc)
    (p : List UInt8) (hp : p <+: encRec r) (hlt : p.length < (encRec r).length) :
    scanRecs ((rs.flatMap encRec ++ p).length + 1) (rs.flatMap encRec ++ p) = some rs := by
  apply scanRecs_truncated rs hrs r hr p hp hlt
  have := length_le_fileSize rs
  rw [List.length_append, flatMap_encRec_length]
  omega

theorem scanHintsBytes_file (hs : List Hint) (hhs : ∀ h ∈ hs, h.Enc) (h : Hint) (hh : h.Enc)
    (p : List UInt8) (hp : p <+: encHint h) (hlt : p.length < (encHint h).length) :
    scanHintsBytes ((hs.flatMap encHint ++ p).length + 1) (hs.flatMap encHint ++ p) = some hs := by
  apply scanHintsBytes_truncated hs hhs h hh p hp hlt
  have := length_le_hintFileSize hs
  rw [List.length_append, flatMap_encHint_length]
  omega

/-! ### one data file at byte level -/

theorem toDisk_single (id : Nat) (rs : List Rec) (hrs : ∀ r ∈ rs, r.Enc) (r : Rec) (hr : r.Enc)
    (p : List UInt8) (hp : p <+: encRec r) (hlt : p.length < (encRec r).length)
    (hpos : 0 < p.length) :
    ByteDisk.toDisk { data := [(id, rs.flatMap encRec ++ p)], hint := [] } =
      some { data := [(id, rs)], hint := [], tails := [(id, p.length)] } := by
  have hs := scanRecs_file rs hrs r hr p hp hlt
  simp only [ByteDisk.toDisk, List.mapM_cons, List.mapM_nil, hs]
  have hlen : (List.flatMap encRec rs ++ p).length = fileSize rs + p.length := by
    rw [List.length_append, flatMap_encRec_length]
  have hgt : fileSize rs < fileSize rs + p.length := by omega
  simp [hlen, hgt]

/-! ### concrete instances (evaluated by the kernel) -/

/-- decidable views of a decoding result (`Dec` has no `DecidableEq`) -/
def Dec.toOption {α : Type} : Dec α → Option (α × List UInt8)
  | .ok a rest => some (a, rest)
  | _ => none
def Dec.isEof {α : Type} : Dec α → Bool
  | .eof => true
  | _ => false
def Dec.isBad {α : Type} : Dec α → Bool
  | .bad => true
  | _ => false

example : (⟨5, [1,2], some [3]⟩ : Rec).Enc := by simp [Rec.Enc]
example : (⟨-1, 28, 0, [7]⟩ : Hint).Enc := by simp [Hint.Enc]

example : encRec ⟨5, [1,2], some [3]⟩ = [5,0,0,0,0,0,0,0, 2,0,0,0,0,0,0,0, 1,2, 1, 1,0,0,0,0,0,0,0, 3] := by decide
example : encRec ⟨-2, [7], none⟩ = [254,255,255,255,255,255,255,255, 1,0,0,0,0,0,0,0, 7, 0] := by decide
example : encHint ⟨-1, 28, 258, [7]⟩ =
    [255,255,255,255,255,255,255,255, 28,0,0,0,0,0,0,0, 2,1,0,0,0,0,0,0, 1,0,0,0,0,0,0,0, 7] := by decide

example : (decRec (encRec ⟨5, [1,2], some [3]⟩ ++ [9])).toOption = some (⟨5, [1,2], some [3]⟩, [9]) := by decide
example : (decRec (encRec ⟨-2, [7], none⟩ ++ [9, 9])).toOption = some (⟨-2, [7], none⟩, [9, 9]) := by decide
example : (decHint (encHint ⟨-1, 28, 258, [7]⟩ ++ [4])).toOption = some (⟨-1, 28, 258, [7]⟩, [4]) := by decide
/-- cut short anywhere: eof -/
example : ∀ m, m < 28 → (decRec ((encRec ⟨5, [1,2], some [3]⟩).take m)).isEof = true := by decide
/-- a malformed option tag is an error -/
example : (decRec [5,0,0,0,0,0,0,0, 1,0,0,0,0,0,0,0, 7, 2]).isBad = true := by decide
example : scanRecs 100 (encRec ⟨5, [1,2], some [3]⟩ ++ encRec ⟨-2, [7], none⟩ ++ [1, 2, 3]) =
    some [⟨5, [1,2], some [3]⟩, ⟨-2, [7], none⟩] := by decide

end Store
