/-
  C13 helper lemmas, part 2: selecting every non-empty file; the live pairs and their size; the
  size of a store after `put`.
-/
import BitcaskVerif.Store.SizeLemmas

namespace Store

/-- `sel` contains every id whose data file is non-empty -/
def SelectsAll (s : St) (sel : List Nat) : Prop :=
  ∀ f, f ∈ AL.keys s.disk.data → dataOf s.disk f ≠ [] → f ∈ sel

instance (s : St) (sel : List Nat) : Decidable (SelectsAll s sel) :=
  inferInstanceAs (Decidable (∀ f, f ∈ AL.keys s.disk.data → dataOf s.disk f ≠ [] → f ∈ sel))

/-- the live key-value pairs, in KeyDir order -/
def livePairs (s : St) : List (Key × Val) :=
  s.keydir.filterMap fun x => match s.abs x.1 with
    | some v => some (x.1, v)
    | none => none

/-- set every pair of the list, in order -/
def putAll (cfg : Cfg) (s : St) (kvs : List (Key × Val)) : St :=
  kvs.foldl (fun s kv => (put cfg s 0 kv.1 kv.2).1) s

namespace Stats

theorem selectsAll_mem {s : St} {sel : List Nat} (h : SelectsAll s sel) {f : Nat}
    (hne : dataOf s.disk f ≠ []) : f ∈ sel := by
  apply h f _ hne
  cases hg : AL.get f s.disk.data with
  | none => simp [dataOf, hg] at hne
  | some v => exact AL.mem_keys_of_get hg

theorem sizeOut_zero_of_all {s : St} {sel : List Nat} (hw : DiskWf s) (hall : SelectsAll s sel) :
    sizeOut sel s.disk.data = 0 := by
  apply ksum_zero
  intro f rs hm
  by_cases e : f ∈ sel
  · simp [e]
  · simp only [e, ↓reduceIte]
    have hd : dataOf s.disk f = rs := by simp [dataOf, get_of_mem hw.dnodup hm]
    cases rs with
    | nil => rfl
    | cons r rs' => exact absurd (hall f (mem_keys_of_mem hm) (by rw [hd]; simp)) e

theorem liveIn_all {s : St} {sel : List Nat} (hi : Inv s) (h : AccInv s) (hall : SelectsAll s sel) :
    liveIn sel s.keydir = liveSize s := by
  rw [liveSize_eq]
  apply wsum_congr
  intro k l hm
  obtain ⟨r, h1, _, _, _, _⟩ := hi.locs k l (get_of_mem h.kdNodup hm)
  have : l.fid ∈ sel := by
    apply selectsAll_mem hall
    intro hn
    rw [hn] at h1
    simp [recAt] at h1
  simp [this]

theorem pairs_sum (abs : Map) (l : List (Key × Loc))
    (h : ∀ k loc, (k, loc) ∈ l → ∃ v, abs k = some v ∧ pairSize k v = loc.len) :
    ((l.filterMap fun x => match abs x.1 with
        | some v => some (x.1, v)
        | none => none).map fun (k, v) => pairSize k v).sum = (l.map fun (_, loc) => loc.len).sum := by
  induction l with
  | nil => rfl
  | cons x xs ih =>
    obtain ⟨k, loc⟩ := x
    obtain ⟨v, hv, hp⟩ := h k loc List.mem_cons_self
    have ih' := ih (fun k' loc' hm => h k' loc' (List.mem_cons_of_mem _ hm))
    simp only [List.filterMap_cons, hv, List.map_cons, List.sum_cons, ih', hp]

theorem liveSize_eq_pairs {s : St} (hi : Inv s) (h : AccInv s) :
    liveSize s = ((livePairs s).map fun (k, v) => pairSize k v).sum := by
  unfold livePairs liveSize
  rw [pairs_sum]
  intro k loc hm
  have hk := get_of_mem h.kdNodup hm
  obtain ⟨r, h1, h2, h3, h4, h5⟩ := hi.locs k loc hk
  have ha := abs_of_locOk hk h1 h4 h5
  cases hv : r.val with
  | none => rw [hv] at h3; cases h3
  | some v =>
    refine ⟨v, by rw [ha, hv], ?_⟩
    rw [← h4]
    simp only [pairSize, Rec.len, hv, h2]
    omega

theorem put_size (cfg : Cfg) (s : St) (ts : Int) (k : Key) (v : Val) (hi : Inv s) :
    storeSize (put cfg s ts k v).1.disk = storeSize s.disk + pairSize k v := by
  rw [put_disk]
  have hlen : (⟨ts, k, some v⟩ : Rec).len = pairSize k v := by simp only [Rec.len, pairSize]; omega
  have e1 := storeSize_set s.disk s.active (dataOf s.disk s.active ++ [⟨ts, k, some v⟩])
  simp only [fileSize_append, fileSize_cons, fileSize_nil, hlen] at e1
  by_cases hroll : s.written + (⟨ts, k, some v⟩ : Rec).len > cfg.maxFile
  · rw [write_roll cfg s _ hroll, storeSize_eq]
    simp only
    have hnew : s.active + 1 ∉ AL.keys
        ({ s.disk with data := AL.set s.active (dataOf s.disk s.active ++ [⟨ts, k, some v⟩]) s.disk.data } : Disk).data := by
      intro hm
      rcases mem_keys_set hm with e | e
      · omega
      · have := hi.ids _ e; omega
    have e2 := sizeOut_create [] _ _ hnew
    rw [sizeOut_nil, sizeOut_nil] at e2
    simp only at e2
    rw [e2]
    omega
  · rw [write_noroll cfg s _ hroll, storeSize_eq]
    simp only
    omega

theorem putAll_inv (cfg : Cfg) (kvs : List (Key × Val)) : ∀ s, Inv s → Inv (putAll cfg s kvs) := by
  induction kvs with
  | nil => intro s h; exact h
  | cons kv kvs ih => intro s h; exact ih _ (put_inv cfg s 0 kv.1 kv.2 h)

theorem putAll_size (cfg : Cfg) (kvs : List (Key × Val)) : ∀ s, Inv s →
    storeSize (putAll cfg s kvs).disk = storeSize s.disk + (kvs.map fun (k, v) => pairSize k v).sum := by
  induction kvs with
  | nil => intro s _; simp [putAll]
  | cons kv kvs ih =>
    intro s h
    obtain ⟨k, v⟩ := kv
    have := ih _ (put_inv cfg s 0 k v h)
    simp only [putAll, List.foldl_cons, List.map_cons, List.sum_cons] at this ⊢
    rw [this, put_size cfg s 0 k v h]
    omega

/-! ### the selection the thresholds make (`selectFiles`) -/

theorem mem_selectFiles {cfg : Cfg} {s : St} {id : Nat} :
    id ∈ selectFiles cfg s ↔ ∃ st, (id, st) ∈ s.stats ∧
      (st.deadBytes > cfg.deadBytes || fragGt st cfg.fragNum cfg.fragDen ||
        fileSize (dataOf s.disk id) + (AL.get id s.disk.tails).getD 0 < cfg.smallFile) = true := by
  unfold selectFiles
  simp only [List.mem_mergeSort, List.mem_map, List.mem_filter]
  constructor
  · rintro ⟨⟨f, st⟩, ⟨hm, hp⟩, rfl⟩
    exact ⟨st, hm, hp⟩
  · rintro ⟨st, hm, hp⟩
    exact ⟨(id, st), ⟨hm, hp⟩, rfl⟩

/-- the thresholds only ever select existing files -/
theorem selectFiles_valid (cfg : Cfg) {s : St} (hi : Inv s) (h : AccInv s) :
    ∀ id, id ∈ selectFiles cfg s → id ≤ s.active := by
  intro id hid
  obtain ⟨st, hm, _⟩ := mem_selectFiles.mp hid
  obtain ⟨v, hv⟩ := AL.get_of_mem_keys (mem_keys_of_mem hm)
  have hne : dataOf s.disk id ≠ [] := fun hn => by
    have := (h.files id).dom.mpr hn
    rw [this] at hv; cases hv
  apply hi.ids
  cases hg : AL.get id s.disk.data with
  | none => simp [dataOf, hg] at hne
  | some x => exact AL.mem_keys_of_get hg

/-- if every data file is below the small-file threshold, the thresholds select every non-empty file -/
theorem selectFiles_all (cfg : Cfg) {s : St} (h : AccInv s) (hw : DiskWf s)
    (hsmall : ∀ f, f ∈ AL.keys s.disk.data → fileSize (dataOf s.disk f) < cfg.smallFile) :
    SelectsAll s (selectFiles cfg s) := by
  intro f hf hne
  apply mem_selectFiles.mpr
  cases hg : AL.get f s.stats with
  | none => exact absurd ((h.files f).dom.mp hg) hne
  | some st =>
    refine ⟨st, mem_of_get hg, ?_⟩
    have := hsmall f hf
    simp [hw.tails, this]

end Stats
end Store
