/-
  Lives after a power failure inside a merge (C09), part 2: every power-loss image (`PowerLoss3`)
  of every cut of every operation — sets and deletes with `sync = always`, reads, reopens, merge
  passes — in a store that satisfies the lives invariant; histories.
-/
import BitcaskVerif.Store.LivesPower

namespace Store

open Tr

/-! ### `write` with `sync = always` -/

/-- `write_powerLoss2_cases` for a store that satisfies only the store invariant -/
theorem write_powerLoss2_cases' (cfg : Cfg) (hs : cfg.syncAlways = true) {s : St} (h : Inv s) (r : Rec)
    {sd0 : SDisk2} (hd : sd0.disk = s.disk) (hfs : FullySynced2 sd0) {c : List Call}
    (hc : Cut (write cfg s r).2.2 c) {I : Disk} (hp : PowerLoss2 (syncCalls2 sd0 c) I) :
    (SameFiles s.disk I ∧ Call.fsync ⟨.data, s.active⟩ ∉ c) ∨ SameFiles (appendDisk s r) I ∨
    SameFiles (write cfg s r).1.disk I := by
  obtain ⟨disk0, dsy, hsy⟩ := sd0
  simp only at hd
  subst hd
  -- after the append: everything durable except the new record
  have h1 : ∀ id, id ≠ s.active → SyncedAt ⟨appendDisk s r, dsy, hsy⟩ id := by
    intro id hid
    have := hfs id
    simp only [SyncedAt, SDisk2.dOf, SDisk2.hOf, appendDisk, dataOf_set_other _ hid] at this ⊢
    exact this
  have h1h : (hintsOf (appendDisk s r) s.active).length ≤ (⟨appendDisk s r, dsy, hsy⟩ : SDisk2).hOf s.active :=
    (hfs s.active).2
  have h1d : (dataOf s.disk s.active).length ≤ (⟨appendDisk s r, dsy, hsy⟩ : SDisk2).dOf s.active :=
    (hfs s.active).1
  have hA : syncCalls2 ⟨s.disk, dsy, hsy⟩ [Call.append ⟨.data, s.active⟩ (.ofRec r)] =
      ⟨appendDisk s r, dsy, hsy⟩ := rfl
  -- after append + fsync: everything durable
  have hfsAF : FullySynced2 (syncCalls2 ⟨s.disk, dsy, hsy⟩
      [Call.append ⟨.data, s.active⟩ (.ofRec r), Call.fsync ⟨.data, s.active⟩]) := by
    intro id
    by_cases e : id = s.active
    · subst e
      refine ⟨?_, ?_⟩
      · simp [syncCall2, dsyncAfter, hsyncAfter, applyCall, dataOf, SDisk2.dOf, AL.get_set_same]
      · exact (hfs s.active).2
    · exact syncedAt_step (sd := ⟨appendDisk s r, dsy, hsy⟩) (h1 id e) _ (by intro f p e; cases e)
  have hdAF : (syncCalls2 ⟨s.disk, dsy, hsy⟩
      [Call.append ⟨.data, s.active⟩ (.ofRec r), Call.fsync ⟨.data, s.active⟩]).disk = appendDisk s r := rfl
  rw [write_calls_sync cfg s r hs] at hc
  rcases cut_append hc with hc1 | ⟨c', rfl, h2⟩
  · rcases cut_cons hc1 with rfl | ⟨y, ⟨f, p, bs, e, _, rfl⟩, rfl⟩ | ⟨c', rfl, h3⟩
    · left
      exact ⟨powerLoss2_sameFiles hfs hp, by simp⟩
    · left
      simp only [Call.append.injEq] at e
      obtain ⟨rfl, _⟩ := e
      have hfs' : FullySynced2 (syncCalls2 ⟨s.disk, dsy, hsy⟩ [Call.append ⟨.data, s.active⟩ (.raw bs)]) :=
        fun id => syncedAt_raw (hfs id) s.active bs
      exact ⟨(powerLoss2_sameFiles hfs' hp).of_tails, by simp⟩
    · rcases cut_single_noappend (by intro f p; simp) h3 with rfl | rfl
      · rw [hA] at hp
        obtain ⟨k1, k2, k3, k4, k5⟩ := powerLoss2_oneShort h1 h1h (dataOf_set_same _ _ _) h1d hp
        have hkd : AL.keys (appendDisk s r).data = AL.keys s.disk.data := keys_set_old _ _ _ h.act
        rcases k5 with k5 | k5
        · left
          refine ⟨⟨k1.trans hkd, k2, ?_, k3⟩, by simp⟩
          intro fid
          by_cases e : fid = s.active
          · subst e; exact k5
          · rw [k4 fid e]; exact dataOf_set_other _ e _
        · right; left
          refine ⟨k1, k2, ?_, k3⟩
          intro fid
          by_cases e : fid = s.active
          · subst e; rw [k5]; exact (dataOf_set_same _ _ _).symm
          · exact k4 fid e
      · right; left
        have := powerLoss2_sameFiles hfsAF hp
        rw [hdAF] at this
        exact this
  · right
    rw [syncCalls2_append] at hp
    by_cases hroll : s.written + r.len > cfg.maxFile
    · simp only [hroll, ↓reduceIte] at h2
      rcases cut_single_noappend (by intro f p; simp) h2 with rfl | rfl
      · left
        have := powerLoss2_sameFiles hfsAF hp
        rw [hdAF] at this
        exact this
      · right
        have hfin := fullySynced2_steps [Call.create ⟨.data, s.active + 1⟩] hfsAF (by
          intro c hc f p; simp only [List.mem_singleton] at hc; subst hc; simp)
        have := powerLoss2_sameFiles hfin hp
        rw [syncCalls2_disk, hdAF] at this
        have hdisk : (write cfg s r).1.disk = applyCalls (appendDisk s r) [Call.create ⟨.data, s.active + 1⟩] := by
          rw [write_roll cfg s r hroll]; rfl
        rw [hdisk]; exact this
    · simp only [hroll, ↓reduceIte] at h2
      rw [cut_nil h2] at hp
      left
      have := powerLoss2_sameFiles hfsAF hp
      rw [hdAF] at this
      exact this


theorem cut_onlyId {a : Nat} {cs c : List Call} (hc : Cut cs c)
    (h : ∀ x ∈ cs, ∀ f p, x = Call.append f p → f.id = a) : ∀ x ∈ c, ∀ f p, x = Call.append f p → f.id = a := by
  rcases hc with ⟨post, e⟩ | ⟨pre, f, p, post, bs, e, _, rfl⟩
  · intro x hx; exact h x (by rw [e]; exact List.mem_append_left _ hx)
  · intro x hx g q eq
    rcases List.mem_append.mp hx with hx | hx
    · exact h x (by rw [e]; exact List.mem_append_left _ hx) g q eq
    · simp only [List.mem_singleton] at hx
      subst hx
      simp only [Call.append.injEq] at eq
      rw [← eq.1]
      exact h (Call.append f p) (by rw [e]; simp) f p rfl

theorem write_onlyActive (cfg : Cfg) (s : St) (r : Rec) :
    ∀ x ∈ (write cfg s r).2.2, ∀ f p, x = Call.append f p → f.id = s.active := by
  intro x hx f p e
  rw [Tr.write_calls] at hx
  simp only [List.mem_append, List.mem_singleton] at hx
  rcases hx with (hx | hx) | hx
  · subst hx; cases e; rfl
  · split at hx
    · simp only [List.mem_singleton] at hx; subst hx; cases e
    · cases hx
  · split at hx
    · simp only [List.mem_singleton] at hx; subst hx; cases e
    · cases hx

/-- the tails of the files other than the active file are unchanged in every image of a cut of
    `write` -/
theorem write_image_tails (cfg : Cfg) {s : St} (r : Rec) {sd0 : SDisk2} (hd : sd0.disk = s.disk)
    (hfs : FullySynced2 sd0) {c : List Call} (hc : Cut (write cfg s r).2.2 c) {I : Disk}
    (hp : PowerLoss3 (syncCalls2 sd0 c) I) :
    ∀ fid, fid ≠ s.active → AL.get fid I.tails = AL.get fid s.disk.tails := by
  obtain ⟨kD, kH, T, h1, _, _, h4, rfl⟩ := hp
  intro fid hne
  have hsy := syncedAt_steps c (hfs fid) (fun x hx f p e => by
    have := cut_onlyId hc (write_onlyActive cfg s r) x hx f p e
    omega)
  have := h4 fid (Nat.le_trans hsy.1 (h1 fid))
  show AL.get fid T = _
  rw [this, syncCalls2_disk, hd]
  rcases write_cut_cases' cfg s r hc with e | ⟨n, e⟩ | e | e
  · rw [e]
  · rw [e]; exact AL.get_set_other hne _ _
  · rw [e]; rfl
  · rw [e, write_tails]

/-! ### operations -/

/-- an image with the files of the directory of a state `X` reached by `write` from `s` -/
theorem image_of_write_state {s : St} {d1 : Disk} (w : LJw s d1) {X : St} {dX : Disk} (wX : LJw X dX)
    (hh : X.disk.hint = s.disk.hint) (htl : X.disk.tails = s.disk.tails) {I : Disk} (sf : SameFiles X.disk I)
    (tails : ∀ fid, fid ≠ s.active → AL.get fid I.tails = AL.get fid s.disk.tails) : RecW I X.abs := by
  apply wX.cj.sameFiles sf
  intro fid hs
  rw [htl]
  apply tails
  intro e
  subst e
  rw [hh, w.sim.hint_none.mpr w.rinv.acth] at hs
  cases hs

theorem put_hint (cfg : Cfg) (s : St) (ts : Int) (k : Key) (v : Val) : (put cfg s ts k v).1.disk.hint = s.disk.hint := by
  rw [put_disk, write_hint]
theorem put_tails (cfg : Cfg) (s : St) (ts : Int) (k : Key) (v : Val) : (put cfg s ts k v).1.disk.tails = s.disk.tails := by
  rw [put_disk, write_tails]
theorem delete_hint (cfg : Cfg) (s : St) (ts : Int) (k : Key) : (delete cfg s ts k).1.disk.hint = s.disk.hint := by
  rw [delete_disk, write_hint]
theorem delete_tails (cfg : Cfg) (s : St) (ts : Int) (k : Key) : (delete cfg s ts k).1.disk.tails = s.disk.tails := by
  rw [delete_disk, write_tails]

/-- **power failure inside a `put`** (`sync = always`), in a store satisfying the lives invariant -/
theorem put_image_recW (cfg : Cfg) (hs : cfg.syncAlways = true) {s : St} (h : LJ s) {sd0 : SDisk2}
    (hd : sd0.disk = s.disk) (hfs : FullySynced2 sd0) (ts : Int) (k : Key) (v : Val) {c : List Call}
    (hc : Cut (put cfg s ts k v).2 c) {I : Disk} (hp : PowerLoss3 (syncCalls2 sd0 c) I) :
    (RecW I s.abs ∧ Call.fsync ⟨.data, s.active⟩ ∉ c) ∨ RecW I (s.abs.set k v) := by
  obtain ⟨d1, w⟩ := h
  rw [Tr.put_calls] at hc
  have htl := write_image_tails cfg _ hd hfs hc hp
  rcases write_powerLoss2_cases' cfg hs w.inv _ hd hfs hc hp.toPL2 with ⟨e, hn⟩ | e | e
  · exact .inl ⟨image_of_write_state w w rfl rfl e htl, hn⟩
  · right
    rw [← put_abs (noRollCfg cfg s _) s ts k v w.inv]
    exact image_of_write_state w (put_lj (noRollCfg cfg s _) w ts k v) (put_hint ..) (put_tails ..)
      (by rw [Store.put_disk, write_noRollCfg]; exact e) htl
  · right
    rw [← put_abs cfg s ts k v w.inv]
    exact image_of_write_state w (put_lj cfg w ts k v) (put_hint ..) (put_tails ..)
      (by rw [Store.put_disk]; exact e) htl

theorem delete_image_recW (cfg : Cfg) (hs : cfg.syncAlways = true) {s : St} (h : LJ s) {sd0 : SDisk2}
    (hd : sd0.disk = s.disk) (hfs : FullySynced2 sd0) (ts : Int) (k : Key) {c : List Call}
    (hc : Cut (delete cfg s ts k).2.2 c) {I : Disk} (hp : PowerLoss3 (syncCalls2 sd0 c) I) :
    (RecW I s.abs ∧ Call.fsync ⟨.data, s.active⟩ ∉ c) ∨ RecW I (s.abs.del k) := by
  obtain ⟨d1, w⟩ := h
  rw [Tr.delete_calls] at hc
  have htl := write_image_tails cfg _ hd hfs hc hp
  rcases write_powerLoss2_cases' cfg hs w.inv _ hd hfs hc hp.toPL2 with ⟨e, hn⟩ | e | e
  · exact .inl ⟨image_of_write_state w w rfl rfl e htl, hn⟩
  · right
    rw [← (delete_abs (noRollCfg cfg s _) s ts k w.inv).1]
    exact image_of_write_state w (delete_lj (noRollCfg cfg s _) w ts k) (delete_hint ..) (delete_tails ..)
      (by rw [Store.delete_disk, write_noRollCfg]; exact e) htl
  · right
    rw [← (delete_abs cfg s ts k w.inv).1]
    exact image_of_write_state w (delete_lj cfg w ts k) (delete_hint ..) (delete_tails ..)
      (by rw [Store.delete_disk]; exact e) htl

/-- an image of a directory in which everything is durable -/
theorem RecW.image_full {D : Disk} {m : Map} (h : RecW D m) {sd : SDisk2} (hd : sd.disk = D)
    (hfs : FullySynced2 sd) {I : Disk} (hp : PowerLoss3 sd I) : RecW I m := by
  obtain ⟨dB, kd, a, cj⟩ := h
  obtain ⟨sf, ht⟩ := powerLoss3_full hfs hp
  rw [hd] at sf ht
  exact cj.sameFiles sf (fun fid _ => ht fid)

theorem reopen_image_recW {s : St} (h : LJ s) {sd0 : SDisk2} (hd : sd0.disk = s.disk)
    (hfs : FullySynced2 sd0) {c : List Call} (hc : Cut (reopen s).2 c) {I : Disk}
    (hp : PowerLoss3 (syncCalls2 sd0 c) I) : RecW I s.abs := by
  rcases cut_single_noappend (by intro f p; simp) hc with rfl | rfl
  · exact h.recW.image_full hd hfs hp
  · have hfs' := fullySynced2_steps (reopen s).2 hfs (by
      intro c hc f p
      have : c = Call.create ⟨.data, (reopen s).1.active⟩ := by simpa [reopen_calls] using hc
      subst this; simp)
    obtain ⟨a, b⟩ := reopen_lj h
    rw [← b]
    exact a.recW.image_full (by rw [syncCalls2_disk, hd]; rfl) hfs' hp

/-! ### merge passes -/

/-- **power failure anywhere in a merge pass**, in a store satisfying the lives invariant -/
theorem mergeWith_image_recW (cfg : Cfg) {s : St} {d1 : Disk} (w : LJw s d1) (sel : List Nat) (order : List Key)
    (hsel : ∀ id, id ∈ sel → id ≤ s.active) (hcov : Covers order s)
    (hz : ∀ done, done <+: sel → NoHazard s done) {sd0 : SDisk2} (hd : sd0.disk = s.disk)
    (hfs : FullySynced2 sd0) {c : List Call} (hc : Cut (mergeWith cfg s sel order).2 c) {I : Disk}
    (hp : PowerLoss3 (syncCalls2 sd0 c) I) : RecW I s.abs := by
  have hl := mergeLoop_sim cfg w hsel order
  have hcalls : (mergeLoop cfg { s with disk := d1 } sel order).calls = (mergeLoop cfg s sel order).calls :=
    hl.ms.calls
  have hmid : (mergeLoop cfg { s with disk := d1 } sel order).mid = (mergeLoop cfg s sel order).mid := hl.ms.mid
  have lx := mergeLoop_lx cfg w.rinv w.full1 sel hsel order
  obtain ⟨pi, _⟩ := mergeLoop_pcuts cfg w.rinv w.full1 sel hsel order (sd0 := sd0) hfs
  obtain ⟨post', e, hpost⟩ := mergeWith_calls_tail cfg s sel order
  have hcrash := mergeWith_cut_recW cfg w sel order hsel hcov hz hc
  rw [e] at hc
  rcases cut_append hc with h1 | ⟨c', rfl, h2⟩
  · -- inside the copy phase
    obtain ⟨hout, nf⟩ := loopCut_newFacts cfg w sel hsel order (by rw [hcalls]; exact h1)
    exact copyPhase_image w hout nf hd hfs hp
  · have hna : ∀ x ∈ (Call.fsync ⟨.data, (mergeLoop cfg s sel order).mid⟩ ::
        Call.fsync ⟨.hint, (mergeLoop cfg s sel order).mid⟩ :: post'), ∀ f p, x ≠ Call.append f p := by
      intro x hx f p
      simp only [List.mem_cons] at hx
      rcases hx with rfl | rfl | hx
      · simp
      · simp
      · exact hpost x hx f p
    obtain ⟨post, e2⟩ := cut_noappend hna h2
    have hna' : ∀ x ∈ c', ∀ f p, x ≠ Call.append f p := by
      intro x hx; exact hna x (by rw [e2]; exact List.mem_append_left _ hx)
    have hloop := loopCut_newFacts cfg w sel hsel order (Cut.all _)
    rw [hcalls] at hloop
    have hgt : s.active < (mergeLoop cfg s sel order).mid := by rw [← hmid]; exact lx.li.minv.midgt
    rcases c' with _ | ⟨x, _ | ⟨y, c''⟩⟩
    · rw [List.append_nil] at hp
      exact copyPhase_image w hloop.1 hloop.2 hd hfs hp
    · simp only [List.cons_append, List.nil_append, List.cons.injEq] at e2
      obtain ⟨rfl, _⟩ := e2
      refine copyPhase_image w ?_ ?_ hd hfs hp
      · intro x hx
        rcases List.mem_append.mp hx with hx | hx
        · exact hloop.1 x hx
        · simp only [List.mem_singleton] at hx; subst hx
          exact ⟨hgt, by intro f; simp⟩
      · rw [newFiles_append]; exact hloop.2
    · simp only [List.cons_append, List.cons.injEq] at e2
      obtain ⟨rfl, rfl, _⟩ := e2
      -- both fsyncs done: everything is durable from here on
      have hfs2 : FullySynced2 (syncCalls2 sd0 ((mergeLoop cfg s sel order).calls ++
          (Call.fsync ⟨.data, (mergeLoop cfg s sel order).mid⟩ ::
           Call.fsync ⟨.hint, (mergeLoop cfg s sel order).mid⟩ :: c''))) := by
        have e3 : (mergeLoop cfg s sel order).calls ++
            (Call.fsync ⟨.data, (mergeLoop cfg s sel order).mid⟩ ::
             Call.fsync ⟨.hint, (mergeLoop cfg s sel order).mid⟩ :: c'') =
            ((mergeLoop cfg s sel order).calls ++ [Call.fsync ⟨.data, (mergeLoop cfg s sel order).mid⟩,
              Call.fsync ⟨.hint, (mergeLoop cfg s sel order).mid⟩]) ++ c'' := by simp
        rw [e3, syncCalls2_append, syncCalls2_append]
        have hps := pi.sync
        rw [hcalls, hmid] at hps
        apply fullySynced2_steps _ (allBut_fsyncs hps)
        intro x hx
        exact hna' x (List.mem_cons_of_mem _ (List.mem_cons_of_mem _ hx))
      exact hcrash.image_full (by rw [syncCalls2_disk, hd]) hfs2 hp

/-! ### any operation -/

/-- **power failure inside any operation** (`sync = always`; merge passes satisfying `opOk`), in a
    store satisfying the lives invariant -/
theorem stepC_image_recW (cfg : Cfg) (hs : cfg.syncAlways = true) {s : St} (h : LJ s) {sd0 : SDisk2}
    (hd : sd0.disk = s.disk) (hfs : FullySynced2 sd0) (op : TOp) (hop : opOk s op) {c : List Call}
    (hc : Cut (stepC cfg s op).2 c) {I : Disk} (hp : PowerLoss3 (syncCalls2 sd0 c) I) :
    (RecW I s.abs ∨ RecW I (specOp s.abs op)) ∧ (c = (stepC cfg s op).2 → RecW I (specOp s.abs op)) := by
  cases op with
  | put ts k v =>
    rcases put_image_recW cfg hs h hd hfs ts k v hc hp with ⟨r, hn⟩ | r
    · refine ⟨.inl r, ?_⟩
      intro e
      exfalso; apply hn
      rw [e]
      show _ ∈ (put cfg s ts k v).2
      rw [Tr.put_calls, write_calls_sync cfg s _ hs]; simp
    · exact ⟨.inr r, fun _ => r⟩
  | del ts k =>
    rcases delete_image_recW cfg hs h hd hfs ts k hc hp with ⟨r, hn⟩ | r
    · refine ⟨.inl r, ?_⟩
      intro e
      exfalso; apply hn
      rw [e]
      show _ ∈ (delete cfg s ts k).2.2
      rw [Tr.delete_calls, write_calls_sync cfg s _ hs]; simp
    · exact ⟨.inr r, fun _ => r⟩
  | get k =>
    have hc' : c = [] := cut_nil hc
    subst hc'
    have r := h.recW.image_full hd hfs hp
    exact ⟨.inl r, fun _ => r⟩
  | merge sel order =>
    obtain ⟨d1, w⟩ := h
    obtain ⟨h1, h2, h3, h4⟩ := hop
    have r := mergeWith_image_recW cfg w sel order h1 h2
      (fun _ hd => noHazard_prefix_of_sorted w.asc w.fullA h3 h4 hd) hd hfs hc hp
    exact ⟨.inl r, fun _ => r⟩
  | reopen =>
    have r := reopen_image_recW h hd hfs hc hp
    exact ⟨.inl r, fun _ => r⟩

/-! ### histories -/

/-- with `sync = always` everything is durable again when an operation returns -/
theorem stepC_fullySynced2L (cfg : Cfg) (hs : cfg.syncAlways = true) {s : St} (h : LJ s)
    {sd0 : SDisk2} (hd : sd0.disk = s.disk) (hfs : FullySynced2 sd0) (op : TOp) (hop : opOk s op) :
    FullySynced2 (syncCalls2 sd0 (stepC cfg s op).2) := by
  cases op with
  | put ts k v => exact write_fullySynced2 cfg hs s _ hd hfs
  | del ts k => exact write_fullySynced2 cfg hs s _ hd hfs
  | get k => exact hfs
  | merge sel order =>
    obtain ⟨d1, w⟩ := h
    obtain ⟨h1, _, _, _⟩ := hop
    have hl := mergeLoop_sim cfg w h1 order
    obtain ⟨pi, _⟩ := mergeLoop_pcuts cfg w.rinv w.full1 sel h1 order (sd0 := sd0) hfs
    obtain ⟨post, e, hpost⟩ := mergeWith_calls_tail cfg s sel order
    show FullySynced2 (syncCalls2 sd0 (mergeWith cfg s sel order).2)
    have e3 : (mergeLoop cfg s sel order).calls ++
        (Call.fsync ⟨.data, (mergeLoop cfg s sel order).mid⟩ ::
         Call.fsync ⟨.hint, (mergeLoop cfg s sel order).mid⟩ :: post) =
        ((mergeLoop cfg s sel order).calls ++ [Call.fsync ⟨.data, (mergeLoop cfg s sel order).mid⟩,
          Call.fsync ⟨.hint, (mergeLoop cfg s sel order).mid⟩]) ++ post := by simp
    rw [e, e3, syncCalls2_append, syncCalls2_append]
    have hps := pi.sync
    rw [hl.ms.calls, hl.ms.mid] at hps
    exact fullySynced2_steps _ (allBut_fsyncs hps) hpost
  | reopen =>
    exact fullySynced2_steps (reopen s).2 hfs (by
      intro c hc f p
      have : c = Call.create ⟨.data, (reopen s).1.active⟩ := by simpa [reopen_calls] using hc
      subst this; simp)

theorem runC_sync2L (cfg : Cfg) (hs : cfg.syncAlways = true) (ops : List TOp) : ∀ {s : St} (sd0 : SDisk2),
    LJ s → sd0.disk = s.disk → FullySynced2 sd0 → ValidOps cfg s ops →
    (syncCalls2 sd0 (traceOf cfg s ops)).disk = (runC cfg s ops).disk ∧
      FullySynced2 (syncCalls2 sd0 (traceOf cfg s ops)) := by
  induction ops with
  | nil => intro s sd0 _ hd hfs _; exact ⟨hd, hfs⟩
  | cons op ops ih =>
    intro s sd0 h hd hfs hv
    have h1 := stepC_fullySynced2L cfg hs h hd hfs op hv.1
    have hd1 : (syncCalls2 sd0 (stepC cfg s op).2).disk = (stepC cfg s op).1.disk := by
      rw [syncCalls2_disk, hd]; exact stepC_frame_all cfg s op
    obtain ⟨a, _⟩ := stepC_lj cfg h op hv.1
    obtain ⟨e1, e2⟩ := ih (syncCalls2 sd0 (stepC cfg s op).2) a hd1 h1 hv.2
    show (syncCalls2 sd0 ((stepC cfg s op).2 ++ traceOf cfg (stepC cfg s op).1 ops)).disk = _ ∧
      FullySynced2 (syncCalls2 sd0 ((stepC cfg s op).2 ++ traceOf cfg (stepC cfg s op).1 ops))
    rw [syncCalls2_append]
    exact ⟨e1, e2⟩

/-- **power failure anywhere in a history with merges** (`sync = always`), from a store satisfying
    the lives invariant -/
theorem history_image_recW (cfg : Cfg) (hs : cfg.syncAlways = true) {s : St} (h : LJ s) {sd0 : SDisk2}
    (hd : sd0.disk = s.disk) (hfs : FullySynced2 sd0) (ops : List TOp) (hv : ValidOps cfg s ops)
    (op : TOp) (hop : opOk (runC cfg s ops) op) {c : List Call} (hc : Cut (stepC cfg (runC cfg s ops) op).2 c)
    {I : Disk} (hp : PowerLoss3 (syncCalls2 sd0 (traceOf cfg s ops ++ c)) I) :
    (RecW I (specRun s.abs ops) ∨ RecW I (specOp (specRun s.abs ops) op)) ∧
    (c = (stepC cfg (runC cfg s ops) op).2 → RecW I (specOp (specRun s.abs ops) op)) := by
  obtain ⟨e1, e2⟩ := runC_sync2L cfg hs ops sd0 h hd hfs hv
  obtain ⟨a, e⟩ := runC_lj cfg ops h hv
  rw [syncCalls2_append] at hp
  have := stepC_image_recW cfg hs a e1 e2 op hop hc hp
  rw [e] at this
  exact this

/-! ### lives ended by kills or power failures -/

/-- states reachable by operations, kills at any cut of any operation followed by recovery, and —
    from a state whose directory is durable — power failures at any cut of any operation of a
    history with `sync = always`, followed by recovery -/
inductive ReachP (cfg : Cfg) : St → Prop
  | fresh : ReachP cfg fresh
  | step {s : St} (op : TOp) : ReachP cfg s → opOk s op → ReachP cfg (stepC cfg s op).1
  | crash {s : St} (op : TOp) (c : List Call) : ReachP cfg s → opOk s op → Cut (stepC cfg s op).2 c →
      ReachP cfg (openDisk (applyCalls s.disk c)).1
  | power {s : St} (sd0 : SDisk2) (ops : List TOp) (op : TOp) (c : List Call) (I : Disk) : ReachP cfg s →
      cfg.syncAlways = true → sd0.disk = s.disk → FullySynced2 sd0 → ValidOps cfg s ops →
      opOk (runC cfg s ops) op → Cut (stepC cfg (runC cfg s ops) op).2 c →
      PowerLoss3 (syncCalls2 sd0 (traceOf cfg s ops ++ c)) I → ReachP cfg (openDisk I).1

theorem reachP_lj {cfg : Cfg} {s : St} (h : ReachP cfg s) : LJ s := by
  induction h with
  | fresh => exact lj_fresh
  | step op _ hop ih => exact (stepC_lj cfg ih op hop).1
  | crash op c _ hop hc ih =>
    rcases stepC_cut_recJ cfg ih op hop hc with r | r
    · exact r.1
    · exact r.1
  | power sd0 ops op c I _ hs hd hfs hv hop hc hp ih =>
    rcases (history_image_recW cfg hs ih hd hfs ops hv op hop hc hp).1 with r | r
    · exact r.recJ.1
    · exact r.recJ.1

theorem ReachL.toReachP {cfg : Cfg} {s : St} (h : ReachL cfg s) : ReachP cfg s := by
  induction h with
  | fresh => exact .fresh
  | step op _ hop ih => exact .step op ih hop
  | crash op c _ hop hc ih => exact .crash op c ih hop hc

theorem reachP_runC {cfg : Cfg} (ops : List TOp) : ∀ {s : St}, ReachP cfg s → ValidOps cfg s ops →
    ReachP cfg (runC cfg s ops) := by
  induction ops with
  | nil => intro s h _; exact h
  | cons op ops ih => intro s h hv; exact ih (.step op h hv.1) hv.2

end Store
