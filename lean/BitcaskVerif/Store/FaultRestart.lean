/-
  Restart after a failed write (C20): the index the startup scan rebuilds from the directory a
  fault leaves behind is exactly the index it rebuilds after the *successful* operation (faults
  `appendSmall`, `fsync`, `create`: the entry is complete in the old active file) or exactly the
  index it rebuilds without the operation (`appendLarge`: only an unparsable tail was added).
-/
import BitcaskVerif.Store.FaultModel
import BitcaskVerif.Store.Rescan

namespace Store.Tr
/-! ### a failed write keeps the id invariant -/

theorem writeF_idinv (s : St) (r : Rec) (f : Fault) (h : IdInv s) : IdInv (writeF s r f) := by
  cases f with
  | appendSmall =>
    constructor
    · intro id hid
      simp only [writeF, appendDisk] at hid ⊢
      rcases mem_keys_set hid with e | e
      · omega
      · rcases mem_keys_set e with e2 | e2
        · omega
        · have := h.ids id e2; omega
    · intro id hid
      simp only [writeF, appendDisk] at hid ⊢
      exact mem_keys_set_of_mem _ (mem_keys_set_of_mem _ (h.hsub id hid))
    · simp [writeF, AL.get_set_same]
    · intro id hid; have := h.tails id hid; simp only [writeF, appendDisk] at hid ⊢; omega
    · intro id hid; have := h.hlt id hid; simp only [writeF, appendDisk] at hid ⊢; omega
  | appendLarge hdr =>
    constructor
    · intro id hid
      simp only [writeF] at hid ⊢
      rcases mem_keys_set hid with e | e
      · omega
      · have := h.ids id e; omega
    · intro id hid
      simp only [writeF] at hid ⊢
      exact mem_keys_set_of_mem _ (h.hsub id hid)
    · simp [writeF, AL.get_set_same]
    · intro id hid
      simp only [writeF] at hid ⊢
      rcases mem_keys_set hid with e | e
      · omega
      · have := h.tails id e; omega
    · intro id hid; have := h.hlt id hid; simp only [writeF] at hid ⊢; omega
  | fsync =>
    constructor
    · intro id hid
      simp only [writeF, appendDisk] at hid ⊢
      rcases mem_keys_set hid with e | e
      · omega
      · exact h.ids id e
    · intro id hid
      simp only [writeF, appendDisk] at hid ⊢
      exact mem_keys_set_of_mem _ (h.hsub id hid)
    · simp [writeF, appendDisk, AL.get_set_same]
    · exact h.tails
    · exact h.hlt
  | create =>
    constructor
    · intro id hid
      simp only [writeF, appendDisk] at hid ⊢
      rcases mem_keys_set hid with e | e
      · omega
      · exact h.ids id e
    · intro id hid
      simp only [writeF, appendDisk] at hid ⊢
      exact mem_keys_set_of_mem _ (h.hsub id hid)
    · simp [writeF, appendDisk, AL.get_set_same]
    · exact h.tails
    · exact h.hlt

/-! ### the rebuilt index -/

/-- the index a restart rebuilds when record `r` is complete at the end of the active file -/
def idxTaken (s : St) (r : Rec) : Idx :=
  (scanStep s.active ((rebuild s.disk).1, fileSize (dataOf s.disk s.active)) r).1

theorem IdInv.no_hint_active {s : St} (h : IdInv s) : AL.get s.active s.disk.hint = none := by
  cases hg : AL.get s.active s.disk.hint with
  | none => rfl
  | some v => have := h.hlt _ (AL.mem_keys_of_get hg); omega

theorem IdInv.no_hint_above {s : St} (h : IdInv s) {b : Nat} (hb : s.active < b) : AL.get b s.disk.hint = none := by
  cases hg : AL.get b s.disk.hint with
  | none => rfl
  | some v => have := h.hlt _ (AL.mem_keys_of_get hg); omega

theorem rebuild_appendDisk (s : St) (r : Rec) (h : IdInv s) :
    (rebuild (appendDisk s r)).1 = idxTaken s r ∧ (rebuild (appendDisk s r)).2 = s.active + 1 := by
  obtain ⟨init, hs, hinit⟩ := sortedIds_split h
  have hk : AL.keys (appendDisk s r).data = AL.keys s.disk.data := keys_set_old _ _ _ h.act
  obtain ⟨r1, r2⟩ := rebuild_append (d := s.disk) (d' := appendDisk s r) (a := s.active) (r := r) hs hinit
    (sortedIds_eq_of_keys hk) rfl h.no_hint_active
    (fun fid hne => dataOf_set_other _ hne _) (fun _ _ => rfl) (dataOf_set_same _ _ _)
  refine ⟨r1, ?_⟩
  rw [r2, rebuild_snd, sortedIds_getLast h]

theorem keys_appendDisk (s : St) (r : Rec) (h : IdInv s) : AL.keys (appendDisk s r).data = AL.keys s.disk.data :=
  keys_set_old _ _ _ h.act

/-- the directory after the entry reached the old active file and the next file was created -/
def appendNextDisk (s : St) (r : Rec) : Disk :=
  { appendDisk s r with data := AL.set (s.active + 1) [] (appendDisk s r).data }

theorem rebuild_appendNextDisk (s : St) (r : Rec) (h : IdInv s) :
    (rebuild (appendNextDisk s r)).1 = idxTaken s r ∧ (rebuild (appendNextDisk s r)).2 = s.active + 2 := by
  have hb : ∀ x, x ∈ AL.keys (appendDisk s r).data → x < s.active + 1 := by
    intro x hx; rw [keys_appendDisk s r h] at hx; have := h.ids x hx; omega
  have hk : AL.keys (appendNextDisk s r).data = AL.keys (appendDisk s r).data ++ [s.active + 1] :=
    keys_set_new _ _ _ (fun hc => Nat.lt_irrefl _ (hb _ hc))
  obtain ⟨r1, r2⟩ := rebuild_create (d := appendDisk s r) (d' := appendNextDisk s r) (b := s.active + 1) hk hb rfl
    (h.no_hint_above (by omega)) (fun fid hne => dataOf_set_other _ hne _) (dataOf_set_same _ _ _)
    (fun _ _ => rfl)
  exact ⟨by rw [r1, (rebuild_appendDisk s r h).1], r2⟩

/-- **faults `appendSmall`, `fsync`, `create`: a restart rebuilds the index of the completed
    operation** -/
theorem rebuild_writeF_taken (s : St) (r : Rec) (f : Fault) (h : IdInv s) (hf : ∀ hdr, f ≠ .appendLarge hdr) :
    (rebuild (writeF s r f).disk).1 = idxTaken s r := by
  cases f with
  | appendSmall => exact (rebuild_appendNextDisk s r h).1
  | appendLarge hdr => exact absurd rfl (hf hdr)
  | fsync => exact (rebuild_appendDisk s r h).1
  | create => exact (rebuild_appendDisk s r h).1

/-- **fault `appendLarge`: a restart rebuilds the index of the directory without the operation** -/
theorem rebuild_writeF_large (s : St) (r : Rec) (hdr : Nat) (h : IdInv s) :
    (rebuild (writeF s r (.appendLarge hdr)).disk).1 = (rebuild s.disk).1 ∧
    (rebuild (writeF s r (.appendLarge hdr)).disk).2 = s.active + 2 := by
  have hb : ∀ x, x ∈ AL.keys s.disk.data → x < s.active + 1 := by
    intro x hx; have := h.ids x hx; omega
  have hk : AL.keys (writeF s r (.appendLarge hdr)).disk.data = AL.keys s.disk.data ++ [s.active + 1] :=
    keys_set_new _ _ _ (fun hc => Nat.lt_irrefl _ (hb _ hc))
  apply rebuild_create (d := s.disk) (b := s.active + 1) hk hb rfl (h.no_hint_above (by omega))
  · intro fid hne; exact dataOf_set_other _ hne _
  · exact dataOf_set_same _ _ _
  · intro fid hfid
    have hne : fid ≠ s.active := fun e => hfid (by rw [e]; exact h.no_hint_active)
    simp only [writeF]
    exact AL.get_set_other hne _ _

/-- the successful operation, for comparison -/
theorem rebuild_write (cfg : Cfg) (s : St) (r : Rec) (h : IdInv s) :
    (rebuild (write cfg s r).1.disk).1 = idxTaken s r := by
  by_cases hroll : s.written + r.len > cfg.maxFile
  · rw [write_roll cfg s r hroll]; exact (rebuild_appendNextDisk s r h).1
  · rw [write_noroll cfg s r hroll]; exact (rebuild_appendDisk s r h).1

/-! ### what the restarted store reads -/

theorem recAt_nil (p : Nat) : recAt [] p = none := rfl

theorem isSome_of_dataOf_ne {d : Disk} {fid : Nat} (h : dataOf d fid ≠ []) : (AL.get fid d.data).isSome := by
  cases hg : AL.get fid d.data with
  | none => simp [dataOf, hg] at h
  | some v => rfl

/-- two states with the same index and the same records in every file read the same (files that
    exist in only one of them are empty) -/
theorem abs_of_dataOf_eq {x y : St} (hk : x.keydir = y.keydir) (hd : ∀ fid, dataOf x.disk fid = dataOf y.disk fid) :
    x.abs = y.abs := by
  funext k
  unfold St.abs get
  rw [hk]
  cases AL.get k y.keydir with
  | none => rfl
  | some loc =>
    simp only [hd loc.fid]
    cases hr : recAt (dataOf y.disk loc.fid) loc.pos with
    | none => rfl
    | some rec =>
      have hne : dataOf y.disk loc.fid ≠ [] := fun e => by rw [e, recAt_nil] at hr; cases hr
      have h1 : (AL.get loc.fid y.disk.data).isSome := isSome_of_dataOf_ne hne
      have h2 : (AL.get loc.fid x.disk.data).isSome := isSome_of_dataOf_ne (by rw [hd]; exact hne)
      simp only [h1, h2]

theorem reopen_keydir (s : St) : (reopen s).1.keydir = (rebuild s.disk).1.keydir := rfl

/-- an additional empty file does not change the records of any file -/
theorem dataOf_set_empty (d : Disk) (b : Nat) (hb : dataOf d b = []) (hint : List (Nat × List Hint))
    (tails : List (Nat × Nat)) (fid : Nat) :
    dataOf { data := AL.set b [] d.data, hint := hint, tails := tails } fid = dataOf d fid := by
  by_cases e : fid = b
  · subst e; rw [hb]; simp [dataOf, AL.get_set_same]
  · simp only [dataOf, AL.get_set_other e]

theorem dataOf_above {s : St} (h : IdInv s) {b : Nat} (hb : s.active < b) : dataOf s.disk b = [] := by
  cases hg : AL.get b s.disk.data with
  | none => simp [dataOf, hg]
  | some v => have := h.ids _ (AL.mem_keys_of_get hg); omega

/-- reopening adds an empty file only -/
theorem reopen_dataOf {s : St} (h : IdInv s) (fid : Nat) : dataOf (reopen s).1.disk fid = dataOf s.disk fid := by
  rw [reopen_disk, reopen_active h]
  exact dataOf_set_empty s.disk _ (dataOf_above h (by omega)) _ _ fid

theorem dataOf_appendNextDisk (s : St) (r : Rec) (h : IdInv s) (fid : Nat) :
    dataOf (appendNextDisk s r) fid = dataOf (appendDisk s r) fid := by
  apply dataOf_set_empty (appendDisk s r)
  have hne : s.active + 1 ≠ s.active := by omega
  show dataOf (appendDisk s r) (s.active + 1) = []
  rw [appendDisk, dataOf_set_other _ hne]
  exact dataOf_above h (by omega)

theorem dataOf_writeF_taken (s : St) (r : Rec) (f : Fault) (h : IdInv s) (hf : ∀ hdr, f ≠ .appendLarge hdr)
    (fid : Nat) : dataOf (writeF s r f).disk fid = dataOf (appendDisk s r) fid := by
  cases f with
  | appendSmall => exact dataOf_appendNextDisk s r h fid
  | appendLarge hdr => exact absurd rfl (hf hdr)
  | fsync => rfl
  | create => rfl

theorem dataOf_write (cfg : Cfg) (s : St) (r : Rec) (h : IdInv s) (fid : Nat) :
    dataOf (write cfg s r).1.disk fid = dataOf (appendDisk s r) fid := by
  by_cases hroll : s.written + r.len > cfg.maxFile
  · rw [write_roll cfg s r hroll]; exact dataOf_appendNextDisk s r h fid
  · rw [write_noroll cfg s r hroll]; rfl

/-- **After a restart, a write that failed with `appendSmall`, `fsync` or `create` has taken
    effect**: the reopened store has the index, the counters and the contents (what every key
    reads) of the store reopened after the same write without a fault. -/
theorem reopen_writeF_taken (cfg : Cfg) (s : St) (r : Rec) (f : Fault) (h : IdInv s)
    (hf : ∀ hdr, f ≠ .appendLarge hdr) :
    (reopen (writeF s r f)).1.keydir = (reopen (write cfg s r).1).1.keydir ∧
    (reopen (writeF s r f)).1.stats = (reopen (write cfg s r).1).1.stats ∧
    (reopen (writeF s r f)).1.bad = (reopen (write cfg s r).1).1.bad ∧
    (reopen (writeF s r f)).1.abs = (reopen (write cfg s r).1).1.abs := by
  have e : (rebuild (writeF s r f).disk).1 = (rebuild (write cfg s r).1.disk).1 := by
    rw [rebuild_writeF_taken s r f h hf, rebuild_write cfg s r h]
  refine ⟨congrArg Idx.keydir e, congrArg Idx.stats e, congrArg Idx.bad e, ?_⟩
  apply abs_of_dataOf_eq (congrArg Idx.keydir e)
  intro fid
  rw [reopen_dataOf (writeF_idinv s r f h), reopen_dataOf (write_idinv cfg s r h),
    dataOf_writeF_taken s r f h hf, dataOf_write cfg s r h]

/-- **After a restart, a write that failed with `appendLarge` has not taken effect**: the reopened
    store has the index, the counters and the contents of the store reopened without it. -/
theorem reopen_writeF_large (s : St) (r : Rec) (hdr : Nat) (h : IdInv s) :
    (reopen (writeF s r (.appendLarge hdr))).1.keydir = (reopen s).1.keydir ∧
    (reopen (writeF s r (.appendLarge hdr))).1.stats = (reopen s).1.stats ∧
    (reopen (writeF s r (.appendLarge hdr))).1.bad = (reopen s).1.bad ∧
    (reopen (writeF s r (.appendLarge hdr))).1.abs = (reopen s).1.abs := by
  have e := (rebuild_writeF_large s r hdr h).1
  refine ⟨congrArg Idx.keydir e, congrArg Idx.stats e, congrArg Idx.bad e, ?_⟩
  apply abs_of_dataOf_eq (congrArg Idx.keydir e)
  intro fid
  rw [reopen_dataOf (writeF_idinv s r _ h), reopen_dataOf h]
  exact dataOf_set_empty s.disk _ (dataOf_above h (by omega)) _ _ fid

/-! ### the failed key and the other keys, explicitly -/

theorem _root_.Store.Idx.account_keydir (ix : Idx) (p : Option Loc) : (ix.account p).keydir = ix.keydir := by
  unfold Idx.account; cases p <;> rfl

/-- the rebuilt index of the completed write: `r.key` points at the new record (or is absent,
    for a tombstone), every other key is as in the index rebuilt without the write -/
theorem idxTaken_keydir (s : St) (r : Rec) (k : Key) :
    AL.get k (idxTaken s r).keydir =
      if k = r.key then
        (match r.val with
         | some _ => some { fid := s.active, pos := fileSize (dataOf s.disk s.active), len := r.len, ts := r.ts }
         | none => none)
      else AL.get k (rebuild s.disk).1.keydir := by
  unfold idxTaken scanStep
  cases hv : r.val with
  | none => simp only [Idx.account_keydir]; exact AL.get_del _ _ _
  | some v => simp only [Idx.account_keydir]; exact AL.get_set _ _ _ _

/-- **after a restart the failed key reads the failed operation's value** (faults `appendSmall`,
    `fsync`, `create`) -/
theorem reopen_writeF_failed_key (s : St) (r : Rec) (f : Fault) (h : IdInv s) (hf : ∀ hdr, f ≠ .appendLarge hdr) :
    (reopen (writeF s r f)).1.abs r.key = r.val := by
  have hkd : (reopen (writeF s r f)).1.keydir = (idxTaken s r).keydir := by
    rw [reopen_keydir, rebuild_writeF_taken s r f h hf]
  have hg := idxTaken_keydir s r r.key
  simp only [↓reduceIte] at hg
  cases hv : r.val with
  | none =>
    rw [hv] at hg
    exact abs_none_of_none (by rw [hkd]; exact hg)
  | some v =>
    rw [hv] at hg
    have hd : dataOf (reopen (writeF s r f)).1.disk s.active = dataOf s.disk s.active ++ [r] := by
      rw [reopen_dataOf (writeF_idinv s r f h), dataOf_writeF_taken s r f h hf]
      exact dataOf_set_same _ _ _
    have hk : AL.get r.key (reopen (writeF s r f)).1.keydir =
        some { fid := s.active, pos := fileSize (dataOf s.disk s.active), len := r.len, ts := r.ts } := by
      rw [hkd]; exact hg
    rw [abs_of_locOk hk (r := r) (by simp only [hd]; exact recAt_append_size _ _ []) rfl
      (isSome_of_dataOf_ne (by simp only [hd]; simp)), hv]

/-- **after a restart every other key reads what it reads after a restart without the failed
    operation**, provided that restart yields valid index entries for it (which is what the
    recovery theory establishes; it is needed here because an entry that does not address a
    record could by accident address the new one) -/
theorem reopen_writeF_other_key (s : St) (r : Rec) (f : Fault) (h : IdInv s) (k : Key) (hk : k ≠ r.key)
    (hloc : ∀ loc, AL.get k (reopen s).1.keydir = some loc → LocOk (reopen s).1.disk k loc) :
    (reopen (writeF s r f)).1.abs k = (reopen s).1.abs k := by
  by_cases hf : ∀ hdr, f ≠ .appendLarge hdr
  · have hkd : AL.get k (reopen (writeF s r f)).1.keydir = AL.get k (reopen s).1.keydir := by
      rw [reopen_keydir, rebuild_writeF_taken s r f h hf, idxTaken_keydir]
      simp only [hk, ↓reduceIte]; rfl
    cases hg : AL.get k (reopen s).1.keydir with
    | none => rw [abs_none_of_none hg, abs_none_of_none (by rw [hkd, hg])]
    | some loc =>
      obtain ⟨x, h1, h2, h3, h4, h5⟩ := hloc loc hg
      rw [abs_of_locOk hg h1 h4 h5]
      have hne : dataOf (reopen s).1.disk loc.fid ≠ [] := fun e => by rw [e, recAt_nil] at h1; cases h1
      have h1' : recAt (dataOf (reopen (writeF s r f)).1.disk loc.fid) loc.pos = some x := by
        rw [reopen_dataOf (writeF_idinv s r f h), dataOf_writeF_taken s r f h hf]
        rw [reopen_dataOf h] at h1
        by_cases e : loc.fid = s.active
        · rw [e, appendDisk, dataOf_set_same]; rw [e] at h1; exact recAt_append_left h1 _
        · rw [appendDisk, dataOf_set_other _ e]; exact h1
      have hne' : dataOf (reopen (writeF s r f)).1.disk loc.fid ≠ [] := fun e => by
        rw [e, recAt_nil] at h1'; cases h1'
      exact abs_of_locOk (by rw [hkd, hg]) h1' h4 (isSome_of_dataOf_ne hne')
  · have : ∃ hdr, f = .appendLarge hdr := by
      cases f with
      | appendLarge hdr => exact ⟨hdr, rfl⟩
      | appendSmall => exact absurd (fun hdr => by simp) hf
      | fsync => exact absurd (fun hdr => by simp) hf
      | create => exact absurd (fun hdr => by simp) hf
    obtain ⟨hdr, rfl⟩ := this
    rw [(reopen_writeF_large s r hdr h).2.2.2]

/-- the entry a restart rebuilds for the key of a record that is complete at the end of the old
    active file is valid (used to show that the hypothesis of `reopen_writeF_other_key` is
    satisfiable) -/
theorem reopen_writeF_locOk (s : St) (r : Rec) (f : Fault) (h : IdInv s) (hf : ∀ hdr, f ≠ .appendLarge hdr)
    (loc : Loc) (hk : AL.get r.key (reopen (writeF s r f)).1.keydir = some loc) :
    LocOk (reopen (writeF s r f)).1.disk r.key loc := by
  have hkd : (reopen (writeF s r f)).1.keydir = (idxTaken s r).keydir := by
    rw [reopen_keydir, rebuild_writeF_taken s r f h hf]
  have hg := idxTaken_keydir s r r.key
  simp only [↓reduceIte] at hg
  rw [hkd, hg] at hk
  cases hv : r.val with
  | none => rw [hv] at hk; cases hk
  | some v =>
    rw [hv] at hk
    simp only [Option.some.injEq] at hk
    subst hk
    have hd : dataOf (reopen (writeF s r f)).1.disk s.active = dataOf s.disk s.active ++ [r] := by
      rw [reopen_dataOf (writeF_idinv s r f h), dataOf_writeF_taken s r f h hf]
      exact dataOf_set_same _ _ _
    refine ⟨r, ?_, rfl, by rw [hv]; rfl, rfl, ?_⟩
    · simp only [hd]; exact recAt_append_size _ _ []
    · exact isSome_of_dataOf_ne (by simp only [hd]; simp)

end Store.Tr