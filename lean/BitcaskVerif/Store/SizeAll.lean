/-
  No data file exceeds the configured maximum by more than one entry (C14): every data file in
  the directory, without its last record, is at most `maxFile` bytes long.  For merge outputs this
  uses the store invariant `Inv` (the copied record has the indexed length), so the run-level
  theorem is stated for the C01 histories (no reopen); the step lemmas hold from any state.
-/
import BitcaskVerif.Store.TraceSize

namespace Store.Tr
/-- every file, without its last record, fits into the maximum -/
def AllSz (cfg : Cfg) (data : List (Nat × List Rec)) : Prop :=
  ∀ id rs, AL.get id data = some rs → fileSize rs.dropLast ≤ cfg.maxFile

theorem allSz_set {cfg : Cfg} {data : List (Nat × List Rec)} (h : AllSz cfg data) (id : Nat) (rs : List Rec)
    (hrs : fileSize rs.dropLast ≤ cfg.maxFile) : AllSz cfg (AL.set id rs data) := by
  intro i xs hi
  rw [AL.get_set] at hi
  by_cases e : i = id
  · simp only [e, ↓reduceIte, Option.some.injEq] at hi; rw [← hi]; exact hrs
  · simp only [e, ↓reduceIte] at hi; exact h i xs hi

theorem allSz_set_nil {cfg : Cfg} {data : List (Nat × List Rec)} (h : AllSz cfg data) (id : Nat) :
    AllSz cfg (AL.set id [] data) := allSz_set h id [] (by simp)

theorem allSz_append {cfg : Cfg} {data : List (Nat × List Rec)} (h : AllSz cfg data) (id : Nat)
    (old : List Rec) (r : Rec) (hold : fileSize old ≤ cfg.maxFile) : AllSz cfg (AL.set id (old ++ [r]) data) :=
  allSz_set h id _ (by rw [List.dropLast_concat]; exact hold)

theorem allSz_del {cfg : Cfg} {data : List (Nat × List Rec)} (h : AllSz cfg data) (id : Nat) :
    AllSz cfg (AL.del id data) := by
  intro i xs hi
  rw [AL.get_del] at hi
  by_cases e : i = id
  · simp [e] at hi
  · simp only [e, ↓reduceIte] at hi; exact h i xs hi

/-! ### write -/

theorem write_allSz (cfg : Cfg) (s : St) (r : Rec) (hs : SzInv cfg s) (h : AllSz cfg s.disk.data) :
    AllSz cfg (write cfg s r).1.disk.data := by
  have hold : fileSize (dataOf s.disk s.active) ≤ cfg.maxFile := by rw [← hs.eq]; exact hs.le
  by_cases hroll : s.written + r.len > cfg.maxFile
  · rw [write_roll cfg s r hroll]
    exact allSz_set_nil (allSz_append h _ _ _ hold) _
  · rw [write_noroll cfg s r hroll]
    exact allSz_append h _ _ _ hold

/-! ### merge -/

theorem mergeStep_allSz (cfg : Cfg) (sel : List Nat) (A : Nat) (abs0 : Map) (m : MergeSt) (k : Key)
    (hm : MInv A abs0 m) (hp : m.mpos ≤ cfg.maxFile) (h : AllSz cfg m.s.disk.data) :
    AllSz cfg (mergeStep cfg sel m k).s.disk.data := by
  have hold : fileSize (dataOf m.s.disk m.mid) ≤ cfg.maxFile := by rw [← hm.pos]; exact hp
  apply mergeStep_ind (fun x => AllSz cfg x.s.disk.data) cfg sel m k
  · exact h
  · exact h
  · intro loc r _ _ _
    simp only [moveNoRoll, moveSt, moveDisk]
    exact allSz_append h _ _ _ hold
  · intro loc r _ _ _
    simp only [moveRoll, moveSt, moveDisk, rollDisk]
    exact allSz_set_nil (allSz_append h _ _ _ hold) _

theorem mergeFold_allSz (cfg : Cfg) (sel : List Nat) (A : Nat) (abs0 : Map) (hselA : ∀ id, id ∈ sel → id ≤ A)
    (order : List Key) : ∀ (m : MergeSt), MInv A abs0 m → m.mpos ≤ cfg.maxFile → AllSz cfg m.s.disk.data →
    AllSz cfg (order.foldl (mergeStep cfg sel) m).s.disk.data := by
  induction order with
  | nil => intro m _ _ h; exact h
  | cons k ks ih =>
    intro m hm hp h
    exact ih _ (mergeStep_spec cfg sel A abs0 hselA m k hm).1 (mergeStep_mpos_le cfg sel m k hp)
      (mergeStep_allSz cfg sel A abs0 m k hm hp h)

theorem unlinkFold_allSz (cfg : Cfg) (l : List Nat) : ∀ (st : St × List Call), AllSz cfg st.1.disk.data →
    AllSz cfg (l.foldl unlinkOne st).1.disk.data := by
  induction l with
  | nil => intro st h; exact h
  | cons id ids ih =>
    intro st h
    simp only [List.foldl_cons]
    apply ih
    obtain ⟨s, c⟩ := st
    exact allSz_del h id

/-- the loop invariant of `MergeLemmas` holds initially -/
theorem mergeInit_minv (s : St) (h : Inv s) : MInv s.active s.abs (mergeInit s) := by
  have hK0 : Keeps s.active s.disk (rollDisk s.disk (s.active + 1)) := keeps_create _ _ _ (by omega) _ _
  constructor
  · intro k loc hk
    have hl := h.locs k loc hk
    exact hl.keeps (LocOk.fid_le h hl) hK0
  · intro id hid
    simp only [mergeInit, rollDisk] at hid ⊢
    rcases mem_keys_set hid with e | e
    · omega
    · have := h.ids id e; omega
  · intro id hid
    simp only [mergeInit, rollDisk] at hid ⊢
    rcases mem_keys_set hid with e | e
    · omega
    · have := h.hids id e; omega
  · simp [mergeInit]
  · simp [mergeInit, rollDisk, dataOf, AL.get_set_same]
  · simp [mergeInit, rollDisk, AL.get_set_same]
  · funext k
    apply abs_keeps (b := s.active)
    · intro l hl; have := h.locs k l hl; exact ⟨this, LocOk.fid_le h this⟩
    · rfl
    · exact hK0

theorem mergeWith_allSz (cfg : Cfg) (s : St) (sel : List Nat) (order : List Key) (h : Inv s)
    (hsel : ∀ id, id ∈ sel → id ≤ s.active) (ha : AllSz cfg s.disk.data) :
    AllSz cfg (mergeWith cfg s sel order).1.disk.data := by
  have h0 : AllSz cfg (mergeInit s).s.disk.data := by
    simp only [mergeInit, rollDisk]; exact allSz_set_nil ha _
  have hL : AllSz cfg (mergeLoop cfg s sel order).s.disk.data :=
    mergeFold_allSz cfg sel s.active s.abs hsel order _ (mergeInit_minv s h) (Nat.zero_le _) h0
  have hU : AllSz cfg (mergeUnlinked cfg s sel order).1.disk.data := unlinkFold_allSz cfg sel _ hL
  rw [mergeWith_eq]
  exact allSz_set_nil hU _

/-! ### steps and runs -/

theorem reopen_allSz (cfg : Cfg) (s : St) (ha : AllSz cfg s.disk.data) : AllSz cfg (reopen s).1.disk.data := by
  rw [reopen_disk]; exact allSz_set_nil ha _

/-- one operation keeps "no file exceeds the maximum by more than one entry" (a merge needs the
    store invariant at its start) -/
theorem stepC_allSz (cfg : Cfg) (s : St) (op : TOp) (hs : SzInv cfg s) (ha : AllSz cfg s.disk.data)
    (hv : match op with
          | .merge sel _ => Inv s ∧ ∀ id, id ∈ sel → id ≤ s.active
          | _ => True) :
    AllSz cfg (stepC cfg s op).1.disk.data := by
  cases op with
  | put ts k v => show AllSz cfg (put cfg s ts k v).1.disk.data; rw [put_disk]; exact write_allSz cfg s _ hs ha
  | del ts k => show AllSz cfg (delete cfg s ts k).1.disk.data; rw [delete_disk]; exact write_allSz cfg s _ hs ha
  | get k => exact ha
  | merge sel order => exact mergeWith_allSz cfg s sel order hv.1 hv.2 ha
  | reopen => exact reopen_allSz cfg s ha

theorem step_allSz (cfg : Cfg) (s : St) (op : Op) (h : Inv s) (hs : SzInv cfg s) (ha : AllSz cfg s.disk.data)
    (hv : match op with
          | .merge sel order => (∀ id, id ∈ sel → id ≤ s.active) ∧ Covers order s
          | _ => True) :
    SzInv cfg (step cfg s op).1 ∧ AllSz cfg (step cfg s op).1.disk.data := by
  rw [← stepC_ofOp]
  refine ⟨stepC_sz cfg s _ hs, stepC_allSz cfg s _ hs ha ?_⟩
  cases op with
  | put k v => trivial
  | del k => trivial
  | get k => trivial
  | merge sel order => exact ⟨h, hv.1⟩

/-- every history of C01 operations keeps all three invariants -/
theorem run_allSz (cfg : Cfg) (ops : List Op) : ∀ (s : St), Inv s → SzInv cfg s → AllSz cfg s.disk.data →
    ValidFrom cfg s ops → AllSz cfg (run cfg s ops).1.disk.data := by
  induction ops with
  | nil => intro s _ _ ha _; exact ha
  | cons op ops ih =>
    intro s h hs ha hv
    obtain ⟨i1, _, _⟩ := step_refines cfg s op h hv.1
    obtain ⟨j1, j2⟩ := step_allSz cfg s op h hs ha hv.1
    simp only [run]
    exact ih _ i1 j1 j2 hv.2

theorem fresh_allSz (cfg : Cfg) : AllSz cfg fresh.disk.data := by
  intro id rs h
  simp only [fresh, AL.get] at h
  split at h
  · cases h; simp
  · cases h

end Store.Tr