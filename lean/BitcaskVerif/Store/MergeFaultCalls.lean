/-
  Fault-aware merge pass (C20), part 4: the calls of a failed pass.

  `faultPrefix cs j torn`: the calls `cs` of which call number `j` fails — the calls before `j`,
  followed, if call `j` is an append, by the torn prefix of it that reached the file.
  `mfZ_calls`: the calls that have taken effect when `merge_files` returns are exactly
  `faultPrefix (mergeWith cfg s sel order).2 j torn`, and they are the whole effect on the
  directory (`mfZ_frame`).  So the directory a failed pass leaves is a crash cut (`Cut`) of the
  fault-free pass, plus the new active file.
-/
import BitcaskVerif.Store.MergeFaultSpec
import BitcaskVerif.Store.CutLemmas

namespace Store

variable {hintFirst : Bool}

/-! ### the calls before a failing call -/

/-- what reaches the file of a failing call: of an append a torn prefix (`torn` bytes, fewer than
    the entry has), of any other call nothing -/
def tornCall (torn : Nat) : Call → List Call
  | .append f p => if payLen p = 0 then [] else [.append f (.raw (tornBytes torn (payLen p)))]
  | _ => []

/-- the calls `cs` in which call number `j` fails: what has taken effect -/
def faultPrefix (cs : List Call) (j torn : Nat) : List Call :=
  cs.take j ++ (match cs[j]? with | some c => tornCall torn c | none => [])

theorem tornBytes_lt {torn n : Nat} (h : 0 < n) : (tornBytes torn n).length < n := by
  simp only [tornBytes, List.length_replicate]; omega

theorem faultPrefix_of_ge {cs : List Call} {j : Nat} (h : cs.length ≤ j) (torn : Nat) : faultPrefix cs j torn = cs := by
  unfold faultPrefix
  rw [List.take_of_length_le h, List.getElem?_eq_none h]
  simp

/-- the failing call lies in the middle part -/
theorem faultPrefix_append_mid (pre mid post : List Call) {j : Nat} (torn : Nat) (h1 : pre.length ≤ j)
    (h2 : j < pre.length + mid.length) :
    faultPrefix (pre ++ mid ++ post) j torn = pre ++ faultPrefix mid (j - pre.length) torn := by
  unfold faultPrefix
  have hi : j - pre.length < mid.length := by omega
  have e1 : (pre ++ mid ++ post).take j = pre ++ mid.take (j - pre.length) := by
    have h0 : j - pre.length - mid.length = 0 := by omega
    rw [List.append_assoc, List.take_append, List.take_of_length_le h1, List.take_append, h0]
    simp
  have e2 : (pre ++ mid ++ post)[j]? = mid[j - pre.length]? := by
    rw [List.append_assoc, List.getElem?_append_right h1, List.getElem?_append_left hi]
  rw [e1, e2, List.append_assoc]

/-- **a failed call list is a crash cut** -/
theorem cut_faultPrefix (cs : List Call) (j torn : Nat) : Cut cs (faultPrefix cs j torn) := by
  by_cases h : cs.length ≤ j
  · rw [faultPrefix_of_ge h]; exact Cut.all cs
  · have hlt : j < cs.length := by omega
    have hsplit : cs = cs.take j ++ cs[j] :: cs.drop (j + 1) := by
      rw [← List.drop_eq_getElem_cons hlt, List.take_append_drop]
    unfold faultPrefix
    rw [List.getElem?_eq_getElem hlt]
    simp only
    cases hc : cs[j] with
    | append f p =>
      simp only [tornCall]
      by_cases hp : payLen p = 0
      · simp only [hp, ↓reduceIte, List.append_nil]
        exact .boundary _ (cs.drop j) (List.take_append_drop j cs).symm
      · simp only [hp, ↓reduceIte]
        rw [hc] at hsplit
        exact .torn _ f p _ _ hsplit (tornBytes_lt (by omega))
    | create f => simp only [tornCall, List.append_nil]; exact .boundary _ (cs.drop j) (List.take_append_drop j cs).symm
    | fsync f => simp only [tornCall, List.append_nil]; exact .boundary _ (cs.drop j) (List.take_append_drop j cs).symm
    | unlink f => simp only [tornCall, List.append_nil]; exact .boundary _ (cs.drop j) (List.take_append_drop j cs).symm

end Store

namespace Store

/-! ### the calls of one fault-free iteration -/

/-- the calls one iteration adds when it copies record `r` of key `k` -/
def addedCalls (cfg : Cfg) (m : MergeSt) (k : Key) (loc : Loc) (r : Rec) : List Call :=
  [Call.append ⟨.data, m.mid⟩ (.ofRec r), Call.append ⟨.hint, m.mid⟩ (.ofHint (hintOf m k loc))] ++
  (if m.mpos + loc.len > cfg.maxFile then
     [Call.fsync ⟨.data, m.mid⟩, Call.fsync ⟨.hint, m.mid⟩,
      Call.create ⟨.data, m.mid + 1⟩, Call.create ⟨.hint, m.mid + 1⟩]
   else [])

/-- an iteration issues no call, or it copies a record -/
theorem mergeStep_calls_cases (cfg : Cfg) (sel : List Nat) (m : MergeSt) (k : Key) :
    (mergeStep cfg sel m k).calls = m.calls ∨
    ∃ loc r, AL.get k m.s.keydir = some loc ∧ loc.fid ∈ sel ∧
      recAt (dataOf m.s.disk loc.fid) loc.pos = some r ∧
      (mergeStep cfg sel m k).calls = m.calls ++ addedCalls cfg m k loc r := by
  cases hk : AL.get k m.s.keydir with
  | none => rw [mergeStep_skip_none cfg sel m k hk]; exact .inl rfl
  | some loc =>
    by_cases hsel : loc.fid ∈ sel
    · cases hr : recAt (dataOf m.s.disk loc.fid) loc.pos with
      | none =>
        have : mergeStep cfg sel m k = { m with s := { m.s with bad := true } } := by
          unfold mergeStep; simp only [hk, hsel, ↓reduceIte, hr]
        rw [this]; exact .inl rfl
      | some r =>
        right
        refine ⟨loc, r, rfl, hsel, hr, ?_⟩
        rw [mergeStep_move cfg sel m k loc r hk hsel hr]
        unfold addedCalls
        split <;> simp [moveCalls, hintOf]
    · rw [mergeStep_skip_unsel cfg sel m k loc hk hsel]; exact .inl rfl

theorem mergeFold_calls_prefix (cfg : Cfg) (sel : List Nat) (order : List Key) : ∀ (m : MergeSt),
    ∃ rest, (order.foldl (mergeStep cfg sel) m).calls = m.calls ++ rest := by
  induction order with
  | nil => intro m; exact ⟨[], by simp⟩
  | cons k ks ih =>
    intro m
    obtain ⟨rest, e⟩ := ih (mergeStep cfg sel m k)
    simp only [List.foldl_cons]
    rcases mergeStep_calls_cases cfg sel m k with h | ⟨loc, r, _, _, _, h⟩
    · exact ⟨rest, by rw [e, h]⟩
    · exact ⟨addedCalls cfg m k loc r ++ rest, by rw [e, h, List.append_assoc]⟩

/-- **the calls of a failing iteration**: the calls so far, then the calls of the iteration up to
    the failing one (a failing append torn) -/
theorem failMove_calls (cfg : Cfg) (m : MergeSt) (k : Key) (loc : Loc) (r : Rec) (i torn : Nat)
    (hi : i < (addedCalls cfg m k loc r).length) :
    (failMove hintFirst m k loc r i torn).calls = m.calls ++ faultPrefix (addedCalls cfg m k loc r) i torn := by
  have hr0 : r.len ≠ 0 := Nat.pos_iff_ne_zero.mp r.len_pos
  have hh0 : (hintOf m k loc).size ≠ 0 := by simp [Hint.size]
  unfold addedCalls at hi ⊢
  by_cases hroll : m.mpos + loc.len > cfg.maxFile
  · simp only [hroll, ↓reduceIte] at hi ⊢
    rcases i with _ | _ | _ | _ | _ | _ | i
    · simp [failMove, faultPrefix, tornCall, payLen, hr0]
    · simp [failMove, faultPrefix, tornCall, payLen, hh0]
    · simp [failMove, faultPrefix, tornCall, moveCalls, hintOf]
    · simp [failMove, faultPrefix, tornCall, moveCalls, hintOf]
    · simp [failMove, faultPrefix, tornCall, moveCalls, hintOf]
    · simp [failMove, faultPrefix, tornCall, moveCalls, hintOf]
    · simp only [List.length_append, List.length_cons, List.length_nil] at hi; omega
  · simp only [hroll, ↓reduceIte, List.append_nil] at hi ⊢
    rcases i with _ | _ | i
    · simp [failMove, faultPrefix, tornCall, payLen, hr0]
    · simp [failMove, faultPrefix, tornCall, payLen, hh0]
    · simp only [List.length_cons, List.length_nil] at hi; omega

/-! ### the calls of a fault-aware phase, relative to the calls `full` of the fault-free pass -/

/-- after a failure: call `j` exists and the calls that have taken effect are `faultPrefix full j`;
    before: all calls issued have indices below `j` and are a prefix of `full` -/
def CP (full : List Call) (j torn : Nat) (calls : List Call) (failed : Bool) : Prop :=
  (failed = true → j < full.length ∧ calls = faultPrefix full j torn) ∧
  (failed = false → calls.length ≤ j ∧ ∃ rest, full = calls ++ rest)

/-- a phase whose next calls are `mid`, one of which fails -/
theorem CP.fail {full : List Call} {j torn : Nat} {pre mid post : List Call} (hfull : full = pre ++ mid ++ post)
    (h1 : pre.length ≤ j) (h2 : j < pre.length + mid.length) :
    CP full j torn (pre ++ faultPrefix mid (j - pre.length) torn) true := by
  refine ⟨fun _ => ⟨?_, ?_⟩, fun e => by cases e⟩
  · rw [hfull]; simp only [List.length_append]; omega
  · rw [hfull, faultPrefix_append_mid pre mid post torn h1 h2]

theorem foldF_calls (cfg : Cfg) (sel : List Nat) (j torn : Nat) (order : List Key) :
    ∀ (x : FM) (full post : List Call), x.failed = false → x.m.calls.length ≤ j →
      full = (order.foldl (mergeStep cfg sel) x.m).calls ++ post →
      CP full j torn (order.foldl (mergeStepF hintFirst cfg sel j torn) x).m.calls
        (order.foldl (mergeStepF hintFirst cfg sel j torn) x).failed := by
  induction order with
  | nil =>
    intro x full post hf hlen hfull
    simp only [List.foldl_nil] at hfull ⊢
    rw [hf]
    exact ⟨(fun e => by cases e), fun _ => ⟨hlen, post, hfull⟩⟩
  | cons k ks ih =>
    intro x full post hf hlen hfull
    simp only [List.foldl_cons] at hfull ⊢
    by_cases hle : (mergeStep cfg sel x.m k).calls.length ≤ j
    · rw [mergeStepF_no_fault hf hle]
      exact ih _ full post rfl hle hfull
    · rcases mergeStep_calls_cases cfg sel x.m k with h | ⟨loc, r, hk, hsel, hr, h⟩
      · rw [h] at hle; exact absurd hlen hle
      · have hst : mergeStepF hintFirst cfg sel j torn x k =
            { m := failMove hintFirst x.m k loc r (j - x.m.calls.length) torn, failed := true } := by
          unfold mergeStepF
          simp only [hf, Bool.false_eq_true, ↓reduceIte, hle, hk, hr]
        rw [hst, foldF_of_failed cfg sel j torn ks rfl]
        simp only
        have h2 : j < x.m.calls.length + (addedCalls cfg x.m k loc r).length := by
          rw [h, List.length_append] at hle; omega
        rw [failMove_calls cfg x.m k loc r _ torn (by omega)]
        obtain ⟨rest, e⟩ := mergeFold_calls_prefix cfg sel ks (mergeStep cfg sel x.m k)
        refine CP.fail (post := rest ++ post) ?_ hlen h2
        rw [hfull, e, h]; simp only [List.append_assoc]

/-- the fsyncs after the loop -/
theorem syncF_calls {full : List Call} {j torn : Nat} {x : FM} {post : List Call}
    (h : CP full j torn x.m.calls x.failed)
    (hfull : x.failed = false →
      full = x.m.calls ++ [Call.fsync ⟨.data, x.m.mid⟩, Call.fsync ⟨.hint, x.m.mid⟩] ++ post) :
    CP full j torn (syncF j x).m.calls (syncF j x).failed := by
  cases hf : x.failed with
  | true =>
    have e : syncF j x = x := by unfold syncF; simp only [hf, ↓reduceIte]
    rw [e, hf]; rw [hf] at h; exact h
  | false =>
    rw [hf] at h
    obtain ⟨hlen, _⟩ := h.2 rfl
    have hfull := hfull hf
    by_cases h1 : j = x.m.calls.length
    · have e : syncF j x = { m := x.m, failed := true } := by
        unfold syncF; simp only [hf, Bool.false_eq_true, ↓reduceIte, h1]
      rw [e]
      have := CP.fail (torn := torn) hfull hlen (by simp; omega)
      simpa [h1, faultPrefix, tornCall] using this
    · by_cases h2 : j = x.m.calls.length + 1
      · have e : syncF j x = { m := { x.m with calls := x.m.calls ++ [Call.fsync ⟨.data, x.m.mid⟩] }, failed := true } := by
          unfold syncF; simp only [hf, Bool.false_eq_true, ↓reduceIte, h1]
          rw [if_pos h2]
        rw [e]
        have := CP.fail (torn := torn) hfull hlen (by simp; omega)
        simpa [h2, faultPrefix, tornCall] using this
      · have e : syncF j x = { m := { x.m with calls := x.m.calls ++
            [Call.fsync ⟨.data, x.m.mid⟩, Call.fsync ⟨.hint, x.m.mid⟩] }, failed := false } := by
          unfold syncF; simp only [hf, Bool.false_eq_true, ↓reduceIte, h1, h2]
        rw [e]
        refine ⟨(fun e => by cases e), fun _ => ⟨?_, post, hfull⟩⟩
        simp only [List.length_append, List.length_cons, List.length_nil]
        omega

/-! ### the removal of the inputs -/

theorem unlinkFold_calls_prefix (l : List Nat) : ∀ (st : St × List Call),
    ∃ rest, (l.foldl unlinkOne st).2 = st.2 ++ rest := by
  induction l with
  | nil => intro st; exact ⟨[], by simp⟩
  | cons id l ih =>
    intro st
    obtain ⟨rest, e⟩ := ih (unlinkOne st id)
    exact ⟨unlinkCalls st.1.disk id ++ rest, by
      simp only [List.foldl_cons]; rw [e, unlinkOne_calls, List.append_assoc]⟩

/-- the calls of a failing removal -/
theorem unlinkOneF_fail (j torn : Nat) (x : (St × List Call) × Bool) (id : Nat) (hf : x.2 = false)
    (hlen : x.1.2.length ≤ j) (hle : ¬ (unlinkOne x.1 id).2.length ≤ j) :
    (unlinkOneF j x id).2 = true ∧
    (unlinkOneF j x id).1.2 = x.1.2 ++ faultPrefix (unlinkCalls x.1.1.disk id) (j - x.1.2.length) torn := by
  rw [unlinkOne_calls, List.length_append] at hle
  unfold unlinkOneF
  simp only [hf, Bool.false_eq_true, ↓reduceIte, unlinkOne_calls, List.length_append, hle]
  unfold unlinkCalls at hle ⊢
  cases hh : (AL.get id x.1.1.disk.hint).isSome <;> cases hd : (AL.get id x.1.1.disk.data).isSome <;>
    simp only [hh, hd, Bool.false_eq_true, ↓reduceIte, List.append_nil, List.nil_append, List.length_nil,
      List.length_cons, List.length_append, Bool.false_and, Bool.true_and, decide_eq_true_eq] at hle ⊢
  · omega
  · have : j - x.1.2.length = 0 := by omega
    simp [this, faultPrefix, tornCall]
  · have : j = x.1.2.length := by omega
    simp [this, faultPrefix, tornCall]
  · by_cases e : j = x.1.2.length
    · simp [e, faultPrefix, tornCall]
    · have : j - x.1.2.length = 1 := by omega
      simp [e, this, faultPrefix, tornCall]

theorem unlinkFoldF_calls (j torn : Nat) (l : List Nat) :
    ∀ (x : (St × List Call) × Bool) (full post : List Call), x.2 = false → x.1.2.length ≤ j →
      full = (l.foldl unlinkOne x.1).2 ++ post →
      CP full j torn (l.foldl (unlinkOneF j) x).1.2 (l.foldl (unlinkOneF j) x).2 := by
  induction l with
  | nil =>
    intro x full post hf hlen hfull
    simp only [List.foldl_nil] at hfull ⊢
    rw [hf]
    exact ⟨(fun e => by cases e), fun _ => ⟨hlen, post, hfull⟩⟩
  | cons id l ih =>
    intro x full post hf hlen hfull
    simp only [List.foldl_cons] at hfull ⊢
    by_cases hle : (unlinkOne x.1 id).2.length ≤ j
    · have e : unlinkOneF j x id = (unlinkOne x.1 id, false) := by
        unfold unlinkOneF; simp only [hf, Bool.false_eq_true, ↓reduceIte, hle]
      rw [e]
      exact ih _ full post rfl hle hfull
    · obtain ⟨f1, f2⟩ := unlinkOneF_fail j torn x id hf hlen hle
      rw [unlinkFoldF_of_failed j l f1, f1, f2]
      obtain ⟨rest, e⟩ := unlinkFold_calls_prefix l (unlinkOne x.1 id)
      rw [unlinkOne_calls, List.length_append] at hle
      refine CP.fail (post := rest ++ post) ?_ hlen (by omega)
      rw [hfull, e, unlinkOne_calls]; simp only [List.append_assoc]

end Store
