/-
  Fault-aware merge pass (C20), part 1: the state in which a failing iteration / a failing
  removal leaves the running store still addresses a complete copy of every record and reads as
  before (`FInv`).
-/
import BitcaskVerif.Store.MergeFault

namespace Store

variable {hintFirst : Bool}

/-! ### only the data files matter for reads -/

theorem locOk_congr_data {d d' : Disk} (h : d'.data = d.data) {k : Key} {loc : Loc} (hl : LocOk d k loc) :
    LocOk d' k loc := by
  obtain ⟨r, h1, h2, h3, h4, h5⟩ := hl
  refine ⟨r, ?_, h2, h3, h4, ?_⟩
  · unfold dataOf at h1 ⊢; rw [h]; exact h1
  · rw [h]; exact h5

theorem get_congr_data {s s' : St} (hk : s'.keydir = s.keydir) (hd : s'.disk.data = s.disk.data) (k : Key) :
    get s' k = get s k := by
  unfold get dataOf; rw [hk, hd]

theorem abs_congr_data {s s' : St} (hk : s'.keydir = s.keydir) (hd : s'.disk.data = s.disk.data) :
    s'.abs = s.abs := by
  funext k; unfold St.abs; rw [get_congr_data hk hd]

/-! ### the invariant of a pass that has been abandoned -/

/-- what is known when `merge_files` returns (with or without an error) with `merge_fileid = mid`,
    for a pass started at active id `A` in a store reading as `abs0` -/
structure FInv (A : Nat) (abs0 : Map) (mid : Nat) (s : St) : Prop where
  locs : ∀ k loc, AL.get k s.keydir = some loc → LocOk s.disk k loc
  ids : ∀ id, id ∈ AL.keys s.disk.data → id ≤ mid
  hids : ∀ id, id ∈ AL.keys s.disk.hint → id ≤ mid
  midgt : A < mid
  abs : s.abs = abs0

theorem MInv.finv {A : Nat} {abs0 : Map} {m : MergeSt} (h : MInv A abs0 m) : FInv A abs0 m.mid m.s :=
  ⟨h.locs, h.ids, h.hids, h.midgt, h.abs⟩

theorem UInv.finv {sel : List Nat} {abs0 : Map} {mid : Nat} {s : St} (h : UInv sel abs0 mid s) {A : Nat}
    (hA : A < mid) : FInv A abs0 mid s :=
  ⟨h.locs, h.ids, h.hids, hA, h.abs⟩

/-- a state with the same index and the same data files, hint files not above `mid'` -/
theorem FInv.congr {A : Nat} {abs0 : Map} {mid mid' : Nat} {s s' : St} (h : FInv A abs0 mid s)
    (hk : s'.keydir = s.keydir) (hd : s'.disk.data = s.disk.data)
    (hh : ∀ id, id ∈ AL.keys s'.disk.hint → id ≤ mid') (hm : mid ≤ mid') : FInv A abs0 mid' s' := by
  constructor
  · intro k loc hg
    rw [hk] at hg
    exact locOk_congr_data hd (h.locs k loc hg)
  · intro id hid
    rw [hd] at hid
    have := h.ids id hid; omega
  · exact hh
  · have := h.midgt; omega
  · rw [abs_congr_data hk hd]; exact h.abs

theorem FInv.fid_le {A : Nat} {abs0 : Map} {mid : Nat} {s : St} (h : FInv A abs0 mid s) {k : Key} {loc : Loc}
    (hk : AL.get k s.keydir = some loc) : loc.fid ≤ mid := by
  obtain ⟨r, _, _, _, _, hex⟩ := h.locs k loc hk
  cases hg : AL.get loc.fid s.disk.data with
  | none => simp [hg] at hex
  | some v => exact h.ids _ (AL.mem_keys_of_get hg)

/-- **the move of the active file above every id the pass has used** gives a state satisfying the
    store invariant that reads as before the pass -/
theorem FInv.finish {A : Nat} {abs0 : Map} {mid : Nat} {s : St} (h : FInv A abs0 mid s) :
    Inv (newActive s (mid + 1)).1 ∧ (newActive s (mid + 1)).1.abs = abs0 := by
  have hK : Keeps mid s.disk { s.disk with data := AL.set (mid + 1) [] s.disk.data } :=
    keeps_create _ _ _ (by omega) _ _
  simp only [newActive]
  constructor
  · constructor
    · intro k loc hk
      exact (h.locs k loc hk).keeps (h.fid_le hk) hK
    · intro id hid
      simp only at hid ⊢
      rcases mem_keys_set hid with e | e
      · omega
      · have := h.ids id e; omega
    · intro id hid
      simp only at hid ⊢
      have := h.hids id hid; omega
    · simp [AL.get_set_same]
  · rw [← h.abs]
    funext k
    apply abs_keeps (b := mid)
    · intro l hl; exact ⟨h.locs k l hl, h.fid_le hl⟩
    · rfl
    · exact hK

/-- one more record at the end of a data file not above `mid` (index unchanged) -/
theorem FInv.appendRec {A : Nat} {abs0 : Map} {mid : Nat} {s : St} (h : FInv A abs0 mid s) {fid : Nat}
    (hf : fid ≤ mid) (r : Rec) :
    FInv A abs0 mid { s with disk := { s.disk with data := AL.set fid (dataOf s.disk fid ++ [r]) s.disk.data } } := by
  have hK : Keeps mid s.disk { s.disk with data := AL.set fid (dataOf s.disk fid ++ [r]) s.disk.data } :=
    keeps_append _ _ _ _ _ _
  constructor
  · intro k loc hk
    exact (h.locs k loc hk).keeps (h.fid_le hk) hK
  · intro id hid
    rcases mem_keys_set hid with e | e
    · omega
    · exact h.ids id e
  · exact h.hids
  · exact h.midgt
  · rw [← h.abs]
    funext k
    apply abs_keeps (b := mid)
    · intro l hl; exact ⟨h.locs k l hl, h.fid_le hl⟩
    · rfl
    · exact hK

/-! ### a failing iteration -/

theorem MInv.calls {A : Nat} {abs0 : Map} {m : MergeSt} (h : MInv A abs0 m) (c : List Call) :
    MInv A abs0 { m with calls := c } :=
  ⟨h.locs, h.ids, h.hids, h.midgt, h.pos, h.midex, h.abs⟩

/-- the loop state after the copy of one record, without and with output rollover -/
theorem move_minv (sel : List Nat) (A : Nat) (abs0 : Map) (hselA : ∀ id, id ∈ sel → id ≤ A)
    (m : MergeSt) (k : Key) (loc : Loc) (r : Rec) (h : MInv A abs0 m)
    (hk : AL.get k m.s.keydir = some loc) (hsel : loc.fid ∈ sel)
    (hr : recAt (dataOf m.s.disk loc.fid) loc.pos = some r) :
    MInv A abs0 { s := moveSt m k loc r, mid := m.mid, mpos := m.mpos + loc.len, calls := moveCalls m k loc r } ∧
    MInv A abs0 { s := { moveSt m k loc r with disk := rollDisk (moveDisk m k loc r) (m.mid + 1) },
                  mid := m.mid + 1, mpos := 0, calls := [] } := by
  have hlen : 0 < loc.len := by
    obtain ⟨r', h1, _, _, h4, _⟩ := h.locs k loc hk
    rw [← h4]; exact r'.len_pos
  constructor
  · have := (mergeStep_spec { maxFile := m.mpos + loc.len } sel A abs0 hselA m k h).1
    rw [mergeStep_move _ sel m k loc r hk hsel hr] at this
    simpa using this
  · have := (mergeStep_spec { maxFile := 0 } sel A abs0 hselA m k h).1
    rw [mergeStep_move _ sel m k loc r hk hsel hr] at this
    have hgt : m.mpos + loc.len > 0 := by omega
    simp only [hgt, ↓reduceIte] at this
    exact this.calls []

/-- **whichever call of an iteration fails**, every index entry still addresses a complete copy
    of its record and every key reads as before the pass -/
theorem failMove_finv (sel : List Nat) (A : Nat) (abs0 : Map) (hselA : ∀ id, id ∈ sel → id ≤ A)
    (m : MergeSt) (k : Key) (loc : Loc) (r : Rec) (h : MInv A abs0 m)
    (hk : AL.get k m.s.keydir = some loc) (hsel : loc.fid ∈ sel)
    (hr : recAt (dataOf m.s.disk loc.fid) loc.pos = some r) (i torn : Nat) :
    FInv A abs0 (failMove hintFirst m k loc r i torn).mid (failMove hintFirst m k loc r i torn).s := by
  obtain ⟨hNo, hRoll⟩ := move_minv sel A abs0 hselA m k loc r h hk hsel hr
  have fNo := hNo.finv
  have fRoll := hRoll.finv
  simp only at fNo fRoll
  have hhNo : ∀ id, id ∈ AL.keys (moveDisk m k loc r).hint → id ≤ m.mid := fNo.hids
  rcases i with _ | _ | _ | _ | _ | i
  · -- data append
    exact h.finv.congr rfl rfl h.hids (Nat.le_refl _)
  · -- hint append
    cases hintFirst with
    | true =>
      exact (h.finv.appendRec (Nat.le_refl _) r).congr rfl rfl (h.finv.appendRec (Nat.le_refl _) r).hids (Nat.le_refl _)
    | false => exact fNo.congr rfl rfl h.hids (Nat.le_refl _)
  · exact fNo
  · exact fNo
  · exact fNo.congr rfl rfl (fun id hid => Nat.le_succ_of_le (hhNo id hid)) (Nat.le_succ _)
  · refine fRoll.congr rfl rfl ?_ (Nat.le_refl _)
    intro id hid
    have := hhNo id hid
    show id ≤ m.mid + 1
    omega

end Store
