/-
  The merge pass preserves the invariant and leaves every key reading as before
  (`mergeWith_inv_abs`), for every set of selected files below the active id and every
  iteration order covering the KeyDir.
-/
import BitcaskVerif.Store.Lemmas

namespace Store

/-- records of files with id ≤ b are preserved from d to d' -/
def Keeps (b : Nat) (d d' : Disk) : Prop :=
  ∀ fid p x, fid ≤ b → recAt (dataOf d fid) p = some x → (AL.get fid d.data).isSome →
    recAt (dataOf d' fid) p = some x ∧ (AL.get fid d'.data).isSome

theorem Keeps.refl (b : Nat) (d : Disk) : Keeps b d d := fun _ _ _ _ h1 h2 => ⟨h1, h2⟩

theorem Keeps.trans {b : Nat} {d1 d2 d3 : Disk} (h12 : Keeps b d1 d2) (h23 : Keeps b d2 d3) : Keeps b d1 d3 :=
  fun fid p x hb h1 h2 => let ⟨a, c⟩ := h12 fid p x hb h1 h2; h23 fid p x hb a c

theorem keeps_append (b : Nat) (d : Disk) (fid : Nat) (r : Rec) (hint : List (Nat × List Hint)) (tails : List (Nat × Nat)) :
    Keeps b d { data := AL.set fid (dataOf d fid ++ [r]) d.data, hint := hint, tails := tails } := by
  intro f p x _ h1 h2
  by_cases hf : f = fid
  · subst hf
    exact ⟨by simp only [dataOf, AL.get_set_same, Option.getD_some]; exact recAt_append_left h1 _,
           by simp [AL.get_set_same]⟩
  · exact ⟨by simp only [dataOf, AL.get_set_other hf]; exact h1, by simp only [AL.get_set_other hf]; exact h2⟩

theorem keeps_create (b : Nat) (d : Disk) (fid : Nat) (hgt : b < fid) (hint : List (Nat × List Hint)) (tails : List (Nat × Nat)) :
    Keeps b d { data := AL.set fid [] d.data, hint := hint, tails := tails } := by
  intro f p x hb h1 h2
  have hf : f ≠ fid := by omega
  exact ⟨by simp only [dataOf, AL.get_set_other hf]; exact h1, by simp only [AL.get_set_other hf]; exact h2⟩

theorem keeps_del (b : Nat) (d : Disk) (id : Nat) (hint : List (Nat × List Hint)) (tails : List (Nat × Nat)) :
    ∀ fid p x, fid ≠ id → recAt (dataOf d fid) p = some x → (AL.get fid d.data).isSome →
      recAt (dataOf { data := AL.del id d.data, hint := hint, tails := tails } fid) p = some x ∧
        (AL.get fid (AL.del id d.data)).isSome := by
  intro f p x hf h1 h2
  exact ⟨by simp only [dataOf, AL.get_del_other hf]; exact h1, by simp only [AL.get_del_other hf]; exact h2⟩

theorem LocOk.keeps {b : Nat} {d d' : Disk} {k : Key} {loc : Loc} (h : LocOk d k loc) (hb : loc.fid ≤ b)
    (hk : Keeps b d d') : LocOk d' k loc := by
  obtain ⟨x, h1, h2, h3, h4, h5⟩ := h
  obtain ⟨a, c⟩ := hk _ _ _ hb h1 h5
  exact ⟨x, a, h2, h3, h4, c⟩

/-- a key whose entry is unchanged and whose file keeps its records reads the same -/
theorem abs_keeps {b : Nat} {s s' : St} {k : Key} (hs : ∀ loc, AL.get k s.keydir = some loc → LocOk s.disk k loc ∧ loc.fid ≤ b)
    (hk : AL.get k s'.keydir = AL.get k s.keydir) (hd : Keeps b s.disk s'.disk) : s'.abs k = s.abs k := by
  cases hg : AL.get k s.keydir with
  | none => rw [abs_none_of_none hg, abs_none_of_none (by rw [hk, hg])]
  | some loc =>
    obtain ⟨⟨x, h1, h2, h3, h4, h5⟩, hb⟩ := hs loc hg
    obtain ⟨a, c⟩ := hd _ _ _ hb h1 h5
    rw [abs_of_locOk hg h1 h4 h5]
    exact abs_of_locOk (by rw [hk, hg]) a h4 c

/-- loop invariant of the merge (relative to the active id `A`, the selected set and the map
    `abs0` read before the merge) -/
structure MInv (A : Nat) (abs0 : Map) (m : MergeSt) : Prop where
  locs : ∀ k loc, AL.get k m.s.keydir = some loc → LocOk m.s.disk k loc
  ids : ∀ id, id ∈ AL.keys m.s.disk.data → id ≤ m.mid
  hids : ∀ id, id ∈ AL.keys m.s.disk.hint → id ≤ m.mid
  midgt : A < m.mid
  pos : m.mpos = fileSize (dataOf m.s.disk m.mid)
  midex : (AL.get m.mid m.s.disk.data).isSome
  abs : m.s.abs = abs0

theorem MInv.fid_le {A : Nat} {abs0 : Map} {m : MergeSt} (h : MInv A abs0 m) {k : Key} {loc : Loc}
    (hl : LocOk m.s.disk k loc) : loc.fid ≤ m.mid := by
  obtain ⟨r, _, _, _, _, hex⟩ := hl
  cases hg : AL.get loc.fid m.s.disk.data with
  | none => simp [hg] at hex
  | some v => exact h.ids _ (AL.mem_keys_of_get hg)

/-- the directory after copying record `r` of key `k` to the merge output -/
def moveDisk (m : MergeSt) (k : Key) (loc : Loc) (r : Rec) : Disk :=
  { data := AL.set m.mid (dataOf m.s.disk m.mid ++ [r]) m.s.disk.data,
    hint := AL.set m.mid ((AL.get m.mid m.s.disk.hint).getD [] ++
      [{ ts := loc.ts, len := loc.len, pos := m.mpos, key := k }]) m.s.disk.hint,
    tails := m.s.disk.tails }

def newLocOf (m : MergeSt) (loc : Loc) : Loc := { fid := m.mid, pos := m.mpos, len := loc.len, ts := loc.ts }

/-- the state after copying, re-pointing and counting (before the output rollover test) -/
def moveSt (m : MergeSt) (k : Key) (loc : Loc) (r : Rec) : St :=
  { m.s with disk := moveDisk m k loc r, keydir := AL.set k (newLocOf m loc) m.s.keydir,
             stats := updStat m.s.stats m.mid (·.addLive),
             bad := m.s.bad || decide (r.len ≠ loc.len) }

def rollDisk (d : Disk) (mid' : Nat) : Disk :=
  { data := AL.set mid' [] d.data, hint := AL.set mid' [] d.hint, tails := d.tails }

def moveCalls (m : MergeSt) (k : Key) (loc : Loc) (r : Rec) : List Call :=
  m.calls ++ [Call.append ⟨.data, m.mid⟩ (.ofRec r),
              Call.append ⟨.hint, m.mid⟩ (.ofHint { ts := loc.ts, len := loc.len, pos := m.mpos, key := k })]

/-- `mergeStep` when the key's entry is in a selected file and addresses record `r` -/
theorem mergeStep_move (cfg : Cfg) (sel : List Nat) (m : MergeSt) (k : Key) (loc : Loc) (r : Rec)
    (hk : AL.get k m.s.keydir = some loc) (hsel : loc.fid ∈ sel)
    (hr : recAt (dataOf m.s.disk loc.fid) loc.pos = some r) :
    mergeStep cfg sel m k =
      (if m.mpos + loc.len > cfg.maxFile then
         { s := { moveSt m k loc r with disk := rollDisk (moveDisk m k loc r) (m.mid + 1) },
           mid := m.mid + 1, mpos := 0,
           calls := moveCalls m k loc r ++ [Call.fsync ⟨.data, m.mid⟩, Call.fsync ⟨.hint, m.mid⟩,
                                          Call.create ⟨.data, m.mid + 1⟩, Call.create ⟨.hint, m.mid + 1⟩] }
       else { s := moveSt m k loc r, mid := m.mid, mpos := m.mpos + loc.len, calls := moveCalls m k loc r }) := by
  unfold mergeStep
  simp only [hk, hsel, ↓reduceIte, hr]
  rfl

theorem mergeStep_skip_none (cfg : Cfg) (sel : List Nat) (m : MergeSt) (k : Key)
    (hk : AL.get k m.s.keydir = none) : mergeStep cfg sel m k = m := by
  unfold mergeStep; simp only [hk]

theorem mergeStep_skip_unsel (cfg : Cfg) (sel : List Nat) (m : MergeSt) (k : Key) (loc : Loc)
    (hk : AL.get k m.s.keydir = some loc) (hsel : loc.fid ∉ sel) : mergeStep cfg sel m k = m := by
  unfold mergeStep; simp only [hk, hsel, ↓reduceIte]

/-- one merge iteration keeps the loop invariant, keeps the KeyDir's key set, moves the visited
    key out of the selected files and never moves another key into them -/
theorem mergeStep_spec (cfg : Cfg) (sel : List Nat) (A : Nat) (abs0 : Map) (hselA : ∀ id, id ∈ sel → id ≤ A)
    (m : MergeSt) (k : Key) (h : MInv A abs0 m) :
    MInv A abs0 (mergeStep cfg sel m k) ∧
    (∀ k', (AL.get k' (mergeStep cfg sel m k).s.keydir).isSome = (AL.get k' m.s.keydir).isSome) ∧
    (∀ loc, AL.get k (mergeStep cfg sel m k).s.keydir = some loc → loc.fid ∉ sel) ∧
    (∀ k', (∀ loc, AL.get k' m.s.keydir = some loc → loc.fid ∉ sel) →
      (∀ loc, AL.get k' (mergeStep cfg sel m k).s.keydir = some loc → loc.fid ∉ sel)) ∧
    m.mid ≤ (mergeStep cfg sel m k).mid := by
  cases hk : AL.get k m.s.keydir with
  | none =>
    rw [mergeStep_skip_none cfg sel m k hk]
    exact ⟨h, fun _ => rfl, (by intro loc hl; rw [hk] at hl; cases hl), fun _ hp => hp, Nat.le_refl _⟩
  | some loc =>
    by_cases hsel : loc.fid ∈ sel
    · obtain ⟨r, h1, h2, h3, h4, h5⟩ := h.locs k loc hk
      rw [mergeStep_move cfg sel m k loc r hk hsel h1]
      have hmidsel : m.mid ∉ sel := fun hc => by have := hselA _ hc; have := h.midgt; omega
      have hK1 : Keeps m.mid m.s.disk (moveDisk m k loc r) := keeps_append _ _ _ _ _ _
      have hrec : recAt (dataOf (moveDisk m k loc r) m.mid) m.mpos = some r := by
        simp only [moveDisk, dataOf, AL.get_set_same, Option.getD_some]
        have := h.pos; simp only [dataOf] at this
        rw [this]; exact recAt_append_size _ _ []
      have hex : (AL.get m.mid (moveDisk m k loc r).data).isSome := by simp [moveDisk, AL.get_set_same]
      have hNew : LocOk (moveDisk m k loc r) k (newLocOf m loc) := ⟨r, hrec, h2, h3, h4, hex⟩
      have hkd : ∀ k', AL.get k' (moveSt m k loc r).keydir = if k' = k then some (newLocOf m loc) else AL.get k' m.s.keydir := by
        intro k'; simp only [moveSt]; exact AL.get_set _ _ _ _
      have habsMove : ∀ (d' : Disk), Keeps m.mid (moveDisk m k loc r) d' →
          ({ moveSt m k loc r with disk := d' } : St).abs = abs0 := by
        intro d' hK2
        rw [← h.abs]
        funext k'
        by_cases hkk : k' = k
        · subst hkk
          have hk2 : AL.get k' ({ moveSt m k' loc r with disk := d' } : St).keydir = some (newLocOf m loc) := by
            have := hkd k'; simp only [↓reduceIte] at this; exact this
          obtain ⟨a, c⟩ := hK2 m.mid m.mpos r (Nat.le_refl _) hrec hex
          rw [abs_of_locOk hk2 a h4 c]
          exact (abs_of_locOk hk h1 h4 h5).symm
        · apply abs_keeps (b := m.mid)
          · intro l hl; have := h.locs k' l hl; exact ⟨this, h.fid_le this⟩
          · have := hkd k'; simp only [hkk, ↓reduceIte] at this; exact this
          · exact hK1.trans hK2
      have hdom : ∀ k', (AL.get k' (moveSt m k loc r).keydir).isSome = (AL.get k' m.s.keydir).isSome := by
        intro k'; rw [hkd]
        by_cases hkk : k' = k
        · subst hkk; simp [hk]
        · simp [hkk]
      have hP : ∀ l, AL.get k (moveSt m k loc r).keydir = some l → l.fid ∉ sel := by
        intro l hl; rw [hkd] at hl; simp only [↓reduceIte, Option.some.injEq] at hl
        subst hl; exact hmidsel
      have hP' : ∀ k', (∀ l, AL.get k' m.s.keydir = some l → l.fid ∉ sel) →
          (∀ l, AL.get k' (moveSt m k loc r).keydir = some l → l.fid ∉ sel) := by
        intro k' hp l hl
        rw [hkd] at hl
        by_cases hkk : k' = k
        · simp only [hkk, ↓reduceIte, Option.some.injEq] at hl
          subst hl; exact hmidsel
        · simp only [hkk, ↓reduceIte] at hl
          exact hp l hl
      have hlocs : ∀ (d' : Disk), Keeps m.mid (moveDisk m k loc r) d' →
          ∀ k' loc', AL.get k' (moveSt m k loc r).keydir = some loc' → LocOk d' k' loc' := by
        intro d' hK2 k' loc' hk'
        rw [hkd] at hk'
        by_cases hkk : k' = k
        · subst hkk
          simp only [↓reduceIte, Option.some.injEq] at hk'
          subst hk'
          exact hNew.keeps (Nat.le_refl _) hK2
        · simp only [hkk, ↓reduceIte] at hk'
          have hl := h.locs k' loc' hk'
          exact hl.keeps (h.fid_le hl) (hK1.trans hK2)
      by_cases hroll : m.mpos + loc.len > cfg.maxFile
      · simp only [hroll, ↓reduceIte]
        have hK2 : Keeps m.mid (moveDisk m k loc r) (rollDisk (moveDisk m k loc r) (m.mid + 1)) :=
          keeps_create m.mid _ (m.mid + 1) (by omega) _ _
        refine ⟨?_, hdom, hP, hP', by simp⟩
        constructor
        · exact hlocs _ hK2
        · intro id hid
          simp only [rollDisk, moveDisk] at hid ⊢
          rcases mem_keys_set hid with e | e
          · omega
          · rcases mem_keys_set e with e2 | e2
            · omega
            · have := h.ids id e2; omega
        · intro id hid
          simp only [rollDisk, moveDisk] at hid ⊢
          rcases mem_keys_set hid with e | e
          · omega
          · rcases mem_keys_set e with e2 | e2
            · omega
            · have := h.hids id e2; omega
        · have := h.midgt; simp only; omega
        · simp [rollDisk, dataOf, AL.get_set_same]
        · simp [rollDisk, AL.get_set_same]
        · exact habsMove _ hK2
      · simp only [hroll, ↓reduceIte]
        refine ⟨?_, hdom, hP, hP', Nat.le_refl _⟩
        constructor
        · exact hlocs _ (Keeps.refl _ _)
        · intro id hid
          simp only [moveSt, moveDisk] at hid ⊢
          rcases mem_keys_set hid with e | e
          · omega
          · exact h.ids id e
        · intro id hid
          simp only [moveSt, moveDisk] at hid ⊢
          rcases mem_keys_set hid with e | e
          · omega
          · exact h.hids id e
        · exact h.midgt
        · simp only [moveSt, moveDisk, dataOf, AL.get_set_same, Option.getD_some, fileSize_append, fileSize_cons, fileSize_nil]
          have := h.pos; simp only [dataOf] at this; omega
        · exact hex
        · exact habsMove _ (Keeps.refl _ _)
    · rw [mergeStep_skip_unsel cfg sel m k loc hk hsel]
      refine ⟨h, fun _ => rfl, ?_, fun _ hp => hp, Nat.le_refl _⟩
      intro l hl; rw [hk] at hl; cases hl; exact hsel

end Store

namespace Store

/-- the whole merge loop -/
theorem mergeFold_spec (cfg : Cfg) (sel : List Nat) (A : Nat) (abs0 : Map) (hselA : ∀ id, id ∈ sel → id ≤ A)
    (order : List Key) : ∀ (m : MergeSt), MInv A abs0 m →
    MInv A abs0 (order.foldl (mergeStep cfg sel) m) ∧
    (∀ k', (AL.get k' (order.foldl (mergeStep cfg sel) m).s.keydir).isSome = (AL.get k' m.s.keydir).isSome) ∧
    (∀ k', (k' ∈ order ∨ ∀ loc, AL.get k' m.s.keydir = some loc → loc.fid ∉ sel) →
      ∀ loc, AL.get k' (order.foldl (mergeStep cfg sel) m).s.keydir = some loc → loc.fid ∉ sel) ∧
    m.mid ≤ (order.foldl (mergeStep cfg sel) m).mid := by
  induction order with
  | nil =>
    intro m h
    refine ⟨h, fun _ => rfl, ?_, Nat.le_refl _⟩
    intro k' hk'
    rcases hk' with hk' | hk'
    · cases hk'
    · exact hk'
  | cons k ks ih =>
    intro m h
    obtain ⟨s1, s2, s3, s4, s5⟩ := mergeStep_spec cfg sel A abs0 hselA m k h
    obtain ⟨i1, i2, i3, i4⟩ := ih (mergeStep cfg sel m k) s1
    simp only [List.foldl_cons]
    refine ⟨i1, fun k' => by rw [i2, s2], ?_, by omega⟩
    intro k' hk'
    apply i3
    rcases hk' with hk' | hk'
    · rcases List.mem_cons.mp hk' with e | e
      · subst e; exact .inr s3
      · exact .inl e
    · exact .inr (s4 k' hk')

/-- state invariant while the merged files are being removed -/
structure UInv (sel : List Nat) (abs0 : Map) (mid : Nat) (s : St) : Prop where
  locs : ∀ k loc, AL.get k s.keydir = some loc → LocOk s.disk k loc
  unsel : ∀ k loc, AL.get k s.keydir = some loc → loc.fid ∉ sel
  ids : ∀ id, id ∈ AL.keys s.disk.data → id ≤ mid
  hids : ∀ id, id ∈ AL.keys s.disk.hint → id ≤ mid
  abs : s.abs = abs0

theorem unlinkOne_spec (sel : List Nat) (abs0 : Map) (mid : Nat) (st : St × List Call) (id : Nat)
    (hid : id ∈ sel) (h : UInv sel abs0 mid st.1) : UInv sel abs0 mid (unlinkOne st id).1 := by
  obtain ⟨s, calls⟩ := st
  simp only [unlinkOne]
  have hkeep : ∀ k loc, AL.get k s.keydir = some loc → loc.fid ≠ id := by
    intro k loc hk e; exact h.unsel k loc hk (e ▸ hid)
  constructor
  · intro k loc hk
    simp only at hk ⊢
    obtain ⟨x, h1, h2, h3, h4, h5⟩ := h.locs k loc hk
    obtain ⟨a, c⟩ := keeps_del 0 s.disk id (AL.del id s.disk.hint) s.disk.tails loc.fid loc.pos x (hkeep k loc hk) h1 h5
    exact ⟨x, a, h2, h3, h4, c⟩
  · intro k loc hk; exact h.unsel k loc hk
  · intro i hi
    simp only at hi
    exact h.ids i (mem_keys_del hi).2
  · intro i hi
    simp only at hi
    exact h.hids i (mem_keys_del hi).2
  · rw [← h.abs]
    funext k
    cases hg : AL.get k s.keydir with
    | none => rw [abs_none_of_none hg, abs_none_of_none (by simpa using hg)]
    | some loc =>
      obtain ⟨x, h1, h2, h3, h4, h5⟩ := h.locs k loc hg
      obtain ⟨a, c⟩ := keeps_del 0 s.disk id (AL.del id s.disk.hint) s.disk.tails loc.fid loc.pos x (hkeep k loc hg) h1 h5
      rw [abs_of_locOk hg h1 h4 h5]
      exact abs_of_locOk (s := { s with stats := AL.del id s.stats, disk := { data := AL.del id s.disk.data, hint := AL.del id s.disk.hint, tails := s.disk.tails } }) hg a h4 c

theorem unlinkFold_spec (sel : List Nat) (abs0 : Map) (mid : Nat) (l : List Nat) (hl : ∀ id, id ∈ l → id ∈ sel) :
    ∀ (st : St × List Call), UInv sel abs0 mid st.1 → UInv sel abs0 mid (l.foldl unlinkOne st).1 := by
  induction l with
  | nil => intro st h; exact h
  | cons id ids ih =>
    intro st h
    simp only [List.foldl_cons]
    exact ih (fun i hi => hl i (List.mem_cons_of_mem _ hi)) _
      (unlinkOne_spec sel abs0 mid st id (hl id List.mem_cons_self) h)

theorem unlinkFold_keydir (l : List Nat) : ∀ (st : St × List Call),
    (l.foldl unlinkOne st).1.keydir = st.1.keydir := by
  induction l with
  | nil => intro st; rfl
  | cons id ids ih => intro st; simp only [List.foldl_cons]; rw [ih]; obtain ⟨s, c⟩ := st; rfl

/-- the iteration order covers the KeyDir -/
def Covers (order : List Key) (s : St) : Prop := ∀ k, k ∈ AL.keys s.keydir → k ∈ order

instance (order : List Key) (s : St) : Decidable (Covers order s) :=
  inferInstanceAs (Decidable (∀ k, k ∈ AL.keys s.keydir → k ∈ order))

/-- **A merge pass preserves the invariant and what every key reads**, for every selected set
    below the active id and every iteration order that covers the KeyDir. -/
theorem mergeWith_inv_abs (cfg : Cfg) (s : St) (sel : List Nat) (order : List Key) (h : Inv s)
    (hsel : ∀ id, id ∈ sel → id ≤ s.active) (hcov : Covers order s) :
    Inv (mergeWith cfg s sel order).1 ∧ (mergeWith cfg s sel order).1.abs = s.abs := by
  -- initial loop state
  have hK0 : Keeps s.active s.disk (rollDisk s.disk (s.active + 1)) := keeps_create _ _ _ (by omega) _ _
  have h0 : MInv s.active s.abs
      { s := { s with disk := rollDisk s.disk (s.active + 1) }, mid := s.active + 1, mpos := 0,
        calls := [Call.create ⟨.data, s.active + 1⟩, Call.create ⟨.hint, s.active + 1⟩] } := by
    constructor
    · intro k loc hk
      have hl := h.locs k loc hk
      exact hl.keeps (LocOk.fid_le h hl) hK0
    · intro id hid
      simp only [rollDisk] at hid ⊢
      rcases mem_keys_set hid with e | e
      · omega
      · have := h.ids id e; omega
    · intro id hid
      simp only [rollDisk] at hid ⊢
      rcases mem_keys_set hid with e | e
      · omega
      · have := h.hids id e; omega
    · simp
    · simp [rollDisk, dataOf, AL.get_set_same]
    · simp [rollDisk, AL.get_set_same]
    · funext k
      apply abs_keeps (b := s.active)
      · intro l hl; have := h.locs k l hl; exact ⟨this, LocOk.fid_le h this⟩
      · rfl
      · exact hK0
  obtain ⟨f1, f2, f3, f4⟩ := mergeFold_spec cfg sel s.active s.abs hsel order _ h0
  -- name the state after the loop
  have hm : ∃ m, m = order.foldl (mergeStep cfg sel)
      { s := { s with disk := rollDisk s.disk (s.active + 1) }, mid := s.active + 1, mpos := 0,
        calls := [Call.create ⟨.data, s.active + 1⟩, Call.create ⟨.hint, s.active + 1⟩] } := ⟨_, rfl⟩
  obtain ⟨m, hm⟩ := hm
  rw [← hm] at f1 f2 f3 f4
  have hU0 : UInv sel s.abs m.mid m.s := by
    constructor
    · exact f1.locs
    · intro k loc hk
      apply f3 k _ loc hk
      left
      apply hcov
      have := f2 k
      rw [hk] at this
      simp only [Option.isSome_some] at this
      cases hg : AL.get k s.keydir with
      | none => rw [hg] at this; cases this
      | some l => exact AL.mem_keys_of_get hg
    · exact f1.ids
    · exact f1.hids
    · exact f1.abs
  have hsy : ∃ c, c = m.calls ++ [Call.fsync ⟨.data, m.mid⟩, Call.fsync ⟨.hint, m.mid⟩] := ⟨_, rfl⟩
  obtain ⟨sy, hsy⟩ := hsy
  have hU := unlinkFold_spec sel s.abs m.mid sel (fun _ hi => hi) (m.s, sy) hU0
  have hres : mergeWith cfg s sel order =
      ((newActive (sel.foldl unlinkOne (m.s, sy)).1 (m.mid + 1)).1,
       (sel.foldl unlinkOne (m.s, sy)).2 ++ (newActive (sel.foldl unlinkOne (m.s, sy)).1 (m.mid + 1)).2) := by
    unfold mergeWith
    simp only [rollDisk] at hm
    simp only [← hm, ← hsy]
  rw [hres]
  simp only [newActive]
  have hKf : Keeps m.mid (sel.foldl unlinkOne (m.s, sy)).1.disk
      { (sel.foldl unlinkOne (m.s, sy)).1.disk with
        data := AL.set (m.mid + 1) [] (sel.foldl unlinkOne (m.s, sy)).1.disk.data } :=
    keeps_create _ _ _ (by omega) _ _
  have hfid : ∀ k loc, AL.get k (sel.foldl unlinkOne (m.s, sy)).1.keydir = some loc → loc.fid ≤ m.mid := by
    intro k loc hk
    obtain ⟨r, _, _, _, _, hex⟩ := hU.locs k loc hk
    cases hg : AL.get loc.fid (sel.foldl unlinkOne (m.s, sy)).1.disk.data with
    | none => simp [hg] at hex
    | some v => exact hU.ids _ (AL.mem_keys_of_get hg)
  constructor
  · constructor
    · intro k loc hk
      simp only at hk ⊢
      exact (hU.locs k loc hk).keeps (hfid k loc hk) hKf
    · intro id hid
      simp only at hid ⊢
      rcases mem_keys_set hid with e | e
      · omega
      · have := hU.ids id e; omega
    · intro id hid
      simp only at hid ⊢
      have := hU.hids id hid; omega
    · simp [AL.get_set_same]
  · rw [← hU.abs]
    funext k
    apply abs_keeps (b := m.mid)
    · intro l hl; exact ⟨hU.locs k l hl, hfid k l hl⟩
    · rfl
    · exact hKf

end Store
