/-
  The merge pass and `reopen` preserve the coupling invariant between the store state and the
  trace monitor (C14).
-/
import BitcaskVerif.Store.TraceLemmas

namespace Store.Tr
/-! ### shapes of `mergeStep` and `mergeWith` -/

theorem mergeStep_bad (cfg : Cfg) (sel : List Nat) (m : MergeSt) (k : Key) (loc : Loc)
    (hk : AL.get k m.s.keydir = some loc) (hsel : loc.fid ∈ sel)
    (hr : recAt (dataOf m.s.disk loc.fid) loc.pos = none) :
    mergeStep cfg sel m k = { m with s := { m.s with bad := true } } := by
  unfold mergeStep
  simp only [hk, hsel, ↓reduceIte, hr]

def moveNoRoll (m : MergeSt) (k : Key) (loc : Loc) (r : Rec) : MergeSt :=
  { s := moveSt m k loc r, mid := m.mid, mpos := m.mpos + loc.len, calls := moveCalls m k loc r }

def moveRoll (m : MergeSt) (k : Key) (loc : Loc) (r : Rec) : MergeSt :=
  { s := { moveSt m k loc r with disk := rollDisk (moveDisk m k loc r) (m.mid + 1) },
    mid := m.mid + 1, mpos := 0,
    calls := moveCalls m k loc r ++ [Call.fsync ⟨.data, m.mid⟩, Call.fsync ⟨.hint, m.mid⟩,
                                   Call.create ⟨.data, m.mid + 1⟩, Call.create ⟨.hint, m.mid + 1⟩] }

/-- case analysis of one merge iteration: nothing happens, the entry does not address a record
    (`bad`), the record is copied, or it is copied and the output rolls over -/
theorem mergeStep_ind (P : MergeSt → Prop) (cfg : Cfg) (sel : List Nat) (m : MergeSt) (k : Key)
    (h1 : P m) (h2 : P { m with s := { m.s with bad := true } })
    (h3 : ∀ loc r, AL.get k m.s.keydir = some loc → recAt (dataOf m.s.disk loc.fid) loc.pos = some r →
      ¬ m.mpos + loc.len > cfg.maxFile → P (moveNoRoll m k loc r))
    (h4 : ∀ loc r, AL.get k m.s.keydir = some loc → recAt (dataOf m.s.disk loc.fid) loc.pos = some r →
      m.mpos + loc.len > cfg.maxFile → P (moveRoll m k loc r)) :
    P (mergeStep cfg sel m k) := by
  cases hk : AL.get k m.s.keydir with
  | none => rw [mergeStep_skip_none cfg sel m k hk]; exact h1
  | some loc =>
    by_cases hsel : loc.fid ∈ sel
    · cases hr : recAt (dataOf m.s.disk loc.fid) loc.pos with
      | none => rw [mergeStep_bad cfg sel m k loc hk hsel hr]; exact h2
      | some r =>
        rw [mergeStep_move cfg sel m k loc r hk hsel hr]
        by_cases hroll : m.mpos + loc.len > cfg.maxFile
        · simp only [hroll, ↓reduceIte]; exact h4 loc r hk hr hroll
        · simp only [hroll, ↓reduceIte]; exact h3 loc r hk hr hroll
    · rw [mergeStep_skip_unsel cfg sel m k loc hk hsel]; exact h1

/-- the merge loop's initial state: the first output pair has been created -/
def mergeInit (s : St) : MergeSt :=
  { s := { s with disk := rollDisk s.disk (s.active + 1) }, mid := s.active + 1, mpos := 0,
    calls := [Call.create ⟨.data, s.active + 1⟩, Call.create ⟨.hint, s.active + 1⟩] }

def mergeLoop (cfg : Cfg) (s : St) (sel : List Nat) (order : List Key) : MergeSt :=
  order.foldl (mergeStep cfg sel) (mergeInit s)

def mergeUnlinked (cfg : Cfg) (s : St) (sel : List Nat) (order : List Key) : St × List Call :=
  sel.foldl unlinkOne ((mergeLoop cfg s sel order).s,
    (mergeLoop cfg s sel order).calls ++
      [Call.fsync ⟨.data, (mergeLoop cfg s sel order).mid⟩, Call.fsync ⟨.hint, (mergeLoop cfg s sel order).mid⟩])

theorem mergeWith_eq (cfg : Cfg) (s : St) (sel : List Nat) (order : List Key) :
    mergeWith cfg s sel order =
      ({ (mergeUnlinked cfg s sel order).1 with
           active := (mergeLoop cfg s sel order).mid + 1, written := 0,
           disk := { (mergeUnlinked cfg s sel order).1.disk with
                     data := AL.set ((mergeLoop cfg s sel order).mid + 1) [] (mergeUnlinked cfg s sel order).1.disk.data } },
       (mergeUnlinked cfg s sel order).2 ++ [Call.create ⟨.data, (mergeLoop cfg s sel order).mid + 1⟩]) := by
  rfl

/-! ### the monitor during a merge -/

/-- what the monitor knows while the merge that started at active id `A` writes output `mid` -/
structure MMonOk (A mid : Nat) (m : Mon) : Prop where
  midgt : A < mid
  bound : m.bound = mid + 1
  ownD : (⟨.data, mid⟩ : FName) ∈ m.created
  ownH : (⟨.hint, mid⟩ : FName) ∈ m.created
  unl : ∀ f, f ∈ m.unlinked → f.id ≤ A
  okF : m.okFresh = true
  okO : m.okOwn = true
  okT : m.okTop = true

/-- ... while it removes its inputs -/
structure UMonOk (A mid : Nat) (m : Mon) : Prop where
  midgt : A < mid
  bound : m.bound = mid + 1
  unl : ∀ f, f ∈ m.unlinked → f.id ≤ A
  okF : m.okFresh = true
  okO : m.okOwn = true
  okT : m.okTop = true

/-- creating the output pair `b = bound` -/
theorem mmon_open {A b : Nat} {m : Mon} (hb : m.bound = b) (hA : A < b)
    (unl : ∀ f, f ∈ m.unlinked → f.id ≤ A) (okF : m.okFresh = true) (okO : m.okOwn = true)
    (okT : m.okTop = true) :
    MMonOk A b (m.calls [Call.create ⟨.data, b⟩, Call.create ⟨.hint, b⟩]) := by
  simp only [Mon.calls_cons, Mon.calls_nil]
  constructor
  · exact hA
  · simp only [Mon.step, hb]; omega
  · simp [Mon.step]
  · simp [Mon.step]
  · exact unl
  · simp [Mon.step, Mon.freshTest, okF, hb]
  · exact okO
  · exact okT

theorem MMonOk.appends {A mid : Nat} {m : Mon} (h : MMonOk A mid m) (p q : Payload) :
    MMonOk A mid (m.calls [Call.append ⟨.data, mid⟩ p, Call.append ⟨.hint, mid⟩ q]) := by
  have hu : ∀ kd, (⟨kd, mid⟩ : FName) ∉ m.unlinked := fun kd hc => by
    have := h.unl _ hc; have := h.midgt; simp at *; omega
  simp only [Mon.calls_cons, Mon.calls_nil]
  constructor
  · exact h.midgt
  · exact h.bound
  · exact h.ownD
  · exact h.ownH
  · exact h.unl
  · exact h.okF
  · simp [Mon.step, h.okO, h.ownD, h.ownH, hu]
  · exact h.okT

theorem MMonOk.fsyncs {A mid : Nat} {m : Mon} (h : MMonOk A mid m) (f g : FName) :
    MMonOk A mid (m.calls [Call.fsync f, Call.fsync g]) :=
  ⟨h.midgt, h.bound, h.ownD, h.ownH, h.unl, h.okF, h.okO, h.okT⟩

theorem MMonOk.roll {A mid : Nat} {m : Mon} (h : MMonOk A mid m) :
    MMonOk A (mid + 1) (m.calls [Call.create ⟨.data, mid + 1⟩, Call.create ⟨.hint, mid + 1⟩]) :=
  mmon_open h.bound (by have := h.midgt; omega) h.unl h.okF h.okO h.okT

theorem MonOk.mergeOpen {a : Nat} {m : Mon} (h : MonOk a m) :
    MMonOk a (a + 1) (m.calls [Call.create ⟨.data, a + 1⟩, Call.create ⟨.hint, a + 1⟩]) :=
  mmon_open h.bound (by omega) (fun f hf => Nat.le_of_lt (h.unl f hf)) h.okF h.okO h.okT

theorem MMonOk.toU {A mid : Nat} {m : Mon} (h : MMonOk A mid m) : UMonOk A mid m :=
  ⟨h.midgt, h.bound, h.unl, h.okF, h.okO, h.okT⟩

theorem UMonOk.unlink {A mid : Nat} {m : Mon} (h : UMonOk A mid m) (f : FName) (hf : f.id ≤ A) :
    UMonOk A mid (m.step (.call (.unlink f))) := by
  constructor
  · exact h.midgt
  · exact h.bound
  · intro g hg
    simp only [Mon.step, List.mem_cons] at hg
    rcases hg with e | e
    · rw [e]; exact hf
    · exact h.unl g e
  · exact h.okF
  · exact h.okO
  · have := h.midgt
    simp only [Mon.step, h.okT, h.bound, Bool.true_and, decide_eq_true_eq]; omega

theorem UMonOk.close {A mid : Nat} {m : Mon} (h : UMonOk A mid m) :
    MonOk (mid + 1) (m.calls [Call.create ⟨.data, mid + 1⟩]) := by
  simp only [Mon.calls_cons, Mon.calls_nil]
  constructor
  · simp only [Mon.step, h.bound]; omega
  · simp [Mon.step]
  · intro f hf; have := h.unl f hf; have := h.midgt; simp only [Mon.step] at hf ⊢; omega
  · simp [Mon.step, Mon.freshTest, h.okF, h.bound]
  · exact h.okO
  · exact h.okT

/-! ### the merge loop -/

/-- loop invariant: ids of the directory, and the monitor after the calls issued so far
    (`m0` is the monitor state when the merge started, `T` the crash tails) -/
structure MCoup (A : Nat) (T : List (Nat × Nat)) (m0 : Mon) (ms : MergeSt) : Prop where
  ids : ∀ id, id ∈ AL.keys ms.s.disk.data → id ≤ ms.mid
  hsub : ∀ id, id ∈ AL.keys ms.s.disk.hint → id ∈ AL.keys ms.s.disk.data
  midex : (AL.get ms.mid ms.s.disk.data).isSome
  tails : ms.s.disk.tails = T
  mon : MMonOk A ms.mid (m0.calls ms.calls)

theorem mergeInit_coup (s : St) (m0 : Mon) (h : Coup s m0) : MCoup s.active s.disk.tails m0 (mergeInit s) := by
  constructor
  · intro id hid
    simp only [mergeInit, rollDisk] at hid ⊢
    rcases mem_keys_set hid with e | e
    · omega
    · have := h.inv.ids id e; omega
  · intro id hid
    simp only [mergeInit, rollDisk] at hid ⊢
    rcases mem_keys_set hid with e | e
    · rw [e]; exact mem_keys_set_self _ _ _
    · exact mem_keys_set_of_mem _ (h.inv.hsub id e)
  · simp [mergeInit, rollDisk, AL.get_set_same]
  · rfl
  · exact h.mon.mergeOpen

theorem mergeStep_coup (cfg : Cfg) (sel : List Nat) (A : Nat) (T : List (Nat × Nat)) (m0 : Mon)
    (ms : MergeSt) (k : Key) (h : MCoup A T m0 ms) : MCoup A T m0 (mergeStep cfg sel ms k) := by
  apply mergeStep_ind (MCoup A T m0) cfg sel ms k
  · exact h
  · exact ⟨h.ids, h.hsub, h.midex, h.tails, h.mon⟩
  · intro loc r _ _ _
    constructor
    · intro id hid
      simp only [moveNoRoll, moveSt, moveDisk] at hid ⊢
      rcases mem_keys_set hid with e | e
      · omega
      · exact h.ids id e
    · intro id hid
      simp only [moveNoRoll, moveSt, moveDisk] at hid ⊢
      rcases mem_keys_set hid with e | e
      · rw [e]; exact mem_keys_set_self _ _ _
      · exact mem_keys_set_of_mem _ (h.hsub id e)
    · simp [moveNoRoll, moveSt, moveDisk, AL.get_set_same]
    · exact h.tails
    · simp only [moveNoRoll, moveCalls, Mon.calls_append]
      exact h.mon.appends _ _
  · intro loc r _ _ _
    constructor
    · intro id hid
      simp only [moveRoll, moveSt, moveDisk, rollDisk] at hid ⊢
      rcases mem_keys_set hid with e | e
      · omega
      · rcases mem_keys_set e with e2 | e2
        · omega
        · have := h.ids id e2; omega
    · intro id hid
      simp only [moveRoll, moveSt, moveDisk, rollDisk] at hid ⊢
      rcases mem_keys_set hid with e | e
      · rw [e]; exact mem_keys_set_self _ _ _
      · rcases mem_keys_set e with e2 | e2
        · rw [e2]; exact mem_keys_set_of_mem _ (mem_keys_set_self _ _ _)
        · exact mem_keys_set_of_mem _ (mem_keys_set_of_mem _ (h.hsub id e2))
    · simp [moveRoll, rollDisk, AL.get_set_same]
    · exact h.tails
    · have e : (moveRoll ms k loc r).calls = ms.calls ++
          [Call.append ⟨.data, ms.mid⟩ (.ofRec r),
           Call.append ⟨.hint, ms.mid⟩ (.ofHint { ts := loc.ts, len := loc.len, pos := ms.mpos, key := k })] ++
          [Call.fsync ⟨.data, ms.mid⟩, Call.fsync ⟨.hint, ms.mid⟩] ++
          [Call.create ⟨.data, ms.mid + 1⟩, Call.create ⟨.hint, ms.mid + 1⟩] := by
        simp [moveRoll, moveCalls]
      rw [e, Mon.calls_append, Mon.calls_append, Mon.calls_append]
      exact ((h.mon.appends _ _).fsyncs _ _).roll

theorem mergeFold_coup (cfg : Cfg) (sel : List Nat) (A : Nat) (T : List (Nat × Nat)) (m0 : Mon)
    (order : List Key) : ∀ ms, MCoup A T m0 ms → MCoup A T m0 (order.foldl (mergeStep cfg sel) ms) := by
  induction order with
  | nil => intro ms h; exact h
  | cons k ks ih => intro ms h; exact ih _ (mergeStep_coup cfg sel A T m0 ms k h)

/-! ### removing the inputs -/

structure UCoup (A mid : Nat) (T : List (Nat × Nat)) (m0 : Mon) (st : St × List Call) : Prop where
  ids : ∀ id, id ∈ AL.keys st.1.disk.data → id ≤ mid
  hsub : ∀ id, id ∈ AL.keys st.1.disk.hint → id ∈ AL.keys st.1.disk.data
  midex : (AL.get mid st.1.disk.data).isSome
  tails : st.1.disk.tails = T
  mon : UMonOk A mid (m0.calls st.2)

theorem unlinkOne_coup (A mid : Nat) (T : List (Nat × Nat)) (m0 : Mon) (st : St × List Call) (id : Nat)
    (hid : id ≤ A) (h : UCoup A mid T m0 st) : UCoup A mid T m0 (unlinkOne st id) := by
  obtain ⟨s, calls⟩ := st
  have hne : mid ≠ id := by have := h.mon.midgt; omega
  constructor
  · intro i hi
    simp only [unlinkOne] at hi
    exact h.ids i (mem_keys_del hi).2
  · intro i hi
    simp only [unlinkOne] at hi ⊢
    obtain ⟨h1, h2⟩ := mem_keys_del hi
    exact mem_keys_del_of_mem h1 (h.hsub i h2)
  · simp only [unlinkOne]
    rw [AL.get_del_other hne]; exact h.midex
  · exact h.tails
  · simp only [unlinkOne, Mon.calls_append]
    have h0 : UMonOk A mid (m0.calls calls) := h.mon
    have h1 : UMonOk A mid ((m0.calls calls).calls
        (if (AL.get id s.disk.hint).isSome = true then [Call.unlink ⟨.hint, id⟩] else [])) := by
      cases (AL.get id s.disk.hint).isSome
      · exact h0
      · exact h0.unlink ⟨.hint, id⟩ hid
    cases (AL.get id s.disk.data).isSome
    · exact h1
    · exact h1.unlink ⟨.data, id⟩ hid

theorem unlinkFold_coup (A mid : Nat) (T : List (Nat × Nat)) (m0 : Mon) (l : List Nat)
    (hl : ∀ id, id ∈ l → id ≤ A) : ∀ st, UCoup A mid T m0 st → UCoup A mid T m0 (l.foldl unlinkOne st) := by
  induction l with
  | nil => intro st h; exact h
  | cons id ids ih =>
    intro st h
    simp only [List.foldl_cons]
    exact ih (fun i hi => hl i (List.mem_cons_of_mem _ hi)) _
      (unlinkOne_coup A mid T m0 st id (hl id List.mem_cons_self) h)

/-- **the merge pass keeps the coupling invariant** -/
theorem mergeWith_coup (cfg : Cfg) (s : St) (sel : List Nat) (order : List Key) (m0 : Mon)
    (h : Coup s m0) (hsel : ∀ id, id ∈ sel → id ≤ s.active) :
    Coup (mergeWith cfg s sel order).1 (m0.calls (mergeWith cfg s sel order).2) := by
  have hL : MCoup s.active s.disk.tails m0 (mergeLoop cfg s sel order) :=
    mergeFold_coup cfg sel _ _ m0 order _ (mergeInit_coup s m0 h)
  have hU0 : UCoup s.active (mergeLoop cfg s sel order).mid s.disk.tails m0
      ((mergeLoop cfg s sel order).s, (mergeLoop cfg s sel order).calls ++
        [Call.fsync ⟨.data, (mergeLoop cfg s sel order).mid⟩, Call.fsync ⟨.hint, (mergeLoop cfg s sel order).mid⟩]) := by
    refine ⟨hL.ids, hL.hsub, hL.midex, hL.tails, ?_⟩
    simp only [Mon.calls_append]
    exact (hL.mon.fsyncs _ _).toU
  have hU : UCoup s.active (mergeLoop cfg s sel order).mid s.disk.tails m0 (mergeUnlinked cfg s sel order) :=
    unlinkFold_coup _ _ _ m0 sel hsel _ hU0
  rw [mergeWith_eq]
  have hgt := hU.mon.midgt
  constructor
  · constructor
    · intro id hid
      simp only at hid ⊢
      rcases mem_keys_set hid with e | e
      · omega
      · have := hU.ids id e; omega
    · intro id hid
      simp only at hid ⊢
      exact mem_keys_set_of_mem _ (hU.hsub id hid)
    · simp [AL.get_set_same]
    · intro id hid
      simp only at hid ⊢
      rw [hU.tails] at hid
      have := h.inv.tails id hid; omega
    · intro id hid
      simp only at hid ⊢
      have := hU.ids id (hU.hsub id hid); omega
  · simp only [Mon.calls_append]
    exact hU.mon.close

end Store.Tr