/-
  Fault-aware merge pass (C20), part 3: whichever call of a merge pass fails, the running store
  keeps its invariant and reads as before (`mergeF_ok`); the pass reports the error exactly when
  `j` is the index of one of its calls (`mergeF_err_iff`); beyond the last call it is the
  fault-free pass (`mergeF_no_fault`).  Operations on a store with a pending move (`InvP`).
-/
import BitcaskVerif.Store.MergeFaultLoop

namespace Store

variable {hintFirst : Bool}

/-! ### stores with a pending move -/

/-- invariant of a store with a possibly pending move of the active file: every index entry
    addresses a complete copy of its record, the store after the move satisfies the store
    invariant, and the pending id is above every id in the directory -/
structure InvP (p : StP) : Prop where
  locs : ∀ k loc, AL.get k p.st.keydir = some loc → LocOk p.st.disk k loc
  moved : Inv p.move.1
  fresh : ∀ id, p.pending = some id →
    (∀ i, i ∈ AL.keys p.st.disk.data → i < id) ∧ (∀ i, i ∈ AL.keys p.st.disk.hint → i < id)

theorem InvP.of_inv {s : St} (h : Inv s) : InvP { st := s, pending := none } :=
  ⟨h.locs, h, fun _ e => by cases e⟩

theorem InvP.inv_of_none {p : StP} (h : InvP p) (hp : p.pending = none) : Inv p.st := by
  have := h.moved
  unfold StP.move at this
  rw [hp] at this
  exact this

/-- the move changes no read -/
theorem InvP.move_abs {p : StP} (h : InvP p) : p.move.1.abs = p.abs := by
  unfold StP.move StP.abs
  cases hp : p.pending with
  | none => rfl
  | some id =>
    obtain ⟨f1, _⟩ := h.fresh id hp
    simp only [newActive]
    funext k
    apply abs_keeps (b := id - 1)
    · intro loc hl
      have hl' := h.locs k loc hl
      refine ⟨hl', ?_⟩
      obtain ⟨r, _, _, _, _, hex⟩ := hl'
      cases hg : AL.get loc.fid p.st.disk.data with
      | none => simp [hg] at hex
      | some v => have := f1 _ (AL.mem_keys_of_get hg); omega
    · rfl
    · by_cases h0 : id = 0
      · subst h0
        intro fid q x _ h1 h2
        cases hg : AL.get fid p.st.disk.data with
        | none => simp [hg] at h2
        | some v => have := f1 _ (AL.mem_keys_of_get hg); omega
      · exact keeps_create _ _ _ (by omega) _ _

/-- reads of a store with a pending move are sound -/
theorem getP_abs {p : StP} (h : InvP p) (k : Key) :
    getP p k = (match p.abs k with | some v => .value v | none => .absent) := by
  unfold getP StP.abs
  cases hk : AL.get k p.st.keydir with
  | none => rw [abs_none_of_none hk, get_absent_of_none hk]
  | some loc =>
    obtain ⟨v, hv⟩ := get_of_locOk hk (h.locs k loc hk)
    unfold St.abs; rw [hv]

theorem putP_ok (cfg : Cfg) {p : StP} (h : InvP p) (ts : Int) (k : Key) (v : Val) :
    InvP (putP cfg p ts k v).1 ∧ (putP cfg p ts k v).1.abs = p.abs.set k v ∧ (putP cfg p ts k v).1.pending = none := by
  refine ⟨InvP.of_inv (put_inv cfg _ ts k v h.moved), ?_, rfl⟩
  show (put cfg p.move.1 ts k v).1.abs = _
  rw [put_abs cfg _ ts k v h.moved, h.move_abs]

theorem deleteP_ok (cfg : Cfg) {p : StP} (h : InvP p) (ts : Int) (k : Key) :
    InvP (deleteP cfg p ts k).1 ∧ (deleteP cfg p ts k).1.abs = p.abs.del k ∧
      (deleteP cfg p ts k).2.1 = (p.abs k).isSome ∧ (deleteP cfg p ts k).1.pending = none := by
  obtain ⟨a, b⟩ := delete_abs cfg p.move.1 ts k h.moved
  refine ⟨InvP.of_inv (delete_inv cfg _ ts k h.moved), ?_, ?_, rfl⟩
  · show (delete cfg p.move.1 ts k).1.abs = _
    rw [a, h.move_abs]
  · show (delete cfg p.move.1 ts k).2.1 = _
    rw [b, h.move_abs]

theorem mergeWithP_ok (cfg : Cfg) {p : StP} (h : InvP p) (sel : List Nat) (order : List Key)
    (hsel : ∀ id, id ∈ sel → id ≤ p.move.1.active) (hcov : Covers order p.st) :
    InvP (mergeWithP cfg p sel order).1 ∧ (mergeWithP cfg p sel order).1.abs = p.abs ∧
      (mergeWithP cfg p sel order).1.pending = none := by
  have hcov' : Covers order p.move.1 := by
    unfold StP.move
    cases p.pending with
    | none => exact hcov
    | some id => exact hcov
  obtain ⟨a, b⟩ := mergeWith_inv_abs cfg p.move.1 sel order h.moved hsel hcov'
  refine ⟨InvP.of_inv a, ?_, rfl⟩
  show (mergeWith cfg p.move.1 sel order).1.abs = _
  rw [b, h.move_abs]

/-! ### the end of a failed pass -/

theorem finishF_ok {A : Nat} {abs0 : Map} {mid : Nat} {s : St} (h : FInv A abs0 mid s) (calls : List Call) :
    InvP (finishF s mid calls).p ∧ (finishF s mid calls).p.abs = abs0 :=
  ⟨InvP.of_inv h.finish.1, h.finish.2⟩

theorem pending_ok {A : Nat} {abs0 : Map} {mid : Nat} {s : St} (h : FInv A abs0 mid s) :
    InvP { st := s, pending := some (mid + 1) } ∧ StP.abs { st := s, pending := some (mid + 1) } = abs0 := by
  refine ⟨⟨h.locs, h.finish.1, ?_⟩, h.abs⟩
  intro id e
  cases e
  exact ⟨fun i hi => by have := h.ids i hi; omega, fun i hi => by have := h.hids i hi; omega⟩

/-! ### the start of the pass -/

/-- the loop state before the first key (as in `mergeWith`) -/
def start0 (s : St) : MergeSt :=
  { s := { s with disk := rollDisk s.disk (s.active + 1) }, mid := s.active + 1, mpos := 0,
    calls := [Call.create ⟨.data, s.active + 1⟩, Call.create ⟨.hint, s.active + 1⟩] }

theorem mergeStart_minv {s : St} (h : Inv s) (c : List Call) :
    MInv s.active s.abs { s := { s with disk := rollDisk s.disk (s.active + 1) }, mid := s.active + 1,
                          mpos := 0, calls := c } := by
  have hK0 : Keeps s.active s.disk (rollDisk s.disk (s.active + 1)) := keeps_create _ _ _ (by omega) _ _
  constructor
  · intro k loc hk
    have hl := h.locs k loc hk
    exact hl.keeps (LocOk.fid_le h hl) hK0
  · intro id hid
    simp only [rollDisk] at hid ⊢
    rcases mem_keys_set hid with e | e
    · omega
    · have := h.ids id e; omega
  · intro id hid
    simp only [rollDisk] at hid ⊢
    rcases mem_keys_set hid with e | e
    · omega
    · have := h.hids id e; omega
  · simp
  · simp [rollDisk, dataOf, AL.get_set_same]
  · simp [rollDisk, AL.get_set_same]
  · funext k
    apply abs_keeps (b := s.active)
    · intro l hl; have := h.locs k l hl; exact ⟨this, LocOk.fid_le h this⟩
    · rfl
    · exact hK0

theorem startF_ok {s : St} (h : Inv s) (j : Nat) : FMOk s.active s.abs j (startF s j) := by
  rcases j with _ | _ | j
  · refine ⟨fun _ => ⟨h.locs, ?_, ?_, Nat.lt_succ_self _, rfl⟩, fun e => by cases e⟩
    · intro id hid; have := h.ids id hid; show id ≤ s.active + 1; omega
    · intro id hid; have := h.hids id hid; show id ≤ s.active + 1; omega
  · refine ⟨fun _ => ?_, fun e => by cases e⟩
    have hK : Keeps s.active s.disk { s.disk with data := AL.set (s.active + 1) [] s.disk.data } :=
      keeps_create _ _ _ (by omega) _ _
    refine ⟨?_, ?_, ?_, Nat.lt_succ_self _, ?_⟩
    · intro k loc hk
      have hl := h.locs k loc hk
      exact hl.keeps (LocOk.fid_le h hl) hK
    · intro id hid
      show id ≤ s.active + 1
      rcases mem_keys_set hid with e | e
      · omega
      · have := h.ids id e; omega
    · intro id hid; have := h.hids id hid; show id ≤ s.active + 1; omega
    · funext k
      apply abs_keeps (b := s.active)
      · intro l hl; have := h.locs k l hl; exact ⟨this, LocOk.fid_le h this⟩
      · rfl
      · exact hK
  · refine ⟨(fun e => by cases e), fun _ => ⟨mergeStart_minv h _, ?_⟩⟩
    show 2 ≤ j + 1 + 1
    omega

theorem startF_not_failed {s : St} {j : Nat} (h : (startF s j).failed = false) :
    2 ≤ j ∧ (startF s j).m = start0 s := by
  rcases j with _ | _ | j
  · cases h
  · cases h
  · exact ⟨by omega, rfl⟩

/-! ### the phases of `mergeF`, named -/

/-- the fault-free copy loop (as in `mergeWith`) -/
def loop0 (cfg : Cfg) (s : St) (sel : List Nat) (order : List Key) : MergeSt :=
  order.foldl (mergeStep cfg sel) (start0 s)

/-- the calls of the fault-free pass up to the fsyncs after the loop -/
def synced0 (cfg : Cfg) (s : St) (sel : List Nat) (order : List Key) : List Call :=
  (loop0 cfg s sel order).calls ++
    [Call.fsync ⟨.data, (loop0 cfg s sel order).mid⟩, Call.fsync ⟨.hint, (loop0 cfg s sel order).mid⟩]

/-- the fault-free removal of the inputs -/
def unl0 (cfg : Cfg) (s : St) (sel : List Nat) (order : List Key) : St × List Call :=
  sel.foldl unlinkOne ((loop0 cfg s sel order).s, synced0 cfg s sel order)

theorem mergeWith_eq0 (cfg : Cfg) (s : St) (sel : List Nat) (order : List Key) :
    mergeWith cfg s sel order =
      ((newActive (unl0 cfg s sel order).1 ((loop0 cfg s sel order).mid + 1)).1,
       (unl0 cfg s sel order).2 ++ (newActive (unl0 cfg s sel order).1 ((loop0 cfg s sel order).mid + 1)).2) := rfl

theorem mergeWith_calls_length (cfg : Cfg) (s : St) (sel : List Nat) (order : List Key) :
    (mergeWith cfg s sel order).2.length = (unl0 cfg s sel order).2.length + 1 := by
  rw [mergeWith_eq0]; simp [newActive]

def mfX (hintFirst : Bool) (cfg : Cfg) (s : St) (sel : List Nat) (order : List Key) (j torn : Nat) : FM :=
  order.foldl (mergeStepF hintFirst cfg sel j torn) (startF s j)
def mfY (hintFirst : Bool) (cfg : Cfg) (s : St) (sel : List Nat) (order : List Key) (j torn : Nat) : FM :=
  syncF j (mfX hintFirst cfg s sel order j torn)
def mfZ (hintFirst : Bool) (cfg : Cfg) (s : St) (sel : List Nat) (order : List Key) (j torn : Nat) : (St × List Call) × Bool :=
  sel.foldl (unlinkOneF j) (((mfY hintFirst cfg s sel order j torn).m.s, (mfY hintFirst cfg s sel order j torn).m.calls),
    (mfY hintFirst cfg s sel order j torn).failed)

theorem mergeF_eq (cfg : Cfg) (s : St) (sel : List Nat) (order : List Key) (j torn : Nat) :
    mergeF hintFirst cfg s sel order j torn =
      if (mfZ hintFirst cfg s sel order j torn).2 then
        finishF (mfZ hintFirst cfg s sel order j torn).1.1 (mfY hintFirst cfg s sel order j torn).m.mid (mfZ hintFirst cfg s sel order j torn).1.2
      else if j = (mfZ hintFirst cfg s sel order j torn).1.2.length then
        { p := { st := (mfZ hintFirst cfg s sel order j torn).1.1, pending := some ((mfY hintFirst cfg s sel order j torn).m.mid + 1) },
          calls := (mfZ hintFirst cfg s sel order j torn).1.2, err := true }
      else
        { p := { st := (newActive (mfZ hintFirst cfg s sel order j torn).1.1 ((mfY hintFirst cfg s sel order j torn).m.mid + 1)).1,
                 pending := none },
          calls := (mfZ hintFirst cfg s sel order j torn).1.2 ++
            (newActive (mfZ hintFirst cfg s sel order j torn).1.1 ((mfY hintFirst cfg s sel order j torn).m.mid + 1)).2,
          err := false } := rfl

/-- what is known after the three phases: `FInv` in every case; if nothing has failed the phases
    are the fault-free ones and all their calls have indices below `j` -/
theorem mfZ_ok (cfg : Cfg) (s : St) (sel : List Nat) (order : List Key) (j torn : Nat) (h : Inv s)
    (hsel : ∀ id, id ∈ sel → id ≤ s.active) (hcov : Covers order s) :
    FInv s.active s.abs (mfY hintFirst cfg s sel order j torn).m.mid (mfZ hintFirst cfg s sel order j torn).1.1 ∧
    ((mfZ hintFirst cfg s sel order j torn).2 = false →
      (mfY hintFirst cfg s sel order j torn).m.mid = (loop0 cfg s sel order).mid ∧
      (mfZ hintFirst cfg s sel order j torn).1 = unl0 cfg s sel order ∧
      (unl0 cfg s sel order).2.length ≤ j) := by
  have hx : FMOk s.active s.abs j (mfX hintFirst cfg s sel order j torn) :=
    foldF_ok cfg sel s.active s.abs hsel j torn order _ (startF_ok h j)
  obtain ⟨y1, y2, y3, y4⟩ := syncF_ok hx
  cases hyf : (mfY hintFirst cfg s sel order j torn).failed with
  | true =>
    have hz : mfZ hintFirst cfg s sel order j torn =
        (((mfY hintFirst cfg s sel order j torn).m.s, (mfY hintFirst cfg s sel order j torn).m.calls), true) := by
      unfold mfZ; rw [hyf]; exact unlinkFoldF_of_failed j sel rfl
    rw [hz]
    refine ⟨?_, fun e => by cases e⟩
    have := y3 hyf
    unfold mfY
    rw [y1, y2]
    exact this
  | false =>
    obtain ⟨xf, xm, yc, yl⟩ := y4 hyf
    obtain ⟨sf, xe⟩ := foldF_not_failed order xf
    obtain ⟨_, se⟩ := startF_not_failed sf
    have hxm : (mfX hintFirst cfg s sel order j torn).m = loop0 cfg s sel order := by
      unfold mfX loop0; rw [xe, se]
    -- after the fault-free loop no entry points into a selected file
    obtain ⟨f1, f2, f3, _⟩ := mergeFold_spec cfg sel s.active s.abs hsel order (start0 s) (mergeStart_minv h _)
    have hU0 : UInv sel s.abs (loop0 cfg s sel order).mid (loop0 cfg s sel order).s := by
      constructor
      · exact f1.locs
      · intro k loc hk
        apply f3 k _ loc hk
        left
        apply hcov
        have : (AL.get k (List.foldl (mergeStep cfg sel) (start0 s) order).s.keydir).isSome =
            (AL.get k s.keydir).isSome := f2 k
        unfold loop0 at hk
        rw [hk] at this
        simp only [Option.isSome_some] at this
        cases hg : AL.get k s.keydir with
        | none => rw [hg] at this; cases this
        | some l => exact AL.mem_keys_of_get hg
      · exact f1.ids
      · exact f1.hids
      · exact f1.abs
    have hys : (mfY hintFirst cfg s sel order j torn).m.s = (loop0 cfg s sel order).s := by
      unfold mfY; rw [y1, hxm]
    have hym : (mfY hintFirst cfg s sel order j torn).m.mid = (loop0 cfg s sel order).mid := by
      unfold mfY; rw [y2, hxm]
    have hyc : (mfY hintFirst cfg s sel order j torn).m.calls = synced0 cfg s sel order := by
      unfold mfY synced0; rw [yc, hxm]
    obtain ⟨u1, u2⟩ := unlinkFoldF_spec sel s.abs (loop0 cfg s sel order).mid j sel (fun _ hi => hi)
      (((mfY hintFirst cfg s sel order j torn).m.s, (mfY hintFirst cfg s sel order j torn).m.calls), (mfY hintFirst cfg s sel order j torn).failed)
      (by rw [hys]; exact hU0)
    refine ⟨?_, fun e => ?_⟩
    · rw [hym]
      exact u1.finv f1.midgt
    · obtain ⟨_, v2, v3⟩ := u2 e
      refine ⟨hym, ?_, ?_⟩
      · unfold mfZ unl0; rw [v2, hys, hyc]
      · have := v3 (by unfold mfY; exact yl)
        rw [hys, hyc] at this
        exact this

/-- **whichever call of the pass fails (or none): the store — with its possibly pending move —
    keeps its invariant and reads as before the pass** -/
theorem mergeF_ok (cfg : Cfg) (s : St) (sel : List Nat) (order : List Key) (j torn : Nat) (h : Inv s)
    (hsel : ∀ id, id ∈ sel → id ≤ s.active) (hcov : Covers order s) :
    InvP (mergeF hintFirst cfg s sel order j torn).p ∧ (mergeF hintFirst cfg s sel order j torn).p.abs = s.abs := by
  obtain ⟨z1, _⟩ := mfZ_ok cfg s sel order j torn h hsel hcov
  rw [mergeF_eq]
  split
  · exact finishF_ok z1 _
  · split
    · exact pending_ok z1
    · exact ⟨InvP.of_inv z1.finish.1, z1.finish.2⟩

/-- the same for a pass on a store with a pending move (which the pass performs first) -/
theorem mergeFP_ok (cfg : Cfg) {p : StP} (h : InvP p) (sel : List Nat) (order : List Key) (j torn : Nat)
    (hsel : ∀ id, id ∈ sel → id ≤ p.move.1.active) (hcov : Covers order p.st) :
    InvP (mergeFP hintFirst cfg p sel order j torn).p ∧ (mergeFP hintFirst cfg p sel order j torn).p.abs = p.abs := by
  have hcov' : Covers order p.move.1 := by
    unfold StP.move
    cases p.pending with
    | none => exact hcov
    | some id => exact hcov
  obtain ⟨a, b⟩ := mergeF_ok cfg p.move.1 sel order j torn h.moved hsel hcov'
  exact ⟨a, b.trans h.move_abs⟩

/-- the pass reports no error only if `j` is beyond its last call … -/
theorem mergeF_err_false (cfg : Cfg) (s : St) (sel : List Nat) (order : List Key) (j torn : Nat) (h : Inv s)
    (hsel : ∀ id, id ∈ sel → id ≤ s.active) (hcov : Covers order s)
    (he : (mergeF hintFirst cfg s sel order j torn).err = false) : (mergeWith cfg s sel order).2.length ≤ j := by
  obtain ⟨_, z2⟩ := mfZ_ok cfg s sel order j torn h hsel hcov
  rw [mergeF_eq] at he
  rw [mergeWith_calls_length]
  split at he
  · cases he
  · rename_i hz
    split at he
    · cases he
    · rename_i hj
      obtain ⟨_, e2, e3⟩ := z2 (by simpa using hz)
      rw [e2] at hj
      omega

/-- … and then it is the fault-free pass -/
theorem mergeF_no_fault (cfg : Cfg) (s : St) (sel : List Nat) (order : List Key) (j torn : Nat)
    (hj : (mergeWith cfg s sel order).2.length ≤ j) :
    (mergeF hintFirst cfg s sel order j torn).p = { st := (mergeWith cfg s sel order).1, pending := none } ∧
    (mergeF hintFirst cfg s sel order j torn).calls = (mergeWith cfg s sel order).2 ∧
    (mergeF hintFirst cfg s sel order j torn).err = false := by
  rw [mergeWith_calls_length] at hj
  have hu : (unl0 cfg s sel order).2.length ≤ j := by omega
  have hsy : (synced0 cfg s sel order).length ≤ j :=
    Nat.le_trans (unlinkFold_calls_le sel ((loop0 cfg s sel order).s, synced0 cfg s sel order)) hu
  have hlo : (loop0 cfg s sel order).calls.length ≤ j := by
    have : (loop0 cfg s sel order).calls.length ≤ (synced0 cfg s sel order).length := by
      simp [synced0]
    omega
  have h2 : 2 ≤ j := by
    have := mergeFold_calls_le cfg sel order (start0 s)
    have e : (start0 s).calls.length = 2 := rfl
    unfold loop0 at hlo
    omega
  have hst : startF s j = { m := start0 s, failed := false } := by
    rcases j with _ | _ | j
    · omega
    · omega
    · rfl
  have hx : mfX hintFirst cfg s sel order j torn = { m := loop0 cfg s sel order, failed := false } := by
    unfold mfX
    rw [hst]
    exact foldF_no_fault order rfl hlo
  have hy : mfY hintFirst cfg s sel order j torn =
      { m := { loop0 cfg s sel order with calls := synced0 cfg s sel order }, failed := false } := by
    unfold mfY syncF
    rw [hx]
    have n1 : j ≠ (loop0 cfg s sel order).calls.length := by
      have : (synced0 cfg s sel order).length = (loop0 cfg s sel order).calls.length + 2 := by simp [synced0]
      omega
    have n2 : j ≠ (loop0 cfg s sel order).calls.length + 1 := by
      have : (synced0 cfg s sel order).length = (loop0 cfg s sel order).calls.length + 2 := by simp [synced0]
      omega
    simp only [Bool.false_eq_true, ↓reduceIte, n1, n2]
    rfl
  have hz : mfZ hintFirst cfg s sel order j torn = (unl0 cfg s sel order, false) := by
    unfold mfZ
    rw [hy]
    exact unlinkFoldF_no_fault sel rfl hu
  have hne : j ≠ (unl0 cfg s sel order).2.length := by omega
  rw [mergeF_eq, hz, hy, mergeWith_eq0]
  simp only [Bool.false_eq_true, ↓reduceIte, hne, and_self]

/-- **the pass reports an error iff `j` is the index of one of its calls** -/
theorem mergeF_err_iff (cfg : Cfg) (s : St) (sel : List Nat) (order : List Key) (j torn : Nat) (h : Inv s)
    (hsel : ∀ id, id ∈ sel → id ≤ s.active) (hcov : Covers order s) :
    (mergeF hintFirst cfg s sel order j torn).err = true ↔ j < (mergeWith cfg s sel order).2.length := by
  constructor
  · intro he
    cases Nat.lt_or_ge j (mergeWith cfg s sel order).2.length with
    | inl hlt => exact hlt
    | inr hge => rw [(mergeF_no_fault cfg s sel order j torn hge).2.2] at he; cases he
  · intro hlt
    cases he : (mergeF hintFirst cfg s sel order j torn).err with
    | true => rfl
    | false => have := mergeF_err_false cfg s sel order j torn h hsel hcov he; omega

end Store
