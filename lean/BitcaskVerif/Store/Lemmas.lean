/-
  Invariant of the sequential store model and the one-step refinement lemmas for put / delete /
  get (merge is in `MergeLemmas.lean`).
-/
import BitcaskVerif.Store.Spec

namespace Store

theorem Rec.len_pos (r : Rec) : 0 < r.len := by unfold Rec.len; omega

@[simp] theorem fileSize_nil : fileSize [] = 0 := rfl
@[simp] theorem fileSize_cons (r : Rec) (rs : List Rec) : fileSize (r :: rs) = r.len + fileSize rs := by
  simp [fileSize]
@[simp] theorem fileSize_append (xs ys : List Rec) : fileSize (xs ++ ys) = fileSize xs + fileSize ys := by
  simp [fileSize]

theorem recAt_append_left {rs : List Rec} {p : Nat} {r : Rec} (h : recAt rs p = some r) (ys : List Rec) :
    recAt (rs ++ ys) p = some r := by
  induction rs generalizing p with
  | nil => simp [recAt] at h
  | cons x xs ih =>
    simp only [List.cons_append, recAt] at h ⊢
    by_cases h0 : p = 0
    · simp [h0] at h ⊢; exact h
    · simp only [h0, ↓reduceIte] at h ⊢
      by_cases h1 : p < x.len
      · simp [h1] at h
      · simp only [h1, ↓reduceIte] at h ⊢
        exact ih h

theorem recAt_append_size (rs : List Rec) (r : Rec) (ys : List Rec) :
    recAt (rs ++ r :: ys) (fileSize rs) = some r := by
  induction rs with
  | nil => simp [recAt]
  | cons x xs ih =>
    have hx := x.len_pos
    simp only [List.cons_append, recAt, fileSize_cons]
    have h0 : ¬ (x.len + fileSize xs = 0) := by omega
    have h1 : ¬ (x.len + fileSize xs < x.len) := by omega
    simp only [h0, h1, ↓reduceIte]
    have : x.len + fileSize xs - x.len = fileSize xs := by omega
    rw [this]; exact ih

/-- a KeyDir entry addresses a complete value record of its key, of the recorded length, in an
    existing data file -/
def LocOk (d : Disk) (k : Key) (loc : Loc) : Prop :=
  ∃ r, recAt (dataOf d loc.fid) loc.pos = some r ∧ r.key = k ∧ r.val.isSome ∧ r.len = loc.len ∧
    (AL.get loc.fid d.data).isSome

/-- the invariant of the running store -/
structure Inv (s : St) : Prop where
  /-- every index entry addresses the record it was created for -/
  locs : ∀ k loc, AL.get k s.keydir = some loc → LocOk s.disk k loc
  /-- no data or hint file has an id above the active id; the active file exists -/
  ids : ∀ id, id ∈ AL.keys s.disk.data → id ≤ s.active
  hids : ∀ id, id ∈ AL.keys s.disk.hint → id ≤ s.active
  act : (AL.get s.active s.disk.data).isSome

theorem LocOk.fid_le {s : St} (h : Inv s) {k : Key} {loc : Loc} (hl : LocOk s.disk k loc) : loc.fid ≤ s.active := by
  obtain ⟨r, _, _, _, _, hex⟩ := hl
  cases hg : AL.get loc.fid s.disk.data with
  | none => simp [hg] at hex
  | some v => exact h.ids _ (AL.mem_keys_of_get hg)

/-- reading through a valid entry returns the record's value -/
theorem get_of_locOk {s : St} {k : Key} {loc : Loc} (hk : AL.get k s.keydir = some loc)
    (hl : LocOk s.disk k loc) : ∃ v, get s k = .value v := by
  obtain ⟨r, h1, h2, h3, h4, h5⟩ := hl
  unfold get
  simp only [hk, h1, h4, h5, and_self, ↓reduceIte]
  cases hv : r.val with
  | none => simp [hv] at h3
  | some v => exact ⟨v, rfl⟩

theorem get_absent_of_none {s : St} {k : Key} (hk : AL.get k s.keydir = none) : get s k = .absent := by
  unfold get; simp [hk]

theorem abs_none_of_none {s : St} {k : Key} (hk : AL.get k s.keydir = none) : s.abs k = none := by
  unfold St.abs; rw [get_absent_of_none hk]

/-- under the invariant a read is never `corrupt` -/
theorem get_not_corrupt {s : St} (h : Inv s) (k : Key) : get s k ≠ .corrupt := by
  cases hk : AL.get k s.keydir with
  | none => rw [get_absent_of_none hk]; simp
  | some loc =>
    obtain ⟨v, hv⟩ := get_of_locOk hk (h.locs k loc hk)
    rw [hv]; simp

/-! ### effect of `write` on the directory -/

theorem dataOf_set_same (d : Disk) (fid : Nat) (rs : List Rec) :
    dataOf { d with data := AL.set fid rs d.data } fid = rs := by
  simp [dataOf, AL.get_set_same]

theorem dataOf_set_other (d : Disk) {fid fid' : Nat} (h : fid' ≠ fid) (rs : List Rec) :
    dataOf { d with data := AL.set fid rs d.data } fid' = dataOf d fid' := by
  simp [dataOf, AL.get_set_other h]

theorem mem_keys_set {κ β : Type} [DecidableEq κ] {k k' : κ} {v : β} {l : List (κ × β)}
    (h : k' ∈ AL.keys (AL.set k v l)) : k' = k ∨ k' ∈ AL.keys l := by
  obtain ⟨x, hx⟩ := AL.get_of_mem_keys h
  by_cases hk : k' = k
  · exact .inl hk
  · rw [AL.get_set_other hk] at hx
    exact .inr (AL.mem_keys_of_get hx)

theorem mem_keys_del {κ β : Type} [DecidableEq κ] {k k' : κ} {l : List (κ × β)}
    (h : k' ∈ AL.keys (AL.del k l)) : k' ≠ k ∧ k' ∈ AL.keys l := by
  obtain ⟨x, hx⟩ := AL.get_of_mem_keys h
  by_cases hk : k' = k
  · subst hk; rw [AL.get_del_same] at hx; cases hx
  · rw [AL.get_del_other hk] at hx
    exact ⟨hk, AL.mem_keys_of_get hx⟩

/-- appending a record to a file keeps every valid entry valid -/
theorem LocOk.append {d : Disk} {k : Key} {loc : Loc} (h : LocOk d k loc) (fid : Nat) (r : Rec) :
    LocOk { d with data := AL.set fid (dataOf d fid ++ [r]) d.data } k loc := by
  obtain ⟨x, h1, h2, h3, h4, h5⟩ := h
  by_cases hf : loc.fid = fid
  · refine ⟨x, ?_, h2, h3, h4, ?_⟩
    · rw [hf, dataOf_set_same]; rw [hf] at h1; exact recAt_append_left h1 _
    · rw [hf]; simp [AL.get_set_same]
  · refine ⟨x, ?_, h2, h3, h4, ?_⟩
    · rw [dataOf_set_other _ hf]; exact h1
    · simp only; rw [AL.get_set_other hf]; exact h5

/-- creating a new empty file with an unused id keeps every valid entry valid -/
theorem LocOk.create {d : Disk} {k : Key} {loc : Loc} (h : LocOk d k loc) (fid : Nat)
    (hne : loc.fid ≠ fid) : LocOk { d with data := AL.set fid [] d.data } k loc := by
  obtain ⟨x, h1, h2, h3, h4, h5⟩ := h
  refine ⟨x, ?_, h2, h3, h4, ?_⟩
  · rw [dataOf_set_other _ hne]; exact h1
  · simp only; rw [AL.get_set_other hne]; exact h5

/-- `write` in the two cases of the rollover test -/
theorem write_roll (cfg : Cfg) (s : St) (r : Rec) (hroll : s.written + r.len > cfg.maxFile) :
    write cfg s r =
      ({ s with disk := { data := (AL.set (s.active + 1) [] (AL.set s.active (dataOf s.disk s.active ++ [r]) s.disk.data)),
                          hint := s.disk.hint, tails := s.disk.tails },
                written := 0, active := s.active + 1,
                stats := updStat s.stats s.active (fun st => if r.val.isSome then st.addLive else st.addDead r.len) },
       { fid := s.active, pos := fileSize (dataOf s.disk s.active), len := r.len, ts := r.ts },
       [Call.append ⟨.data, s.active⟩ (.ofRec r)] ++
         (if cfg.syncAlways then [Call.fsync ⟨.data, s.active⟩] else []) ++ [Call.create ⟨.data, s.active + 1⟩]) := by
  unfold write
  simp only [hroll, ↓reduceIte, newActive]

theorem write_noroll (cfg : Cfg) (s : St) (r : Rec) (hroll : ¬ s.written + r.len > cfg.maxFile) :
    write cfg s r =
      ({ s with disk := { s.disk with data := AL.set s.active (dataOf s.disk s.active ++ [r]) s.disk.data },
                written := s.written + r.len,
                stats := updStat s.stats s.active (fun st => if r.val.isSome then st.addLive else st.addDead r.len) },
       { fid := s.active, pos := fileSize (dataOf s.disk s.active), len := r.len, ts := r.ts },
       [Call.append ⟨.data, s.active⟩ (.ofRec r)] ++
         (if cfg.syncAlways then [Call.fsync ⟨.data, s.active⟩] else [])) := by
  unfold write
  simp only [hroll, ↓reduceIte]

/-- what `write` does, spelled out -/
theorem write_spec (cfg : Cfg) (s : St) (r : Rec) (h : Inv s) :
    (write cfg s r).2.1.fid = s.active ∧ (write cfg s r).2.1.pos = fileSize (dataOf s.disk s.active) ∧
    (write cfg s r).2.1.len = r.len ∧
    (write cfg s r).1.keydir = s.keydir ∧ (write cfg s r).1.bad = s.bad ∧
    (∀ k l, LocOk s.disk k l → LocOk (write cfg s r).1.disk k l) ∧
    (r.val.isSome → LocOk (write cfg s r).1.disk r.key (write cfg s r).2.1) ∧
    (∀ id, id ∈ AL.keys (write cfg s r).1.disk.data → id ≤ (write cfg s r).1.active) ∧
    (∀ id, id ∈ AL.keys (write cfg s r).1.disk.hint → id ≤ (write cfg s r).1.active) ∧
    (AL.get (write cfg s r).1.active (write cfg s r).1.disk.data).isSome ∧
    s.active ≤ (write cfg s r).1.active := by
  have hA : ∀ k l, LocOk s.disk k l →
      LocOk { s.disk with data := AL.set s.active (dataOf s.disk s.active ++ [r]) s.disk.data } k l :=
    fun k l hl => hl.append s.active r
  have hNew : r.val.isSome → LocOk { s.disk with data := AL.set s.active (dataOf s.disk s.active ++ [r]) s.disk.data } r.key
      { fid := s.active, pos := fileSize (dataOf s.disk s.active), len := r.len, ts := r.ts } := by
    intro hv
    refine ⟨r, ?_, rfl, hv, rfl, ?_⟩
    · simp only [dataOf_set_same]; exact recAt_append_size _ _ []
    · simp [AL.get_set_same]
  by_cases hroll : s.written + r.len > cfg.maxFile
  · rw [write_roll cfg s r hroll]
    refine ⟨rfl, rfl, rfl, rfl, rfl, ?_, ?_, ?_, ?_, ?_, by simp⟩
    · intro k l hl
      have h1 := hA k l hl
      have hle := LocOk.fid_le h hl
      exact h1.create (s.active + 1) (by omega)
    · intro hv
      exact (hNew hv).create (s.active + 1) (by simp)
    · intro id hid
      simp only at hid
      show id ≤ s.active + 1
      rcases mem_keys_set hid with h1 | h1
      · omega
      · rcases mem_keys_set h1 with h2 | h2
        · omega
        · have := h.ids id h2; omega
    · intro id hid
      have := h.hids id hid
      show id ≤ s.active + 1
      omega
    · simp [AL.get_set_same]
  · rw [write_noroll cfg s r hroll]
    refine ⟨rfl, rfl, rfl, rfl, rfl, hA, hNew, ?_, ?_, ?_, Nat.le_refl _⟩
    · intro id hid
      simp only at hid
      rcases mem_keys_set hid with h1 | h1
      · simp [h1]
      · exact h.ids id h1
    · exact h.hids
    · simp [AL.get_set_same]

theorem accountPrev_keydir (s : St) (p : Option Loc) : (accountPrev s p).keydir = s.keydir := by
  unfold accountPrev; cases p <;> rfl
theorem accountPrev_disk (s : St) (p : Option Loc) : (accountPrev s p).disk = s.disk := by
  unfold accountPrev; cases p <;> rfl
theorem accountPrev_active (s : St) (p : Option Loc) : (accountPrev s p).active = s.active := by
  unfold accountPrev; cases p <;> rfl

theorem get_congr {s s' : St} (hk : s'.keydir = s.keydir) (hd : s'.disk = s.disk) (k : Key) :
    get s' k = get s k := by
  unfold get; rw [hk, hd]

/-- `put` preserves the invariant -/
theorem put_inv (cfg : Cfg) (s : St) (ts : Int) (k : Key) (v : Val) (h : Inv s) :
    Inv (put cfg s ts k v).1 := by
  have hw := write_spec cfg s { ts := ts, key := k, val := some v } h
  obtain ⟨w1, w2, w3, w4, w5, w6, w7, w8, w9, w10, w11⟩ := hw
  unfold put
  simp only
  constructor
  · intro k' loc' hk'
    rw [accountPrev_keydir] at hk'
    rw [accountPrev_disk]
    simp only at hk' ⊢
    rw [AL.get_set] at hk'
    by_cases hkk : k' = k
    · subst hkk
      simp only [↓reduceIte, Option.some.injEq] at hk'
      subst hk'
      exact w7 rfl
    · simp only [hkk, ↓reduceIte] at hk'
      rw [w4] at hk'
      exact w6 _ _ (h.locs _ _ hk')
  · rw [accountPrev_disk, accountPrev_active]; exact w8
  · rw [accountPrev_disk, accountPrev_active]; exact w9
  · rw [accountPrev_disk, accountPrev_active]; exact w10

/-- `delete` preserves the invariant -/
theorem delete_inv (cfg : Cfg) (s : St) (ts : Int) (k : Key) (h : Inv s) :
    Inv (delete cfg s ts k).1 := by
  have hw := write_spec cfg s { ts := ts, key := k, val := none } h
  obtain ⟨w1, w2, w3, w4, w5, w6, w7, w8, w9, w10, w11⟩ := hw
  unfold delete
  simp only
  constructor
  · intro k' loc' hk'
    rw [accountPrev_keydir] at hk'
    rw [accountPrev_disk]
    simp only at hk' ⊢
    rw [AL.get_del] at hk'
    by_cases hkk : k' = k
    · simp [hkk] at hk'
    · simp only [hkk, ↓reduceIte] at hk'
      rw [w4] at hk'
      exact w6 _ _ (h.locs _ _ hk')
  · rw [accountPrev_disk, accountPrev_active]; exact w8
  · rw [accountPrev_disk, accountPrev_active]; exact w9
  · rw [accountPrev_disk, accountPrev_active]; exact w10

/-- the value a valid entry reads is the value of the record it addresses -/
theorem abs_of_locOk {s : St} {k : Key} {loc : Loc} (hk : AL.get k s.keydir = some loc) {r : Rec}
    (h1 : recAt (dataOf s.disk loc.fid) loc.pos = some r) (h4 : r.len = loc.len)
    (h5 : (AL.get loc.fid s.disk.data).isSome) : s.abs k = r.val := by
  unfold St.abs get
  simp only [hk, h1, h4, h5, and_self, ↓reduceIte]
  cases r.val <;> rfl

/-- if the entry of `k` is the same and still valid after the directory changed by appends and
    creations, `k` reads the same -/
theorem abs_stable {s s' : St} {k : Key} {loc : Loc} (hk : AL.get k s.keydir = some loc)
    (hk' : AL.get k s'.keydir = some loc) (hl : LocOk s.disk k loc)
    (hrec : ∀ r, recAt (dataOf s.disk loc.fid) loc.pos = some r → recAt (dataOf s'.disk loc.fid) loc.pos = some r)
    (hex : (AL.get loc.fid s'.disk.data).isSome) : s'.abs k = s.abs k := by
  obtain ⟨r, h1, h2, h3, h4, h5⟩ := hl
  rw [abs_of_locOk hk h1 h4 h5, abs_of_locOk hk' (hrec r h1) h4 hex]

end Store

namespace Store

/-- `write` never changes or removes a record that is already in a file -/
theorem write_preserves_recs (cfg : Cfg) (s : St) (r : Rec) (fid p : Nat) (x : Rec)
    (hx : recAt (dataOf s.disk fid) p = some x) (hex : (AL.get fid s.disk.data).isSome)
    (hle : fid ≤ s.active) :
    recAt (dataOf (write cfg s r).1.disk fid) p = some x ∧
      (AL.get fid (write cfg s r).1.disk.data).isSome := by
  by_cases hroll : s.written + r.len > cfg.maxFile
  · rw [write_roll cfg s r hroll]
    simp only
    have hne : fid ≠ s.active + 1 := by omega
    by_cases hf : fid = s.active
    · subst hf
      constructor
      · simp only [dataOf, AL.get_set_other hne, AL.get_set_same, Option.getD_some]
        exact recAt_append_left hx _
      · simp [AL.get_set_other hne, AL.get_set_same]
    · constructor
      · simp only [dataOf, AL.get_set_other hne, AL.get_set_other hf]
        exact hx
      · simp only [AL.get_set_other hne, AL.get_set_other hf]; exact hex
  · rw [write_noroll cfg s r hroll]
    simp only
    by_cases hf : fid = s.active
    · subst hf
      constructor
      · simp only [dataOf, AL.get_set_same, Option.getD_some]
        exact recAt_append_left hx _
      · simp [AL.get_set_same]
    · constructor
      · simp only [dataOf, AL.get_set_other hf]; exact hx
      · simp only [AL.get_set_other hf]; exact hex

/-- after `write`, a key whose index entry is untouched reads the same -/
theorem write_abs_other (cfg : Cfg) (s : St) (r : Rec) (h : Inv s) (s' : St)
    (hd : s'.disk = (write cfg s r).1.disk) (k' : Key)
    (hk : AL.get k' s'.keydir = AL.get k' s.keydir) : s'.abs k' = s.abs k' := by
  cases hg : AL.get k' s.keydir with
  | none =>
    rw [abs_none_of_none hg, abs_none_of_none (by rw [hk, hg])]
  | some loc =>
    have hl := h.locs k' loc hg
    obtain ⟨x, h1, h2, h3, h4, h5⟩ := hl
    have hle := LocOk.fid_le h ⟨x, h1, h2, h3, h4, h5⟩
    obtain ⟨p1, p2⟩ := write_preserves_recs cfg s r loc.fid loc.pos x h1 h5 hle
    rw [abs_of_locOk hg h1 h4 h5]
    exact abs_of_locOk (by rw [hk, hg]) (by rw [hd]; exact p1) h4 (by rw [hd]; exact p2)

/-- **put refines the map**: afterwards `k` reads `v` and every other key reads as before -/
theorem put_abs (cfg : Cfg) (s : St) (ts : Int) (k : Key) (v : Val) (h : Inv s) :
    (put cfg s ts k v).1.abs = s.abs.set k v := by
  have hw := write_spec cfg s { ts := ts, key := k, val := some v } h
  obtain ⟨w1, w2, w3, w4, w5, w6, w7, w8, w9, w10, w11⟩ := hw
  funext k'
  unfold Map.set
  by_cases hkk : k' = k
  · subst hkk
    simp only [↓reduceIte]
    obtain ⟨x, h1, h2, h3, h4, h5⟩ := w7 rfl
    have hx : x = { ts := ts, key := k', val := some v } := by
      -- the record at the new position is the one just written
      have := write_spec cfg s { ts := ts, key := k', val := some v } h
      by_cases hroll : s.written + ({ ts := ts, key := k', val := some v } : Rec).len > cfg.maxFile
      · rw [write_roll cfg s _ hroll] at h1
        simp only [dataOf] at h1
        rw [AL.get_set_other (by omega), AL.get_set_same] at h1
        simp only [Option.getD_some] at h1
        have := recAt_append_size (dataOf s.disk s.active) { ts := ts, key := k', val := some v } []
        simp only [dataOf] at this
        rw [this] at h1
        exact (Option.some.inj h1).symm
      · rw [write_noroll cfg s _ hroll] at h1
        simp only [dataOf] at h1
        rw [AL.get_set_same] at h1
        simp only [Option.getD_some] at h1
        have := recAt_append_size (dataOf s.disk s.active) { ts := ts, key := k', val := some v } []
        simp only [dataOf] at this
        rw [this] at h1
        exact (Option.some.inj h1).symm
    have hk : AL.get k' (put cfg s ts k' v).1.keydir = some (write cfg s { ts := ts, key := k', val := some v }).2.1 := by
      unfold put; simp only [accountPrev_keydir, AL.get_set_same]
    have hd : (put cfg s ts k' v).1.disk = (write cfg s { ts := ts, key := k', val := some v }).1.disk := by
      unfold put; simp only [accountPrev_disk]
    rw [abs_of_locOk hk (by rw [hd]; exact h1) h4 (by rw [hd]; exact h5), hx]
  · simp only [hkk, ↓reduceIte]
    apply write_abs_other cfg s { ts := ts, key := k, val := some v } h
    · unfold put; simp only [accountPrev_disk]
    · unfold put; simp only [accountPrev_keydir]
      rw [AL.get_set_other hkk, w4]

/-- **delete refines the map**: afterwards `k` is absent, other keys read as before, and the
    returned flag says whether `k` was present -/
theorem delete_abs (cfg : Cfg) (s : St) (ts : Int) (k : Key) (h : Inv s) :
    (delete cfg s ts k).1.abs = s.abs.del k ∧ (delete cfg s ts k).2.1 = (s.abs k).isSome := by
  have hw := write_spec cfg s { ts := ts, key := k, val := none } h
  obtain ⟨w1, w2, w3, w4, w5, w6, w7, w8, w9, w10, w11⟩ := hw
  constructor
  · funext k'
    unfold Map.del
    by_cases hkk : k' = k
    · subst hkk
      simp only [↓reduceIte]
      apply abs_none_of_none
      unfold delete; simp only [accountPrev_keydir, AL.get_del_same]
    · simp only [hkk, ↓reduceIte]
      apply write_abs_other cfg s { ts := ts, key := k, val := none } h
      · unfold delete; simp only [accountPrev_disk]
      · unfold delete; simp only [accountPrev_keydir]
        rw [AL.get_del_other hkk, w4]
  · unfold delete
    simp only [w4]
    cases hg : AL.get k s.keydir with
    | none => simp [abs_none_of_none hg]
    | some loc =>
      obtain ⟨x, h1, h2, h3, h4, h5⟩ := h.locs k loc hg
      rw [abs_of_locOk hg h1 h4 h5]
      simp [h3]

/-- **get refines the map** -/
theorem get_abs (s : St) (k : Key) (h : Inv s) :
    get s k = (match s.abs k with | some v => .value v | none => .absent) := by
  cases hk : AL.get k s.keydir with
  | none => rw [abs_none_of_none hk, get_absent_of_none hk]
  | some loc =>
    obtain ⟨v, hv⟩ := get_of_locOk hk (h.locs k loc hk)
    unfold St.abs; rw [hv]

end Store
