/-
  Lives after a crash inside a merge, part 2: opening a directory that has a visible part with
  exact hint files (`Wit`).  The opened store satisfies the lives invariant `LJw` and reads
  exactly as the opened visible part does.
-/
import BitcaskVerif.Store.LivesBase

namespace Store

theorem FileSim.congr {d1 d d1' d' : Disk} {fid : Nat} (h : FileSim d1 d fid)
    (e1 : dataOf d1' fid = dataOf d1 fid) (e2 : dataOf d' fid = dataOf d fid)
    (e3 : AL.get fid d1'.hint = AL.get fid d1.hint) (e4 : AL.get fid d'.hint = AL.get fid d.hint)
    (e5 : AL.get fid d'.tails = AL.get fid d.tails) : FileSim d1' d' fid := by
  have ha : ∀ hs, accOf d' fid hs = accOf d fid hs := by
    intro hs; unfold accOf dlen; rw [e2, e5]
  refine ⟨by rw [e1, e2]; exact h.pre, ?_, ?_⟩
  · intro hg; rw [e1, e2]; exact h.unh (by rw [← e4]; exact hg)
  · intro hs hg
    rw [e3, ha]
    exact h.acc hs (by rw [← e4]; exact hg)

theorem recAt_some_isSome {d : Disk} {fid p : Nat} {r : Rec} (h : recAt (dataOf d fid) p = some r) :
    (AL.get fid d.data).isSome := by
  cases hg : AL.get fid d.data with
  | none => simp [dataOf, hg, recAt] at h
  | some v => rfl

theorem recAt_some_mem {d : Disk} {fid p : Nat} {r : Rec} (h : recAt (dataOf d fid) p = some r) :
    fid ∈ AL.keys d.data := by
  have := recAt_some_isSome h
  cases hg : AL.get fid d.data with
  | none => simp [hg] at this
  | some v => exact AL.mem_keys_of_get hg

/-- one more empty data file (without hint file) above every id, in both directories -/
theorem Sim.addData {d1 d : Disk} (h : Sim d1 d) {b : Nat} (hb : b ∉ AL.keys d1.data)
    (hh : AL.get b d1.hint = none) :
    Sim { d1 with data := AL.set b [] d1.data } { d with data := AL.set b [] d.data } := by
  have hb' : b ∉ AL.keys d.data := by rw [h.keys]; exact hb
  refine ⟨?_, h.hkeys, h.tl, ?_⟩
  · show AL.keys (AL.set b [] d.data) = AL.keys (AL.set b [] d1.data)
    rw [Tr.keys_set_new _ _ _ hb, Tr.keys_set_new _ _ _ hb', h.keys]
  · intro fid
    by_cases e : fid = b
    · subst e
      refine ⟨?_, fun _ => ?_, ?_⟩
      · rw [dataOf_set_same, dataOf_set_same]; exact List.prefix_refl _
      · rw [dataOf_set_same, dataOf_set_same]
      · intro hs hg
        have : AL.get fid d.hint = none := h.hint_none.mpr hh
        simp only at hg
        rw [this] at hg; cases hg
    · exact (h.file fid).congr (dataOf_set_other _ e _) (dataOf_set_other _ e _) rfl rfl rfl

theorem JunkOK.addData {d1 d : Disk} {f : IdxF} (h : JunkOK d1 d f) {b : Nat} (hb : b ∉ AL.keys d.data) :
    JunkOK { d1 with data := AL.set b [] d1.data } { d with data := AL.set b [] d.data } f := by
  intro fid p j h1 h2
  by_cases e : fid = b
  · subst e
    rw [dataOf_set_same] at h1
    simp [recAt] at h1
  · rw [dataOf_set_other _ e] at h1 h2
    obtain ⟨a1, a2⟩ := h fid p j h1 h2
    refine ⟨a1, fun loc hl hlt => ?_⟩
    have := a2 loc hl hlt
    have hne : loc.fid ≠ b := fun e' => hb (e' ▸ recAt_some_mem this)
    rw [dataOf_set_other _ hne]
    exact this

/-- `d1` is a visible part of `d` with ascending ids (largest: `a`) and exact hint files -/
structure Wit (d1 d : Disk) (a : Nat) : Prop where
  asc : Asc d1.data
  hx : HintsExact d1
  mem : a ∈ AL.keys d1.data
  max : ∀ id ∈ AL.keys d1.data, id ≤ a
  hmax : ∀ id ∈ AL.keys d1.hint, id ≤ a
  sim : Sim d1 d

theorem Wit.asc' {d1 d : Disk} {a : Nat} (h : Wit d1 d a) : Asc d.data := by
  unfold Asc; rw [h.sim.keys]; exact h.asc

/-- the index the scan of `d` recovers is the replay of the visible records -/
theorem Wit.keydir {d1 d : Disk} {a : Nat} (h : Wit d1 d a) :
    kdF (openDisk d).1.keydir = replay (allEvs d1.data) := by
  rw [openDisk_keydir, h.sim.rebuild h.hx]
  exact rebuild_keydir h.asc h.hx

/-- the opened store, with its directory replaced by the opened visible part, is the opened
    visible part -/
theorem Wit.open_eq {d1 d : Disk} {a : Nat} (h : Wit d1 d a) :
    ({ (openDisk d).1 with disk := (openDisk d1).1.disk } : St) = (openDisk d1).1 := by
  have hr := h.sim.rebuild h.hx
  apply St.ext'
  · rfl
  · show (rebuild d).1.keydir = (rebuild d1).1.keydir
    rw [hr]
  · show (rebuild d).1.stats = (rebuild d1).1.stats
    rw [hr]
  · show (rebuild d).2 = (rebuild d1).2
    rw [hr]
  · rfl
  · show (rebuild d).1.bad = (rebuild d1).1.bad
    rw [hr]

/-- **opening a directory with a visible part** -/
theorem Wit.open {d1 d : Disk} {a : Nat} (h : Wit d1 d a)
    (hj : JunkOK d1 d (replay (allEvs d1.data))) (hf : FullAll d (replay (allEvs d1.data))) :
    LJw (openDisk d).1 (openDisk d1).1.disk ∧ (openDisk d).1.abs = (openDisk d1).1.abs ∧
    (openDisk d).1.active = a + 1 := by
  obtain ⟨o1, o2, _, o4, o5⟩ := openDisk_rinv h.asc h.hx h.mem h.max h.hmax
  have hr := h.sim.rebuild h.hx
  have hact : (rebuild d).2 = a + 1 := by rw [hr]; exact rebuild_act_max h.asc h.mem h.max
  have hkd := h.keydir
  have hb1 : a + 1 ∉ AL.keys d1.data := fun hc => by have := h.max _ hc; omega
  have hb : a + 1 ∉ AL.keys d.data := by rw [h.sim.keys]; exact hb1
  have hhb : AL.get (a + 1) d1.hint = none := by
    cases hg : AL.get (a + 1) d1.hint with
    | none => rfl
    | some v => have := h.hmax _ (AL.mem_keys_of_get hg); omega
  have hdisk : (openDisk d).1.disk = { d with data := AL.set (a + 1) [] d.data } := by
    rw [openDisk_disk, hact]
  have hA : (openDisk d).1.active = a + 1 := by rw [openDisk_active, hact]
  have hw : LJw (openDisk d).1 (openDisk d1).1.disk := by
    constructor
    · rw [h.open_eq]; exact o1
    · rw [h.open_eq]; exact o2
    · rw [hdisk, o5]; exact h.sim.addData hb1 hhb
    · rw [hdisk, o5, hkd]; exact hj.addData hb
    · intro k hk
      rw [hdisk]
      show replay (allEvs (AL.set (a + 1) [] d.data)) k = none
      rw [allEvs_set_new h.asc' (fun id hid => by rw [h.sim.keys] at hid; have := h.max id hid; omega)]
      apply hf k
      rw [← hkd]; exact hk
  refine ⟨hw, ?_, hA⟩
  rw [← hw.abs, h.open_eq]

end Store
