/-
  The directory at every call boundary (C14, crashes): the set of data-file ids obtained by
  applying the `create` / `unlink` calls of a trace prefix always contains the largest id ever
  used, so whatever a crash cuts off, the next open (`max + 1`) picks a fresh id.
-/
import BitcaskVerif.Store.TraceMonitor

namespace Store.Tr
/-- effect of one event on the set of data-file ids in the directory -/
def dirStep (D : List Nat) : TEv → List Nat
  | .call (.create f) => if f.kind = .data then f.id :: D else D
  | .call (.unlink f) => if f.kind = .data then D.filter (fun x => decide (x ≠ f.id)) else D
  | _ => D

/-- data-file ids in the directory after the calls of `evs` -/
def dirAfter (D : List Nat) (evs : List TEv) : List Nat := evs.foldl dirStep D

structure DirOk (m : Mon) (D : List Nat) : Prop where
  pos : 0 < m.bound
  top : m.bound - 1 ∈ D
  lt : ∀ x, x ∈ D → x < m.bound
  last : ∀ id, m.last = some (.create ⟨.data, id⟩) → id < m.bound

theorem dirOk_step {m : Mon} {D : List Nat} (h : DirOk m D) (e : TEv)
    (hF : (m.step e).okFresh = true) (hT : (m.step e).okTop = true) : DirOk (m.step e) (dirStep D e) := by
  cases e with
  | restart => exact ⟨h.pos, h.top, h.lt, by intro id hl; cases hl⟩
  | call c =>
    cases c with
    | create f =>
      obtain ⟨kd, id⟩ := f
      cases kd with
      | data =>
        simp only [Mon.step, Mon.freshTest, Bool.and_eq_true, decide_eq_true_eq] at hF
        have hb := hF.2
        constructor
        · simp only [Mon.step]; omega
        · have : max m.bound (id + 1) - 1 = id := by omega
          simp only [Mon.step, dirStep, ↓reduceIte, this]
          exact List.mem_cons_self
        · intro x hx
          simp only [Mon.step, dirStep, ↓reduceIte, List.mem_cons] at hx ⊢
          rcases hx with e | e
          · omega
          · have := h.lt x e; omega
        · intro i hi
          simp only [Mon.step, Option.some.injEq, Call.create.injEq, FName.mk.injEq, true_and] at hi ⊢
          omega
      | hint =>
        simp only [Mon.step, Mon.freshTest, Bool.and_eq_true, decide_eq_true_eq] at hF
        have hb := h.last id hF.2
        have hmax : max m.bound (id + 1) = m.bound := by omega
        constructor
        · simp only [Mon.step, hmax]; exact h.pos
        · simp only [Mon.step, hmax, dirStep]; exact h.top
        · simp only [Mon.step, hmax, dirStep]; exact h.lt
        · intro i hi
          simp [Mon.step] at hi
    | append f p => exact ⟨h.pos, h.top, h.lt, by intro id hl; cases hl⟩
    | fsync f => exact ⟨h.pos, h.top, h.lt, by intro id hl; cases hl⟩
    | unlink f =>
      simp only [Mon.step, Bool.and_eq_true, decide_eq_true_eq] at hT
      have hb := hT.2
      refine ⟨h.pos, ?_, ?_, by intro id hl; cases hl⟩
      · simp only [Mon.step, dirStep]
        split
        · rw [List.mem_filter]
          exact ⟨h.top, by simp only [decide_eq_true_eq]; omega⟩
        · exact h.top
      · intro x hx
        simp only [Mon.step, dirStep] at hx ⊢
        split at hx
        · exact h.lt x (List.mem_filter.mp hx).1
        · exact h.lt x hx

theorem dirOk_run (evs : List TEv) : ∀ (m : Mon) (D : List Nat), DirOk m D →
    (m.run evs).okFresh = true → (m.run evs).okTop = true → DirOk (m.run evs) (dirAfter D evs) := by
  induction evs with
  | nil => intro m D h _ _; exact h
  | cons e es ih =>
    intro m D h hF hT
    exact ih (m.step e) (dirStep D e)
      (dirOk_step h e (Mon.run_okFresh es hF) (Mon.run_okTop es hT)) hF hT

/-- **at every call boundary of an accepted trace the directory contains a data file whose id is
    at least every id in the directory, every id created so far, and everything below the
    initial bound** -/
theorem mon_dir_top (m : Mon) (D : List Nat) (h : DirOk m D) (evs pre post : List TEv)
    (he : evs = pre ++ post) (hF : (m.run evs).okFresh = true) (hT : (m.run evs).okTop = true) :
    ∃ top, top ∈ dirAfter D pre ∧ (∀ x, x ∈ dirAfter D pre → x ≤ top) ∧
      (∀ g, TEv.call (.create g) ∈ pre → g.id ≤ top) ∧ m.bound ≤ top + 1 := by
  rw [he, Mon.run_append] at hF hT
  have hd := dirOk_run pre m D h (Mon.run_okFresh post hF) (Mon.run_okTop post hT)
  refine ⟨(m.run pre).bound - 1, hd.top, ?_, ?_, ?_⟩
  · intro x hx; have := hd.lt x hx; omega
  · intro g hg; have := Mon.run_create_lt pre m g hg; omega
  · have := Mon.run_bound_le pre m; have := hd.pos; omega

end Store.Tr