/-
  Fault-aware MERGE pass (C20): what `Writer::merge` (src/storage/bitcask.rs: `merge`,
  `merge_files`, `move_above_created_files`, `new_active_datafile`) leaves behind when ONE of the
  file-system calls of the pass fails.

  `mergeF hintFirst cfg s sel order j torn` is the pass in which call number `j` fails — `j` is the 0-based
  index into the call list `(mergeWith cfg s sel order).2` of the fault-free pass (its last call
  is the creation of the new active file).  The calls before `j` have taken effect, call `j` has
  not, and `merge_files` returns the error AT ONCE:

    * index entries copied before the failing call stay re-pointed to their copies.  Inside one
      iteration the order is the one of the Rust code.  `hintFirst = true`, the code of the day
      (commit 924dfa8): data append — hint append — re-point the entry — count it live in the
      output — (output rollover: fsync data, fsync hint, `merge_fileid += 1`, create data, create
      hint); a failing DATA or HINT append leaves the entry un-re-pointed and uncounted.
      `hintFirst = false`, the order before that commit: data append — re-point — count — hint
      append — …; a failing HINT append leaves the entry re-pointed and counted (harmful:
      `c20_merge_old_order_data_loss_counterexample`, Props/C20Merge.lean).  The fault-free pass
      and its call list are the same for both orders.  Everything after the hint append leaves
      the entry re-pointed and counted; a failing rollover `create` happens after `merge_fileid`
      was advanced;
    * an input file is forgotten by the counters (`stats.remove`) only after both of its unlinks
      have succeeded; a failing hint unlink removes nothing, a failing data unlink leaves the data
      file without its hint file;
    * then `merge()` moves the active file above every id the pass has used
      (`pending_active_fileid = Some(merge_fileid + 1); move_above_created_files()`): the new
      active file `merge_fileid + 1` is created and the pass returns the error.  If the failing
      call `j` is that creation itself (the last call of the list) everything else has
      happened, the active id / writer are unchanged and the id stays PENDING: the next
      put / delete / merge performs the move first (`StP`, `putP`, `deleteP`, `mergeWithP`).

  Granularity of a failing APPEND: a prefix of the entry's bytes may have reached the file, i.e.
  the call `append f p` is replaced by `append f (.raw bs)` with `bs.length < payLen p`, exactly
  as in a crash cut (`Cut`, Store/CutLemmas.lean).  `torn` is the number of bytes that reached the
  file, clipped to `payLen p - 1`.  In the model's directory a torn data append lengthens the
  invisible tail of the output file (`Disk.tails`), a torn hint append leaves no trace (the hint
  scanner stops silently at a truncated entry).

  Modelling assumption (as in `mergeStep`): the copied record is in the output file when the
  index entry is re-pointed.  In the Rust code the data output is a `BufWriter`: bytes of records
  copied so far may still be in its buffer when `merge_files` returns early; they are written when
  the writer is dropped at that return — before anything else looks at the file.  This is the
  single-fault assumption: that write-out does not fail as well.  A `write` that fails while the
  buffer is flushed in the middle of copying a later record, or in `sync_merge_outputs`, leaves —
  after the drop — the state of a failing data append of that later record, resp. of a failing
  fsync.

  Everything here is computable (a driver can run it).
-/
import BitcaskVerif.Store.MergeLemmas

namespace Store

/-- store state plus `Writer::pending_active_fileid`: the id of the active file that still has to
    be opened before the next entry may be appended -/
structure StP where
  st : St
  pending : Option Nat := none
deriving Repr

/-- the bytes of a failed append of an `n`-byte entry that reached the file: fewer than `n` -/
def tornBytes (torn n : Nat) : List UInt8 := List.replicate (min torn (n - 1)) 0

/-- the hint entry the merge writes for key `k` whose entry was `loc` -/
def hintOf (m : MergeSt) (k : Key) (loc : Loc) : Hint :=
  { ts := loc.ts, len := loc.len, pos := m.mpos, key := k }

/-- state of the fault-aware copy loop: the loop state (its `calls` are the calls that have taken
    effect) and whether a call has failed (then nothing more happens) -/
structure FM where
  m : MergeSt
  failed : Bool := false

/-- the iteration for key `k` (index entry `loc`, addressing record `r`) in which call number `i`
    of the iteration fails.  Calls of an iteration: 0 data append, 1 hint append, and if the output
    rolls over 2 fsync data, 3 fsync hint, 4 create next data file, 5 create next hint file.
    `mid` of the result is the value of `merge_fileid` when the error is returned. -/
def failMove (hintFirst : Bool) (m : MergeSt) (k : Key) (loc : Loc) (r : Rec) (i torn : Nat) : MergeSt :=
  match i with
  | 0 =>
    -- `readers.copy(..)?` fails: nothing but a prefix of the record's bytes has happened
    { m with
      s := { m.s with disk := { m.s.disk with
               tails := AL.set m.mid ((AL.get m.mid m.s.disk.tails).getD 0 + (tornBytes torn r.len).length)
                          m.s.disk.tails } },
      calls := m.calls ++ [Call.append ⟨.data, m.mid⟩ (.raw (tornBytes torn r.len))] }
  | 1 =>
    -- the record is copied; `merge_hintfile_writer.append(..)?` fails
    { m with
      s := if hintFirst then
             -- order of the day: the entry still points at the input; the copy nothing points at is counted
             -- as dead in the output (`stats.entry(*merge_fileid).or_default().add_dead(nbytes)`, commit
             -- 8c97bf1), so that a later pass selects this file and removes it
             { m.s with
               disk := { m.s.disk with data := AL.set m.mid (dataOf m.s.disk m.mid ++ [r]) m.s.disk.data },
               stats := updStat m.s.stats m.mid (·.addDead r.len) }
           else
             -- order before commit 924dfa8: the entry is already re-pointed and counted
             { moveSt m k loc r with
               disk := { m.s.disk with data := AL.set m.mid (dataOf m.s.disk m.mid ++ [r]) m.s.disk.data } },
      calls := m.calls ++ [Call.append ⟨.data, m.mid⟩ (.ofRec r),
                           Call.append ⟨.hint, m.mid⟩ (.raw (tornBytes torn (hintOf m k loc).size))] }
  | 2 =>
    -- `sync_merge_outputs(..)?` fails at the data file
    { m with s := moveSt m k loc r, calls := moveCalls m k loc r }
  | 3 =>
    -- ... at the hint file
    { m with s := moveSt m k loc r, calls := moveCalls m k loc r ++ [Call.fsync ⟨.data, m.mid⟩] }
  | 4 =>
    -- `*merge_fileid += 1` has happened, `log::create(datafile_name(..))?` fails
    { s := moveSt m k loc r, mid := m.mid + 1, mpos := 0,
      calls := moveCalls m k loc r ++ [Call.fsync ⟨.data, m.mid⟩, Call.fsync ⟨.hint, m.mid⟩] }
  | _ =>
    -- the next data file exists, `log::create(hintfile_name(..))?` fails
    { s := { moveSt m k loc r with
             disk := { moveDisk m k loc r with data := AL.set (m.mid + 1) [] (moveDisk m k loc r).data } },
      mid := m.mid + 1, mpos := 0,
      calls := moveCalls m k loc r ++ [Call.fsync ⟨.data, m.mid⟩, Call.fsync ⟨.hint, m.mid⟩,
                                     Call.create ⟨.data, m.mid + 1⟩] }

/-- one iteration of the merge loop when call number `j` of the pass fails: if all calls of the
    fault-free iteration have an index below `j` the iteration is the fault-free one; otherwise
    call `j - (calls so far)` of this iteration fails -/
def mergeStepF (hintFirst : Bool) (cfg : Cfg) (sel : List Nat) (j torn : Nat) (x : FM) (k : Key) : FM :=
  if x.failed then x else
  let m' := mergeStep cfg sel x.m k
  if m'.calls.length ≤ j then { m := m', failed := false }
  else
    match AL.get k x.m.s.keydir with
    | none => { x with failed := true }      -- not reachable: such an iteration issues no call
    | some loc =>
      match recAt (dataOf x.m.s.disk loc.fid) loc.pos with
      | none => { x with failed := true }    -- not reachable: such an iteration issues no call
      | some r => { m := failMove hintFirst x.m k loc r (j - x.m.calls.length) torn, failed := true }

/-- creation of the first output pair `active + 1` (calls 0 and 1 of the pass) -/
def startF (s : St) (j : Nat) : FM :=
  match j with
  | 0 => { m := { s := s, mid := s.active + 1, mpos := 0, calls := [] }, failed := true }
  | 1 => { m := { s := { s with disk := { s.disk with data := AL.set (s.active + 1) [] s.disk.data } },
                  mid := s.active + 1, mpos := 0, calls := [Call.create ⟨.data, s.active + 1⟩] },
           failed := true }
  | _ => { m := { s := { s with disk := rollDisk s.disk (s.active + 1) }, mid := s.active + 1, mpos := 0,
                  calls := [Call.create ⟨.data, s.active + 1⟩, Call.create ⟨.hint, s.active + 1⟩] },
           failed := false }

/-- `sync_merge_outputs` after the loop -/
def syncF (j : Nat) (x : FM) : FM :=
  if x.failed then x
  else if j = x.m.calls.length then { m := x.m, failed := true }
  else if j = x.m.calls.length + 1 then
    { m := { x.m with calls := x.m.calls ++ [Call.fsync ⟨.data, x.m.mid⟩] }, failed := true }
  else
    { m := { x.m with calls := x.m.calls ++ [Call.fsync ⟨.data, x.m.mid⟩, Call.fsync ⟨.hint, x.m.mid⟩] },
      failed := false }

/-- removal of one merged file when call `j` of the pass fails (state, calls so far, failed?).
    As in `unlinkOne`, a `remove_file` of a file that does not exist (`NotFound`, tolerated by the
    Rust code) is not a call of the model; a fault injected into such a call has the effect of
    the second branch below (nothing of this file has been removed, the counters stay). -/
def unlinkOneF (j : Nat) (x : (St × List Call) × Bool) (id : Nat) : (St × List Call) × Bool :=
  if x.2 then x else
  if (unlinkOne x.1 id).2.length ≤ j then (unlinkOne x.1 id, false)
  else if (AL.get id x.1.1.disk.hint).isSome && decide (j ≠ x.1.2.length) then
    -- the hint file is gone, `fs::remove_file(datafile_name(..))` fails; the counters stay
    (({ x.1.1 with disk := { x.1.1.disk with hint := AL.del id x.1.1.disk.hint } },
      x.1.2 ++ [Call.unlink ⟨.hint, id⟩]), true)
  else
    -- the first removal of this file fails: nothing has changed
    (x.1, true)

/-- result of a (possibly failing) merge pass -/
structure MergeFOut where
  p : StP
  /-- the calls that have taken effect, in order; of a failed append the torn prefix that reached
      the file; the failing call itself does not appear -/
  calls : List Call
  /-- `Writer::merge` returned `Err` -/
  err : Bool

/-- after `merge_files` returned an error with `merge_fileid = mid`:
    `pending_active_fileid = Some(mid + 1); move_above_created_files()` (which succeeds: one fault
    per pass); the error is returned -/
def finishF (s : St) (mid : Nat) (calls : List Call) : MergeFOut :=
  { p := { st := (newActive s (mid + 1)).1, pending := none },
    calls := calls ++ (newActive s (mid + 1)).2, err := true }

/-- **the merge pass in which call number `j` fails** (`torn`: bytes of a failing append that
    reached the file; `hintFirst = true`: order of the day in `merge_files`, `false`: the order
    before commit 924dfa8).  For `j` beyond the last call this is the fault-free pass. -/
def mergeF (hintFirst : Bool) (cfg : Cfg) (s : St) (sel : List Nat) (order : List Key) (j torn : Nat) : MergeFOut :=
  let x := order.foldl (mergeStepF hintFirst cfg sel j torn) (startF s j)
  let y := syncF j x
  let z := sel.foldl (unlinkOneF j) ((y.m.s, y.m.calls), y.failed)
  if z.2 then finishF z.1.1 y.m.mid z.1.2
  else if j = z.1.2.length then
    -- `merge_files` succeeded, the creation of the new active file fails: the move stays pending
    { p := { st := z.1.1, pending := some (y.m.mid + 1) }, calls := z.1.2, err := true }
  else
    { p := { st := (newActive z.1.1 (y.m.mid + 1)).1, pending := none },
      calls := z.1.2 ++ (newActive z.1.1 (y.m.mid + 1)).2, err := false }

/-! ### operations on a store with a pending move -/

/-- `move_above_created_files` (fault-free) -/
def StP.move (p : StP) : St × List Call :=
  match p.pending with
  | none => (p.st, [])
  | some id => newActive p.st id

/-- `Writer::put`: `write` starts with `move_above_created_files()?` -/
def putP (cfg : Cfg) (p : StP) (ts : Int) (k : Key) (v : Val) : StP × List Call :=
  ({ st := (put cfg p.move.1 ts k v).1, pending := none }, p.move.2 ++ (put cfg p.move.1 ts k v).2)

/-- `Writer::delete` -/
def deleteP (cfg : Cfg) (p : StP) (ts : Int) (k : Key) : StP × Bool × List Call :=
  ({ st := (delete cfg p.move.1 ts k).1, pending := none }, (delete cfg p.move.1 ts k).2.1,
   p.move.2 ++ (delete cfg p.move.1 ts k).2.2)

/-- `Reader::get` (reads do not move) -/
def getP (p : StP) (k : Key) : GetRes := get p.st k

/-- `Writer::merge` starts with `move_above_created_files()?` -/
def mergeWithP (cfg : Cfg) (p : StP) (sel : List Nat) (order : List Key) : StP × List Call :=
  ({ st := (mergeWith cfg p.move.1 sel order).1, pending := none },
   p.move.2 ++ (mergeWith cfg p.move.1 sel order).2)

/-- ... the files are selected after the move -/
def mergeP (cfg : Cfg) (p : StP) (order : List Key) : StP × List Call :=
  mergeWithP cfg p (selectFiles cfg p.move.1) order

/-- a merge pass with a failing call on a store with a pending move (the move comes first and
    succeeds: one fault per pass) -/
def mergeFP (hintFirst : Bool) (cfg : Cfg) (p : StP) (sel : List Nat) (order : List Key) (j torn : Nat) : MergeFOut :=
  let r := mergeF hintFirst cfg p.move.1 sel order j torn
  { r with calls := p.move.2 ++ r.calls }

/-- what every key reads -/
def StP.abs (p : StP) : Map := p.st.abs

end Store
