/-
  What the startup scan recovers from the directory a crash leaves behind (C03).

  `Clean d kd a` describes a directory from which `openDisk` recovers exactly the index `kd`
  (ids ascending with largest id `a`, hint files exact, every entry of `kd` addresses its record,
  `kd` = "last record wins").  Crash tails never matter.  Every cut of `write` (hence of `put` and
  `delete`) and of `reopen` leaves a clean directory for the old or for the new index.
-/
import BitcaskVerif.Store.CutLemmas
import BitcaskVerif.Store.FaultModel

namespace Store

/-- what every key reads through index `kd` in directory `d` -/
def absOf (d : Disk) (kd : List (Key × Loc)) : Map := St.abs { disk := d, keydir := kd }

theorem abs_eq_absOf (s : St) : s.abs = absOf s.disk s.keydir := rfl

theorem absOf_tails (d : Disk) (kd : List (Key × Loc)) (T : List (Nat × Nat)) :
    absOf { d with tails := T } kd = absOf d kd := rfl

/-- the startup scan of `d` recovers the index `kd`; `a` is the largest file id -/
structure Clean (d : Disk) (kd : List (Key × Loc)) (a : Nat) : Prop where
  asc : Asc d.data
  hx : HintsExact d
  mem : a ∈ AL.keys d.data
  max : ∀ id ∈ AL.keys d.data, id ≤ a
  hmax : ∀ id ∈ AL.keys d.hint, id ≤ a
  locs : ∀ k loc, AL.get k kd = some loc → LocOk d k loc
  kd : kdF kd = replay (allEvs d.data)

theorem Clean.fid_le {d : Disk} {kd : List (Key × Loc)} {a : Nat} (h : Clean d kd a) {k : Key} {loc : Loc}
    (hl : LocOk d k loc) : loc.fid ≤ a := by
  obtain ⟨r, _, _, _, _, hex⟩ := hl
  cases hg : AL.get loc.fid d.data with
  | none => simp [hg] at hex
  | some v => exact h.max _ (AL.mem_keys_of_get hg)

/-- **opening a clean directory**: the store satisfies the recovery invariant, nothing absent is
    resurrectable, and every key reads what it reads through `kd` -/
theorem Clean.open {d : Disk} {kd : List (Key × Loc)} {a : Nat} (h : Clean d kd a) :
    RInv (openDisk d).1 ∧ Full (openDisk d).1 ∧ (openDisk d).1.abs = absOf d kd ∧
      (openDisk d).1.active = a + 1 ∧
      (openDisk d).1.disk = { d with data := AL.set (a + 1) [] d.data } := by
  obtain ⟨o1, o2, o3, o4, o5⟩ := openDisk_rinv h.asc h.hx h.mem h.max h.hmax
  refine ⟨o1, o2, ?_, o4, o5⟩
  funext k
  show (openDisk d).1.abs k = St.abs { disk := d, keydir := kd } k
  apply abs_keeps (b := a)
  · intro loc hl
    exact ⟨h.locs k loc hl, h.fid_le (h.locs k loc hl)⟩
  · have e1 := congrFun o3 k
    have e2 := congrFun h.kd k
    unfold kdF at e1 e2
    rw [e1, ← e2]
  · rw [o5]; exact keeps_create _ _ _ (by omega) _ _

/-- crash tails are invisible -/
theorem Clean.tails {d : Disk} {kd : List (Key × Loc)} {a : Nat} (h : Clean d kd a) (T : List (Nat × Nat)) :
    Clean { d with tails := T } kd a :=
  ⟨h.asc, h.hx, h.mem, h.max, h.hmax, h.locs, h.kd⟩

/-- an additional empty data file above every id -/
theorem Clean.addData {d : Disk} {kd : List (Key × Loc)} {a : Nat} (h : Clean d kd a) {b : Nat} (hb : a < b) :
    Clean { d with data := AL.set b [] d.data } kd b := by
  have hlt : ∀ id ∈ AL.keys d.data, id < b := fun id hid => by have := h.max id hid; omega
  constructor
  · exact (asc_set_new h.asc hlt).2
  · intro fid hs hg
    have hle : fid ≤ a := h.hmax fid (AL.mem_keys_of_get hg)
    rw [dataOf_set_other' d (by omega : fid ≠ b)]
    exact h.hx fid hs hg
  · exact Tr.mem_keys_set_self _ _ _
  · intro id hid
    rcases mem_keys_set hid with e | e
    · omega
    · have := h.max id e; omega
  · intro id hid; have := h.hmax id hid; omega
  · intro k loc hk
    have hl := h.locs k loc hk
    exact hl.keeps (h.fid_le hl) (keeps_create _ _ _ hb _ _)
  · rw [h.kd]
    show replay (allEvs d.data) = replay (allEvs (AL.set b [] d.data))
    rw [allEvs_set_new h.asc hlt]

/-- a state satisfying the recovery invariant in which nothing absent is resurrectable has a
    clean directory -/
theorem clean_of_rinv {s : St} (h : RInv s) (hf : Full s) : Clean s.disk s.keydir s.active :=
  ⟨h.asc, h.hx, h.active_mem, h.inv.ids, h.inv.hids, h.inv.locs, h.kd_eq hf⟩

/-! ### the directories a cut of `write` can leave -/

/-- the configuration in which writing `r` in state `s` does not roll over -/
def noRollCfg (cfg : Cfg) (s : St) (r : Rec) : Cfg := { cfg with maxFile := s.written + r.len }

theorem write_noRollCfg (cfg : Cfg) (s : St) (r : Rec) :
    (write (noRollCfg cfg s r) s r).1.disk = Tr.appendDisk s r := by
  rw [write_noroll _ s r (by simp [noRollCfg])]
  rfl

/-- every cut of `write` leaves: the old directory (possibly with a longer tail of the active
    file), the directory with the record appended, or the final directory -/
theorem write_cut_cases (cfg : Cfg) (s : St) (r : Rec) {c : List Call} (hc : Cut (write cfg s r).2.2 c) :
    (∃ T, applyCalls s.disk c = { s.disk with tails := T }) ∨
    applyCalls s.disk c = Tr.appendDisk s r ∨
    applyCalls s.disk c = (write cfg s r).1.disk := by
  have hfin := write_frame cfg s r
  rw [Tr.write_calls] at hc hfin
  have hA : applyCalls s.disk [Call.append ⟨.data, s.active⟩ (.ofRec r)] = Tr.appendDisk s r := rfl
  have hAF : applyCalls s.disk ([Call.append ⟨.data, s.active⟩ (.ofRec r)] ++
      (if cfg.syncAlways then [Call.fsync ⟨.data, s.active⟩] else [])) = Tr.appendDisk s r := by
    cases cfg.syncAlways <;> rfl
  rcases cut_append hc with h1 | ⟨c', rfl, h2⟩
  · rcases cut_append h1 with h3 | ⟨c', rfl, h4⟩
    · rcases cut_cons h3 with rfl | ⟨y, ⟨f, p, bs, e, _, rfl⟩, rfl⟩ | ⟨c', rfl, h5⟩
      · exact .inl ⟨s.disk.tails, rfl⟩
      · simp only [Call.append.injEq] at e
        obtain ⟨rfl, _⟩ := e
        exact .inl ⟨_, rfl⟩
      · rw [cut_nil h5]; exact .inr (.inl hA)
    · right; left
      cases hs : cfg.syncAlways with
      | false => simp only [hs, Bool.false_eq_true, ↓reduceIte] at h4; rw [cut_nil h4]; exact hA
      | true =>
        simp only [hs, ↓reduceIte] at h4
        rcases cut_single_noappend (by intro f p; simp) h4 with rfl | rfl
        · exact hA
        · rfl
  · by_cases hroll : s.written + r.len > cfg.maxFile
    · simp only [hroll, ↓reduceIte] at h2 hfin
      rcases cut_single_noappend (by intro f p; simp) h2 with rfl | rfl
      · right; left; rw [List.append_nil]; exact hAF
      · right; right; exact hfin
    · simp only [hroll, ↓reduceIte] at h2
      rw [cut_nil h2]
      right; left; rw [List.append_nil]; exact hAF

/-- the outcome of a crash: the reopened store satisfies the recovery invariant (hence the store
    invariant: reads are sound), nothing absent is resurrectable, and it reads as `m` -/
def Recovers (d : Disk) (m : Map) : Prop :=
  RInv (openDisk d).1 ∧ Full (openDisk d).1 ∧ (openDisk d).1.abs = m

theorem Clean.recovers {d : Disk} {kd : List (Key × Loc)} {a : Nat} (h : Clean d kd a) :
    Recovers d (absOf d kd) :=
  ⟨h.open.1, h.open.2.1, h.open.2.2.1⟩

theorem recovers_of_rinv {s : St} (h : RInv s) (hf : Full s) (T : List (Nat × Nat)) :
    Recovers { s.disk with tails := T } s.abs :=
  ((clean_of_rinv h hf).tails T).recovers

theorem recovers_self {s : St} (h : RInv s) (hf : Full s) : Recovers s.disk s.abs :=
  (clean_of_rinv h hf).recovers

/-- **crash during `put`** -/
theorem put_cut_recovers (cfg : Cfg) {s : St} (h : RInv s) (hf : Full s) (ts : Int) (k : Key) (v : Val)
    {c : List Call} (hc : Cut (put cfg s ts k v).2 c) :
    Recovers (applyCalls s.disk c) s.abs ∨ Recovers (applyCalls s.disk c) (s.abs.set k v) := by
  rw [Tr.put_calls] at hc
  rcases write_cut_cases cfg s _ hc with ⟨T, e⟩ | e | e
  · rw [e]; exact .inl (recovers_of_rinv h hf T)
  · right
    rw [e, ← write_noRollCfg cfg, ← put_disk, ← put_abs (noRollCfg cfg s _) s ts k v h.inv]
    exact recovers_self (put_rinv _ s ts k v h).1 ((put_rinv _ s ts k v h).2 hf)
  · right
    rw [e, ← put_disk, ← put_abs cfg s ts k v h.inv]
    exact recovers_self (put_rinv _ s ts k v h).1 ((put_rinv _ s ts k v h).2 hf)

/-- **crash during `delete`** -/
theorem delete_cut_recovers (cfg : Cfg) {s : St} (h : RInv s) (hf : Full s) (ts : Int) (k : Key)
    {c : List Call} (hc : Cut (delete cfg s ts k).2.2 c) :
    Recovers (applyCalls s.disk c) s.abs ∨ Recovers (applyCalls s.disk c) (s.abs.del k) := by
  rw [Tr.delete_calls] at hc
  rcases write_cut_cases cfg s _ hc with ⟨T, e⟩ | e | e
  · rw [e]; exact .inl (recovers_of_rinv h hf T)
  · right
    rw [e, ← write_noRollCfg cfg, ← delete_disk, ← (delete_abs (noRollCfg cfg s _) s ts k h.inv).1]
    exact recovers_self (delete_rinv _ s ts k h).1 ((delete_rinv _ s ts k h).2 hf)
  · right
    rw [e, ← delete_disk, ← (delete_abs cfg s ts k h.inv).1]
    exact recovers_self (delete_rinv _ s ts k h).1 ((delete_rinv _ s ts k h).2 hf)

/-- **crash during `openDisk` / `reopen`** (recovery itself: its only call creates the new active
    file) -/
theorem reopen_cut_recovers {s : St} (h : RInv s) (hf : Full s) {c : List Call} (hc : Cut (reopen s).2 c) :
    Recovers (applyCalls s.disk c) s.abs := by
  rcases cut_single_noappend (by intro f p; simp) hc with rfl | rfl
  · exact recovers_self h hf
  · show Recovers (reopen s).1.disk s.abs
    rw [← reopen_abs h hf]
    exact recovers_self (reopen_rinv h).1 (reopen_rinv h).2.1

end Store
