/-
  Fault-aware merge pass (C20), part 5: the calls and the directory of a failed pass.

  `mfZ_calls` / `mergeF_dir`: when `merge_files` returns, the calls that have taken effect are
  `faultPrefix (mergeWith cfg s sel order).2 j torn`.
  `mfZ_frame`: they are the whole effect on the directory.
  `mergeF_dir`: the directory after the failed pass is that crash cut of the fault-free pass plus
  a new, empty active file with a fresh id — or exactly the cut, with the fresh id pending, if the
  failing call is the creation of the new active file itself.
-/
import BitcaskVerif.Store.MergeFaultCalls

namespace Store

variable {hintFirst : Bool}

/-! ### the calls -/

theorem syncF_not_failed {j : Nat} {x : FM} (h : (syncF j x).failed = false) :
    x.failed = false ∧ (syncF j x).m.s = x.m.s ∧ (syncF j x).m.mid = x.m.mid ∧
    (syncF j x).m.calls = x.m.calls ++ [Call.fsync ⟨.data, x.m.mid⟩, Call.fsync ⟨.hint, x.m.mid⟩] := by
  cases hf : x.failed with
  | true =>
    have e : syncF j x = x := by unfold syncF; simp only [hf, ↓reduceIte]
    rw [e, hf] at h; cases h
  | false =>
    by_cases h1 : j = x.m.calls.length
    · have e : syncF j x = { m := x.m, failed := true } := by
        unfold syncF; simp only [hf, Bool.false_eq_true, ↓reduceIte, h1]
      rw [e] at h; cases h
    · by_cases h2 : j = x.m.calls.length + 1
      · have e : syncF j x = { m := { x.m with calls := x.m.calls ++ [Call.fsync ⟨.data, x.m.mid⟩] }, failed := true } := by
          unfold syncF; simp only [hf, Bool.false_eq_true, ↓reduceIte, h1]
          rw [if_pos h2]
        rw [e] at h; cases h
      · have e : syncF j x = { m := { x.m with calls := x.m.calls ++
            [Call.fsync ⟨.data, x.m.mid⟩, Call.fsync ⟨.hint, x.m.mid⟩] }, failed := false } := by
          unfold syncF; simp only [hf, Bool.false_eq_true, ↓reduceIte, h1, h2]
        rw [e]
        exact ⟨rfl, rfl, rfl, rfl⟩

/-- the calls of the fault-free `merge_files`, phase by phase -/
theorem full_split (cfg : Cfg) (s : St) (sel : List Nat) (order : List Key) :
    ∃ r1 r2, (loop0 cfg s sel order).calls = (start0 s).calls ++ r1 ∧
      (unl0 cfg s sel order).2 = synced0 cfg s sel order ++ r2 := by
  obtain ⟨r1, e1⟩ := mergeFold_calls_prefix cfg sel order (start0 s)
  obtain ⟨r2, e2⟩ := unlinkFold_calls_prefix sel ((loop0 cfg s sel order).s, synced0 cfg s sel order)
  exact ⟨r1, r2, e1, e2⟩

/-- **the calls that have taken effect when `merge_files` returns**, relative to the calls
    `(unl0 ..).2` of the fault-free `merge_files` (all calls of the pass but the creation of the new
    active file): if a call has failed, it is one of these and what has taken effect are the calls
    before it (a failing append torn); if not, all of them have taken effect -/
theorem mfZ_calls (cfg : Cfg) (s : St) (sel : List Nat) (order : List Key) (j torn : Nat) :
    CP (unl0 cfg s sel order).2 j torn (mfZ hintFirst cfg s sel order j torn).1.2 (mfZ hintFirst cfg s sel order j torn).2 := by
  obtain ⟨r1, r2, e1, e2⟩ := full_split cfg s sel order
  have hfull0 : (unl0 cfg s sel order).2 = [] ++ (start0 s).calls ++
      (r1 ++ [Call.fsync ⟨.data, (loop0 cfg s sel order).mid⟩, Call.fsync ⟨.hint, (loop0 cfg s sel order).mid⟩] ++ r2) := by
    rw [e2, synced0, e1]; simp only [List.nil_append, List.append_assoc]
  -- a failure while the first output pair is created
  have hearly : ∀ (x0 : FM), x0.failed = true → startF s j = x0 →
      mfZ hintFirst cfg s sel order j torn = ((x0.m.s, x0.m.calls), true) := by
    intro x0 hf0 hst
    have hx : mfX hintFirst cfg s sel order j torn = x0 := by
      unfold mfX; rw [hst]; exact foldF_of_failed cfg sel j torn order hf0
    have hy : mfY hintFirst cfg s sel order j torn = x0 := by
      unfold mfY syncF; rw [hx]; simp only [hf0, ↓reduceIte]
    unfold mfZ
    rw [hy, hf0]
    exact unlinkFoldF_of_failed j sel rfl
  rcases j with _ | _ | j
  · rw [hearly _ rfl rfl]
    have := CP.fail (torn := torn) hfull0 (Nat.le_refl _) (by simp [start0])
    simp [faultPrefix, tornCall, start0] at this
    exact this
  · rw [hearly _ rfl rfl]
    have := CP.fail (torn := torn) (j := 1) hfull0 (by simp) (by simp [start0])
    simp [faultPrefix, tornCall, start0] at this
    exact this
  · -- the copy loop
    have hst : startF s (j + 1 + 1) = { m := start0 s, failed := false } := rfl
    have hX : CP (unl0 cfg s sel order).2 (j + 1 + 1) torn (mfX hintFirst cfg s sel order (j + 1 + 1) torn).m.calls
        (mfX hintFirst cfg s sel order (j + 1 + 1) torn).failed := by
      unfold mfX
      rw [hst]
      refine foldF_calls cfg sel (j + 1 + 1) torn order _ _
        ([Call.fsync ⟨.data, (loop0 cfg s sel order).mid⟩, Call.fsync ⟨.hint, (loop0 cfg s sel order).mid⟩] ++ r2)
        rfl ?_ ?_
      · show 2 ≤ j + 1 + 1; omega
      · rw [e2, synced0]; simp only [loop0, List.append_assoc]
    -- the fsyncs
    have hY : CP (unl0 cfg s sel order).2 (j + 1 + 1) torn (mfY hintFirst cfg s sel order (j + 1 + 1) torn).m.calls
        (mfY hintFirst cfg s sel order (j + 1 + 1) torn).failed := by
      unfold mfY
      refine syncF_calls (post := r2) hX ?_
      intro hxf
      have hxm : (mfX hintFirst cfg s sel order (j + 1 + 1) torn).m = loop0 cfg s sel order := by
        have := (foldF_not_failed order (x := startF s (j + 1 + 1)) hxf).2
        rw [hst] at this
        exact this
      rw [hxm, e2, synced0]
    -- the removal
    cases hyf : (mfY hintFirst cfg s sel order (j + 1 + 1) torn).failed with
    | true =>
      have hz : mfZ hintFirst cfg s sel order (j + 1 + 1) torn =
          (((mfY hintFirst cfg s sel order (j + 1 + 1) torn).m.s, (mfY hintFirst cfg s sel order (j + 1 + 1) torn).m.calls), true) := by
        unfold mfZ; rw [hyf]; exact unlinkFoldF_of_failed _ sel rfl
      rw [hz]; rw [hyf] at hY; exact hY
    | false =>
      rw [hyf] at hY
      obtain ⟨hlen, _⟩ := hY.2 rfl
      obtain ⟨hxf, ys, _, yc⟩ := syncF_not_failed (x := mfX hintFirst cfg s sel order (j + 1 + 1) torn) hyf
      have hxm : (mfX hintFirst cfg s sel order (j + 1 + 1) torn).m = loop0 cfg s sel order := by
        have := (foldF_not_failed order (x := startF s (j + 1 + 1)) hxf).2
        rw [hst] at this
        exact this
      have hys : (mfY hintFirst cfg s sel order (j + 1 + 1) torn).m.s = (loop0 cfg s sel order).s := by
        unfold mfY; rw [ys, hxm]
      have hyc : (mfY hintFirst cfg s sel order (j + 1 + 1) torn).m.calls = synced0 cfg s sel order := by
        unfold mfY synced0; rw [yc, hxm]
      unfold mfZ
      rw [hyf, hys, hyc]
      refine unlinkFoldF_calls (j + 1 + 1) torn sel _ _ [] rfl ?_ (by simp [unl0])
      rw [hyc] at hlen
      exact hlen

/-! ### reported: without any hypothesis on the state -/

theorem unlinkOneF_not_failed {j : Nat} {x : (St × List Call) × Bool} {id : Nat}
    (h : (unlinkOneF j x id).2 = false) : x.2 = false ∧ (unlinkOneF j x id).1 = unlinkOne x.1 id := by
  cases hf : x.2 with
  | true => rw [unlinkOneF_of_failed j hf id, hf] at h; cases h
  | false =>
    by_cases hle : (unlinkOne x.1 id).2.length ≤ j
    · have e : unlinkOneF j x id = (unlinkOne x.1 id, false) := by
        unfold unlinkOneF; simp only [hf, Bool.false_eq_true, ↓reduceIte, hle]
      rw [e]; exact ⟨rfl, rfl⟩
    · unfold unlinkOneF at h
      simp only [hf, Bool.false_eq_true, ↓reduceIte, hle] at h
      split at h <;> cases h

theorem unlinkFoldF_not_failed {j : Nat} (l : List Nat) : ∀ {x : (St × List Call) × Bool},
    (l.foldl (unlinkOneF j) x).2 = false → x.2 = false ∧ (l.foldl (unlinkOneF j) x).1 = l.foldl unlinkOne x.1 := by
  induction l with
  | nil => intro x h; exact ⟨h, rfl⟩
  | cons id ids ih =>
    intro x h
    simp only [List.foldl_cons] at h ⊢
    obtain ⟨h1, h2⟩ := ih h
    obtain ⟨h3, h4⟩ := unlinkOneF_not_failed h1
    exact ⟨h3, by rw [h2, h4]⟩

/-- if no call of `merge_files` has failed, its three phases are the fault-free ones (for every
    state, no invariant needed) -/
theorem mfZ_not_failed (cfg : Cfg) (s : St) (sel : List Nat) (order : List Key) (j torn : Nat)
    (h : (mfZ hintFirst cfg s sel order j torn).2 = false) :
    (mfY hintFirst cfg s sel order j torn).m.mid = (loop0 cfg s sel order).mid ∧
    (mfZ hintFirst cfg s sel order j torn).1 = unl0 cfg s sel order ∧ (unl0 cfg s sel order).2.length ≤ j := by
  have hcp := mfZ_calls (hintFirst := hintFirst) cfg s sel order j torn
  rw [h] at hcp
  obtain ⟨hlen, _⟩ := hcp.2 rfl
  obtain ⟨hyf, hz⟩ := unlinkFoldF_not_failed sel (j := j) h
  simp only at hyf
  obtain ⟨hxf, ys, ym, yc⟩ := syncF_not_failed (x := mfX hintFirst cfg s sel order j torn) hyf
  obtain ⟨sf, xe⟩ := foldF_not_failed order hxf
  obtain ⟨_, se⟩ := startF_not_failed sf
  have hxm : (mfX hintFirst cfg s sel order j torn).m = loop0 cfg s sel order := by
    unfold mfX loop0; rw [xe, se]
  have hys : (mfY hintFirst cfg s sel order j torn).m.s = (loop0 cfg s sel order).s := by unfold mfY; rw [ys, hxm]
  have hym : (mfY hintFirst cfg s sel order j torn).m.mid = (loop0 cfg s sel order).mid := by unfold mfY; rw [ym, hxm]
  have hyc : (mfY hintFirst cfg s sel order j torn).m.calls = synced0 cfg s sel order := by
    unfold mfY synced0; rw [yc, hxm]
  have hz' : (mfZ hintFirst cfg s sel order j torn).1 = unl0 cfg s sel order := by
    show (sel.foldl (unlinkOneF j) (((mfY hintFirst cfg s sel order j torn).m.s, (mfY hintFirst cfg s sel order j torn).m.calls),
      (mfY hintFirst cfg s sel order j torn).failed)).1 = _
    rw [hz]
    simp only [hys, hyc]
    rfl
  refine ⟨hym, hz', ?_⟩
  rw [hz'] at hlen
  exact hlen

/-- **the pass reports an error iff `j` is the index of one of its calls** — for every state -/
theorem mergeF_err_iff' (cfg : Cfg) (s : St) (sel : List Nat) (order : List Key) (j torn : Nat) :
    (mergeF hintFirst cfg s sel order j torn).err = true ↔ j < (mergeWith cfg s sel order).2.length := by
  constructor
  · intro he
    cases Nat.lt_or_ge j (mergeWith cfg s sel order).2.length with
    | inl hlt => exact hlt
    | inr hge => rw [(mergeF_no_fault cfg s sel order j torn hge).2.2] at he; cases he
  · intro hlt
    rw [mergeWith_calls_length] at hlt
    rw [mergeF_eq]
    cases hzf : (mfZ hintFirst cfg s sel order j torn).2 with
    | true => rfl
    | false =>
      obtain ⟨_, e2, e3⟩ := mfZ_not_failed cfg s sel order j torn hzf
      have hjl : j = (mfZ hintFirst cfg s sel order j torn).1.2.length := by rw [e2]; omega
      rw [if_neg Bool.false_ne_true, if_pos hjl]

/-! ### the calls are the effect on the directory -/

theorem failMove_frame (d0 : Disk) (m : MergeSt) (k : Key) (loc : Loc) (r : Rec) (i torn : Nat)
    (h : applyCalls d0 m.calls = m.s.disk) :
    applyCalls d0 (failMove hintFirst m k loc r i torn).calls = (failMove hintFirst m k loc r i torn).s.disk := by
  cases hintFirst <;> rcases i with _ | _ | _ | _ | _ | i <;>
    simp only [failMove, moveCalls, applyCalls_append, h] <;> rfl

theorem mergeStepF_frame (cfg : Cfg) (sel : List Nat) (j torn : Nat) (d0 : Disk) (x : FM) (k : Key)
    (h : applyCalls d0 x.m.calls = x.m.s.disk) :
    applyCalls d0 (mergeStepF hintFirst cfg sel j torn x k).m.calls = (mergeStepF hintFirst cfg sel j torn x k).m.s.disk := by
  cases hf : x.failed with
  | true => rw [mergeStepF_of_failed cfg sel j torn hf k]; exact h
  | false =>
    by_cases hle : (mergeStep cfg sel x.m k).calls.length ≤ j
    · rw [mergeStepF_no_fault hf hle]
      exact mergeStep_frame cfg sel d0 x.m k h
    · unfold mergeStepF
      simp only [hf, Bool.false_eq_true, ↓reduceIte, hle]
      split
      · exact h
      · split
        · exact h
        · exact failMove_frame d0 x.m k _ _ _ torn h

theorem foldF_frame (cfg : Cfg) (sel : List Nat) (j torn : Nat) (d0 : Disk) (order : List Key) :
    ∀ (x : FM), applyCalls d0 x.m.calls = x.m.s.disk →
      applyCalls d0 (order.foldl (mergeStepF hintFirst cfg sel j torn) x).m.calls =
        (order.foldl (mergeStepF hintFirst cfg sel j torn) x).m.s.disk := by
  induction order with
  | nil => intro x h; exact h
  | cons k ks ih => intro x h; exact ih _ (mergeStepF_frame cfg sel j torn d0 x k h)

theorem startF_frame (s : St) (j : Nat) : applyCalls s.disk (startF s j).m.calls = (startF s j).m.s.disk := by
  rcases j with _ | _ | j <;> rfl

theorem syncF_frame (d0 : Disk) (j : Nat) (x : FM) (h : applyCalls d0 x.m.calls = x.m.s.disk) :
    applyCalls d0 (syncF j x).m.calls = (syncF j x).m.s.disk := by
  unfold syncF
  split
  · exact h
  · split
    · exact h
    · split <;> (simp only [applyCalls_append, h]; rfl)

theorem unlinkOneF_frame (d0 : Disk) (j : Nat) (x : (St × List Call) × Bool) (id : Nat)
    (h : applyCalls d0 x.1.2 = x.1.1.disk) :
    applyCalls d0 (unlinkOneF j x id).1.2 = (unlinkOneF j x id).1.1.disk := by
  unfold unlinkOneF
  split
  · exact h
  · split
    · exact unlinkOne_frame d0 x.1 id h
    · split
      · simp only [applyCalls_append, h]; rfl
      · exact h

theorem unlinkFoldF_frame (d0 : Disk) (j : Nat) (l : List Nat) : ∀ (x : (St × List Call) × Bool),
    applyCalls d0 x.1.2 = x.1.1.disk →
      applyCalls d0 (l.foldl (unlinkOneF j) x).1.2 = (l.foldl (unlinkOneF j) x).1.1.disk := by
  induction l with
  | nil => intro x h; exact h
  | cons id ids ih => intro x h; exact ih _ (unlinkOneF_frame d0 j x id h)

/-- **frame lemma**: the calls of the (possibly failing) `merge_files` are its effect on the
    directory -/
theorem mfZ_frame (cfg : Cfg) (s : St) (sel : List Nat) (order : List Key) (j torn : Nat) :
    applyCalls s.disk (mfZ hintFirst cfg s sel order j torn).1.2 = (mfZ hintFirst cfg s sel order j torn).1.1.disk := by
  unfold mfZ
  apply unlinkFoldF_frame
  unfold mfY
  apply syncF_frame
  unfold mfX
  apply foldF_frame
  exact startF_frame s j

/-! ### the directory after the failed pass -/

theorem faultPrefix_append_left {a : List Call} {j : Nat} (h : j < a.length) (b : List Call) (torn : Nat) :
    faultPrefix (a ++ b) j torn = faultPrefix a j torn := by
  have := faultPrefix_append_mid [] a b torn (Nat.zero_le j) (by simpa using h)
  simpa using this

theorem faultPrefix_append_create (a : List Call) (f : FName) (torn : Nat) :
    faultPrefix (a ++ [Call.create f]) a.length torn = a := by
  unfold faultPrefix
  rw [List.take_left']
  · simp [tornCall]
  · rfl

theorem mergeStep_active (cfg : Cfg) (sel : List Nat) (m : MergeSt) (k : Key) :
    (mergeStep cfg sel m k).s.active = m.s.active := by
  cases hk : AL.get k m.s.keydir with
  | none => rw [mergeStep_skip_none cfg sel m k hk]
  | some loc =>
    by_cases hsel : loc.fid ∈ sel
    · cases hr : recAt (dataOf m.s.disk loc.fid) loc.pos with
      | none =>
        have : mergeStep cfg sel m k = { m with s := { m.s with bad := true } } := by
          unfold mergeStep; simp only [hk, hsel, ↓reduceIte, hr]
        rw [this]
      | some r =>
        rw [mergeStep_move cfg sel m k loc r hk hsel hr]
        split <;> rfl
    · rw [mergeStep_skip_unsel cfg sel m k loc hk hsel]

theorem mergeFold_active (cfg : Cfg) (sel : List Nat) (order : List Key) : ∀ (m : MergeSt),
    (order.foldl (mergeStep cfg sel) m).s.active = m.s.active := by
  induction order with
  | nil => intro m; rfl
  | cons k ks ih => intro m; simp only [List.foldl_cons]; rw [ih, mergeStep_active]

theorem unlinkFold_active (l : List Nat) : ∀ (st : St × List Call), (l.foldl unlinkOne st).1.active = st.1.active := by
  induction l with
  | nil => intro st; rfl
  | cons id ids ih => intro st; simp only [List.foldl_cons]; rw [ih]; obtain ⟨s, c⟩ := st; rfl

theorem unl0_active (cfg : Cfg) (s : St) (sel : List Nat) (order : List Key) :
    (unl0 cfg s sel order).1.active = s.active := by
  unfold unl0
  rw [unlinkFold_active]
  show (loop0 cfg s sel order).s.active = s.active
  unfold loop0
  rw [mergeFold_active]
  rfl

/-- every data and hint file of `d` has an id below `b` -/
def FreshId (b : Nat) (d : Disk) : Prop :=
  (∀ i, i ∈ AL.keys d.data → i < b) ∧ (∀ i, i ∈ AL.keys d.hint → i < b)

/-- when `merge_files` returns after call `j` of the pass failed, the calls that have taken effect
    are those of the fault-free pass before `j` (a failing append torn), and the directory is
    their effect -/
theorem mfZ_faultPrefix (cfg : Cfg) (s : St) (sel : List Nat) (order : List Key) (j torn : Nat) (h : Inv s)
    (hsel : ∀ id, id ∈ sel → id ≤ s.active) (hcov : Covers order s)
    (hj : j < (mergeWith cfg s sel order).2.length) :
    (mfZ hintFirst cfg s sel order j torn).1.2 = faultPrefix (mergeWith cfg s sel order).2 j torn ∧
    (mfZ hintFirst cfg s sel order j torn).1.1.disk = applyCalls s.disk (faultPrefix (mergeWith cfg s sel order).2 j torn) := by
  obtain ⟨_, z2⟩ := mfZ_ok (hintFirst := hintFirst) cfg s sel order j torn h hsel hcov
  have hcp := mfZ_calls (hintFirst := hintFirst) cfg s sel order j torn
  have hlen := mergeWith_calls_length cfg s sel order
  have hfull : (mergeWith cfg s sel order).2 =
      (unl0 cfg s sel order).2 ++ [Call.create ⟨.data, (loop0 cfg s sel order).mid + 1⟩] := rfl
  have hE : (mfZ hintFirst cfg s sel order j torn).1.2 = faultPrefix (mergeWith cfg s sel order).2 j torn := by
    cases hzf : (mfZ hintFirst cfg s sel order j torn).2 with
    | true =>
      rw [hzf] at hcp
      obtain ⟨c1, c2⟩ := hcp.1 rfl
      rw [c2, hfull, faultPrefix_append_left c1]
    | false =>
      obtain ⟨_, e2, e3⟩ := z2 hzf
      have hjl : j = (unl0 cfg s sel order).2.length := by omega
      rw [e2, hfull, hjl, faultPrefix_append_create]
  exact ⟨hE, by rw [← hE]; exact (mfZ_frame cfg s sel order j torn).symm⟩

/-- **the directory and the calls of a failed pass.**  Let `E` be the calls of the fault-free pass
    before the failing call `j` (a failing append torn) and `D` the directory after them.  There
    is an id `b` above every id of `D` (and above the old active id) such that either
      * the new active file `b` has been created: the directory is `D` plus the empty data file
        `b`, the calls are `E` followed by that creation, nothing is pending; or
      * `j` is the last call of the pass — the creation of the new active file — : the directory
        is `D`, the calls are `E`, the active id is unchanged and `b` is pending. -/
theorem mergeF_dir (cfg : Cfg) (s : St) (sel : List Nat) (order : List Key) (j torn : Nat) (h : Inv s)
    (hsel : ∀ id, id ∈ sel → id ≤ s.active) (hcov : Covers order s)
    (hj : j < (mergeWith cfg s sel order).2.length) :
    ∃ b, FreshId b (applyCalls s.disk (faultPrefix (mergeWith cfg s sel order).2 j torn)) ∧ s.active < b ∧
      (((mergeF hintFirst cfg s sel order j torn).p.pending = none ∧ j + 1 < (mergeWith cfg s sel order).2.length ∧
        (mergeF hintFirst cfg s sel order j torn).p.st.active = b ∧
        (mergeF hintFirst cfg s sel order j torn).p.st.disk =
          { applyCalls s.disk (faultPrefix (mergeWith cfg s sel order).2 j torn) with
            data := AL.set b [] (applyCalls s.disk (faultPrefix (mergeWith cfg s sel order).2 j torn)).data } ∧
        (mergeF hintFirst cfg s sel order j torn).calls =
          faultPrefix (mergeWith cfg s sel order).2 j torn ++ [Call.create ⟨.data, b⟩]) ∨
       ((mergeF hintFirst cfg s sel order j torn).p.pending = some b ∧ j + 1 = (mergeWith cfg s sel order).2.length ∧
        (mergeF hintFirst cfg s sel order j torn).p.st.active = s.active ∧
        (mergeF hintFirst cfg s sel order j torn).p.st.disk =
          applyCalls s.disk (faultPrefix (mergeWith cfg s sel order).2 j torn) ∧
        (mergeF hintFirst cfg s sel order j torn).calls = faultPrefix (mergeWith cfg s sel order).2 j torn)) := by
  obtain ⟨z1, z2⟩ := mfZ_ok (hintFirst := hintFirst) cfg s sel order j torn h hsel hcov
  obtain ⟨hE, hD⟩ := mfZ_faultPrefix (hintFirst := hintFirst) cfg s sel order j torn h hsel hcov hj
  have hcp := mfZ_calls (hintFirst := hintFirst) cfg s sel order j torn
  have hlen := mergeWith_calls_length cfg s sel order
  refine ⟨(mfY hintFirst cfg s sel order j torn).m.mid + 1, ?_, by have := z1.midgt; omega, ?_⟩
  · rw [← hD]
    exact ⟨fun i hi => by have := z1.ids i hi; omega, fun i hi => by have := z1.hids i hi; omega⟩
  · cases hzf : (mfZ hintFirst cfg s sel order j torn).2 with
    | true =>
      left
      rw [hzf] at hcp
      obtain ⟨c1, _⟩ := hcp.1 rfl
      have hr : mergeF hintFirst cfg s sel order j torn =
          finishF (mfZ hintFirst cfg s sel order j torn).1.1 (mfY hintFirst cfg s sel order j torn).m.mid
            (mfZ hintFirst cfg s sel order j torn).1.2 := by
        rw [mergeF_eq, if_pos hzf]
      rw [hr, ← hE, mfZ_frame]
      exact ⟨rfl, by omega, rfl, rfl, rfl⟩
    | false =>
      obtain ⟨_, e2, e3⟩ := z2 hzf
      have hjl : j = (mfZ hintFirst cfg s sel order j torn).1.2.length := by rw [e2]; omega
      right
      have hr : mergeF hintFirst cfg s sel order j torn =
          { p := { st := (mfZ hintFirst cfg s sel order j torn).1.1, pending := some ((mfY hintFirst cfg s sel order j torn).m.mid + 1) },
            calls := (mfZ hintFirst cfg s sel order j torn).1.2, err := true } := by
        rw [mergeF_eq, if_neg (by rw [hzf]; exact Bool.false_ne_true), if_pos hjl]
      rw [hr, ← hE, mfZ_frame]
      refine ⟨rfl, by rw [e2] at hjl; omega, ?_, rfl, rfl⟩
      show (mfZ hintFirst cfg s sel order j torn).1.1.active = s.active
      rw [e2, unl0_active]

end Store
