/-
  Fault-aware merge pass (C20), part 9: the trace monitor of C14 accepts the calls of a failed
  merge pass, and after the pass (and its possibly pending move) the coupling invariant `Coup`
  between store and monitor holds again — so histories with failed merge passes satisfy the trace
  properties of C14 (fresh ids, own appends, the largest id is never removed) as a whole.
-/
import BitcaskVerif.Store.MergeFaultIds
import BitcaskVerif.Store.TraceRun

namespace Store.Tr

variable {hintFirst : Bool}

/-- what the monitor knows when `merge_files` has returned — with or without an error — with
    `merge_fileid = mid`, for a pass started at active id `A` -/
structure FMon (A mid : Nat) (m : Mon) : Prop where
  midgt : A < mid
  bound : m.bound ≤ mid + 1
  unl : ∀ f, f ∈ m.unlinked → f.id ≤ A
  okF : m.okFresh = true
  okO : m.okOwn = true
  okT : m.okTop = true

theorem MMonOk.toF {A mid : Nat} {m : Mon} (h : MMonOk A mid m) : FMon A mid m :=
  ⟨h.midgt, by rw [h.bound]; exact Nat.le_refl _, h.unl, h.okF, h.okO, h.okT⟩

theorem UMonOk.toF {A mid : Nat} {m : Mon} (h : UMonOk A mid m) : FMon A mid m :=
  ⟨h.midgt, by rw [h.bound]; exact Nat.le_refl _, h.unl, h.okF, h.okO, h.okT⟩

theorem FMon.mono {A mid : Nat} {m : Mon} (h : FMon A mid m) : FMon A (mid + 1) m :=
  ⟨by have := h.midgt; omega, by have := h.bound; omega, h.unl, h.okF, h.okO, h.okT⟩

/-- the creation of the new active file above every id the pass has used -/
theorem FMon.close {A mid : Nat} {m : Mon} (h : FMon A mid m) :
    MonOk (mid + 1) (m.calls [Call.create ⟨.data, mid + 1⟩]) := by
  simp only [Mon.calls_cons, Mon.calls_nil]
  have hb := h.bound
  constructor
  · simp only [Mon.step]; omega
  · simp [Mon.step]
  · intro f hf; have := h.unl f hf; have := h.midgt; simp only [Mon.step] at hf ⊢; omega
  · simp only [Mon.step, Mon.freshTest, h.okF, Bool.true_and, decide_eq_true_eq]; exact hb
  · exact h.okO
  · exact h.okT

theorem MMonOk.appendD {A mid : Nat} {m : Mon} (h : MMonOk A mid m) (p : Payload) :
    MMonOk A mid (m.calls [Call.append ⟨.data, mid⟩ p]) := by
  have hu : (⟨.data, mid⟩ : FName) ∉ m.unlinked := fun hc => by
    have := h.unl _ hc; have := h.midgt; simp at *; omega
  simp only [Mon.calls_cons, Mon.calls_nil]
  refine ⟨h.midgt, h.bound, h.ownD, h.ownH, h.unl, h.okF, ?_, h.okT⟩
  simp [Mon.step, h.okO, h.ownD, hu]

theorem MMonOk.fsync1 {A mid : Nat} {m : Mon} (h : MMonOk A mid m) (f : FName) :
    MMonOk A mid (m.calls [Call.fsync f]) :=
  ⟨h.midgt, h.bound, h.ownD, h.ownH, h.unl, h.okF, h.okO, h.okT⟩

/-- the creation of the next output data file -/
theorem MMonOk.createNext {A mid : Nat} {m : Mon} (h : MMonOk A mid m) :
    FMon A (mid + 1) (m.calls [Call.create ⟨.data, mid + 1⟩]) := by
  simp only [Mon.calls_cons, Mon.calls_nil]
  have hb := h.bound
  constructor
  · have := h.midgt; omega
  · simp only [Mon.step]; omega
  · exact h.unl
  · simp only [Mon.step, Mon.freshTest, h.okF, Bool.true_and, decide_eq_true_eq]; omega
  · exact h.okO
  · exact h.okT

/-- **the monitor after a failing iteration** -/
theorem failMove_mon {A : Nat} (m0 : Mon) (m : MergeSt) (k : Key) (loc : Loc) (r : Rec) (i torn : Nat)
    (h : MMonOk A m.mid (m0.calls m.calls)) :
    FMon A (failMove hintFirst m k loc r i torn).mid (m0.calls (failMove hintFirst m k loc r i torn).calls) := by
  rcases i with _ | _ | _ | _ | _ | i
  · simp only [failMove, Mon.calls_append]
    exact (h.appendD _).toF
  · simp only [failMove, Mon.calls_append]
    exact (h.appends _ _).toF
  · simp only [failMove, moveCalls, Mon.calls_append]
    exact (h.appends _ _).toF
  · simp only [failMove, moveCalls, Mon.calls_append]
    exact ((h.appends _ _).fsync1 _).toF
  · simp only [failMove, moveCalls, Mon.calls_append]
    exact ((h.appends _ _).fsyncs _ _).toF.mono
  · have e : (failMove hintFirst m k loc r (i + 1 + 1 + 1 + 1 + 1) torn).calls =
        m.calls ++ [Call.append ⟨.data, m.mid⟩ (.ofRec r),
          Call.append ⟨.hint, m.mid⟩ (.ofHint { ts := loc.ts, len := loc.len, pos := m.mpos, key := k })] ++
        [Call.fsync ⟨.data, m.mid⟩, Call.fsync ⟨.hint, m.mid⟩] ++ [Call.create ⟨.data, m.mid + 1⟩] := by
      simp [failMove, moveCalls]
    rw [e, Mon.calls_append, Mon.calls_append, Mon.calls_append]
    exact ((h.appends _ _).fsyncs _ _).createNext

/-! ### the three phases -/

/-- monitor invariant of the fault-aware loop -/
def XMon (A : Nat) (T : List (Nat × Nat)) (m0 : Mon) (x : FM) : Prop :=
  (x.failed = true → FMon A x.m.mid (m0.calls x.m.calls)) ∧
  (x.failed = false → MCoup A T m0 x.m)

theorem mergeStepF_mon (cfg : Cfg) (sel : List Nat) (j torn : Nat) (A : Nat) (T : List (Nat × Nat)) (m0 : Mon)
    (x : FM) (k : Key) (h : XMon A T m0 x) : XMon A T m0 (mergeStepF hintFirst cfg sel j torn x k) := by
  cases hf : x.failed with
  | true => rw [mergeStepF_of_failed cfg sel j torn hf k]; exact h
  | false =>
    have hm := h.2 hf
    by_cases hle : (mergeStep cfg sel x.m k).calls.length ≤ j
    · rw [mergeStepF_no_fault hf hle]
      exact ⟨(fun e => by cases e), fun _ => mergeStep_coup cfg sel A T m0 x.m k hm⟩
    · unfold mergeStepF
      simp only [hf, Bool.false_eq_true, ↓reduceIte, hle]
      split
      · exact ⟨fun _ => hm.mon.toF, fun e => by cases e⟩
      · split
        · exact ⟨fun _ => hm.mon.toF, fun e => by cases e⟩
        · exact ⟨fun _ => failMove_mon m0 x.m k _ _ _ torn hm.mon, fun e => by cases e⟩

theorem foldF_mon (cfg : Cfg) (sel : List Nat) (j torn : Nat) (A : Nat) (T : List (Nat × Nat)) (m0 : Mon)
    (order : List Key) : ∀ (x : FM), XMon A T m0 x → XMon A T m0 (order.foldl (mergeStepF hintFirst cfg sel j torn) x) := by
  induction order with
  | nil => intro x h; exact h
  | cons k ks ih => intro x h; exact ih _ (mergeStepF_mon cfg sel j torn A T m0 x k h)

theorem startF_mon (s : St) (j : Nat) (m0 : Mon) (h : Coup s m0) : XMon s.active s.disk.tails m0 (startF s j) := by
  rcases j with _ | _ | j
  · refine ⟨fun _ => ?_, fun e => by cases e⟩
    refine ⟨Nat.lt_succ_self _, ?_, fun f hf => Nat.le_of_lt (h.mon.unl f hf), h.mon.okF, h.mon.okO, h.mon.okT⟩
    show m0.bound ≤ s.active + 1 + 1
    rw [h.mon.bound]; exact Nat.le_succ _
  · refine ⟨fun _ => ?_, fun e => by cases e⟩
    have h1 : MonOk (s.active + 1) (m0.step (.call (.create ⟨.data, s.active + 1⟩))) :=
      h.mon.create_data (Nat.lt_succ_self _)
    refine ⟨Nat.lt_succ_self _, ?_, fun f hf => by have := h1.unl f hf; omega, h1.okF, h1.okO, h1.okT⟩
    show (m0.step (.call (.create ⟨.data, s.active + 1⟩))).bound ≤ s.active + 1 + 1
    rw [h1.bound]; exact Nat.le_refl _
  · exact ⟨(fun e => by cases e), fun _ => mergeInit_coup s m0 h⟩

/-- the monitor after the fsyncs; if nothing has failed, the removal invariant of the fault-free
    pass -/
theorem syncF_mon {A : Nat} {T : List (Nat × Nat)} {m0 : Mon} {j : Nat} {x : FM} (h : XMon A T m0 x) :
    ((syncF j x).failed = true → FMon A (syncF j x).m.mid (m0.calls (syncF j x).m.calls)) ∧
    ((syncF j x).failed = false → UCoup A (syncF j x).m.mid T m0 ((syncF j x).m.s, (syncF j x).m.calls)) := by
  cases hf : x.failed with
  | true =>
    have e : syncF j x = x := by unfold syncF; simp only [hf, ↓reduceIte]
    rw [e]
    exact ⟨fun _ => h.1 hf, fun e => by rw [hf] at e; cases e⟩
  | false =>
    have hm := h.2 hf
    by_cases h1 : j = x.m.calls.length
    · have e : syncF j x = { m := x.m, failed := true } := by
        unfold syncF; simp only [hf, Bool.false_eq_true, ↓reduceIte, h1]
      rw [e]
      exact ⟨fun _ => hm.mon.toF, fun e => by cases e⟩
    · by_cases h2 : j = x.m.calls.length + 1
      · have e : syncF j x = { m := { x.m with calls := x.m.calls ++ [Call.fsync ⟨.data, x.m.mid⟩] }, failed := true } := by
          unfold syncF; simp only [hf, Bool.false_eq_true, ↓reduceIte, h1]
          rw [if_pos h2]
        rw [e]
        refine ⟨fun _ => ?_, fun e => by cases e⟩
        simp only [Mon.calls_append]
        exact (hm.mon.fsync1 _).toF
      · have e : syncF j x = { m := { x.m with calls := x.m.calls ++
            [Call.fsync ⟨.data, x.m.mid⟩, Call.fsync ⟨.hint, x.m.mid⟩] }, failed := false } := by
          unfold syncF; simp only [hf, Bool.false_eq_true, ↓reduceIte, h1, h2]
        rw [e]
        refine ⟨(fun e => by cases e), fun _ => ⟨hm.ids, hm.hsub, hm.midex, hm.tails, ?_⟩⟩
        simp only [Mon.calls_append]
        exact (hm.mon.fsyncs _ _).toU

/-- monitor invariant of the fault-aware removal -/
def YMon (A mid : Nat) (T : List (Nat × Nat)) (m0 : Mon) (x : (St × List Call) × Bool) : Prop :=
  (x.2 = true → FMon A mid (m0.calls x.1.2)) ∧ (x.2 = false → UCoup A mid T m0 x.1)

theorem unlinkOneF_mon (A mid : Nat) (T : List (Nat × Nat)) (m0 : Mon) (j : Nat) (x : (St × List Call) × Bool)
    (id : Nat) (hid : id ≤ A) (h : YMon A mid T m0 x) : YMon A mid T m0 (unlinkOneF j x id) := by
  cases hf : x.2 with
  | true => rw [unlinkOneF_of_failed j hf id]; exact h
  | false =>
    have hu := h.2 hf
    by_cases hle : (unlinkOne x.1 id).2.length ≤ j
    · have e : unlinkOneF j x id = (unlinkOne x.1 id, false) := by
        unfold unlinkOneF; simp only [hf, Bool.false_eq_true, ↓reduceIte, hle]
      rw [e]
      exact ⟨(fun e => by cases e), fun _ => unlinkOne_coup A mid T m0 x.1 id hid hu⟩
    · unfold unlinkOneF
      simp only [hf, Bool.false_eq_true, ↓reduceIte, hle]
      split
      · refine ⟨fun _ => ?_, fun e => by cases e⟩
        simp only [Mon.calls_append, Mon.calls_cons, Mon.calls_nil]
        exact (hu.mon.unlink ⟨.hint, id⟩ hid).toF
      · exact ⟨fun _ => hu.mon.toF, fun e => by cases e⟩

theorem unlinkFoldF_mon (A mid : Nat) (T : List (Nat × Nat)) (m0 : Mon) (j : Nat) (l : List Nat)
    (hl : ∀ id, id ∈ l → id ≤ A) : ∀ (x : (St × List Call) × Bool), YMon A mid T m0 x →
      YMon A mid T m0 (l.foldl (unlinkOneF j) x) := by
  induction l with
  | nil => intro x h; exact h
  | cons id ids ih =>
    intro x h
    simp only [List.foldl_cons]
    exact ih (fun i hi => hl i (List.mem_cons_of_mem _ hi)) _
      (unlinkOneF_mon A mid T m0 j x id (hl id List.mem_cons_self) h)

/-- **the monitor when `merge_files` returns**, failed or not -/
theorem mfZ_mon (cfg : Cfg) (s : St) (sel : List Nat) (order : List Key) (j torn : Nat) (m0 : Mon)
    (h : Coup s m0) (hsel : ∀ id, id ∈ sel → id ≤ s.active) :
    FMon s.active (mfY hintFirst cfg s sel order j torn).m.mid (m0.calls (mfZ hintFirst cfg s sel order j torn).1.2) := by
  have hx : XMon s.active s.disk.tails m0 (mfX hintFirst cfg s sel order j torn) :=
    foldF_mon cfg sel j torn _ _ m0 order _ (startF_mon s j m0 h)
  have hy := syncF_mon (j := j) hx
  have hz : YMon s.active (mfY hintFirst cfg s sel order j torn).m.mid s.disk.tails m0 (mfZ hintFirst cfg s sel order j torn) := by
    unfold mfZ
    apply unlinkFoldF_mon _ _ _ _ _ _ hsel
    exact ⟨fun e => hy.1 e, fun e => hy.2 e⟩
  cases hzf : (mfZ hintFirst cfg s sel order j torn).2 with
  | true => exact hz.1 hzf
  | false => exact (hz.2 hzf).mon.toF

/-- **the monitor accepts the calls of a failed merge pass, and the coupling invariant holds again
    after the pass and its possibly pending move** -/
theorem mergeF_coup (cfg : Cfg) (s : St) (sel : List Nat) (order : List Key) (j torn : Nat) (m0 : Mon)
    (hi : Inv s) (h : Coup s m0) (hsel : ∀ id, id ∈ sel → id ≤ s.active) (hcov : Covers order s) :
    (m0.calls (mergeF hintFirst cfg s sel order j torn).calls).okFresh = true ∧
    (m0.calls (mergeF hintFirst cfg s sel order j torn).calls).okOwn = true ∧
    (m0.calls (mergeF hintFirst cfg s sel order j torn).calls).okTop = true ∧
    Coup (mergeF hintFirst cfg s sel order j torn).p.move.1
      (m0.calls ((mergeF hintFirst cfg s sel order j torn).calls ++ (mergeF hintFirst cfg s sel order j torn).p.move.2)) := by
  have hid := mergeF_idinv (hintFirst := hintFirst) cfg s sel order j torn hi h.inv hsel hcov
  have hm := mfZ_mon (hintFirst := hintFirst) cfg s sel order j torn m0 h hsel
  have hc := hm.close
  rw [← Mon.calls_append] at hc
  by_cases hzf : (mfZ hintFirst cfg s sel order j torn).2 = true
  · have hr : mergeF hintFirst cfg s sel order j torn =
        finishF (mfZ hintFirst cfg s sel order j torn).1.1 (mfY hintFirst cfg s sel order j torn).m.mid
          (mfZ hintFirst cfg s sel order j torn).1.2 := by
      rw [mergeF_eq, if_pos hzf]
    rw [hr] at hid ⊢
    refine ⟨hc.okF, hc.okO, hc.okT, hid, ?_⟩
    simp only [finishF, newActive, StP.move, List.append_nil]
    exact hc
  · by_cases hjl : j = (mfZ hintFirst cfg s sel order j torn).1.2.length
    · have hr : mergeF hintFirst cfg s sel order j torn =
          { p := { st := (mfZ hintFirst cfg s sel order j torn).1.1, pending := some ((mfY hintFirst cfg s sel order j torn).m.mid + 1) },
            calls := (mfZ hintFirst cfg s sel order j torn).1.2, err := true } := by
        rw [mergeF_eq, if_neg hzf, if_pos hjl]
      rw [hr] at hid ⊢
      exact ⟨hm.okF, hm.okO, hm.okT, hid, hc⟩
    · have hr : mergeF hintFirst cfg s sel order j torn =
          { p := { st := (newActive (mfZ hintFirst cfg s sel order j torn).1.1 ((mfY hintFirst cfg s sel order j torn).m.mid + 1)).1,
                   pending := none },
            calls := (mfZ hintFirst cfg s sel order j torn).1.2 ++
              (newActive (mfZ hintFirst cfg s sel order j torn).1.1 ((mfY hintFirst cfg s sel order j torn).m.mid + 1)).2,
            err := false } := by
        rw [mergeF_eq, if_neg hzf, if_neg hjl]
      rw [hr] at hid ⊢
      refine ⟨hc.okF, hc.okO, hc.okT, hid, ?_⟩
      simp only [newActive, StP.move, List.append_nil]
      exact hc

end Store.Tr
