/-
  Power loss (C09), merge-free histories with `sync = always`.

  Failure model of the property: creations and removals of files are persistent; of every data
  file, any suffix written after that file's last completed fsync may be missing (at record
  granularity, possibly leaving a partial record, i.e. an arbitrary invisible tail).
  `SDisk` carries, per data file, the number of records that are on stable storage; `PowerLoss sd
  d'` says that `d'` is one of the directories a power failure can leave.

  With `sync = always` at most the last record of the active file is not yet durable, so every
  power-loss image is — up to invisible tails — one of the directories a crash cut of the same
  operation leaves, and once the fsync has completed the record is in every image.
-/
import BitcaskVerif.Store.CutHistory
import BitcaskVerif.Store.SyncLemmas

namespace Store

/-! ### association-list helpers -/

theorem get_map_val {β γ : Type} (g : Nat → β → γ) (id : Nat) (l : List (Nat × β)) :
    AL.get id (l.map (fun p => (p.1, g p.1 p.2))) = (AL.get id l).map (g id) := by
  induction l with
  | nil => rfl
  | cons x xs ih =>
    obtain ⟨k', v'⟩ := x
    by_cases e : k' = id
    · subst e; simp [AL.get]
    · simp only [List.map_cons, AL.get, e, ↓reduceIte, ih]

theorem map_set_val {β γ : Type} (g : Nat → β → γ) (a : Nat) (x : β) (l : List (Nat × β)) :
    (AL.set a x l).map (fun p => (p.1, g p.1 p.2)) = AL.set a (g a x) (l.map (fun p => (p.1, g p.1 p.2))) := by
  induction l with
  | nil => rfl
  | cons y ys ih =>
    obtain ⟨k', v'⟩ := y
    by_cases e : k' = a
    · subst e; simp [AL.set]
    · simp only [AL.set, e, ↓reduceIte, List.map_cons, ih]

theorem set_self {β : Type} {a : Nat} {v : β} {l : List (Nat × β)} (h : AL.get a l = some v) :
    AL.set a v l = l := by
  induction l with
  | nil => simp [AL.get] at h
  | cons y ys ih =>
    obtain ⟨k', v'⟩ := y
    by_cases e : k' = a
    · subst e
      simp only [AL.get, ↓reduceIte, Option.some.injEq] at h
      simp [AL.set, h]
    · simp only [AL.get, e, ↓reduceIte] at h
      simp only [AL.set, e, ↓reduceIte, ih h]

/-! ### directories with durability information -/

/-- a directory and, per data file, the number of its records that are on stable storage -/
structure SDisk where
  disk : Disk
  synced : List (Nat × Nat)

def syncedOf (sd : SDisk) (id : Nat) : Nat := (AL.get id sd.synced).getD 0

/-- durability bookkeeping of one call: an fsync of a data file makes all its current records
    durable; a new file starts with nothing (its creation itself is persistent) -/
def syncedAfter (sd : SDisk) : Call → List (Nat × Nat)
  | .fsync f =>
    match f.kind with
    | .data => AL.set f.id (dataOf sd.disk f.id).length sd.synced
    | .hint => sd.synced
  | .create f =>
    match f.kind with
    | .data => AL.set f.id 0 sd.synced
    | .hint => sd.synced
  | _ => sd.synced

def syncCall (sd : SDisk) (c : Call) : SDisk := { disk := applyCall sd.disk c, synced := syncedAfter sd c }

def syncCalls (sd : SDisk) (cs : List Call) : SDisk := cs.foldl syncCall sd

@[simp] theorem syncCalls_nil (sd : SDisk) : syncCalls sd [] = sd := rfl
@[simp] theorem syncCalls_cons (sd : SDisk) (c : Call) (cs : List Call) :
    syncCalls sd (c :: cs) = syncCalls (syncCall sd c) cs := rfl
theorem syncCalls_append (sd : SDisk) (a b : List Call) :
    syncCalls sd (a ++ b) = syncCalls (syncCalls sd a) b := by
  simp [syncCalls, List.foldl_append]

theorem syncCalls_disk (cs : List Call) : ∀ (sd : SDisk), (syncCalls sd cs).disk = applyCalls sd.disk cs := by
  induction cs with
  | nil => intro sd; rfl
  | cons c cs ih => intro sd; simp only [syncCalls_cons, applyCalls_cons, ih]; rfl

/-- every record of every data file is durable -/
def FullySynced (sd : SDisk) : Prop := ∀ id, (dataOf sd.disk id).length ≤ syncedOf sd id

/-- "everything is durable" as bookkeeping (e.g. right after an open) -/
def allSynced (d : Disk) : List (Nat × Nat) := d.data.map (fun p => (p.1, p.2.length))

theorem fullySynced_all (d : Disk) : FullySynced ⟨d, allSynced d⟩ := by
  intro id
  simp only [syncedOf, allSynced, dataOf]
  rw [get_map_val (fun _ (rs : List Rec) => rs.length)]
  cases AL.get id d.data <;> simp

/-! ### power-loss images -/

/-- of file `id` only the first `keep id` records survive; `T` are the resulting partial records -/
def lossImage (d : Disk) (keep : Nat → Nat) (T : List (Nat × Nat)) : Disk :=
  { data := d.data.map (fun p => (p.1, p.2.take (keep p.1))), hint := d.hint, tails := T }

/-- `d'` is a directory a power failure can leave: every file keeps at least its durable records,
    all files still exist -/
def PowerLoss (sd : SDisk) (d' : Disk) : Prop :=
  ∃ keep T, (∀ id, syncedOf sd id ≤ keep id) ∧ d' = lossImage sd.disk keep T

theorem lossImage_full {d : Disk} (ha : Asc d.data) {keep : Nat → Nat}
    (h : ∀ id, (dataOf d id).length ≤ keep id) (T : List (Nat × Nat)) :
    lossImage d keep T = { d with tails := T } := by
  have : d.data.map (fun p => (p.1, p.2.take (keep p.1))) = d.data := by
    have hall : ∀ p ∈ d.data, (p.1, p.2.take (keep p.1)) = p := by
      intro p hp
      obtain ⟨id, rs⟩ := p
      have hg := get_of_mem_asc ha hp
      have := h id
      simp only [dataOf, hg, Option.getD_some] at this
      simp only [List.take_of_length_le this]
    generalize d.data = l at hall
    induction l with
    | nil => rfl
    | cons x xs ih =>
      simp only [List.map_cons, hall x List.mem_cons_self,
        ih (fun p hp => hall p (List.mem_cons_of_mem _ hp))]
  simp only [lossImage, this]

theorem powerLoss_full {sd : SDisk} (ha : Asc sd.disk.data) (hfs : FullySynced sd) {d' : Disk}
    (hp : PowerLoss sd d') : ∃ T, d' = { sd.disk with tails := T } := by
  obtain ⟨keep, T, hk, rfl⟩ := hp
  exact ⟨T, lossImage_full ha (fun id => Nat.le_trans (hfs id) (hk id)) T⟩

/-- all records are durable except possibly the last record `r` of file `a` -/
theorem lossImage_one {d : Disk} (ha : Asc d.data) {a : Nat} {old : List Rec} (hold : AL.get a d.data = some old)
    (r : Rec) {keep : Nat → Nat} (h : ∀ id, (dataOf d id).length ≤ keep id) (T : List (Nat × Nat)) :
    lossImage { d with data := AL.set a (old ++ [r]) d.data } keep T = { d with tails := T } ∨
    lossImage { d with data := AL.set a (old ++ [r]) d.data } keep T =
      { data := AL.set a (old ++ [r]) d.data, hint := d.hint, tails := T } := by
  have hmap : d.data.map (fun p => (p.1, p.2.take (keep p.1))) = d.data := by
    have := lossImage_full ha h T
    exact congrArg Disk.data this
  have hlen : old.length ≤ keep a := by
    have := h a
    simpa [dataOf, hold] using this
  by_cases hk : old.length + 1 ≤ keep a
  · right
    simp only [lossImage]
    rw [map_set_val (fun id (rs : List Rec) => rs.take (keep id)), hmap,
      List.take_of_length_le (by simp; omega)]
  · left
    simp only [lossImage]
    rw [map_set_val (fun id (rs : List Rec) => rs.take (keep id)), hmap]
    have : keep a = old.length := by omega
    rw [this, List.take_left', set_self hold]
    rfl

/-! ### `write` with `sync = always` -/

theorem fullySynced_append_fsync {s : St} {sy : List (Nat × Nat)} (hfs : FullySynced ⟨s.disk, sy⟩) (r : Rec) :
    FullySynced ⟨Tr.appendDisk s r, AL.set s.active (dataOf s.disk s.active ++ [r]).length sy⟩ := by
  intro id
  by_cases e : id = s.active
  · subst e
    simp [syncedOf, AL.get_set_same, Tr.appendDisk, dataOf_set_same]
  · have := hfs id
    simp only [syncedOf, AL.get_set_other e, Tr.appendDisk, dataOf_set_other _ e] at this ⊢
    exact this

theorem fullySynced_create {d : Disk} {sy : List (Nat × Nat)} (hfs : FullySynced ⟨d, sy⟩) (b : Nat) :
    FullySynced ⟨{ d with data := AL.set b [] d.data }, AL.set b 0 sy⟩ := by
  intro id
  by_cases e : id = b
  · subst e
    simp [syncedOf, AL.get_set_same, dataOf_set_same]
  · have := hfs id
    simp only [syncedOf, AL.get_set_other e, dataOf_set_other _ e] at this ⊢
    exact this

/-- the three kinds of directory a power failure during `write` can leave (up to tails): the old
    one, the one with the record appended, the final one; once the fsync has completed, not the
    old one -/
theorem write_powerLoss_cases (cfg : Cfg) (hs : cfg.syncAlways = true) {s : St} (h : RInv s) (r : Rec)
    {sy : List (Nat × Nat)} (hfs : FullySynced ⟨s.disk, sy⟩) {c : List Call} (hc : Cut (write cfg s r).2.2 c)
    {d' : Disk} (hp : PowerLoss (syncCalls ⟨s.disk, sy⟩ c) d') :
    ((∃ T, d' = { s.disk with tails := T }) ∧ Call.fsync ⟨.data, s.active⟩ ∉ c) ∨
    (∃ T, d' = { Tr.appendDisk s r with tails := T }) ∨
    (∃ T, d' = { (write cfg s r).1.disk with tails := T }) := by
  have hact : AL.get s.active s.disk.data = some (dataOf s.disk s.active) := by
    have := h.inv.act
    cases hg : AL.get s.active s.disk.data with
    | none => simp [hg] at this
    | some v => simp [dataOf, hg]
  have haA : Asc (Tr.appendDisk s r).data := asc_set_mem h.asc h.active_mem
  -- the state after append + fsync
  have hAF : syncCalls ⟨s.disk, sy⟩ [Call.append ⟨.data, s.active⟩ (.ofRec r), Call.fsync ⟨.data, s.active⟩] =
      ⟨Tr.appendDisk s r, AL.set s.active (dataOf s.disk s.active ++ [r]).length sy⟩ := by
    simp only [syncCalls_cons, syncCalls_nil, syncCall, syncedAfter, applyCall_appendRec, applyCall_fsync,
      Tr.appendDisk, dataOf_set_same]
  have hfsAF := fullySynced_append_fsync hfs r
  rw [write_calls_sync cfg s r hs] at hc
  rcases cut_append hc with h1 | ⟨c', rfl, h2⟩
  · rcases cut_cons h1 with rfl | ⟨y, ⟨f, p, bs, e, _, rfl⟩, rfl⟩ | ⟨c', rfl, h3⟩
    · left
      exact ⟨powerLoss_full h.asc hfs hp, by simp⟩
    · left
      simp only [Call.append.injEq] at e
      obtain ⟨rfl, _⟩ := e
      obtain ⟨keep, T, hk, rfl⟩ := hp
      refine ⟨⟨T, ?_⟩, by simp⟩
      have := lossImage_full h.asc (fun id => Nat.le_trans (hfs id) (hk id)) T
      exact this
    · rcases cut_single_noappend (by intro f p; simp) h3 with rfl | rfl
      · obtain ⟨keep, T, hk, rfl⟩ := hp
        have hk' : ∀ id, (dataOf s.disk id).length ≤ keep id := fun id => Nat.le_trans (hfs id) (hk id)
        rcases lossImage_one h.asc hact r hk' T with e | e
        · left; exact ⟨⟨T, e⟩, by simp⟩
        · right; left; exact ⟨T, e⟩
      · right; left
        rw [hAF] at hp
        exact powerLoss_full haA hfsAF hp
  · right
    rw [syncCalls_append, hAF] at hp
    by_cases hroll : s.written + r.len > cfg.maxFile
    · simp only [hroll, ↓reduceIte] at h2
      rcases cut_single_noappend (by intro f p; simp) h2 with rfl | rfl
      · left; exact powerLoss_full haA hfsAF hp
      · right
        have hd : (write cfg s r).1.disk =
            { Tr.appendDisk s r with data := AL.set (s.active + 1) [] (Tr.appendDisk s r).data } := by
          rw [write_roll cfg s r hroll]; rfl
        have hfin := fullySynced_create hfsAF (s.active + 1)
        have haF : Asc (AL.set (s.active + 1) [] (Tr.appendDisk s r).data) := by
          refine (asc_set_new haA ?_).2
          intro id hid
          rcases mem_keys_set hid with e | e
          · omega
          · have := h.inv.ids id e; omega
        rw [hd]
        exact powerLoss_full haF hfin hp
    · simp only [hroll, ↓reduceIte] at h2
      rw [cut_nil h2] at hp
      left; exact powerLoss_full haA hfsAF hp

/-- after the complete `write` everything is durable again -/
theorem write_fullySynced (cfg : Cfg) (hs : cfg.syncAlways = true) (s : St) (r : Rec)
    {sy : List (Nat × Nat)} (hfs : FullySynced ⟨s.disk, sy⟩) :
    FullySynced (syncCalls ⟨s.disk, sy⟩ (write cfg s r).2.2) := by
  have hAF : syncCalls ⟨s.disk, sy⟩ [Call.append ⟨.data, s.active⟩ (.ofRec r), Call.fsync ⟨.data, s.active⟩] =
      ⟨Tr.appendDisk s r, AL.set s.active (dataOf s.disk s.active ++ [r]).length sy⟩ := by
    simp only [syncCalls_cons, syncCalls_nil, syncCall, syncedAfter, applyCall_appendRec, applyCall_fsync,
      Tr.appendDisk, dataOf_set_same]
  rw [write_calls_sync cfg s r hs, syncCalls_append, hAF]
  by_cases hroll : s.written + r.len > cfg.maxFile
  · simp only [hroll, ↓reduceIte]
    exact fullySynced_create (fullySynced_append_fsync hfs r) (s.active + 1)
  · simp only [hroll, ↓reduceIte]
    exact fullySynced_append_fsync hfs r

end Store
