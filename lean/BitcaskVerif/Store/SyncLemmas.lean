/-
  Ordering of appends, fsyncs and unlinks in the call lists of the store (C09).

  `syncedB cs` is an executable monitor: every append in `cs` is followed, later in `cs` and
  before any unlink, by an fsync of the same file.  It holds for the calls of `put` / `delete`
  when `sync = always`, and for the calls of every merge pass (the outputs — data and hint — are
  forced to stable storage before the first input is removed; on the pinned tree this was defect
  D4), hence for whole traces.
-/
import BitcaskVerif.Store.CutLemmas

namespace Store

/-- is there an `fsync f` in `cs` before the first unlink? -/
def fsyncBeforeUnlink (f : FName) : List Call → Bool
  | [] => false
  | .fsync g :: rest => decide (g = f) || fsyncBeforeUnlink f rest
  | .unlink _ :: _ => false
  | _ :: rest => fsyncBeforeUnlink f rest

/-- every append is followed by an fsync of the same file before the next unlink -/
def syncedB : List Call → Bool
  | [] => true
  | .append f _ :: rest => fsyncBeforeUnlink f rest && syncedB rest
  | _ :: rest => syncedB rest

/-- the monitor in plain words: positions in the list -/
theorem syncedB_spec {cs : List Call} (h : syncedB cs = true) :
    ∀ pre f p post, cs = pre ++ Call.append f p :: post →
      ∃ mid rest, post = mid ++ Call.fsync f :: rest ∧ ∀ c ∈ mid, ∀ g, c ≠ Call.unlink g := by
  have hf : ∀ (f : FName) (post : List Call), fsyncBeforeUnlink f post = true →
      ∃ mid rest, post = mid ++ Call.fsync f :: rest ∧ ∀ c ∈ mid, ∀ g, c ≠ Call.unlink g := by
    intro f post
    induction post with
    | nil => intro h; simp [fsyncBeforeUnlink] at h
    | cons x xs ih =>
      intro h
      cases x with
      | fsync g =>
        simp only [fsyncBeforeUnlink, Bool.or_eq_true, decide_eq_true_eq] at h
        rcases h with rfl | h
        · exact ⟨[], xs, rfl, by simp⟩
        · obtain ⟨mid, rest, e, hm⟩ := ih h
          exact ⟨Call.fsync g :: mid, rest, by rw [e]; rfl, by
            intro c hc g'
            rcases List.mem_cons.mp hc with rfl | hc
            · simp
            · exact hm c hc g'⟩
      | unlink g => simp [fsyncBeforeUnlink] at h
      | create g =>
        simp only [fsyncBeforeUnlink] at h
        obtain ⟨mid, rest, e, hm⟩ := ih h
        exact ⟨Call.create g :: mid, rest, by rw [e]; rfl, by
          intro c hc g'
          rcases List.mem_cons.mp hc with rfl | hc
          · simp
          · exact hm c hc g'⟩
      | append g q =>
        simp only [fsyncBeforeUnlink] at h
        obtain ⟨mid, rest, e, hm⟩ := ih h
        exact ⟨Call.append g q :: mid, rest, by rw [e]; rfl, by
          intro c hc g'
          rcases List.mem_cons.mp hc with rfl | hc
          · simp
          · exact hm c hc g'⟩
  induction cs with
  | nil => intro pre f p post e; simp at e
  | cons x xs ih =>
    intro pre f p post e
    cases pre with
    | nil =>
      simp only [List.nil_append, List.cons.injEq] at e
      obtain ⟨rfl, rfl⟩ := e
      simp only [syncedB, Bool.and_eq_true] at h
      exact hf f xs h.1
    | cons y pre =>
      simp only [List.cons_append, List.cons.injEq] at e
      obtain ⟨rfl, e⟩ := e
      have h' : syncedB xs = true := by
        cases x <;> simp only [syncedB, Bool.and_eq_true] at h
        · exact h
        · exact h.2
        · exact h
        · exact h
      exact ih h' pre f p post e

/-! ### extending a call list -/

theorem fbu_append_mono (f : FName) (cs : List Call) {t t' : List Call}
    (h1 : fsyncBeforeUnlink f t = true → fsyncBeforeUnlink f t' = true) :
    fsyncBeforeUnlink f (cs ++ t) = true → fsyncBeforeUnlink f (cs ++ t') = true := by
  induction cs with
  | nil => exact h1
  | cons x xs ih =>
    cases x with
    | fsync g =>
      simp only [List.cons_append, fsyncBeforeUnlink, Bool.or_eq_true, decide_eq_true_eq]
      intro h; rcases h with h | h
      · exact .inl h
      · exact .inr (ih h)
    | unlink g => simp [fsyncBeforeUnlink]
    | create g => simpa [fsyncBeforeUnlink] using ih
    | append g q => simpa [fsyncBeforeUnlink] using ih

/-- replacing the tail of a list by one in which no fsync-before-unlink is lost -/
theorem synced_mono (cs : List Call) {t t' : List Call}
    (h1 : ∀ f, fsyncBeforeUnlink f t = true → fsyncBeforeUnlink f t' = true)
    (h2 : syncedB t = true → syncedB t' = true) :
    syncedB (cs ++ t) = true → syncedB (cs ++ t') = true := by
  induction cs with
  | nil => exact h2
  | cons x xs ih =>
    cases x with
    | append g q =>
      simp only [List.cons_append, syncedB, Bool.and_eq_true]
      intro h
      exact ⟨fbu_append_mono g xs (h1 g) h.1, ih h.2⟩
    | fsync g => simpa [syncedB] using ih
    | unlink g => simpa [syncedB] using ih
    | create g => simpa [syncedB] using ih

theorem synced_append {a b : List Call} (ha : syncedB a = true) (hb : syncedB b = true) :
    syncedB (a ++ b) = true := by
  have := synced_mono a (t := []) (t' := b) (by intro f h; simp [fsyncBeforeUnlink] at h) (fun _ => hb)
  rw [List.append_nil] at this
  exact this ha

theorem synced_of_noappend {cs : List Call} (h : ∀ x ∈ cs, ∀ f p, x ≠ Call.append f p) : syncedB cs = true := by
  induction cs with
  | nil => rfl
  | cons x xs ih =>
    have ih' := ih (fun y hy => h y (List.mem_cons_of_mem _ hy))
    cases x with
    | append g q => exact absurd rfl (h _ List.mem_cons_self g q)
    | fsync g => simpa [syncedB] using ih'
    | unlink g => simpa [syncedB] using ih'
    | create g => simpa [syncedB] using ih'

/-! ### `put` / `delete` with `sync = always` -/

theorem write_synced (cfg : Cfg) (s : St) (r : Rec) (h : cfg.syncAlways = true) :
    syncedB (write cfg s r).2.2 = true := by
  rw [Tr.write_calls, h]
  by_cases hroll : s.written + r.len > cfg.maxFile <;> simp [hroll, syncedB, fsyncBeforeUnlink]

/-- shape of the calls of a write with `sync = always`: append, fsync of the same file, then at
    most the creation of the next file -/
theorem write_calls_sync (cfg : Cfg) (s : St) (r : Rec) (h : cfg.syncAlways = true) :
    (write cfg s r).2.2 = [Call.append ⟨.data, s.active⟩ (.ofRec r), Call.fsync ⟨.data, s.active⟩] ++
      (if s.written + r.len > cfg.maxFile then [Call.create ⟨.data, s.active + 1⟩] else []) := by
  rw [Tr.write_calls, h]; simp

/-! ### the merge pass -/

/-- loop invariant: with the two fsyncs of the current output appended, the calls so far pass the
    monitor -/
def MSync (m : MergeSt) : Prop :=
  syncedB (m.calls ++ [Call.fsync ⟨.data, m.mid⟩, Call.fsync ⟨.hint, m.mid⟩]) = true

theorem mergeStart_msync (s : St) : MSync (mergeStart s) := by
  simp [MSync, mergeStart, syncedB]

open Tr in
theorem mergeStep_msync (cfg : Cfg) (sel : List Nat) (m : MergeSt) (k : Key) (h : MSync m) :
    MSync (mergeStep cfg sel m k) := by
  apply mergeStep_ind MSync cfg sel m k
  · exact h
  · exact h
  · intro loc r _ _ _
    unfold MSync at h ⊢
    simp only [moveNoRoll, moveCalls, List.append_assoc]
    refine synced_mono m.calls ?_ ?_ h
    · intro f; simp [fsyncBeforeUnlink]
    · intro _; simp [syncedB, fsyncBeforeUnlink]
  · intro loc r _ _ _
    unfold MSync at h ⊢
    simp only [moveRoll, moveCalls, List.append_assoc]
    refine synced_mono m.calls ?_ ?_ h
    · intro f; simp only [List.cons_append, List.nil_append, fsyncBeforeUnlink, Bool.or_false, Bool.or_eq_true,
        decide_eq_true_eq]
      intro h; rcases h with h | h
      · exact .inl h
      · exact .inr (.inl h)
    · intro _; simp [syncedB, fsyncBeforeUnlink]

theorem mergeFold_msync (cfg : Cfg) (sel : List Nat) (order : List Key) :
    ∀ (m : MergeSt), MSync m → MSync (order.foldl (mergeStep cfg sel) m) := by
  induction order with
  | nil => intro m h; exact h
  | cons k ks ih => intro m h; exact ih _ (mergeStep_msync cfg sel m k h)

theorem unlinkFold_calls (l : List Nat) : ∀ (st : St × List Call),
    ∃ post, (l.foldl unlinkOne st).2 = st.2 ++ post ∧ ∀ x ∈ post, ∀ f p, x ≠ Call.append f p := by
  induction l with
  | nil => intro st; exact ⟨[], by simp, by simp⟩
  | cons id l ih =>
    intro st
    obtain ⟨post, e, hp⟩ := ih (unlinkOne st id)
    refine ⟨unlinkCalls st.1.disk id ++ post, by
      simp only [List.foldl_cons]; rw [e, unlinkOne_calls, List.append_assoc], ?_⟩
    intro x hx f p
    rcases List.mem_append.mp hx with hx | hx
    · unfold unlinkCalls at hx
      simp only [List.mem_append] at hx
      rcases hx with hx | hx <;> split at hx <;> simp at hx <;> subst hx <;> simp
    · exact hp x hx f p

/-- **the calls of a merge pass pass the monitor**, for every configuration -/
theorem mergeWith_synced (cfg : Cfg) (s : St) (sel : List Nat) (order : List Key) :
    syncedB (mergeWith cfg s sel order).2 = true := by
  have hL : MSync (mergeLoop cfg s sel order) := mergeFold_msync cfg sel order _ (mergeStart_msync s)
  rw [mergeWith_calls]
  obtain ⟨post, e, hp⟩ := unlinkFold_calls sel ((mergeLoop cfg s sel order).s,
    (mergeLoop cfg s sel order).calls ++
      [Call.fsync ⟨.data, (mergeLoop cfg s sel order).mid⟩, Call.fsync ⟨.hint, (mergeLoop cfg s sel order).mid⟩])
  rw [e, List.append_assoc]
  apply synced_append hL
  apply synced_of_noappend
  intro x hx f p
  rcases List.mem_append.mp hx with hx | hx
  · exact hp x hx f p
  · simp only [List.mem_singleton] at hx; subst hx; simp

/-! ### which files a merge pass touches -/

/-- a call of the copy phase: no unlink, and only files with ids above `A` -/
def OutputOnly (A : Nat) : Call → Prop
  | .unlink _ => False
  | .create f => A < f.id
  | .append f _ => A < f.id
  | .fsync f => A < f.id

def MOut (A : Nat) (m : MergeSt) : Prop := A < m.mid ∧ ∀ c ∈ m.calls, OutputOnly A c

theorem mergeStart_mout (s : St) : MOut s.active (mergeStart s) := by
  refine ⟨by simp [mergeStart], ?_⟩
  intro c hc
  simp only [mergeStart, List.mem_cons, List.not_mem_nil, or_false] at hc
  rcases hc with rfl | rfl <;> simp [OutputOnly]

open Tr in
theorem mergeStep_mout (cfg : Cfg) (sel : List Nat) (A : Nat) (m : MergeSt) (k : Key) (h : MOut A m) :
    MOut A (mergeStep cfg sel m k) := by
  apply mergeStep_ind (MOut A) cfg sel m k
  · exact h
  · exact h
  · intro loc r _ _ _
    refine ⟨h.1, ?_⟩
    intro c hc
    simp only [moveNoRoll, moveCalls, List.mem_append, List.mem_cons, List.not_mem_nil, or_false] at hc
    rcases hc with hc | rfl | rfl
    · exact h.2 c hc
    · exact h.1
    · exact h.1
  · intro loc r _ _ _
    refine ⟨Nat.lt_succ_of_lt h.1, ?_⟩
    intro c hc
    simp only [moveRoll, moveCalls, List.mem_append, List.mem_cons, List.not_mem_nil, or_false] at hc
    rcases hc with (hc | rfl | rfl) | rfl | rfl | rfl | rfl
    · exact h.2 c hc
    · exact h.1
    · exact h.1
    · exact h.1
    · exact h.1
    · exact Nat.lt_succ_of_lt h.1
    · exact Nat.lt_succ_of_lt h.1

theorem mergeFold_mout (cfg : Cfg) (sel : List Nat) (A : Nat) (order : List Key) :
    ∀ (m : MergeSt), MOut A m → MOut A (order.foldl (mergeStep cfg sel) m) := by
  induction order with
  | nil => intro m h; exact h
  | cons k ks ih => intro m h; exact ih _ (mergeStep_mout cfg sel A m k h)

theorem unlinkFold_calls_sel (l : List Nat) : ∀ (st : St × List Call),
    ∃ post, (l.foldl unlinkOne st).2 = st.2 ++ post ∧
      ∀ x ∈ post, ∃ kd id, id ∈ l ∧ x = Call.unlink ⟨kd, id⟩ := by
  induction l with
  | nil => intro st; exact ⟨[], by simp, by simp⟩
  | cons id l ih =>
    intro st
    obtain ⟨post, e, hp⟩ := ih (unlinkOne st id)
    refine ⟨unlinkCalls st.1.disk id ++ post, by
      simp only [List.foldl_cons]; rw [e, unlinkOne_calls, List.append_assoc], ?_⟩
    intro x hx
    rcases List.mem_append.mp hx with hx | hx
    · unfold unlinkCalls at hx
      simp only [List.mem_append] at hx
      rcases hx with hx | hx <;> split at hx <;> simp at hx <;> subst hx
      · exact ⟨.hint, id, List.mem_cons_self, rfl⟩
      · exact ⟨.data, id, List.mem_cons_self, rfl⟩
    · obtain ⟨kd, i, hi, rfl⟩ := hp x hx
      exact ⟨kd, i, List.mem_cons_of_mem _ hi, rfl⟩

/-- **a merge pass writes only to new files above the active id and removes only selected
    files**; in particular it never removes a file it has written to -/
theorem mergeWith_targets (cfg : Cfg) (s : St) (sel : List Nat) (order : List Key) :
    ∀ c ∈ (mergeWith cfg s sel order).2,
      (∀ f p, c = Call.append f p → s.active < f.id) ∧ (∀ f, c = Call.unlink f → f.id ∈ sel) := by
  have hL : MOut s.active (mergeLoop cfg s sel order) := mergeFold_mout cfg sel _ order _ (mergeStart_mout s)
  rw [mergeWith_calls]
  obtain ⟨post, e, hp⟩ := unlinkFold_calls_sel sel ((mergeLoop cfg s sel order).s,
    (mergeLoop cfg s sel order).calls ++
      [Call.fsync ⟨.data, (mergeLoop cfg s sel order).mid⟩, Call.fsync ⟨.hint, (mergeLoop cfg s sel order).mid⟩])
  rw [e]
  intro c hc
  simp only [List.mem_append, List.mem_cons, List.not_mem_nil, or_false] at hc
  rcases hc with ((hc | rfl | rfl) | hc) | rfl
  · have := hL.2 c hc
    constructor
    · intro f p e; subst e; exact this
    · intro f e; subst e; exact this.elim
  · exact ⟨(by intro f p e; cases e), (by intro f e; cases e)⟩
  · exact ⟨(by intro f p e; cases e), (by intro f e; cases e)⟩
  · obtain ⟨kd, i, hi, rfl⟩ := hp c hc
    exact ⟨(by intro f p e; cases e), (by intro f e; cases e; exact hi)⟩
  · exact ⟨(by intro f p e; cases e), (by intro f e; cases e)⟩

/-! ### whole traces -/

theorem stepC_synced (cfg : Cfg) (h : cfg.syncAlways = true) (s : St) (op : Tr.TOp) :
    syncedB (Tr.stepC cfg s op).2 = true := by
  cases op with
  | put ts k v => exact write_synced cfg s _ h
  | del ts k => exact write_synced cfg s _ h
  | get k => rfl
  | merge sel order => exact mergeWith_synced cfg s sel order
  | reopen => rfl

theorem traceOf_synced (cfg : Cfg) (h : cfg.syncAlways = true) (ops : List Tr.TOp) :
    ∀ s, syncedB (Tr.traceOf cfg s ops) = true := by
  induction ops with
  | nil => intro s; rfl
  | cons op ops ih => intro s; exact synced_append (stepC_synced cfg h s op) (ih _)

end Store
