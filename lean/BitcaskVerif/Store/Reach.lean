/-
  States reachable from a fresh store by sets, deletes, merge passes (any selection of existing
  files, any KeyDir iteration order) and close/reopen cycles; the recovery invariant for them.
-/
import BitcaskVerif.Store.MergeRecovery
import BitcaskVerif.Store.ReachPD

namespace Store

/-- reachable by put / delete / merge / reopen, any configuration, any timestamps; the side
    conditions of a merge are those of `ValidFrom` (Props/C01) -/
inductive Reach (cfg : Cfg) : St → Prop
  | fresh : Reach cfg fresh
  | put {s : St} (ts : Int) (k : Key) (v : Val) : Reach cfg s → Reach cfg (put cfg s ts k v).1
  | delete {s : St} (ts : Int) (k : Key) : Reach cfg s → Reach cfg (delete cfg s ts k).1
  | merge {s : St} (sel : List Nat) (order : List Key) : Reach cfg s →
      (∀ id, id ∈ sel → id ≤ s.active) → Covers order s → Reach cfg (mergeWith cfg s sel order).1
  | reopen {s : St} : Reach cfg s → Reach cfg (reopen s).1

theorem ReachPD.toReach {cfg : Cfg} {s : St} (h : ReachPD cfg s) : Reach cfg s := by
  induction h with
  | fresh => exact .fresh
  | put ts k v _ ih => exact .put ts k v ih
  | delete ts k _ ih => exact .delete ts k ih
  | reopen _ ih => exact .reopen ih

/-- every reachable state satisfies the recovery invariant -/
theorem reach_rinv {cfg : Cfg} {s : St} (h : Reach cfg s) : RInv s := by
  induction h with
  | fresh => exact fresh_rinv.1
  | put ts k v _ ih => exact (put_rinv cfg _ ts k v ih).1
  | delete ts k _ ih => exact (delete_rinv cfg _ ts k ih).1
  | merge sel order _ hsel hcov ih => exact (mergeWith_rinv cfg _ sel order ih hsel hcov).1
  | reopen _ ih => exact (reopen_rinv ih).1

/-- the histories of C01 stay inside `Reach` -/
theorem reach_run (cfg : Cfg) (ops : List Op) : ∀ {s : St}, Reach cfg s → ValidFrom cfg s ops →
    Reach cfg (run cfg s ops).1 := by
  induction ops with
  | nil => intro s h _; exact h
  | cons op ops ih =>
    intro s h hv
    cases op with
    | put k v => exact ih (Reach.put 0 k v h) hv.2
    | del k => exact ih (Reach.delete 0 k h) hv.2
    | get k => exact ih h hv.2
    | merge sel order => exact ih (Reach.merge sel order h hv.1.1 hv.1.2) hv.2

/-- a decidable sufficient condition for `NoHazard`: every value record in an unselected file
    belongs to a key that is present in the index ("no deleted key has a value record in an
    unselected file") -/
def NoStaleValue (s : St) (sel : List Nat) : Prop :=
  ∀ e ∈ (allEvs s.disk.data).filter (fun e => decide (e.loc.fid ∉ sel)),
    e.tomb = false → (AL.get e.key s.keydir).isSome = true

instance (s : St) (sel : List Nat) : Decidable (NoStaleValue s sel) :=
  inferInstanceAs (Decidable (∀ e ∈ (allEvs s.disk.data).filter (fun e => decide (e.loc.fid ∉ sel)),
    e.tomb = false → (AL.get e.key s.keydir).isSome = true))

theorem noHazard_of_noStaleValue {s : St} {sel : List Nat} (h : NoStaleValue s sel) : NoHazard s sel := by
  intro k hk
  apply replay_none_of_all_tomb
  intro e he hek
  cases ht : e.tomb with
  | true => rfl
  | false =>
    have := h e he ht
    rw [hek, hk] at this
    cases this

/-- selecting every non-empty file is always hazard-free -/
theorem noHazard_of_all {s : St} {sel : List Nat}
    (h : ∀ fid rs, (fid, rs) ∈ s.disk.data → fid ∉ sel → rs = []) : NoHazard s sel := by
  intro k _
  apply replay_none_of_all_tomb
  intro e he _
  obtain ⟨hm, hq⟩ := List.mem_filter.mp he
  obtain ⟨fid, rs, h1, h2⟩ := mem_allEvs hm
  have hf := evData_fid h2
  simp only [decide_eq_true_eq] at hq
  rw [hf] at hq
  rw [h fid rs h1 hq] at h2
  simp [evData] at h2

/-- The hazard in the wording of the design: for a key whose deciding (last) record is a tombstone
    in a selected file, every record of that key in an unselected file is a tombstone too. -/
def NoShadowedTombstoneDropped (s : St) (sel : List Nat) : Prop :=
  ∀ k e, lastFor k (allEvs s.disk.data) = some e → e.tomb = true → e.loc.fid ∈ sel →
    ∀ e' ∈ allEvs s.disk.data, e'.key = k → e'.loc.fid ∉ sel → e'.tomb = true

/-- In a state whose index is exactly what a scan recovers (`Full`: no earlier merge has already
    dropped a shadowing tombstone), the design's wording implies `NoHazard`. -/
theorem noHazard_of_shadow {s : St} {sel : List Nat} (hf : Full s)
    (h : NoShadowedTombstoneDropped s sel) : NoHazard s sel := by
  intro k hk
  have hr := hf k hk
  rw [replay_eq] at hr
  cases hl : lastFor k (allEvs s.disk.data) with
  | none =>
    apply replay_none_of_all_tomb
    intro e he hek
    exact absurd hek ((lastFor_none.mp hl) e (List.mem_filter.mp he).1)
  | some e =>
    have ht : e.tomb = true := by
      cases ht : e.tomb with
      | true => rfl
      | false => simp [hl, evVal, ht] at hr
    by_cases hs : e.loc.fid ∈ sel
    · apply replay_none_of_all_tomb
      intro e' he' hek
      obtain ⟨hm, hq⟩ := List.mem_filter.mp he'
      simp only [decide_eq_true_eq] at hq
      exact h k e hl ht hs e' hm hek hq
    · rw [replay_eq, lastFor_filter_keep _ hl (by simpa using hs)]
      simp [evVal, ht]

/-! ### merge followed by a restart -/

/-- a key that is present before the merge reads the same after merge, close and reopen -/
theorem merge_restart_present (cfg : Cfg) (s : St) (sel : List Nat) (order : List Key) (hr : RInv s)
    (hsel : ∀ id, id ∈ sel → id ≤ s.active) (hcov : Covers order s) (k : Key) (hk : s.abs k ≠ none) :
    (reopen (mergeWith cfg s sel order).1).1.abs k = s.abs k := by
  obtain ⟨hm, _, _⟩ := mergeWith_rinv cfg s sel order hr hsel hcov
  have habs := (mergeWith_inv_abs cfg s sel order hr.inv hsel hcov).2
  rw [reopen_abs_key hm k, habs]
  intro hnone
  exact absurd (by rw [← habs]; exact abs_none_of_none hnone) hk

/-- merge + restart preserves every read exactly when the selection is hazard-free -/
theorem merge_restart_iff (cfg : Cfg) (s : St) (sel : List Nat) (order : List Key) (hr : RInv s)
    (hsel : ∀ id, id ∈ sel → id ≤ s.active) (hcov : Covers order s) :
    (reopen (mergeWith cfg s sel order).1).1.abs = s.abs ↔ NoHazard s sel := by
  obtain ⟨hm, _, c⟩ := mergeWith_rinv cfg s sel order hr hsel hcov
  have habs := (mergeWith_inv_abs cfg s sel order hr.inv hsel hcov).2
  constructor
  · intro he k hk
    obtain ⟨ro, _, hkd, _, _⟩ := reopen_rinv hm
    cases hg : replay ((allEvs s.disk.data).filter (fun e => decide (e.loc.fid ∉ sel))) k with
    | none => rfl
    | some loc =>
      exfalso
      have h1 : AL.get k (reopen (mergeWith cfg s sel order).1).1.keydir = some loc := by
        have := congrFun hkd k
        unfold kdF at this
        rw [this, c k hk, hg]
      obtain ⟨v, hv⟩ := get_of_locOk h1 (ro.inv.locs k loc h1)
      have h2 : (reopen (mergeWith cfg s sel order).1).1.abs k = some v := by
        unfold St.abs; rw [hv]
      rw [he, abs_none_of_none hk] at h2
      cases h2
  · intro hz
    rw [reopen_abs hm ((mergeWith_full_iff cfg s sel order hr hsel hcov).mpr hz)]
    exact habs

end Store
