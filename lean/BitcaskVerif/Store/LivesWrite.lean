/-
  Lives after a crash inside a merge, part 4: `put`, `delete`, `reopen` keep the lives invariant,
  and every crash cut of them leaves a directory with a clean visible part (`CJ`, `RecW`) that
  opens to a store that again satisfies it (`RecJ`).

  The operations never look at a stale merge output: run on the real directory and on its
  visible part they issue the same calls and reach the same index / counters (`put_withDisk`,
  `delete_withDisk`), so the crash-free theory applies to the visible part.
-/
import BitcaskVerif.Store.LivesEvents

namespace Store

/-! ### the operations on the store and on its visible part -/

theorem write_withDisk (cfg : Cfg) (s : St) (d1 : Disk) (r : Rec) (e : dataOf d1 s.active = dataOf s.disk s.active) :
    (write cfg { s with disk := d1 } r).1.keydir = (write cfg s r).1.keydir ∧
    (write cfg { s with disk := d1 } r).1.stats = (write cfg s r).1.stats ∧
    (write cfg { s with disk := d1 } r).1.active = (write cfg s r).1.active ∧
    (write cfg { s with disk := d1 } r).1.written = (write cfg s r).1.written ∧
    (write cfg { s with disk := d1 } r).1.bad = (write cfg s r).1.bad ∧
    (write cfg { s with disk := d1 } r).2.1 = (write cfg s r).2.1 ∧
    (write cfg { s with disk := d1 } r).2.2 = (write cfg s r).2.2 := by
  by_cases hroll : s.written + r.len > cfg.maxFile
  · rw [write_roll cfg s r hroll, write_roll cfg { s with disk := d1 } r hroll]
    simp only [e, and_self]
  · rw [write_noroll cfg s r hroll, write_noroll cfg { s with disk := d1 } r hroll]
    simp only [e, and_self]

theorem accountPrev_written (s : St) (p : Option Loc) : (accountPrev s p).written = s.written := by
  unfold accountPrev; cases p <;> rfl

theorem accountPrev_stats_congr {s s' : St} (p : Option Loc) (h : s.stats = s'.stats) :
    (accountPrev s p).stats = (accountPrev s' p).stats := by
  unfold accountPrev; cases p <;> simp only [h]

theorem accountPrev_bad_congr {s s' : St} (p : Option Loc) (h : s.stats = s'.stats) (hb : s.bad = s'.bad) :
    (accountPrev s p).bad = (accountPrev s' p).bad := by
  unfold accountPrev; cases p <;> simp only [h, hb]

/-- `put` on the visible part: same index, counters, calls -/
theorem put_withDisk (cfg : Cfg) (s : St) (d1 : Disk) (ts : Int) (k : Key) (v : Val)
    (e : dataOf d1 s.active = dataOf s.disk s.active) :
    ({ (put cfg s ts k v).1 with disk := (put cfg { s with disk := d1 } ts k v).1.disk } : St) =
      (put cfg { s with disk := d1 } ts k v).1 ∧
    (put cfg { s with disk := d1 } ts k v).2 = (put cfg s ts k v).2 := by
  obtain ⟨w1, w2, w3, w4, w5, w6, w7⟩ := write_withDisk cfg s d1 ⟨ts, k, some v⟩ e
  constructor
  · apply St.ext'
    · rfl
    · unfold put; simp only [accountPrev_keydir, w1, w6]
    · unfold put; simp only [w1, w6]
      exact accountPrev_stats_congr _ w2.symm
    · unfold put; simp only [accountPrev_active, w3]
    · unfold put; simp only [accountPrev_written, w4]
    · unfold put; simp only [w1, w6]
      exact accountPrev_bad_congr _ w2.symm w5.symm
  · unfold put; simp only [w7]

theorem delete_withDisk (cfg : Cfg) (s : St) (d1 : Disk) (ts : Int) (k : Key)
    (e : dataOf d1 s.active = dataOf s.disk s.active) :
    ({ (delete cfg s ts k).1 with disk := (delete cfg { s with disk := d1 } ts k).1.disk } : St) =
      (delete cfg { s with disk := d1 } ts k).1 ∧
    (delete cfg { s with disk := d1 } ts k).2.2 = (delete cfg s ts k).2.2 := by
  obtain ⟨w1, w2, w3, w4, w5, w6, w7⟩ := write_withDisk cfg s d1 ⟨ts, k, none⟩ e
  constructor
  · apply St.ext'
    · rfl
    · unfold delete; simp only [accountPrev_keydir, w1]
    · unfold delete; simp only [w1]
      exact accountPrev_stats_congr _ w2.symm
    · unfold delete; simp only [accountPrev_active, w3]
    · unfold delete; simp only [accountPrev_written, w4]
    · unfold delete; simp only [w1]
      exact accountPrev_bad_congr _ w2.symm w5.symm
  · unfold delete; simp only [w7]

/-! ### `Sim` under the directory updates of `write` -/

/-- a record appended to a file without hint file, in both directories -/
theorem Sim.appendData {d1 d : Disk} (h : Sim d1 d) {a : Nat} (hh : AL.get a d1.hint = none)
    (hex : (AL.get a d1.data).isSome) (r : Rec) :
    Sim { d1 with data := AL.set a (dataOf d1 a ++ [r]) d1.data }
        { d with data := AL.set a (dataOf d a ++ [r]) d.data } := by
  have hex' : (AL.get a d.data).isSome := by rw [h.data_isSome]; exact hex
  have hh' : AL.get a d.hint = none := h.hint_none.mpr hh
  refine ⟨?_, h.hkeys, h.tl, ?_⟩
  · show AL.keys (AL.set a _ d.data) = AL.keys (AL.set a _ d1.data)
    rw [Tr.keys_set_old _ _ _ hex, Tr.keys_set_old _ _ _ hex', h.keys]
  · intro fid
    by_cases e : fid = a
    · subst e
      have hd := (h.file fid).unh hh'
      refine ⟨?_, fun _ => ?_, ?_⟩
      · rw [dataOf_set_same, dataOf_set_same, hd]; exact List.prefix_refl _
      · rw [dataOf_set_same, dataOf_set_same, hd]
      · intro hs hg
        simp only at hg
        rw [hh'] at hg; cases hg
    · exact (h.file fid).congr (dataOf_set_other _ e _) (dataOf_set_other _ e _) rfl rfl rfl

/-- a longer invisible tail of a file without hint file, in both directories -/
theorem Sim.setTail {d1 d : Disk} (h : Sim d1 d) {a : Nat} (hh : AL.get a d1.hint = none) (n : Nat) :
    Sim { d1 with tails := AL.set a n d1.tails } { d with tails := AL.set a n d.tails } := by
  have hh' : AL.get a d.hint = none := h.hint_none.mpr hh
  refine ⟨h.keys, h.hkeys, by simp only [h.tl], ?_⟩
  intro fid
  by_cases e : fid = a
  · subst e
    refine ⟨(h.file fid).pre, (h.file fid).unh, ?_⟩
    intro hs hg
    simp only at hg
    rw [hh'] at hg; cases hg
  · exact (h.file fid).congr rfl rfl rfl rfl (AL.get_set_other e _ _)

theorem write_hint (cfg : Cfg) (s : St) (r : Rec) : (write cfg s r).1.disk.hint = s.disk.hint := by
  by_cases hroll : s.written + r.len > cfg.maxFile
  · rw [write_roll cfg s r hroll]
  · rw [write_noroll cfg s r hroll]

theorem write_tails (cfg : Cfg) (s : St) (r : Rec) : (write cfg s r).1.disk.tails = s.disk.tails := by
  by_cases hroll : s.written + r.len > cfg.maxFile
  · rw [write_roll cfg s r hroll]
  · rw [write_noroll cfg s r hroll]

theorem write_dataOf_lt (cfg : Cfg) (s : St) (r : Rec) {fid : Nat} (h : fid < s.active) :
    dataOf (write cfg s r).1.disk fid = dataOf s.disk fid := by
  by_cases hroll : s.written + r.len > cfg.maxFile
  · rw [write_roll cfg s r hroll]
    simp only [dataOf, AL.get_set_other (by omega : fid ≠ s.active + 1), AL.get_set_other (by omega : fid ≠ s.active)]
  · rw [write_noroll cfg s r hroll]
    simp only [dataOf, AL.get_set_other (by omega : fid ≠ s.active)]

/-- `write` on the store and on its visible part: the results are again in the relation -/
theorem write_sim (cfg : Cfg) {s : St} {d1 : Disk} (h : Sim d1 s.disk) (hi : Inv { s with disk := d1 })
    (hh : AL.get s.active d1.hint = none) (r : Rec) :
    Sim (write cfg { s with disk := d1 } r).1.disk (write cfg s r).1.disk := by
  have hex : (AL.get s.active d1.data).isSome := hi.act
  have hA := h.appendData hh hex r
  by_cases hroll : s.written + r.len > cfg.maxFile
  · rw [write_roll cfg s r hroll, write_roll cfg { s with disk := d1 } r hroll]
    have hb : s.active + 1 ∉ AL.keys (AL.set s.active (dataOf d1 s.active ++ [r]) d1.data) := by
      rw [Tr.keys_set_old _ _ _ hex]
      intro hc
      have := hi.ids _ hc
      simp only at this; omega
    have hhb : AL.get (s.active + 1) d1.hint = none := by
      cases hg : AL.get (s.active + 1) d1.hint with
      | none => rfl
      | some v => have := hi.hids _ (AL.mem_keys_of_get hg); simp only at this; omega
    exact hA.addData hb hhb
  · rw [write_noroll cfg s r hroll, write_noroll cfg { s with disk := d1 } r hroll]
    exact hA

/-! ### all events after `write` -/

theorem write_allEvs (cfg : Cfg) {s : St} (hi : Inv s) (ha : Asc s.disk.data) (r : Rec) :
    allEvs (write cfg s r).1.disk.data =
      allEvs s.disk.data ++ [mkEv s.active (fileSize (dataOf s.disk s.active)) r] := by
  have hmem : s.active ∈ AL.keys s.disk.data := by
    have := hi.act
    cases hg : AL.get s.active s.disk.data with
    | none => simp [hg] at this
    | some v => exact AL.mem_keys_of_get hg
  have hset : Asc (AL.set s.active (dataOf s.disk s.active ++ [r]) s.disk.data) := asc_set_mem ha hmem
  have hev : allEvs (AL.set s.active (dataOf s.disk s.active ++ [r]) s.disk.data) =
      allEvs s.disk.data ++ [mkEv s.active (fileSize (dataOf s.disk s.active)) r] :=
    allEvs_set_max ha hi.ids hi.act r
  by_cases hroll : s.written + r.len > cfg.maxFile
  · rw [write_roll cfg s r hroll]
    simp only
    have hlt : ∀ id ∈ AL.keys (AL.set s.active (dataOf s.disk s.active ++ [r]) s.disk.data), id < s.active + 1 := by
      intro id hid
      rcases mem_keys_set hid with e | e
      · omega
      · have := hi.ids id e; omega
    rw [allEvs_set_new hset hlt, hev]
  · rw [write_noroll cfg s r hroll]
    exact hev

theorem write_asc (cfg : Cfg) {s : St} (hi : Inv s) (ha : Asc s.disk.data) (r : Rec) :
    Asc (write cfg s r).1.disk.data := by
  have hmem : s.active ∈ AL.keys s.disk.data := by
    have := hi.act
    cases hg : AL.get s.active s.disk.data with
    | none => simp [hg] at this
    | some v => exact AL.mem_keys_of_get hg
  have hset : Asc (AL.set s.active (dataOf s.disk s.active ++ [r]) s.disk.data) := asc_set_mem ha hmem
  by_cases hroll : s.written + r.len > cfg.maxFile
  · rw [write_roll cfg s r hroll]
    simp only
    refine (asc_set_new hset ?_).2
    intro id hid
    rcases mem_keys_set hid with e | e
    · omega
    · have := hi.ids id e; omega
  · rw [write_noroll cfg s r hroll]
    exact hset

/-- `put` keeps "nothing absent is resurrectable" (all records) -/
theorem put_fullA (cfg : Cfg) {s : St} (hi : Inv s) (ha : Asc s.disk.data) (hf : Full s) (ts : Int) (k : Key)
    (v : Val) : Full (put cfg s ts k v).1 := by
  have e2 := write_allEvs cfg hi ha ⟨ts, k, some v⟩
  have hkd := (write_spec cfg s { ts := ts, key := k, val := some v } hi).2.2.2.1
  intro k' hk'
  rw [put_disk, e2]
  rw [put_keydir, AL.get_set, hkd] at hk'
  by_cases hkk : k' = k
  · simp [hkk] at hk'
  · simp only [hkk, ↓reduceIte] at hk'
    rw [replay_snoc_other _ _ (by simp only [mkEv]; exact fun e => hkk e.symm)]
    exact hf k' hk'

theorem delete_fullA (cfg : Cfg) {s : St} (hi : Inv s) (ha : Asc s.disk.data) (hf : Full s) (ts : Int) (k : Key) :
    Full (delete cfg s ts k).1 := by
  have e2 := write_allEvs cfg hi ha ⟨ts, k, none⟩
  have hkd := (write_spec cfg s { ts := ts, key := k, val := none } hi).2.2.2.1
  intro k' hk'
  rw [delete_disk, e2]
  rw [delete_keydir, AL.get_del, hkd] at hk'
  by_cases hkk : k' = k
  · subst hkk
    have := replay_snoc_same (allEvs s.disk.data)
      (mkEv s.active (fileSize (dataOf s.disk s.active)) { ts := ts, key := k', val := none })
    simp only [mkEv, Option.isNone_none, ↓reduceIte] at this ⊢
    exact this
  · simp only [hkk, ↓reduceIte] at hk'
    rw [replay_snoc_other _ _ (by simp only [mkEv]; exact fun e => hkk e.symm)]
    exact hf k' hk'

/-! ### the invisible records under changes of the directory and of the index -/

/-- an invisible record sits in a file with a hint file -/
theorem Sim.junk_hinted {d1 d : Disk} (h : Sim d1 d) {fid p : Nat} {j : Rec}
    (h1 : recAt (dataOf d fid) p = some j) (h2 : fileSize (dataOf d1 fid) ≤ p) :
    (AL.get fid d.hint).isSome := by
  cases hg : AL.get fid d.hint with
  | some v => rfl
  | none =>
    have := (h.file fid).unh hg
    rw [this] at h1
    have := recAt_lt h1
    omega

/-- ... hence below the active file -/
theorem Sim.junk_lt {d1 d : Disk} (h : Sim d1 d) {a : Nat} (hids : ∀ id ∈ AL.keys d.hint, id ≤ a)
    (hact : AL.get a d.hint = none) {fid p : Nat} {j : Rec}
    (h1 : recAt (dataOf d fid) p = some j) (h2 : fileSize (dataOf d1 fid) ≤ p) : fid < a := by
  have hs := h.junk_hinted h1 h2
  cases hg : AL.get fid d.hint with
  | none => simp [hg] at hs
  | some v =>
    have hle := hids fid (AL.mem_keys_of_get hg)
    have hne : fid ≠ a := fun e => by rw [e, hact] at hg; cases hg
    omega

/-- `JunkOK` is kept when the invisible records stay the same, the records the index addresses
    are kept, and index entries that lie before an invisible record are old entries -/
theorem JunkOK.mono {d1 d d1' d' : Disk} {f f' : IdxF} (h : JunkOK d1 d f)
    (hjunk : ∀ fid p j, recAt (dataOf d' fid) p = some j → fileSize (dataOf d1' fid) ≤ p →
      recAt (dataOf d fid) p = some j ∧ fileSize (dataOf d1 fid) ≤ p)
    (hkeep : ∀ key loc j, f' key = some loc → recAt (dataOf d loc.fid) loc.pos = some j →
      recAt (dataOf d' loc.fid) loc.pos = some j)
    (hf : ∀ fid p j key loc, recAt (dataOf d' fid) p = some j → fileSize (dataOf d1' fid) ≤ p →
      f' key = some loc → lexlt loc fid p → f key = some loc) : JunkOK d1' d' f' := by
  intro fid p j h1 h2
  obtain ⟨o1, o2⟩ := hjunk fid p j h1 h2
  obtain ⟨a1, a2⟩ := h fid p j o1 o2
  exact ⟨a1, fun loc hl hlt => hkeep _ loc j hl (a2 loc (hf fid p j _ loc h1 h2 hl hlt) hlt)⟩

/-! ### `put`, `delete` keep the lives invariant -/

theorem LJw.active_data {s : St} {d1 : Disk} (h : LJw s d1) : dataOf d1 s.active = dataOf s.disk s.active :=
  ((h.sim.file s.active).unh (h.sim.hint_none.mpr h.rinv.acth)).symm

theorem LJw.junk_lt {s : St} {d1 : Disk} (h : LJw s d1) {fid p : Nat} {j : Rec}
    (h1 : recAt (dataOf s.disk fid) p = some j) (h2 : fileSize (dataOf d1 fid) ≤ p) : fid < s.active :=
  h.sim.junk_lt h.inv.hids (h.sim.hint_none.mpr h.rinv.acth) h1 h2

/-- the invisible records after `write` are the invisible records before -/
theorem write_junk (cfg : Cfg) {s : St} {d1 : Disk} (h : LJw s d1) (r : Rec) {fid p : Nat} {j : Rec}
    (h1 : recAt (dataOf (write cfg s r).1.disk fid) p = some j)
    (h2 : fileSize (dataOf (write cfg { s with disk := d1 } r).1.disk fid) ≤ p) :
    fid < s.active ∧ recAt (dataOf s.disk fid) p = some j ∧ fileSize (dataOf d1 fid) ≤ p := by
  have hsim := write_sim cfg h.sim h.rinv.inv h.rinv.acth r
  have hlt : fid < s.active := by
    have hs := hsim.junk_hinted h1 h2
    rw [write_hint] at hs
    cases hg : AL.get fid s.disk.hint with
    | none => simp [hg] at hs
    | some v =>
      have hle := h.inv.hids fid (AL.mem_keys_of_get hg)
      have hne : fid ≠ s.active := fun e => by
        rw [e, h.sim.hint_none.mpr h.rinv.acth] at hg; cases hg
      omega
  rw [write_dataOf_lt cfg s r hlt] at h1
  have := write_dataOf_lt cfg { s with disk := d1 } r (fid := fid) hlt
  rw [this] at h2
  exact ⟨hlt, h1, h2⟩

theorem put_lj (cfg : Cfg) {s : St} {d1 : Disk} (h : LJw s d1) (ts : Int) (k : Key) (v : Val) :
    LJw (put cfg s ts k v).1 (put cfg { s with disk := d1 } ts k v).1.disk := by
  obtain ⟨e1, _⟩ := put_withDisk cfg s d1 ts k v h.active_data
  obtain ⟨p1, p2⟩ := put_rinv cfg { s with disk := d1 } ts k v h.rinv
  have hi := h.inv
  have hw := write_spec cfg s { ts := ts, key := k, val := some v } hi
  constructor
  · rw [e1]; exact p1
  · rw [e1]; exact p2 h.full1
  · rw [put_disk, put_disk]
    exact write_sim cfg h.sim h.rinv.inv h.rinv.acth _
  · rw [put_disk, put_disk]
    refine h.junk.mono ?_ ?_ ?_
    · intro fid p j h1 h2
      exact (write_junk cfg h _ h1 h2).2
    · intro key loc j _ hr
      have hex := recAt_some_isSome hr
      have hle : loc.fid ≤ s.active := by
        cases hg : AL.get loc.fid s.disk.data with
        | none => simp [hg] at hex
        | some w => exact hi.ids _ (AL.mem_keys_of_get hg)
      exact (write_preserves_recs cfg s _ loc.fid loc.pos j hr hex hle).1
    · intro fid p j key loc h1 h2 hl hlt
      have hfid := (write_junk cfg h _ h1 h2).1
      unfold kdF at hl ⊢
      rw [put_keydir, AL.get_set, hw.2.2.2.1] at hl
      by_cases hkk : key = k
      · simp only [hkk, ↓reduceIte, Option.some.injEq] at hl
        have : loc.fid = s.active := by rw [← hl]; exact hw.1
        unfold lexlt at hlt
        omega
      · simp only [hkk, ↓reduceIte] at hl
        exact hl
  · exact put_fullA cfg hi h.asc h.fullA ts k v

theorem delete_lj (cfg : Cfg) {s : St} {d1 : Disk} (h : LJw s d1) (ts : Int) (k : Key) :
    LJw (delete cfg s ts k).1 (delete cfg { s with disk := d1 } ts k).1.disk := by
  obtain ⟨e1, _⟩ := delete_withDisk cfg s d1 ts k h.active_data
  obtain ⟨p1, p2⟩ := delete_rinv cfg { s with disk := d1 } ts k h.rinv
  have hi := h.inv
  have hw := write_spec cfg s { ts := ts, key := k, val := none } hi
  constructor
  · rw [e1]; exact p1
  · rw [e1]; exact p2 h.full1
  · rw [delete_disk, delete_disk]
    exact write_sim cfg h.sim h.rinv.inv h.rinv.acth _
  · rw [delete_disk, delete_disk]
    refine h.junk.mono ?_ ?_ ?_
    · intro fid p j h1 h2
      exact (write_junk cfg h _ h1 h2).2
    · intro key loc j _ hr
      have hex := recAt_some_isSome hr
      have hle : loc.fid ≤ s.active := by
        cases hg : AL.get loc.fid s.disk.data with
        | none => simp [hg] at hex
        | some w => exact hi.ids _ (AL.mem_keys_of_get hg)
      exact (write_preserves_recs cfg s _ loc.fid loc.pos j hr hex hle).1
    · intro fid p j key loc _ _ hl _
      unfold kdF at hl ⊢
      rw [delete_keydir, AL.get_del, hw.2.2.2.1] at hl
      by_cases hkk : key = k
      · simp [hkk] at hl
      · simp only [hkk, ↓reduceIte] at hl
        exact hl
  · exact delete_fullA cfg hi h.asc h.fullA ts k

/-! ### recovery -/

/-- the outcome of a crash: the reopened store satisfies the lives invariant and reads as `m` -/
def RecJ (d : Disk) (m : Map) : Prop := LJ (openDisk d).1 ∧ (openDisk d).1.abs = m

theorem RecJ.inv {d : Disk} {m : Map} (h : RecJ d m) : Inv (openDisk d).1 := h.1.inv

theorem Wit.open_disk {d1 d : Disk} {a : Nat} (h : Wit d1 d a) :
    (openDisk d).1.disk = { d with data := AL.set (a + 1) [] d.data } := by
  have hact : (rebuild d).2 = a + 1 := by
    rw [h.sim.rebuild h.hx]; exact rebuild_act_max h.asc h.mem h.max
  rw [openDisk_disk, hact]

/-! ### directories with a clean visible part -/

/-- the (real) directory `DB` has the clean visible part `dB`, from which the scan recovers the
    index `kd` reading as `m`; the invisible records of `DB` are harmless -/
structure CJ (dB DB : Disk) (kd : List (Key × Loc)) (a : Nat) (m : Map) : Prop where
  clean : Clean dB kd a
  abs : absOf dB kd = m
  sim : Sim dB DB
  junk : JunkOK dB DB (kdF kd)
  fullA : FullAll DB (kdF kd)

theorem CJ.wit {dB DB : Disk} {kd : List (Key × Loc)} {a : Nat} {m : Map} (h : CJ dB DB kd a m) : Wit dB DB a :=
  ⟨h.clean.asc, h.clean.hx, h.clean.mem, h.clean.max, h.clean.hmax, h.sim⟩

/-- **such a directory opens to a store satisfying the lives invariant, reading as `m`** -/
theorem CJ.recJ {dB DB : Disk} {kd : List (Key × Loc)} {a : Nat} {m : Map} (h : CJ dB DB kd a m) : RecJ DB m := by
  have hj : JunkOK dB DB (replay (allEvs dB.data)) := by rw [← h.clean.kd]; exact h.junk
  have hf : FullAll DB (replay (allEvs dB.data)) := by rw [← h.clean.kd]; exact h.fullA
  obtain ⟨o1, o2, _⟩ := h.wit.open hj hf
  refine ⟨⟨_, o1⟩, ?_⟩
  rw [o2, h.clean.open.2.2.1, h.abs]

theorem CJ.asc {dB DB : Disk} {kd : List (Key × Loc)} {a : Nat} {m : Map} (h : CJ dB DB kd a m) : Asc DB.data :=
  h.wit.asc'

theorem CJ.lt {dB DB : Disk} {kd : List (Key × Loc)} {a : Nat} {m : Map} (h : CJ dB DB kd a m) {b : Nat} (hb : a < b) :
    ∀ id ∈ AL.keys DB.data, id < b := by
  intro id hid
  rw [h.sim.keys] at hid
  have := h.clean.max id hid; omega

/-- the outcome of a crash with the visible part exhibited (`RecJ` follows, `RecW.recJ`) -/
def RecW (D : Disk) (m : Map) : Prop := ∃ dB kd a, CJ dB D kd a m

theorem RecW.recJ {D : Disk} {m : Map} (h : RecW D m) : RecJ D m :=
  let ⟨_, _, _, cj⟩ := h; cj.recJ

theorem CJ.recW {dB DB : Disk} {kd : List (Key × Loc)} {a : Nat} {m : Map} (h : CJ dB DB kd a m) : RecW DB m :=
  ⟨_, _, _, h⟩

/-- the directory of a store satisfying the lives invariant -/
theorem LJw.wit {s : St} {d1 : Disk} (h : LJw s d1) : Wit d1 s.disk s.active :=
  ⟨h.rinv.asc, h.rinv.hx, h.rinv.active_mem, h.rinv.inv.ids, h.rinv.inv.hids, h.sim⟩

theorem LJw.kd_eq {s : St} {d1 : Disk} (h : LJw s d1) : kdF s.keydir = replay (allEvs d1.data) :=
  h.rinv.kd_eq h.full1

theorem LJw.cj {s : St} {d1 : Disk} (h : LJw s d1) : CJ d1 s.disk s.keydir s.active s.abs :=
  ⟨clean_of_rinv h.rinv h.full1, h.abs, h.sim, h.junk, h.fullA⟩

theorem LJw.recW {s : St} {d1 : Disk} (h : LJw s d1) : RecW s.disk s.abs := h.cj.recW

theorem LJw.recovers {s : St} {d1 : Disk} (h : LJw s d1) : RecJ s.disk s.abs := h.cj.recJ

theorem LJ.recovers {s : St} (h : LJ s) : RecJ s.disk s.abs := let ⟨_, w⟩ := h; w.recovers

theorem LJ.recW {s : St} (h : LJ s) : RecW s.disk s.abs := let ⟨_, w⟩ := h; w.recW

/-- `reopen` keeps the lives invariant and the contents -/
theorem reopen_lj {s : St} (h : LJ s) : LJ (reopen s).1 ∧ (reopen s).1.abs = s.abs := h.recovers

/-- a longer invisible tail of the active file changes nothing -/
theorem LJw.setTail {s : St} {d1 : Disk} (h : LJw s d1) (n : Nat) :
    LJw { s with disk := { s.disk with tails := AL.set s.active n s.disk.tails } }
      { d1 with tails := AL.set s.active n d1.tails } :=
  ⟨⟨⟨h.rinv.inv.locs, h.rinv.inv.ids, h.rinv.inv.hids, h.rinv.inv.act⟩, h.rinv.asc, h.rinv.wkd, h.rinv.hx,
      h.rinv.acth⟩,
    h.full1, h.sim.setTail h.rinv.acth n, h.junk, h.fullA⟩

/-- every cut of `write` leaves: the old directory, the old directory with a longer tail of the
    active file, the directory with the record appended, or the final directory -/
theorem write_cut_cases' (cfg : Cfg) (s : St) (r : Rec) {c : List Call} (hc : Cut (write cfg s r).2.2 c) :
    applyCalls s.disk c = s.disk ∨
    (∃ n, applyCalls s.disk c = { s.disk with tails := AL.set s.active n s.disk.tails }) ∨
    applyCalls s.disk c = Tr.appendDisk s r ∨
    applyCalls s.disk c = (write cfg s r).1.disk := by
  have hfin := write_frame cfg s r
  rw [Tr.write_calls] at hc hfin
  have hA : applyCalls s.disk [Call.append ⟨.data, s.active⟩ (.ofRec r)] = Tr.appendDisk s r := rfl
  have hAF : applyCalls s.disk ([Call.append ⟨.data, s.active⟩ (.ofRec r)] ++
      (if cfg.syncAlways then [Call.fsync ⟨.data, s.active⟩] else [])) = Tr.appendDisk s r := by
    cases cfg.syncAlways <;> rfl
  rcases cut_append hc with h1 | ⟨c', rfl, h2⟩
  · rcases cut_append h1 with h3 | ⟨c', rfl, h4⟩
    · rcases cut_cons h3 with rfl | ⟨y, ⟨f, p, bs, e, _, rfl⟩, rfl⟩ | ⟨c', rfl, h5⟩
      · exact .inl rfl
      · simp only [Call.append.injEq] at e
        obtain ⟨rfl, _⟩ := e
        exact .inr (.inl ⟨_, rfl⟩)
      · rw [cut_nil h5]; exact .inr (.inr (.inl hA))
    · right; right; left
      cases hs : cfg.syncAlways with
      | false => simp only [hs, Bool.false_eq_true, ↓reduceIte] at h4; rw [cut_nil h4]; exact hA
      | true =>
        simp only [hs, ↓reduceIte] at h4
        rcases cut_single_noappend (by intro f p; simp) h4 with rfl | rfl
        · exact hA
        · rfl
  · by_cases hroll : s.written + r.len > cfg.maxFile
    · simp only [hroll, ↓reduceIte] at h2 hfin
      rcases cut_single_noappend (by intro f p; simp) h2 with rfl | rfl
      · right; right; left; rw [List.append_nil]; exact hAF
      · right; right; right; exact hfin
    · simp only [hroll, ↓reduceIte] at h2
      rw [cut_nil h2]
      right; right; left; rw [List.append_nil]; exact hAF

/-- **crash during `put`** in a store satisfying the lives invariant -/
theorem put_cut_recW (cfg : Cfg) {s : St} (h : LJ s) (ts : Int) (k : Key) (v : Val)
    {c : List Call} (hc : Cut (put cfg s ts k v).2 c) :
    RecW (applyCalls s.disk c) s.abs ∨ RecW (applyCalls s.disk c) (s.abs.set k v) := by
  obtain ⟨d1, w⟩ := h
  rw [Tr.put_calls] at hc
  rcases write_cut_cases' cfg s _ hc with e | ⟨n, e⟩ | e | e
  · rw [e]; exact .inl w.recW
  · rw [e]; exact .inl (w.setTail n).recW
  · right
    rw [e, ← write_noRollCfg cfg, ← put_disk, ← put_abs (noRollCfg cfg s _) s ts k v w.inv]
    exact (put_lj _ w ts k v).recW
  · right
    rw [e, ← put_disk, ← put_abs cfg s ts k v w.inv]
    exact (put_lj _ w ts k v).recW

/-- **crash during `delete`** -/
theorem delete_cut_recW (cfg : Cfg) {s : St} (h : LJ s) (ts : Int) (k : Key)
    {c : List Call} (hc : Cut (delete cfg s ts k).2.2 c) :
    RecW (applyCalls s.disk c) s.abs ∨ RecW (applyCalls s.disk c) (s.abs.del k) := by
  obtain ⟨d1, w⟩ := h
  rw [Tr.delete_calls] at hc
  rcases write_cut_cases' cfg s _ hc with e | ⟨n, e⟩ | e | e
  · rw [e]; exact .inl w.recW
  · rw [e]; exact .inl (w.setTail n).recW
  · right
    rw [e, ← write_noRollCfg cfg, ← delete_disk, ← (delete_abs (noRollCfg cfg s _) s ts k w.inv).1]
    exact (delete_lj _ w ts k).recW
  · right
    rw [e, ← delete_disk, ← (delete_abs cfg s ts k w.inv).1]
    exact (delete_lj _ w ts k).recW

/-- **crash during `reopen`** (recovery itself) -/
theorem reopen_cut_recW {s : St} (h : LJ s) {c : List Call} (hc : Cut (reopen s).2 c) :
    RecW (applyCalls s.disk c) s.abs := by
  rcases cut_single_noappend (by intro f p; simp) hc with rfl | rfl
  · exact h.recW
  · show RecW (reopen s).1.disk s.abs
    obtain ⟨a, b⟩ := reopen_lj h
    rw [← b]
    exact a.recW

end Store
