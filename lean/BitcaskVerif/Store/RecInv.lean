/-
  The recovery invariant `RInv` of the running store (on top of `Inv`): file ids ascending,
  every KeyDir entry is what the startup scan would recover for its key, hint files exact, the
  active file un-hinted.  `Full s` says in addition that keys absent from the KeyDir are absent
  for the scan as well; together they give `reopen` = identity on what every key reads.

  This file: consequences for `openDisk` / `reopen`, preservation by `put` and `delete`.
  (`mergeWith` is in `Store/MergeRecovery.lean`.)
-/
import BitcaskVerif.Store.Recovery

namespace Store

structure RInv (s : St) : Prop where
  inv : Inv s
  /-- data-file ids are listed in strictly ascending order -/
  asc : Asc s.disk.data
  /-- every index entry is the one the startup scan recovers for its key -/
  wkd : ∀ k loc, AL.get k s.keydir = some loc → replay (allEvs s.disk.data) k = some loc
  /-- hint files list exactly the records of their data files -/
  hx : HintsExact s.disk
  /-- the file being appended to has no hint file -/
  acth : AL.get s.active s.disk.hint = none

/-- keys absent from the index are absent for the startup scan too (false after a merge that
    dropped a tombstone shadowing an older value: defect D3) -/
def Full (s : St) : Prop := ∀ k, AL.get k s.keydir = none → replay (allEvs s.disk.data) k = none

theorem RInv.kd_eq {s : St} (h : RInv s) (hf : Full s) : kdF s.keydir = replay (allEvs s.disk.data) := by
  funext k
  unfold kdF
  cases hg : AL.get k s.keydir with
  | none => exact (hf k hg).symm
  | some loc => exact (h.wkd k loc hg).symm

theorem RInv.active_mem {s : St} (h : RInv s) : s.active ∈ AL.keys s.disk.data := by
  have := h.inv.act
  cases hg : AL.get s.active s.disk.data with
  | none => simp [hg] at this
  | some v => exact AL.mem_keys_of_get hg

/-! ### what a recovered entry addresses -/

/-- an entry recovered by the scan addresses a value record of its key, with the recorded
    length and timestamp -/
theorem locOk_of_replay {d : Disk} (ha : Asc d.data) {k : Key} {loc : Loc}
    (h : replay (allEvs d.data) k = some loc) :
    ∃ r, recAt (dataOf d loc.fid) loc.pos = some r ∧ r.key = k ∧ r.val.isSome ∧ r.len = loc.len ∧
      r.ts = loc.ts ∧ (AL.get loc.fid d.data).isSome := by
  obtain ⟨fid, rs, hm, he⟩ := mem_allEvs (replay_some_mem h)
  obtain ⟨r, q, h1, h2, _⟩ := mem_evData he
  have hg := get_of_mem_asc ha hm
  have hk : k = r.key := congrArg Ev.key h2
  have hl : loc = ⟨fid, 0 + q, r.len, r.ts⟩ := congrArg Ev.loc h2
  have ht : false = r.val.isNone := congrArg Ev.tomb h2
  subst hl
  refine ⟨r, ?_, hk.symm, ?_, rfl, rfl, ?_⟩
  · simp only [dataOf, hg, Option.getD_some, Nat.zero_add]; exact h1
  · cases hv : r.val with
    | none => simp [hv] at ht
    | some v => rfl
  · simp [hg]

theorem locOk_of_replay' {d : Disk} (ha : Asc d.data) {k : Key} {loc : Loc}
    (h : replay (allEvs d.data) k = some loc) : LocOk d k loc := by
  obtain ⟨r, h1, h2, h3, h4, _, h6⟩ := locOk_of_replay ha h
  exact ⟨r, h1, h2, h3, h4, h6⟩

/-- the record an index entry addresses carries the entry's timestamp -/
theorem RInv.ts_eq {s : St} (h : RInv s) {k : Key} {loc : Loc} (hk : AL.get k s.keydir = some loc)
    {r : Rec} (hr : recAt (dataOf s.disk loc.fid) loc.pos = some r) : r.ts = loc.ts := by
  obtain ⟨r', h1, _, _, _, h5, _⟩ := locOk_of_replay h.asc (h.wkd k loc hk)
  rw [hr] at h1
  cases h1; exact h5

/-! ### `openDisk` -/

theorem openDisk_keydir (d : Disk) : (openDisk d).1.keydir = (rebuild d).1.keydir := rfl
theorem openDisk_active (d : Disk) : (openDisk d).1.active = (rebuild d).2 := rfl
theorem openDisk_disk (d : Disk) :
    (openDisk d).1.disk = { d with data := AL.set (rebuild d).2 [] d.data } := rfl

theorem rebuild_act_max {d : Disk} (ha : Asc d.data) {a : Nat} (hm : a ∈ AL.keys d.data)
    (hmax : ∀ id ∈ AL.keys d.data, id ≤ a) : (rebuild d).2 = a + 1 := by
  rw [rebuild_act ha, getLast_of_max ha hm hmax]

theorem allEvs_set_new {l : List (Nat × List Rec)} (ha : Asc l) {a : Nat}
    (hmax : ∀ id ∈ AL.keys l, id < a) : allEvs (AL.set a [] l) = allEvs l := by
  rw [(asc_set_new ha hmax).1, allEvs_append]
  simp [allEvs, evData]

theorem dataOf_set_other' (d : Disk) {fid fid' : Nat} (h : fid' ≠ fid) (rs : List Rec)
    (hint : List (Nat × List Hint)) (tails : List (Nat × Nat)) :
    dataOf { data := AL.set fid rs d.data, hint := hint, tails := tails } fid' = dataOf d fid' := by
  simp [dataOf, AL.get_set_other h]

/-- opening a directory whose ids are ascending with largest id `a`, whose hint files are exact
    and not above `a`: the result satisfies the recovery invariant, its index is the replay of
    the directory, nothing absent is resurrectable -/
theorem openDisk_rinv {d : Disk} (ha : Asc d.data) (hh : HintsExact d) {a : Nat}
    (hm : a ∈ AL.keys d.data) (hmax : ∀ id ∈ AL.keys d.data, id ≤ a)
    (hhid : ∀ id ∈ AL.keys d.hint, id ≤ a) :
    RInv (openDisk d).1 ∧ Full (openDisk d).1 ∧ kdF (openDisk d).1.keydir = replay (allEvs d.data) ∧
      (openDisk d).1.active = a + 1 ∧
      (openDisk d).1.disk = { d with data := AL.set (a + 1) [] d.data } := by
  have hact := rebuild_act_max ha hm hmax
  have hkd : kdF (openDisk d).1.keydir = replay (allEvs d.data) := by
    rw [openDisk_keydir]; exact rebuild_keydir ha hh
  have hdisk : (openDisk d).1.disk = { d with data := AL.set (a + 1) [] d.data } := by
    rw [openDisk_disk, hact]
  have hA : (openDisk d).1.active = a + 1 := by rw [openDisk_active, hact]
  have hlt : ∀ id ∈ AL.keys d.data, id < a + 1 := fun id hid => by have := hmax id hid; omega
  have hevs : allEvs (openDisk d).1.disk.data = allEvs d.data := by
    rw [hdisk]; exact allEvs_set_new ha hlt
  have hK : Keeps a d { d with data := AL.set (a + 1) [] d.data } := keeps_create _ _ _ (by omega) _ _
  refine ⟨?_, ?_, hkd, hA, hdisk⟩
  · constructor
    · constructor
      · intro k loc hk
        have hr : replay (allEvs d.data) k = some loc := by rw [← hkd]; exact hk
        have hl := locOk_of_replay' ha hr
        rw [hdisk]
        refine hl.keeps ?_ hK
        obtain ⟨_, _, _, _, _, hex⟩ := hl
        cases hg : AL.get loc.fid d.data with
        | none => simp [hg] at hex
        | some v => exact hmax _ (AL.mem_keys_of_get hg)
      · intro id hid
        rw [hdisk] at hid; rw [hA]
        rcases mem_keys_set hid with e | e
        · omega
        · have := hmax id e; omega
      · intro id hid
        rw [hdisk] at hid; rw [hA]
        have := hhid id hid; omega
      · rw [hdisk, hA]; simp [AL.get_set_same]
    · rw [hdisk]; exact (asc_set_new ha hlt).2
    · intro k loc hk
      rw [hevs, ← hkd]; exact hk
    · rw [hdisk]
      intro fid hs hg
      have hle : fid ≤ a := hhid fid (AL.mem_keys_of_get hg)
      rw [dataOf_set_other' d (by omega : fid ≠ a + 1)]
      exact hh fid hs hg
    · rw [hdisk, hA]
      cases hg : AL.get (a + 1) d.hint with
      | none => rfl
      | some v => have := hhid _ (AL.mem_keys_of_get hg); omega
  · intro k hk
    rw [hevs, ← hkd]; exact hk

/-- `reopen` of a state satisfying the recovery invariant -/
theorem reopen_rinv {s : St} (h : RInv s) :
    RInv (reopen s).1 ∧ Full (reopen s).1 ∧ kdF (reopen s).1.keydir = replay (allEvs s.disk.data) ∧
      (reopen s).1.active = s.active + 1 ∧
      (reopen s).1.disk = { s.disk with data := AL.set (s.active + 1) [] s.disk.data } :=
  openDisk_rinv h.asc h.hx h.active_mem h.inv.ids h.inv.hids

/-- a key present in the index reads the same after a reopen; so does an absent key that the
    scan does not resurrect -/
theorem reopen_abs_key {s : St} (h : RInv s) (k : Key)
    (hk : AL.get k s.keydir = none → replay (allEvs s.disk.data) k = none) :
    (reopen s).1.abs k = s.abs k := by
  obtain ⟨_, _, hkd, _, hdisk⟩ := reopen_rinv h
  apply abs_keeps (b := s.active)
  · intro l hl; have := h.inv.locs k l hl; exact ⟨this, LocOk.fid_le h.inv this⟩
  · have := congrFun hkd k
    unfold kdF at this
    rw [this]
    cases hg : AL.get k s.keydir with
    | none => exact hk hg
    | some loc => exact h.wkd k loc hg
  · rw [hdisk]; exact keeps_create _ _ _ (by omega) _ _

/-- **reopen changes nothing** when nothing absent is resurrectable -/
theorem reopen_abs {s : St} (h : RInv s) (hf : Full s) : (reopen s).1.abs = s.abs := by
  funext k; exact reopen_abs_key h k (hf k)

/-! ### `write`, `put`, `delete` -/

theorem write_events (cfg : Cfg) (s : St) (r : Rec) (h : RInv s) :
    Asc (write cfg s r).1.disk.data ∧
    allEvs (write cfg s r).1.disk.data =
      allEvs s.disk.data ++ [mkEv s.active (fileSize (dataOf s.disk s.active)) r] ∧
    (write cfg s r).2.1 = ⟨s.active, fileSize (dataOf s.disk s.active), r.len, r.ts⟩ ∧
    HintsExact (write cfg s r).1.disk ∧
    AL.get (write cfg s r).1.active (write cfg s r).1.disk.hint = none := by
  have hset : Asc (AL.set s.active (dataOf s.disk s.active ++ [r]) s.disk.data) :=
    asc_set_mem h.asc h.active_mem
  have hev : allEvs (AL.set s.active (dataOf s.disk s.active ++ [r]) s.disk.data) =
      allEvs s.disk.data ++ [mkEv s.active (fileSize (dataOf s.disk s.active)) r] :=
    allEvs_set_max h.asc h.inv.ids h.inv.act r
  have hhx : ∀ (d' : Disk), d'.hint = s.disk.hint →
      (∀ fid, fid ≠ s.active → fid ≤ s.active → dataOf d' fid = dataOf s.disk fid) → HintsExact d' := by
    intro d' e1 e2 fid hs hg
    rw [e1] at hg
    have hle := h.inv.hids fid (AL.mem_keys_of_get hg)
    have hne : fid ≠ s.active := fun e => by rw [e, h.acth] at hg; cases hg
    rw [e2 fid hne hle]
    exact h.hx fid hs hg
  by_cases hroll : s.written + r.len > cfg.maxFile
  · rw [write_roll cfg s r hroll]
    simp only
    have hlt : ∀ id ∈ AL.keys (AL.set s.active (dataOf s.disk s.active ++ [r]) s.disk.data), id < s.active + 1 := by
      intro id hid
      rcases mem_keys_set hid with e | e
      · omega
      · have := h.inv.ids id e; omega
    refine ⟨(asc_set_new hset hlt).2, ?_, trivial, ?_, ?_⟩
    · rw [allEvs_set_new hset hlt, hev]
    · refine hhx _ (by rfl) ?_
      intro fid h1 h2
      simp only [dataOf, AL.get_set_other (by omega : fid ≠ s.active + 1), AL.get_set_other h1]
    · cases hg : AL.get (s.active + 1) s.disk.hint with
      | none => rfl
      | some v => have := h.inv.hids _ (AL.mem_keys_of_get hg); omega
  · rw [write_noroll cfg s r hroll]
    simp only
    refine ⟨hset, hev, trivial, ?_, h.acth⟩
    refine hhx _ (by rfl) ?_
    intro fid h1 _
    simp only [dataOf, AL.get_set_other h1]

theorem put_disk (cfg : Cfg) (s : St) (ts : Int) (k : Key) (v : Val) :
    (put cfg s ts k v).1.disk = (write cfg s { ts := ts, key := k, val := some v }).1.disk := by
  unfold put; simp only [accountPrev_disk]
theorem put_active (cfg : Cfg) (s : St) (ts : Int) (k : Key) (v : Val) :
    (put cfg s ts k v).1.active = (write cfg s { ts := ts, key := k, val := some v }).1.active := by
  unfold put; simp only [accountPrev_active]
theorem put_keydir (cfg : Cfg) (s : St) (ts : Int) (k : Key) (v : Val) :
    (put cfg s ts k v).1.keydir =
      AL.set k (write cfg s { ts := ts, key := k, val := some v }).2.1
        (write cfg s { ts := ts, key := k, val := some v }).1.keydir := by
  unfold put; simp only [accountPrev_keydir]

theorem delete_disk (cfg : Cfg) (s : St) (ts : Int) (k : Key) :
    (delete cfg s ts k).1.disk = (write cfg s { ts := ts, key := k, val := none }).1.disk := by
  unfold delete; simp only [accountPrev_disk]
theorem delete_active (cfg : Cfg) (s : St) (ts : Int) (k : Key) :
    (delete cfg s ts k).1.active = (write cfg s { ts := ts, key := k, val := none }).1.active := by
  unfold delete; simp only [accountPrev_active]
theorem delete_keydir (cfg : Cfg) (s : St) (ts : Int) (k : Key) :
    (delete cfg s ts k).1.keydir =
      AL.del k (write cfg s { ts := ts, key := k, val := none }).1.keydir := by
  unfold delete; simp only [accountPrev_keydir]

/-- `put` appends one value event and points the key at it -/
theorem put_rinv (cfg : Cfg) (s : St) (ts : Int) (k : Key) (v : Val) (h : RInv s) :
    RInv (put cfg s ts k v).1 ∧ (Full s → Full (put cfg s ts k v).1) := by
  obtain ⟨e1, e2, e3, e4, e5⟩ := write_events cfg s { ts := ts, key := k, val := some v } h
  have hkd := (write_spec cfg s { ts := ts, key := k, val := some v } h.inv).2.2.2.1
  constructor
  · constructor
    · exact put_inv cfg s ts k v h.inv
    · rw [put_disk]; exact e1
    · intro k' l hk'
      rw [put_disk, e2]
      rw [put_keydir, AL.get_set, hkd, e3] at hk'
      by_cases hkk : k' = k
      · subst hkk
        simp only [↓reduceIte, Option.some.injEq] at hk'
        have := replay_snoc_same (allEvs s.disk.data)
          (mkEv s.active (fileSize (dataOf s.disk s.active)) { ts := ts, key := k', val := some v })
        simp only [mkEv, Option.isNone_some, Bool.false_eq_true, ↓reduceIte] at this ⊢
        rw [this, hk']
      · simp only [hkk, ↓reduceIte] at hk'
        rw [replay_snoc_other _ _ (by simp only [mkEv]; exact fun e => hkk e.symm)]
        exact h.wkd k' l hk'
    · rw [put_disk]; exact e4
    · rw [put_disk, put_active]; exact e5
  · intro hf k' hk'
    rw [put_disk, e2]
    rw [put_keydir, AL.get_set, hkd] at hk'
    by_cases hkk : k' = k
    · simp [hkk] at hk'
    · simp only [hkk, ↓reduceIte] at hk'
      rw [replay_snoc_other _ _ (by simp only [mkEv]; exact fun e => hkk e.symm)]
      exact hf k' hk'

/-- `delete` appends one tombstone event and forgets the key -/
theorem delete_rinv (cfg : Cfg) (s : St) (ts : Int) (k : Key) (h : RInv s) :
    RInv (delete cfg s ts k).1 ∧ (Full s → Full (delete cfg s ts k).1) := by
  obtain ⟨e1, e2, e3, e4, e5⟩ := write_events cfg s { ts := ts, key := k, val := none } h
  have hkd := (write_spec cfg s { ts := ts, key := k, val := none } h.inv).2.2.2.1
  constructor
  · constructor
    · exact delete_inv cfg s ts k h.inv
    · rw [delete_disk]; exact e1
    · intro k' l hk'
      rw [delete_disk, e2]
      rw [delete_keydir, AL.get_del, hkd] at hk'
      by_cases hkk : k' = k
      · simp [hkk] at hk'
      · simp only [hkk, ↓reduceIte] at hk'
        rw [replay_snoc_other _ _ (by simp only [mkEv]; exact fun e => hkk e.symm)]
        exact h.wkd k' l hk'
    · rw [delete_disk]; exact e4
    · rw [delete_disk, delete_active]; exact e5
  · intro hf k' hk'
    rw [delete_disk, e2]
    rw [delete_keydir, AL.get_del, hkd] at hk'
    by_cases hkk : k' = k
    · subst hkk
      have := replay_snoc_same (allEvs s.disk.data)
        (mkEv s.active (fileSize (dataOf s.disk s.active)) { ts := ts, key := k', val := none })
      simp only [mkEv, Option.isNone_none, ↓reduceIte] at this ⊢
      exact this
    · simp only [hkk, ↓reduceIte] at hk'
      rw [replay_snoc_other _ _ (by simp only [mkEv]; exact fun e => hkk e.symm)]
      exact hf k' hk'

end Store
