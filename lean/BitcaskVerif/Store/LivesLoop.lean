/-
  Lives after a crash inside a merge, part 7: a kill in the COPY phase of a merge pass, in a
  store that satisfies the lives invariant.

  `CJ dB DB kd a m` (Store/LivesWrite.lean): the (real) directory `DB` has the clean visible part
  `dB`, from which the scan recovers the index `kd` reading as `m`; the invisible records of `DB`
  are harmless.  Such a directory opens to a store satisfying the lives invariant (`CJ.recJ`).
  This file: how `CJ` is kept by the directory updates of a merge iteration.

  Every cut of the copy phase is: the calls of some state `mB` of the merge loop (run on the
  visible part), followed by a short tail `t` whose effect on ANY directory is one of
  (`Tail`): nothing; a longer invisible tail of the current output; one more empty data file;
  one more record at the end of the current output's data file — without hint entry, hence
  invisible, and a copy of the record the index entry of its key addresses.
-/
import BitcaskVerif.Store.LivesMergeSim

namespace Store

/-! ### directories with a clean visible part: more updates -/

/-- a longer tail of a file that is the same in both directories -/
theorem CJ.setTail {dB DB : Disk} {kd : List (Key × Loc)} {a : Nat} {m : Map} (h : CJ dB DB kd a m) (b n : Nat)
    (hd : dataOf DB b = dataOf dB b) (hh : AL.get b DB.hint = AL.get b dB.hint) :
    CJ { dB with tails := AL.set b n dB.tails } { DB with tails := AL.set b n DB.tails } kd a m := by
  refine ⟨h.clean.tails _, (absOf_tails _ _ _).trans h.abs, ?_, h.junk, h.fullA⟩
  refine ⟨h.sim.keys, h.sim.hkeys, by simp only [h.sim.tl], ?_⟩
  intro fid
  by_cases e : fid = b
  · subst e
    refine ⟨?_, fun _ => hd, ?_⟩
    · show dataOf dB fid <+: dataOf DB fid
      rw [hd]; exact List.prefix_refl _
    · intro hs hg
      have hg1 : AL.get fid dB.hint = some hs := by rw [← hh]; exact hg
      show AL.get fid dB.hint = _
      rw [hg1]
      congr 1
      symm
      unfold accOf
      apply accLen_all
      intro x hx
      have := h.clean.hx.fit hg1 x hx
      unfold dlen
      show x.pos + x.len ≤ fileSize (dataOf DB fid) + _
      rw [hd]; omega
  · exact (h.sim.file fid).congr rfl rfl rfl rfl (AL.get_set_other e _ _)

/-- one more empty data file above every id -/
theorem CJ.addData {dB DB : Disk} {kd : List (Key × Loc)} {a : Nat} {m : Map} (h : CJ dB DB kd a m) {b : Nat}
    (hb : a < b) :
    CJ { dB with data := AL.set b [] dB.data } { DB with data := AL.set b [] DB.data } kd b m := by
  have hb1 : b ∉ AL.keys dB.data := fun hc => by have := h.clean.max b hc; omega
  have hbD : b ∉ AL.keys DB.data := by rw [h.sim.keys]; exact hb1
  have hhb : AL.get b dB.hint = none := by
    cases hg : AL.get b dB.hint with
    | none => rfl
    | some v => have := h.clean.hmax _ (AL.mem_keys_of_get hg); omega
  refine ⟨h.clean.addData hb, (h.clean.absOf_addData hb).trans h.abs, h.sim.addData hb1 hhb, h.junk.addData hbD, ?_⟩
  intro k hk
  show replay (allEvs (AL.set b [] DB.data)) k = none
  rw [allEvs_set_new h.asc (h.lt hb)]
  exact h.fullA k hk

theorem recAt_single {r j : Rec} {q : Nat} (h : recAt [r] q = some j) : q = 0 ∧ j = r := by
  simp only [recAt] at h
  by_cases h0 : q = 0
  · simp only [h0, ↓reduceIte, Option.some.injEq] at h
    exact ⟨h0, h.symm⟩
  · simp only [h0, ↓reduceIte] at h
    by_cases h1 : q < r.len
    · simp [h1] at h
    · simp [h1] at h

/-- one more record at the end of the data file with the largest id, which has a hint file that
    does not list it; the record is a copy of the record the index entry of its key addresses -/
theorem CJ.half {dB DB : Disk} {kd : List (Key × Loc)} {a : Nat} {m : Map} (h : CJ dB DB kd a m)
    (hhint : (AL.get a dB.hint).isSome) (hd : dataOf DB a = dataOf dB a) (hh : AL.get a DB.hint = AL.get a dB.hint)
    {k : Key} {loc : Loc} {r : Rec} (hk : AL.get k kd = some loc) (hlt : loc.fid < a)
    (hr : recAt (dataOf dB loc.fid) loc.pos = some r) (hkey : r.key = k) (hval : r.val.isSome) :
    CJ dB { DB with data := AL.set a (dataOf DB a ++ [r]) DB.data } kd a m := by
  have hexB : (AL.get a dB.data).isSome := by
    cases hg : AL.get a dB.data with
    | none => exact absurd (AL.get_eq_none_iff.mp hg) (fun hn => hn h.clean.mem)
    | some v => rfl
  have hex : (AL.get a DB.data).isSome := by rw [h.sim.data_isSome]; exact hexB
  have hmax : ∀ id ∈ AL.keys DB.data, id ≤ a := fun id hid => by
    rw [h.sim.keys] at hid; exact h.clean.max id hid
  obtain ⟨hs, hg1⟩ := Option.isSome_iff_exists.mp hhint
  have hgD : AL.get a DB.hint = some hs := by rw [hh]; exact hg1
  refine ⟨h.clean, h.abs, ?_, ?_, ?_⟩
  · refine ⟨?_, h.sim.hkeys, h.sim.tl, ?_⟩
    · show AL.keys (AL.set a _ DB.data) = _
      rw [Tr.keys_set_old _ _ _ hex]; exact h.sim.keys
    · intro fid
      by_cases e : fid = a
      · subst e
        refine ⟨?_, ?_, ?_⟩
        · rw [dataOf_set_same, hd]; exact List.prefix_append _ _
        · intro hn
          simp only at hn
          rw [hgD] at hn; cases hn
        · intro hs' hg
          simp only at hg
          rw [hgD] at hg
          cases hg
          rw [hg1]
          congr 1
          symm
          unfold accOf
          apply accLen_all
          intro x hx
          have := h.clean.hx.fit hg1 x hx
          unfold dlen
          rw [dataOf_set_same, hd, fileSize_append]
          omega
      · exact (h.sim.file fid).congr rfl (dataOf_set_other _ e _) rfl rfl rfl
  · -- the invisible records: the old ones and the new record
    have hrD : recAt (dataOf DB loc.fid) loc.pos = some r := h.sim.recAt hr
    have hne : loc.fid ≠ a := by omega
    intro fid p j h1 h2
    by_cases e : fid = a
    · subst e
      rw [dataOf_set_same, hd] at h1
      obtain ⟨q0, rfl⟩ := recAt_single (recAt_append_ge h1 h2)
      refine ⟨hval, fun loc' hl' _ => ?_⟩
      have : loc' = loc := by
        unfold kdF at hl'
        rw [hkey, hk] at hl'
        exact (Option.some.inj hl').symm
      subst this
      rw [dataOf_set_other _ hne]
      exact hrD
    · rw [dataOf_set_other _ e] at h1
      obtain ⟨a1, a2⟩ := h.junk fid p j h1 h2
      refine ⟨a1, fun loc' hl' hlt' => ?_⟩
      have := a2 loc' hl' hlt'
      exact (keeps_append loc'.fid DB a r DB.hint DB.tails loc'.fid loc'.pos j (Nat.le_refl _) this
        (recAt_some_isSome this)).1
  · intro k' hk'
    show replay (allEvs (AL.set a (dataOf DB a ++ [r]) DB.data)) k' = none
    have := allEvs_set_max h.asc hmax hex r
    simp only [dataOf] at this ⊢
    rw [this, replay_snoc_other]
    · exact h.fullA k' hk'
    · simp only [mkEv]
      intro e
      unfold kdF at hk'
      rw [← e, hkey, hk] at hk'
      cases hk'

/-! ### states of the merge loop (on the visible part) -/

/-- `r` is a value record and a copy of the record the index of `s` addresses for its key -/
def CopyRec (s : St) (r : Rec) : Prop :=
  r.val.isSome ∧ ∃ loc, AL.get r.key s.keydir = some loc ∧ recAt (dataOf s.disk loc.fid) loc.pos = some r

theorem recAt_append_lt : ∀ (a j : List Rec) (p : Nat), p < fileSize a → recAt (a ++ j) p = recAt a p
  | [], _, _, h => by simp at h
  | x :: xs, j, p, h => by
    simp only [List.cons_append, recAt]
    by_cases h0 : p = 0
    · simp [h0]
    · simp only [h0, ↓reduceIte]
      by_cases h1 : p < x.len
      · simp [h1]
      · simp only [h1, ↓reduceIte]
        apply recAt_append_lt
        simp only [fileSize_cons] at h; omega

/-- a record of `a ++ [r]` is a record of `a`, or it is `r` at the end of `a` -/
theorem recAt_snoc {a : List Rec} {r x : Rec} {p : Nat} (h : recAt (a ++ [r]) p = some x) :
    recAt a p = some x ∨ (p = fileSize a ∧ x = r) := by
  by_cases hp : p < fileSize a
  · left; rw [← recAt_append_lt a [r] p hp]; exact h
  · right
    obtain ⟨h0, h1⟩ := recAt_single (recAt_append_ge h (by omega))
    exact ⟨by omega, h1⟩

/-- the loop invariant of the crash analysis, plus: index entries that still point into old files
    are the original entries; the calls so far touch new files only -/
structure LX (s : St) (m : MergeSt) : Prop where
  li : LI s m
  old : ∀ k loc, AL.get k m.s.keydir = some loc → loc.fid ≤ s.active → AL.get k s.keydir = some loc
  out : ∀ c ∈ m.calls, OutCall s.active c
  /-- the old files are untouched -/
  oldf : ∀ fid, fid ≤ s.active → dataOf m.s.disk fid = dataOf s.disk fid
  /-- every record of a new file is a copy of the record the ORIGINAL index addresses for its key -/
  copy : ∀ fid, s.active < fid → ∀ p r, recAt (dataOf m.s.disk fid) p = some r → CopyRec s r

theorem mergeStart_lx {s : St} (h : RInv s) (hf : Full s) : LX s (mergeStart s) := by
  refine ⟨mergeStart_li h hf, fun _ _ hk _ => hk, ?_, ?_, ?_⟩
  · intro c hc
    simp only [mergeStart, List.mem_cons, List.not_mem_nil, or_false] at hc
    rcases hc with rfl | rfl
    · exact ⟨by simp only [callId]; omega, by intro f; simp⟩
    · exact ⟨by simp only [callId]; omega, by intro f; simp⟩
  · intro fid hle
    simp only [mergeStart, rollDisk]
    exact dataOf_set_other' s.disk (by omega) _ _ _
  · intro fid hgt p r hr
    exfalso
    simp only [mergeStart, rollDisk] at hr
    by_cases e : fid = s.active + 1
    · subst e
      simp [dataOf, AL.get_set_same, recAt] at hr
    · rw [dataOf_set_other' s.disk e] at hr
      have := h.inv.ids _ (recAt_some_mem hr)
      omega

theorem mergeStep_lx (cfg : Cfg) (sel : List Nat) {s : St} (hsel : ∀ id, id ∈ sel → id ≤ s.active)
    {m : MergeSt} (h : LX s m) (k : Key) : LX s (mergeStep cfg sel m k) := by
  have hgt := h.li.minv.midgt
  rcases mergeStep_cases cfg sel m k h.li.minv with e | ⟨loc, r, hk, hs, h1, h2, h3, _, hkd, hd⟩
  · rw [e]; exact h
  · -- the copied record is a copy of the record the original index addresses
    have hle : loc.fid ≤ s.active := hsel _ hs
    have hcr : CopyRec s r := by
      refine ⟨h3, loc, by rw [h2]; exact h.old k loc hk hle, ?_⟩
      rw [← h.oldf loc.fid hle]; exact h1
    have hmoveO : ∀ fid, fid ≤ s.active → dataOf (moveDisk m k loc r) fid = dataOf s.disk fid := by
      intro fid hf
      rw [← h.oldf fid hf]
      exact dataOf_set_other' m.s.disk (by omega) _ _ _
    have hmoveC : ∀ fid, s.active < fid → ∀ p x, recAt (dataOf (moveDisk m k loc r) fid) p = some x → CopyRec s x := by
      intro fid hf p x hx
      by_cases e : fid = m.mid
      · subst e
        simp only [moveDisk, dataOf, AL.get_set_same, Option.getD_some] at hx
        rcases recAt_snoc hx with hx' | ⟨_, rfl⟩
        · exact h.copy _ hf p x hx'
        · exact hcr
      · rw [show dataOf (moveDisk m k loc r) fid = dataOf m.s.disk fid from dataOf_set_other' m.s.disk e _ _ _] at hx
        exact h.copy fid hf p x hx
    refine ⟨mergeStep_li cfg sel hsel h.li k, ?_, mergeStep_out cfg sel m k hgt h.out, ?_, ?_⟩
    · intro k' loc' hk' hle'
      rw [hkd, AL.get_set] at hk'
      by_cases hkk : k' = k
      · simp only [hkk, ↓reduceIte, Option.some.injEq] at hk'
        have : loc'.fid = m.mid := by rw [← hk']; rfl
        omega
      · simp only [hkk, ↓reduceIte] at hk'
        exact h.old k' loc' hk' hle'
    · intro fid hf
      rcases hd with ⟨hd, _⟩ | ⟨hd, _⟩
      · rw [hd]; exact hmoveO fid hf
      · rw [hd, ← hmoveO fid hf]
        exact dataOf_set_other' (moveDisk m k loc r) (by omega) _ _ _
    · intro fid hf p x hx
      rcases hd with ⟨hd, _⟩ | ⟨hd, _⟩
      · rw [hd] at hx; exact hmoveC fid hf p x hx
      · rw [hd] at hx
        by_cases e : fid = m.mid + 1
        · subst e
          simp [rollDisk, dataOf, AL.get_set_same, recAt] at hx
        · rw [show dataOf (rollDisk (moveDisk m k loc r) (m.mid + 1)) fid = dataOf (moveDisk m k loc r) fid from
            dataOf_set_other' (moveDisk m k loc r) e _ _ _] at hx
          exact hmoveC fid hf p x hx

theorem mergeFold_lx (cfg : Cfg) (sel : List Nat) {s : St} (hsel : ∀ id, id ∈ sel → id ≤ s.active)
    (order : List Key) : ∀ {m : MergeSt}, LX s m → LX s (order.foldl (mergeStep cfg sel) m) := by
  induction order with
  | nil => intro m h; exact h
  | cons k ks ih => intro m h; exact ih (mergeStep_lx cfg sel hsel h k)

theorem mergeLoop_lx (cfg : Cfg) {s : St} (h : RInv s) (hf : Full s) (sel : List Nat)
    (hsel : ∀ id, id ∈ sel → id ≤ s.active) (order : List Key) : LX s (mergeLoop cfg s sel order) :=
  mergeFold_lx cfg sel hsel order (mergeStart_lx h hf)

/-- **the real directory after the calls of a loop state** has the loop state's directory as
    clean visible part; the current output is the same file on both sides -/
theorem LX.cj {s : St} {d1 : Disk} (w : LJw s d1) {mB : MergeSt} (h : LX { s with disk := d1 } mB) :
    CJ mB.s.disk (applyCalls s.disk mB.calls) mB.s.keydir mB.mid s.abs ∧
    dataOf (applyCalls s.disk mB.calls) mB.mid = dataOf mB.s.disk mB.mid ∧
    AL.get mB.mid (applyCalls s.disk mB.calls).hint = AL.get mB.mid mB.s.disk.hint := by
  have hout : ∀ c ∈ mB.calls, OutCall s.active c := h.out
  have hn : NewOk s.active s.disk.tails (newFiles s.disk.tails mB.calls) := newOk_newFiles _ hout
  have e1 : mB.s.disk = dapp d1 (newFiles s.disk.tails mB.calls) := by
    have := h.li.frame
    simp only at this
    rw [← this, applyCalls_out w.below1 hout, w.sim.tl]
  have eR : applyCalls s.disk mB.calls = dapp s.disk (newFiles s.disk.tails mB.calls) :=
    applyCalls_out w.below hout
  have hgt : s.active < mB.mid := h.li.minv.midgt
  have hx : HintsExact (dapp d1 (newFiles s.disk.tails mB.calls)) := e1 ▸ h.li.mr.hx
  have hfile : ∀ fid, s.active < fid →
      FileSim (newFiles s.disk.tails mB.calls) (newFiles s.disk.tails mB.calls) fid := by
    intro fid hf
    have := fileSim_refl (d := dapp d1 (newFiles s.disk.tails mB.calls)) (fid := fid) (fun _ hg => hx.fit' hg)
    exact this.congr (dataOf_dapp_gt w.below1 hf).symm (dataOf_dapp_gt w.below1 hf).symm
      (get_hint_dapp_gt w.below1 hf).symm (get_hint_dapp_gt w.below1 hf).symm rfl
  have hjunkfid : ∀ fid p j, recAt (dataOf (dapp s.disk (newFiles s.disk.tails mB.calls)) fid) p = some j →
      fileSize (dataOf (dapp d1 (newFiles s.disk.tails mB.calls)) fid) ≤ p → fid ≤ s.active := by
    intro fid p j h1 h2
    cases Nat.lt_or_ge s.active fid with
    | inr hle => exact hle
    | inl hf =>
      rw [dataOf_dapp_gt w.below hf] at h1
      rw [dataOf_dapp_gt w.below1 hf] at h2
      have := recAt_lt h1
      omega
  refine ⟨⟨h.li.clean, h.li.absOf.trans w.abs, ?_, ?_, ?_⟩, ?_, ?_⟩
  · rw [e1, eR]
    exact w.sim.dapp w.below w.below1 hn hfile
  · rw [e1, eR]
    refine w.junk.mono ?_ ?_ ?_
    · intro fid p j h1 h2
      have hle := hjunkfid fid p j h1 h2
      rw [dataOf_dapp_le hn hle] at h1 h2
      exact ⟨h1, h2⟩
    · intro key loc j _ hr
      have hle : loc.fid ≤ s.active := w.inv.ids _ (recAt_some_mem hr)
      rw [dataOf_dapp_le hn hle]
      exact hr
    · intro fid p j key loc h1 h2 hl hlt
      have hle := hjunkfid fid p j h1 h2
      have hl' : loc.fid ≤ s.active := by unfold lexlt at hlt; omega
      exact h.old key loc hl hl'
  · intro k hk
    have hks : AL.get k s.keydir = none := by
      have := h.li.dom k
      unfold kdF at hk
      rw [hk] at this
      cases hs : AL.get k s.keydir with
      | none => rfl
      | some l => simp only at this; rw [hs] at this; cases this
    rw [eR]
    show replay (allEvs (s.disk.data ++ (newFiles s.disk.tails mB.calls).data)) k = none
    rw [allEvs_append, replay_append_of_no_key]
    · exact w.fullA k hks
    · obtain ⟨extra, x1, x2⟩ := h.li.evs
      rw [e1] at x1
      have x1' : allEvs d1.data ++ allEvs (newFiles s.disk.tails mB.calls).data = allEvs d1.data ++ extra := by
        rw [← x1]; exact (allEvs_append _ _).symm
      have hx' := List.append_cancel_left x1'
      intro e he hek
      have := x2 e (hx' ▸ he)
      simp only at this
      rw [hek, hks] at this
      cases this
  · rw [eR, e1, dataOf_dapp_gt w.below hgt, dataOf_dapp_gt w.below1 hgt]
  · rw [eR, e1, get_hint_dapp_gt w.below hgt, get_hint_dapp_gt w.below1 hgt]

/-! ### the tails of a cut of the copy phase -/

/-- the effect of the calls `t` issued after the calls of loop state `mB` -/
inductive Tail (s : St) (sel : List Nat) (mB : MergeSt) (t : List Call) : Prop
  | same : (∀ X : Disk, applyCalls X t = X) → Tail s sel mB t
  | raw (n : Nat) : (∀ X : Disk, applyCalls X t =
      { X with tails := AL.set mB.mid ((AL.get mB.mid X.tails).getD 0 + n) X.tails }) → Tail s sel mB t
  | newData : (∀ X : Disk, applyCalls X t = { X with data := AL.set (mB.mid + 1) [] X.data }) → Tail s sel mB t
  | half (k : Key) (loc : Loc) (r : Rec) : AL.get k mB.s.keydir = some loc → loc.fid ∈ sel →
      recAt (dataOf mB.s.disk loc.fid) loc.pos = some r →
      (∀ X : Disk, applyCalls X t = { X with data := AL.set mB.mid (dataOf X mB.mid ++ [r]) X.data }) →
      Tail s sel mB t

/-- **a kill after the calls of a loop state and such a tail** -/
theorem tail_recW {s : St} {d1 : Disk} (w : LJw s d1) {sel : List Nat} (hsel : ∀ id, id ∈ sel → id ≤ s.active)
    {mB : MergeSt} (h : LX { s with disk := d1 } mB) {t : List Call} (ht : Tail { s with disk := d1 } sel mB t) :
    RecW (applyCalls s.disk (mB.calls ++ t)) s.abs := by
  obtain ⟨cj, hd, hh⟩ := h.cj w
  rw [applyCalls_append]
  cases ht with
  | same e => rw [e]; exact cj.recW
  | raw n e => rw [e]; exact (cj.setTail mB.mid _ hd hh).recW
  | newData e => rw [e]; exact (cj.addData (Nat.lt_succ_self _)).recW
  | half k loc r hk hs hr e =>
    rw [e]
    obtain ⟨r', g1, g2, g3, _, _⟩ := h.li.minv.locs k loc hk
    rw [hr] at g1
    cases g1
    have hlt : loc.fid < mB.mid := by
      have := hsel _ hs; have := h.li.minv.midgt; simp only at *; omega
    exact (cj.half h.li.mr.hmid hd hh hk hlt hr g2 g3).recW

/-! ### the shape of the cuts of the copy phase -/

theorem move_shape {s : St} {sel : List Nat} {m : MergeSt} (h : LX s m) (k : Key) (loc : Loc) (r : Rec)
    (hk : AL.get k m.s.keydir = some loc) (hs : loc.fid ∈ sel)
    (h1 : recAt (dataOf m.s.disk loc.fid) loc.pos = some r)
    (hmove : LX s (Tr.moveNoRoll m k loc r)) {c : List Call}
    (hc : Cut [Call.append ⟨.data, m.mid⟩ (.ofRec r),
      Call.append ⟨.hint, m.mid⟩ (.ofHint { ts := loc.ts, len := loc.len, pos := m.mpos, key := k })] c) :
    ∃ mB t, LX s mB ∧ m.calls ++ c = mB.calls ++ t ∧ Tail s sel mB t := by
  rcases cut_two_appends hc with rfl | ⟨bs, rfl⟩ | rfl | ⟨bs, rfl⟩ | rfl
  · exact ⟨m, [], h, rfl, .same (fun _ => rfl)⟩
  · exact ⟨m, _, h, rfl, .raw bs.length (fun _ => rfl)⟩
  · exact ⟨m, _, h, rfl, .half k loc r hk hs h1 (fun _ => rfl)⟩
  · exact ⟨m, _, h, rfl, .half k loc r hk hs h1 (fun _ => rfl)⟩
  · exact ⟨Tr.moveNoRoll m k loc r, [], hmove, by simp [Tr.moveNoRoll, moveCalls], .same (fun _ => rfl)⟩

/-- **a kill inside one merge iteration** -/
theorem mergeStep_shape (cfg : Cfg) (sel : List Nat) {s : St} (hsel : ∀ id, id ∈ sel → id ≤ s.active)
    {m : MergeSt} (h : LX s m) (k : Key) {c : List Call} (hc : Cut (mergeStep cfg sel m k).calls c) :
    Cut m.calls c ∨ ∃ mB t, LX s mB ∧ c = mB.calls ++ t ∧ Tail s sel mB t := by
  cases hk : AL.get k m.s.keydir with
  | none => rw [mergeStep_skip_none cfg sel m k hk] at hc; exact .inl hc
  | some loc =>
    by_cases hs : loc.fid ∈ sel
    · obtain ⟨r, h1, _, _, _, _⟩ := h.li.minv.locs k loc hk
      have hNR : mergeStep { cfg with maxFile := m.mpos + loc.len } sel m k = Tr.moveNoRoll m k loc r := by
        rw [mergeStep_move _ sel m k loc r hk hs h1]
        simp [Tr.moveNoRoll]
      have hlxNR : LX s (Tr.moveNoRoll m k loc r) := hNR ▸ mergeStep_lx _ sel hsel h k
      have hlx' := mergeStep_lx cfg sel hsel h k
      rw [mergeStep_move cfg sel m k loc r hk hs h1] at hc hlx'
      by_cases hroll : m.mpos + loc.len > cfg.maxFile
      · simp only [hroll, ↓reduceIte] at hc hlx'
        unfold moveCalls at hc
        rw [List.append_assoc] at hc
        rcases cut_append hc with h2 | ⟨c', rfl, h2⟩
        · exact .inl h2
        · right
          rcases cut_append h2 with h3 | ⟨c'', rfl, h4⟩
          · exact move_shape h k loc r hk hs h1 hlxNR h3
          · obtain ⟨post, e⟩ := cut_noappend (by
              intro x hx f p
              simp only [List.mem_cons, List.not_mem_nil, or_false] at hx
              rcases hx with rfl | rfl | rfl | rfl <;> simp) h4
            have hcalls : (Tr.moveNoRoll m k loc r).calls = m.calls ++
                [Call.append ⟨.data, m.mid⟩ (.ofRec r),
                 Call.append ⟨.hint, m.mid⟩ (.ofHint { ts := loc.ts, len := loc.len, pos := m.mpos, key := k })] := rfl
            rcases prefix_cases4 e with rfl | rfl | rfl | rfl | rfl
            · exact ⟨_, [], hlxNR, by rw [hcalls]; simp, .same (fun _ => rfl)⟩
            · exact ⟨_, _, hlxNR, by rw [hcalls, List.append_assoc], .same (fun _ => rfl)⟩
            · exact ⟨_, _, hlxNR, by rw [hcalls, List.append_assoc], .same (fun _ => rfl)⟩
            · exact ⟨_, _, hlxNR, by rw [hcalls, List.append_assoc], .newData (fun _ => rfl)⟩
            · refine ⟨_, [], hlx', ?_, .same (fun _ => rfl)⟩
              simp only [moveCalls, List.append_assoc, List.append_nil]
      · simp only [hroll, ↓reduceIte] at hc
        unfold moveCalls at hc
        rcases cut_append hc with h2 | ⟨c', rfl, h2⟩
        · exact .inl h2
        · right
          exact move_shape h k loc r hk hs h1 hlxNR h2
    · rw [mergeStep_skip_unsel cfg sel m k loc hk hs] at hc; exact .inl hc

theorem mergeFold_shape (cfg : Cfg) (sel : List Nat) {s : St} (hsel : ∀ id, id ∈ sel → id ≤ s.active)
    (order : List Key) : ∀ {m : MergeSt}, LX s m → ∀ {c : List Call},
      Cut (order.foldl (mergeStep cfg sel) m).calls c →
      Cut m.calls c ∨ ∃ mB t, LX s mB ∧ c = mB.calls ++ t ∧ Tail s sel mB t := by
  induction order with
  | nil => intro m _ c hc; exact .inl hc
  | cons k ks ih =>
    intro m h c hc
    rcases ih (mergeStep_lx cfg sel hsel h k) hc with h1 | h1
    · exact mergeStep_shape cfg sel hsel h k h1
    · exact .inr h1

/-- **a kill anywhere in the copy phase**, in a store satisfying the lives invariant -/
theorem mergeLoop_cut_recW (cfg : Cfg) {s : St} {d1 : Disk} (w : LJw s d1) (sel : List Nat)
    (hsel : ∀ id, id ∈ sel → id ≤ s.active) (order : List Key) {c : List Call}
    (hc : Cut (mergeLoop cfg { s with disk := d1 } sel order).calls c) : RecW (applyCalls s.disk c) s.abs := by
  rcases mergeFold_shape cfg sel (s := { s with disk := d1 }) hsel order (mergeStart_lx w.rinv w.full1) hc with
    h1 | ⟨mB, t, hx, rfl, ht⟩
  · obtain ⟨post, e⟩ := cut_noappend (by
      intro x hx f p
      simp only [mergeStart, List.mem_cons, List.not_mem_nil, or_false] at hx
      rcases hx with rfl | rfl <;> simp) h1
    rcases prefix_cases2 e with rfl | rfl | rfl
    · exact w.recW
    · have hw := w.wit
      obtain ⟨a, b⟩ := reopen_lj ⟨_, w⟩
      have hd : applyCalls s.disk [Call.create ⟨.data, s.active + 1⟩] = (reopen s).1.disk := by
        show _ = (openDisk s.disk).1.disk
        rw [hw.open_disk]; rfl
      rw [hd, ← b]
      exact a.recW
    · have := tail_recW w hsel (mergeStart_lx w.rinv w.full1) (t := []) (.same (fun _ => rfl))
      rw [List.append_nil] at this
      exact this
  · exact tail_recW w hsel hx ht

end Store
