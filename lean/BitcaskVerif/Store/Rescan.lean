/-
  How the startup scan (`rebuild`) changes when the directory changes at its upper end: a record
  appended to the file with the largest id is one more `scanStep`; an additional empty file with a
  larger id changes nothing.  Used for the restart behaviour after a failed write (C20).
-/
import BitcaskVerif.Store.TraceRun

namespace Store.Tr
/-! ### the scan, named -/

/-- the body of `scanData`'s loop -/
def scanStep (fid : Nat) (acc : Idx × Nat) (r : Rec) : Idx × Nat :=
  let (ix, pos) := acc
  let len := r.len
  match r.val with
  | none =>
    let ix1 := { ix with stats := updStat ix.stats fid (·.addDead len) }
    let prev := AL.get r.key ix1.keydir
    (({ ix1 with keydir := AL.del r.key ix1.keydir } : Idx).account prev, pos + len)
  | some _ =>
    let loc : Loc := { fid := fid, pos := pos, len := len, ts := r.ts }
    let ix1 := { ix with stats := updStat ix.stats fid (·.addLive) }
    let prev := AL.get r.key ix1.keydir
    (({ ix1 with keydir := AL.set r.key loc ix1.keydir } : Idx).account prev, pos + len)

theorem scanData_eq (fid : Nat) (ix : Idx) (rs : List Rec) :
    scanData fid ix rs = (rs.foldl (scanStep fid) (ix, 0)).1 := rfl

/-- what `rebuild` does with one file -/
def scanFile (d : Disk) (ix : Idx) (fid : Nat) : Idx :=
  match AL.get fid d.hint with
  | some hs => scanHints fid ix hs (fileSize (dataOf d fid) + (AL.get fid d.tails).getD 0)
  | none => scanData fid ix (dataOf d fid)

theorem rebuild_fst (d : Disk) : (rebuild d).1 = (sortedIds d).foldl (scanFile d) {} := rfl

theorem scanStep_pos (fid : Nat) (acc : Idx × Nat) (r : Rec) : (scanStep fid acc r).2 = acc.2 + r.len := by
  obtain ⟨ix, pos⟩ := acc
  unfold scanStep
  cases r.val <;> rfl

theorem scanFold_pos (fid : Nat) (rs : List Rec) : ∀ (acc : Idx × Nat),
    (rs.foldl (scanStep fid) acc).2 = acc.2 + fileSize rs := by
  induction rs with
  | nil => intro acc; simp
  | cons r rs ih =>
    intro acc
    simp only [List.foldl_cons, ih, scanStep_pos, fileSize_cons]
    omega

/-- scanning a file with one more record at its end is one more step, at the old end position -/
theorem scanData_snoc (fid : Nat) (ix : Idx) (rs : List Rec) (r : Rec) :
    scanData fid ix (rs ++ [r]) = (scanStep fid (scanData fid ix rs, fileSize rs) r).1 := by
  rw [scanData_eq, scanData_eq, List.foldl_append]
  have h2 := scanFold_pos fid rs (ix, 0)
  simp only [Nat.zero_add] at h2
  simp only [List.foldl_cons, List.foldl_nil]
  rw [← h2]

theorem scanData_nil (fid : Nat) (ix : Idx) : scanData fid ix [] = ix := rfl

theorem scanFile_nohint {d : Disk} {fid : Nat} (h : AL.get fid d.hint = none) (ix : Idx) :
    scanFile d ix fid = scanData fid ix (dataOf d fid) := by
  unfold scanFile; rw [h]

/-- the scan of a file depends on its records, its hint file, and — only if it has a hint file —
    its tail -/
theorem scanFile_congr {d d' : Disk} {fid : Nat} (hh : AL.get fid d'.hint = AL.get fid d.hint)
    (hd : dataOf d' fid = dataOf d fid)
    (ht : AL.get fid d.hint ≠ none → AL.get fid d'.tails = AL.get fid d.tails) (ix : Idx) :
    scanFile d' ix fid = scanFile d ix fid := by
  unfold scanFile
  rw [hh, hd]
  cases hg : AL.get fid d.hint with
  | none => rfl
  | some hs => simp only; rw [ht (by rw [hg]; simp)]

theorem foldl_scanFile_congr {d d' : Disk} (ids : List Nat)
    (h : ∀ fid, fid ∈ ids → ∀ ix, scanFile d' ix fid = scanFile d ix fid) :
    ∀ ix, ids.foldl (scanFile d') ix = ids.foldl (scanFile d) ix := by
  induction ids with
  | nil => intro ix; rfl
  | cons i is ih =>
    intro ix
    simp only [List.foldl_cons]
    rw [h i List.mem_cons_self, ih (fun fid hf => h fid (List.mem_cons_of_mem _ hf))]

/-! ### sorted ids -/

theorem keys_set_old {κ β : Type} [DecidableEq κ] (k : κ) (v : β) (l : List (κ × β))
    (h : (AL.get k l).isSome) : AL.keys (AL.set k v l) = AL.keys l := by
  induction l with
  | nil => simp [AL.get] at h
  | cons x xs ih =>
    obtain ⟨k', v'⟩ := x
    by_cases e : k' = k
    · simp [AL.set, AL.keys, e]
    · simp only [AL.get, e, ↓reduceIte] at h
      have := ih h
      simp only [AL.keys] at this
      simp [AL.set, AL.keys, e, this]

theorem keys_set_new {κ β : Type} [DecidableEq κ] (k : κ) (v : β) (l : List (κ × β))
    (h : k ∉ AL.keys l) : AL.keys (AL.set k v l) = AL.keys l ++ [k] := by
  induction l with
  | nil => simp [AL.set, AL.keys]
  | cons x xs ih =>
    obtain ⟨k', v'⟩ := x
    simp only [AL.keys, List.map_cons, List.mem_cons, not_or] at h
    have e : ¬ k' = k := fun e => h.1 e.symm
    have := ih h.2
    simp only [AL.keys] at this
    simp [AL.set, AL.keys, e, this]

theorem nodup_eraseDups (l : List Nat) : l.eraseDups.Nodup := by
  induction hn : l.length using Nat.strongRecOn generalizing l with
  | _ n ih =>
    cases l with
    | nil => simp
    | cons a as =>
      rw [List.eraseDups_cons, List.nodup_cons]
      constructor
      · intro hm
        rw [List.mem_eraseDups, List.mem_filter] at hm
        simp at hm
      · subst hn
        exact ih _ (Nat.lt_succ_of_le (List.length_filter_le _ _)) _ rfl

theorem sortedIds_pairwise (d : Disk) : (sortedIds d).Pairwise (fun a b => decide (a ≤ b) = true) := by
  unfold sortedIds
  exact List.pairwise_mergeSort (le := fun a b => decide (a ≤ b))
    (fun a b c hab hbc => by simp only [decide_eq_true_eq] at *; omega)
    (fun a b => le_total_bool a b) _

theorem sortedIds_nodup (d : Disk) : (sortedIds d).Nodup := by
  unfold sortedIds
  exact (List.mergeSort_perm _ _).nodup_iff.mpr (nodup_eraseDups _)

theorem mem_sortedIds (d : Disk) (x : Nat) : x ∈ sortedIds d ↔ x ∈ AL.keys d.data := by
  simp [sortedIds]

/-- under the id invariant the sorted ids end with the active id, everything before is smaller -/
theorem sortedIds_split {s : St} (h : IdInv s) :
    ∃ init, sortedIds s.disk = init ++ [s.active] ∧ ∀ x, x ∈ init → x < s.active := by
  obtain ⟨ys, hys⟩ := List.getLast?_eq_some_iff.mp (sortedIds_getLast h)
  refine ⟨ys, hys, ?_⟩
  intro x hx
  have hle : x ≤ s.active := h.ids x ((mem_sortedIds _ _).mp (by rw [hys]; simp [hx]))
  have hnd := sortedIds_nodup s.disk
  rw [hys, List.nodup_append] at hnd
  have hne : x ≠ s.active := hnd.2.2 x hx s.active (by simp)
  omega

/-- the sorted ids only depend on the set of keys -/
theorem sortedIds_eq_of_keys {d d' : Disk} (h : AL.keys d'.data = AL.keys d.data) : sortedIds d' = sortedIds d := by
  unfold sortedIds; rw [h]

/-- a new file above every existing id comes last -/
theorem sortedIds_new {d d' : Disk} {b : Nat} (hk : AL.keys d'.data = AL.keys d.data ++ [b])
    (hb : ∀ x, x ∈ AL.keys d.data → x < b) : sortedIds d' = sortedIds d ++ [b] := by
  have hnb : b ∉ AL.keys d.data := fun hc => Nat.lt_irrefl _ (hb b hc)
  have hperm : (sortedIds d').Perm (sortedIds d ++ [b]) := by
    unfold sortedIds
    rw [hk, List.eraseDups_append]
    have : ([b].removeAll (AL.keys d.data)).eraseDups = [b] := by
      simp [List.removeAll, hnb, List.eraseDups_cons]
    rw [this]
    exact (List.mergeSort_perm _ _).trans ((List.mergeSort_perm _ _).symm.append_right _)
  apply List.Perm.eq_of_pairwise (le := fun a b => decide (a ≤ b) = true) _ (sortedIds_pairwise d') _ hperm
  · intro x y _ _ h1 h2
    simp only [decide_eq_true_eq] at h1 h2; omega
  · rw [List.pairwise_append]
    refine ⟨sortedIds_pairwise d, by simp, ?_⟩
    intro x hx y hy
    simp only [List.mem_singleton] at hy
    have := hb x ((mem_sortedIds d x).mp hx)
    simp only [decide_eq_true_eq]; omega

/-! ### the two changes at the upper end -/

/-- **one more record at the end of the file with the largest id** (which has no hint file):
    the rebuilt index is the old one plus one scan step -/
theorem rebuild_append {d d' : Disk} {a : Nat} {init : List Nat} {r : Rec}
    (hs : sortedIds d = init ++ [a]) (hinit : ∀ x, x ∈ init → x < a)
    (hids : sortedIds d' = sortedIds d) (hh : d'.hint = d.hint) (hna : AL.get a d.hint = none)
    (hdata : ∀ fid, fid ≠ a → dataOf d' fid = dataOf d fid)
    (htails : ∀ fid, fid ≠ a → AL.get fid d'.tails = AL.get fid d.tails)
    (hnew : dataOf d' a = dataOf d a ++ [r]) :
    (rebuild d').1 = (scanStep a ((rebuild d).1, fileSize (dataOf d a)) r).1 ∧ (rebuild d').2 = (rebuild d).2 := by
  constructor
  · rw [rebuild_fst, rebuild_fst, hids, hs, List.foldl_append, List.foldl_append]
    simp only [List.foldl_cons, List.foldl_nil]
    have hc : ∀ ix, init.foldl (scanFile d') ix = init.foldl (scanFile d) ix := by
      apply foldl_scanFile_congr
      intro fid hf ix
      have hne : fid ≠ a := by have := hinit fid hf; omega
      exact scanFile_congr (by rw [hh]) (hdata fid hne) (fun _ => htails fid hne) ix
    rw [hc, scanFile_nohint (by rw [hh]; exact hna), scanFile_nohint hna, hnew, scanData_snoc]
  · rw [rebuild_snd, rebuild_snd, hids]

/-- **an additional empty file above every id** (without a hint file): the rebuilt index is
    unchanged, the next active id is one above the new file -/
theorem rebuild_create {d d' : Disk} {b : Nat}
    (hk : AL.keys d'.data = AL.keys d.data ++ [b]) (hb : ∀ x, x ∈ AL.keys d.data → x < b)
    (hh : d'.hint = d.hint) (hnb : AL.get b d.hint = none)
    (hdata : ∀ fid, fid ≠ b → dataOf d' fid = dataOf d fid) (hnew : dataOf d' b = [])
    (htails : ∀ fid, AL.get fid d.hint ≠ none → AL.get fid d'.tails = AL.get fid d.tails) :
    (rebuild d').1 = (rebuild d).1 ∧ (rebuild d').2 = b + 1 := by
  have hs := sortedIds_new hk hb
  constructor
  · rw [rebuild_fst, rebuild_fst, hs, List.foldl_append]
    simp only [List.foldl_cons, List.foldl_nil]
    have hc : ∀ ix, (sortedIds d).foldl (scanFile d') ix = (sortedIds d).foldl (scanFile d) ix := by
      apply foldl_scanFile_congr
      intro fid hf ix
      have hne : fid ≠ b := by have := hb fid ((mem_sortedIds d fid).mp hf); omega
      exact scanFile_congr (by rw [hh]) (hdata fid hne) (htails fid) ix
    rw [hc, scanFile_nohint (by rw [hh]; exact hnb), hnew, scanData_nil]
  · rw [rebuild_snd, hs]
    simp

end Store.Tr