/-
  Why the merged files are removed in ascending id order (C03): if `sel` is ascending, nothing
  absent is resurrectable in `s` (`Full s`) and the complete selection is hazard-free
  (`NoHazard s sel`), then every prefix of `sel` is hazard-free as well — so a kill between two
  unlinks never resurrects a deleted key.
-/
import BitcaskVerif.Store.CutUnlink
import BitcaskVerif.Store.CutHistory

namespace Store

/-- the events of a directory with ascending ids are ordered by file id -/
theorem allEvs_sorted {l : List (Nat × List Rec)} (h : Asc l) :
    (allEvs l).Pairwise (fun a b => a.loc.fid ≤ b.loc.fid) := by
  induction l with
  | nil => simp [allEvs]
  | cons x xs ih =>
    obtain ⟨f, rs⟩ := x
    simp only [allEvs]
    rw [List.pairwise_append]
    refine ⟨?_, ih h.tail, ?_⟩
    · have hall : ∀ e ∈ evData f rs 0, e.loc.fid = f := fun e he => evData_fid he
      generalize evData f rs 0 = es at hall
      induction es with
      | nil => simp
      | cons e es ih2 =>
        rw [List.pairwise_cons]
        refine ⟨?_, ih2 (fun a ha => hall a (List.mem_cons_of_mem _ ha))⟩
        intro a ha
        rw [hall e List.mem_cons_self, hall a (List.mem_cons_of_mem _ ha)]
        exact Nat.le_refl _
    · intro a ha b hb
      obtain ⟨f', rs', hm, he⟩ := mem_allEvs hb
      rw [evData_fid ha, evData_fid he]
      have := h.head_lt f' (by simp only [AL.keys, List.mem_map]; exact ⟨_, hm, rfl⟩)
      simp only at this
      omega

/-- in a list ordered by file id the deciding event of a key is in the highest file that has an
    event of that key -/
theorem lastFor_max {k : Key} {es : List Ev} (hs : es.Pairwise (fun a b => a.loc.fid ≤ b.loc.fid)) {e : Ev}
    (h : lastFor k es = some e) : ∀ e' ∈ es, e'.key = k → e'.loc.fid ≤ e.loc.fid := by
  induction es with
  | nil => simp [lastFor] at h
  | cons x xs ih =>
    rw [List.pairwise_cons] at hs
    simp only [lastFor] at h
    intro e' he' hk'
    cases hx : lastFor k xs with
    | some y =>
      simp only [hx, Option.some.injEq] at h
      subst h
      rcases List.mem_cons.mp he' with rfl | he'
      · exact hs.1 _ (lastFor_key hx).2
      · exact ih hs.2 hx e' he' hk'
    | none =>
      simp only [hx] at h
      by_cases hxk : x.key = k
      · simp only [hxk, ↓reduceIte, Option.some.injEq] at h
        subst h
        rcases List.mem_cons.mp he' with rfl | he'
        · exact Nat.le_refl _
        · exact absurd hk' ((lastFor_none.mp hx) e' he')
      · simp [hxk] at h

/-- **ascending removal order**: with `sel` ascending, `Full s` and `NoHazard s sel`, every
    prefix of `sel` is hazard-free -/
theorem noHazard_prefix_of_sorted {s : St} (ha : Asc s.disk.data) (hf : Full s) {sel : List Nat}
    (hsorted : sel.Pairwise (· ≤ ·)) (hz : NoHazard s sel) {done : List Nat} (hd : done <+: sel) :
    NoHazard s done := by
  obtain ⟨rest, rfl⟩ := hd
  intro k hk
  have hfull := hf k hk
  rw [replay_eq] at hfull ⊢
  cases hl : lastFor k (allEvs s.disk.data) with
  | none =>
    have : lastFor k ((allEvs s.disk.data).filter (fun e => decide (e.loc.fid ∉ done))) = none := by
      rw [lastFor_none]; intro r hr
      exact (lastFor_none.mp hl) r (List.mem_filter.mp hr).1
    rw [this]; rfl
  | some e =>
    have ht : e.tomb = true := by
      cases ht : e.tomb with
      | true => rfl
      | false => simp [hl, evVal, ht] at hfull
    by_cases hq : e.loc.fid ∈ done
    · cases hx : lastFor k ((allEvs s.disk.data).filter (fun e => decide (e.loc.fid ∉ done))) with
      | none => rfl
      | some e' =>
        obtain ⟨hk', hm'⟩ := lastFor_key hx
        obtain ⟨hmE, hq'⟩ := List.mem_filter.mp hm'
        simp only [decide_eq_true_eq] at hq'
        have hle := lastFor_max (allEvs_sorted ha) hl e' hmE hk'
        have hns : e'.loc.fid ∉ done ++ rest := by
          intro hc
          rcases List.mem_append.mp hc with hc | hc
          · exact hq' hc
          · have := (List.pairwise_append.mp hsorted).2.2 _ hq _ hc
            have hne : e'.loc.fid ≠ e.loc.fid := fun e1 => hq' (e1 ▸ hq)
            omega
        -- `e'` also decides `k` among the unselected files
        have hkeep := lastFor_filter_keep (fun e => decide (e.loc.fid ∉ done ++ rest)) hx
          (by simpa using hns)
        have hff : ((allEvs s.disk.data).filter (fun e => decide (e.loc.fid ∉ done))).filter
            (fun e => decide (e.loc.fid ∉ done ++ rest)) =
            (allEvs s.disk.data).filter (fun e => decide (e.loc.fid ∉ done ++ rest)) := by
          rw [List.filter_filter]
          apply List.filter_congr
          intro a _
          by_cases h1 : a.loc.fid ∈ done <;> by_cases h2 : a.loc.fid ∈ rest <;> simp [h1, h2]
        rw [hff] at hkeep
        have := hz k hk
        rw [replay_eq, hkeep] at this
        exact this
    · rw [lastFor_filter_keep _ hl (by simpa using hq)]
      simp [evVal, ht]

/-! ### histories with merges -/

open Tr in
/-- side conditions of an operation: a merge selects existing files in ascending order, its
    iteration order covers the KeyDir, and the selection is hazard-free -/
def opOk (s : St) : TOp → Prop
  | .merge sel order =>
    (∀ id, id ∈ sel → id ≤ s.active) ∧ Covers order s ∧ sel.Pairwise (· ≤ ·) ∧ NoHazard s sel
  | _ => True

open Tr in
/-- every operation of the run satisfies its side conditions in the state it is applied to -/
def ValidOps (cfg : Cfg) : St → List TOp → Prop
  | _, [] => True
  | s, op :: ops => opOk s op ∧ ValidOps cfg (stepC cfg s op).1 ops

open Tr in
/-- states reachable by sets, deletes, reads, reopens, hazard-free merges, and kills inside
    merge-free operations followed by recovery -/
inductive ReachM (cfg : Cfg) : St → Prop
  | fresh : ReachM cfg fresh
  | step {s : St} (op : TOp) : ReachM cfg s → opOk s op → ReachM cfg (stepC cfg s op).1
  | crash {s : St} (op : TOp) (c : List Call) : ReachM cfg s → mergeFree op → Cut (stepC cfg s op).2 c →
      ReachM cfg (openDisk (applyCalls s.disk c)).1

open Tr in
theorem stepC_rinv_ok (cfg : Cfg) {s : St} (h : RInv s) (hf : Full s) (op : TOp) (hop : opOk s op) :
    RInv (stepC cfg s op).1 ∧ Full (stepC cfg s op).1 ∧ (stepC cfg s op).1.abs = specOp s.abs op := by
  by_cases hm : mergeFree op
  · exact stepC_rinv cfg h hf op hm
  · cases op with
    | merge sel order =>
      obtain ⟨h1, h2, _, h4⟩ := hop
      exact ⟨(mergeWith_rinv cfg _ sel order h h1 h2).1, (mergeWith_full_iff cfg _ sel order h h1 h2).mpr h4,
        (mergeWith_inv_abs cfg _ sel order h.inv h1 h2).2⟩
    | put ts k v => exact absurd trivial hm
    | del ts k => exact absurd trivial hm
    | get k => exact absurd trivial hm
    | reopen => exact absurd trivial hm

theorem reachM_rinv {cfg : Cfg} {s : St} (h : ReachM cfg s) : RInv s ∧ Full s := by
  induction h with
  | fresh => exact fresh_rinv
  | step op _ hop ih => exact ⟨(stepC_rinv_ok cfg ih.1 ih.2 op hop).1, (stepC_rinv_ok cfg ih.1 ih.2 op hop).2.1⟩
  | crash op c _ hop hc ih =>
    rcases stepC_cut_recovers cfg ih.1 ih.2 op hop hc with r | r
    · exact ⟨r.1, r.2.1⟩
    · exact ⟨r.1, r.2.1⟩

open Tr in
/-- **a kill inside any operation** (merge passes included) -/
theorem stepC_cut_recoversW (cfg : Cfg) {s : St} (h : RInv s) (hf : Full s) (op : TOp) (hop : opOk s op)
    {c : List Call} (hc : Cut (stepC cfg s op).2 c) :
    RecoversW (applyCalls s.disk c) s.abs ∨ RecoversW (applyCalls s.disk c) (specOp s.abs op) := by
  by_cases hm : mergeFree op
  · rcases stepC_cut_recovers cfg h hf op hm hc with r | r
    · exact .inl r.weak
    · exact .inr r.weak
  · cases op with
    | merge sel order =>
      obtain ⟨h1, h2, h3, h4⟩ := hop
      exact .inl (mergeWith_cut_recovers cfg h sel order h1 h2
        (fun _ hd => noHazard_prefix_of_sorted h.asc hf h3 h4 hd) hc)
    | put ts k v => exact absurd trivial hm
    | del ts k => exact absurd trivial hm
    | get k => exact absurd trivial hm
    | reopen => exact absurd trivial hm

open Tr in
theorem runC_rinv_ok (cfg : Cfg) (ops : List TOp) : ∀ {s : St}, RInv s → Full s → ValidOps cfg s ops →
    RInv (runC cfg s ops) ∧ Full (runC cfg s ops) ∧ (runC cfg s ops).abs = specRun s.abs ops := by
  induction ops with
  | nil => intro s h hf _; exact ⟨h, hf, rfl⟩
  | cons op ops ih =>
    intro s h hf hv
    obtain ⟨a, b, c⟩ := stepC_rinv_ok cfg h hf op hv.1
    obtain ⟨a', b', c'⟩ := ih a b hv.2
    refine ⟨a', b', ?_⟩
    show (runC cfg (stepC cfg s op).1 ops).abs = specRun (specOp s.abs op) ops
    rw [c', c]

open Tr in
theorem reachM_runC {cfg : Cfg} (ops : List TOp) : ∀ {s : St}, ReachM cfg s → ValidOps cfg s ops →
    ReachM cfg (runC cfg s ops) := by
  induction ops with
  | nil => intro s h _; exact h
  | cons op ops ih => intro s h hv; exact ih (.step op h hv.1) hv.2

end Store
