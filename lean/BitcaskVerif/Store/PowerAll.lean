/-
  Power loss (C09), all operations in one durability model (`SDisk2`: data and hint files):
  `put` / `delete` with `sync = always`, `reopen`, merge passes; histories.
-/
import BitcaskVerif.Store.PowerCuts

namespace Store

open Tr

/-! ### `write` with `sync = always` -/

theorem SameFiles.of_tails {d I : Disk} {T : List (Nat × Nat)} (h : SameFiles { d with tails := T } I) :
    SameFiles d I := ⟨h.keys, h.hkeys, h.data, h.hint⟩

/-- a torn append to a data file loses no durability -/
theorem syncedAt_raw {sd : SDisk2} {id : Nat} (h : SyncedAt sd id) (a : Nat) (bs : List UInt8) :
    SyncedAt (syncCall2 sd (Call.append ⟨.data, a⟩ (.raw bs))) id := h

/-- everything durable except the last record of data file `a`: an image keeps that record or
    loses exactly it -/
theorem powerLoss2_oneShort {sd : SDisk2} {a : Nat} {recs : List Rec} {r : Rec}
    (hother : ∀ id, id ≠ a → SyncedAt sd id) (hha : (hintsOf sd.disk a).length ≤ sd.hOf a)
    (hda : dataOf sd.disk a = recs ++ [r]) (hsa : recs.length ≤ sd.dOf a) {I : Disk} (hp : PowerLoss2 sd I) :
    AL.keys I.data = AL.keys sd.disk.data ∧ AL.keys I.hint = AL.keys sd.disk.hint ∧
    (∀ fid, AL.get fid I.hint = AL.get fid sd.disk.hint) ∧
    (∀ fid, fid ≠ a → dataOf I fid = dataOf sd.disk fid) ∧
    (dataOf I a = recs ∨ dataOf I a = recs ++ [r]) := by
  obtain ⟨kD, kH, T, h1, h2, _, rfl⟩ := hp
  refine ⟨keys_map_val (fun id (rs : List Rec) => rs.take (kD id)) _,
    keys_map_val (fun id (hs : List Hint) => hs.take (kH id)) _, ?_, ?_, ?_⟩
  · intro fid
    rw [getHint_lossImage2]
    have hlen : (hintsOf sd.disk fid).length ≤ kH fid := by
      by_cases e : fid = a
      · subst e; exact Nat.le_trans hha (h2 _)
      · exact Nat.le_trans (hother fid e).2 (h2 _)
    cases hg : AL.get fid sd.disk.hint with
    | none => rfl
    | some hs =>
      simp only [hintsOf, hg, Option.getD_some] at hlen
      simp only [Option.map_some]
      rw [List.take_of_length_le hlen]
  · intro fid hf
    rw [dataOf_lossImage2]
    exact List.take_of_length_le (Nat.le_trans (hother fid hf).1 (h1 fid))
  · rw [dataOf_lossImage2, hda]
    have hk : recs.length ≤ kD a := Nat.le_trans hsa (h1 a)
    by_cases hk2 : recs.length + 1 ≤ kD a
    · right; exact List.take_of_length_le (by simp; omega)
    · left
      have : kD a = recs.length := by omega
      rw [this, List.take_left']
      rfl

/-- the three kinds of directory a power failure during `write` (`sync = always`) can leave: the
    files of the old directory, of the directory with the record appended, of the final
    directory (tails arbitrary); once the fsync has completed, not the old one -/
theorem write_powerLoss2_cases (cfg : Cfg) (hs : cfg.syncAlways = true) {s : St} (h : RInv s) (r : Rec)
    {sd0 : SDisk2} (hd : sd0.disk = s.disk) (hfs : FullySynced2 sd0) {c : List Call}
    (hc : Cut (write cfg s r).2.2 c) {I : Disk} (hp : PowerLoss2 (syncCalls2 sd0 c) I) :
    (SameFiles s.disk I ∧ Call.fsync ⟨.data, s.active⟩ ∉ c) ∨ SameFiles (appendDisk s r) I ∨
    SameFiles (write cfg s r).1.disk I := by
  obtain ⟨disk0, dsy, hsy⟩ := sd0
  simp only at hd
  subst hd
  -- after the append: everything durable except the new record
  have h1 : ∀ id, id ≠ s.active → SyncedAt ⟨appendDisk s r, dsy, hsy⟩ id := by
    intro id hid
    have := hfs id
    simp only [SyncedAt, SDisk2.dOf, SDisk2.hOf, appendDisk, dataOf_set_other _ hid] at this ⊢
    exact this
  have h1h : (hintsOf (appendDisk s r) s.active).length ≤ (⟨appendDisk s r, dsy, hsy⟩ : SDisk2).hOf s.active :=
    (hfs s.active).2
  have h1d : (dataOf s.disk s.active).length ≤ (⟨appendDisk s r, dsy, hsy⟩ : SDisk2).dOf s.active :=
    (hfs s.active).1
  have hA : syncCalls2 ⟨s.disk, dsy, hsy⟩ [Call.append ⟨.data, s.active⟩ (.ofRec r)] =
      ⟨appendDisk s r, dsy, hsy⟩ := rfl
  -- after append + fsync: everything durable
  have hfsAF : FullySynced2 (syncCalls2 ⟨s.disk, dsy, hsy⟩
      [Call.append ⟨.data, s.active⟩ (.ofRec r), Call.fsync ⟨.data, s.active⟩]) := by
    intro id
    by_cases e : id = s.active
    · subst e
      refine ⟨?_, ?_⟩
      · simp [syncCall2, dsyncAfter, hsyncAfter, applyCall, dataOf, SDisk2.dOf, AL.get_set_same]
      · exact (hfs s.active).2
    · exact syncedAt_step (sd := ⟨appendDisk s r, dsy, hsy⟩) (h1 id e) _ (by intro f p e; cases e)
  have hdAF : (syncCalls2 ⟨s.disk, dsy, hsy⟩
      [Call.append ⟨.data, s.active⟩ (.ofRec r), Call.fsync ⟨.data, s.active⟩]).disk = appendDisk s r := rfl
  rw [write_calls_sync cfg s r hs] at hc
  rcases cut_append hc with hc1 | ⟨c', rfl, h2⟩
  · rcases cut_cons hc1 with rfl | ⟨y, ⟨f, p, bs, e, _, rfl⟩, rfl⟩ | ⟨c', rfl, h3⟩
    · left
      exact ⟨powerLoss2_sameFiles hfs hp, by simp⟩
    · left
      simp only [Call.append.injEq] at e
      obtain ⟨rfl, _⟩ := e
      have hfs' : FullySynced2 (syncCalls2 ⟨s.disk, dsy, hsy⟩ [Call.append ⟨.data, s.active⟩ (.raw bs)]) :=
        fun id => syncedAt_raw (hfs id) s.active bs
      exact ⟨(powerLoss2_sameFiles hfs' hp).of_tails, by simp⟩
    · rcases cut_single_noappend (by intro f p; simp) h3 with rfl | rfl
      · rw [hA] at hp
        obtain ⟨k1, k2, k3, k4, k5⟩ := powerLoss2_oneShort h1 h1h (dataOf_set_same _ _ _) h1d hp
        have hkd : AL.keys (appendDisk s r).data = AL.keys s.disk.data := keys_set_old _ _ _ h.inv.act
        rcases k5 with k5 | k5
        · left
          refine ⟨⟨k1.trans hkd, k2, ?_, k3⟩, by simp⟩
          intro fid
          by_cases e : fid = s.active
          · subst e; exact k5
          · rw [k4 fid e]; exact dataOf_set_other _ e _
        · right; left
          refine ⟨k1, k2, ?_, k3⟩
          intro fid
          by_cases e : fid = s.active
          · subst e; rw [k5]; exact (dataOf_set_same _ _ _).symm
          · exact k4 fid e
      · right; left
        have := powerLoss2_sameFiles hfsAF hp
        rw [hdAF] at this
        exact this
  · right
    rw [syncCalls2_append] at hp
    by_cases hroll : s.written + r.len > cfg.maxFile
    · simp only [hroll, ↓reduceIte] at h2
      rcases cut_single_noappend (by intro f p; simp) h2 with rfl | rfl
      · left
        have := powerLoss2_sameFiles hfsAF hp
        rw [hdAF] at this
        exact this
      · right
        have hfin := fullySynced2_steps [Call.create ⟨.data, s.active + 1⟩] hfsAF (by
          intro c hc f p; simp only [List.mem_singleton] at hc; subst hc; simp)
        have := powerLoss2_sameFiles hfin hp
        rw [syncCalls2_disk, hdAF] at this
        have hdisk : (write cfg s r).1.disk = applyCalls (appendDisk s r) [Call.create ⟨.data, s.active + 1⟩] := by
          rw [write_roll cfg s r hroll]; rfl
        rw [hdisk]; exact this
    · simp only [hroll, ↓reduceIte] at h2
      rw [cut_nil h2] at hp
      left
      have := powerLoss2_sameFiles hfsAF hp
      rw [hdAF] at this
      exact this

/-- after the complete `write` everything is durable again -/
theorem write_fullySynced2 (cfg : Cfg) (hs : cfg.syncAlways = true) (s : St) (r : Rec)
    {sd0 : SDisk2} (hd : sd0.disk = s.disk) (hfs : FullySynced2 sd0) :
    FullySynced2 (syncCalls2 sd0 (write cfg s r).2.2) := by
  obtain ⟨disk0, dsy, hsy⟩ := sd0
  simp only at hd
  subst hd
  have h1 : ∀ id, id ≠ s.active → SyncedAt ⟨appendDisk s r, dsy, hsy⟩ id := by
    intro id hid
    have := hfs id
    simp only [SyncedAt, SDisk2.dOf, SDisk2.hOf, appendDisk, dataOf_set_other _ hid] at this ⊢
    exact this
  have hfsAF : FullySynced2 (syncCalls2 ⟨s.disk, dsy, hsy⟩
      [Call.append ⟨.data, s.active⟩ (.ofRec r), Call.fsync ⟨.data, s.active⟩]) := by
    intro id
    by_cases e : id = s.active
    · subst e
      refine ⟨?_, ?_⟩
      · simp [syncCall2, dsyncAfter, hsyncAfter, applyCall, dataOf, SDisk2.dOf, AL.get_set_same]
      · exact (hfs s.active).2
    · exact syncedAt_step (sd := ⟨appendDisk s r, dsy, hsy⟩) (h1 id e) _ (by intro f p e; cases e)
  rw [write_calls_sync cfg s r hs, syncCalls2_append]
  apply fullySynced2_steps _ hfsAF
  intro c hc f p
  split at hc
  · simp only [List.mem_singleton] at hc; subst hc; simp
  · cases hc

/-! ### operations -/

theorem recoversW_sameFiles_of_state {t : St} (h : RInv t) (hf : Full t) {d I : Disk} (hd : t.disk = d)
    (hs : SameFiles d I) : RecoversW I t.abs := by
  subst hd
  exact recoversW_sameFiles (clean_of_rinv h hf) (abs_eq_absOf t).symm hs

/-- **power failure inside a `put`** (`sync = always`, one durability model for all operations) -/
theorem put_powerLoss2_recovers (cfg : Cfg) (hs : cfg.syncAlways = true) {s : St} (h : RInv s) (hf : Full s)
    {sd0 : SDisk2} (hd : sd0.disk = s.disk) (hfs : FullySynced2 sd0) (ts : Int) (k : Key) (v : Val)
    {c : List Call} (hc : Cut (put cfg s ts k v).2 c) {I : Disk} (hp : PowerLoss2 (syncCalls2 sd0 c) I) :
    (RecoversW I s.abs ∧ Call.fsync ⟨.data, s.active⟩ ∉ c) ∨ RecoversW I (s.abs.set k v) := by
  rw [Tr.put_calls] at hc
  rcases write_powerLoss2_cases cfg hs h _ hd hfs hc hp with ⟨e, hn⟩ | e | e
  · exact .inl ⟨recoversW_sameFiles_of_state h hf rfl e, hn⟩
  · right
    rw [← put_abs (noRollCfg cfg s _) s ts k v h.inv]
    exact recoversW_sameFiles_of_state (put_rinv _ s ts k v h).1 ((put_rinv _ s ts k v h).2 hf)
      (by rw [Store.put_disk, write_noRollCfg]) e
  · right
    rw [← put_abs cfg s ts k v h.inv]
    exact recoversW_sameFiles_of_state (put_rinv _ s ts k v h).1 ((put_rinv _ s ts k v h).2 hf)
      (Store.put_disk ..) e

theorem delete_powerLoss2_recovers (cfg : Cfg) (hs : cfg.syncAlways = true) {s : St} (h : RInv s) (hf : Full s)
    {sd0 : SDisk2} (hd : sd0.disk = s.disk) (hfs : FullySynced2 sd0) (ts : Int) (k : Key)
    {c : List Call} (hc : Cut (delete cfg s ts k).2.2 c) {I : Disk} (hp : PowerLoss2 (syncCalls2 sd0 c) I) :
    (RecoversW I s.abs ∧ Call.fsync ⟨.data, s.active⟩ ∉ c) ∨ RecoversW I (s.abs.del k) := by
  rw [Tr.delete_calls] at hc
  rcases write_powerLoss2_cases cfg hs h _ hd hfs hc hp with ⟨e, hn⟩ | e | e
  · exact .inl ⟨recoversW_sameFiles_of_state h hf rfl e, hn⟩
  · right
    rw [← (delete_abs (noRollCfg cfg s _) s ts k h.inv).1]
    exact recoversW_sameFiles_of_state (delete_rinv _ s ts k h).1 ((delete_rinv _ s ts k h).2 hf)
      (by rw [Store.delete_disk, write_noRollCfg]) e
  · right
    rw [← (delete_abs cfg s ts k h.inv).1]
    exact recoversW_sameFiles_of_state (delete_rinv _ s ts k h).1 ((delete_rinv _ s ts k h).2 hf)
      (Store.delete_disk ..) e

theorem reopen_powerLoss2_recovers {s : St} (h : RInv s) (hf : Full s) {sd0 : SDisk2} (hd : sd0.disk = s.disk)
    (hfs : FullySynced2 sd0) {c : List Call} (hc : Cut (reopen s).2 c) {I : Disk}
    (hp : PowerLoss2 (syncCalls2 sd0 c) I) : RecoversW I s.abs := by
  rcases cut_single_noappend (by intro f p; simp) hc with rfl | rfl
  · have := powerLoss2_sameFiles hfs hp
    rw [hd] at this
    exact recoversW_sameFiles_of_state h hf rfl this
  · have hfs' := fullySynced2_steps (reopen s).2 hfs (by
      intro c hc f p
      have : c = Call.create ⟨.data, (reopen s).1.active⟩ := by simpa [reopen_calls] using hc
      subst this; simp)
    have := powerLoss2_sameFiles hfs' hp
    rw [syncCalls2_disk, hd] at this
    rw [← reopen_abs h hf]
    exact recoversW_sameFiles_of_state (reopen_rinv h).1 (reopen_rinv h).2.1 rfl this

/-- **power failure inside any operation** (`sync = always`; sets, deletes, reads, reopens, and
    merge passes satisfying `opOk`) -/
theorem stepC_powerLoss2_recovers (cfg : Cfg) (hs : cfg.syncAlways = true) {s : St} (h : RInv s) (hf : Full s)
    {sd0 : SDisk2} (hd : sd0.disk = s.disk) (hfs : FullySynced2 sd0) (op : TOp) (hop : opOk s op)
    {c : List Call} (hc : Cut (stepC cfg s op).2 c) {I : Disk} (hp : PowerLoss2 (syncCalls2 sd0 c) I) :
    (RecoversW I s.abs ∨ RecoversW I (specOp s.abs op)) ∧
    (c = (stepC cfg s op).2 → RecoversW I (specOp s.abs op)) := by
  cases op with
  | put ts k v =>
    rcases put_powerLoss2_recovers cfg hs h hf hd hfs ts k v hc hp with ⟨r, hn⟩ | r
    · refine ⟨.inl r, ?_⟩
      intro e
      exfalso; apply hn
      rw [e]
      show _ ∈ (put cfg s ts k v).2
      rw [Tr.put_calls, write_calls_sync cfg s _ hs]; simp
    · exact ⟨.inr r, fun _ => r⟩
  | del ts k =>
    rcases delete_powerLoss2_recovers cfg hs h hf hd hfs ts k hc hp with ⟨r, hn⟩ | r
    · refine ⟨.inl r, ?_⟩
      intro e
      exfalso; apply hn
      rw [e]
      show _ ∈ (delete cfg s ts k).2.2
      rw [Tr.delete_calls, write_calls_sync cfg s _ hs]; simp
    · exact ⟨.inr r, fun _ => r⟩
  | get k =>
    have hc' : c = [] := cut_nil hc
    subst hc'
    have := powerLoss2_sameFiles hfs hp
    rw [hd] at this
    have r := recoversW_sameFiles_of_state h hf rfl this
    exact ⟨.inl r, fun _ => r⟩
  | merge sel order =>
    obtain ⟨h1, h2, h3, h4⟩ := hop
    have r := mergeWith_powerLoss_recovers cfg h sel order h1 h2
      (fun _ hd => noHazard_prefix_of_sorted h.asc hf h3 h4 hd) hd hfs hc hp
    exact ⟨.inl r, fun _ => r⟩
  | reopen =>
    have r := reopen_powerLoss2_recovers h hf hd hfs hc hp
    exact ⟨.inl r, fun _ => r⟩

/-! ### histories -/

theorem stepC_frame_all (cfg : Cfg) (s : St) (op : TOp) :
    applyCalls s.disk (stepC cfg s op).2 = (stepC cfg s op).1.disk := by
  cases op with
  | put ts k v => exact put_frame cfg s ts k v
  | del ts k => exact delete_frame cfg s ts k
  | get k => rfl
  | merge sel order => exact mergeWith_frame cfg s sel order
  | reopen => rfl

/-- with `sync = always` everything is durable again when an operation returns (merge passes:
    for every configuration) -/
theorem stepC_fullySynced2 (cfg : Cfg) (hs : cfg.syncAlways = true) {s : St} (h : RInv s) (hf : Full s)
    {sd0 : SDisk2} (hd : sd0.disk = s.disk) (hfs : FullySynced2 sd0) (op : TOp) (hop : opOk s op) :
    FullySynced2 (syncCalls2 sd0 (stepC cfg s op).2) := by
  cases op with
  | put ts k v => exact write_fullySynced2 cfg hs s _ hd hfs
  | del ts k => exact write_fullySynced2 cfg hs s _ hd hfs
  | get k => exact hfs
  | merge sel order =>
    obtain ⟨h1, _, _, _⟩ := hop
    obtain ⟨pi, _⟩ := mergeLoop_pcuts cfg h hf sel h1 order hfs
    obtain ⟨post, e, hpost⟩ := mergeWith_calls_tail cfg s sel order
    show FullySynced2 (syncCalls2 sd0 (mergeWith cfg s sel order).2)
    have e3 : (mergeLoop cfg s sel order).calls ++
        (Call.fsync ⟨.data, (mergeLoop cfg s sel order).mid⟩ ::
         Call.fsync ⟨.hint, (mergeLoop cfg s sel order).mid⟩ :: post) =
        ((mergeLoop cfg s sel order).calls ++ [Call.fsync ⟨.data, (mergeLoop cfg s sel order).mid⟩,
          Call.fsync ⟨.hint, (mergeLoop cfg s sel order).mid⟩]) ++ post := by simp
    rw [e, e3, syncCalls2_append, syncCalls2_append]
    exact fullySynced2_steps _ (allBut_fsyncs pi.sync) hpost
  | reopen =>
    exact fullySynced2_steps (reopen s).2 hfs (by
      intro c hc f p
      have : c = Call.create ⟨.data, (reopen s).1.active⟩ := by simpa [reopen_calls] using hc
      subst this; simp)

theorem runC_sync2 (cfg : Cfg) (hs : cfg.syncAlways = true) (ops : List TOp) : ∀ {s : St} (sd0 : SDisk2),
    RInv s → Full s → sd0.disk = s.disk → FullySynced2 sd0 → ValidOps cfg s ops →
    (syncCalls2 sd0 (traceOf cfg s ops)).disk = (runC cfg s ops).disk ∧
      FullySynced2 (syncCalls2 sd0 (traceOf cfg s ops)) := by
  induction ops with
  | nil => intro s sd0 _ _ hd hfs _; exact ⟨hd, hfs⟩
  | cons op ops ih =>
    intro s sd0 h hf hd hfs hv
    have h1 := stepC_fullySynced2 cfg hs h hf hd hfs op hv.1
    have hd1 : (syncCalls2 sd0 (stepC cfg s op).2).disk = (stepC cfg s op).1.disk := by
      rw [syncCalls2_disk, hd]; exact stepC_frame_all cfg s op
    obtain ⟨a, b, _⟩ := stepC_rinv_ok cfg h hf op hv.1
    obtain ⟨e1, e2⟩ := ih (syncCalls2 sd0 (stepC cfg s op).2) a b hd1 h1 hv.2
    show (syncCalls2 sd0 ((stepC cfg s op).2 ++ traceOf cfg (stepC cfg s op).1 ops)).disk = _ ∧
      FullySynced2 (syncCalls2 sd0 ((stepC cfg s op).2 ++ traceOf cfg (stepC cfg s op).1 ops))
    rw [syncCalls2_append]
    exact ⟨e1, e2⟩

/-- **power failure anywhere in a history with merges** (`sync = always`) -/
theorem history_powerLoss2_recovers (cfg : Cfg) (hs : cfg.syncAlways = true) {s : St} (h : RInv s) (hf : Full s)
    {sd0 : SDisk2} (hd : sd0.disk = s.disk) (hfs : FullySynced2 sd0) (ops : List TOp) (hv : ValidOps cfg s ops)
    (op : TOp) (hop : opOk (runC cfg s ops) op) {c : List Call} (hc : Cut (stepC cfg (runC cfg s ops) op).2 c)
    {I : Disk} (hp : PowerLoss2 (syncCalls2 sd0 (traceOf cfg s ops ++ c)) I) :
    (RecoversW I (specRun s.abs ops) ∨ RecoversW I (specOp (specRun s.abs ops) op)) ∧
    (c = (stepC cfg (runC cfg s ops) op).2 → RecoversW I (specOp (specRun s.abs ops) op)) := by
  obtain ⟨e1, e2⟩ := runC_sync2 cfg hs ops sd0 h hf hd hfs hv
  obtain ⟨a, b, e⟩ := runC_rinv_ok cfg ops h hf hv
  rw [syncCalls2_append] at hp
  have := stepC_powerLoss2_recovers cfg hs a b e1 e2 op hop hc hp
  rw [e] at this
  exact this

theorem fullySynced2_fresh : FullySynced2 ⟨fresh.disk, [], []⟩ := by
  intro id
  by_cases e : id = 0
  · subst e; simp [SyncedAt, fresh, dataOf, hintsOf, AL.get, SDisk2.dOf, SDisk2.hOf]
  · simp [SyncedAt, fresh, dataOf, hintsOf, AL.get, SDisk2.dOf, SDisk2.hOf, Ne.symm e]

/-- "everything is durable" as bookkeeping (e.g. right after an open) -/
def allSynced2 (d : Disk) : SDisk2 :=
  ⟨d, d.data.map (fun p => (p.1, p.2.length)), d.hint.map (fun p => (p.1, p.2.length))⟩

theorem fullySynced2_all (d : Disk) : FullySynced2 (allSynced2 d) := by
  intro id
  simp only [SyncedAt, allSynced2, dataOf, hintsOf, SDisk2.dOf, SDisk2.hOf]
  rw [get_map_val (fun _ (rs : List Rec) => rs.length), get_map_val (fun _ (hs : List Hint) => hs.length)]
  cases AL.get id d.data <;> cases AL.get id d.hint <;> simp

end Store
