/-
  Crash histories without merges (C03): lives of acknowledged operations, each ended by a kill at
  an arbitrary cut of the operation in flight, followed by recovery.  The set of states reachable
  this way (`ReachC`) satisfies the recovery invariant, so the crash-cut theorems compose over any
  number of lives.
-/
import BitcaskVerif.Store.CutRecover

namespace Store

open Tr

/-- the operation is not a merge pass -/
def mergeFree : TOp → Prop
  | .merge _ _ => False
  | _ => True

instance (op : TOp) : Decidable (mergeFree op) := by
  cases op <;> unfold mergeFree <;> infer_instance

/-- the operation on the abstract map -/
def specOp (m : Map) : TOp → Map
  | .put _ k v => m.set k v
  | .del _ k => m.del k
  | _ => m

def specRun (m : Map) (ops : List TOp) : Map := ops.foldl specOp m

/-- one merge-free operation keeps "recovery invariant + nothing absent resurrectable" and acts
    on the contents as on the abstract map -/
theorem stepC_rinv (cfg : Cfg) {s : St} (h : RInv s) (hf : Full s) (op : TOp) (hop : mergeFree op) :
    RInv (stepC cfg s op).1 ∧ Full (stepC cfg s op).1 ∧ (stepC cfg s op).1.abs = specOp s.abs op := by
  cases op with
  | put ts k v =>
    exact ⟨(put_rinv cfg s ts k v h).1, (put_rinv cfg s ts k v h).2 hf, put_abs cfg s ts k v h.inv⟩
  | del ts k =>
    exact ⟨(delete_rinv cfg s ts k h).1, (delete_rinv cfg s ts k h).2 hf, (delete_abs cfg s ts k h.inv).1⟩
  | get k => exact ⟨h, hf, rfl⟩
  | merge sel order => exact absurd hop (by simp [mergeFree])
  | reopen => exact ⟨(reopen_rinv h).1, (reopen_rinv h).2.1, reopen_abs h hf⟩

theorem runC_rinv (cfg : Cfg) (ops : List TOp) : ∀ {s : St}, RInv s → Full s → (∀ op ∈ ops, mergeFree op) →
    RInv (runC cfg s ops) ∧ Full (runC cfg s ops) ∧ (runC cfg s ops).abs = specRun s.abs ops := by
  induction ops with
  | nil => intro s h hf _; exact ⟨h, hf, rfl⟩
  | cons op ops ih =>
    intro s h hf hm
    obtain ⟨a, b, c⟩ := stepC_rinv cfg h hf op (hm op List.mem_cons_self)
    obtain ⟨a', b', c'⟩ := ih a b (fun o ho => hm o (List.mem_cons_of_mem _ ho))
    refine ⟨a', b', ?_⟩
    show (runC cfg (stepC cfg s op).1 ops).abs = specRun (specOp s.abs op) ops
    rw [c', c]

/-- **a crash inside one merge-free operation**: the directory opens, and the store reads as
    before the operation or as after it -/
theorem stepC_cut_recovers (cfg : Cfg) {s : St} (h : RInv s) (hf : Full s) (op : TOp) (hop : mergeFree op)
    {c : List Call} (hc : Cut (stepC cfg s op).2 c) :
    Recovers (applyCalls s.disk c) s.abs ∨ Recovers (applyCalls s.disk c) (specOp s.abs op) := by
  cases op with
  | put ts k v => exact put_cut_recovers cfg h hf ts k v hc
  | del ts k => exact delete_cut_recovers cfg h hf ts k hc
  | get k => rw [cut_nil hc]; exact .inl (recovers_self h hf)
  | merge sel order => exact absurd hop (by simp [mergeFree])
  | reopen => exact .inl (reopen_cut_recovers h hf hc)

/-- states reachable by merge-free operations, kills at arbitrary cuts, and recoveries -/
inductive ReachC (cfg : Cfg) : St → Prop
  | fresh : ReachC cfg fresh
  | step {s : St} (op : TOp) : ReachC cfg s → mergeFree op → ReachC cfg (stepC cfg s op).1
  | crash {s : St} (op : TOp) (c : List Call) : ReachC cfg s → mergeFree op → Cut (stepC cfg s op).2 c →
      ReachC cfg (openDisk (applyCalls s.disk c)).1

theorem reachC_rinv {cfg : Cfg} {s : St} (h : ReachC cfg s) : RInv s ∧ Full s := by
  induction h with
  | fresh => exact fresh_rinv
  | step op _ hop ih => exact ⟨(stepC_rinv cfg ih.1 ih.2 op hop).1, (stepC_rinv cfg ih.1 ih.2 op hop).2.1⟩
  | crash op c _ hop hc ih =>
    rcases stepC_cut_recovers cfg ih.1 ih.2 op hop hc with r | r
    · exact ⟨r.1, r.2.1⟩
    · exact ⟨r.1, r.2.1⟩

theorem ReachPD.toReachC {cfg : Cfg} {s : St} (h : ReachPD cfg s) : ReachC cfg s := by
  induction h with
  | fresh => exact .fresh
  | put ts k v _ ih => exact .step (.put ts k v) ih trivial
  | delete ts k _ ih => exact .step (.del ts k) ih trivial
  | reopen _ ih => exact .step .reopen ih trivial

theorem reachC_runC {cfg : Cfg} (ops : List TOp) : ∀ {s : St}, ReachC cfg s → (∀ op ∈ ops, mergeFree op) →
    ReachC cfg (runC cfg s ops) := by
  induction ops with
  | nil => intro s h _; exact h
  | cons op ops ih =>
    intro s h hm
    exact ih (.step op h (hm op List.mem_cons_self)) (fun o ho => hm o (List.mem_cons_of_mem _ ho))

/-! ### several lives -/

/-- one life of the store: the acknowledged operations, the operation in flight when the process
    is killed, and what that operation had done to the directory by then -/
structure Life where
  acked : List TOp
  inflight : TOp
  cut : List Call

/-- the store after the life's crash and the following recovery -/
def crashLife (cfg : Cfg) (s : St) (l : Life) : St :=
  (openDisk (applyCalls (runC cfg s l.acked).disk l.cut)).1

def ValidLife (cfg : Cfg) (s : St) (l : Life) : Prop :=
  (∀ op ∈ l.acked, mergeFree op) ∧ mergeFree l.inflight ∧
    Cut (stepC cfg (runC cfg s l.acked) l.inflight).2 l.cut

def runLives (cfg : Cfg) : St → List Life → St
  | s, [] => s
  | s, l :: ls => runLives cfg (crashLife cfg s l) ls

def ValidLives (cfg : Cfg) : St → List Life → Prop
  | _, [] => True
  | s, l :: ls => ValidLife cfg s l ∧ ValidLives cfg (crashLife cfg s l) ls

/-- the contents the specification allows after the lives: in every life all acknowledged
    operations are applied, the one in flight is applied or not -/
def SpecLives : Map → List Life → Map → Prop
  | m, [], m' => m' = m
  | m, l :: ls, m' =>
    SpecLives (specRun m l.acked) ls m' ∨ SpecLives (specOp (specRun m l.acked) l.inflight) ls m'

theorem crashLife_spec (cfg : Cfg) {s : St} (h : ReachC cfg s) (l : Life) (hv : ValidLife cfg s l) :
    ReachC cfg (crashLife cfg s l) ∧
    ((crashLife cfg s l).abs = specRun s.abs l.acked ∨
     (crashLife cfg s l).abs = specOp (specRun s.abs l.acked) l.inflight) := by
  obtain ⟨h1, h2, h3⟩ := hv
  have hr := reachC_runC l.acked h h1
  obtain ⟨a, b, c⟩ := runC_rinv cfg l.acked (reachC_rinv h).1 (reachC_rinv h).2 h1
  refine ⟨.crash l.inflight l.cut hr h2 h3, ?_⟩
  rcases stepC_cut_recovers cfg a b l.inflight h2 h3 with r | r
  · left; rw [← c]; exact r.2.2
  · right; rw [← c]; exact r.2.2

theorem runLives_spec (cfg : Cfg) (ls : List Life) : ∀ {s : St}, ReachC cfg s → ValidLives cfg s ls →
    ReachC cfg (runLives cfg s ls) ∧ SpecLives s.abs ls (runLives cfg s ls).abs := by
  induction ls with
  | nil => intro s h _; exact ⟨h, rfl⟩
  | cons l ls ih =>
    intro s h hv
    obtain ⟨a, b⟩ := crashLife_spec cfg h l hv.1
    obtain ⟨c, d⟩ := ih a hv.2
    refine ⟨c, ?_⟩
    rcases b with b | b
    · left; rw [← b]; exact d
    · right; rw [← b]; exact d

end Store
