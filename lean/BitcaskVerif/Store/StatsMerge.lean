/-
  C19 helper lemmas, part 4: a merge pass keeps the counting invariant `AccInv` and the
  directory well-formedness `DiskWf`.  During the loop the counters of the selected files are
  not maintained (the files are about to be removed); exactness is kept for all other files.
-/
import BitcaskVerif.Store.MergeShape
import BitcaskVerif.Store.DiskWf

namespace Store.Stats
open Store

/-- loop invariant of the merge for accounting and directory shape -/
structure MAcc (sel : List Nat) (m : MergeSt) : Prop where
  kdNodup : (AL.keys m.s.keydir).Nodup
  files : ∀ f, f ∉ sel → FileAcc m.s.keydir m.s.stats f (dataOf m.s.disk f)
  notBad : m.s.bad = false
  statsNodup : (AL.keys m.s.stats).Nodup
  dnodup : (AL.keys m.s.disk.data).Nodup
  tails : m.s.disk.tails = []
  hints : ∀ f hs, AL.get f m.s.disk.hint = some hs → HintsMatch hs (dataOf m.s.disk f) 0
  midHint : (AL.get m.mid m.s.disk.hint).isSome

theorem dataOf_moveDisk (m : MergeSt) (k : Key) (loc : Loc) (r : Rec) (f : Nat) :
    dataOf (moveDisk m k loc r) f = if f = m.mid then dataOf m.s.disk m.mid ++ [r] else dataOf m.s.disk f := by
  unfold moveDisk dataOf
  simp only [AL.get_set]
  by_cases e : f = m.mid <;> simp [e]

theorem dataOf_rollDisk (d : Disk) (mid' : Nat) (hnew : mid' ∉ AL.keys d.data) (f : Nat) :
    dataOf (rollDisk d mid') f = dataOf d f := by
  unfold rollDisk dataOf
  simp only [AL.get_set]
  by_cases e : f = mid'
  · subst e; simp [get_none_of_not_mem hnew]
  · simp [e]

theorem dataOf_newActive (s : St) (fid : Nat) (hnew : fid ∉ AL.keys s.disk.data) (f : Nat) :
    dataOf (newActive s fid).1.disk f = dataOf s.disk f := by
  unfold newActive dataOf
  simp only [AL.get_set]
  by_cases e : f = fid
  · subst e; simp [get_none_of_not_mem hnew]
  · simp [e]

theorem moveDisk_keys_le {A : Nat} {abs0 : Map} {m : MergeSt} (h : MInv A abs0 m) (k : Key) (loc : Loc) (r : Rec) :
    m.mid + 1 ∉ AL.keys (moveDisk m k loc r).data := by
  intro hm
  simp only [moveDisk] at hm
  rcases mem_keys_set hm with e | e
  · omega
  · have := h.ids _ e; omega

theorem macc_moved {A : Nat} {abs0 : Map} {sel : List Nat} (hselA : ∀ id, id ∈ sel → id ≤ A)
    {m : MergeSt} (hm : MInv A abs0 m) (h : MAcc sel m) (k : Key) (loc : Loc) (r : Rec)
    (hk : AL.get k m.s.keydir = some loc) (hsel : loc.fid ∈ sel) (h2 : r.key = k) (h3 : r.val.isSome)
    (h4 : r.len = loc.len) : MAcc sel (movedM m k loc r) := by
  have hmidsel : m.mid ∉ sel := fun hc => by have := hselA _ hc; have := hm.midgt; omega
  constructor
  · simp only [movedM, moveSt]; exact nodup_set h.kdNodup
  · intro f hf
    simp only [movedM, moveSt, newLocOf, dataOf_moveDisk]
    have := (h.files f hf).move_step m.mid r k m.mpos loc.ts
      (fun p hp e => by rw [hk] at hp; cases hp; exact hf (e ▸ hsel))
    rw [h4] at this
    by_cases e : f = m.mid
    · rw [e] at this ⊢; exact this
    · simp only [e, ↓reduceIte] at this ⊢; exact this
  · simp only [movedM, moveSt, h.notBad, h4]; simp
  · simp only [movedM, moveSt]; exact nodup_updStat h.statsNodup _ _
  · simp only [movedM, moveSt, moveDisk]; exact nodup_set h.dnodup
  · simp only [movedM, moveSt, moveDisk]; exact h.tails
  · intro f hs hf
    simp only [movedM, moveSt] at hf ⊢
    rw [dataOf_moveDisk]
    simp only [moveDisk, AL.get_set] at hf
    by_cases e : f = m.mid
    · simp only [e, ↓reduceIte, Option.some.injEq] at hf ⊢
      subst hf
      cases hg : AL.get m.mid m.s.disk.hint with
      | none => have := h.midHint; rw [hg] at this; cases this
      | some hs0 =>
        simp only [Option.getD_some]
        apply (h.hints m.mid hs0 hg).append
        · simp only [Nat.zero_add]; exact hm.pos
        · exact h4.symm
        · exact h2.symm
        · exact h3
    · simp only [e, ↓reduceIte] at hf ⊢
      exact h.hints f hs hf
  · simp [movedM, moveSt, moveDisk, AL.get_set_same]

theorem macc_rolled {A : Nat} {abs0 : Map} {sel : List Nat}
    {m : MergeSt} (hm : MInv A abs0 m) (k : Key) (loc : Loc) (r : Rec)
    (h : MAcc sel (movedM m k loc r)) : MAcc sel (rolledM m k loc r) := by
  have hnew := moveDisk_keys_le hm k loc r
  constructor
  · exact h.kdNodup
  · intro f hf
    have := h.files f hf
    simp only [movedM, moveSt] at this
    simp only [rolledM, moveSt, dataOf_rollDisk _ _ hnew]
    exact this
  · exact h.notBad
  · exact h.statsNodup
  · simp only [rolledM, rollDisk]; exact nodup_set h.dnodup
  · simp only [rolledM, rollDisk]; exact h.tails
  · intro f hs hf
    simp only [rolledM] at hf ⊢
    rw [dataOf_rollDisk _ _ hnew]
    simp only [rollDisk, AL.get_set] at hf
    by_cases e : f = m.mid + 1
    · simp only [e, ↓reduceIte, Option.some.injEq] at hf
      subst hf
      rw [e, dataOf_absent hnew]
      trivial
    · simp only [e, ↓reduceIte] at hf
      exact h.hints f hs hf
  · simp [rolledM, rollDisk, AL.get_set_same]

theorem macc_step {A : Nat} {abs0 : Map} (cfg : Cfg) {sel : List Nat} (hselA : ∀ id, id ∈ sel → id ≤ A)
    (m : MergeSt) (k : Key) (hm : MInv A abs0 m) (h : MAcc sel m) : MAcc sel (mergeStep cfg sel m k) := by
  apply mergeStep_cases cfg sel m k hm (MAcc sel) h
  intro loc r hk hsel _ h2 h3 h4 _
  have := macc_moved hselA hm h k loc r hk hsel h2 h3 h4
  exact ⟨this, macc_rolled hm k loc r this⟩

theorem macc_m0 {s : St} (hi : Inv s) (h : AccInv s) (hw : DiskWf s) (sel : List Nat) : MAcc sel (m0 s) := by
  have hnew : s.active + 1 ∉ AL.keys s.disk.data := fun hm => by have := hi.ids _ hm; omega
  constructor
  · exact h.kdNodup
  · intro f _
    simp only [m0, dataOf_rollDisk _ _ hnew]
    exact h.files f
  · exact h.notBad
  · exact h.statsNodup
  · simp only [m0, rollDisk]; exact nodup_set hw.dnodup
  · simp only [m0, rollDisk]; exact hw.tails
  · intro f hs hf
    simp only [m0] at hf ⊢
    rw [dataOf_rollDisk _ _ hnew]
    simp only [rollDisk, AL.get_set] at hf
    by_cases e : f = s.active + 1
    · simp only [e, ↓reduceIte, Option.some.injEq] at hf
      subst hf
      rw [e, dataOf_absent hnew]
      trivial
    · simp only [e, ↓reduceIte] at hf
      exact hw.hints f hs hf
  · simp [m0, rollDisk, AL.get_set_same]

/-- **a merge pass keeps the counting invariant and the directory well-formed** -/
theorem mergeWith_acc (cfg : Cfg) (s : St) (sel : List Nat) (order : List Key) (hi : Inv s)
    (h : AccInv s) (hw : DiskWf s) (hsel : ∀ id, id ∈ sel → id ≤ s.active) (hcov : Covers order s) :
    AccInv (mergeWith cfg s sel order).1 ∧ DiskWf (mergeWith cfg s sel order).1 := by
  obtain ⟨hM, hunsel⟩ := mergeLoop_spec cfg s sel order hi hsel hcov
  have hA : MAcc sel (mergeLoop cfg s sel order) :=
    mergeFold_induct cfg sel hsel (MAcc sel) (fun m k hm hp => macc_step cfg hsel m k hm hp) order _
      (m0_minv hi) (macc_m0 hi h hw sel)
  obtain ⟨sy, hres⟩ := mergeWith_fst cfg s sel order
  rw [hres]
  generalize mergeLoop cfg s sel order = m at hM hunsel hA
  have hkd : (sel.foldl unlinkOne (m.s, sy)).1.keydir = m.s.keydir := unlinkFold_keydir sel _
  have hnew : m.mid + 1 ∉ AL.keys (sel.foldl unlinkOne (m.s, sy)).1.disk.data := fun hm => by
    have := hM.ids _ (unlinkFold_keys sel _ _ hm).2; omega
  have hdata : ∀ f, dataOf (newActive (sel.foldl unlinkOne (m.s, sy)).1 (m.mid + 1)).1.disk f =
      if f ∈ sel then [] else dataOf m.s.disk f := by
    intro f
    rw [dataOf_newActive _ _ hnew, unlinkFold_dataOf]
  constructor
  · constructor
    · simp only [newActive, hkd]; exact hA.kdNodup
    · intro f
      rw [hdata f]
      simp only [newActive, hkd]
      by_cases e : f ∈ sel
      · simp only [e, ↓reduceIte]
        apply FileAcc.empty
        · intro k l hm e'
          exact hunsel k l (get_of_mem hA.kdNodup hm) (e' ▸ e)
        · rw [unlinkFold_stats]; simp [e]
      · simp only [e, ↓reduceIte]
        apply (hA.files f e).of_get_eq
        rw [unlinkFold_stats]; simp [e]
    · simp only [newActive, unlinkFold_bad]; exact hA.notBad
    · simp only [newActive]; exact unlinkFold_snodup sel _ hA.statsNodup
  · constructor
    · simp only [newActive]; exact nodup_set (unlinkFold_dnodup sel _ hA.dnodup)
    · simp only [newActive, unlinkFold_tails]; exact hA.tails
    · intro f hs hf
      rw [hdata f]
      simp only [newActive] at hf
      rw [unlinkFold_hint] at hf
      by_cases e : f ∈ sel
      · simp [e] at hf
      · simp only [e, ↓reduceIte] at hf ⊢
        exact hA.hints f hs hf
    · simp only [newActive]
      apply get_none_of_not_mem
      intro hm
      have := hM.hids _ (unlinkFold_hkeys sel _ _ hm).2
      omega

end Store.Stats
