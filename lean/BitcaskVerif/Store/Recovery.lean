/-
  What the startup scan (`rebuild` / `openDisk`) recovers, expressed through the events of the
  directory: with data-file ids listed in ascending order and hint files that list exactly the
  records of their data file, the recovered KeyDir is `replay (allEvs d.data)` — "the last
  record of each key wins, a tombstone removes".
-/
import BitcaskVerif.Store.Events

namespace Store

/-- a KeyDir as a function -/
def kdF (kd : List (Key × Loc)) : IdxF := fun k => AL.get k kd

theorem Idx.account_keydir (ix : Idx) (p : Option Loc) : (ix.account p).keydir = ix.keydir := by
  unfold Idx.account; cases p <;> rfl

/-! ### one data file -/

/-- the loop body of `scanData` -/
def scanStep (fid : Nat) (acc : Idx × Nat) (r : Rec) : Idx × Nat :=
  let (ix, pos) := acc
  let len := r.len
  match r.val with
  | none =>
    let ix1 := { ix with stats := updStat ix.stats fid (·.addDead len) }
    let prev := AL.get r.key ix1.keydir
    (({ ix1 with keydir := AL.del r.key ix1.keydir } : Idx).account prev, pos + len)
  | some _ =>
    let loc : Loc := { fid := fid, pos := pos, len := len, ts := r.ts }
    let ix1 := { ix with stats := updStat ix.stats fid (·.addLive) }
    let prev := AL.get r.key ix1.keydir
    (({ ix1 with keydir := AL.set r.key loc ix1.keydir } : Idx).account prev, pos + len)

theorem scanData_eq (fid : Nat) (ix : Idx) (rs : List Rec) :
    scanData fid ix rs = (rs.foldl (scanStep fid) (ix, 0)).1 := rfl

theorem scanStep_spec (fid : Nat) (ix : Idx) (pos : Nat) (r : Rec) :
    ∃ ix', scanStep fid (ix, pos) r = (ix', pos + r.len) ∧
      kdF ix'.keydir = applyEv (kdF ix.keydir) (mkEv fid pos r) := by
  unfold scanStep
  cases hv : r.val with
  | none =>
    refine ⟨_, rfl, ?_⟩
    rw [Idx.account_keydir]
    funext k
    simp only [kdF, applyEv, mkEv, hv, Option.isNone_none, ↓reduceIte, AL.get_del]
  | some v =>
    refine ⟨_, rfl, ?_⟩
    rw [Idx.account_keydir]
    funext k
    simp only [kdF, applyEv, mkEv, hv, Option.isNone_some, Bool.false_eq_true, ↓reduceIte, AL.get_set]

theorem scanFold_keydir (fid : Nat) (rs : List Rec) : ∀ (ix : Idx) (pos : Nat),
    kdF (rs.foldl (scanStep fid) (ix, pos)).1.keydir =
      (evData fid rs pos).foldl applyEv (kdF ix.keydir) := by
  induction rs with
  | nil => intro ix pos; rfl
  | cons r rs ih =>
    intro ix pos
    obtain ⟨ix', h1, h2⟩ := scanStep_spec fid ix pos r
    simp only [List.foldl_cons, evData, h1, ih, h2]

theorem scanData_keydir (fid : Nat) (ix : Idx) (rs : List Rec) :
    kdF (scanData fid ix rs).keydir = (evData fid rs 0).foldl applyEv (kdF ix.keydir) := by
  rw [scanData_eq]; exact scanFold_keydir fid rs ix 0

/-! ### one hint file -/

/-- the loop body of `scanHints` -/
def hintStep (fid : Nat) (ix : Idx) (h : Hint) : Idx :=
  let loc : Loc := { fid := fid, pos := h.pos, len := h.len, ts := h.ts }
  let ix1 := { ix with stats := updStat ix.stats fid (·.addLive) }
  let prev := AL.get h.key ix1.keydir
  ({ ix1 with keydir := AL.set h.key loc ix1.keydir } : Idx).account prev

theorem scanHints_eq (fid : Nat) (ix : Idx) (hs : List Hint) (dataLen : Nat) :
    scanHints fid ix hs dataLen =
      (hs.takeWhile fun h => h.pos + h.len ≤ dataLen).foldl (hintStep fid) ix := rfl

theorem hintStep_keydir (fid : Nat) (ix : Idx) (h : Hint) :
    kdF (hintStep fid ix h).keydir = applyEv (kdF ix.keydir) (hintEv fid h) := by
  unfold hintStep
  simp only [Idx.account_keydir]
  funext k
  simp only [kdF, applyEv, hintEv, Bool.false_eq_true, ↓reduceIte, AL.get_set]

theorem hintFold_keydir (fid : Nat) (hs : List Hint) : ∀ (ix : Idx),
    kdF (hs.foldl (hintStep fid) ix).keydir = (hintEvs fid hs).foldl applyEv (kdF ix.keydir) := by
  induction hs with
  | nil => intro ix; rfl
  | cons h hs ih =>
    intro ix
    simp only [List.foldl_cons, hintEvs, List.map_cons] at ih ⊢
    rw [ih, hintStep_keydir]

theorem takeWhile_all {α : Type} (p : α → Bool) : ∀ (l : List α), (∀ a ∈ l, p a = true) → l.takeWhile p = l
  | [], _ => rfl
  | a :: as, h => by
    simp only [List.takeWhile, h a List.mem_cons_self]
    rw [takeWhile_all p as (fun b hb => h b (List.mem_cons_of_mem _ hb))]

/-! ### the whole directory -/

/-- the loop body of `rebuild` -/
def fileScan (d : Disk) (ix : Idx) (fid : Nat) : Idx :=
  match AL.get fid d.hint with
  | some hs => scanHints fid ix hs (fileSize (dataOf d fid) + (AL.get fid d.tails).getD 0)
  | none => scanData fid ix (dataOf d fid)

/-- `rebuild` with the id list as a parameter (so that concrete instances can be evaluated) -/
def rebuildWith (ids : List Nat) (d : Disk) : Idx × Nat :=
  (ids.foldl (fileScan d) ({} : Idx), match ids.getLast? with | some m => m + 1 | none => 0)

theorem rebuild_eq (d : Disk) : rebuild d = rebuildWith (sortedIds d) d := rfl

/-- the events the scan of file `fid` processes -/
def fileEvs (d : Disk) (fid : Nat) : List Ev :=
  match AL.get fid d.hint with
  | some hs => hintEvs fid
      (hs.takeWhile fun h => h.pos + h.len ≤ fileSize (dataOf d fid) + (AL.get fid d.tails).getD 0)
  | none => evData fid (dataOf d fid) 0

theorem fileScan_keydir (d : Disk) (ix : Idx) (fid : Nat) :
    kdF (fileScan d ix fid).keydir = (fileEvs d fid).foldl applyEv (kdF ix.keydir) := by
  unfold fileScan fileEvs
  cases AL.get fid d.hint with
  | none => exact scanData_keydir _ _ _
  | some hs => simp only [scanHints_eq]; exact hintFold_keydir _ _ _

theorem scanFiles_keydir (d : Disk) (ids : List Nat) : ∀ (ix : Idx),
    kdF (ids.foldl (fileScan d) ix).keydir = (ids.flatMap (fileEvs d)).foldl applyEv (kdF ix.keydir) := by
  induction ids with
  | nil => intro ix; rfl
  | cons fid ids ih =>
    intro ix
    simp only [List.foldl_cons, List.flatMap_cons, List.foldl_append, ih, fileScan_keydir]

/-- every hint file lists exactly the records of its data file (which therefore contains no
    tombstone): key, position, length and timestamp, in order -/
def HintsExact (d : Disk) : Prop :=
  ∀ fid hs, AL.get fid d.hint = some hs → hintEvs fid hs = evData fid (dataOf d fid) 0

theorem HintsExact.fileEvs {d : Disk} (h : HintsExact d) (fid : Nat) :
    fileEvs d fid = evData fid (dataOf d fid) 0 := by
  unfold Store.fileEvs
  cases hg : AL.get fid d.hint with
  | none => rfl
  | some hs =>
    simp only
    have he := h fid hs hg
    rw [takeWhile_all]
    · exact he
    · intro x hx
      have hm : hintEv fid x ∈ evData fid (dataOf d fid) 0 := by
        rw [← he]; exact List.mem_map.mpr ⟨x, hx, rfl⟩
      obtain ⟨r, q, _, h2, h3⟩ := mem_evData hm
      have hp : x.pos = 0 + q := by
        have := congrArg (fun e => e.loc.pos) h2; simpa [hintEv, mkEv] using this
      have hl : x.len = r.len := by
        have := congrArg (fun e => e.loc.len) h2; simpa [hintEv, mkEv] using this
      simp only [decide_eq_true_eq]
      omega

theorem eraseDups_of_asc : ∀ (l : List Nat), l.Pairwise (· < ·) → l.eraseDups = l
  | [], _ => rfl
  | a :: as, h => by
    rw [List.eraseDups_cons]
    simp only [List.pairwise_cons] at h
    have : as.filter (fun b => !b == a) = as := by
      rw [List.filter_eq_self]
      intro b hb
      have := h.1 b hb
      simp; omega
    rw [this, eraseDups_of_asc as h.2]

/-- the scan order is the list order when the ids are listed ascending -/
theorem sortedIds_of_asc {d : Disk} (h : Asc d.data) : sortedIds d = AL.keys d.data := by
  unfold sortedIds
  rw [eraseDups_of_asc _ h]
  apply List.mergeSort_of_pairwise
  exact h.imp (fun hab => by simpa using Nat.le_of_lt hab)

/-- **startup scan = last record wins** -/
theorem rebuild_keydir {d : Disk} (ha : Asc d.data) (hh : HintsExact d) :
    kdF (rebuild d).1.keydir = replay (allEvs d.data) := by
  rw [rebuild_eq, sortedIds_of_asc ha]
  simp only [rebuildWith]
  rw [scanFiles_keydir]
  have : (AL.keys d.data).flatMap (fileEvs d) = allEvs d.data := by
    rw [← flatMap_keys_allEvs ha]
    apply flatMap_congr_mem
    intro fid _
    rw [hh.fileEvs]; rfl
  rw [this]
  rfl

theorem rebuild_act {d : Disk} (ha : Asc d.data) :
    (rebuild d).2 = match (AL.keys d.data).getLast? with | some m => m + 1 | none => 0 := by
  rw [rebuild_eq, sortedIds_of_asc ha]; rfl

/-- the last listed id is the largest one -/
theorem getLast_of_max {β : Type} {l : List (Nat × β)} (ha : Asc l) {a : Nat} (hm : a ∈ AL.keys l)
    (hmax : ∀ id ∈ AL.keys l, id ≤ a) : (AL.keys l).getLast? = some a := by
  cases hg : (AL.keys l).getLast? with
  | none =>
    rw [List.getLast?_eq_none_iff] at hg
    rw [hg] at hm; cases hm
  | some x =>
    obtain ⟨ys, hys⟩ := List.getLast?_eq_some_iff.mp hg
    unfold Asc at ha
    rw [hys] at ha hm
    have hx : x ≤ a := hmax x (by rw [hys]; simp)
    rw [List.pairwise_append] at ha
    simp only [List.mem_append, List.mem_singleton] at hm
    rcases hm with hm | hm
    · have := ha.2.2 a hm x (by simp)
      omega
    · rw [hm]

/-! ### an exact hint file is processed exactly like its data file (index, counters, flag) -/

theorem hintFold_eq_scanFold (fid : Nat) : ∀ (rs : List Rec) (hs : List Hint) (ix : Idx) (p : Nat),
    hintEvs fid hs = evData fid rs p →
    hs.foldl (hintStep fid) ix = (rs.foldl (scanStep fid) (ix, p)).1 := by
  intro rs
  induction rs with
  | nil =>
    intro hs ix p he
    cases hs with
    | nil => rfl
    | cons h hs => simp [hintEvs, evData] at he
  | cons r rs ih =>
    intro hs ix p he
    cases hs with
    | nil => simp [hintEvs, evData] at he
    | cons h hs =>
      simp only [hintEvs, List.map_cons, evData, List.cons.injEq] at he
      obtain ⟨hhead, htail⟩ := he
      have hstep : scanStep fid (ix, p) r = (hintStep fid ix h, p + r.len) := by
        obtain ⟨hts, hlen, hpos, hkey⟩ := h
        simp only [hintEv, mkEv, Ev.mk.injEq, Loc.mk.injEq, true_and] at hhead
        obtain ⟨e1, ⟨e2, e3, e4⟩, e5⟩ := hhead
        subst e1 e2 e3 e4
        cases hv : r.val with
        | none => simp [hv] at e5
        | some v => simp only [scanStep, hintStep, hv]
      simp only [List.foldl_cons, hstep]
      exact ih hs _ _ htail

theorem HintsExact.takeWhile {d : Disk} (h : HintsExact d) {fid : Nat} {hs : List Hint}
    (hg : AL.get fid d.hint = some hs) (extra : Nat) :
    (hs.takeWhile fun x => x.pos + x.len ≤ fileSize (dataOf d fid) + extra) = hs := by
  have he := h fid hs hg
  apply takeWhile_all
  intro x hx
  have hm : hintEv fid x ∈ evData fid (dataOf d fid) 0 := by
    rw [← he]; exact List.mem_map.mpr ⟨x, hx, rfl⟩
  obtain ⟨r, q, _, h2, h3⟩ := mem_evData hm
  have hp : x.pos = 0 + q := by
    have := congrArg (fun e => e.loc.pos) h2; simpa [hintEv, mkEv] using this
  have hl : x.len = r.len := by
    have := congrArg (fun e => e.loc.len) h2; simpa [hintEv, mkEv] using this
  simp only [decide_eq_true_eq]
  omega

/-- with exact hint files, scanning a file through its hint file or through its records gives
    the same index, the same counters and the same flag -/
theorem fileScan_dropHints {d : Disk} (h : HintsExact d) (ix : Idx) (fid : Nat) :
    fileScan { d with hint := [] } ix fid = fileScan d ix fid := by
  unfold fileScan
  simp only [AL.get_nil]
  cases hg : AL.get fid d.hint with
  | none => rfl
  | some hs =>
    simp only [scanHints_eq, h.takeWhile hg]
    rw [hintFold_eq_scanFold fid (dataOf d fid) hs ix 0 (h fid hs hg)]
    rfl

/-- **hint files are only an accelerator**: index, counters, flag and next file id -/
theorem rebuild_dropHints {d : Disk} (h : HintsExact d) : rebuild { d with hint := [] } = rebuild d := by
  rw [rebuild_eq, rebuild_eq]
  have hs : sortedIds { d with hint := [] } = sortedIds d := rfl
  rw [hs]
  simp only [rebuildWith]
  congr 1
  generalize ({} : Idx) = ix
  induction sortedIds d generalizing ix with
  | nil => rfl
  | cons fid ids ih => simp only [List.foldl_cons, fileScan_dropHints h]; exact ih _

/-! ### evaluating `openDisk` on concrete directories (`List.mergeSort` does not reduce) -/

def openDiskWith (ids : List Nat) (d : Disk) : St × List Call :=
  let (ix, act) := rebuildWith ids d
  ({ disk := { d with data := AL.set act [] d.data }, keydir := ix.keydir, stats := ix.stats,
     active := act, written := 0, bad := ix.bad },
   [.create ⟨.data, act⟩])

instance {β : Type} (l : List (Nat × β)) : Decidable (Asc l) :=
  inferInstanceAs (Decidable ((AL.keys l).Pairwise (· < ·)))

theorem openDisk_eq_with {d : Disk} (h : Asc d.data) : openDisk d = openDiskWith (AL.keys d.data) d := by
  rw [← sortedIds_of_asc h]; rfl

/-! ### reading through two indexes that agree as functions -/

theorem get_congr_fun {s s' : St} (hk : kdF s'.keydir = kdF s.keydir) (hd : s'.disk.data = s.disk.data)
    (k : Key) : get s' k = get s k := by
  have : AL.get k s'.keydir = AL.get k s.keydir := congrFun hk k
  unfold get dataOf
  rw [this, hd]

end Store
