/-
  Lives after a crash inside a merge, part 3: events.

  The invisible records of a directory are value records, so the events of the visible part are
  the events of the whole directory with some VALUE events removed (`ValSub`).  Removing value
  events never turns "this key is recovered as absent" into "this key is recovered": the hazard
  hypotheses (`Full`, `NoHazard`), stated for ALL records of the real directory, carry over to
  its visible part.
-/
import BitcaskVerif.Store.LivesOpen

namespace Store

/-- `ValSub a b`: `a` is `b` with some value (non-tombstone) events removed -/
inductive ValSub : List Ev → List Ev → Prop
  | nil : ValSub [] []
  | cons (e : Ev) {a b : List Ev} : ValSub a b → ValSub (e :: a) (e :: b)
  | drop (e : Ev) {a b : List Ev} : e.tomb = false → ValSub a b → ValSub a (e :: b)

theorem ValSub.refl : ∀ (a : List Ev), ValSub a a
  | [] => .nil
  | e :: a => .cons e (ValSub.refl a)

theorem ValSub.mem {a b : List Ev} (h : ValSub a b) : ∀ e ∈ a, e ∈ b := by
  induction h with
  | nil => intro e he; exact he
  | cons x _ ih =>
    intro e he
    rcases List.mem_cons.mp he with rfl | he
    · exact List.mem_cons_self
    · exact List.mem_cons_of_mem _ (ih e he)
  | drop x _ _ ih => intro e he; exact List.mem_cons_of_mem _ (ih e he)

theorem ValSub.append {a b a' b' : List Ev} (h : ValSub a b) (h' : ValSub a' b') : ValSub (a ++ a') (b ++ b') := by
  induction h with
  | nil => exact h'
  | cons x _ ih => exact .cons x ih
  | drop x hx _ ih => exact .drop x hx ih

theorem ValSub.filter (p : Ev → Bool) {a b : List Ev} (h : ValSub a b) : ValSub (a.filter p) (b.filter p) := by
  induction h with
  | nil => exact .nil
  | cons x _ ih =>
    by_cases hp : p x = true
    · simp only [List.filter, hp]; exact .cons x ih
    · simp only [List.filter, hp]; exact ih
  | drop x hx _ ih =>
    by_cases hp : p x = true
    · simp only [List.filter, hp]; exact .drop x hx ih
    · simp only [List.filter, hp]; exact ih

theorem ValSub.flatMap {α : Type} {f g : α → List Ev} : ∀ (l : List α), (∀ x ∈ l, ValSub (f x) (g x)) →
    ValSub (l.flatMap f) (l.flatMap g)
  | [], _ => .nil
  | x :: xs, h => by
    simp only [List.flatMap_cons]
    exact (h x List.mem_cons_self).append (ValSub.flatMap xs (fun y hy => h y (List.mem_cons_of_mem _ hy)))

/-- adding value events at the end -/
theorem ValSub.append_vals (a : List Ev) : ∀ (j : List Ev), (∀ e ∈ j, e.tomb = false) → ValSub a (a ++ j) := by
  induction a with
  | nil =>
    intro j
    induction j with
    | nil => intro _; exact .nil
    | cons e es ih =>
      intro h
      exact .drop e (h e List.mem_cons_self) (ih (fun x hx => h x (List.mem_cons_of_mem _ hx)))
  | cons x xs ih => intro j h; exact .cons x (ih j h)

theorem ValSub.lastFor_none {a b : List Ev} (h : ValSub a b) {k : Key} (hb : lastFor k b = none) :
    lastFor k a = none := by
  rw [Store.lastFor_none] at hb ⊢
  intro e he
  exact hb e (h.mem e he)

theorem ValSub.lastFor_tomb {a b : List Ev} (h : ValSub a b) {k : Key} {x : Ev} (hb : lastFor k b = some x)
    (hx : x.tomb = true) : lastFor k a = some x := by
  induction h with
  | nil => simp [lastFor] at hb
  | @cons e a' b' hs ih =>
    simp only [lastFor] at hb ⊢
    cases hy : lastFor k b' with
    | some y =>
      simp only [hy, Option.some.injEq] at hb
      subst hb
      rw [ih hy]
    | none =>
      rw [hs.lastFor_none hy]
      simp only [hy] at hb
      exact hb
  | @drop e a' b' he hs ih =>
    simp only [lastFor] at hb
    cases hy : lastFor k b' with
    | some y =>
      simp only [hy, Option.some.injEq] at hb
      subst hb
      exact ih hy
    | none =>
      simp only [hy] at hb
      by_cases hk : e.key = k
      · simp only [hk, ↓reduceIte, Option.some.injEq] at hb
        subst hb
        rw [he] at hx; cases hx
      · simp [hk] at hb

/-- **removing value events keeps "recovered as absent"** -/
theorem ValSub.replay_none {a b : List Ev} (h : ValSub a b) {k : Key} (hb : replay b k = none) :
    replay a k = none := by
  rw [replay_eq] at hb ⊢
  cases hl : lastFor k b with
  | none => rw [h.lastFor_none hl]; rfl
  | some x =>
    have hx : x.tomb = true := by
      cases ht : x.tomb with
      | true => rfl
      | false => simp [hl, evVal, ht] at hb
    rw [h.lastFor_tomb hl hx]
    simp [evVal, hx]

/-! ### the events of a directory and of its visible part -/

theorem evData_vals {fid : Nat} : ∀ {j : List Rec} {p : Nat}, (∀ r ∈ j, r.val.isSome) →
    ∀ e ∈ evData fid j p, e.tomb = false
  | [], _, _ => by intro e he; simp [evData] at he
  | r :: rs, p, h => by
    intro e he
    simp only [evData, List.mem_cons] at he
    rcases he with rfl | he
    · have := h r List.mem_cons_self
      cases hv : r.val with
      | none => simp [hv] at this
      | some v => simp [mkEv, hv]
    · exact evData_vals (fun x hx => h x (List.mem_cons_of_mem _ hx)) e he

theorem mem_recAt {j : List Rec} {r : Rec} (h : r ∈ j) : ∃ q, recAt j q = some r := by
  obtain ⟨s, t, rfl⟩ := List.append_of_mem h
  exact ⟨fileSize s, recAt_append_size s r t⟩

/-- the invisible records are value records -/
def JunkVals (d1 d : Disk) : Prop :=
  ∀ fid p j, recAt (dataOf d fid) p = some j → fileSize (dataOf d1 fid) ≤ p → j.val.isSome

theorem JunkOK.vals {d1 d : Disk} {f : IdxF} (h : JunkOK d1 d f) : JunkVals d1 d :=
  fun fid p j h1 h2 => (h fid p j h1 h2).1

theorem allEvs_eq_flatMap {d : Disk} (h : Asc d.data) :
    allEvs d.data = (AL.keys d.data).flatMap (fun fid => evData fid (dataOf d fid) 0) :=
  (flatMap_keys_allEvs h).symm

/-- the events of the visible part are the events of the directory without some value events -/
theorem valSub_of_sim {d1 d : Disk} (h : Sim d1 d) (ha : Asc d1.data) (hv : JunkVals d1 d) :
    ValSub (allEvs d1.data) (allEvs d.data) := by
  have ha' : Asc d.data := by unfold Asc; rw [h.keys]; exact ha
  rw [allEvs_eq_flatMap ha, allEvs_eq_flatMap ha', h.keys]
  apply ValSub.flatMap
  intro fid _
  obtain ⟨j, hj⟩ := h.pre fid
  rw [← hj, evData_append]
  apply ValSub.append_vals
  apply evData_vals
  intro r hr
  obtain ⟨q, hq⟩ := mem_recAt hr
  apply hv fid (fileSize (dataOf d1 fid) + q) r
  · rw [← hj, recAt_append_right]; exact hq
  · omega

/-- `Full` for all records implies `Full` for the visible part -/
theorem fullAll_visible {d1 d : Disk} (h : Sim d1 d) (ha : Asc d1.data) (hv : JunkVals d1 d) {f : IdxF}
    (hf : FullAll d f) : FullAll d1 f :=
  fun k hk => (valSub_of_sim h ha hv).replay_none (hf k hk)

/-- `NoHazard` for all records implies `NoHazard` for the visible part -/
theorem noHazard_visible {s : St} {d1 : Disk} (h : Sim d1 s.disk) (ha : Asc d1.data) (hv : JunkVals d1 s.disk)
    {sel : List Nat} (hz : NoHazard s sel) : NoHazard { s with disk := d1 } sel :=
  fun k hk => ((valSub_of_sim h ha hv).filter _).replay_none (hz k hk)

end Store
