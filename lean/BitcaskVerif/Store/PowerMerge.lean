/-
  Power loss during a merge pass (C09), part 1: durability bookkeeping for data AND hint files,
  power-loss images, and the two shapes such an image can have:
    * everything durable: the image has the same files with the same contents (`SameFiles`);
    * everything durable except the current merge output `mid`: the image is the directory with
      the output's data file and hint file cut back independently (`OutImage`).
-/
import BitcaskVerif.Store.CutHazard
import BitcaskVerif.Store.PowerLoss

namespace Store

def hintsOf (d : Disk) (id : Nat) : List Hint := (AL.get id d.hint).getD []
def tailOf (d : Disk) (id : Nat) : Nat := (AL.get id d.tails).getD 0

/-! ### bookkeeping -/

/-- a directory and, per data file / hint file, the number of entries on stable storage -/
structure SDisk2 where
  disk : Disk
  dsync : List (Nat × Nat)
  hsync : List (Nat × Nat)

def SDisk2.dOf (sd : SDisk2) (id : Nat) : Nat := (AL.get id sd.dsync).getD 0
def SDisk2.hOf (sd : SDisk2) (id : Nat) : Nat := (AL.get id sd.hsync).getD 0

def dsyncAfter (sd : SDisk2) : Call → List (Nat × Nat)
  | .fsync f =>
    match f.kind with
    | .data => AL.set f.id (dataOf sd.disk f.id).length sd.dsync
    | .hint => sd.dsync
  | .create f =>
    match f.kind with
    | .data => AL.set f.id 0 sd.dsync
    | .hint => sd.dsync
  | _ => sd.dsync

def hsyncAfter (sd : SDisk2) : Call → List (Nat × Nat)
  | .fsync f =>
    match f.kind with
    | .data => sd.hsync
    | .hint => AL.set f.id (hintsOf sd.disk f.id).length sd.hsync
  | .create f =>
    match f.kind with
    | .data => sd.hsync
    | .hint => AL.set f.id 0 sd.hsync
  | _ => sd.hsync

def syncCall2 (sd : SDisk2) (c : Call) : SDisk2 :=
  { disk := applyCall sd.disk c, dsync := dsyncAfter sd c, hsync := hsyncAfter sd c }

def syncCalls2 (sd : SDisk2) (cs : List Call) : SDisk2 := cs.foldl syncCall2 sd

@[simp] theorem syncCalls2_nil (sd : SDisk2) : syncCalls2 sd [] = sd := rfl
@[simp] theorem syncCalls2_cons (sd : SDisk2) (c : Call) (cs : List Call) :
    syncCalls2 sd (c :: cs) = syncCalls2 (syncCall2 sd c) cs := rfl
theorem syncCalls2_append (sd : SDisk2) (a b : List Call) :
    syncCalls2 sd (a ++ b) = syncCalls2 (syncCalls2 sd a) b := by
  simp [syncCalls2, List.foldl_append]

theorem syncCalls2_disk (cs : List Call) : ∀ (sd : SDisk2), (syncCalls2 sd cs).disk = applyCalls sd.disk cs := by
  induction cs with
  | nil => intro sd; rfl
  | cons c cs ih => intro sd; simp only [syncCalls2_cons, applyCalls_cons, ih]; rfl

/-- all entries of data file `id` and of hint file `id` are durable -/
def SyncedAt (sd : SDisk2) (id : Nat) : Prop :=
  (dataOf sd.disk id).length ≤ sd.dOf id ∧ (hintsOf sd.disk id).length ≤ sd.hOf id

def FullySynced2 (sd : SDisk2) : Prop := ∀ id, SyncedAt sd id

/-- everything is durable except (possibly) the files with id `mid` -/
def AllBut (mid : Nat) (sd : SDisk2) : Prop := ∀ id, id ≠ mid → SyncedAt sd id

theorem FullySynced2.allBut {sd : SDisk2} (h : FullySynced2 sd) (mid : Nat) : AllBut mid sd := fun id _ => h id

/-- a call that is not an append to a file with id `id` keeps the files `id` durable -/
theorem syncedAt_step {sd : SDisk2} {id : Nat} (h : SyncedAt sd id) (c : Call)
    (hc : ∀ f p, c = Call.append f p → f.id ≠ id) : SyncedAt (syncCall2 sd c) id := by
  obtain ⟨h1, h2⟩ := h
  cases c with
  | create f =>
    obtain ⟨kd, fid⟩ := f
    cases kd <;> by_cases e : id = fid <;>
      simp_all [SyncedAt, syncCall2, dsyncAfter, hsyncAfter, applyCall, dataOf, hintsOf, SDisk2.dOf, SDisk2.hOf,
        AL.get_set]
  | fsync f =>
    obtain ⟨kd, fid⟩ := f
    cases kd <;> by_cases e : id = fid <;>
      simp_all [SyncedAt, syncCall2, dsyncAfter, hsyncAfter, applyCall, dataOf, hintsOf, SDisk2.dOf, SDisk2.hOf,
        AL.get_set]
  | unlink f =>
    obtain ⟨kd, fid⟩ := f
    cases kd <;> by_cases e : id = fid <;>
      simp_all [SyncedAt, syncCall2, dsyncAfter, hsyncAfter, applyCall, dataOf, hintsOf, SDisk2.dOf, SDisk2.hOf,
        AL.get_del]
  | append f p =>
    obtain ⟨kd, fid⟩ := f
    have e : ¬ id = fid := fun e => hc _ _ rfl e.symm
    cases kd <;> cases p <;>
      simp_all [SyncedAt, syncCall2, dsyncAfter, hsyncAfter, applyCall, dataOf, hintsOf, SDisk2.dOf, SDisk2.hOf,
        AL.get_set]

theorem allBut_step {sd : SDisk2} {mid : Nat} (h : AllBut mid sd) (c : Call)
    (hc : ∀ f p, c = Call.append f p → f.id = mid) : AllBut mid (syncCall2 sd c) :=
  fun id hid => syncedAt_step (h id hid) c (fun f p e he => hid (he.symm.trans (hc f p e)))

theorem allBut_steps {mid : Nat} (cs : List Call) : ∀ {sd : SDisk2}, AllBut mid sd →
    (∀ c ∈ cs, ∀ f p, c = Call.append f p → f.id = mid) → AllBut mid (syncCalls2 sd cs) := by
  induction cs with
  | nil => intro sd h _; exact h
  | cons c cs ih =>
    intro sd h hc
    exact ih (allBut_step h c (hc c List.mem_cons_self)) (fun x hx => hc x (List.mem_cons_of_mem _ hx))

theorem fullySynced2_step {sd : SDisk2} (h : FullySynced2 sd) (c : Call) (hc : ∀ f p, c ≠ Call.append f p) :
    FullySynced2 (syncCall2 sd c) :=
  fun id => syncedAt_step (h id) c (fun f p e => absurd e (hc f p))

theorem fullySynced2_steps (cs : List Call) : ∀ {sd : SDisk2}, FullySynced2 sd →
    (∀ c ∈ cs, ∀ f p, c ≠ Call.append f p) → FullySynced2 (syncCalls2 sd cs) := by
  induction cs with
  | nil => intro sd h _; exact h
  | cons c cs ih =>
    intro sd h hc
    exact ih (fullySynced2_step h c (hc c List.mem_cons_self)) (fun x hx => hc x (List.mem_cons_of_mem _ hx))

/-- the two fsyncs of the output make everything durable -/
theorem allBut_fsyncs {sd : SDisk2} {mid : Nat} (h : AllBut mid sd) :
    FullySynced2 (syncCalls2 sd [Call.fsync ⟨.data, mid⟩, Call.fsync ⟨.hint, mid⟩]) := by
  intro id
  by_cases e : id = mid
  · subst e
    simp [SyncedAt, syncCall2, dsyncAfter, hsyncAfter, applyCall, dataOf, hintsOf, SDisk2.dOf, SDisk2.hOf,
      AL.get_set]
  · exact allBut_steps _ h (by
      intro c hc f p e
      simp only [List.mem_cons, List.not_mem_nil, or_false] at hc
      rcases hc with rfl | rfl <;> cases e) id e

/-! ### power-loss images -/

def lossImage2 (d : Disk) (kD kH : Nat → Nat) (T : List (Nat × Nat)) : Disk :=
  { data := d.data.map (fun p => (p.1, p.2.take (kD p.1))),
    hint := d.hint.map (fun p => (p.1, p.2.take (kH p.1))),
    tails := T }

/-- where records were lost, the partial record left behind is shorter than the first lost
    record -/
def TailOk (d : Disk) (kD : Nat → Nat) (T : List (Nat × Nat)) : Prop :=
  ∀ id r, (dataOf d id)[kD id]? = some r → (AL.get id T).getD 0 < r.len

/-- `I` is a directory a power failure can leave: every data file and every hint file keeps at
    least its durable entries (independently of each other), all files still exist -/
def PowerLoss2 (sd : SDisk2) (I : Disk) : Prop :=
  ∃ kD kH T, (∀ id, sd.dOf id ≤ kD id) ∧ (∀ id, sd.hOf id ≤ kH id) ∧ TailOk sd.disk kD T ∧
    I = lossImage2 sd.disk kD kH T

theorem keys_map_val {β γ : Type} (g : Nat → β → γ) (l : List (Nat × β)) :
    AL.keys (l.map (fun p => (p.1, g p.1 p.2))) = AL.keys l := by
  simp [AL.keys, List.map_map, Function.comp_def]

theorem dataOf_lossImage2 (d : Disk) (kD kH : Nat → Nat) (T : List (Nat × Nat)) (id : Nat) :
    dataOf (lossImage2 d kD kH T) id = (dataOf d id).take (kD id) := by
  simp only [dataOf, lossImage2]
  rw [get_map_val (fun id (rs : List Rec) => rs.take (kD id))]
  cases AL.get id d.data <;> simp

theorem getHint_lossImage2 (d : Disk) (kD kH : Nat → Nat) (T : List (Nat × Nat)) (id : Nat) :
    AL.get id (lossImage2 d kD kH T).hint = (AL.get id d.hint).map (fun hs => hs.take (kH id)) := by
  simp only [lossImage2]
  exact get_map_val (fun id (hs : List Hint) => hs.take (kH id)) id d.hint

theorem hintsOf_lossImage2 (d : Disk) (kD kH : Nat → Nat) (T : List (Nat × Nat)) (id : Nat) :
    hintsOf (lossImage2 d kD kH T) id = (hintsOf d id).take (kH id) := by
  simp only [hintsOf, getHint_lossImage2]
  cases AL.get id d.hint <;> simp

/-- same files, same contents (tails may differ) -/
structure SameFiles (d I : Disk) : Prop where
  keys : AL.keys I.data = AL.keys d.data
  hkeys : AL.keys I.hint = AL.keys d.hint
  data : ∀ fid, dataOf I fid = dataOf d fid
  hint : ∀ fid, AL.get fid I.hint = AL.get fid d.hint

/-- `I` is `d` with the data file and the hint file of output `mid` cut back independently -/
structure OutImage (d : Disk) (mid : Nat) (I : Disk) : Prop where
  keys : AL.keys I.data = AL.keys d.data
  hkeys : AL.keys I.hint = AL.keys d.hint
  data : ∀ fid, fid ≠ mid → dataOf I fid = dataOf d fid
  hint : ∀ fid, fid ≠ mid → AL.get fid I.hint = AL.get fid d.hint
  dmid : dataOf I mid <+: dataOf d mid
  tail : ∀ r, (dataOf d mid)[(dataOf I mid).length]? = some r → tailOf I mid < r.len
  hmid : hintsOf I mid <+: hintsOf d mid

theorem powerLoss2_outImage {sd : SDisk2} {mid : Nat} (h : AllBut mid sd) {I : Disk} (hp : PowerLoss2 sd I) :
    OutImage sd.disk mid I := by
  obtain ⟨kD, kH, T, h1, h2, h3, rfl⟩ := hp
  constructor
  · exact keys_map_val (fun id (rs : List Rec) => rs.take (kD id)) _
  · exact keys_map_val (fun id (hs : List Hint) => hs.take (kH id)) _
  · intro fid hf
    rw [dataOf_lossImage2]
    exact List.take_of_length_le (Nat.le_trans (h fid hf).1 (h1 fid))
  · intro fid hf
    rw [getHint_lossImage2]
    have := (h fid hf).2
    cases hg : AL.get fid sd.disk.hint with
    | none => rfl
    | some hs =>
      simp only [hintsOf, hg, Option.getD_some] at this
      simp only [Option.map_some]
      rw [List.take_of_length_le (Nat.le_trans this (h2 fid))]
  · rw [dataOf_lossImage2]; exact List.take_prefix _ _
  · intro r hr
    rw [dataOf_lossImage2] at hr
    rw [List.length_take] at hr
    by_cases hk : kD mid ≤ (dataOf sd.disk mid).length
    · rw [Nat.min_eq_left hk] at hr
      exact h3 mid r hr
    · have : min (kD mid) (dataOf sd.disk mid).length = (dataOf sd.disk mid).length := by omega
      rw [this, List.getElem?_eq_none (Nat.le_refl _)] at hr
      cases hr
  · rw [hintsOf_lossImage2]; exact List.take_prefix _ _

theorem powerLoss2_sameFiles {sd : SDisk2} (h : FullySynced2 sd) {I : Disk} (hp : PowerLoss2 sd I) :
    SameFiles sd.disk I := by
  obtain ⟨kD, kH, T, h1, h2, h3, rfl⟩ := hp
  constructor
  · exact keys_map_val (fun id (rs : List Rec) => rs.take (kD id)) _
  · exact keys_map_val (fun id (hs : List Hint) => hs.take (kH id)) _
  · intro fid
    rw [dataOf_lossImage2]
    exact List.take_of_length_le (Nat.le_trans (h fid).1 (h1 fid))
  · intro fid
    rw [getHint_lossImage2]
    have := (h fid).2
    cases hg : AL.get fid sd.disk.hint with
    | none => rfl
    | some hs =>
      simp only [hintsOf, hg, Option.getD_some] at this
      simp only [Option.map_some]
      rw [List.take_of_length_le (Nat.le_trans this (h2 fid))]

end Store
