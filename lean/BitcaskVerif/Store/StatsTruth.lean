/-
  C19 helper lemmas, part 3 (static): in a state where every KeyDir entry addresses the record it
  was created for (`Inv.locs`) and KeyDir keys are distinct, the counting form of exactness
  (`FileAcc`) is the same as equality with the ground truth `truthFile` recomputed from the
  file's records.  The bridge is a bijection argument: distinct keys address distinct records
  (a record has one key), records of a file start at distinct positions (lengths are positive).
-/
import BitcaskVerif.Store.StatsLemmas

namespace Store.Stats
open Store

/-- `Σ w len` over the records `(pos, len)` of a file laid out from byte `pos` on, restricted to
    the records where `P pos len` -/
def tsum (P : Nat → Nat → Bool) (w : Nat → Nat) : Nat → List Rec → Nat
  | _, [] => 0
  | pos, r :: rs => (if P pos r.len then w r.len else 0) + tsum P w (pos + r.len) rs

theorem tsum_compl_len (P : Nat → Nat → Bool) (rs : List Rec) : ∀ pos,
    tsum P (fun _ => 1) pos rs + tsum (fun p l => !P p l) (fun _ => 1) pos rs = rs.length := by
  induction rs with
  | nil => intro _; rfl
  | cons r rs ih =>
    intro pos
    have := ih (pos + r.len)
    simp only [tsum, List.length_cons]
    cases P pos r.len <;> simp <;> omega

theorem tsum_compl_bytes (P : Nat → Nat → Bool) (rs : List Rec) : ∀ pos,
    tsum P (fun l => l) pos rs + tsum (fun p l => !P p l) (fun l => l) pos rs = fileSize rs := by
  induction rs with
  | nil => intro _; rfl
  | cons r rs ih =>
    intro pos
    have := ih (pos + r.len)
    simp only [tsum, fileSize_cons]
    cases P pos r.len <;> simp <;> omega

/-- the ground-truth fold, in closed form -/
theorem truth_fold (kd : List (Key × Loc)) (fid : Nat) (rs : List Rec) : ∀ (st : Stat) (pos : Nat),
    rs.foldl (fun (acc : Stat × Nat) r =>
      let (st, pos) := acc
      if isLiveAt kd fid pos r.len then (st.addLive, pos + r.len)
      else (st.addDead r.len, pos + r.len)) (st, pos) =
    (⟨st.live + tsum (isLiveAt kd fid) (fun _ => 1) pos rs,
      st.dead + tsum (fun p l => !isLiveAt kd fid p l) (fun _ => 1) pos rs,
      st.deadBytes + tsum (fun p l => !isLiveAt kd fid p l) (fun l => l) pos rs⟩, pos + fileSize rs) := by
  induction rs with
  | nil => intro st pos; simp [tsum]
  | cons r rs ih =>
    intro st pos
    rw [List.foldl_cons]
    dsimp only
    cases hP : isLiveAt kd fid pos r.len
    · simp only [Bool.false_eq_true, ↓reduceIte]
      rw [ih]
      simp only [tsum, hP, fileSize_cons, Stat.addDead, Prod.mk.injEq, Stat.mk.injEq]
      simp
      omega
    · simp only [↓reduceIte]
      rw [ih]
      simp only [tsum, hP, fileSize_cons, Stat.addLive, Prod.mk.injEq, Stat.mk.injEq]
      simp
      omega

theorem truthFile_eq (kd : List (Key × Loc)) (fid : Nat) (rs : List Rec) :
    truthFile kd fid rs =
      ⟨tsum (isLiveAt kd fid) (fun _ => 1) 0 rs,
       tsum (fun p l => !isLiveAt kd fid p l) (fun _ => 1) 0 rs,
       tsum (fun p l => !isLiveAt kd fid p l) (fun l => l) 0 rs⟩ := by
  unfold truthFile
  rw [truth_fold]
  simp

theorem isLiveAt_iff (kd : List (Key × Loc)) (f pos len : Nat) :
    isLiveAt kd f pos len = true ↔ ∃ k l, (k, l) ∈ kd ∧ l.fid = f ∧ l.pos = pos ∧ l.len = len := by
  unfold isLiveAt
  rw [List.any_eq_true]
  constructor
  · rintro ⟨⟨k, l⟩, hm, hp⟩
    simp only [Bool.and_eq_true, decide_eq_true_eq] at hp
    exact ⟨k, l, hm, hp.1.1, hp.1.2, hp.2⟩
  · rintro ⟨k, l, hm, h1, h2, h3⟩
    exact ⟨(k, l), hm, by simp [h1, h2, h3]⟩

/-- a KeyDir entry in file `f` at or after byte `base` addresses a record of `rs` (laid out from
    `base`) with its key and length -/
def Addr (kd : List (Key × Loc)) (f base : Nat) (rs : List Rec) : Prop :=
  ∀ k l, AL.get k kd = some l → l.fid = f → base ≤ l.pos →
    ∃ r, recAt rs (l.pos - base) = some r ∧ r.key = k ∧ r.len = l.len

theorem Addr.tail {kd : List (Key × Loc)} {f base : Nat} {r : Rec} {rs : List Rec}
    (h : Addr kd f base (r :: rs)) : Addr kd f (base + r.len) rs := by
  intro k l hg hf hb
  obtain ⟨x, hx, h1, h2⟩ := h k l hg hf (by omega)
  have hlen := r.len_pos
  have h0 : ¬ (l.pos - base = 0) := by omega
  have h1' : ¬ (l.pos - base < r.len) := by omega
  simp only [recAt, h0, h1', ↓reduceIte] at hx
  have : l.pos - (base + r.len) = l.pos - base - r.len := by omega
  rw [this]
  exact ⟨x, hx, h1, h2⟩

/-- an entry at or after `base` is at `base` or behind the first record -/
theorem Addr.split {kd : List (Key × Loc)} {f base : Nat} {r : Rec} {rs : List Rec}
    (h : Addr kd f base (r :: rs)) {k : Key} {l : Loc} (hg : AL.get k kd = some l) (hf : l.fid = f)
    (hb : base ≤ l.pos) : l.pos = base ∨ base + r.len ≤ l.pos := by
  obtain ⟨x, hx, _, _⟩ := h k l hg hf hb
  by_cases h0 : l.pos - base = 0
  · left; omega
  · right
    simp only [recAt, h0, ↓reduceIte] at hx
    by_cases h1 : l.pos - base < r.len
    · simp [h1] at hx
    · omega

/-- an entry exactly at `base` is the entry of the first record's key and has its length -/
theorem Addr.head {kd : List (Key × Loc)} {f base : Nat} {r : Rec} {rs : List Rec}
    (h : Addr kd f base (r :: rs)) {k : Key} {l : Loc} (hg : AL.get k kd = some l) (hf : l.fid = f)
    (hb : l.pos = base) : k = r.key ∧ l.len = r.len := by
  obtain ⟨x, hx, h1, h2⟩ := h k l hg hf (by omega)
  have : l.pos - base = 0 := by omega
  simp only [recAt, this, ↓reduceIte, Option.some.injEq] at hx
  subst hx
  exact ⟨h1.symm, h2.symm⟩

/-- **the bijection**: summing over the live records of the file = summing over the KeyDir
    entries that point into the file -/
theorem tsum_eq_wsum (kd : List (Key × Loc)) (hnd : (AL.keys kd).Nodup) (f : Nat) (w : Nat → Nat)
    (rs : List Rec) : ∀ base, Addr kd f base rs →
    tsum (isLiveAt kd f) w base rs = wsum (fun l => if l.fid = f ∧ base ≤ l.pos then w l.len else 0) kd := by
  induction rs with
  | nil =>
    intro base ha
    simp only [tsum]
    symm
    apply wsum_zero
    intro k l hm
    have hg := get_of_mem hnd hm
    by_cases hc : l.fid = f ∧ base ≤ l.pos
    · obtain ⟨x, hx, _, _⟩ := ha k l hg hc.1 hc.2
      simp [recAt] at hx
    · simp [hc]
  | cons r rs ih =>
    intro base ha
    have hlen := r.len_pos
    simp only [tsum]
    rw [ih (base + r.len) ha.tail]
    -- split the KeyDir sum into "at `base`" and "behind the first record"
    have hsplit : wsum (fun l => if l.fid = f ∧ base ≤ l.pos then w l.len else 0) kd =
        wsum (fun l => if l.fid = f ∧ l.pos = base then w l.len else 0) kd +
        wsum (fun l => if l.fid = f ∧ base + r.len ≤ l.pos then w l.len else 0) kd := by
      apply wsum_add
      intro k l hm
      have hg := get_of_mem hnd hm
      by_cases hf : l.fid = f
      · by_cases hb : base ≤ l.pos
        · rcases ha.split hg hf hb with e | e
          · have : ¬ (base + r.len ≤ base) := by omega
            simp [hf, e, this]
          · have : ¬ (l.pos = base) := by omega
            simp [hf, hb, e, this]
        · have h1 : ¬ (l.pos = base) := by omega
          have h2 : ¬ (base + r.len ≤ l.pos) := by omega
          simp [hb, h1, h2]
      · simp [hf]
    rw [hsplit]
    -- the "at `base`" part is the first record's key, if it is live
    have hone : wsum (fun l => if l.fid = f ∧ l.pos = base then w l.len else 0) kd =
        (if isLiveAt kd f base r.len then w r.len else 0) := by
      rw [wsum_single (k0 := r.key) hnd]
      · cases hg : AL.get r.key kd with
        | none =>
          have : isLiveAt kd f base r.len = false := by
            cases hl : isLiveAt kd f base r.len with
            | false => rfl
            | true =>
              obtain ⟨k, l, hm, h1, h2, _⟩ := (isLiveAt_iff _ _ _ _).mp hl
              have hg' := get_of_mem hnd hm
              have := (ha.head hg' h1 h2).1
              subst this
              rw [hg] at hg'; cases hg'
          simp [this]
        | some l =>
          simp only [ow_some]
          by_cases hc : l.fid = f ∧ l.pos = base
          · have hl := (ha.head hg hc.1 hc.2).2
            have : isLiveAt kd f base r.len = true :=
              (isLiveAt_iff _ _ _ _).mpr ⟨r.key, l, mem_of_get hg, hc.1, hc.2, hl⟩
            simp [hc, this, hl]
          · have : isLiveAt kd f base r.len = false := by
              cases hl : isLiveAt kd f base r.len with
              | false => rfl
              | true =>
                obtain ⟨k, l', hm, h1, h2, _⟩ := (isLiveAt_iff _ _ _ _).mp hl
                have hg' := get_of_mem hnd hm
                have := (ha.head hg' h1 h2).1
                subst this
                rw [hg] at hg'
                cases hg'
                exact absurd ⟨h1, h2⟩ hc
            simp [hc, this]
      · intro k l hm hk
        have hg := get_of_mem hnd hm
        by_cases hc : l.fid = f ∧ l.pos = base
        · exact absurd (ha.head hg hc.1 hc.2).1 hk
        · simp [hc]
    rw [hone]

/-- **counting form ⇒ ground truth**: if every KeyDir entry of file `f` addresses a record of
    `rs` with its key and length, exact counters in the counting form equal `truthFile` -/
theorem FileAcc.truth {kd : List (Key × Loc)} {stats : List (Nat × Stat)} {f : Nat} {rs : List Rec}
    (h : FileAcc kd stats f rs) (hnd : (AL.keys kd).Nodup) (ha : Addr kd f 0 rs) :
    statOf stats f = truthFile kd f rs := by
  rw [truthFile_eq]
  have e1 := tsum_eq_wsum kd hnd f (fun _ => 1) rs 0 ha
  have e2 := tsum_eq_wsum kd hnd f (fun l => l) rs 0 ha
  have c1 := tsum_compl_len (isLiveAt kd f) rs 0
  have c2 := tsum_compl_bytes (isLiveAt kd f) rs 0
  simp only [Nat.zero_le, and_true] at e1 e2
  have h1 := h.live
  have h2 := h.tot
  have h3 := h.bytes
  simp only [liveCnt, liveBytes] at h1 h3
  rw [← e1] at h1
  rw [← e2] at h3
  cases hs : statOf stats f with
  | mk a b c =>
    rw [hs] at h1 h2 h3
    simp only at h1 h2 h3
    simp only [Stat.mk.injEq]
    omega

end Store.Stats
