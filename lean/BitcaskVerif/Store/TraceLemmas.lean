/-
  Effect traces of runs of the store model (C14).

  `stepC` is one operation together with the file-system calls it issues, `traceOf` the
  concatenated call list of a run, `evsOf` the same trace with a `restart` marker in front of the
  calls of every reopen (so that "in the same life" can be expressed).  A monitor `Mon` runs over
  the annotated trace and checks id freshness and append ownership; the coupling invariant `Coup`
  between the store state and the monitor state is preserved by every operation.
-/
import BitcaskVerif.Props.C01

namespace Store.Tr
/-! ### operations with calls, traces -/

/-- the operations of a run that may issue file-system calls, plus reads; `reopen` drops the
    store and opens its directory again -/
inductive TOp where
  | put (ts : Int) (k : Key) (v : Val)
  | del (ts : Int) (k : Key)
  | get (k : Key)
  | merge (sel : List Nat) (order : List Key)
  | reopen

/-- one operation: next state and the calls it issues -/
def stepC (cfg : Cfg) (s : St) : TOp → St × List Call
  | .put ts k v => put cfg s ts k v
  | .del ts k => ((delete cfg s ts k).1, (delete cfg s ts k).2.2)
  | .get _ => (s, [])
  | .merge sel order => mergeWith cfg s sel order
  | .reopen => reopen s

def runC (cfg : Cfg) : St → List TOp → St
  | s, [] => s
  | s, op :: ops => runC cfg (stepC cfg s op).1 ops

/-- the effect trace of a run -/
def traceOf (cfg : Cfg) : St → List TOp → List Call
  | _, [] => []
  | s, op :: ops => (stepC cfg s op).2 ++ traceOf cfg (stepC cfg s op).1 ops

/-- trace events: a call, or the boundary between two lives of the store (the process that
    created the files of the previous life is gone) -/
inductive TEv where
  | call (c : Call)
  | restart
deriving DecidableEq, Repr

def TOp.marker : TOp → List TEv
  | .reopen => [TEv.restart]
  | _ => []

/-- the effect trace with life boundaries -/
def evsOf (cfg : Cfg) : St → List TOp → List TEv
  | _, [] => []
  | s, op :: ops => op.marker ++ ((stepC cfg s op).2.map TEv.call ++ evsOf cfg (stepC cfg s op).1 ops)

def callsOf (evs : List TEv) : List Call :=
  evs.filterMap fun e => match e with | .call c => some c | .restart => none

/-- every merge selects files with ids up to the active id of that moment -/
def ValidC (cfg : Cfg) : St → List TOp → Prop
  | _, [] => True
  | s, op :: ops =>
    (match op with
     | .merge sel _ => ∀ id, id ∈ sel → id ≤ s.active
     | _ => True) ∧ ValidC cfg (stepC cfg s op).1 ops

/-- the C01 operations as trace operations (timestamp 0 as in `step`) -/
def TOp.ofOp : Op → TOp
  | .put k v => .put 0 k v
  | .del k => .del 0 k
  | .get k => .get k
  | .merge sel order => .merge sel order

theorem stepC_ofOp (cfg : Cfg) (s : St) (op : Op) : (stepC cfg s (.ofOp op)).1 = (step cfg s op).1 := by
  cases op <;> rfl

theorem callsOf_append (a b : List TEv) : callsOf (a ++ b) = callsOf a ++ callsOf b := by
  simp [callsOf]

theorem callsOf_map_call (cs : List Call) : callsOf (cs.map TEv.call) = cs := by
  induction cs with
  | nil => rfl
  | cons c cs ih => simp only [callsOf, List.map_cons, List.filterMap_cons] at ih ⊢; rw [ih]

theorem callsOf_marker (op : TOp) : callsOf op.marker = [] := by
  cases op <;> rfl

theorem callsOf_evsOf (cfg : Cfg) (ops : List TOp) : ∀ s, callsOf (evsOf cfg s ops) = traceOf cfg s ops := by
  induction ops with
  | nil => intro s; rfl
  | cons op ops ih =>
    intro s
    simp only [evsOf, traceOf, callsOf_append, callsOf_marker, callsOf_map_call, ih, List.nil_append]

/-- a call of the plain trace sits at a corresponding place of the annotated trace -/
theorem callsOf_split : ∀ (evs : List TEv) (pre : List Call) (c : Call) (post : List Call),
    callsOf evs = pre ++ c :: post →
    ∃ pre' post', evs = pre' ++ TEv.call c :: post' ∧ callsOf pre' = pre ∧ callsOf post' = post := by
  intro evs
  induction evs with
  | nil => intro pre c post h; simp [callsOf] at h
  | cons e evs ih =>
    intro pre c post h
    cases e with
    | restart =>
      have h' : callsOf evs = pre ++ c :: post := by simpa [callsOf] using h
      obtain ⟨p, q, h1, h2, h3⟩ := ih pre c post h'
      exact ⟨TEv.restart :: p, q, by rw [h1]; rfl, by simpa [callsOf] using h2, h3⟩
    | call d =>
      have h' : d :: callsOf evs = pre ++ c :: post := by simpa [callsOf] using h
      cases pre with
      | nil =>
        simp only [List.nil_append, List.cons.injEq] at h'
        exact ⟨[], evs, by rw [h'.1]; rfl, rfl, h'.2⟩
      | cons x pre =>
        simp only [List.cons_append, List.cons.injEq] at h'
        obtain ⟨p, q, h1, h2, h3⟩ := ih pre c post h'.2
        refine ⟨TEv.call d :: p, q, by rw [h1]; rfl, ?_, h3⟩
        simp only [callsOf, List.filterMap_cons] at h2 ⊢
        rw [h2, h'.1]

/-! ### the trace monitor -/

/-- monitor state: `bound` is a strict upper bound of every id created so far (and, through the
    coupling invariant, of every id the directory has ever contained); `last` is the previous
    call of the same life; `created` / `unlinked` are the files created / removed in this life -/
structure Mon where
  bound : Nat := 0
  last : Option Call := none
  created : List FName := []
  unlinked : List FName := []
  okFresh : Bool := true
  okOwn : Bool := true
  /-- no file with the largest id used so far has been removed -/
  okTop : Bool := true
deriving Repr

/-- freshness test for a create: a data file needs an id at or above the bound; a hint file must
    directly follow the creation of the data file with the same id -/
def Mon.freshTest (m : Mon) (f : FName) : Bool :=
  match f.kind with
  | .data => decide (m.bound ≤ f.id)
  | .hint => decide (m.last = some (.create ⟨.data, f.id⟩))

def Mon.step (m : Mon) : TEv → Mon
  | .restart => { m with last := none, created := [], unlinked := [] }
  | .call (.create f) =>
    { m with bound := max m.bound (f.id + 1), last := some (.create f), created := f :: m.created,
             okFresh := m.okFresh && m.freshTest f }
  | .call (.append f p) =>
    { m with last := some (.append f p),
             okOwn := m.okOwn && (decide (f ∈ m.created) && decide (f ∉ m.unlinked)) }
  | .call (.fsync f) => { m with last := some (.fsync f) }
  | .call (.unlink f) =>
    { m with last := some (.unlink f), unlinked := f :: m.unlinked,
             okTop := m.okTop && decide (f.id + 1 < m.bound) }

def Mon.run (m : Mon) (evs : List TEv) : Mon := evs.foldl Mon.step m

/-- the monitor after the calls `cs` of one life -/
def Mon.calls (m : Mon) (cs : List Call) : Mon := m.run (cs.map TEv.call)

theorem Mon.run_append (m : Mon) (a b : List TEv) : m.run (a ++ b) = (m.run a).run b := by
  simp [Mon.run, List.foldl_append]

theorem Mon.run_nil (m : Mon) : m.run [] = m := rfl
theorem Mon.run_cons (m : Mon) (e : TEv) (es : List TEv) : m.run (e :: es) = (m.step e).run es := rfl

theorem Mon.calls_append (m : Mon) (a b : List Call) : m.calls (a ++ b) = (m.calls a).calls b := by
  simp [Mon.calls, Mon.run_append]

theorem Mon.calls_nil (m : Mon) : m.calls [] = m := rfl
theorem Mon.calls_cons (m : Mon) (c : Call) (cs : List Call) :
    m.calls (c :: cs) = (m.step (.call c)).calls cs := rfl

/-! ### state invariant (ids only) and its coupling with the monitor -/

/-- the part of the store invariant that concerns file ids: nothing above the active id, the
    active file exists (so the largest id ever used is on disk), every hint file has its data
    file, crash tails only below the active file -/
structure IdInv (s : St) : Prop where
  ids : ∀ id, id ∈ AL.keys s.disk.data → id ≤ s.active
  hsub : ∀ id, id ∈ AL.keys s.disk.hint → id ∈ AL.keys s.disk.data
  act : (AL.get s.active s.disk.data).isSome
  tails : ∀ id, id ∈ AL.keys s.disk.tails → id < s.active
  /-- the active file has no hint file (hint files belong to merge outputs only) -/
  hlt : ∀ id, id ∈ AL.keys s.disk.hint → id < s.active

/-- what the monitor knows when the active id is `a` -/
structure MonOk (a : Nat) (m : Mon) : Prop where
  bound : m.bound = a + 1
  own : (⟨.data, a⟩ : FName) ∈ m.created
  unl : ∀ f, f ∈ m.unlinked → f.id < a
  okF : m.okFresh = true
  okO : m.okOwn = true
  okT : m.okTop = true

structure Coup (s : St) (m : Mon) : Prop where
  inv : IdInv s
  mon : MonOk s.active m

theorem IdInv.congr {s s' : St} (hd : s'.disk = s.disk) (ha : s'.active = s.active) (h : IdInv s) : IdInv s' := by
  constructor
  · rw [hd, ha]; exact h.ids
  · rw [hd]; exact h.hsub
  · rw [hd, ha]; exact h.act
  · rw [hd, ha]; exact h.tails
  · rw [hd, ha]; exact h.hlt

theorem Coup.congr {s s' : St} {m : Mon} (hd : s'.disk = s.disk) (ha : s'.active = s.active) (h : Coup s m) :
    Coup s' m := ⟨h.inv.congr hd ha, by rw [ha]; exact h.mon⟩

theorem mem_keys_set_self {κ β : Type} [DecidableEq κ] (k : κ) (v : β) (l : List (κ × β)) :
    k ∈ AL.keys (AL.set k v l) := AL.mem_keys_of_get (AL.get_set_same k v l)

theorem mem_keys_set_of_mem {κ β : Type} [DecidableEq κ] {k k' : κ} (v : β) {l : List (κ × β)}
    (h : k' ∈ AL.keys l) : k' ∈ AL.keys (AL.set k v l) := by
  by_cases hk : k' = k
  · subst hk; exact mem_keys_set_self _ _ _
  · obtain ⟨x, hx⟩ := AL.get_of_mem_keys h
    exact AL.mem_keys_of_get (by rw [AL.get_set_other hk]; exact hx)

theorem mem_keys_del_of_mem {κ β : Type} [DecidableEq κ] {k k' : κ} {l : List (κ × β)}
    (hk : k' ≠ k) (h : k' ∈ AL.keys l) : k' ∈ AL.keys (AL.del k l) := by
  obtain ⟨x, hx⟩ := AL.get_of_mem_keys h
  exact AL.mem_keys_of_get (by rw [AL.get_del_other hk]; exact hx)

/-! ### monitor steps -/

theorem MonOk.append {a : Nat} {m : Mon} (h : MonOk a m) (p : Payload) :
    MonOk a (m.step (.call (.append ⟨.data, a⟩ p))) := by
  have hu : (⟨.data, a⟩ : FName) ∉ m.unlinked := fun hc => by have := h.unl _ hc; simp at this
  constructor
  · exact h.bound
  · exact h.own
  · exact h.unl
  · exact h.okF
  · simp [Mon.step, h.okO, h.own, hu]
  · exact h.okT

theorem MonOk.fsync {a : Nat} {m : Mon} (h : MonOk a m) (f : FName) :
    MonOk a (m.step (.call (.fsync f))) := ⟨h.bound, h.own, h.unl, h.okF, h.okO, h.okT⟩

theorem MonOk.create_data {a b : Nat} {m : Mon} (h : MonOk a m) (hab : a < b) :
    MonOk b (m.step (.call (.create ⟨.data, b⟩))) := by
  constructor
  · simp only [Mon.step, h.bound]; omega
  · simp [Mon.step]
  · intro f hf; have := h.unl f hf; omega
  · simp only [Mon.step, Mon.freshTest, h.okF, h.bound, Bool.true_and, decide_eq_true_eq]; omega
  · exact h.okO
  · exact h.okT

/-! ### `write`, `put`, `delete` -/

theorem write_idinv (cfg : Cfg) (s : St) (r : Rec) (h : IdInv s) : IdInv (write cfg s r).1 := by
  by_cases hroll : s.written + r.len > cfg.maxFile
  · rw [write_roll cfg s r hroll]
    constructor
    · intro id hid
      simp only at hid ⊢
      rcases mem_keys_set hid with e | e
      · omega
      · rcases mem_keys_set e with e2 | e2
        · omega
        · have := h.ids id e2; omega
    · intro id hid
      simp only at hid ⊢
      exact mem_keys_set_of_mem _ (mem_keys_set_of_mem _ (h.hsub id hid))
    · simp [AL.get_set_same]
    · intro id hid
      have := h.tails id hid
      simp only at hid ⊢; omega
    · intro id hid
      have := h.hlt id hid
      simp only at hid ⊢; omega
  · rw [write_noroll cfg s r hroll]
    constructor
    · intro id hid
      simp only at hid ⊢
      rcases mem_keys_set hid with e | e
      · omega
      · exact h.ids id e
    · intro id hid
      simp only at hid ⊢
      exact mem_keys_set_of_mem _ (h.hsub id hid)
    · simp [AL.get_set_same]
    · exact h.tails
    · exact h.hlt

theorem write_active (cfg : Cfg) (s : St) (r : Rec) :
    (write cfg s r).1.active = if s.written + r.len > cfg.maxFile then s.active + 1 else s.active := by
  by_cases hroll : s.written + r.len > cfg.maxFile
  · rw [write_roll cfg s r hroll]; simp [hroll]
  · rw [write_noroll cfg s r hroll]; simp [hroll]

theorem write_calls (cfg : Cfg) (s : St) (r : Rec) :
    (write cfg s r).2.2 = [Call.append ⟨.data, s.active⟩ (.ofRec r)] ++
      (if cfg.syncAlways then [Call.fsync ⟨.data, s.active⟩] else []) ++
      (if s.written + r.len > cfg.maxFile then [Call.create ⟨.data, s.active + 1⟩] else []) := by
  by_cases hroll : s.written + r.len > cfg.maxFile
  · rw [write_roll cfg s r hroll]; simp [hroll]
  · rw [write_noroll cfg s r hroll]; simp [hroll]

theorem write_monOk (cfg : Cfg) (s : St) (r : Rec) (m : Mon) (h : MonOk s.active m) :
    MonOk (write cfg s r).1.active (m.calls (write cfg s r).2.2) := by
  rw [write_calls, write_active, Mon.calls_append, Mon.calls_append]
  have h1 : MonOk s.active (m.calls [Call.append ⟨.data, s.active⟩ (.ofRec r)]) := h.append _
  have h2 : MonOk s.active ((m.calls [Call.append ⟨.data, s.active⟩ (.ofRec r)]).calls
      (if cfg.syncAlways then [Call.fsync ⟨.data, s.active⟩] else [])) := by
    cases cfg.syncAlways
    · exact h1
    · exact h1.fsync _
  by_cases hroll : s.written + r.len > cfg.maxFile
  · simp only [hroll, ↓reduceIte]
    exact h2.create_data (by omega)
  · simp only [hroll, ↓reduceIte]
    exact h2

theorem write_coup (cfg : Cfg) (s : St) (r : Rec) (m : Mon) (h : Coup s m) :
    Coup (write cfg s r).1 (m.calls (write cfg s r).2.2) :=
  ⟨write_idinv cfg s r h.inv, write_monOk cfg s r m h.mon⟩

theorem put_disk (cfg : Cfg) (s : St) (ts : Int) (k : Key) (v : Val) :
    (put cfg s ts k v).1.disk = (write cfg s { ts := ts, key := k, val := some v }).1.disk := by
  unfold put; simp only [accountPrev_disk]
theorem put_active (cfg : Cfg) (s : St) (ts : Int) (k : Key) (v : Val) :
    (put cfg s ts k v).1.active = (write cfg s { ts := ts, key := k, val := some v }).1.active := by
  unfold put; simp only [accountPrev_active]
theorem put_calls (cfg : Cfg) (s : St) (ts : Int) (k : Key) (v : Val) :
    (put cfg s ts k v).2 = (write cfg s { ts := ts, key := k, val := some v }).2.2 := rfl

theorem delete_disk (cfg : Cfg) (s : St) (ts : Int) (k : Key) :
    (delete cfg s ts k).1.disk = (write cfg s { ts := ts, key := k, val := none }).1.disk := by
  unfold delete; simp only [accountPrev_disk]
theorem delete_active (cfg : Cfg) (s : St) (ts : Int) (k : Key) :
    (delete cfg s ts k).1.active = (write cfg s { ts := ts, key := k, val := none }).1.active := by
  unfold delete; simp only [accountPrev_active]
theorem delete_calls (cfg : Cfg) (s : St) (ts : Int) (k : Key) :
    (delete cfg s ts k).2.2 = (write cfg s { ts := ts, key := k, val := none }).2.2 := rfl

theorem put_coup (cfg : Cfg) (s : St) (ts : Int) (k : Key) (v : Val) (m : Mon) (h : Coup s m) :
    Coup (put cfg s ts k v).1 (m.calls (put cfg s ts k v).2) := by
  rw [put_calls]
  exact (write_coup cfg s _ m h).congr (put_disk ..) (put_active ..)

theorem delete_coup (cfg : Cfg) (s : St) (ts : Int) (k : Key) (m : Mon) (h : Coup s m) :
    Coup (delete cfg s ts k).1 (m.calls (delete cfg s ts k).2.2) := by
  rw [delete_calls]
  exact (write_coup cfg s _ m h).congr (delete_disk ..) (delete_active ..)

end Store.Tr