/-
  Power loss (C09), merge-free histories with `sync = always`: operations and histories.
-/
import BitcaskVerif.Store.PowerLoss

namespace Store

open Tr

theorem recovers_tails_of_disk {t : St} (h : RInv t) (hf : Full t) {d : Disk} (hd : t.disk = d) (T : List (Nat × Nat)) :
    Recovers { d with tails := T } t.abs := by
  subst hd; exact recovers_of_rinv h hf T

/-- **power failure during `put`** (`sync = always`): every image opens; it reads as before the
    `put` — only possible while the fsync has not completed — or as after it -/
theorem put_powerLoss_recovers (cfg : Cfg) (hs : cfg.syncAlways = true) {s : St} (h : RInv s) (hf : Full s)
    {sy : List (Nat × Nat)} (hfs : FullySynced ⟨s.disk, sy⟩) (ts : Int) (k : Key) (v : Val) {c : List Call}
    (hc : Cut (put cfg s ts k v).2 c) {d' : Disk} (hp : PowerLoss (syncCalls ⟨s.disk, sy⟩ c) d') :
    (Recovers d' s.abs ∧ Call.fsync ⟨.data, s.active⟩ ∉ c) ∨ Recovers d' (s.abs.set k v) := by
  rw [put_calls] at hc
  rcases write_powerLoss_cases cfg hs h _ hfs hc hp with ⟨⟨T, rfl⟩, hn⟩ | ⟨T, rfl⟩ | ⟨T, rfl⟩
  · exact .inl ⟨recovers_of_rinv h hf T, hn⟩
  · right
    rw [← put_abs (noRollCfg cfg s _) s ts k v h.inv]
    exact recovers_tails_of_disk (put_rinv _ s ts k v h).1 ((put_rinv _ s ts k v h).2 hf)
      (by rw [put_disk, write_noRollCfg]) T
  · right
    rw [← put_abs cfg s ts k v h.inv]
    exact recovers_tails_of_disk (put_rinv _ s ts k v h).1 ((put_rinv _ s ts k v h).2 hf) (put_disk ..) T

/-- **power failure during `delete`** (`sync = always`) -/
theorem delete_powerLoss_recovers (cfg : Cfg) (hs : cfg.syncAlways = true) {s : St} (h : RInv s) (hf : Full s)
    {sy : List (Nat × Nat)} (hfs : FullySynced ⟨s.disk, sy⟩) (ts : Int) (k : Key) {c : List Call}
    (hc : Cut (delete cfg s ts k).2.2 c) {d' : Disk} (hp : PowerLoss (syncCalls ⟨s.disk, sy⟩ c) d') :
    (Recovers d' s.abs ∧ Call.fsync ⟨.data, s.active⟩ ∉ c) ∨ Recovers d' (s.abs.del k) := by
  rw [delete_calls] at hc
  rcases write_powerLoss_cases cfg hs h _ hfs hc hp with ⟨⟨T, rfl⟩, hn⟩ | ⟨T, rfl⟩ | ⟨T, rfl⟩
  · exact .inl ⟨recovers_of_rinv h hf T, hn⟩
  · right
    rw [← (delete_abs (noRollCfg cfg s _) s ts k h.inv).1]
    exact recovers_tails_of_disk (delete_rinv _ s ts k h).1 ((delete_rinv _ s ts k h).2 hf)
      (by rw [delete_disk, write_noRollCfg]) T
  · right
    rw [← (delete_abs cfg s ts k h.inv).1]
    exact recovers_tails_of_disk (delete_rinv _ s ts k h).1 ((delete_rinv _ s ts k h).2 hf) (delete_disk ..) T

/-- **power failure during recovery** -/
theorem reopen_powerLoss_recovers {s : St} (h : RInv s) (hf : Full s) {sy : List (Nat × Nat)}
    (hfs : FullySynced ⟨s.disk, sy⟩) {c : List Call} (hc : Cut (reopen s).2 c) {d' : Disk}
    (hp : PowerLoss (syncCalls ⟨s.disk, sy⟩ c) d') : Recovers d' s.abs := by
  rcases cut_single_noappend (by intro f p; simp) hc with rfl | rfl
  · obtain ⟨T, rfl⟩ := powerLoss_full h.asc hfs hp
    exact recovers_of_rinv h hf T
  · have hfs' : FullySynced (syncCalls ⟨s.disk, sy⟩ (reopen s).2) :=
      fullySynced_create hfs (reopen s).1.active
    have ha : Asc (syncCalls ⟨s.disk, sy⟩ (reopen s).2).disk.data := (reopen_rinv h).1.asc
    obtain ⟨T, rfl⟩ := powerLoss_full ha hfs' hp
    rw [← reopen_abs h hf]
    exact recovers_tails_of_disk (reopen_rinv h).1 (reopen_rinv h).2.1 rfl T

/-- **power failure inside one merge-free operation** (`sync = always`) -/
theorem stepC_powerLoss_recovers (cfg : Cfg) (hs : cfg.syncAlways = true) {s : St} (h : RInv s) (hf : Full s)
    {sy : List (Nat × Nat)} (hfs : FullySynced ⟨s.disk, sy⟩) (op : TOp) (hop : mergeFree op) {c : List Call}
    (hc : Cut (stepC cfg s op).2 c) {d' : Disk} (hp : PowerLoss (syncCalls ⟨s.disk, sy⟩ c) d') :
    (Recovers d' s.abs ∨ Recovers d' (specOp s.abs op)) ∧
    (c = (stepC cfg s op).2 → Recovers d' (specOp s.abs op)) := by
  cases op with
  | put ts k v =>
    rcases put_powerLoss_recovers cfg hs h hf hfs ts k v hc hp with ⟨r, hn⟩ | r
    · refine ⟨.inl r, ?_⟩
      intro e
      exfalso; apply hn
      rw [e]
      show _ ∈ (put cfg s ts k v).2
      rw [put_calls, write_calls_sync cfg s _ hs]; simp
    · exact ⟨.inr r, fun _ => r⟩
  | del ts k =>
    rcases delete_powerLoss_recovers cfg hs h hf hfs ts k hc hp with ⟨r, hn⟩ | r
    · refine ⟨.inl r, ?_⟩
      intro e
      exfalso; apply hn
      rw [e]
      show _ ∈ (delete cfg s ts k).2.2
      rw [delete_calls, write_calls_sync cfg s _ hs]; simp
    · exact ⟨.inr r, fun _ => r⟩
  | get k =>
    have hc' : c = [] := cut_nil hc
    subst hc'
    obtain ⟨T, rfl⟩ := powerLoss_full h.asc hfs hp
    exact ⟨.inl (recovers_of_rinv h hf T), fun _ => recovers_of_rinv h hf T⟩
  | merge sel order => exact absurd hop (by simp [mergeFree])
  | reopen =>
    have := reopen_powerLoss_recovers h hf hfs hc hp
    exact ⟨.inl this, fun _ => this⟩

/-- the calls of a merge-free operation are its effect on the directory -/
theorem stepC_frame (cfg : Cfg) (s : St) (op : TOp) (hop : mergeFree op) :
    applyCalls s.disk (stepC cfg s op).2 = (stepC cfg s op).1.disk := by
  cases op with
  | put ts k v => exact put_frame cfg s ts k v
  | del ts k => exact delete_frame cfg s ts k
  | get k => rfl
  | merge sel order => exact absurd hop (by simp [mergeFree])
  | reopen => rfl

/-- with `sync = always` everything is durable again when a merge-free operation returns -/
theorem stepC_fullySynced (cfg : Cfg) (hs : cfg.syncAlways = true) (s : St) {sy : List (Nat × Nat)}
    (hfs : FullySynced ⟨s.disk, sy⟩) (op : TOp) (hop : mergeFree op) :
    FullySynced (syncCalls ⟨s.disk, sy⟩ (stepC cfg s op).2) := by
  cases op with
  | put ts k v => exact write_fullySynced cfg hs s _ hfs
  | del ts k => exact write_fullySynced cfg hs s _ hfs
  | get k => exact hfs
  | merge sel order => exact absurd hop (by simp [mergeFree])
  | reopen => exact fullySynced_create hfs (reopen s).1.active

/-- the durability bookkeeping along a merge-free run -/
theorem runC_sync (cfg : Cfg) (hs : cfg.syncAlways = true) (ops : List TOp) : ∀ (s : St) (sy : List (Nat × Nat)),
    FullySynced ⟨s.disk, sy⟩ → (∀ o ∈ ops, mergeFree o) →
    ∃ sy', syncCalls ⟨s.disk, sy⟩ (traceOf cfg s ops) = ⟨(runC cfg s ops).disk, sy'⟩ ∧
      FullySynced ⟨(runC cfg s ops).disk, sy'⟩ := by
  induction ops with
  | nil => intro s sy hfs _; exact ⟨sy, rfl, hfs⟩
  | cons op ops ih =>
    intro s sy hfs hm
    have hop := hm op List.mem_cons_self
    have h1 := stepC_fullySynced cfg hs s hfs op hop
    have hd : (syncCalls ⟨s.disk, sy⟩ (stepC cfg s op).2).disk = (stepC cfg s op).1.disk := by
      rw [syncCalls_disk]; exact stepC_frame cfg s op hop
    have he : syncCalls ⟨s.disk, sy⟩ (stepC cfg s op).2 =
        ⟨(stepC cfg s op).1.disk, (syncCalls ⟨s.disk, sy⟩ (stepC cfg s op).2).synced⟩ := by
      rw [← hd]
    rw [he] at h1
    obtain ⟨sy', e1, e2⟩ := ih (stepC cfg s op).1 _ h1 (fun o ho => hm o (List.mem_cons_of_mem _ ho))
    refine ⟨sy', ?_, e2⟩
    show syncCalls ⟨s.disk, sy⟩ ((stepC cfg s op).2 ++ traceOf cfg (stepC cfg s op).1 ops) = _
    rw [syncCalls_append, he, e1]
    rfl

/-- **power failure anywhere in a merge-free history** (`sync = always`): `s` any state
    satisfying the recovery invariant in which nothing absent is resurrectable, with everything
    durable; `ops` the acknowledged operations, `op` the operation in flight, `c` the calls of `op`
    issued before the failure (any cut) -/
theorem history_powerLoss_recovers (cfg : Cfg) (hs : cfg.syncAlways = true) {s : St} (h : RInv s) (hf : Full s)
    {sy : List (Nat × Nat)} (hfs : FullySynced ⟨s.disk, sy⟩) (ops : List TOp) (hops : ∀ o ∈ ops, mergeFree o)
    (op : TOp) (hop : mergeFree op) {c : List Call} (hc : Cut (stepC cfg (runC cfg s ops) op).2 c) {d' : Disk}
    (hp : PowerLoss (syncCalls ⟨s.disk, sy⟩ (traceOf cfg s ops ++ c)) d') :
    (Recovers d' (specRun s.abs ops) ∨ Recovers d' (specOp (specRun s.abs ops) op)) ∧
    (c = (stepC cfg (runC cfg s ops) op).2 → Recovers d' (specOp (specRun s.abs ops) op)) := by
  obtain ⟨sy', e1, e2⟩ := runC_sync cfg hs ops s sy hfs hops
  obtain ⟨a, b, e⟩ := runC_rinv cfg ops h hf hops
  rw [syncCalls_append, e1] at hp
  have := stepC_powerLoss_recovers cfg hs a b e2 op hop hc hp
  rw [e] at this
  exact this

theorem fullySynced_fresh : FullySynced ⟨fresh.disk, []⟩ := by
  intro id
  by_cases e : id = 0
  · subst e; simp [fresh, dataOf, AL.get, syncedOf]
  · simp [fresh, dataOf, AL.get, syncedOf, Ne.symm e]

end Store
