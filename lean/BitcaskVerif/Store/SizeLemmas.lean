/-
  C13 helper lemmas: sizes.  `storeSize` and `liveSize` as sums over association lists; the
  sum-swap "live bytes of the selected files ≤ size of the selected files"; the potential that
  the merge loop preserves (size of the unselected files + live bytes still in selected files);
  the size of the directory after the selected files are removed.
-/
import BitcaskVerif.Store.StatsMerge

namespace Store.Stats
open Store

theorem storeSize_eq (d : Disk) : storeSize d = ksum (fun _ rs => fileSize rs) d.data := by
  unfold storeSize ksum
  congr 1

theorem liveSize_eq (s : St) : liveSize s = wsum (fun l => l.len) s.keydir := by
  unfold liveSize wsum
  congr 1

/-- total size of the data files outside / inside the selection -/
def sizeOut (sel : List Nat) (data : List (Nat × List Rec)) : Nat :=
  ksum (fun f rs => if f ∈ sel then 0 else fileSize rs) data

def sizeIn (sel : List Nat) (data : List (Nat × List Rec)) : Nat :=
  ksum (fun f rs => if f ∈ sel then fileSize rs else 0) data

/-- total length of the KeyDir entries that point into selected files -/
def liveIn (sel : List Nat) (kd : List (Key × Loc)) : Nat :=
  wsum (fun l => if l.fid ∈ sel then l.len else 0) kd

theorem storeSize_split (sel : List Nat) (d : Disk) :
    storeSize d = sizeIn sel d.data + sizeOut sel d.data := by
  rw [storeSize_eq]
  apply ksum_add
  intro f rs _
  by_cases e : f ∈ sel <;> simp [e]

theorem sizeOut_nil (data : List (Nat × List Rec)) : sizeOut [] data = ksum (fun _ rs => fileSize rs) data := by
  unfold sizeOut; simp

/-- writing a file outside the selection -/
theorem sizeOut_set (sel : List Nat) (d : Disk) (f : Nat) (rs : List Rec) (hf : f ∉ sel) :
    sizeOut sel (AL.set f rs d.data) + fileSize (dataOf d f) = sizeOut sel d.data + fileSize rs := by
  have := ksum_set (fun f rs => if f ∈ sel then 0 else fileSize rs) f rs d.data
  unfold sizeOut
  simp only [hf, ↓reduceIte] at this
  have e : okw (fun f rs => if f ∈ sel then 0 else fileSize rs) f (AL.get f d.data) = fileSize (dataOf d f) := by
    unfold dataOf
    cases AL.get f d.data <;> simp [hf]
  rw [e] at this
  exact this

/-- creating an empty file with an unused id does not change the size -/
theorem sizeOut_create (sel : List Nat) (d : Disk) (f : Nat) (hnew : f ∉ AL.keys d.data) :
    sizeOut sel (AL.set f [] d.data) = sizeOut sel d.data := by
  have := ksum_set (fun f rs => if f ∈ sel then 0 else fileSize rs) f [] d.data
  rw [get_none_of_not_mem hnew] at this
  unfold sizeOut
  simp only [okw_none, fileSize_nil, ite_self, Nat.add_zero] at this
  exact this

theorem storeSize_set (d : Disk) (f : Nat) (rs : List Rec) :
    ksum (fun _ rs => fileSize rs) (AL.set f rs d.data) + fileSize (dataOf d f) = storeSize d + fileSize rs := by
  have := sizeOut_set [] d f rs (by simp)
  rw [sizeOut_nil, sizeOut_nil, ← storeSize_eq] at this
  exact this

/-! ### the sum swap -/

/-- live bytes of the files satisfying `P`, summed over the KeyDir = summed file by file -/
theorem liveIn_swap (data : List (Nat × List Rec)) (hnd : (AL.keys data).Nodup) (sel : List Nat)
    (kd : List (Key × Loc)) (hin : ∀ k l, (k, l) ∈ kd → l.fid ∈ AL.keys data) :
    liveIn sel kd = ksum (fun f _ => if f ∈ sel then liveBytes kd f else 0) data := by
  induction kd with
  | nil =>
    symm
    apply ksum_zero
    intro f rs _
    simp [liveBytes]
  | cons x xs ih =>
    obtain ⟨k, l⟩ := x
    have ih' := ih (fun k' l' hm => hin k' l' (List.mem_cons_of_mem _ hm))
    have hl := hin k l List.mem_cons_self
    unfold liveIn at ih' ⊢
    simp only [wsum_cons]
    rw [ih']
    have hs : ksum (fun f (_ : List Rec) => if f ∈ sel then liveBytes ((k, l) :: xs) f else 0) data =
        ksum (fun f (_ : List Rec) => if f = l.fid then (if l.fid ∈ sel then l.len else 0) else 0) data +
        ksum (fun f (_ : List Rec) => if f ∈ sel then liveBytes xs f else 0) data := by
      apply ksum_add
      intro f rs _
      simp only [liveBytes, wsum_cons]
      by_cases e1 : f ∈ sel
      · by_cases e2 : f = l.fid
        · subst e2; simp [e1]
        · have : ¬ l.fid = f := fun x => e2 x.symm
          simp [e1, e2, this]
      · by_cases e2 : f = l.fid
        · subst e2; simp [e1]
        · simp [e1, e2]
    rw [hs]
    have h1 : ksum (fun f (_ : List Rec) => if f = l.fid then (if l.fid ∈ sel then l.len else 0) else 0) data =
        (if l.fid ∈ sel then l.len else 0) := by
      rw [ksum_single (k0 := l.fid) hnd]
      · obtain ⟨v, hv⟩ := AL.get_of_mem_keys hl
        rw [hv]; simp
      · intro f rs _ hne; simp [hne]
    rw [h1]

/-- **live bytes in the selected files ≤ size of the selected files** -/
theorem liveIn_le_sizeIn {s : St} (hi : Inv s) (h : AccInv s) (hw : DiskWf s) (sel : List Nat) :
    liveIn sel s.keydir ≤ sizeIn sel s.disk.data := by
  rw [liveIn_swap s.disk.data hw.dnodup sel s.keydir]
  · apply ksum_le
    intro f rs hm
    by_cases e : f ∈ sel
    · simp only [e, ↓reduceIte]
      have hb := (h.files f).bytes
      have : dataOf s.disk f = rs := by simp [dataOf, get_of_mem hw.dnodup hm]
      rw [this] at hb
      omega
    · simp [e]
  · intro k l hm
    obtain ⟨_, _, _, _, _, hex⟩ := hi.locs k l (get_of_mem h.kdNodup hm)
    cases hg : AL.get l.fid s.disk.data with
    | none => rw [hg] at hex; cases hex
    | some v => exact AL.mem_keys_of_get hg

/-- the KeyDir never points to more bytes than the data files hold -/
theorem liveSize_le_storeSize {s : St} (hi : Inv s) (h : AccInv s) (hw : DiskWf s) :
    liveSize s ≤ storeSize s.disk := by
  let sel := AL.keys s.disk.data
  have h1 := liveIn_le_sizeIn hi h hw sel
  have h2 := storeSize_split sel s.disk
  have h3 : liveIn sel s.keydir = liveSize s := by
    rw [liveSize_eq]
    apply wsum_congr
    intro k l hm
    obtain ⟨_, _, _, _, _, hex⟩ := hi.locs k l (get_of_mem h.kdNodup hm)
    have : l.fid ∈ sel := by
      cases hg : AL.get l.fid s.disk.data with
      | none => rw [hg] at hex; cases hex
      | some v => exact AL.mem_keys_of_get hg
    simp [this]
  omega

/-! ### the merge loop -/

/-- what the loop preserves: bytes outside the selection + live bytes still inside it, and the
    total live size -/
structure MSize (sel : List Nat) (tot live : Nat) (m : MergeSt) : Prop where
  pot : sizeOut sel m.s.disk.data + liveIn sel m.s.keydir = tot
  live : wsum (fun l : Loc => l.len) m.s.keydir = live
  kdNodup : (AL.keys m.s.keydir).Nodup

theorem msize_step {A : Nat} {abs0 : Map} (cfg : Cfg) {sel : List Nat} (hselA : ∀ id, id ∈ sel → id ≤ A)
    {tot live : Nat} (m : MergeSt) (k : Key) (hm : MInv A abs0 m) (h : MSize sel tot live m) :
    MSize sel tot live (mergeStep cfg sel m k) := by
  apply mergeStep_cases cfg sel m k hm (MSize sel tot live) h
  intro loc r hk hsel _ _ _ h4 _
  have hmidsel : m.mid ∉ sel := fun hc => by have := hselA _ hc; have := hm.midgt; omega
  have hmoved : MSize sel tot live (movedM m k loc r) := by
    have e1 := sizeOut_set sel m.s.disk m.mid (dataOf m.s.disk m.mid ++ [r]) hmidsel
    have e2 := wsum_set (fun l : Loc => if l.fid ∈ sel then l.len else 0) k (newLocOf m loc) m.s.keydir
    have e3 := wsum_set (fun l : Loc => l.len) k (newLocOf m loc) m.s.keydir
    rw [hk] at e2 e3
    simp only [ow_some, hsel, ↓reduceIte, newLocOf, hmidsel, Nat.add_zero] at e2 e3
    simp only [fileSize_append, fileSize_cons, fileSize_nil] at e1
    constructor
    · have := h.pot
      simp only [movedM, moveSt, moveDisk, liveIn, newLocOf] at this ⊢
      omega
    · have := h.live
      simp only [movedM, moveSt, newLocOf] at this ⊢
      omega
    · simp only [movedM, moveSt]; exact nodup_set h.kdNodup
  refine ⟨hmoved, ?_⟩
  have hnew := moveDisk_keys_le hm k loc r
  constructor
  · have := hmoved.pot
    simp only [movedM, moveSt] at this
    simp only [rolledM, moveSt, rollDisk]
    rw [sizeOut_create sel _ _ hnew]
    exact this
  · exact hmoved.live
  · exact hmoved.kdNodup

/-- the directory after the selected files are removed, as a fold of `AL.del` -/
theorem unlinkFold_data_eq (l : List Nat) : ∀ (st : St × List Call),
    (l.foldl unlinkOne st).1.disk.data = l.foldl (fun d id => AL.del id d) st.1.disk.data := by
  induction l with
  | nil => intro st; rfl
  | cons id ids ih => intro st; simp only [List.foldl_cons, ih, unlinkOne_fst]

theorem ksum_delFold (w : Nat → List Rec → Nat) (l : List Nat) : ∀ (data : List (Nat × List Rec)),
    ksum w (l.foldl (fun d id => AL.del id d) data) = ksum (fun f rs => if f ∈ l then 0 else w f rs) data := by
  induction l generalizing w with
  | nil => intro data; simp
  | cons id ids ih =>
    intro data
    simp only [List.foldl_cons]
    rw [ih, ksum_del]
    apply ksum_congr
    intro f rs _
    by_cases e1 : f = id
    · simp [e1]
    · by_cases e2 : f ∈ ids <;> simp [e1, e2]

/-- **size after a merge pass** = size of the unselected files + live bytes of the selected files;
    and the live size is unchanged -/
theorem mergeWith_size (cfg : Cfg) (s : St) (sel : List Nat) (order : List Key) (hi : Inv s)
    (h : AccInv s) (hsel : ∀ id, id ∈ sel → id ≤ s.active) (hcov : Covers order s) :
    storeSize (mergeWith cfg s sel order).1.disk = sizeOut sel s.disk.data + liveIn sel s.keydir ∧
    liveSize (mergeWith cfg s sel order).1 = liveSize s := by
  obtain ⟨hM, hunsel⟩ := mergeLoop_spec cfg s sel order hi hsel hcov
  have hnew0 : s.active + 1 ∉ AL.keys s.disk.data := fun hm => by have := hi.ids _ hm; omega
  have hS0 : MSize sel (sizeOut sel s.disk.data + liveIn sel s.keydir) (liveSize s) (m0 s) := by
    constructor
    · simp only [m0, rollDisk]; rw [sizeOut_create sel _ _ hnew0]
    · simp only [m0]; rw [liveSize_eq]
    · exact h.kdNodup
  have hS : MSize sel (sizeOut sel s.disk.data + liveIn sel s.keydir) (liveSize s) (mergeLoop cfg s sel order) :=
    mergeFold_induct cfg sel hsel _ (fun m k hm hp => msize_step cfg hsel m k hm hp) order _ (m0_minv hi) hS0
  obtain ⟨sy, hres⟩ := mergeWith_fst cfg s sel order
  rw [hres]
  generalize mergeLoop cfg s sel order = m at hM hunsel hS
  have hzero : liveIn sel m.s.keydir = 0 := by
    apply wsum_zero
    intro k l hm
    have := hunsel k l (get_of_mem hS.kdNodup hm)
    simp [this]
  have hnew : m.mid + 1 ∉ AL.keys (sel.foldl unlinkOne (m.s, sy)).1.disk.data := fun hm => by
    have := hM.ids _ (unlinkFold_keys sel _ _ hm).2; omega
  constructor
  · rw [storeSize_eq]
    simp only [newActive]
    have := sizeOut_create [] (sel.foldl unlinkOne (m.s, sy)).1.disk (m.mid + 1) hnew
    rw [sizeOut_nil, sizeOut_nil] at this
    rw [this, unlinkFold_data_eq, ksum_delFold]
    have hp := hS.pot
    rw [hzero] at hp
    unfold sizeOut at hp ⊢
    simp only at hp ⊢
    omega
  · rw [liveSize_eq]
    simp only [newActive, unlinkFold_keydir]
    exact hS.live

end Store.Stats
