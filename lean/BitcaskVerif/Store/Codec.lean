/-
  Byte layout of data and hint entries (bincode 1.x, fixed-width little-endian integers):
    DataFileEntry { tstamp: i64, key: Bytes, value: Option<Bytes> }
      = i64le ts ++ u64le |key| ++ key ++ (0x00 | 0x01 ++ u64le |value| ++ value)
    HintFileEntry { tstamp: i64, len: u64, pos: u64, key: Bytes }
      = i64le ts ++ u64le len ++ u64le pos ++ u64le |key| ++ key
  and the sequential decoder used by the startup scan (`LogIterator::next`): it stops silently at
  the first entry that is cut short by end-of-file and fails on a malformed option tag.
  Core Lean only.
-/
import BitcaskVerif.Store.Model

namespace Store

def u64le (n : Nat) : List UInt8 :=
  (List.range 8).map fun i => UInt8.ofNat ((n / 256 ^ i) % 256)

def i64le (z : Int) : List UInt8 := u64le (z % 18446744073709551616).toNat

def encRec (r : Rec) : List UInt8 :=
  i64le r.ts ++ u64le r.key.length ++ r.key ++
    (match r.val with
     | none => [0]
     | some v => [1] ++ u64le v.length ++ v)

def encHint (h : Hint) : List UInt8 :=
  i64le h.ts ++ u64le h.len ++ u64le h.pos ++ u64le h.key.length ++ h.key

def encPayload : Payload → List UInt8
  | .ofRec r => encRec r
  | .ofHint h => encHint h
  | .raw bs => bs

def leNat : List UInt8 → Nat
  | [] => 0
  | b :: bs => b.toNat + 256 * leNat bs

def toI64 (n : Nat) : Int := if n < 9223372036854775808 then (n : Int) else (n : Int) - 18446744073709551616

/-- result of decoding one entry at the head of `bs` -/
inductive Dec (α : Type) where
  | ok (a : α) (rest : List UInt8)
  | eof                 -- `UnexpectedEof`: the entry is cut short (scan stops, no error)
  | bad                 -- malformed (scan fails with a serialization error)

def takeN (n : Nat) (bs : List UInt8) : Option (List UInt8 × List UInt8) :=
  if n ≤ bs.length then some (bs.take n, bs.drop n) else none

def decRec (bs : List UInt8) : Dec Rec :=
  match takeN 8 bs with
  | none => .eof
  | some (t, r1) =>
    match takeN 8 r1 with
    | none => .eof
    | some (kl, r2) =>
      match takeN (leNat kl) r2 with
      | none => .eof
      | some (k, r3) =>
        match r3 with
        | [] => .eof
        | 0 :: r4 => .ok { ts := toI64 (leNat t), key := k, val := none } r4
        | 1 :: r4 =>
          match takeN 8 r4 with
          | none => .eof
          | some (vl, r5) =>
            match takeN (leNat vl) r5 with
            | none => .eof
            | some (v, r6) => .ok { ts := toI64 (leNat t), key := k, val := some v } r6
        | _ :: _ => .bad

def decHint (bs : List UInt8) : Dec Hint :=
  match takeN 8 bs with
  | none => .eof
  | some (t, r1) =>
    match takeN 8 r1 with
    | none => .eof
    | some (l, r2) =>
      match takeN 8 r2 with
      | none => .eof
      | some (p, r3) =>
        match takeN 8 r3 with
        | none => .eof
        | some (kl, r4) =>
          match takeN (leNat kl) r4 with
          | none => .eof
          | some (k, r5) => .ok { ts := toI64 (leNat t), len := leNat l, pos := leNat p, key := k } r5

/-- sequential scan of a data file; `none` = serialization error -/
def scanRecs : Nat → List UInt8 → Option (List Rec)
  | 0, _ => some []
  | fuel+1, bs =>
    match decRec bs with
    | .eof => some []
    | .bad => none
    | .ok r rest => (scanRecs fuel rest).map (r :: ·)

def scanHintsBytes : Nat → List UInt8 → Option (List Hint)
  | 0, _ => some []
  | fuel+1, bs =>
    match decHint bs with
    | .eof => some []
    | .bad => none
    | .ok h rest => (scanHintsBytes fuel rest).map (h :: ·)

/-- a directory at byte level -/
structure ByteDisk where
  data : List (Nat × List UInt8) := []
  hint : List (Nat × List UInt8) := []

/-- what the startup scan sees of a byte-level directory; `none` = open fails -/
def ByteDisk.toDisk (b : ByteDisk) : Option Disk :=
  let ds := b.data.mapM fun (id, bs) => (scanRecs (bs.length + 1) bs).map fun rs => (id, rs)
  let hs := b.hint.mapM fun (id, bs) => (scanHintsBytes (bs.length + 1) bs).map fun h => (id, h)
  match ds, hs with
  | some d, some h =>
    let tails := (b.data.zip d).filterMap fun ((id, bs), (_, rs)) =>
      if bs.length > fileSize rs then some (id, bs.length - fileSize rs) else none
    some { data := d, hint := h, tails := tails }
  | _, _ => none

end Store
