/-
  Fault-aware writer (C20): what `Writer::write` (src/storage/bitcask.rs, with the repairs
  "create the next file before switching the active id" and "after a failed append continue in a
  fresh active file") leaves behind when one of its file-system calls fails.

  One fault per operation.  The failing operation returns the error before the KeyDir is touched
  (`put` / `delete` use `?` on the result of `write`).
-/
import BitcaskVerif.Store.MergeLemmas

namespace Store.Tr
/-- which call of `Writer::write` fails -/
inductive Fault where
  /-- the entry is smaller than the 8 KiB `BufWriter` buffer: it is buffered completely, the
      flush fails; the buffer is written out when the writer is dropped -/
  | appendSmall
  /-- the entry is at least 8 KiB: `hdr` bytes of it (header, key, part of the value) reach the
      file, the rest is lost -/
  | appendLarge (hdr : Nat)
  /-- `sync = always`: the entry is in the file, `sync_all` fails -/
  | fsync
  /-- the entry is in the file and accounted for; creating the next active file fails -/
  | create
deriving DecidableEq, Repr

/-- can this fault occur for record `r` in state `s`? (documentation and examples; the theorems
    below hold for every fault in every state) -/
def Fault.possible (cfg : Cfg) (s : St) (r : Rec) : Fault → Bool
  | .appendSmall => r.len < 8192
  | .appendLarge hdr => 8192 ≤ r.len && hdr < r.len
  | .fsync => cfg.syncAlways
  | .create => s.written + r.len > cfg.maxFile

/-- the directory after record `r` reached the end of the active file -/
def appendDisk (s : St) (r : Rec) : Disk :=
  { s.disk with data := AL.set s.active (dataOf s.disk s.active ++ [r]) s.disk.data }

/-- the state in which a failed `Writer::write r` leaves the store -/
def writeF (s : St) (r : Rec) : Fault → St
  | .appendSmall =>
    -- `append` fails with the whole entry in the buffer; `new_active_datafile(active + 1)` creates
    -- the next file, then drops the old writer, which flushes the buffer into the old file
    { s with disk := { appendDisk s r with data := AL.set (s.active + 1) [] (appendDisk s r).data },
             active := s.active + 1, written := 0 }
  | .appendLarge hdr =>
    -- `hdr` bytes that are not a whole entry stay at the end of the old file
    { s with disk := { data := AL.set (s.active + 1) [] s.disk.data, hint := s.disk.hint,
                       tails := AL.set s.active ((AL.get s.active s.disk.tails).getD 0 + hdr) s.disk.tails },
             active := s.active + 1, written := 0 }
  | .fsync =>
    -- `self.writer.sync()?` returns before bytes and counters are accounted
    { s with disk := appendDisk s r }
  | .create =>
    -- everything but the switch to the next file has happened
    { s with disk := appendDisk s r, written := s.written + r.len,
             stats := updStat s.stats s.active (fun st => if r.val.isSome then st.addLive else st.addDead r.len) }

/-- `Writer::put` with an optional fault: new state and whether the call returned `Ok` -/
def putF (cfg : Cfg) (s : St) (ts : Int) (k : Key) (v : Val) : Option Fault → St × Bool
  | none => ((put cfg s ts k v).1, true)
  | some f => (writeF s { ts := ts, key := k, val := some v } f, false)

/-- `Writer::delete` with an optional fault: new state and `Ok(present)` / `Err` -/
def deleteF (cfg : Cfg) (s : St) (ts : Int) (k : Key) : Option Fault → St × Option Bool
  | none => ((delete cfg s ts k).1, some (delete cfg s ts k).2.1)
  | some f => (writeF s { ts := ts, key := k, val := none } f, none)

/-! ### a failed write keeps every record, the index and the id invariant -/

theorem writeF_keydir (s : St) (r : Rec) (f : Fault) : (writeF s r f).keydir = s.keydir := by
  cases f <;> rfl

theorem writeF_bad (s : St) (r : Rec) (f : Fault) : (writeF s r f).bad = s.bad := by
  cases f <;> rfl

theorem writeF_active_ge (s : St) (r : Rec) (f : Fault) : s.active ≤ (writeF s r f).active := by
  cases f <;> simp [writeF]

theorem keeps_appendDisk (s : St) (r : Rec) : Keeps s.active s.disk (appendDisk s r) :=
  keeps_append _ _ _ _ _ _

theorem writeF_keeps (s : St) (r : Rec) (f : Fault) : Keeps s.active s.disk (writeF s r f).disk := by
  cases f with
  | appendSmall =>
    exact (keeps_appendDisk s r).trans (keeps_create s.active (appendDisk s r) (s.active + 1) (by omega) _ _)
  | appendLarge hdr => exact keeps_create s.active s.disk (s.active + 1) (by omega) _ _
  | fsync => exact keeps_appendDisk s r
  | create => exact keeps_appendDisk s r

theorem writeF_hint (s : St) (r : Rec) (f : Fault) : (writeF s r f).disk.hint = s.disk.hint := by
  cases f <;> rfl

theorem writeF_ids (s : St) (r : Rec) (f : Fault) (h : Inv s) :
    (∀ id, id ∈ AL.keys (writeF s r f).disk.data → id ≤ (writeF s r f).active) ∧
    (AL.get (writeF s r f).active (writeF s r f).disk.data).isSome := by
  cases f with
  | appendSmall =>
    refine ⟨?_, by simp [writeF, AL.get_set_same]⟩
    intro id hid
    simp only [writeF, appendDisk] at hid ⊢
    rcases mem_keys_set hid with e | e
    · omega
    · rcases mem_keys_set e with e2 | e2
      · omega
      · have := h.ids id e2; omega
  | appendLarge hdr =>
    refine ⟨?_, by simp [writeF, AL.get_set_same]⟩
    intro id hid
    simp only [writeF] at hid ⊢
    rcases mem_keys_set hid with e | e
    · omega
    · have := h.ids id e; omega
  | fsync =>
    refine ⟨?_, by simp [writeF, appendDisk, AL.get_set_same]⟩
    intro id hid
    simp only [writeF, appendDisk] at hid ⊢
    rcases mem_keys_set hid with e | e
    · omega
    · exact h.ids id e
  | create =>
    refine ⟨?_, by simp [writeF, appendDisk, AL.get_set_same]⟩
    intro id hid
    simp only [writeF, appendDisk] at hid ⊢
    rcases mem_keys_set hid with e | e
    · omega
    · exact h.ids id e

/-- **a failed write preserves the invariant** -/
theorem writeF_inv (s : St) (r : Rec) (f : Fault) (h : Inv s) : Inv (writeF s r f) := by
  obtain ⟨i1, i2⟩ := writeF_ids s r f h
  constructor
  · intro k loc hk
    rw [writeF_keydir] at hk
    have hl := h.locs k loc hk
    exact hl.keeps (LocOk.fid_le h hl) (writeF_keeps s r f)
  · exact i1
  · intro id hid
    rw [writeF_hint] at hid
    have := h.hids id hid
    have := writeF_active_ge s r f
    omega
  · exact i2

/-- **a failed write changes what no key reads** -/
theorem writeF_abs (s : St) (r : Rec) (f : Fault) (h : Inv s) : (writeF s r f).abs = s.abs := by
  funext k
  apply abs_keeps (b := s.active)
  · intro loc hl; have := h.locs k loc hl; exact ⟨this, LocOk.fid_le h this⟩
  · rw [writeF_keydir]
  · exact writeF_keeps s r f

end Store.Tr