/-
  Lives after a power failure inside a merge (C09), part 1.

  * `hp_image`: a data file and its hint file cut back independently still satisfy "the accepted
    hint entries describe as many records" — a hint entry whose record is missing or incomplete
    points beyond the end of the file (defect D5) and stops the scan of the hint file.
  * `PowerLoss3`: the power-loss images of `PowerLoss2` in which a data file that loses no record
    keeps its length (its invisible tail is unchanged).  `PowerLoss2` leaves the tail of such a
    file arbitrary; that is harmless as long as hint files are exact, but a stale merge output
    from an earlier power failure may have hint entries whose records are gone, and a LONGER
    tail would make the D5 check accept them.  (No generality is lost for torn appends: the
    number of bytes a torn append leaves is arbitrary already in `Cut`.)
  * `CJ.sameFiles`: images that lose nothing.
  * `copyPhase_image`: every power-loss image of every cut of the copy phase of a merge pass,
    in a store satisfying the lives invariant, via the general theorem `recW_newFiles`.
-/
import BitcaskVerif.Store.LivesGen
import BitcaskVerif.Store.PowerAll

namespace Store


theorem mem_takeWhile_true {α : Type} (p : α → Bool) : ∀ (l : List α) (x : α), x ∈ l.takeWhile p → p x = true
  | [], _, h => by simp at h
  | a :: as, x, h => by
    by_cases ha : p a = true
    · simp only [List.takeWhile, ha, List.mem_cons] at h
      rcases h with rfl | h
      · exact ha
      · exact mem_takeWhile_true p as x h
    · simp [List.takeWhile, ha] at h

theorem evData_take (fid : Nat) : ∀ (rs : List Rec) (p m : Nat), (evData fid rs p).take m = evData fid (rs.take m) p
  | [], _, m => by simp [evData]
  | r :: rs, p, 0 => by simp [evData]
  | r :: rs, p, m + 1 => by simp [evData, evData_take fid rs (p + r.len) m]

theorem evData_length (fid : Nat) : ∀ (rs : List Rec) (p : Nat), (evData fid rs p).length = rs.length
  | [], _ => rfl
  | r :: rs, p => by simp [evData, evData_length fid rs (p + r.len)]

/-- hint entries that describe the records `rs` (from byte `p` on): entry `i` is at the end of
    the first `i` records and has the length of record `i` -/
theorem hint_at {fid : Nat} : ∀ {hs : List Hint} {rs : List Rec} {p : Nat}, hintEvs fid hs = evData fid rs p →
    ∀ i h, hs[i]? = some h → ∃ r, rs[i]? = some r ∧ h.pos = p + fileSize (rs.take i) ∧ h.len = r.len
  | [], _, _, _, i, h, hi => by simp at hi
  | x :: xs, [], _, he, _, _, _ => by simp [hintEvs, evData] at he
  | x :: xs, r :: rs, p, he, i, h, hi => by
    simp only [hintEvs, List.map_cons, evData, List.cons.injEq] at he
    obtain ⟨h0, ht⟩ := he
    cases i with
    | zero =>
      simp only [List.getElem?_cons_zero, Option.some.injEq] at hi
      subst hi
      refine ⟨r, rfl, ?_, ?_⟩
      · have := congrArg (fun e => e.loc.pos) h0
        simpa [hintEv, mkEv] using this
      · have := congrArg (fun e => e.loc.len) h0
        simpa [hintEv, mkEv] using this
    | succ i =>
      simp only [List.getElem?_cons_succ] at hi
      obtain ⟨r', a, b, c⟩ := hint_at (hs := xs) (rs := rs) (p := p + r.len) ht i h hi
      refine ⟨r', by simpa using a, ?_, c⟩
      rw [b]; simp only [List.take_succ_cons, fileSize_cons]; omega

/-- **a data file and its hint file cut back independently**: if the hint entries `hs` describe
    the first `hs.length` records of `rs`, then of the cut-back hint file the scan accepts
    entries that describe exactly as many records of the cut-back data file — provided the
    partial record left behind is shorter than the first lost record (`htail`).  A hint entry
    whose record is missing or incomplete points beyond the end of the file (defect D5). -/
theorem hp_image {fid : Nat} {rs : List Rec} {hs : List Hint}
    (hex : hintEvs fid hs = evData fid (rs.take hs.length) 0) (kD kH tail : Nat)
    (htail : ∀ r, rs[kD]? = some r → tail < r.len) :
    hintEvs fid (accLen (fileSize (rs.take kD) + tail) (hs.take kH)) =
      evData fid ((rs.take kD).take (accLen (fileSize (rs.take kD) + tail) (hs.take kH)).length) 0 := by
  have hm : ∃ m, m = (accLen (fileSize (rs.take kD) + tail) (hs.take kH)).length := ⟨_, rfl⟩
  obtain ⟨m, hm⟩ := hm
  rw [← hm]
  have hpre : accLen (fileSize (rs.take kD) + tail) (hs.take kH) <+: hs :=
    (List.takeWhile_prefix _).trans (List.take_prefix _ _)
  have hacc : accLen (fileSize (rs.take kD) + tail) (hs.take kH) = hs.take m := by
    rw [hm]; exact List.prefix_iff_eq_take.mp hpre
  have hmle : m ≤ hs.length := by rw [hm]; exact hpre.length_le
  have h1 : hintEvs fid (hs.take m) = evData fid (rs.take m) 0 := by
    unfold hintEvs
    rw [List.map_take]
    have : List.map (hintEv fid) hs = evData fid (rs.take hs.length) 0 := hex
    rw [this, evData_take, List.take_take, Nat.min_eq_left hmle]
  rw [hacc, h1]
  congr 1
  rw [List.take_take]
  by_cases hk : m ≤ kD
  · rw [Nat.min_eq_left hk]
  · have hk' : kD < m := by omega
    rw [Nat.min_eq_right (by omega)]
    by_cases hkr : rs.length ≤ kD
    · rw [List.take_of_length_le hkr, List.take_of_length_le (by omega)]
    · -- the hint entry of the first lost record would have been accepted: impossible
      exfalso
      have hkD : kD < hs.length := by omega
      obtain ⟨h, hh⟩ : ∃ h, hs[kD]? = some h := ⟨_, List.getElem?_eq_getElem hkD⟩
      have hmem : h ∈ accLen (fileSize (rs.take kD) + tail) (hs.take kH) := by
        rw [hacc, List.mem_iff_getElem?]
        exact ⟨kD, by rw [List.getElem?_take]; simp [hk', hh]⟩
      have hfit := mem_takeWhile_true _ _ _ hmem
      simp only [decide_eq_true_eq] at hfit
      obtain ⟨r, a, b, c⟩ := hint_at hex kD h hh
      rw [List.getElem?_take] at a
      simp only [hkD, ↓reduceIte] at a
      have := htail r a
      rw [List.take_take, Nat.min_eq_left (by omega)] at b
      omega



/-- two association lists with the same ascending keys and the same bindings are equal -/
theorem asc_ext : ∀ {l l' : List (Nat × List Rec)}, Asc l → AL.keys l' = AL.keys l →
    (∀ fid, (AL.get fid l').getD [] = (AL.get fid l).getD []) → l' = l
  | [], [], _, _, _ => rfl
  | [], _ :: _, _, hk, _ => by simp [AL.keys] at hk
  | _ :: _, [], _, hk, _ => by simp [AL.keys] at hk
  | (f, rs) :: xs, (f', rs') :: ys, ha, hk, hg => by
    simp only [AL.keys, List.map_cons, List.cons.injEq] at hk
    obtain ⟨hf, hk'⟩ := hk
    subst hf
    have h0 := hg f'
    simp only [AL.get, ↓reduceIte, Option.getD_some] at h0
    subst h0
    congr 1
    apply asc_ext ha.tail hk'
    intro fid
    by_cases e : f' = fid
    · subst e
      have h1 : f' ∉ AL.keys xs := fun hm => by have := ha.head_lt f' hm; simp at this
      have h2 : f' ∉ AL.keys ys := by
        have : AL.keys ys = AL.keys xs := hk'
        rw [this]; exact h1
      rw [AL.get_eq_none_iff.mpr h1, AL.get_eq_none_iff.mpr h2]
    · have := hg fid
      simpa [AL.get, e] using this

/-- `CJ` carries over to a directory with the same files (e.g. a power-loss image that lost
    nothing) whose tails agree on the files that have a hint file -/
theorem CJ.sameFiles {dB D : Disk} {kd : List (Key × Loc)} {a : Nat} {m : Map} (h : CJ dB D kd a m) {I : Disk}
    (sf : SameFiles D I)
    (ht : ∀ fid, (AL.get fid D.hint).isSome → AL.get fid I.tails = AL.get fid D.tails) : RecW I m := by
  have hdata : I.data = D.data := asc_ext h.asc sf.keys (fun fid => sf.data fid)
  have hdo : ∀ fid, dataOf I fid = dataOf D fid := sf.data
  refine ⟨{ dB with tails := I.tails }, kd, a, h.clean.tails _, (absOf_tails _ _ _).trans h.abs, ?_, ?_, ?_⟩
  · refine ⟨by rw [hdata]; exact h.sim.keys, by rw [sf.hkeys]; exact h.sim.hkeys, rfl, ?_⟩
    intro fid
    cases hg : AL.get fid D.hint with
    | none =>
      refine ⟨by rw [hdo]; exact (h.sim.file fid).pre, fun _ => by rw [hdo]; exact (h.sim.file fid).unh hg, ?_⟩
      intro hs hgI
      rw [sf.hint, hg] at hgI; cases hgI
    | some hs =>
      exact (h.sim.file fid).congr rfl (hdo fid) rfl (sf.hint fid) (ht fid (by rw [hg]; rfl))
  · intro fid p j h1 h2
    rw [hdo] at h1
    obtain ⟨v, P⟩ := h.junk fid p j h1 h2
    exact ⟨v, fun loc hl hlt => by rw [hdo]; exact P loc hl hlt⟩
  · intro k hk
    rw [hdata]; exact h.fullA k hk

/-! ### the new files of the cuts of the copy phase -/

/-- what is known about the new files `N` a cut of the copy phase has built -/
structure NewFacts (s : St) (N : Disk) : Prop where
  asc : Asc N.data
  hmaxN : ∀ id ∈ AL.keys N.hint, ∃ b ∈ AL.keys N.data, id ≤ b
  /-- every hint file describes the first records of its data file -/
  np : ∀ fid hs, AL.get fid N.hint = some hs → hintEvs fid hs = evData fid ((dataOf N fid).take hs.length) 0
  copy : ∀ fid p r, recAt (dataOf N fid) p = some r → CopyRec s r

theorem cut_out {A : Nat} {cs c : List Call} (hc : Cut cs c) (h : ∀ x ∈ cs, OutCall A x) : ∀ x ∈ c, OutCall A x := by
  rcases hc with ⟨post, e⟩ | ⟨pre, f, p, post, bs, e, _, rfl⟩
  · intro x hx; exact h x (by rw [e]; exact List.mem_append_left _ hx)
  · intro x hx
    rcases List.mem_append.mp hx with hx | hx
    · exact h x (by rw [e]; exact List.mem_append_left _ hx)
    · simp only [List.mem_singleton] at hx
      subst hx
      have := h (Call.append f p) (by rw [e]; simp)
      exact ⟨this.1, by intro g; simp⟩

theorem NewFacts.np_le {s : St} {N : Disk} (h : NewFacts s N) {fid : Nat} {hs : List Hint}
    (hg : AL.get fid N.hint = some hs) : hs.length ≤ (dataOf N fid).length := by
  have := congrArg List.length (h.np fid hs hg)
  simp only [hintEvs, List.length_map, evData_length, List.length_take] at this
  omega

theorem CopyRec.of_vis {s : St} {d1 : Disk} (w : LJw s d1) {r : Rec} (h : CopyRec { s with disk := d1 } r) :
    CopyRec s r := by
  obtain ⟨v, loc, hk, hr⟩ := h
  exact ⟨v, loc, hk, w.sim.recAt hr⟩

/-- the new files after the calls of a loop state -/
theorem LX.newFacts {s : St} {d1 : Disk} (w : LJw s d1) {mB : MergeSt} (h : LX { s with disk := d1 } mB) :
    NewFacts s (newFiles s.disk.tails mB.calls) := by
  have hout : ∀ c ∈ mB.calls, OutCall s.active c := h.out
  have hn : NewOk s.active s.disk.tails (newFiles s.disk.tails mB.calls) := newOk_newFiles _ hout
  have e1 : mB.s.disk = dapp d1 (newFiles s.disk.tails mB.calls) := by
    have := h.li.frame
    simp only at this
    rw [← this, applyCalls_out w.below1 hout, w.sim.tl]
  have hasc : Asc (d1.data ++ (newFiles s.disk.tails mB.calls).data) := by
    have := h.li.mr.asc
    rw [e1] at this; exact this
  constructor
  · unfold Asc at hasc ⊢
    rw [keys_append, List.pairwise_append] at hasc
    exact hasc.2.1
  · intro id hid
    have hgt := hn.hids id hid
    have hmid : mB.mid ∈ AL.keys (newFiles s.disk.tails mB.calls).data := by
      have := h.li.minv.midex
      rw [e1, get_data_dapp_gt w.below1 h.li.minv.midgt] at this
      cases hg : AL.get mB.mid (newFiles s.disk.tails mB.calls).data with
      | none => rw [hg] at this; cases this
      | some v => exact AL.mem_keys_of_get hg
    refine ⟨mB.mid, hmid, ?_⟩
    apply h.li.minv.hids
    rw [e1]
    show id ∈ AL.keys (d1.hint ++ (newFiles s.disk.tails mB.calls).hint)
    rw [keys_append]; exact List.mem_append_right _ hid
  · intro fid hs hg
    have hgt := hn.hids fid (AL.mem_keys_of_get hg)
    have hx := h.li.mr.hx
    rw [e1] at hx
    have := hx fid hs (by rw [get_hint_dapp_gt w.below1 hgt]; exact hg)
    rw [dataOf_dapp_gt w.below1 hgt] at this
    have hl := congrArg List.length this
    simp only [hintEvs, List.length_map, evData_length] at hl
    rw [hl, List.take_length]
    exact this
  · intro fid p r hr
    have hgt : s.active < fid := hn.ids fid (recAt_some_mem hr)
    apply CopyRec.of_vis w
    apply h.copy fid hgt p r
    rw [e1, dataOf_dapp_gt w.below1 hgt]
    exact hr

theorem NewFacts.tails {s : St} {N : Disk} (h : NewFacts s N) (T : List (Nat × Nat)) :
    NewFacts s { N with tails := T } := ⟨h.asc, h.hmaxN, h.np, h.copy⟩

theorem NewFacts.addData {s : St} {N : Disk} (h : NewFacts s N) {b : Nat} (hb : ∀ id ∈ AL.keys N.data, id < b)
    (hh : AL.get b N.hint = none) : NewFacts s { N with data := AL.set b [] N.data } := by
  constructor
  · exact (asc_set_new h.asc hb).2
  · intro id hid
    obtain ⟨c, hc, hle⟩ := h.hmaxN id hid
    exact ⟨c, Tr.mem_keys_set_of_mem _ hc, hle⟩
  · intro fid hs hg
    have hne : fid ≠ b := fun e => by rw [e] at hg; simp only at hg; rw [hh] at hg; cases hg
    rw [dataOf_set_other _ hne]
    exact h.np fid hs hg
  · intro fid p r hr
    by_cases e : fid = b
    · subst e; rw [dataOf_set_same] at hr; simp [recAt] at hr
    · rw [dataOf_set_other _ e] at hr; exact h.copy fid p r hr

theorem NewFacts.half {s : St} {N : Disk} (h : NewFacts s N) {a : Nat} (ha : (AL.get a N.data).isSome)
    {r : Rec} (hr : CopyRec s r) : NewFacts s { N with data := AL.set a (dataOf N a ++ [r]) N.data } := by
  constructor
  · refine asc_set_mem h.asc ?_
    cases hg : AL.get a N.data with
    | none => rw [hg] at ha; cases ha
    | some v => exact AL.mem_keys_of_get hg
  · intro id hid
    obtain ⟨c, hc, hle⟩ := h.hmaxN id hid
    exact ⟨c, Tr.mem_keys_set_of_mem _ hc, hle⟩
  · intro fid hs hg
    by_cases e : fid = a
    · subst e
      have hle := h.np_le hg
      rw [dataOf_set_same, List.take_append_of_le_length hle]
      exact h.np fid hs hg
    · rw [dataOf_set_other _ e]
      exact h.np fid hs hg
  · intro fid p x hx
    by_cases e : fid = a
    · subst e
      rw [dataOf_set_same] at hx
      rcases recAt_snoc hx with hx' | ⟨_, rfl⟩
      · exact h.copy fid p x hx'
      · exact hr
    · rw [dataOf_set_other _ e] at hx; exact h.copy fid p x hx

theorem newFiles_append (T : List (Nat × Nat)) (a b : List Call) :
    newFiles T (a ++ b) = applyCalls (newFiles T a) b := applyCalls_append _ a b

/-- **the new files of every cut of the copy phase** -/
theorem loopCut_newFacts (cfg : Cfg) {s : St} {d1 : Disk} (w : LJw s d1) (sel : List Nat)
    (hsel : ∀ id, id ∈ sel → id ≤ s.active) (order : List Key) {c : List Call}
    (hc : Cut (mergeLoop cfg { s with disk := d1 } sel order).calls c) :
    (∀ x ∈ c, OutCall s.active x) ∧ NewFacts s (newFiles s.disk.tails c) := by
  have lx := mergeLoop_lx cfg w.rinv w.full1 sel hsel order
  refine ⟨cut_out hc lx.out, ?_⟩
  rcases mergeFold_shape cfg sel (s := { s with disk := d1 }) hsel order (mergeStart_lx w.rinv w.full1) hc with
    h1 | ⟨mB, t, hx, rfl, ht⟩
  · obtain ⟨post, e⟩ := cut_noappend (by
      intro x hx f p
      simp only [mergeStart, List.mem_cons, List.not_mem_nil, or_false] at hx
      rcases hx with rfl | rfl <;> simp) h1
    rcases prefix_cases2 e with rfl | rfl | rfl
    · exact ⟨by simp [newFiles, Asc, AL.keys], by simp [newFiles, AL.keys], by simp [newFiles],
        by intro fid p r hr; simp [newFiles, dataOf, recAt] at hr⟩
    · refine ⟨by simp [newFiles, applyCalls, applyCall, AL.set, Asc, AL.keys],
        by simp [newFiles, applyCalls, applyCall, AL.keys], by simp [newFiles, applyCalls, applyCall], ?_⟩
      intro fid p r hr
      exfalso
      simp only [newFiles, applyCalls, List.foldl_cons, List.foldl_nil, applyCall, AL.set, dataOf, AL.get] at hr
      split at hr <;> simp [recAt] at hr
    · exact (mergeStart_lx w.rinv w.full1).newFacts w
  · have nf := hx.newFacts w
    have hn : NewOk s.active s.disk.tails (newFiles s.disk.tails mB.calls) := newOk_newFiles _ hx.out
    have e1 : mB.s.disk = dapp d1 (newFiles s.disk.tails mB.calls) := by
      have := hx.li.frame
      simp only at this
      rw [← this, applyCalls_out w.below1 hx.out, w.sim.tl]
    have hgt : s.active < mB.mid := hx.li.minv.midgt
    rw [newFiles_append]
    cases ht with
    | same e => rw [e]; exact nf
    | raw n e => rw [e]; exact nf.tails _
    | newData e =>
      rw [e]
      apply nf.addData
      · intro id hid
        have : id ≤ mB.mid := by
          apply hx.li.minv.ids
          rw [e1]
          show id ∈ AL.keys (d1.data ++ (newFiles s.disk.tails mB.calls).data)
          rw [keys_append]; exact List.mem_append_right _ hid
        omega
      · cases hg : AL.get (mB.mid + 1) (newFiles s.disk.tails mB.calls).hint with
        | none => rfl
        | some v =>
          exfalso
          have : mB.mid + 1 ≤ mB.mid := by
            apply hx.li.minv.hids
            rw [e1]
            show mB.mid + 1 ∈ AL.keys (d1.hint ++ (newFiles s.disk.tails mB.calls).hint)
            rw [keys_append]; exact List.mem_append_right _ (AL.mem_keys_of_get hg)
          omega
    | half k loc r hk hs hr e =>
      rw [e]
      apply nf.half
      · have := hx.li.minv.midex
        rw [e1, get_data_dapp_gt w.below1 hgt] at this
        exact this
      · obtain ⟨r', g1, g2, g3, _, _⟩ := hx.li.minv.locs k loc hk
        rw [hr] at g1
        cases g1
        have hle : loc.fid ≤ s.active := hsel _ hs
        apply CopyRec.of_vis w
        refine ⟨g3, loc, by rw [g2]; exact hx.old k loc hk hle, ?_⟩
        rw [← hx.oldf loc.fid hle]; exact hr

/-! ### power-loss images -/

/-- the power-loss images of `PowerLoss2` in which a data file that loses no record keeps its
    length (its invisible tail is unchanged) -/
def PowerLoss3 (sd : SDisk2) (I : Disk) : Prop :=
  ∃ kD kH T, (∀ id, sd.dOf id ≤ kD id) ∧ (∀ id, sd.hOf id ≤ kH id) ∧ TailOk sd.disk kD T ∧
    (∀ id, (dataOf sd.disk id).length ≤ kD id → AL.get id T = AL.get id sd.disk.tails) ∧
    I = lossImage2 sd.disk kD kH T

theorem PowerLoss3.toPL2 {sd : SDisk2} {I : Disk} (h : PowerLoss3 sd I) : PowerLoss2 sd I := by
  obtain ⟨kD, kH, T, h1, h2, h3, _, e⟩ := h
  exact ⟨kD, kH, T, h1, h2, h3, e⟩

theorem syncedAt_steps {id : Nat} (cs : List Call) : ∀ {sd : SDisk2}, SyncedAt sd id →
    (∀ c ∈ cs, ∀ f p, c = Call.append f p → f.id ≠ id) → SyncedAt (syncCalls2 sd cs) id := by
  induction cs with
  | nil => intro sd h _; exact h
  | cons c cs ih =>
    intro sd h hc
    exact ih (syncedAt_step h c (hc c List.mem_cons_self)) (fun x hx => hc x (List.mem_cons_of_mem _ hx))

theorem map_eq_self {α : Type} {f : α → α} : ∀ {l : List α}, (∀ p ∈ l, f p = p) → l.map f = l
  | [], _ => rfl
  | x :: xs, h => by
    simp only [List.map_cons, h x List.mem_cons_self,
      map_eq_self (fun p hp => h p (List.mem_cons_of_mem _ hp))]

theorem recAt_take {rs : List Rec} {n p : Nat} {r : Rec} (h : recAt (rs.take n) p = some r) : recAt rs p = some r := by
  rw [← List.take_append_drop n rs]; exact recAt_append_left h _

/-- a power-loss image that loses nothing: same files, and the same tails -/
theorem powerLoss3_full {sd : SDisk2} (hfs : FullySynced2 sd) {I : Disk} (hp : PowerLoss3 sd I) :
    SameFiles sd.disk I ∧ ∀ fid, AL.get fid I.tails = AL.get fid sd.disk.tails := by
  refine ⟨powerLoss2_sameFiles hfs hp.toPL2, ?_⟩
  obtain ⟨kD, kH, T, h1, _, _, h4, rfl⟩ := hp
  intro fid
  exact h4 fid (Nat.le_trans (hfs fid).1 (h1 fid))

/-- **every power-loss image of a cut that has only built new files** (in particular: of every
    cut of the copy phase of a merge pass, `loopCut_newFacts`): whatever part of the new data and
    hint files survives, the image opens to the contents of the store -/
theorem copyPhase_image {s : St} {d1 : Disk} (w : LJw s d1) {c : List Call}
    (hout : ∀ x ∈ c, OutCall s.active x) (nf : NewFacts s (newFiles s.disk.tails c)) {sd0 : SDisk2}
    (hd : sd0.disk = s.disk) (hfs : FullySynced2 sd0) {I : Disk} (hp : PowerLoss3 (syncCalls2 sd0 c) I) :
    RecW I s.abs := by
  obtain ⟨kD, kH, T, h1, h2, h3, h4, rfl⟩ := hp
  have hn : NewOk s.active s.disk.tails (newFiles s.disk.tails c) := newOk_newFiles _ hout
  have hdisk : (syncCalls2 sd0 c).disk = dapp s.disk (newFiles s.disk.tails c) := by
    rw [syncCalls2_disk, hd, applyCalls_out w.below hout]
  -- the old files are durable
  have hold : ∀ id, id ≤ s.active → (dataOf s.disk id).length ≤ kD id ∧ (hintsOf s.disk id).length ≤ kH id := by
    intro id hle
    have := syncedAt_steps c (hfs id) (fun x hx f p e => by
      have := (hout x hx).1
      subst e
      simp only [callId] at this
      omega)
    unfold SyncedAt at this
    rw [hdisk] at this
    simp only [hintsOf] at this ⊢
    rw [dataOf_dapp_le hn hle, get_hint_dapp_le hn hle] at this
    exact ⟨Nat.le_trans this.1 (h1 id), Nat.le_trans this.2 (h2 id)⟩
  rw [hdisk] at h3 h4 ⊢
  -- the image of the new files
  have hNI : ∃ NI, NI = lossImage2 (newFiles s.disk.tails c) kD kH T := ⟨_, rfl⟩
  obtain ⟨NI, hNI⟩ := hNI
  have hkD : AL.keys NI.data = AL.keys (newFiles s.disk.tails c).data := by
    rw [hNI]; exact keys_map_val (fun id (rs : List Rec) => rs.take (kD id)) _
  have hkH : AL.keys NI.hint = AL.keys (newFiles s.disk.tails c).hint := by
    rw [hNI]; exact keys_map_val (fun id (hs : List Hint) => hs.take (kH id)) _
  have hdNI : ∀ fid, dataOf NI fid = (dataOf (newFiles s.disk.tails c) fid).take (kD fid) := by
    intro fid; rw [hNI]; exact dataOf_lossImage2 _ _ _ _ _
  have hhNI : ∀ fid, AL.get fid NI.hint = (AL.get fid (newFiles s.disk.tails c).hint).map (fun hs => hs.take (kH fid)) := by
    intro fid; rw [hNI]; exact getHint_lossImage2 _ _ _ _ _
  have hnI : NewOk s.active s.disk.tails NI := by
    refine ⟨by rw [hkD]; exact hn.ids, by rw [hkH]; exact hn.hids, ?_⟩
    intro id hle
    have := h4 id (by rw [dataOf_dapp_le hn hle]; exact (hold id hle).1)
    rw [hNI]
    show AL.get id T = _
    rw [this]
    exact hn.tails id hle
  have hrec : RecW (dapp s.disk NI) s.abs := by
    apply recW_newFiles w hnI
    · unfold Asc; rw [hkD]; exact nf.asc
    · intro id hid
      rw [hkH] at hid
      obtain ⟨b, hb, hle⟩ := nf.hmaxN id hid
      exact ⟨b, by rw [hkD]; exact hb, hle⟩
    · intro fid hs' hg
      rw [hhNI] at hg
      cases hg0 : AL.get fid (newFiles s.disk.tails c).hint with
      | none => rw [hg0] at hg; cases hg
      | some hs =>
        rw [hg0] at hg
        simp only [Option.map_some, Option.some.injEq] at hg
        subst hg
        have hgt : s.active < fid := hn.hids fid (AL.mem_keys_of_get hg0)
        unfold accOf dlen
        rw [hdNI]
        have htl : (AL.get fid NI.tails).getD 0 = (AL.get fid T).getD 0 := by rw [hNI]; rfl
        rw [htl]
        apply hp_image (nf.np fid hs hg0)
        intro r hr
        apply h3 fid r
        rw [dataOf_dapp_gt w.below hgt]; exact hr
    · intro fid p r hr
      rw [hdNI] at hr
      exact nf.copy fid p r (recAt_take hr)
  obtain ⟨dB, kd, a, cj⟩ := hrec
  apply cj.sameFiles
  · -- the image and `dapp s.disk NI` have the same files
    have hdata : (lossImage2 (dapp s.disk (newFiles s.disk.tails c)) kD kH T).data = (dapp s.disk NI).data := by
      show (s.disk.data ++ (newFiles s.disk.tails c).data).map _ = s.disk.data ++ NI.data
      rw [List.map_append, hNI]
      congr 1
      apply map_eq_self
      intro p hp
      obtain ⟨id, rs⟩ := p
      have hg := get_of_mem_asc w.asc hp
      have hle : id ≤ s.active := w.inv.ids id (AL.mem_keys_of_get hg)
      have := (hold id hle).1
      simp only [dataOf, hg, Option.getD_some] at this
      simp only [List.take_of_length_le this]
    have hhint : ∀ fid, AL.get fid (lossImage2 (dapp s.disk (newFiles s.disk.tails c)) kD kH T).hint =
        AL.get fid (dapp s.disk NI).hint := by
      intro fid
      rw [getHint_lossImage2]
      show (AL.get fid (s.disk.hint ++ (newFiles s.disk.tails c).hint)).map _ = AL.get fid (s.disk.hint ++ NI.hint)
      by_cases hm : fid ∈ AL.keys s.disk.hint
      · rw [AL.get_append_left _ hm, AL.get_append_left _ hm]
        have hle : fid ≤ s.active := w.inv.hids fid hm
        have := (hold fid hle).2
        cases hg : AL.get fid s.disk.hint with
        | none => rfl
        | some hs =>
          simp only [hintsOf, hg, Option.getD_some] at this
          simp only [Option.map_some, List.take_of_length_le this]
      · rw [AL.get_append_right _ hm, AL.get_append_right _ hm, hhNI]
    refine ⟨?_, ?_, ?_, fun fid => (hhint fid)⟩
    · rw [hdata]
    · show AL.keys ((s.disk.hint ++ (newFiles s.disk.tails c).hint).map _) = AL.keys (s.disk.hint ++ NI.hint)
      rw [keys_map_val (fun id (hs : List Hint) => hs.take (kH id)), keys_append, keys_append, hkH]
    · intro fid
      simp only [dataOf, hdata]
  · intro fid _
    rw [hNI]; rfl

end Store
