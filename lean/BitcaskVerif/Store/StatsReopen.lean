/-
  C19 helper lemmas, part 5: the startup scan.  Scanning a well-formed directory (`DiskWf`)
  file by file — through the hint file where there is one, through the records otherwise —
  keeps the counters exact with respect to the part of the directory scanned so far
  (`ScanInv`), so `reopen` ends in a state satisfying `Inv`, `AccInv` and `DiskWf`.
-/
import BitcaskVerif.Store.DiskWf

namespace Store.Stats
open Store

/-- replace the content of one file -/
def upd (c : Nat → List Rec) (f0 : Nat) (rs : List Rec) : Nat → List Rec :=
  fun f => if f = f0 then rs else c f

theorem upd_same (c : Nat → List Rec) (f0 : Nat) (rs : List Rec) : upd c f0 rs f0 = rs := by simp [upd]
theorem upd_other (c : Nat → List Rec) {f0 f : Nat} (h : f ≠ f0) (rs : List Rec) : upd c f0 rs f = c f := by
  simp [upd, h]
theorem upd_upd (c : Nat → List Rec) (f0 : Nat) (a b : List Rec) : upd (upd c f0 a) f0 b = upd c f0 b := by
  funext f; by_cases e : f = f0 <;> simp [upd, e]
theorem upd_self (c : Nat → List Rec) (f0 : Nat) : upd c f0 (c f0) = c := by
  funext f; by_cases e : f = f0 <;> simp [upd, e]

/-- invariant of the scan: the index built so far is exact for the records scanned so far
    (`c f` = the scanned prefix of file `f`) and addresses only such records -/
structure ScanInv (ix : Idx) (c : Nat → List Rec) : Prop where
  kdNodup : (AL.keys ix.keydir).Nodup
  files : ∀ f, FileAcc ix.keydir ix.stats f (c f)
  notBad : ix.bad = false
  statsNodup : (AL.keys ix.stats).Nodup
  locs : ∀ k l, AL.get k ix.keydir = some l →
    ∃ r, recAt (c l.fid) l.pos = some r ∧ r.key = k ∧ r.val.isSome ∧ r.len = l.len

/-- the index after a value entry `(key, pos, len, ts)` of file `fid` -/
def idxValue (fid : Nat) (ix : Idx) (key : Key) (pos len : Nat) (ts : Int) : Idx :=
  ({ ix with stats := updStat ix.stats fid (·.addLive),
             keydir := AL.set key ⟨fid, pos, len, ts⟩ ix.keydir } : Idx).account (AL.get key ix.keydir)

/-- the index after a tombstone of `key` of length `len` in file `fid` -/
def idxTomb (fid : Nat) (ix : Idx) (key : Key) (len : Nat) : Idx :=
  ({ ix with stats := updStat ix.stats fid (·.addDead len),
             keydir := AL.del key ix.keydir } : Idx).account (AL.get key ix.keydir)

theorem locs_append {c : Nat → List Rec} (fid : Nat) (r : Rec) {k : Key} {l : Loc}
    (h : ∃ x, recAt (c l.fid) l.pos = some x ∧ x.key = k ∧ x.val.isSome ∧ x.len = l.len) :
    ∃ x, recAt (upd c fid (c fid ++ [r]) l.fid) l.pos = some x ∧ x.key = k ∧ x.val.isSome ∧ x.len = l.len := by
  obtain ⟨x, h1, h2, h3, h4⟩ := h
  refine ⟨x, ?_, h2, h3, h4⟩
  by_cases e : l.fid = fid
  · rw [e, upd_same]; rw [e] at h1; exact recAt_append_left h1 _
  · rw [upd_other _ e]; exact h1

theorem idxValue_inv {ix : Idx} {c : Nat → List Rec} (h : ScanInv ix c) (fid : Nat) (r : Rec)
    (hv : r.val.isSome) (ts : Int) :
    ScanInv (idxValue fid ix r.key (fileSize (c fid)) r.len ts) (upd c fid (c fid ++ [r])) := by
  constructor
  · simp only [idxValue, idx_account_keydir]; exact nodup_set h.kdNodup
  · intro f
    simp only [idxValue, idx_account_keydir, idx_account_stats]
    have := (h.files f).value_step fid r r.key (fileSize (c fid)) ts
    by_cases e : f = fid
    · rw [e] at this ⊢; simp only [↓reduceIte] at this; rw [upd_same]; exact this
    · simp only [e, ↓reduceIte] at this; rw [upd_other _ e]; exact this
  · simp only [idxValue, idx_account_bad, h.notBad, Bool.false_or]
    apply FileAcc.no_underfl h.files
    intro st; simp [Stat.addLive]
  · simp only [idxValue, idx_account_stats]; exact nodup_acct (nodup_updStat h.statsNodup _ _) _
  · intro k l hk
    simp only [idxValue, idx_account_keydir] at hk
    rw [AL.get_set] at hk
    by_cases e : k = r.key
    · simp only [e, ↓reduceIte, Option.some.injEq] at hk
      subst hk
      refine ⟨r, ?_, e.symm, hv, rfl⟩
      simp only [upd_same]
      exact recAt_append_size _ _ []
    · simp only [e, ↓reduceIte] at hk
      exact locs_append fid r (h.locs k l hk)

theorem idxTomb_inv {ix : Idx} {c : Nat → List Rec} (h : ScanInv ix c) (fid : Nat) (r : Rec) :
    ScanInv (idxTomb fid ix r.key r.len) (upd c fid (c fid ++ [r])) := by
  constructor
  · simp only [idxTomb, idx_account_keydir]; exact nodup_del h.kdNodup
  · intro f
    simp only [idxTomb, idx_account_keydir, idx_account_stats]
    have := (h.files f).tomb_step h.kdNodup fid r r.key
    by_cases e : f = fid
    · rw [e] at this ⊢; simp only [↓reduceIte] at this; rw [upd_same]; exact this
    · simp only [e, ↓reduceIte] at this; rw [upd_other _ e]; exact this
  · simp only [idxTomb, idx_account_bad, h.notBad, Bool.false_or]
    apply FileAcc.no_underfl h.files
    intro st; simp [Stat.addDead]
  · simp only [idxTomb, idx_account_stats]; exact nodup_acct (nodup_updStat h.statsNodup _ _) _
  · intro k l hk
    simp only [idxTomb, idx_account_keydir] at hk
    rw [AL.get_del] at hk
    by_cases e : k = r.key
    · simp [e] at hk
    · simp only [e, ↓reduceIte] at hk
      exact locs_append fid r (h.locs k l hk)

/-! ### one data file, record by record -/

/-- the loop body of `scanData` -/
def dataStep (fid : Nat) (acc : Idx × Nat) (r : Rec) : Idx × Nat :=
  match r.val with
  | none => (idxTomb fid acc.1 r.key r.len, acc.2 + r.len)
  | some _ => (idxValue fid acc.1 r.key acc.2 r.len r.ts, acc.2 + r.len)

theorem scanData_eq (fid : Nat) (ix : Idx) (rs : List Rec) :
    scanData fid ix rs = (rs.foldl (dataStep fid) (ix, 0)).1 := by
  unfold scanData
  congr 2

theorem dataFold_inv (fid : Nat) (rs : List Rec) : ∀ (ix : Idx) (c : Nat → List Rec) (pos : Nat),
    ScanInv ix c → pos = fileSize (c fid) →
    ScanInv (rs.foldl (dataStep fid) (ix, pos)).1 (upd c fid (c fid ++ rs)) := by
  induction rs with
  | nil => intro ix c pos h _; simp only [List.foldl_nil, List.append_nil, upd_self]; exact h
  | cons r rs ih =>
    intro ix c pos h hp
    simp only [List.foldl_cons]
    have hc : upd c fid (c fid ++ r :: rs) =
        upd (upd c fid (c fid ++ [r])) fid (upd c fid (c fid ++ [r]) fid ++ rs) := by
      rw [upd_upd, upd_same, List.append_assoc]; rfl
    rw [hc]
    cases hv : r.val with
    | none =>
      have h1 := idxTomb_inv h fid r
      have : dataStep fid (ix, pos) r = (idxTomb fid ix r.key r.len, pos + r.len) := by
        simp only [dataStep, hv]
      rw [this]
      apply ih _ _ _ h1
      rw [upd_same, fileSize_append, fileSize_cons, fileSize_nil, hp]; omega
    | some v =>
      have h1 := idxValue_inv h fid r (by simp [hv]) r.ts
      have : dataStep fid (ix, pos) r = (idxValue fid ix r.key (fileSize (c fid)) r.len r.ts, pos + r.len) := by
        simp only [dataStep, hv, hp]
      rw [this]
      apply ih _ _ _ h1
      rw [upd_same, fileSize_append, fileSize_cons, fileSize_nil, hp]; omega

theorem scanData_inv {ix : Idx} {c : Nat → List Rec} (h : ScanInv ix c) (fid : Nat) (rs : List Rec)
    (hc : c fid = []) : ScanInv (scanData fid ix rs) (upd c fid rs) := by
  have := dataFold_inv fid rs ix c 0 h (by rw [hc]; rfl)
  rw [hc, List.nil_append] at this
  rw [scanData_eq]; exact this

/-! ### one hint file, entry by entry -/

def hintStep (fid : Nat) (ix : Idx) (h : Hint) : Idx := idxValue fid ix h.key h.pos h.len h.ts

theorem HintsMatch.bound {hs : List Hint} {rs : List Rec} {pos : Nat} (h : HintsMatch hs rs pos) :
    ∀ x, x ∈ hs → x.pos + x.len ≤ pos + fileSize rs := by
  induction hs generalizing rs pos with
  | nil => intro x hx; cases hx
  | cons y ys ih =>
    cases rs with
    | nil => exact h.elim
    | cons r rs' =>
      obtain ⟨a, b, _, _, e⟩ := h
      intro x hx
      simp only [fileSize_cons]
      rcases List.mem_cons.mp hx with e1 | e1
      · subst e1; omega
      · have := ih e x e1; omega

theorem takeWhile_all {α : Type} (p : α → Bool) (l : List α) (h : ∀ x, x ∈ l → p x = true) :
    l.takeWhile p = l := by
  induction l with
  | nil => rfl
  | cons a as ih =>
    rw [List.takeWhile_cons_of_pos (h a List.mem_cons_self),
      ih (fun x hx => h x (List.mem_cons_of_mem _ hx))]

theorem scanHints_eq (fid : Nat) (ix : Idx) (hs : List Hint) (rs : List Rec)
    (h : HintsMatch hs rs 0) : scanHints fid ix hs (fileSize rs) = hs.foldl (hintStep fid) ix := by
  unfold scanHints
  rw [takeWhile_all]
  · rfl
  · intro x hx
    have := h.bound x hx
    simp only [decide_eq_true_eq]; omega

theorem hintFold_inv (fid : Nat) (hs : List Hint) : ∀ (rs : List Rec) (ix : Idx) (c : Nat → List Rec) (pos : Nat),
    HintsMatch hs rs pos → ScanInv ix c → pos = fileSize (c fid) →
    ScanInv (hs.foldl (hintStep fid) ix) (upd c fid (c fid ++ rs)) := by
  induction hs with
  | nil =>
    intro rs ix c pos hm h _
    cases rs with
    | nil => simp only [List.foldl_nil, List.append_nil, upd_self]; exact h
    | cons r rs' => exact hm.elim
  | cons y ys ih =>
    intro rs ix c pos hm h hp
    cases rs with
    | nil => exact hm.elim
    | cons r rs' =>
      obtain ⟨a, b, d, e, g⟩ := hm
      simp only [List.foldl_cons]
      have hc : upd c fid (c fid ++ r :: rs') =
          upd (upd c fid (c fid ++ [r])) fid (upd c fid (c fid ++ [r]) fid ++ rs') := by
        rw [upd_upd, upd_same, List.append_assoc]; rfl
      rw [hc]
      have h1 := idxValue_inv h fid r e y.ts
      have : hintStep fid ix y = idxValue fid ix r.key (fileSize (c fid)) r.len y.ts := by
        simp only [hintStep, a, b, d, hp]
      rw [this]
      apply ih rs' _ _ (pos + r.len) g h1
      rw [upd_same, fileSize_append, fileSize_cons, fileSize_nil, hp]; omega

/-! ### the whole directory -/

/-- the loop body of `rebuild` -/
def scanFile (d : Disk) (ix : Idx) (fid : Nat) : Idx :=
  match AL.get fid d.hint with
  | some hs => scanHints fid ix hs (fileSize (dataOf d fid) + (AL.get fid d.tails).getD 0)
  | none => scanData fid ix (dataOf d fid)

theorem rebuild_fst (d : Disk) : (rebuild d).1 = (sortedIds d).foldl (scanFile d) {} := rfl

theorem scanFile_inv {d : Disk} (htails : d.tails = [])
    (hhints : ∀ f hs, AL.get f d.hint = some hs → HintsMatch hs (dataOf d f) 0)
    {ix : Idx} {c : Nat → List Rec} (h : ScanInv ix c) (fid : Nat) (hc : c fid = []) :
    ScanInv (scanFile d ix fid) (upd c fid (dataOf d fid)) := by
  unfold scanFile
  cases hg : AL.get fid d.hint with
  | none => exact scanData_inv h fid _ hc
  | some hs =>
    have hm := hhints fid hs hg
    simp only [htails, AL.get_nil, Option.getD_none, Nat.add_zero]
    rw [scanHints_eq fid ix hs _ hm]
    have := hintFold_inv fid hs (dataOf d fid) ix c 0 hm h (by rw [hc]; rfl)
    rw [hc, List.nil_append] at this
    exact this

theorem scanFold_inv {d : Disk} (htails : d.tails = [])
    (hhints : ∀ f hs, AL.get f d.hint = some hs → HintsMatch hs (dataOf d f) 0) (ids : List Nat) :
    ∀ (ix : Idx) (c : Nat → List Rec), ids.Nodup → ScanInv ix c → (∀ f, f ∈ ids → c f = []) →
    ScanInv (ids.foldl (scanFile d) ix) (fun f => if f ∈ ids then dataOf d f else c f) := by
  induction ids with
  | nil => intro ix c _ h _; simpa using h
  | cons id ids ih =>
    intro ix c hnd h hc
    simp only [List.nodup_cons] at hnd
    simp only [List.foldl_cons]
    have h1 := scanFile_inv htails hhints h id (hc id List.mem_cons_self)
    have := ih _ _ hnd.2 h1 (fun f hf => by
      have hne : f ≠ id := fun e => hnd.1 (e ▸ hf)
      rw [upd_other _ hne]; exact hc f (List.mem_cons_of_mem _ hf))
    have he : (fun f => if f ∈ id :: ids then dataOf d f else c f) =
        (fun f => if f ∈ ids then dataOf d f else upd c id (dataOf d id) f) := by
      funext f
      by_cases e1 : f ∈ ids
      · simp [e1]
      · by_cases e2 : f = id
        · subst e2; simp [e1, upd_same]
        · simp [e1, e2, upd_other _ e2]
    rw [he]; exact this

theorem scanInv_empty : ScanInv {} (fun _ => []) := by
  constructor
  · exact List.nodup_nil
  · intro f
    exact FileAcc.empty (fun k l hm => by cases hm) rfl
  · rfl
  · exact List.nodup_nil
  · intro k l hk; simp at hk

/-! ### ids in scan order -/

theorem eraseDups_of_nodup {l : List Nat} (h : l.Nodup) : l.eraseDups = l := by
  induction l with
  | nil => rfl
  | cons a as ih =>
    simp only [List.nodup_cons] at h
    rw [List.eraseDups_cons]
    have : as.filter (fun b => !b == a) = as := by
      apply List.filter_eq_self.mpr
      intro b hb
      have : b ≠ a := fun e => h.1 (e ▸ hb)
      simp [this]
    rw [this, ih h.2]

theorem sortedIds_nodup {d : Disk} (h : (AL.keys d.data).Nodup) : (sortedIds d).Nodup := by
  unfold sortedIds
  rw [(List.mergeSort_perm _ _).nodup_iff, eraseDups_of_nodup h]
  exact h

theorem mem_sortedIds {d : Disk} (f : Nat) : f ∈ sortedIds d ↔ f ∈ AL.keys d.data := by
  unfold sortedIds
  rw [List.mem_mergeSort, List.mem_eraseDups]

theorem sortedIds_last {d : Disk} {m : Nat} (h : (sortedIds d).getLast? = some m) :
    ∀ f, f ∈ AL.keys d.data → f ≤ m := by
  intro f hf
  have hs : (sortedIds d).Pairwise (fun a b => decide (a ≤ b) = true) := by
    unfold sortedIds
    apply List.pairwise_mergeSort
    · intro a b c h1 h2; simp only [decide_eq_true_eq] at h1 h2 ⊢; omega
    · intro a b; simp only [Bool.or_eq_true, decide_eq_true_eq]; omega
  obtain ⟨ys, hys⟩ := List.getLast?_eq_some_iff.mp h
  have hf' := (mem_sortedIds f).mpr hf
  rw [hys] at hs hf'
  rcases List.mem_append.mp hf' with e | e
  · have := (List.pairwise_append.mp hs).2.2 f e m (by simp)
    simpa using this
  · simp at e; omega

/-- the scan of a well-formed directory ends with an index that is exact for the directory -/
theorem rebuild_inv {d : Disk} (hnd : (AL.keys d.data).Nodup) (htails : d.tails = [])
    (hhints : ∀ f hs, AL.get f d.hint = some hs → HintsMatch hs (dataOf d f) 0) :
    ScanInv (rebuild d).1 (dataOf d) := by
  have := scanFold_inv htails hhints (sortedIds d) {} (fun _ => []) (sortedIds_nodup hnd) scanInv_empty
    (fun _ _ => rfl)
  rw [rebuild_fst]
  have he : (fun f => if f ∈ sortedIds d then dataOf d f else []) = dataOf d := by
    funext f
    by_cases e : f ∈ sortedIds d
    · simp [e]
    · simp only [e, ↓reduceIte]
      exact (dataOf_absent (fun hm => e ((mem_sortedIds f).mpr hm))).symm
  rw [he] at this
  exact this

/-- the new active id is above every data-file id -/
theorem rebuild_snd_gt (d : Disk) : ∀ f, f ∈ AL.keys d.data → f < (rebuild d).2 := by
  intro f hf
  show f < (match (sortedIds d).getLast? with | some m => m + 1 | none => 0)
  cases hg : (sortedIds d).getLast? with
  | some m => have := sortedIds_last hg f hf; simp only; omega
  | none =>
    have : sortedIds d = [] := List.getLast?_eq_none_iff.mp hg
    have hm := (mem_sortedIds f).mpr hf
    rw [this] at hm; cases hm

/-- **`reopen` re-establishes every invariant** -/
theorem reopen_inv (s : St) (hi : Inv s) (hw : DiskWf s) :
    Inv (reopen s).1 ∧ AccInv (reopen s).1 ∧ DiskWf (reopen s).1 := by
  have hS := rebuild_inv hw.dnodup hw.tails hw.hints
  have hgt := rebuild_snd_gt s.disk
  have hnew : (rebuild s.disk).2 ∉ AL.keys s.disk.data := fun hm => by have := hgt _ hm; omega
  have hact : s.active < (rebuild s.disk).2 := by
    apply hgt
    cases hg : AL.get s.active s.disk.data with
    | none => have := hi.act; rw [hg] at this; cases this
    | some v => exact AL.mem_keys_of_get hg
  have hdata : ∀ f, dataOf ({ s.disk with data := AL.set (rebuild s.disk).2 [] s.disk.data } : Disk) f = dataOf s.disk f := by
    intro f
    simp only [dataOf, AL.get_set]
    by_cases e : f = (rebuild s.disk).2
    · subst e; simp [get_none_of_not_mem hnew]
    · simp [e]
  have hst : (reopen s).1 =
      { disk := { s.disk with data := AL.set (rebuild s.disk).2 [] s.disk.data },
        keydir := (rebuild s.disk).1.keydir, stats := (rebuild s.disk).1.stats,
        active := (rebuild s.disk).2, written := 0, bad := (rebuild s.disk).1.bad } := rfl
  rw [hst]
  refine ⟨?_, ?_, ?_⟩
  · constructor
    · intro k l hk
      obtain ⟨r, h1, h2, h3, h4⟩ := hS.locs k l hk
      refine ⟨r, ?_, h2, h3, h4, ?_⟩
      · rw [hdata]; exact h1
      · simp only [AL.get_set]
        by_cases e : l.fid = (rebuild s.disk).2
        · simp [e]
        · simp only [e, ↓reduceIte]
          cases hg : AL.get l.fid s.disk.data with
          | none => simp [dataOf, hg, recAt] at h1
          | some v => rfl
    · intro id hid
      simp only at hid ⊢
      rcases mem_keys_set hid with e | e
      · omega
      · have := hgt id e; omega
    · intro id hid
      simp only at hid ⊢
      have := hi.hids id hid; omega
    · simp [AL.get_set_same]
  · constructor
    · exact hS.kdNodup
    · intro f; simp only [hdata]; exact hS.files f
    · exact hS.notBad
    · exact hS.statsNodup
  · constructor
    · exact nodup_set hw.dnodup
    · exact hw.tails
    · intro f hs hf
      simp only [hdata]
      exact hw.hints f hs hf
    · apply get_none_of_not_mem
      intro hm
      have := hi.hids _ hm
      simp only at this; omega

end Store.Stats
