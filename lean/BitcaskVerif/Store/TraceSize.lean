/-
  Size of the active file (C14): at the start of every write the byte counter is at most the
  configured maximum and equals the real size of the active file, which has no crash tail.
-/
import BitcaskVerif.Store.TraceRun

namespace Store.Tr
structure SzInv (cfg : Cfg) (s : St) : Prop where
  le : s.written ≤ cfg.maxFile
  eq : s.written = fileSize (dataOf s.disk s.active)

theorem accountPrev_written (s : St) (p : Option Loc) : (accountPrev s p).written = s.written := by
  unfold accountPrev; cases p <;> rfl

theorem SzInv.congr {cfg : Cfg} {s s' : St} (hd : s'.disk = s.disk) (ha : s'.active = s.active)
    (hw : s'.written = s.written) (h : SzInv cfg s) : SzInv cfg s' := by
  constructor
  · rw [hw]; exact h.le
  · rw [hw, hd, ha]; exact h.eq

theorem write_sz (cfg : Cfg) (s : St) (r : Rec) (h : SzInv cfg s) : SzInv cfg (write cfg s r).1 := by
  by_cases hroll : s.written + r.len > cfg.maxFile
  · rw [write_roll cfg s r hroll]
    constructor
    · exact Nat.zero_le _
    · simp [dataOf, AL.get_set_same]
  · rw [write_noroll cfg s r hroll]
    constructor
    · simp only; omega
    · have := h.eq
      simp only [dataOf, AL.get_set_same, Option.getD_some, fileSize_append, fileSize_cons, fileSize_nil] at this ⊢
      omega

theorem put_written (cfg : Cfg) (s : St) (ts : Int) (k : Key) (v : Val) :
    (put cfg s ts k v).1.written = (write cfg s { ts := ts, key := k, val := some v }).1.written := by
  unfold put; simp only [accountPrev_written]

theorem delete_written (cfg : Cfg) (s : St) (ts : Int) (k : Key) :
    (delete cfg s ts k).1.written = (write cfg s { ts := ts, key := k, val := none }).1.written := by
  unfold delete; simp only [accountPrev_written]

theorem mergeWith_sz (cfg : Cfg) (s : St) (sel : List Nat) (order : List Key) :
    SzInv cfg (mergeWith cfg s sel order).1 := by
  rw [mergeWith_eq]
  constructor
  · exact Nat.zero_le _
  · simp [dataOf, AL.get_set_same]

theorem reopen_sz (cfg : Cfg) (s : St) : SzInv cfg (reopen s).1 := by
  constructor
  · rw [reopen_written]; exact Nat.zero_le _
  · rw [reopen_written, reopen_disk]; simp [dataOf, AL.get_set_same]

theorem stepC_sz (cfg : Cfg) (s : St) (op : TOp) (h : SzInv cfg s) : SzInv cfg (stepC cfg s op).1 := by
  cases op with
  | put ts k v => exact (write_sz cfg s _ h).congr (put_disk ..) (put_active ..) (put_written ..)
  | del ts k => exact (write_sz cfg s _ h).congr (delete_disk ..) (delete_active ..) (delete_written ..)
  | get k => exact h
  | merge sel order => exact mergeWith_sz cfg s sel order
  | reopen => exact reopen_sz cfg s

theorem run_sz (cfg : Cfg) (ops : List TOp) : ∀ (s : St), SzInv cfg s → SzInv cfg (runC cfg s ops) := by
  induction ops with
  | nil => intro s h; exact h
  | cons op ops ih => intro s h; exact ih _ (stepC_sz cfg s op h)

theorem fresh_sz (cfg : Cfg) : SzInv cfg fresh := by
  constructor
  · exact Nat.zero_le _
  · simp [fresh, dataOf, AL.get]

/-- the active file has no crash tail -/
theorem IdInv.no_tail {s : St} (h : IdInv s) : (AL.get s.active s.disk.tails).getD 0 = 0 := by
  cases hg : AL.get s.active s.disk.tails with
  | none => rfl
  | some v => have := h.tails _ (AL.mem_keys_of_get hg); omega

end Store.Tr
namespace Store.Tr
/-- the merge never starts a copy into an output whose byte counter exceeds the maximum -/
theorem mergeStep_mpos_le (cfg : Cfg) (sel : List Nat) (ms : MergeSt) (k : Key)
    (h : ms.mpos ≤ cfg.maxFile) : (mergeStep cfg sel ms k).mpos ≤ cfg.maxFile := by
  apply mergeStep_ind (fun x => x.mpos ≤ cfg.maxFile) cfg sel ms k
  · exact h
  · exact h
  · intro loc r _ _ hroll; simp only [moveNoRoll]; omega
  · intro loc r _ _ _; simp [moveRoll]

theorem mergeFold_mpos_le (cfg : Cfg) (sel : List Nat) (order : List Key) : ∀ (ms : MergeSt),
    ms.mpos ≤ cfg.maxFile → (order.foldl (mergeStep cfg sel) ms).mpos ≤ cfg.maxFile := by
  induction order with
  | nil => intro ms h; exact h
  | cons k ks ih => intro ms h; exact ih _ (mergeStep_mpos_le cfg sel ms k h)

end Store.Tr