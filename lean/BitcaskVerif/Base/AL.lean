/-
  Association lists as finite maps (core Lean only), with the handful of lemmas the store
  proofs need. Kept as plain lists (no subtype); `get` returns the first binding.
-/

namespace AL

variable {κ : Type} [DecidableEq κ] {β : Type}

def get (k : κ) : List (κ × β) → Option β
  | [] => none
  | (k', v) :: rest => if k' = k then some v else get k rest

/-- replace the first binding of `k`, or append a new one at the end -/
def set (k : κ) (v : β) : List (κ × β) → List (κ × β)
  | [] => [(k, v)]
  | (k', v') :: rest => if k' = k then (k, v) :: rest else (k', v') :: set k v rest

/-- remove every binding of `k` -/
def del (k : κ) : List (κ × β) → List (κ × β)
  | [] => []
  | (k', v') :: rest => if k' = k then del k rest else (k', v') :: del k rest

def keys (l : List (κ × β)) : List κ := l.map (·.1)

def contains (k : κ) (l : List (κ × β)) : Bool := (get k l).isSome

@[simp] theorem get_nil (k : κ) : get k ([] : List (κ × β)) = none := rfl

theorem get_set_same (k : κ) (v : β) (l : List (κ × β)) : get k (set k v l) = some v := by
  induction l with
  | nil => simp [set, get]
  | cons x xs ih =>
    obtain ⟨k', v'⟩ := x
    by_cases h : k' = k
    · simp [set, get, h]
    · simp [set, get, h, ih]

theorem get_set_other {k k' : κ} (h : k' ≠ k) (v : β) (l : List (κ × β)) :
    get k' (set k v l) = get k' l := by
  induction l with
  | nil => simp [set, get, h.symm]
  | cons x xs ih =>
    obtain ⟨k'', v''⟩ := x
    by_cases h1 : k'' = k
    · subst h1
      simp [set, get, h.symm]
    · by_cases h2 : k'' = k'
      · subst h2; simp [set, get, h1]
      · simp [set, get, h1, h2, ih]

theorem get_set (k k' : κ) (v : β) (l : List (κ × β)) :
    get k' (set k v l) = if k' = k then some v else get k' l := by
  by_cases h : k' = k
  · subst h; simp [get_set_same]
  · simp [h, get_set_other h]

theorem get_del_same (k : κ) (l : List (κ × β)) : get k (del k l) = none := by
  induction l with
  | nil => rfl
  | cons x xs ih =>
    obtain ⟨k', v'⟩ := x
    by_cases h : k' = k
    · simp [del, h, ih]
    · simp [del, get, h, ih]

theorem get_del_other {k k' : κ} (h : k' ≠ k) (l : List (κ × β)) :
    get k' (del k l) = get k' l := by
  induction l with
  | nil => rfl
  | cons x xs ih =>
    obtain ⟨k'', v''⟩ := x
    by_cases h1 : k'' = k
    · subst h1
      simp [del, get, h.symm, ih]
    · by_cases h2 : k'' = k'
      · subst h2; simp [del, get, h1]
      · simp [del, get, h1, h2, ih]

theorem get_del (k k' : κ) (l : List (κ × β)) :
    get k' (del k l) = if k' = k then none else get k' l := by
  by_cases h : k' = k
  · subst h; simp [get_del_same]
  · simp [h, get_del_other h]

theorem mem_keys_of_get {k : κ} {v : β} {l : List (κ × β)} (h : get k l = some v) : k ∈ keys l := by
  induction l with
  | nil => simp [get] at h
  | cons x xs ih =>
    obtain ⟨k', v'⟩ := x
    by_cases h1 : k' = k
    · simp [keys, h1]
    · simp only [get, h1, ↓reduceIte] at h
      have := ih h
      simp only [keys, List.map_cons, List.mem_cons]
      exact .inr this

theorem get_of_mem_keys {k : κ} {l : List (κ × β)} (h : k ∈ keys l) : ∃ v, get k l = some v := by
  induction l with
  | nil => simp [keys] at h
  | cons x xs ih =>
    obtain ⟨k', v'⟩ := x
    by_cases h1 : k' = k
    · exact ⟨v', by simp [get, h1]⟩
    · simp only [keys, List.map_cons, List.mem_cons] at h
      rcases h with h | h
      · exact absurd h.symm h1
      · obtain ⟨v, hv⟩ := ih h
        exact ⟨v, by simp [get, h1, hv]⟩

theorem get_eq_none_iff {k : κ} {l : List (κ × β)} : get k l = none ↔ k ∉ keys l := by
  constructor
  · intro h hm
    obtain ⟨v, hv⟩ := get_of_mem_keys hm
    rw [h] at hv; cases hv
  · intro h
    cases hg : get k l with
    | none => rfl
    | some v => exact absurd (mem_keys_of_get hg) h

end AL
