/-
  C20 — a failed disk operation is reported and leaves the store consistent (running process).

  Fault-aware writer `putF` / `deleteF` (`Store/FaultModel.lean`): one file-system call of
  `Writer::write` fails (`Fault`).  The failing operation returns an error, the invariant of the
  store is kept, no key — the failed operation's own key included — reads differently afterwards,
  and every later fault-free operation behaves exactly as on the abstract map; for whole
  histories with any number of failed writes the store refines the map on which failed
  operations have no effect (`c20_refines`).

  After a restart (`c20_restart_*`): the store reopened after a failed operation is — index,
  counters and contents — the store reopened after the same operation *without* the fault
  (`appendSmall`, `fsync`, `create`: the operation has taken effect) or the store reopened without
  the operation (`appendLarge`: it has not).  What a restart of a fault-free history reads is the
  recovery theory (startup scan), not part of this file; `c20_restart_other_keys_partial` shows
  how it plugs in.  `c20_disk_*` spell out the directory contents after each fault.
-/
import BitcaskVerif.Store.FaultRun

namespace Store
open Store.Tr
/-- **C20 (reported).** Every put / delete during which a call fails returns the error. -/
theorem c20_reported (cfg : Cfg) (s : St) (ts : Int) (k : Key) (v : Val) (f : Fault) :
    (putF cfg s ts k v (some f)).2 = false ∧ (deleteF cfg s ts k (some f)).2 = none := ⟨rfl, rfl⟩

/-- and a put / delete without a fault is the plain operation and returns `Ok` -/
theorem c20_no_fault (cfg : Cfg) (s : St) (ts : Int) (k : Key) (v : Val) :
    putF cfg s ts k v none = ((put cfg s ts k v).1, true) ∧
    deleteF cfg s ts k none = ((delete cfg s ts k).1, some (delete cfg s ts k).2.1) := ⟨rfl, rfl⟩

/-- **C20 (invariant).** With or without a fault the store invariant is preserved. -/
theorem c20_inv (cfg : Cfg) (s : St) (ts : Int) (k : Key) (v : Val) (fault : Option Fault) (h : Inv s) :
    Inv (putF cfg s ts k v fault).1 ∧ Inv (deleteF cfg s ts k fault).1 := by
  cases fault with
  | none => exact ⟨put_inv cfg s ts k v h, delete_inv cfg s ts k h⟩
  | some f => exact ⟨writeF_inv s _ f h, writeF_inv s _ f h⟩

/-- **C20 (other keys).** A failed put / delete of `k` changes what no other key reads. -/
theorem c20_other_keys (cfg : Cfg) (s : St) (ts : Int) (k : Key) (v : Val) (f : Fault) (h : Inv s)
    (k' : Key) (_ : k' ≠ k) :
    (putF cfg s ts k v (some f)).1.abs k' = s.abs k' ∧ (deleteF cfg s ts k (some f)).1.abs k' = s.abs k' :=
  ⟨congrFun (writeF_abs s _ f h) k', congrFun (writeF_abs s _ f h) k'⟩

/-- **C20 (failed key).** In the running process the failed operation has not taken effect: its
    key reads what it read before. -/
theorem c20_failed_key (cfg : Cfg) (s : St) (ts : Int) (k : Key) (v : Val) (f : Fault) (h : Inv s) :
    (putF cfg s ts k v (some f)).1.abs k = s.abs k ∧ (deleteF cfg s ts k (some f)).1.abs k = s.abs k :=
  ⟨congrFun (writeF_abs s _ f h) k, congrFun (writeF_abs s _ f h) k⟩

/-- both together: the abstraction is unchanged and no read is ever `corrupt` -/
theorem c20_abs (cfg : Cfg) (s : St) (ts : Int) (k : Key) (v : Val) (f : Fault) (h : Inv s) :
    (putF cfg s ts k v (some f)).1.abs = s.abs ∧ (deleteF cfg s ts k (some f)).1.abs = s.abs ∧
    (∀ k', get (putF cfg s ts k v (some f)).1 k' = get s k') ∧
    (∀ k', get (deleteF cfg s ts k (some f)).1 k' = get s k') := by
  have hp : Inv (putF cfg s ts k v (some f)).1 := writeF_inv s _ f h
  have hd : Inv (deleteF cfg s ts k (some f)).1 := writeF_inv s _ f h
  have ap : (putF cfg s ts k v (some f)).1.abs = s.abs := writeF_abs s _ f h
  have ad : (deleteF cfg s ts k (some f)).1.abs = s.abs := writeF_abs s _ f h
  refine ⟨ap, ad, ?_, ?_⟩
  · intro k'; rw [get_abs _ k' hp, get_abs _ k' h, ap]
  · intro k'; rw [get_abs _ k' hd, get_abs _ k' h, ad]

/-- **C20 (later operations).** After a failed put (likewise after a failed delete) a fault-free
    put / delete / get behaves exactly as on the map read before the failure. -/
theorem c20_later_ops_ok (cfg : Cfg) (s : St) (ts : Int) (k : Key) (v : Val) (f : Fault) (h : Inv s)
    (s' : St) (hs' : s' = (putF cfg s ts k v (some f)).1 ∨ s' = (deleteF cfg s ts k (some f)).1)
    (ts' : Int) (k' : Key) (v' : Val) :
    (put cfg s' ts' k' v').1.abs = s.abs.set k' v' ∧
    (delete cfg s' ts' k').1.abs = s.abs.del k' ∧ (delete cfg s' ts' k').2.1 = (s.abs k').isSome ∧
    get s' k' = (match s.abs k' with | some x => .value x | none => .absent) ∧
    Inv (put cfg s' ts' k' v').1 ∧ Inv (delete cfg s' ts' k').1 := by
  have hi : Inv s' := by
    rcases hs' with e | e <;> rw [e] <;> exact writeF_inv s _ f h
  have ha : s'.abs = s.abs := by
    rcases hs' with e | e <;> rw [e] <;> exact writeF_abs s _ f h
  obtain ⟨d1, d2⟩ := delete_abs cfg s' ts' k' hi
  refine ⟨?_, ?_, ?_, ?_, put_inv cfg s' ts' k' v' hi, delete_inv cfg s' ts' k' hi⟩
  · rw [put_abs cfg s' ts' k' v' hi, ha]
  · rw [d1, ha]
  · rw [d2, ha]
  · rw [get_abs s' k' hi, ha]; cases s.abs k' <;> rfl

/-! ### whole histories with failed writes -/

/-- **C20 (histories).** For every history in which any of the puts and deletes may fail with any
    of the modelled faults: every operation returns exactly what the abstract map returns on which
    failed operations have no effect (so each failure is reported, and every earlier and later
    acknowledged operation reads correctly), the invariant holds at the end, and the final state
    reads as the final map. -/
theorem c20_refines_from (cfg : Cfg) (ops : List (Op × Option Fault)) : ∀ (s : St), Inv s → ValidF cfg s ops →
    (runF cfg s ops).2 = (Map.runF s.abs ops).2 ∧ Inv (runF cfg s ops).1 ∧
      (runF cfg s ops).1.abs = (Map.runF s.abs ops).1 := by
  induction ops with
  | nil => intro s h _; exact ⟨rfl, h, rfl⟩
  | cons x ops ih =>
    obtain ⟨op, fl⟩ := x
    intro s h hv
    obtain ⟨i1, i2, i3⟩ := stepF_refines cfg s op fl h hv.1
    obtain ⟨j1, j2, j3⟩ := ih (stepF cfg s op fl).1 i1 hv.2
    simp only [runF, Map.runF]
    rw [i3] at j1 j3
    refine ⟨?_, j2, j3⟩
    rw [j1, i2]

theorem c20_refines (cfg : Cfg) (ops : List (Op × Option Fault)) (hv : ValidF cfg fresh ops) :
    (runF cfg fresh ops).2 = (Map.runF Map.empty ops).2 := by
  have := (c20_refines_from cfg ops fresh fresh_inv hv).1
  rw [fresh_abs] at this
  exact this

/-! ### what a fault leaves in the directory -/

/-- **`fsync` fault**: the only change of the directory is the failed operation's own record at
    the end of the active file. -/
theorem c20_disk_fsync (s : St) (r : Rec) :
    dataOf (writeF s r .fsync).disk s.active = dataOf s.disk s.active ++ [r] ∧
    (∀ fid, fid ≠ s.active → AL.get fid (writeF s r .fsync).disk.data = AL.get fid s.disk.data) ∧
    (writeF s r .fsync).disk.hint = s.disk.hint ∧ (writeF s r .fsync).disk.tails = s.disk.tails ∧
    (writeF s r .fsync).active = s.active := by
  refine ⟨?_, ?_, rfl, rfl, rfl⟩
  · simp [writeF, appendDisk, dataOf, AL.get_set_same]
  · intro fid hf; simp only [writeF, appendDisk]; exact AL.get_set_other hf _ _

/-- **`appendSmall` fault**: the only new record is the failed operation's own record at the end of
    the old active file; the new active file is empty; nothing else changes. -/
theorem c20_disk_appendSmall (s : St) (r : Rec) :
    dataOf (writeF s r .appendSmall).disk s.active = dataOf s.disk s.active ++ [r] ∧
    dataOf (writeF s r .appendSmall).disk (s.active + 1) = [] ∧
    (∀ fid, fid ≠ s.active → fid ≠ s.active + 1 →
      AL.get fid (writeF s r .appendSmall).disk.data = AL.get fid s.disk.data) ∧
    (writeF s r .appendSmall).disk.hint = s.disk.hint ∧ (writeF s r .appendSmall).disk.tails = s.disk.tails ∧
    (writeF s r .appendSmall).active = s.active + 1 := by
  refine ⟨?_, ?_, ?_, rfl, rfl, rfl⟩
  · simp only [writeF, appendDisk, dataOf]
    rw [AL.get_set_other (by omega), AL.get_set_same]; rfl
  · simp [writeF, dataOf, AL.get_set_same]
  · intro fid h1 h2
    simp only [writeF, appendDisk]
    rw [AL.get_set_other h2, AL.get_set_other h1]

/-- **`appendLarge` fault**: no record is added anywhere; the old active file gets `hdr` bytes of
    tail; the new active file is empty. -/
theorem c20_disk_appendLarge (s : St) (r : Rec) (hdr : Nat) :
    (∀ fid, fid ≠ s.active + 1 → AL.get fid (writeF s r (.appendLarge hdr)).disk.data = AL.get fid s.disk.data) ∧
    dataOf (writeF s r (.appendLarge hdr)).disk (s.active + 1) = [] ∧
    (writeF s r (.appendLarge hdr)).disk.hint = s.disk.hint ∧
    (AL.get s.active (writeF s r (.appendLarge hdr)).disk.tails).getD 0 = (AL.get s.active s.disk.tails).getD 0 + hdr ∧
    (∀ fid, fid ≠ s.active → AL.get fid (writeF s r (.appendLarge hdr)).disk.tails = AL.get fid s.disk.tails) ∧
    (writeF s r (.appendLarge hdr)).active = s.active + 1 := by
  refine ⟨?_, ?_, rfl, ?_, ?_, rfl⟩
  · intro fid h1; simp only [writeF]; exact AL.get_set_other h1 _ _
  · simp [writeF, dataOf, AL.get_set_same]
  · simp [writeF, AL.get_set_same]
  · intro fid h1; simp only [writeF]; exact AL.get_set_other h1 _ _

/-- **`create` fault**: as for `fsync`, the only change of the directory is the failed operation's
    own record at the end of the active file, which stays active. -/
theorem c20_disk_create (s : St) (r : Rec) :
    dataOf (writeF s r .create).disk s.active = dataOf s.disk s.active ++ [r] ∧
    (∀ fid, fid ≠ s.active → AL.get fid (writeF s r .create).disk.data = AL.get fid s.disk.data) ∧
    (writeF s r .create).disk.hint = s.disk.hint ∧ (writeF s r .create).disk.tails = s.disk.tails ∧
    (writeF s r .create).active = s.active := by
  refine ⟨?_, ?_, rfl, rfl, rfl⟩
  · simp [writeF, appendDisk, dataOf, AL.get_set_same]
  · intro fid hf; simp only [writeF, appendDisk]; exact AL.get_set_other hf _ _

/-! ### after a restart -/

/-- **C20 (restart, the operation has taken effect).** After a put / delete failed with
    `appendSmall`, `fsync` or `create`, a restart yields exactly the store — index, counters, what
    every key reads — that a restart after the same operation without the fault yields. -/
theorem c20_restart_taken (cfg : Cfg) (s : St) (ts : Int) (k : Key) (v : Val) (f : Fault) (h : IdInv s)
    (hf : ∀ hdr, f ≠ .appendLarge hdr) :
    ((reopen (putF cfg s ts k v (some f)).1).1.keydir = (reopen (put cfg s ts k v).1).1.keydir ∧
     (reopen (putF cfg s ts k v (some f)).1).1.stats = (reopen (put cfg s ts k v).1).1.stats ∧
     (reopen (putF cfg s ts k v (some f)).1).1.bad = (reopen (put cfg s ts k v).1).1.bad ∧
     (reopen (putF cfg s ts k v (some f)).1).1.abs = (reopen (put cfg s ts k v).1).1.abs) ∧
    ((reopen (deleteF cfg s ts k (some f)).1).1.keydir = (reopen (delete cfg s ts k).1).1.keydir ∧
     (reopen (deleteF cfg s ts k (some f)).1).1.stats = (reopen (delete cfg s ts k).1).1.stats ∧
     (reopen (deleteF cfg s ts k (some f)).1).1.bad = (reopen (delete cfg s ts k).1).1.bad ∧
     (reopen (deleteF cfg s ts k (some f)).1).1.abs = (reopen (delete cfg s ts k).1).1.abs) := by
  constructor
  · rw [reopen_congr_disk (put_disk cfg s ts k v)]
    exact reopen_writeF_taken cfg s _ f h hf
  · rw [reopen_congr_disk (delete_disk cfg s ts k)]
    exact reopen_writeF_taken cfg s _ f h hf

/-- in particular the failed key reads the new value (is absent, for a delete) after the restart -/
theorem c20_restart_failed_key (cfg : Cfg) (s : St) (ts : Int) (k : Key) (v : Val) (f : Fault) (h : IdInv s)
    (hf : ∀ hdr, f ≠ .appendLarge hdr) :
    (reopen (putF cfg s ts k v (some f)).1).1.abs k = some v ∧
    (reopen (deleteF cfg s ts k (some f)).1).1.abs k = none :=
  ⟨reopen_writeF_failed_key s { ts := ts, key := k, val := some v } f h hf,
   reopen_writeF_failed_key s { ts := ts, key := k, val := none } f h hf⟩

/-- **C20 (restart, the operation has not taken effect).** After a put / delete failed with
    `appendLarge`, a restart yields exactly the store that a restart without the operation
    yields: the partial entry at the end of the abandoned file is invisible to the scan. -/
theorem c20_restart_untaken (cfg : Cfg) (s : St) (ts : Int) (k : Key) (v : Val) (hdr : Nat) (h : IdInv s) :
    ((reopen (putF cfg s ts k v (some (.appendLarge hdr))).1).1.keydir = (reopen s).1.keydir ∧
     (reopen (putF cfg s ts k v (some (.appendLarge hdr))).1).1.stats = (reopen s).1.stats ∧
     (reopen (putF cfg s ts k v (some (.appendLarge hdr))).1).1.bad = (reopen s).1.bad ∧
     (reopen (putF cfg s ts k v (some (.appendLarge hdr))).1).1.abs = (reopen s).1.abs) ∧
    ((reopen (deleteF cfg s ts k (some (.appendLarge hdr))).1).1.keydir = (reopen s).1.keydir ∧
     (reopen (deleteF cfg s ts k (some (.appendLarge hdr))).1).1.stats = (reopen s).1.stats ∧
     (reopen (deleteF cfg s ts k (some (.appendLarge hdr))).1).1.bad = (reopen s).1.bad ∧
     (reopen (deleteF cfg s ts k (some (.appendLarge hdr))).1).1.abs = (reopen s).1.abs) :=
  ⟨reopen_writeF_large s { ts := ts, key := k, val := some v } hdr h,
   reopen_writeF_large s { ts := ts, key := k, val := none } hdr h⟩

/- **C20 (restart, other keys)** at full strength reads: for every key `k' ≠ k`,
   `(reopen (putF cfg s ts k v (some f)).1).1.abs k' = s.abs k'`.  This needs that a restart of the
   fault-free state `s` reads `s.abs` and rebuilds valid entries (`(reopen s).1.abs = s.abs`,
   `Inv (reopen s).1`): the recovery theory of the startup scan, developed elsewhere.  Proved here:
   the failed operation does not disturb it — relative to a restart without the failed operation,
   under the hypothesis that that restart's entry for `k'` is valid. -/
theorem c20_restart_other_keys_partial (cfg : Cfg) (s : St) (ts : Int) (k : Key) (v : Val) (f : Fault)
    (h : IdInv s) (k' : Key) (hk : k' ≠ k)
    (hloc : ∀ loc, AL.get k' (reopen s).1.keydir = some loc → LocOk (reopen s).1.disk k' loc) :
    (reopen (putF cfg s ts k v (some f)).1).1.abs k' = (reopen s).1.abs k' ∧
    (reopen (deleteF cfg s ts k (some f)).1).1.abs k' = (reopen s).1.abs k' :=
  ⟨reopen_writeF_other_key s { ts := ts, key := k, val := some v } f h k' hk hloc,
   reopen_writeF_other_key s { ts := ts, key := k, val := none } f h k' hk hloc⟩

/-- the hypothesis of `c20_restart_other_keys_partial` is satisfiable with a key that is present:
    `s` = a fresh store after a put of `[1]` whose fsync failed, `k' = [1]` -/
example : ∃ (s : St) (k' : Key), IdInv s ∧ (reopen s).1.abs k' = some [10] ∧
    ∀ loc, AL.get k' (reopen s).1.keydir = some loc → LocOk (reopen s).1.disk k' loc :=
  ⟨writeF fresh ⟨0, [1], some [10]⟩ .fsync, [1], writeF_idinv _ _ _ fresh_idinv,
   reopen_writeF_failed_key fresh ⟨0, [1], some [10]⟩ .fsync fresh_idinv (by simp),
   fun loc hl => reopen_writeF_locOk fresh ⟨0, [1], some [10]⟩ .fsync fresh_idinv (by simp) loc hl⟩

/-- **C20 (restart, histories without merge).** After any history of puts, deletes and gets from a
    fresh store in which any of the writes may have failed with any of the modelled faults, a
    restart reads exactly the durable map: every successful write is durable, a failed one iff its
    entry reached the file completely (`Fault.taken`); and no read after the restart hits a bad
    location. -/
theorem c20_restart_refines (cfg : Cfg) (ops : List (Op × Option Fault)) (hm : NoMerge ops) :
    (reopen (runF cfg fresh ops).1).1.abs = Map.runDur Map.empty ops ∧
    ∀ k, get (reopen (runF cfg fresh ops).1).1 k ≠ .corrupt := by
  obtain ⟨a, b⟩ := runF_dur cfg ops fresh fresh_durInv hm
  rw [fresh_dur_abs] at b
  exact ⟨b, a.reads_sound⟩

/-- **C20 (restart, truthful).** In such a history every key whose last put / delete was
    acknowledged — in particular every key never touched by a failed operation — reads after the
    restart exactly what it read in the running process; only a key whose last write *failed* may
    read differently (namely the failed write's value, `c20_restart_refines`). -/
theorem c20_restart_truthful (cfg : Cfg) (ops : List (Op × Option Fault)) (hm : NoMerge ops) (k : Key)
    (hk : dirtyAfter k false ops = false) :
    (reopen (runF cfg fresh ops).1).1.abs k = (runF cfg fresh ops).1.abs k := by
  have h1 := (c20_refines_from cfg ops fresh fresh_inv (validF_of_noMerge cfg ops fresh hm)).2.2
  rw [(c20_restart_refines cfg ops hm).1, h1, fresh_abs]
  exact (dur_agree k ops false Map.empty Map.empty (fun _ => rfl) hk).symm

/-- the same from any state whose restart is healthy and reads what the running store reads (as
    the recovery theory establishes for fault-free histories, merges included) -/
theorem c20_restart_truthful_from (cfg : Cfg) (s : St) (ops : List (Op × Option Fault)) (hm : NoMerge ops)
    (hi : Inv s) (hd : DurInv s) (he : (reopen s).1.abs = s.abs) (k : Key)
    (hk : dirtyAfter k false ops = false) :
    (reopen (runF cfg s ops).1).1.abs k = (runF cfg s ops).1.abs k ∧
    (reopen (runF cfg s ops).1).1.abs = Map.runDur s.abs ops := by
  have h1 := (c20_refines_from cfg ops s hi (validF_of_noMerge cfg ops s hm)).2.2
  obtain ⟨_, b⟩ := runF_dur cfg ops s hd hm
  rw [he] at b
  refine ⟨?_, b⟩
  rw [b, h1]
  exact (dur_agree k ops false s.abs s.abs (fun _ => rfl) hk).symm

/-- **C20 (histories with restarts, without merge).** For every history of puts, deletes, gets —
    any write may fail with any modelled fault — and restarts at arbitrary places, from a fresh
    store: every operation returns what the two-map specification returns (`m`: acknowledged
    contents, `d`: durable contents; a restart continues with `d`), i.e. every failure is
    reported, every read in the running process returns the last acknowledged write, and every
    read after a restart returns the last write whose entry reached its file completely — which is
    the last acknowledged one unless a later write to the same key failed.  No read ever hits a
    bad location. -/
theorem c20_history (cfg : Cfg) (es : List HEv) (hm : ∀ e, e ∈ es → e.isMerge = false) :
    (runH cfg fresh es).2 = (SpecSt.run { m := Map.empty, d := Map.empty } es).2 ∧
    (runH cfg fresh es).1.abs = (SpecSt.run { m := Map.empty, d := Map.empty } es).1.m ∧
    (∀ k, get (runH cfg fresh es).1 k ≠ .corrupt) := by
  obtain ⟨a, b⟩ := runH_refines cfg es fresh _ fresh_hrel hm
  exact ⟨a, b.abs, get_not_corrupt b.inv⟩

/-- `c20_consistent` of DESIGN.md, for histories without merge (with merges the running-process
    half is `c20_refines`; the restart half is what is missing, see below) -/
theorem c20_consistent_partial (cfg : Cfg) (es : List HEv) (hm : ∀ e, e ∈ es → e.isMerge = false) :
    (runH cfg fresh es).2 = (SpecSt.run { m := Map.empty, d := Map.empty } es).2 ∧
    (runH cfg fresh es).1.abs = (SpecSt.run { m := Map.empty, d := Map.empty } es).1.m ∧
    (∀ k, get (runH cfg fresh es).1 k ≠ .corrupt) := c20_history cfg es hm

/- Missing for the full restart clause of C20: histories *with merges* (the durable map after a
   merge depends on the hint files and on which files were selected — the recovery theory of the
   startup scan, developed elsewhere).  `c20_restart_truthful_from` takes its result as the three
   hypotheses `Inv s`, `DurInv s`, `(reopen s).1.abs = s.abs` about the state in which the
   merge-free suffix starts; `fresh` satisfies them (`fresh_inv`, `fresh_durInv`, `fresh_dur_abs`). -/

/-! ### non-vacuity: the D10 / D11 workloads on the repaired model -/

def c20Cfg : Cfg := { maxFile := 40, syncAlways := true }

/-- `set a; set b [create fails]; set c; get c; get b; del a [fsync fails]; get a` -/
def c20Ops : List (Op × Option Fault) :=
  [(.put [1] [10], none), (.put [2] [20], some .create), (.put [3] [30], none), (.get [3], none),
   (.get [2], none), (.del [1], some .fsync), (.get [1], none),
   (.put [4] [40], some .appendSmall), (.put [5] [50], some (.appendLarge 30)), (.put [4] [41], none),
   (.merge [0, 1] [[1], [3], [4]], none), (.get [4], none), (.get [1], none)]

example : ValidF c20Cfg fresh c20Ops := by
  simp only [c20Ops, ValidF, and_true, true_and]
  decide

example : (runF c20Cfg fresh c20Ops).2 =
    [.done .done, .error, .done .done, .done (.read (.value [30])), .done (.read .absent), .error,
     .done (.read (.value [10])), .error, .error, .done .done, .done .done,
     .done (.read (.value [41])), .done (.read (.value [10]))] := by decide

example : Fault.possible c20Cfg (runF c20Cfg fresh (c20Ops.take 1)).1 ⟨0, [2], some [20]⟩ .create = true := by decide
example : Fault.possible c20Cfg fresh ⟨0, [1], none⟩ .fsync = true := by decide

/-- Observation (not a theorem target): after a failed fsync the byte counter lags behind the real
    file length (`written_bytes` is only advanced after `sync()` returned), so the size bound of
    C14 (`c14_size_bound`) is a property of fault-free histories: every failed fsync lets the
    active file grow by one more entry beyond the configured maximum. -/
example : ((putF { syncAlways := true } fresh 0 [1] [10] (some .fsync)).1.written,
    fileSize (dataOf (putF { syncAlways := true } fresh 0 [1] [10] (some .fsync)).1.disk 0)) = (0, 27) := by decide

/-- merge-free history: key `[1]` acknowledged, then a failed (fsync) overwrite of `[2]`, a failed
    large put of `[3]`, an acknowledged delete of `[1]` after a failed put of it -/
def c20Ops2 : List (Op × Option Fault) :=
  [(.put [1] [10], none), (.put [2] [20], none), (.put [2] [21], some .fsync),
   (.put [3] [30], some (.appendLarge 12)), (.put [1] [11], some .appendSmall), (.del [1], none),
   (.put [4] [40], some .create)]

example : NoMerge c20Ops2 := by decide
example : (dirtyAfter [1] false c20Ops2, dirtyAfter [2] false c20Ops2, dirtyAfter [3] false c20Ops2,
    dirtyAfter [4] false c20Ops2, dirtyAfter [5] false c20Ops2) = (false, true, true, true, false) := by decide
/-- in the running process: `[1]` deleted, `[2]` still the acknowledged value, `[3]`, `[4]` absent -/
example : ((Map.runF Map.empty c20Ops2).1 [1], (Map.runF Map.empty c20Ops2).1 [2],
    (Map.runF Map.empty c20Ops2).1 [3], (Map.runF Map.empty c20Ops2).1 [4]) = (none, some [20], none, none) := by
  decide
/-- after a restart: `[1]` deleted (truthful), `[2]` and `[4]` have the failed writes' values,
    `[3]` is absent -/
example : (Map.runDur Map.empty c20Ops2 [1], Map.runDur Map.empty c20Ops2 [2],
    Map.runDur Map.empty c20Ops2 [3], Map.runDur Map.empty c20Ops2 [4]) = (none, some [21], none, some [40]) := by
  decide

/-- a history with restarts: the acknowledged put of `[1]` survives; the put of `[2]` whose fsync
    failed reads absent before and `[21]` after the restart; the failed large put of `[3]` is gone -/
def c20Hist : List HEv :=
  [.op (.put [1] [10]) none, .op (.put [2] [21]) (some .fsync), .op (.put [3] [30]) (some (.appendLarge 9)),
   .op (.get [2]) none, .restart, .op (.get [1]) none, .op (.get [2]) none, .op (.get [3]) none,
   .op (.del [1]) (some .create), .op (.get [1]) none, .restart, .op (.get [1]) none]

example : ∀ e, e ∈ c20Hist → e.isMerge = false := by decide
example : (SpecSt.run { m := Map.empty, d := Map.empty } c20Hist).2 =
    [some (.done .done), some .error, some .error, some (.done (.read .absent)), none,
     some (.done (.read (.value [10]))), some (.done (.read (.value [21]))), some (.done (.read .absent)),
     some .error, some (.done (.read (.value [10]))), none, some (.done (.read .absent))] := by decide

end Store
