/-
  C20 seen by a client of the server: a command on whose behalf a store call failed is never acknowledged, an
  acknowledging reply is true of the store (of what the running server reads and of what a restart recovers),
  and a refused command touches no key it does not name and leaves each key it names with its old value or the
  value the command gives it. Model: `Resp/ServerFault.lean`.
-/
import BitcaskVerif.Resp.ServerFault

namespace Resp

/-! ### the DEL loop -/

theorem delAllF_some (s : SF) (ks : List (List UInt8)) (rs : List CallRes) (s' : SF) (n : Nat)
    (h : delAllF s ks rs = (s', some n)) :
    s'.live = (delAll s.live ks).1 ∧ s'.disk = (delAll s.disk ks).1 ∧ n = (delAll s.live ks).2 := by
  induction ks generalizing s rs s' n with
  | nil => simp [delAllF] at h; obtain ⟨rfl, rfl⟩ := h; simp [delAll]
  | cons k ks ih =>
    simp only [delAllF] at h
    cases hr : rs.headD .ok <;> simp only [hr, storeDelF] at h
    · generalize hd : delAllF ⟨s.live.del k, s.disk.del k⟩ ks rs.tail = d at h
      obtain ⟨s2, n2⟩ := d
      cases n2 with
      | none => simp at h
      | some n2 =>
        simp only [Option.map_some, Prod.mk.injEq, Option.some.injEq] at h
        obtain ⟨rfl, rfl⟩ := h
        obtain ⟨h1, h2, h3⟩ := ih _ _ _ _ hd
        simp only at h1 h2 h3
        simp [delAll, h1, h2, h3]
    · simp at h
    · simp at h

theorem delAllF_none_fault (s : SF) (ks : List (List UInt8)) (rs : List CallRes) (s' : SF)
    (h : delAllF s ks rs = (s', none)) : ∃ r ∈ rs.take ks.length, r ≠ .ok := by
  induction ks generalizing s rs s' with
  | nil => simp [delAllF] at h
  | cons k ks ih =>
    simp only [delAllF] at h
    cases rs with
    | nil =>
      simp only [List.headD_nil, storeDelF, List.tail_nil] at h
      generalize hd : delAllF ⟨s.live.del k, s.disk.del k⟩ ks [] = d at h
      obtain ⟨s2, n2⟩ := d
      cases n2 with
      | none => obtain ⟨r, hr, _⟩ := ih _ _ _ hd; simp at hr
      | some n2 => simp at h
    | cons r rs =>
      simp only [List.headD_cons, List.tail_cons] at h
      cases r <;> simp only [storeDelF] at h
      · generalize hd : delAllF ⟨s.live.del k, s.disk.del k⟩ ks rs = d at h
        obtain ⟨s2, n2⟩ := d
        cases n2 with
        | none =>
          obtain ⟨r, hr, hne⟩ := ih _ _ _ hd
          exact ⟨r, by simp [List.take_succ_cons, hr], hne⟩
        | some n2 => simp at h
      · exact ⟨.failKept, by simp, by simp⟩
      · exact ⟨.failApplied, by simp, by simp⟩

/-- a refused DEL: a key it does not name reads as before, now and after a restart -/
theorem delAllF_other (s : SF) (ks : List (List UInt8)) (rs : List CallRes) (k : List UInt8) (hk : k ∉ ks) :
    (delAllF s ks rs).1.live k = s.live k ∧ (delAllF s ks rs).1.disk k = s.disk k := by
  induction ks generalizing s rs with
  | nil => simp [delAllF]
  | cons k0 ks ih =>
    have hk0 : k ≠ k0 := fun e => hk (by simp [e])
    have hks : k ∉ ks := fun e => hk (by simp [e])
    simp only [delAllF]
    cases rs.headD .ok <;> simp only [storeDelF]
    · generalize hd : delAllF ⟨s.live.del k0, s.disk.del k0⟩ ks rs.tail = d
      obtain ⟨s2, n2⟩ := d
      have := ih ⟨s.live.del k0, s.disk.del k0⟩ rs.tail hks
      rw [hd] at this
      simpa [KV.del, hk0] using this
    · simp
    · simp [KV.del, hk0]

/-- every key, after a DEL (refused or not), reads its old value or nothing -/
theorem delAllF_old_or_gone (s : SF) (ks : List (List UInt8)) (rs : List CallRes) (k : List UInt8) :
    ((delAllF s ks rs).1.live k = s.live k ∨ (delAllF s ks rs).1.live k = none) ∧
    ((delAllF s ks rs).1.disk k = s.disk k ∨ (delAllF s ks rs).1.disk k = none) := by
  induction ks generalizing s rs with
  | nil => simp [delAllF]
  | cons k0 ks ih =>
    simp only [delAllF]
    cases rs.headD .ok <;> simp only [storeDelF]
    · generalize hd : delAllF ⟨s.live.del k0, s.disk.del k0⟩ ks rs.tail = d
      obtain ⟨s2, n2⟩ := d
      have := ih ⟨s.live.del k0, s.disk.del k0⟩ rs.tail
      rw [hd] at this
      simp only [KV.del] at this ⊢
      by_cases e : k = k0
      · simp only [e, if_true] at this ⊢
        obtain ⟨h1, h2⟩ := this
        exact ⟨Or.inr (by rcases h1 with h | h <;> exact h), Or.inr (by rcases h2 with h | h <;> exact h)⟩
      · simpa [e] using this
    · simp
    · simp only [KV.del]
      by_cases e : k = k0 <;> simp [e]

/-- what a key reads after the whole DEL has been carried out -/
theorem delAll_get (m : KV) (ks : List (List UInt8)) (k : List UInt8) :
    (delAll m ks).1 k = if k ∈ ks then none else m k := by
  induction ks generalizing m with
  | nil => simp [delAll]
  | cons k0 ks ih =>
    simp only [delAll, ih, KV.del, List.mem_cons]
    by_cases e : k = k0 <;> by_cases e2 : k ∈ ks <;> simp [e, e2]

/-! ### one command -/

/-- **an acknowledging reply is true of the store**: when a reply frame is written, the command has been carried
    out in full, in what the running server reads and in what a restart recovers, and the reply is the one the
    key-value map gives -/
theorem c20_server_ack_truthful (s s' : SF) (c : Cmd) (rs : List CallRes) (f : Frame)
    (h : applyCmdF s c rs = (s', some f)) :
    s'.live = (applyCmd s.live c).1 ∧ s'.disk = (applyCmd s.disk c).1 ∧ f = (applyCmd s.live c).2 := by
  cases c with
  | set k v =>
    simp only [applyCmdF] at h
    cases hr : rs.headD .ok <;> simp only [hr, storeSetF] at h
    · simp only [Prod.mk.injEq, Option.some.injEq] at h
      obtain ⟨rfl, rfl⟩ := h
      simp [applyCmd]
    · simp at h
    · simp at h
  | get k =>
    simp only [applyCmdF] at h
    cases hr : rs.headD .ok <;> simp only [hr] at h
    · simp only [Prod.mk.injEq, Option.some.injEq] at h
      obtain ⟨rfl, rfl⟩ := h
      exact ⟨rfl, rfl, rfl⟩
    · simp at h
    · simp at h
  | del ks =>
    simp only [applyCmdF] at h
    generalize hd : delAllF s ks rs = d at h
    obtain ⟨s1, n⟩ := d
    cases n with
    | none => simp at h
    | some n =>
      simp only [Option.map_some, Prod.mk.injEq, Option.some.injEq] at h
      obtain ⟨rfl, rfl⟩ := h
      obtain ⟨h1, h2, h3⟩ := delAllF_some _ _ _ _ _ hd
      simp [applyCmd, h1, h2, h3]

/-- an acknowledged DEL: every key it names is gone, in the running server and after a restart -/
theorem c20_server_acked_del_all_gone (s s' : SF) (ks : List (List UInt8)) (rs : List CallRes) (f : Frame)
    (h : applyCmdF s (.del ks) rs = (s', some f)) (k : List UInt8) (hk : k ∈ ks) :
    s'.live k = none ∧ s'.disk k = none := by
  obtain ⟨h1, h2, _⟩ := c20_server_ack_truthful _ _ _ _ _ h
  simp [h1, h2, applyCmd, delAll_get, hk]

/-- **a command is refused only if one of its store calls failed** -/
theorem c20_server_refused_only_on_fault (s s' : SF) (c : Cmd) (rs : List CallRes)
    (h : applyCmdF s c rs = (s', none)) : ∃ r ∈ rs.take c.calls, r ≠ .ok := by
  cases c with
  | set k v =>
    simp only [applyCmdF] at h
    cases rs with
    | nil => simp [storeSetF] at h
    | cons r rs =>
      cases r <;> simp [storeSetF] at h
      · exact ⟨.failKept, by simp [Cmd.calls], by simp⟩
      · exact ⟨.failApplied, by simp [Cmd.calls], by simp⟩
  | get k =>
    simp only [applyCmdF] at h
    cases rs with
    | nil => simp at h
    | cons r rs =>
      cases r <;> simp at h
      · exact ⟨.failKept, by simp [Cmd.calls], by simp⟩
      · exact ⟨.failApplied, by simp [Cmd.calls], by simp⟩
  | del ks =>
    simp only [applyCmdF] at h
    generalize hd : delAllF s ks rs = d at h
    obtain ⟨s1, n⟩ := d
    cases n with
    | some n => simp at h
    | none =>
      simp only [Option.map_none, Prod.mk.injEq, and_true] at h
      exact delAllF_none_fault _ _ _ _ hd

/-- **without a failing call the server is the key-value map** -/
theorem c20_server_no_fault (s : SF) (c : Cmd) (rs : List CallRes) (h : ∀ r ∈ rs.take c.calls, r = .ok) :
    ∃ s', applyCmdF s c rs = (s', some (applyCmd s.live c).2) ∧
      s'.live = (applyCmd s.live c).1 ∧ s'.disk = (applyCmd s.disk c).1 := by
  generalize hres : applyCmdF s c rs = res
  obtain ⟨s', o⟩ := res
  cases o with
  | none =>
    obtain ⟨r, hr, hne⟩ := c20_server_refused_only_on_fault _ _ _ _ hres
    exact absurd (h r hr) hne
  | some f =>
    obtain ⟨h1, h2, h3⟩ := c20_server_ack_truthful _ _ _ _ _ hres
    exact ⟨s', by rw [h3], h1, h2⟩

/-- **a refused command affects no other key**: a key the command does not name reads as before, in the running
    server and after a restart (this holds whether or not the command is refused) -/
theorem c20_server_other_keys (s : SF) (c : Cmd) (rs : List CallRes) (k : List UInt8) (hk : k ∉ c.keys) :
    (applyCmdF s c rs).1.live k = s.live k ∧ (applyCmdF s c rs).1.disk k = s.disk k := by
  cases c with
  | set k0 v =>
    have e : k ≠ k0 := fun e => hk (by simp [Cmd.keys, e])
    simp only [applyCmdF]
    cases rs.headD .ok <;> simp [storeSetF, KV.set, e]
  | get k0 =>
    simp only [applyCmdF]
    cases rs.headD .ok <;> simp
  | del ks =>
    simp only [applyCmdF]
    have := delAllF_other s ks rs k (by simpa [Cmd.keys] using hk)
    generalize delAllF s ks rs = d at this ⊢
    obtain ⟨s1, n⟩ := d
    simpa using this

/-- **a refused command may or may not have taken effect**: every key reads its old value or the value the
    command gives it; the running server never shows a refused SET at all -/
theorem c20_server_refused_old_or_new (s s' : SF) (c : Cmd) (rs : List CallRes)
    (h : applyCmdF s c rs = (s', none)) (k : List UInt8) :
    (s'.live k = s.live k ∨ s'.live k = (applyCmd s.live c).1 k) ∧
    (s'.disk k = s.disk k ∨ s'.disk k = (applyCmd s.disk c).1 k) := by
  cases c with
  | set k0 v =>
    simp only [applyCmdF] at h
    cases hr : rs.headD .ok <;> simp only [hr, storeSetF] at h
    · simp at h
    · simp only [Prod.mk.injEq, and_true] at h; subst h; simp
    · simp only [Prod.mk.injEq, and_true] at h; subst h; simp [applyCmd]
  | get k0 =>
    simp only [applyCmdF] at h
    cases hr : rs.headD .ok <;> simp only [hr] at h
    · simp at h
    · simp only [Prod.mk.injEq, and_true] at h; subst h; simp
    · simp only [Prod.mk.injEq, and_true] at h; subst h; simp
  | del ks =>
    by_cases hk : k ∈ ks
    · have := delAllF_old_or_gone s ks rs k
      simp only [applyCmdF] at h
      generalize hd : delAllF s ks rs = d at h this
      obtain ⟨s1, n⟩ := d
      simp only [Prod.mk.injEq] at h
      obtain ⟨rfl, _⟩ := h
      simpa [applyCmd, delAll_get, hk] using this
    · have := c20_server_other_keys s (.del ks) rs k (by simpa [Cmd.keys] using hk)
      rw [h] at this
      exact ⟨Or.inl this.1, Or.inl this.2⟩

/-- the running server never shows anything of a refused SET -/
theorem c20_server_refused_set_invisible (s s' : SF) (k v : List UInt8) (rs : List CallRes)
    (h : applyCmdF s (.set k v) rs = (s', none)) : s'.live = s.live := by
  simp only [applyCmdF] at h
  cases hr : rs.headD .ok <;> simp only [hr, storeSetF] at h
  · simp at h
  · simp only [Prod.mk.injEq, and_true] at h; subst h; rfl
  · simp only [Prod.mk.injEq, and_true] at h; subst h; rfl

/-! ### the handler loop -/

/-- the commands of a run that were acknowledged -/
def ackedPrefix (s : SF) : List (Cmd × List CallRes) → List Cmd
  | [] => []
  | (c, rs) :: rest =>
    match applyCmdF s c rs with
    | (_, none) => []
    | (s1, some _) => c :: ackedPrefix s1 rest

/-- **every reply a connection receives is true**: the replies written are exactly the key-value map's replies to
    the acknowledged commands, in order, and if no call of the run failed after the last of them the running
    server holds exactly what those commands give -/
theorem c20_server_replies (s : SF) (run : List (Cmd × List CallRes)) :
    (serveCmdsF s run).2.1 = ((ackedPrefix s run).foldl
        (fun (acc : KV × List Frame) c => ((applyCmd acc.1 c).1, acc.2 ++ [(applyCmd acc.1 c).2])) (s.live, [])).2 := by
  suffices H : ∀ (run : List (Cmd × List CallRes)) (s : SF) (pre : List Frame),
      pre ++ (serveCmdsF s run).2.1 = ((ackedPrefix s run).foldl
        (fun (acc : KV × List Frame) c => ((applyCmd acc.1 c).1, acc.2 ++ [(applyCmd acc.1 c).2])) (s.live, pre)).2 by
    simpa using H run s []
  intro run
  induction run with
  | nil => intro s pre; simp [serveCmdsF, ackedPrefix]
  | cons cr rest ih =>
    intro s pre
    obtain ⟨c, rs⟩ := cr
    simp only [serveCmdsF, ackedPrefix]
    generalize hres : applyCmdF s c rs = res
    obtain ⟨s1, o⟩ := res
    cases o with
    | none => simp
    | some f =>
      obtain ⟨h1, _, h3⟩ := c20_server_ack_truthful _ _ _ _ _ hres
      simp only [List.foldl_cons]
      generalize hrec : serveCmdsF s1 rest = rr
      obtain ⟨s2, fs, r⟩ := rr
      have := ih s1 (pre ++ [f])
      rw [hrec] at this
      simp only [List.append_assoc, List.singleton_append] at this
      rw [this, h1, h3]

/-- a connection whose handler is still running after a run has had every one of its commands acknowledged -/
theorem c20_server_running_all_acked (s : SF) (run : List (Cmd × List CallRes))
    (h : (serveCmdsF s run).2.2 = true) : ackedPrefix s run = run.map Prod.fst := by
  induction run generalizing s with
  | nil => simp [ackedPrefix]
  | cons cr rest ih =>
    obtain ⟨c, rs⟩ := cr
    simp only [serveCmdsF, ackedPrefix] at h ⊢
    generalize hres : applyCmdF s c rs = res at h
    obtain ⟨s1, o⟩ := res
    cases o with
    | none => simp at h
    | some f =>
      generalize hrec : serveCmdsF s1 rest = rr at h
      obtain ⟨s2, fs, r⟩ := rr
      have := ih s1 (by simpa [hrec] using h)
      simp [this]

/-! ### the premises are met: a DEL of three keys whose second call fails after its entry reached the file -/

example :
    let s0 : SF := ⟨(KV.empty.set [97] [49]).set [98] [50], (KV.empty.set [97] [49]).set [98] [50]⟩
    let r := applyCmdF s0 (.del [[97], [98], [99]]) [.ok, .failApplied]
    r.2 = none ∧ r.1.live [97] = none ∧ r.1.live [98] = some [50] ∧ r.1.disk [98] = none := by
  simp [applyCmdF, delAllF, storeDelF, KV.del, KV.set, KV.empty]

example :
    let s0 : SF := ⟨KV.empty.set [97] [49], KV.empty.set [97] [49]⟩
    applyCmdF s0 (.del [[97], [98]]) [] |>.2 = some (.integer 1) := by
  simp [applyCmdF, delAllF, storeDelF, KV.del, KV.set, KV.empty]

end Resp
