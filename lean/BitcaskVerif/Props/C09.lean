/-
  C09 — with `sync = always` an acknowledged write survives power loss, merges included.

  Failure model (the property's, not verified): creations and removals of files are persistent;
  of every file, any suffix written after that file's last completed fsync may be missing.

  Part 1 (trace level, all operations): with `sync = always` the append of a `put` / `delete` is
  followed by an fsync of the same file before the operation returns (and before the next file
  is created); in every merge pass — for every configuration — every append to an output file
  (data or hint) is followed by an fsync of that file before the first input file is removed,
  the pass appends only to new files above the active id and removes only selected files.
  So a merge never removes a file while a copy it has made is not yet durable (on the pinned
  tree the outputs were never synced: defect D4).

  Part 2 (directory level, merge-free histories): every power-loss image — at an operation
  boundary or at any cut inside an operation — opens, contains every acknowledged operation, and
  the operation in flight applied or not; once its fsync has completed it is applied.

  Part 3 (directory level, merge passes and histories with merges): durability is tracked for
  data AND hint files (`SDisk2`); a power failure cuts every data file and every hint file back
  independently (`PowerLoss2`).  Every image at any cut of a merge pass opens to exactly the
  contents before the merge: a merge never removes the only durable copy of a value.

  Helper lemmas: Store/SyncLemmas.lean, Store/PowerLoss.lean, Store/PowerHistory.lean (parts 1, 2);
  Store/PowerMerge.lean, Store/PowerImage.lean, Store/PowerCuts.lean, Store/PowerAll.lean (part 3).
-/
import BitcaskVerif.Store.PowerHistory
import BitcaskVerif.Store.PowerAll

namespace Store

open Tr

/-! ### part 1: order of appends, fsyncs and unlinks -/

/-- **C09 (set, call order).** With `sync = always` the calls of `put` are: append the entry to
    the active file, fsync the active file, then — only after that — create the next file if
    the size limit is exceeded. -/
theorem c09_put_synced (cfg : Cfg) (s : St) (ts : Int) (k : Key) (v : Val) (h : cfg.syncAlways = true) :
    (put cfg s ts k v).2 =
      [Call.append ⟨.data, s.active⟩ (.ofRec ⟨ts, k, some v⟩), Call.fsync ⟨.data, s.active⟩] ++
      (if s.written + (⟨ts, k, some v⟩ : Rec).len > cfg.maxFile then [Call.create ⟨.data, s.active + 1⟩] else []) := by
  rw [put_calls]; exact write_calls_sync cfg s _ h

/-- **C09 (delete, call order).** -/
theorem c09_delete_synced (cfg : Cfg) (s : St) (ts : Int) (k : Key) (h : cfg.syncAlways = true) :
    (delete cfg s ts k).2.2 =
      [Call.append ⟨.data, s.active⟩ (.ofRec ⟨ts, k, none⟩), Call.fsync ⟨.data, s.active⟩] ++
      (if s.written + (⟨ts, k, none⟩ : Rec).len > cfg.maxFile then [Call.create ⟨.data, s.active + 1⟩] else []) := by
  rw [delete_calls]; exact write_calls_sync cfg s _ h

/-- **C09 (merge, call order).** In the calls of a merge pass (any configuration, any selection,
    any iteration order) every append — to an output data file or to an output hint file — is
    followed by an fsync of the same file, and no unlink happens in between. -/
theorem c09_merge_synced (cfg : Cfg) (s : St) (sel : List Nat) (order : List Key)
    (pre : List Call) (f : FName) (p : Payload) (post : List Call)
    (h : (mergeWith cfg s sel order).2 = pre ++ Call.append f p :: post) :
    ∃ mid rest, post = mid ++ Call.fsync f :: rest ∧ ∀ c ∈ mid, ∀ g, c ≠ Call.unlink g :=
  syncedB_spec (mergeWith_synced cfg s sel order) pre f p post h

/-- the same as an executable monitor -/
theorem c09_merge_synced_monitor (cfg : Cfg) (s : St) (sel : List Nat) (order : List Key) :
    syncedB (mergeWith cfg s sel order).2 = true := mergeWith_synced cfg s sel order

/-- **C09 (merge, files touched).** A merge pass appends only to files with ids above the active
    id (its outputs) and removes only selected files; with the selection below the active id (as
    in every valid merge) it therefore never removes a file it has written to. -/
theorem c09_merge_targets (cfg : Cfg) (s : St) (sel : List Nat) (order : List Key) :
    ∀ c ∈ (mergeWith cfg s sel order).2,
      (∀ f p, c = Call.append f p → s.active < f.id) ∧ (∀ f, c = Call.unlink f → f.id ∈ sel) :=
  mergeWith_targets cfg s sel order

/-- **C09 (whole traces).** With `sync = always` the effect trace of every run of sets, deletes,
    merges and reopens passes the monitor: every append is followed by an fsync of the same file
    before the next unlink. -/
theorem c09_trace_synced (cfg : Cfg) (h : cfg.syncAlways = true) (s : St) (ops : List TOp) :
    syncedB (traceOf cfg s ops) = true := traceOf_synced cfg h ops s

/-- what the monitor says, in terms of positions in the trace -/
theorem c09_trace_synced_spec (cfg : Cfg) (h : cfg.syncAlways = true) (s : St) (ops : List TOp)
    (pre : List Call) (f : FName) (p : Payload) (post : List Call)
    (e : traceOf cfg s ops = pre ++ Call.append f p :: post) :
    ∃ mid rest, post = mid ++ Call.fsync f :: rest ∧ ∀ c ∈ mid, ∀ g, c ≠ Call.unlink g :=
  syncedB_spec (c09_trace_synced cfg h s ops) pre f p post e

/-! ### part 2: power-loss images of merge-free histories -/

/-- **C09 (one operation).** `sync = always`; `s` reachable by sets, deletes, reads, reopens,
    kills and recoveries, everything in its directory durable (`sy`).  The power fails after the
    calls `c` (any cut) of the merge-free operation `op`.  Every directory `d'` the failure can
    leave opens to a store satisfying the invariant that reads as before `op` or as after `op`;
    if `op` had returned (all its calls issued), as after `op`. -/
theorem c09_op_durable_partial (cfg : Cfg) (hs : cfg.syncAlways = true) (s : St) (h : ReachC cfg s)
    (sy : List (Nat × Nat)) (hfs : FullySynced ⟨s.disk, sy⟩) (op : TOp) (hop : mergeFree op) (c : List Call)
    (hc : Cut (stepC cfg s op).2 c) (d' : Disk) (hp : PowerLoss (syncCalls ⟨s.disk, sy⟩ c) d') :
    ((openDisk d').1.abs = s.abs ∨ (openDisk d').1.abs = specOp s.abs op) ∧
    (c = (stepC cfg s op).2 → (openDisk d').1.abs = specOp s.abs op) ∧ Inv (openDisk d').1 := by
  obtain ⟨a, b⟩ := stepC_powerLoss_recovers cfg hs (reachC_rinv h).1 (reachC_rinv h).2 hfs op hop hc hp
  refine ⟨?_, fun e => (b e).2.2, ?_⟩
  · rcases a with r | r
    · exact .inl r.2.2
    · exact .inr r.2.2
  · rcases a with r | r <;> exact r.1.inv

/-- **C09 (merge-free histories).** `sync = always`; from any state `s` satisfying the recovery
    invariant in which nothing absent is resurrectable (e.g. any `ReachC` state, `reachC_rinv`)
    and whose directory is durable: after the acknowledged merge-free operations `ops` the power
    fails at any cut `c` of the next operation `op`.  Every power-loss image `d'` opens; the store
    contains every acknowledged operation, and `op` applied or not applied — applied if it had
    returned; the opened store again satisfies the hypotheses (with everything durable), so the
    statement applies to the next life as well. -/
theorem c09_durable_partial (cfg : Cfg) (hs : cfg.syncAlways = true) (s : St) (h : RInv s) (hf : Full s)
    (sy : List (Nat × Nat)) (hfs : FullySynced ⟨s.disk, sy⟩) (ops : List TOp) (hops : ∀ o ∈ ops, mergeFree o)
    (op : TOp) (hop : mergeFree op) (c : List Call) (hc : Cut (stepC cfg (runC cfg s ops) op).2 c)
    (d' : Disk) (hp : PowerLoss (syncCalls ⟨s.disk, sy⟩ (traceOf cfg s ops ++ c)) d') :
    ((openDisk d').1.abs = specRun s.abs ops ∨ (openDisk d').1.abs = specOp (specRun s.abs ops) op) ∧
    (c = (stepC cfg (runC cfg s ops) op).2 → (openDisk d').1.abs = specOp (specRun s.abs ops) op) ∧
    Inv (openDisk d').1 ∧ (∀ k, get (openDisk d').1 k ≠ .corrupt) ∧
    RInv (openDisk d').1 ∧ Full (openDisk d').1 ∧
    FullySynced ⟨(openDisk d').1.disk, allSynced (openDisk d').1.disk⟩ := by
  obtain ⟨a, b⟩ := history_powerLoss_recovers cfg hs h hf hfs ops hops op hop hc hp
  have hr : RInv (openDisk d').1 ∧ Full (openDisk d').1 := by
    rcases a with r | r <;> exact ⟨r.1, r.2.1⟩
  refine ⟨?_, fun e => (b e).2.2, hr.1.inv, fun k => get_not_corrupt hr.1.inv k, hr.1, hr.2, fullySynced_all _⟩
  rcases a with r | r
  · exact .inl r.2.2
  · exact .inr r.2.2

/-- **C09 (from a fresh store).** -/
theorem c09_durable_fresh_partial (cfg : Cfg) (hs : cfg.syncAlways = true) (ops : List TOp)
    (hops : ∀ o ∈ ops, mergeFree o) (op : TOp) (hop : mergeFree op) (c : List Call)
    (hc : Cut (stepC cfg (runC cfg fresh ops) op).2 c) (d' : Disk)
    (hp : PowerLoss (syncCalls ⟨fresh.disk, []⟩ (traceOf cfg fresh ops ++ c)) d') :
    ((openDisk d').1.abs = specRun Map.empty ops ∨ (openDisk d').1.abs = specOp (specRun Map.empty ops) op) ∧
    (c = (stepC cfg (runC cfg fresh ops) op).2 → (openDisk d').1.abs = specOp (specRun Map.empty ops) op) ∧
    Inv (openDisk d').1 := by
  have := c09_durable_partial cfg hs fresh fresh_rinv.1 fresh_rinv.2 [] fullySynced_fresh ops hops op hop c hc d' hp
  rw [fresh_abs] at this
  exact ⟨this.1, this.2.1, this.2.2.1⟩

/-- with `sync = always` everything is durable whenever a merge-free operation has returned
    (this is what makes the bookkeeping `sy` of the next operation "everything durable") -/
theorem c09_boundary_synced (cfg : Cfg) (hs : cfg.syncAlways = true) (s : St) (sy : List (Nat × Nat))
    (hfs : FullySynced ⟨s.disk, sy⟩) (ops : List TOp) (hops : ∀ o ∈ ops, mergeFree o) :
    ∃ sy', syncCalls ⟨s.disk, sy⟩ (traceOf cfg s ops) = ⟨(runC cfg s ops).disk, sy'⟩ ∧
      FullySynced ⟨(runC cfg s ops).disk, sy'⟩ := runC_sync cfg hs ops s sy hfs hops

/-! ### part 3: power-loss images of merge passes and of histories with merges -/

/-- **C09 (merge pass), general form.** `s` reachable by sets, deletes, merges and reopens; the
    selection consists of existing files, the iteration order covers the KeyDir; for every
    prefix `done` of the selection the files outside `done` do not resurrect an absent key
    (`done = []`: nothing absent is resurrectable in `s`; cf. `c03_merge_cut_prefixes_partial`);
    when the merge starts everything in the directory is durable (`sd0`; with `sync = always`
    this holds whenever an operation has returned, `c09_boundary_synced2`).
    The power fails after the calls `c` of the merge pass — ANY cut: between two calls or inside
    an append.  Every directory `I` the failure can leave (each data file and each hint file cut
    back independently to any length at or above its durable length, possibly leaving a partial
    entry) opens to a store satisfying the invariant that reads exactly as before the merge.
    The proof uses that a hint entry whose record is missing or incomplete does not fit inside
    the data file and is ignored by the scan (defect D5 on the pinned tree), that every output
    is fsynced before the first unlink (defect D4), and that sources are removed only then. -/
theorem c09_merge_durable_prefixes_partial (cfg : Cfg) (s : St) (h : Reach cfg s) (sel : List Nat)
    (order : List Key) (hsel : ∀ id, id ∈ sel → id ≤ s.active) (hcov : Covers order s)
    (hz : ∀ done, done <+: sel → NoHazard s done) (sd0 : SDisk2) (hd : sd0.disk = s.disk)
    (hfs : FullySynced2 sd0) (c : List Call) (hc : Cut (mergeWith cfg s sel order).2 c) (I : Disk)
    (hp : PowerLoss2 (syncCalls2 sd0 c) I) :
    (openDisk I).1.abs = s.abs ∧ Inv (openDisk I).1 :=
  have r := mergeWith_powerLoss_recovers cfg (reach_rinv h) sel order hsel hcov hz hd hfs hc hp
  ⟨r.2, r.1⟩

/-- **C09 (merge pass).** With the selection in ascending order it suffices that nothing absent
    is resurrectable in `s` and that the complete selection is hazard-free (defect D3). -/
theorem c09_merge_durable_partial (cfg : Cfg) (s : St) (h : Reach cfg s) (sel : List Nat) (order : List Key)
    (hsel : ∀ id, id ∈ sel → id ≤ s.active) (hcov : Covers order s) (hsorted : sel.Pairwise (· ≤ ·))
    (hf : Full s) (hz : NoHazard s sel) (sd0 : SDisk2) (hd : sd0.disk = s.disk) (hfs : FullySynced2 sd0)
    (c : List Call) (hc : Cut (mergeWith cfg s sel order).2 c) (I : Disk)
    (hp : PowerLoss2 (syncCalls2 sd0 c) I) :
    (openDisk I).1.abs = s.abs ∧ Inv (openDisk I).1 :=
  c09_merge_durable_prefixes_partial cfg s h sel order hsel hcov
    (fun _ hd => noHazard_prefix_of_sorted (reach_rinv h).asc hf hsorted hz hd) sd0 hd hfs c hc I hp

/-- **C09 (histories with merges).** `sync = always`; `s` reachable by sets, deletes, reads,
    reopens, hazard-free merges, and kills inside merge-free operations followed by recovery
    (`ReachM`), everything in its directory durable.  After the acknowledged operations `ops`
    (merge passes included) the power fails at ANY cut `c` of the next operation `op` (a merge
    pass included).  Every power-loss image `I` opens to a store that satisfies the invariant,
    never reads a bad location, contains every acknowledged operation, and `op` applied or not —
    applied if `op` had returned. -/
theorem c09_history_durable_partial (cfg : Cfg) (hs : cfg.syncAlways = true) (s : St) (h : ReachM cfg s)
    (sd0 : SDisk2) (hd : sd0.disk = s.disk) (hfs : FullySynced2 sd0) (ops : List TOp) (hv : ValidOps cfg s ops)
    (op : TOp) (hop : opOk (runC cfg s ops) op) (c : List Call) (hc : Cut (stepC cfg (runC cfg s ops) op).2 c)
    (I : Disk) (hp : PowerLoss2 (syncCalls2 sd0 (traceOf cfg s ops ++ c)) I) :
    ((openDisk I).1.abs = specRun s.abs ops ∨ (openDisk I).1.abs = specOp (specRun s.abs ops) op) ∧
    (c = (stepC cfg (runC cfg s ops) op).2 → (openDisk I).1.abs = specOp (specRun s.abs ops) op) ∧
    Inv (openDisk I).1 ∧ (∀ k, get (openDisk I).1 k ≠ .corrupt) := by
  obtain ⟨a, b⟩ := history_powerLoss2_recovers cfg hs (reachM_rinv h).1 (reachM_rinv h).2 hd hfs ops hv op hop hc hp
  have hi : Inv (openDisk I).1 := by rcases a with r | r <;> exact r.1
  refine ⟨?_, fun e => (b e).2, hi, fun k => get_not_corrupt hi k⟩
  rcases a with r | r
  · exact .inl r.2
  · exact .inr r.2

/-- **C09 (from a fresh store, merges included).** -/
theorem c09_history_durable_fresh_partial (cfg : Cfg) (hs : cfg.syncAlways = true) (ops : List TOp)
    (hv : ValidOps cfg fresh ops) (op : TOp) (hop : opOk (runC cfg fresh ops) op) (c : List Call)
    (hc : Cut (stepC cfg (runC cfg fresh ops) op).2 c) (I : Disk)
    (hp : PowerLoss2 (syncCalls2 ⟨fresh.disk, [], []⟩ (traceOf cfg fresh ops ++ c)) I) :
    ((openDisk I).1.abs = specRun Map.empty ops ∨ (openDisk I).1.abs = specOp (specRun Map.empty ops) op) ∧
    (c = (stepC cfg (runC cfg fresh ops) op).2 → (openDisk I).1.abs = specOp (specRun Map.empty ops) op) ∧
    Inv (openDisk I).1 := by
  have := c09_history_durable_partial cfg hs fresh .fresh ⟨fresh.disk, [], []⟩ rfl fullySynced2_fresh ops hv op hop
    c hc I hp
  rw [fresh_abs] at this
  exact ⟨this.1, this.2.1, this.2.2.1⟩

/-- with `sync = always` everything (data and hint files) is durable whenever an operation —
    merge passes included — has returned -/
theorem c09_boundary_synced2 (cfg : Cfg) (hs : cfg.syncAlways = true) (s : St) (h : ReachM cfg s) (sd0 : SDisk2)
    (hd : sd0.disk = s.disk) (hfs : FullySynced2 sd0) (ops : List TOp) (hv : ValidOps cfg s ops) :
    (syncCalls2 sd0 (traceOf cfg s ops)).disk = (runC cfg s ops).disk ∧
      FullySynced2 (syncCalls2 sd0 (traceOf cfg s ops)) :=
  runC_sync2 cfg hs ops sd0 (reachM_rinv h).1 (reachM_rinv h).2 hd hfs hv

/-
  What is still missing.  (1) Composition after a failure INSIDE a merge pass: the store recovered
  from such an image satisfies the store invariant and reads correctly (theorems above), but in
  general not `HintsExact` (an output data file may hold records its hint file does not list, or
  the hint file entries whose records are gone), so it is outside `ReachM` and the theorems do
  not apply to its further lives; a recovery invariant with "the hint file lists a prefix of the
  records" would be needed throughout Store/Recovery.lean, RecInv.lean, MergeRecovery.lean.
  (2) The hazard hypothesis (defect D3) is inherited from C05 / C03.  (3) The failure model
  itself (creations and removals persistent; a file loses only a suffix written after its last
  completed fsync; the partial entry left behind is shorter than the entry) is the property's.
-/

/-! ### non-vacuity -/

/-- a put with `sync = always` and rollover, the power failing between append and fsync: the
    image without the new record and the image with it are both possible -/
def c09Cfg : Cfg := { maxFile := 0, syncAlways := true }
def c09Cut : List Call := [.append ⟨.data, 0⟩ (.ofRec ⟨7, [1], some [10]⟩)]

example : Cut (stepC c09Cfg fresh (.put 7 [1] [10])).2 c09Cut :=
  .boundary _ [.fsync ⟨.data, 0⟩, .create ⟨.data, 1⟩] (by decide)

example : PowerLoss (syncCalls ⟨fresh.disk, []⟩ c09Cut) { data := [(0, [])], hint := [], tails := [(0, 13)] } :=
  ⟨fun _ => 0, [(0, 13)], by intro id; simp [syncedOf, syncCalls, syncCall, syncedAfter, c09Cut], rfl⟩

example : PowerLoss (syncCalls ⟨fresh.disk, []⟩ c09Cut)
    { data := [(0, [⟨7, [1], some [10]⟩])], hint := [], tails := [] } :=
  ⟨fun _ => 1, [], by intro id; simp [syncedOf, syncCalls, syncCall, syncedAfter, c09Cut], rfl⟩

/-- after the fsync the record is durable: every image keeps it -/
example : syncedOf (syncCalls ⟨fresh.disk, []⟩ (c09Cut ++ [.fsync ⟨.data, 0⟩])) 0 = 1 := by decide

example : FullySynced ⟨fresh.disk, []⟩ := fullySynced_fresh

/-- the monitor rejects a merge trace without the output fsyncs (what the pinned tree did) -/
example : syncedB [.create ⟨.data, 3⟩, .create ⟨.hint, 3⟩, .append ⟨.data, 3⟩ (.ofRec ⟨0, [1], some [10]⟩),
    .append ⟨.hint, 3⟩ (.ofHint ⟨0, 27, 0, [1]⟩), .unlink ⟨.data, 0⟩, .create ⟨.data, 4⟩] = false := by decide

/-! #### a merge pass: the hint entry survives the power failure, its record does not -/

def pCfg : Cfg := { maxFile := 0, syncAlways := true }
/-- file 0: `set [1] [10]`, file 1: `set [2] [20]`, file 2: active and empty -/
def pSt : St := (put pCfg (put pCfg fresh 0 [1] [10]).1 0 [2] [20]).1
/-- the merge of file 0 up to the hint append of the copied record (before the fsyncs) -/
def pCut : List Call :=
  [.create ⟨.data, 3⟩, .create ⟨.hint, 3⟩, .append ⟨.data, 3⟩ (.ofRec ⟨0, [1], some [10]⟩),
   .append ⟨.hint, 3⟩ (.ofHint ⟨0, 27, 0, [1]⟩)]
/-- an image: output data file 3 lost its record (5 bytes of it remain), hint file 3 kept its
    entry -/
def pImg : Disk :=
  { data := [(0, [⟨0, [1], some [10]⟩]), (1, [⟨0, [2], some [20]⟩]), (2, []), (3, [])],
    hint := [(3, [⟨0, 27, 0, [1]⟩])], tails := [(3, 5)] }

theorem pSd : syncCalls2 (allSynced2 pSt.disk) pCut =
    ⟨{ data := [(0, [⟨0, [1], some [10]⟩]), (1, [⟨0, [2], some [20]⟩]), (2, []), (3, [⟨0, [1], some [10]⟩])],
       hint := [(3, [⟨0, 27, 0, [1]⟩])], tails := [] }, [(0, 1), (1, 1), (2, 0), (3, 0)], [(3, 0)]⟩ := rfl

/-- the hypotheses of `c09_merge_durable_partial` hold in this instance -/
example : Reach pCfg pSt ∧ Full pSt ∧ NoHazard pSt [0] ∧ (∀ id, id ∈ [0] → id ≤ pSt.active) ∧
    Covers [[1], [2]] pSt ∧ [0].Pairwise (· ≤ ·) ∧ FullySynced2 (allSynced2 pSt.disk) ∧
    Cut (mergeWith pCfg pSt [0] [[1], [2]]).2 pCut :=
  have hr : ReachPD pCfg pSt := .put _ _ _ (.put _ _ _ .fresh)
  ⟨hr.toReach, (reachPD_rinv hr).2, noHazard_of_noStaleValue (by decide), by decide, by decide, by decide,
   fullySynced2_all _,
   .boundary _ [.fsync ⟨.data, 3⟩, .fsync ⟨.hint, 3⟩, .create ⟨.data, 4⟩, .create ⟨.hint, 4⟩, .fsync ⟨.data, 4⟩,
      .fsync ⟨.hint, 4⟩, .unlink ⟨.data, 0⟩, .create ⟨.data, 5⟩] (by decide)⟩

example : PowerLoss2 (syncCalls2 (allSynced2 pSt.disk) pCut) pImg := by
  rw [pSd]
  refine ⟨fun id => if id = 3 then 0 else 1, fun _ => 1, [(3, 5)], ?_, ?_, ?_, rfl⟩
  · intro id
    simp only [SDisk2.dOf, AL.get]
    repeat' split
    all_goals (first | omega | (subst_vars; decide) | simp)
  · intro id
    simp only [SDisk2.hOf, AL.get]
    repeat' split
    all_goals simp_all
  · intro id r
    simp only [dataOf, AL.get]
    repeat' split
    all_goals (first | (subst_vars; simp; try (intro h; subst h; decide)) | simp)

/-- and the image opens to the contents before the merge (the dangling hint entry is ignored) -/
example : (openDisk pImg).1.abs [1] = some [10] ∧ (openDisk pImg).1.abs [2] = some [20] := by
  rw [openDisk_eq_with (by decide)]
  decide

end Store
