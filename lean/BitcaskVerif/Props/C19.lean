/-
  C19 — per-file live/dead accounting matches the files' real contents.

  In every crash-free history (sets, deletes, merge passes over any valid selection and KeyDir
  order, reopen cycles; the configuration may even change between operations) the store's
  per-file counters equal the ground truth `Store.truth` recomputed from the data files and the
  KeyDir: `live` = number of records of the file that are the current value of a key, `dead` and
  `deadBytes` = number and total size of all its other records.  Consequently no counter ever
  underflows and no merge ever copies a mis-addressed record (`St.bad` stays clear).

  Helper lemmas: `Store/ALSum.lean`, `Store/StatsLemmas.lean`, `Store/StatsOps.lean`,
  `Store/StatsTruth.lean`, `Store/DiskWf.lean`, `Store/MergeShape.lean`, `Store/StatsMerge.lean`,
  `Store/StatsReopen.lean`, `Store/AReach.lean` (the reachability predicates `AReach`, `AReachPD` and
  `areach_good`: every reachable state satisfies `Inv`, `AccInv` and `DiskWf`).
-/
import BitcaskVerif.Store.ReachAcc
import BitcaskVerif.Store.SizeOps

namespace Store
open Store.Stats

/-- **C19 (exact, as a finite map).** In every reachable state the counters, looked up at any
    file id, are the ground truth `truth s` looked up at that id. -/
theorem c19_exact {s : St} (h : AReach s) :
    (∀ f, AL.get f s.stats = AL.get f (truth s)) ∧ s.bad = false :=
  let g := areach_good h
  ⟨stats_eq_truth g.inv g.acc g.wf, g.acc.notBad⟩

/-- **C19 (exact, as a list).** The counter list has one entry per file id and is the
    ground-truth list `truth s` up to the order of the files. -/
theorem c19_exact_perm {s : St} (h : AReach s) : s.stats.Perm (truth s) ∧ (AL.keys s.stats).Nodup :=
  let g := areach_good h
  ⟨stats_perm_truth g.inv g.acc g.wf, g.acc.statsNodup⟩

/-- **C19 (exact, file by file).** A file without records has no counters; a file with records
    has exactly the counters `truthFile` recomputes from its records and the KeyDir. -/
theorem c19_exact_file {s : St} (h : AReach s) (f : Nat) :
    AL.get f s.stats =
      (if dataOf s.disk f = [] then none else some (truthFile s.keydir f (dataOf s.disk f))) :=
  let g := areach_good h
  stats_eq_truthFile g.inv g.acc f

/-- **C19 (sets and deletes).** The special case named in the task. -/
theorem c19_exact_put_del {s : St} (h : AReachPD s) :
    (∀ f, AL.get f s.stats = AL.get f (truth s)) ∧ s.bad = false :=
  c19_exact h.reach

/-- **C19 (counting form).** `live` is the number of keys whose current value lives in the file,
    `live + dead` the number of its records, live bytes + `deadBytes` its size. -/
theorem c19_counts {s : St} (h : AReach s) (f : Nat) :
    (statOf s.stats f).live = liveCnt s.keydir f ∧
    (statOf s.stats f).live + (statOf s.stats f).dead = (dataOf s.disk f).length ∧
    liveBytes s.keydir f + (statOf s.stats f).deadBytes = fileSize (dataOf s.disk f) :=
  let a := (areach_good h).acc.files f
  ⟨a.live, a.tot, a.bytes⟩

/-- **C19 (no underflow).** The sticky failure flag — set when `overwrite` meets a counter with
    `live = 0`, or when a merge finds no record (or one of another length) at a KeyDir entry — is
    clear in every reachable state, hence after every prefix of every crash-free history. -/
theorem c19_no_underflow {s : St} (h : AReach s) : s.bad = false := (areach_good h).acc.notBad

/-- … and directly: when a set or delete in a reachable state accounts the key's previous entry,
    the `live` counter of that entry's file is positive at that moment. -/
theorem c19_overwrite_live_pos {s : St} (h : AReach s) (cfg : Cfg) (r : Rec) (k : Key) (p : Loc)
    (hp : AL.get k s.keydir = some p) : overwriteUnderflows (write cfg s r).1.stats p.fid = false := by
  have := FileAcc.no_underfl (areach_good h).acc.files s.active
    (fun st => if r.val.isSome then st.addLive else st.addDead r.len)
    (fun st => by cases r.val <;> simp [Stat.addLive, Stat.addDead]) k
  rw [hp] at this
  rw [write_stats]
  exact this

/-- … and every KeyDir entry of a reachable state addresses a complete value record of its key, of
    the recorded length, in an existing file — so a merge pass never copies a mis-addressed record. -/
theorem c19_entries_addressed {s : St} (h : AReach s) (k : Key) (loc : Loc)
    (hk : AL.get k s.keydir = some loc) : LocOk s.disk k loc := (areach_good h).inv.locs k loc hk

/-- C19 for the operation sequences of C01 -/
theorem c19_exact_run (cfg : Cfg) (ops : List Op) (hv : ValidFrom cfg fresh ops) :
    (∀ f, AL.get f (run cfg fresh ops).1.stats = AL.get f (truth (run cfg fresh ops).1)) ∧
      (run cfg fresh ops).1.bad = false :=
  c19_exact (areach_run cfg ops fresh .fresh hv)

/-- the threshold-driven `merge` (selection = `selectFiles`) is one of the merge passes of `AReach` -/
theorem areach_merge {s : St} (h : AReach s) (cfg : Cfg) (order : List Key) (hcov : Covers order s) :
    AReach (merge cfg s order).1 :=
  let g := areach_good h
  .merge cfg s _ order h (selectFiles_valid cfg g.inv g.acc) hcov

/-! ### non-vacuity: rollover on every write, overwrite across files, delete, partial merge, reopen -/

example : AReach (reopen (run demoCfg fresh demoOps).1).1 :=
  .reopen _ (areach_run demoCfg demoOps fresh .fresh (by
    simp only [demoOps, ValidFrom, and_true, true_and]; decide))

example : (run demoCfg fresh [.put [1] [10], .put [2] [20], .put [1] [11], .del [2]]).1.stats =
    [(0, ⟨0, 1, 27⟩), (1, ⟨0, 1, 27⟩), (2, ⟨1, 0, 0⟩), (3, ⟨0, 1, 18⟩)] := by decide

example : truth (run demoCfg fresh [.put [1] [10], .put [2] [20], .put [1] [11], .del [2]]).1 =
    [(0, ⟨0, 1, 27⟩), (1, ⟨0, 1, 27⟩), (2, ⟨1, 0, 0⟩), (3, ⟨0, 1, 18⟩)] := by decide

/-- after the partial merge of the demo history the counters still are the ground truth -/
example : (run demoCfg fresh demoOps).1.stats = truth (run demoCfg fresh demoOps).1 := by decide

end Store
