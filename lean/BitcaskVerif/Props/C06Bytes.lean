/-
  C06 / C10 / C16 at BYTE level — the connection handler model `serve` (bytes in arbitrary
  segments → store, reply bytes, how the handler ended) against the map model.

  `Props/C06.lean` states C06 on the frames a connection delivers and `Props/C08.lean` shows that
  the frames do not depend on the segmentation; here the two are put together (and extended to
  truncated and to arbitrary input), so that the statements speak about the request BYTES a client
  sends and the reply BYTES it gets back.

  Vocabulary (all defined in `Resp/`):
  * `serve m segs`    — one connection served from its first byte to end of stream; `segs` are the
                        pieces in which the client's bytes arrive (one per `read_buf`), an empty
                        piece is a read that brought nothing new, the end of the list is EOF.
  * `WfCmd c`         — keys are UTF-8 and DEL names at least one key (`Props/C06.lean`).
  * `CmdFits c`       — the size side-condition: every length `write_frame` prints for the request
                        (each key, the value, the item count) is ≤ `i64::MAX`; equivalent to
                        `WfFrame (Cmd.toFrame c)` (`c06_bytes_fits_iff`). It cannot be dropped: a
                        longer length is printed by the client but rejected by `get_integer`.
  * `wire f`          — the bytes `write_frame` writes for `f`; `reqWire reqs` — the bytes a client
                        writes for the requests `reqs`, i.e. `(reqs.map Cmd.toFrame).flatMap wire`.
  * `specReplies m reqs` — final map and reply frames of the map model; `encodeAll` — their bytes.

  No theorem here restricts segments to be non-empty (`c08_stream'` does not need it either).
  Helper lemmas: `Resp/ServeBytes.lean`, `Resp/ServeBytesRead.lean`.
-/
import BitcaskVerif.Resp.ServeBytesRead

namespace Resp

/-! ## C06 — complete, well-formed request streams -/

/-- The size side-condition `CmdFits` says exactly that the request frame is one that
    `write_frame` writes and the peer reads back (`WfFrame`, the hypothesis of C08). -/
theorem c06_bytes_fits_iff (c : Cmd) : CmdFits c ↔ WfFrame (Cmd.toFrame c) :=
  cmdFits_iff_wfFrame c

/-- `reqWire` really is the concatenation of the encodings: every request frame encodes, and
    `reqWire reqs` is the concatenation of those byte strings, in order. -/
theorem c06_bytes_reqWire (reqs : List Cmd) (hfit : ∀ c, c ∈ reqs → CmdFits c) :
    ∃ es : List (List UInt8), (reqs.map Cmd.toFrame).map encode = es.map some ∧
      reqWire reqs = es.flatten := by
  have hw := toFrames_wf reqs hfit
  obtain ⟨es, h1, h2⟩ := encodeAll_whole (reqs.map Cmd.toFrame) (fun f hf => encode_total f (hw f hf))
  exact ⟨es, h1, by rw [← h2, encodeAll_eq_flatMap]; rfl⟩

/-- **C06 at byte level.** Let `reqs` be well-formed requests (that fit on the wire) and let the
    client's bytes — the concatenated encodings of the request frames — arrive in ANY segments
    (any boundaries, pipelined or one request at a time, empty reads allowed), followed by a clean
    end of stream. Then the handler leaves the store exactly as the map model does, writes exactly
    the concatenated encodings of the map model's replies (one per request, in request order) and
    ends with "peer closed". Neither the reply bytes nor the store depend on the segmentation. -/
theorem c06_bytes (m : KV) (reqs : List Cmd) (segs : List (List UInt8))
    (hwf : ∀ c, c ∈ reqs → WfCmd c) (hfit : ∀ c, c ∈ reqs → CmdFits c)
    (h : segs.flatten = (reqs.map Cmd.toFrame).flatMap wire) :
    serve m segs = ((specReplies m reqs).1, encodeAll (specReplies m reqs).2, .peerClosed) := by
  unfold serve
  rw [stream_clean (reqs.map Cmd.toFrame) segs (toFrames_wf reqs hfit) h, List.map_map]
  exact c06_replies m reqs hwf

/-- `c06_bytes` with the encodings named explicitly: `es[i]` is the encoding of request `i` and the
    segments concatenate to `es.flatten`. -/
theorem c06_bytes_enc (m : KV) (reqs : List Cmd) (es segs : List (List UInt8))
    (hwf : ∀ c, c ∈ reqs → WfCmd c) (hfit : ∀ c, c ∈ reqs → CmdFits c)
    (he : (reqs.map Cmd.toFrame).map encode = es.map some) (h : segs.flatten = es.flatten) :
    serve m segs = ((specReplies m reqs).1, encodeAll (specReplies m reqs).2, .peerClosed) :=
  c06_bytes m reqs segs hwf hfit (by rw [h, flatMap_wire_of_map _ es he])

/-- the reply bytes of `c06_bytes` are whole encodings: `rs[i]` is the complete encoding of the
    map model's reply to request `i`, and the handler writes `rs.flatten` -/
theorem c06_bytes_replies_enc (m : KV) (reqs : List Cmd) :
    ∃ rs : List (List UInt8), (specReplies m reqs).2.map encode = rs.map some ∧
      rs.length = reqs.length ∧ encodeAll (specReplies m reqs).2 = rs.flatten := by
  obtain ⟨rs, h1, h2⟩ := encodeAll_whole _ (specReplies_encodes m reqs)
  refine ⟨rs, h1, ?_, h2⟩
  have := congrArg List.length h1
  simpa [specReplies_length] using this.symm

/-- **C06 at byte level (the segmentation is irrelevant).** Two segmentations of the same
    well-formed request byte stream give the same `serve` result: same store, same reply bytes,
    same end. -/
theorem c06_bytes_segmentation_irrelevant (m : KV) (reqs : List Cmd) (segs₁ segs₂ : List (List UInt8))
    (hwf : ∀ c, c ∈ reqs → WfCmd c) (hfit : ∀ c, c ∈ reqs → CmdFits c)
    (h₁ : segs₁.flatten = reqWire reqs) (h₂ : segs₂.flatten = segs₁.flatten) :
    serve m segs₁ = serve m segs₂ := by
  rw [c06_bytes m reqs segs₁ hwf hfit h₁, c06_bytes m reqs segs₂ hwf hfit (h₂.trans h₁)]

/-- in particular: delivered one byte at a time, delivered in one piece (fully pipelined), and
    delivered one request per read all give the same result -/
theorem c06_bytes_bytewise_whole_perreq (m : KV) (reqs : List Cmd)
    (hwf : ∀ c, c ∈ reqs → WfCmd c) (hfit : ∀ c, c ∈ reqs → CmdFits c) :
    serve m ((reqWire reqs).map fun b => [b]) = serve m [reqWire reqs] ∧
      serve m ((reqs.map Cmd.toFrame).map wire) = serve m [reqWire reqs] := by
  constructor
  · exact c06_bytes_segmentation_irrelevant m reqs _ _ hwf hfit (flatten_singletons _) (by simp [flatten_singletons])
  · exact c06_bytes_segmentation_irrelevant m reqs _ _ hwf hfit (by simp [reqWire, List.flatMap_def])
      (by simp [reqWire, List.flatMap_def])

/-! ## C06 — the stream ends inside a request -/

/-- **C06 at byte level (truncated stream), general form.** After the complete well-formed requests
    `reqs` the stream carries only a non-empty strict prefix `p` of the encoding of one more
    well-formed frame `f` (a request or anything else `write_frame` can write) and then ends. For
    every segmentation: the replies are exactly those to `reqs`, the store is the one after `reqs`,
    and the handler ends with "connection reset" — the partial frame is never answered and never
    applied. -/
theorem c06_bytes_prefix_frame (m : KV) (reqs : List Cmd) (f : Frame) (p : List UInt8)
    (segs : List (List UInt8))
    (hwf : ∀ c, c ∈ reqs → WfCmd c) (hfit : ∀ c, c ∈ reqs → CmdFits c)
    (hf : WfFrame f) (hp : p <+: wire f) (hne : p ≠ wire f) (hnil : p ≠ [])
    (h : segs.flatten = (reqs.map Cmd.toFrame).flatMap wire ++ p) :
    serve m segs = ((specReplies m reqs).1, encodeAll (specReplies m reqs).2, .reset) := by
  obtain ⟨e, he⟩ := encode_total f hf
  rw [wire_eq f e he] at hp hne
  unfold serve
  rw [stream_reset (reqs.map Cmd.toFrame) f e p segs (toFrames_wf reqs hfit) hf he hp hne hnil h,
    List.map_map]
  have := serveFrames_reqs_append m reqs [.reset] hwf
  simp only [serveFrames, List.append_nil] at this
  exact this

/-- **C06 at byte level (the stream ends INSIDE a request).** After `reqs.length` complete
    well-formed requests the stream carries a non-empty strict prefix `p` of the encoding of the
    next request `next` and then ends. For every segmentation the reply bytes are exactly the
    encodings of the replies to `reqs` (nothing for `next`), the store is the one after `reqs`
    (`next` is not applied, not even partially), and the handler ends with the model's "connection
    reset" (`HEnd.reset`, `Err(ConnectionReset)` of `read_frame`).
    (With `p = []` the stream ends between requests: that is `c06_bytes`, ending `.peerClosed`.) -/
theorem c06_bytes_prefix (m : KV) (reqs : List Cmd) (next : Cmd) (p : List UInt8)
    (segs : List (List UInt8))
    (hwf : ∀ c, c ∈ reqs → WfCmd c) (hfit : ∀ c, c ∈ reqs → CmdFits c) (hnext : CmdFits next)
    (hp : p <+: wire (Cmd.toFrame next)) (hne : p ≠ wire (Cmd.toFrame next)) (hnil : p ≠ [])
    (h : segs.flatten = (reqs.map Cmd.toFrame).flatMap wire ++ p) :
    serve m segs = ((specReplies m reqs).1, encodeAll (specReplies m reqs).2, .reset) :=
  c06_bytes_prefix_frame m reqs (Cmd.toFrame next) p segs hwf hfit (toFrame_wf next hnext) hp hne hnil h

/-- the truncated stream seen as a prefix of a longer run: cutting the byte stream of
    `reqs ++ next :: more` anywhere strictly inside `next` yields the replies to `reqs` only, and
    they are a prefix of the replies to the whole run -/
theorem c06_bytes_prefix_of_run (m : KV) (reqs more : List Cmd) (next : Cmd) (p : List UInt8)
    (segs : List (List UInt8))
    (hwf : ∀ c, c ∈ reqs → WfCmd c) (hfit : ∀ c, c ∈ reqs → CmdFits c) (hnext : CmdFits next)
    (hp : p <+: wire (Cmd.toFrame next)) (hne : p ≠ wire (Cmd.toFrame next)) (hnil : p ≠ [])
    (h : segs.flatten = reqWire reqs ++ p) :
    (serve m segs).2.1 = encodeAll (specReplies m reqs).2 ∧
      (serve m segs).2.1 <+: encodeAll (specReplies m (reqs ++ next :: more)).2 ∧
      segs.flatten <+: reqWire (reqs ++ next :: more) := by
  rw [c06_bytes_prefix m reqs next p segs hwf hfit hnext hp hne hnil h]
  refine ⟨rfl, ?_, ?_⟩
  · rw [specReplies_append, encodeAll_append]
    exact List.prefix_append _ _
  · obtain ⟨t, ht⟩ := hp
    rw [h, reqWire_append, reqWire_cons, ← ht]
    exact ⟨t ++ reqWire more, by simp⟩

/-- the two cases together: the stream is cut anywhere before the end of `next` (possibly exactly
    between two requests); the handler ends cleanly iff the cut is between requests -/
theorem c06_bytes_cut (m : KV) (reqs : List Cmd) (next : Cmd) (p : List UInt8)
    (segs : List (List UInt8))
    (hwf : ∀ c, c ∈ reqs → WfCmd c) (hfit : ∀ c, c ∈ reqs → CmdFits c) (hnext : CmdFits next)
    (hp : p <+: wire (Cmd.toFrame next)) (hne : p ≠ wire (Cmd.toFrame next))
    (h : segs.flatten = (reqs.map Cmd.toFrame).flatMap wire ++ p) :
    serve m segs = ((specReplies m reqs).1, encodeAll (specReplies m reqs).2,
      if p = [] then .peerClosed else .reset) := by
  by_cases hnil : p = []
  · subst hnil
    simp only [↓reduceIte]
    exact c06_bytes m reqs segs hwf hfit (by simpa using h)
  · simp only [hnil, ↓reduceIte]
    exact c06_bytes_prefix m reqs next p segs hwf hfit hnext hp hne hnil h

/-! ## C06/C10 — well-formed requests followed by anything -/

/-- **Requests sent before garbage are still honoured.** If the byte stream starts with the
    encodings of the well-formed requests `reqs` and continues with ARBITRARY bytes `tail` (garbage,
    a truncated frame, more requests, …), then for every segmentation all of `reqs` are applied and
    answered exactly as the map model says, in order; whatever follows can only add further
    well-formed commands `more` with their replies, and the handler ends without a panic. -/
theorem c06_bytes_then_anything (m : KV) (reqs : List Cmd) (tail : List UInt8)
    (segs : List (List UInt8))
    (hwf : ∀ c, c ∈ reqs → WfCmd c) (hfit : ∀ c, c ∈ reqs → CmdFits c)
    (h : segs.flatten = (reqs.map Cmd.toFrame).flatMap wire ++ tail) :
    ∃ (more : List Cmd) (e : HEnd), (∀ c, c ∈ more → WfCmd c) ∧ e ≠ .panic ∧
      serve m segs =
        ((specReplies m (reqs ++ more)).1, encodeAll (specReplies m (reqs ++ more)).2, e) :=
  serve_reqs_then m reqs tail segs hwf hfit h

/-! ## C10 — arbitrary bytes -/

/-- **Shape of a run on arbitrary bytes.** Whatever bytes arrive in whatever segments, the reader
    loop returns some complete frames `fs` and then exactly one non-frame result `r` (clean end,
    reset, or frame error — never a panic); frame `i` was parsed by `parse_frame` from a buffer
    starting with `chunks[i]`, consuming exactly that chunk, and the chunks are consecutive pieces
    of the byte stream starting at its first byte. -/
theorem c10_bytes_run_shape (segs : List (List UInt8)) :
    ∃ (fs : List Frame) (r : ReadRes) (chunks : List (List UInt8)) (rest : List UInt8),
      readAll segs = fs.map .frame ++ [r] ∧ (∀ f, r ≠ .frame f) ∧ r ≠ .panic ∧
      ParsedFrom fs chunks ∧ segs.flatten = chunks.flatten ++ rest :=
  readAll_shape segs

/-- that decomposition of a run is unique, so the `fs`, `r` of the theorems below are THE frames
    read and THE way reading stopped -/
theorem c10_bytes_run_shape_unique (fs fs' : List Frame) (r r' : ReadRes)
    (hr : ∀ f, r ≠ .frame f) (hr' : ∀ f, r' ≠ .frame f)
    (h : fs.map ReadRes.frame ++ [r] = fs'.map ReadRes.frame ++ [r']) : fs = fs' ∧ r = r' :=
  run_shape_unique fs fs' r r' hr hr' h

/-- **The complete result of `serve` on arbitrary bytes.** If the reader loop returned the frames
    `fs` and then the non-frame result `r`, let `cmds = decodedPrefix fs` be the commands decoded
    from the leading frames up to the first frame that is not a command. Then the store, the reply
    bytes and the end are: the map model's store after `cmds`, the encodings of the map model's
    replies to `cmds`, and "command error" if some frame was not a command, else what `r` says. -/
theorem c10_bytes_serve (m : KV) (segs : List (List UInt8)) (fs : List Frame) (r : ReadRes)
    (hrun : readAll segs = fs.map .frame ++ [r]) (hr : ∀ f, r ≠ .frame f) :
    serve m segs =
      ((specReplies m (decodedPrefix fs)).1, encodeAll (specReplies m (decodedPrefix fs)).2,
        match firstCmdErr fs with
        | some e => .cmdError e
        | none => endOf r) := by
  unfold serve
  rw [hrun]
  exact serveFrames_run m fs r hr

/-- **C10 at byte level (stored data changes only through well-formed SET and DEL, and we can say
    which).** For ARBITRARY segments (any bytes at all): the reader loop returned complete frames
    `fs` and then a non-frame result `r`; `cmds` are the commands decoded from the leading frames of
    `fs` — the first `cmds.length` frames are precisely the request frames of `cmds`, every one of
    them a well-formed command, and the next frame, if there is one, is rejected by
    `Command::try_from`. The final store is the initial one with the SETs and DELs among `cmds`
    applied in order (GETs change nothing); nothing after the first malformed frame, unknown command
    or truncated frame has any effect. This names the `goodPrefix` of `c10_store`. -/
theorem c10_bytes_store (m : KV) (segs : List (List UInt8)) :
    ∃ (fs : List Frame) (r : ReadRes) (cmds : List Cmd),
      readAll segs = fs.map .frame ++ [r] ∧ (∀ f, r ≠ .frame f) ∧ r ≠ .panic ∧
      cmds = decodedPrefix fs ∧ cmds = goodPrefix (readAll segs) ∧
      fs.take cmds.length = cmds.map Cmd.toFrame ∧
      (∀ h : cmds.length < fs.length, ∃ e, Cmd.ofFrame fs[cmds.length] = .error e) ∧
      (∀ c, c ∈ cmds → WfCmd c) ∧
      (∀ c, c ∈ cmds.filter Cmd.isWrite → (∃ k v, c = .set k v) ∨ (∃ ks, c = .del ks)) ∧
      (serve m segs).1 = (cmds.filter Cmd.isWrite).foldl (fun m c => (applyCmd m c).1) m ∧
      (serve m segs).1 = cmds.foldl (fun m c => (applyCmd m c).1) m := by
  obtain ⟨fs, r, _, _, hrun, hr, hnp, _, _⟩ := readAll_shape segs
  obtain ⟨h1, h2, h3, _⟩ := decodedPrefix_spec fs
  have hs := c10_bytes_serve m segs fs r hrun hr
  have hst : (serve m segs).1 = applyAll m (decodedPrefix fs) := by
    rw [hs]; exact specReplies_fst m _
  refine ⟨fs, r, decodedPrefix fs, hrun, hr, hnp, rfl, ?_, h1, ?_, h2, ?_, ?_, hst⟩
  · rw [hrun, goodPrefix_frames fs r hr]
  · intro h
    obtain ⟨e, he, _⟩ := h3 h
    exact ⟨e, he⟩
  · intro c hc
    exact (isWrite_iff c).mp (List.mem_filter.mp hc).2
  · rw [hst, applyAll_filter_writes]; rfl

/-- the statement of `c10_bytes_store` with everything but the store forgotten: the final store is
    the initial one after a sequence of well-formed SET / DEL commands -/
theorem c10_bytes_store_writes (m : KV) (segs : List (List UInt8)) :
    ∃ cmds : List Cmd,
      (∀ c, c ∈ cmds → WfCmd c ∧ ((∃ k v, c = .set k v) ∨ (∃ ks, c = .del ks))) ∧
      (serve m segs).1 = cmds.foldl (fun m c => (applyCmd m c).1) m := by
  obtain ⟨_, _, cmds, _, _, _, _, _, _, _, hwf, hw, hst, _⟩ := c10_bytes_store m segs
  exact ⟨cmds.filter Cmd.isWrite, fun c hc => ⟨hwf c (List.mem_filter.mp hc).1, hw c hc⟩, hst⟩

/-! ## C16 — replies are never torn -/

/-- **C16 at byte level (the handler never emits part of a reply).** Whatever the input — any
    bytes, any segmentation, ended anywhere — the reply byte string `serve` produces is the
    concatenation `bs.flatten` of COMPLETE encodings `bs[i]` of reply frames `frames[i]`.
    Moreover these frames are exactly the map model's replies to the commands the handler applied
    (`goodPrefix`, the commands of `c10_bytes_store`), so there is one whole reply per applied
    command — nothing for a command that was not applied, and no command applied without its
    reply — and every one of them is `+OK`, a bulk string, null or a non-negative integer. -/
theorem c16_bytes_whole_replies (m : KV) (segs : List (List UInt8)) :
    ∃ (frames : List Frame) (bs : List (List UInt8)),
      frames.map encode = bs.map some ∧ (serve m segs).2.1 = bs.flatten ∧
      frames = (specReplies m (goodPrefix (readAll segs))).2 ∧
      frames.length = (goodPrefix (readAll segs)).length ∧
      (∀ f, f ∈ frames → IsReply f) ∧
      (serve m segs).1 = (specReplies m (goodPrefix (readAll segs))).1 := by
  obtain ⟨h1, h2⟩ := serveFrames_spec m (readAll segs) (readAll_no_panic segs)
  obtain ⟨bs, h3, h4⟩ := encodeAll_whole _ (specReplies_encodes m (goodPrefix (readAll segs)))
  exact ⟨_, bs, h3, by unfold serve; rw [h2, h4], rfl, specReplies_length _ _,
    specReplies_isReply _ _, h1⟩

/-- the plain form: the reply bytes are a concatenation of complete encodings of frames -/
theorem c16_bytes_whole_replies_plain (m : KV) (segs : List (List UInt8)) :
    ∃ frames : List Frame, (∀ f, f ∈ frames → ∃ b, encode f = some b) ∧
      (serve m segs).2.1 = (frames.map wire).flatten := by
  obtain ⟨h1, h2⟩ := serveFrames_spec m (readAll segs) (readAll_no_panic segs)
  refine ⟨_, specReplies_encodes m (goodPrefix (readAll segs)), ?_⟩
  unfold serve
  rw [h2, encodeAll_eq_flatMap, List.flatMap_def]

/-! ## non-vacuity -/

namespace C06BytesEx

/-- `SET a 1`, `GET a`, `DEL a a` -/
def exReqs : List Cmd := [.set [97] [49], .get [97], .del [[97], [97]]]

/-- `*3\r\n$3\r\nSET\r\n$1\r\na\r\n$1\r\n1\r\n` `*2\r\n$3\r\nGET\r\n$1\r\na\r\n`
    `*3\r\n$3\r\nDEL\r\n$1\r\na\r\n$1\r\na\r\n` -/
def exBytes : List UInt8 :=
  [42, 51, 13, 10, 36, 51, 13, 10, 83, 69, 84, 13, 10, 36, 49, 13, 10, 97, 13, 10, 36, 49, 13, 10, 49, 13, 10,
   42, 50, 13, 10, 36, 51, 13, 10, 71, 69, 84, 13, 10, 36, 49, 13, 10, 97, 13, 10,
   42, 51, 13, 10, 36, 51, 13, 10, 68, 69, 76, 13, 10, 36, 49, 13, 10, 97, 13, 10, 36, 49, 13, 10, 97, 13, 10]

/-- `+OK\r\n` `$1\r\n1\r\n` `:1\r\n` -/
def exReplies : List UInt8 := [43, 79, 75, 13, 10, 36, 49, 13, 10, 49, 13, 10, 58, 49, 13, 10]

end C06BytesEx
open C06BytesEx

example : ∀ c, c ∈ exReqs → WfCmd c := by decide
example : ∀ c, c ∈ exReqs → CmdFits c := by decide
example : reqWire exReqs = exBytes := by decide +kernel
example : (reqs : List Cmd) → reqs = exReqs → (reqs.map Cmd.toFrame).flatMap wire = exBytes := by
  intro reqs h; subst h; decide +kernel
example : encodeAll (specReplies KV.empty exReqs).2 = exReplies := by decide +kernel

/-- hypotheses of `c06_bytes` are met by `SET a 1 / GET a / DEL a a` split byte by byte; the
    replies are `+OK`, `$1 1`, `:1`, the handler ends cleanly and `a` is gone from the store -/
example : serve KV.empty (exBytes.map fun b => [b]) =
    ((specReplies KV.empty exReqs).1, exReplies, .peerClosed) := by
  have := c06_bytes KV.empty exReqs (exBytes.map fun b => [b]) (by decide) (by decide)
    (by decide +kernel)
  rw [this]
  exact congrArg (fun x => ((specReplies KV.empty exReqs).1, x, HEnd.peerClosed))
    (by decide +kernel : encodeAll (specReplies KV.empty exReqs).2 = exReplies)

example : (specReplies KV.empty exReqs).1 [97] = none := by decide

/-- the same stream in three uneven pieces with empty reads in between, via
    `c06_bytes_segmentation_irrelevant` -/
example : serve KV.empty [exBytes.take 5, [], (exBytes.drop 5).take 40, [], [], exBytes.drop 45] =
    serve KV.empty (exBytes.map fun b => [b]) :=
  c06_bytes_segmentation_irrelevant KV.empty exReqs _ _ (by decide) (by decide)
    (by decide +kernel) (by decide +kernel)

/-- hypotheses of `c06_bytes_prefix` are met: `SET a 1` complete, then the first 9 bytes
    `*2\r\n$3\r\nG` of `GET a`, byte by byte: one `+OK`, then connection reset, `a ↦ 1` stored -/
example : serve KV.empty ((exBytes.take 36).map fun b => [b]) =
    ((specReplies KV.empty [.set [97] [49]]).1, [43, 79, 75, 13, 10], .reset) := by
  have := c06_bytes_prefix KV.empty [.set [97] [49]] (.get [97]) ((exBytes.drop 27).take 9)
    ((exBytes.take 36).map fun b => [b]) (by decide) (by decide) (by decide)
    (by decide +kernel) (by decide +kernel) (by decide +kernel) (by decide +kernel)
  rw [this]
  exact congrArg (fun x => ((specReplies KV.empty [Cmd.set [97] [49]]).1, x, HEnd.reset))
    (by decide +kernel : encodeAll (specReplies KV.empty [Cmd.set [97] [49]]).2 = [43, 79, 75, 13, 10])

example : (specReplies KV.empty [.set [97] [49]]).1 [97] = some [49] := by decide

/-- arbitrary input (C10, C16): `SET a 1`, then `GET` with two keys (not a command), then garbage.
    Only the SET is applied, only its reply is written (whole), the handler ends with a command
    error; computed directly on the model. -/
example : (serve KV.empty [exBytes.take 27 ++
      [42, 51, 13, 10, 36, 51, 13, 10, 71, 69, 84, 13, 10, 36, 49, 13, 10, 97, 13, 10, 36, 49, 13, 10, 98, 13, 10],
      [33, 33, 13, 10]]).2 = ([43, 79, 75, 13, 10], .cmdError .badArgs) := by
  decide +kernel

/-- garbage right away: nothing applied, nothing written, frame error -/
example : (serve KV.empty [[33], [33, 13, 10]]).2 = ([], .frameError .badEncoding) := by
  decide +kernel

/-- hypotheses of `c06_bytes_cut` are met with the cut exactly between `SET a 1` and `GET a` -/
example : (serve KV.empty [exBytes.take 20, exBytes.drop 20 |>.take 7]).2.2 = .peerClosed := by
  have := c06_bytes_cut KV.empty [.set [97] [49]] (.get [97]) [] [exBytes.take 20, exBytes.drop 20 |>.take 7]
    (by decide) (by decide) (by decide) (by decide +kernel) (by decide +kernel) (by decide +kernel)
  rw [this]; rfl

/-- hypotheses of `c06_bytes_then_anything` are met: `SET a 1` followed by the garbage `!!\r\n`,
    split in the middle of the SET -/
example : ∃ (more : List Cmd) (e : HEnd), (∀ c, c ∈ more → WfCmd c) ∧ e ≠ .panic ∧
    serve KV.empty [exBytes.take 11, (exBytes.drop 11).take 16 ++ [33, 33, 13, 10]] =
      ((specReplies KV.empty ([.set [97] [49]] ++ more)).1,
        encodeAll (specReplies KV.empty ([.set [97] [49]] ++ more)).2, e) :=
  c06_bytes_then_anything KV.empty [.set [97] [49]] [33, 33, 13, 10] _ (by decide) (by decide)
    (by decide +kernel)

/-- hypotheses of `c10_bytes_serve` are met: the stream `+OK\r\n$-` (a frame that is not a command,
    then a truncated frame) read as `[frame +OK, reset]` (by `c08_eof_inside`): nothing applied,
    nothing written, command error -/
example : serve KV.empty [[43, 79], [75, 13, 10, 36, 45]] = (KV.empty, [], .cmdError .badFrame) :=
  c10_bytes_serve KV.empty [[43, 79], [75, 13, 10, 36, 45]] [.simple [79, 75]] .reset
    (stream_reset [.simple [79, 75]] .null [36, 45, 49, 13, 10] [36, 45] _
      (by decide) (by decide) (by decide) (by decide) (by decide) (by decide) (by decide))
    (by simp)

/-- hypotheses of `c06_bytes_enc` are met: the three encodings named one by one, the stream cut
    at two arbitrary places -/
example : (serve KV.empty [exBytes.take 30, (exBytes.drop 30).take 1, exBytes.drop 31]).2 =
    (exReplies, .peerClosed) := by
  have := c06_bytes_enc KV.empty exReqs [exBytes.take 27, (exBytes.drop 27).take 20, exBytes.drop 47]
    [exBytes.take 30, (exBytes.drop 30).take 1, exBytes.drop 31] (by decide) (by decide)
    (by decide +kernel) (by decide +kernel)
  rw [this]
  exact congrArg (fun x => (x, HEnd.peerClosed))
    (by decide +kernel : encodeAll (specReplies KV.empty exReqs).2 = exReplies)

/-- `c06_bytes_bytewise_whole_perreq` on the example requests -/
example : serve KV.empty ((reqWire exReqs).map fun b => [b]) = serve KV.empty [reqWire exReqs] :=
  (c06_bytes_bytewise_whole_perreq KV.empty exReqs (by decide) (by decide)).1

/-- hypotheses of `c06_bytes_prefix_frame` are met: `SET a 1`, then `$-` (the stream ends inside
    the encoding of a null, which is not even a request) -/
example : serve KV.empty [exBytes.take 27 ++ [36], [45]] =
    ((specReplies KV.empty [.set [97] [49]]).1, encodeAll (specReplies KV.empty [.set [97] [49]]).2, .reset) :=
  c06_bytes_prefix_frame KV.empty [.set [97] [49]] .null [36, 45] _ (by decide) (by decide) (by decide)
    (by decide +kernel) (by decide +kernel) (by decide) (by decide +kernel)

/-- hypotheses of `c06_bytes_prefix_of_run` are met: the example stream cut 5 bytes into `GET a` -/
example : (serve KV.empty [exBytes.take 32]).2.1 <+: exReplies := by
  have := (c06_bytes_prefix_of_run KV.empty [.set [97] [49]] [.del [[97], [97]]] (.get [97])
    ((exBytes.drop 27).take 5) [exBytes.take 32] (by decide) (by decide) (by decide)
    (by decide +kernel) (by decide +kernel) (by decide +kernel) (by decide +kernel)).2.1
  rw [show exReplies = encodeAll (specReplies KV.empty exReqs).2 by decide +kernel]
  exact this

/-- hypotheses of `c10_bytes_run_shape_unique` are met -/
example : ([Frame.null].map ReadRes.frame ++ [ReadRes.reset] = [Frame.null].map ReadRes.frame ++ [ReadRes.reset]) ∧
    (∀ f, ReadRes.reset ≠ .frame f) := ⟨rfl, by simp⟩

/-- `CmdFits` and `WfCmd` are not trivially true -/
example : ¬ WfCmd (.del []) := by decide
example : ¬ WfCmd (.get [0xFF]) := by decide

end Resp
