/-
  C14 — data and hint files are append-only and immutable, ids only grow.

  The model's call alphabet (`Call.create / append / fsync / unlink`) is what encodes "never
  truncated, renamed or reopened for writing"; the correspondence checks that the real code issues
  nothing else.  The theorems below are about the effect trace of every run of the model
  (put / delete / get / merge with any selection up to the active id and any iteration order /
  reopen), from a freshly created store or from any state satisfying the id invariant `IdInv`.
-/
import BitcaskVerif.Store.TraceExplicit

namespace Store
open Store.Tr
/-- **C14 (monitor form).** From every state satisfying the id invariant, the trace monitor accepts
    the annotated trace of every valid run: all three verdicts stay `true`, and at the end the
    bound (one above the largest id ever used) is one above the active id, whose file exists. -/
theorem c14_monitor (cfg : Cfg) (s : St) (ops : List TOp) (h : IdInv s) (hv : ValidC cfg s ops) :
    ((Mon.start s.active).run (evsOf cfg s ops)).okFresh = true ∧
    ((Mon.start s.active).run (evsOf cfg s ops)).okOwn = true ∧
    ((Mon.start s.active).run (evsOf cfg s ops)).okTop = true ∧
    ((Mon.start s.active).run (evsOf cfg s ops)).bound = (runC cfg s ops).active + 1 ∧
    (AL.get (runC cfg s ops).active (runC cfg s ops).disk.data).isSome :=
  trace_monitor cfg s ops h hv

/-- **C14 (fresh ids, data files).** Every `create` of a data file in the trace uses an id greater
    than every data and hint id present at the start and greater than the id of every file created
    earlier in the trace. -/
theorem c14_fresh_id (cfg : Cfg) (s : St) (ops : List TOp) (h : IdInv s) (hv : ValidC cfg s ops)
    (pre post : List Call) (id : Nat) (ht : traceOf cfg s ops = pre ++ Call.create ⟨.data, id⟩ :: post) :
    (∀ id0, id0 ∈ AL.keys s.disk.data → id0 < id) ∧ (∀ id0, id0 ∈ AL.keys s.disk.hint → id0 < id) ∧
    (∀ g, Call.create g ∈ pre → g.id < id) :=
  trace_fresh_id cfg s ops h hv pre post id ht

/-- **C14 (fresh ids, hint files).** Every `create` of a hint file directly follows the `create`
    of the data file with the same id (so, by `c14_fresh_id`, that id is fresh as well). -/
theorem c14_fresh_hint (cfg : Cfg) (s : St) (ops : List TOp) (h : IdInv s) (hv : ValidC cfg s ops)
    (pre post : List Call) (id : Nat) (ht : traceOf cfg s ops = pre ++ Call.create ⟨.hint, id⟩ :: post) :
    ∃ pre', pre = pre' ++ [Call.create ⟨.data, id⟩] :=
  trace_fresh_hint cfg s ops h hv pre post id ht

/-- the id of a created hint file is fresh too: above every id present at the start and above the
    id of every file created before its data file -/
theorem c14_fresh_hint_id (cfg : Cfg) (s : St) (ops : List TOp) (h : IdInv s) (hv : ValidC cfg s ops)
    (pre post : List Call) (id : Nat) (ht : traceOf cfg s ops = pre ++ Call.create ⟨.hint, id⟩ :: post) :
    ∃ pre', pre = pre' ++ [Call.create ⟨.data, id⟩] ∧
      (∀ id0, id0 ∈ AL.keys s.disk.data → id0 < id) ∧ (∀ id0, id0 ∈ AL.keys s.disk.hint → id0 < id) ∧
      (∀ g, Call.create g ∈ pre' → g.id < id) :=
  trace_fresh_hint_id cfg s ops h hv pre post id ht

/-- **C14 (own appends).** In the trace that starts with the creation of the active file of the
    current life, every `append f` is preceded, since the last restart, by `create f` and by no
    `unlink f`: a file is only ever extended by the process that created it, and never after it
    was removed. -/
theorem c14_appends_own (cfg : Cfg) (s : St) (ops : List TOp) (h : IdInv s) (hv : ValidC cfg s ops)
    (pre post : List TEv) (f : FName) (p : Payload)
    (ht : TEv.call (.create ⟨.data, s.active⟩) :: evsOf cfg s ops = pre ++ TEv.call (.append f p) :: post) :
    TEv.call (.create f) ∈ lastLife pre ∧ TEv.call (.unlink f) ∉ lastLife pre :=
  trace_appends_own cfg s ops h hv pre post f p ht

/-- the same under the name used in DESIGN.md -/
theorem c14_own_appends (cfg : Cfg) (s : St) (ops : List TOp) (h : IdInv s) (hv : ValidC cfg s ops)
    (pre post : List TEv) (f : FName) (p : Payload)
    (ht : TEv.call (.create ⟨.data, s.active⟩) :: evsOf cfg s ops = pre ++ TEv.call (.append f p) :: post) :
    TEv.call (.create f) ∈ lastLife pre ∧ TEv.call (.unlink f) ∉ lastLife pre :=
  trace_appends_own cfg s ops h hv pre post f p ht

/-- **C14 (the largest id is never removed).** Every `unlink f` in the trace removes a file whose id
    is below the active id at the start or below the id of a file created earlier in the trace:
    the file with the largest id ever used stays in the directory, so `max + 1` at any later
    open is fresh. -/
theorem c14_top_never_removed (cfg : Cfg) (s : St) (ops : List TOp) (h : IdInv s) (hv : ValidC cfg s ops)
    (pre post : List TEv) (f : FName) (ht : evsOf cfg s ops = pre ++ TEv.call (.unlink f) :: post) :
    f.id < s.active ∨ ∃ g, TEv.call (.create g) ∈ pre ∧ f.id < g.id :=
  trace_top_never_removed cfg s ops h hv pre post f ht

/-- **C14 (exclusive creation).** No file name is created twice in a trace, and no created name
    has an id that was in the directory at the start: every `create` is the creation of a new
    file. -/
theorem c14_create_once (cfg : Cfg) (s : St) (ops : List TOp) (h : IdInv s) (hv : ValidC cfg s ops)
    (pre post : List Call) (f : FName) (ht : traceOf cfg s ops = pre ++ Call.create f :: post) :
    Call.create f ∉ pre ∧ f.id ∉ AL.keys s.disk.data ∧ f.id ∉ AL.keys s.disk.hint :=
  trace_create_once cfg s ops h hv pre post f ht

/-- **C14 (crashes).** At every call boundary of a run — wherever a crash may cut it — the
    directory (the data-file ids at the start, plus those created, minus those unlinked so far)
    contains a data file `top` whose id is at least every id in the directory, every id created
    so far and every id present at the start.  Whatever the crash leaves of the file contents, the
    next open therefore chooses `top + 1`, greater than every id ever used. -/
theorem c14_crash_top (cfg : Cfg) (s : St) (ops : List TOp) (h : IdInv s) (hv : ValidC cfg s ops)
    (pre post : List TEv) (ht : evsOf cfg s ops = pre ++ post) :
    ∃ top, top ∈ dirAfter (AL.keys s.disk.data) pre ∧
      (∀ x, x ∈ dirAfter (AL.keys s.disk.data) pre → x ≤ top) ∧
      (∀ g, TEv.call (.create g) ∈ pre → g.id ≤ top) ∧
      (∀ id0, id0 ∈ AL.keys s.disk.data → id0 ≤ top) ∧ (∀ id0, id0 ∈ AL.keys s.disk.hint → id0 ≤ top) :=
  trace_crash_top cfg s ops h hv pre post ht

/-! ### from a freshly created store (`fullEvs`: the trace starts with the `create` of file 0) -/

/-- `c14_fresh_id` for runs from the fresh store: every created data file has an id above 0 (the
    id of the file present at the start) and above every id created earlier -/
theorem c14_fresh_id_fresh (cfg : Cfg) (ops : List TOp) (hv : ValidC cfg fresh ops)
    (pre post : List Call) (id : Nat) (ht : traceOf cfg fresh ops = pre ++ Call.create ⟨.data, id⟩ :: post) :
    0 < id ∧ ∀ g, Call.create g ∈ pre → g.id < id :=
  ⟨(trace_fresh_id cfg fresh ops fresh_idinv hv pre post id ht).1 0 (by simp [fresh, AL.keys]),
   (trace_fresh_id cfg fresh ops fresh_idinv hv pre post id ht).2.2⟩

/-- **C14 from an empty directory**: ids are fresh over the whole history, including the very
    first file. -/
theorem c14_fresh_id_full (cfg : Cfg) (ops : List TOp) (hv : ValidC cfg fresh ops)
    (pre post : List TEv) (id : Nat) (ht : fullEvs cfg ops = pre ++ TEv.call (.create ⟨.data, id⟩) :: post) :
    ∀ g, TEv.call (.create g) ∈ pre → g.id < id :=
  trace_fresh_id_full cfg ops hv pre post id ht

theorem c14_appends_own_full (cfg : Cfg) (ops : List TOp) (hv : ValidC cfg fresh ops)
    (pre post : List TEv) (f : FName) (p : Payload)
    (ht : fullEvs cfg ops = pre ++ TEv.call (.append f p) :: post) :
    TEv.call (.create f) ∈ lastLife pre ∧ TEv.call (.unlink f) ∉ lastLife pre :=
  trace_appends_own_full cfg ops hv pre post f p ht

/-! ### sizes (`Reach`: states reachable from a fresh store by valid runs, reopen included) -/

/-- **C14 (size bound).** In every reachable state — i.e. at the start of every write — the byte
    counter is at most the configured maximum and is the real length of the active file, which has
    no crash tail; so a data file exceeds the maximum by at most the one entry that triggers the
    rollover. -/
theorem c14_size_bound (cfg : Cfg) (s : St) (h : Reach cfg s) :
    s.written ≤ cfg.maxFile ∧ s.written = fileSize (dataOf s.disk s.active) ∧
      (AL.get s.active s.disk.tails).getD 0 = 0 :=
  trace_size_bound cfg s h

/-- the same under the name used in DESIGN.md -/
theorem c14_size (cfg : Cfg) (s : St) (h : Reach cfg s) :
    s.written ≤ cfg.maxFile ∧ s.written = fileSize (dataOf s.disk s.active) ∧
      (AL.get s.active s.disk.tails).getD 0 = 0 := trace_size_bound cfg s h

/-- the same from any state satisfying the invariants (e.g. after recovery) -/
theorem c14_size_bound_from (cfg : Cfg) (s : St) (ops : List TOp) (h : IdInv s) (hs : SzInv cfg s)
    (hv : ValidC cfg s ops) :
    (runC cfg s ops).written ≤ cfg.maxFile ∧
      (runC cfg s ops).written = fileSize (dataOf (runC cfg s ops).disk (runC cfg s ops).active) ∧
      (AL.get (runC cfg s ops).active (runC cfg s ops).disk.tails).getD 0 = 0 :=
  trace_size_bound_from cfg s ops h hs hv

/-- **C14 (merge outputs).** Before every copy of a merge pass the bytes written to the current
    output are at most the configured maximum. -/
theorem c14_merge_output_bound (cfg : Cfg) (s : St) (sel : List Nat) (order ks1 ks2 : List Key) (k : Key)
    (_hk : order = ks1 ++ k :: ks2) :
    (ks1.foldl (mergeStep cfg sel) (mergeInit s)).mpos ≤ cfg.maxFile :=
  trace_merge_output_bound cfg s sel order ks1 ks2 k _hk

/-- **C14 (no file grows beyond the maximum by more than one entry).** After every history of
    put / delete / get / merge from a fresh store, every data file in the directory — active,
    rolled over, or merge output — is at most `maxFile` bytes long without its last entry. -/
theorem c14_size_all (cfg : Cfg) (ops : List Op) (hv : ValidFrom cfg fresh ops)
    (id : Nat) (rs : List Rec) (hf : AL.get id (run cfg fresh ops).1.disk.data = some rs) :
    fileSize rs.dropLast ≤ cfg.maxFile :=
  trace_size_all cfg ops hv id rs hf

/-- the same from any state that satisfies the invariants, e.g. a recovered one -/
theorem c14_size_all_from (cfg : Cfg) (s : St) (ops : List Op) (h : Inv s) (hs : SzInv cfg s)
    (ha : AllSz cfg s.disk.data) (hv : ValidFrom cfg s ops) : AllSz cfg (run cfg s ops).1.disk.data :=
  trace_size_all_from cfg s ops h hs ha hv

/- With `reopen` in the history the statement of `c14_size_all` needs `Inv` after the reopen (the
   startup scan rebuilds a valid index: the recovery theory, not part of this task): a merge copies
   `loc.len` bytes per entry and the bound on its outputs uses that this is the record's length.
   `stepC_allSz` is the per-operation form that only asks for `Inv` at the start of each merge;
   `reopen` itself keeps `AllSz` and `SzInv` unconditionally (`reopen_allSz`, `reopen_sz`). -/

/-! ### across failed writes (the fault model of C20) -/

/-- **C14 across faults.** The same holds when any of the writes of a run fails with any of the
    faults of `Store/FaultModel.lean` (the writer then continues in a fresh file `active + 1`, or
    in the same file): ids are fresh, hint files follow their data files, every append goes to a
    file created in the same life and not removed, the newest file is never removed. -/
theorem c14_faults (cfg : Cfg) (s : St) (ops : List XOp) (h : IdInv s) (hv : ValidX cfg s ops) :
    (∀ pre post id, TEv.call (.create ⟨.data, s.active⟩) :: evsOfX cfg s ops = pre ++ TEv.call (.create ⟨.data, id⟩) :: post →
      ∀ g, TEv.call (.create g) ∈ pre → g.id < id) ∧
    (∀ pre post id, TEv.call (.create ⟨.data, s.active⟩) :: evsOfX cfg s ops = pre ++ TEv.call (.create ⟨.hint, id⟩) :: post →
      ∃ pre', pre = pre' ++ [TEv.call (.create ⟨.data, id⟩)]) ∧
    (∀ pre post f p, TEv.call (.create ⟨.data, s.active⟩) :: evsOfX cfg s ops = pre ++ TEv.call (.append f p) :: post →
      TEv.call (.create f) ∈ lastLife pre ∧ TEv.call (.unlink f) ∉ lastLife pre) ∧
    (∀ pre post f, TEv.call (.create ⟨.data, s.active⟩) :: evsOfX cfg s ops = pre ++ TEv.call (.unlink f) :: post →
      ∃ g, TEv.call (.create g) ∈ pre ∧ f.id < g.id) ∧
    IdInv (runX cfg s ops) :=
  trace_faults cfg s ops h hv

/-! ### non-vacuity -/

def c14Cfg : Cfg := { maxFile := 60 }
def c14Ops : List TOp :=
  [.put 1 [1] [10], .put 2 [2] [20], .put 3 [1] [11], .del 4 [2], .merge [0, 1] [[1], [2]],
   .put 5 [3] [30], .reopen, .put 6 [4] [40]]

example : ValidC c14Cfg fresh c14Ops := by
  simp only [c14Ops, ValidC, and_true, true_and]
  decide

example : traceOf c14Cfg fresh (c14Ops.take 6) =
    [.append ⟨.data, 0⟩ (.ofRec ⟨1, [1], some [10]⟩), .append ⟨.data, 0⟩ (.ofRec ⟨2, [2], some [20]⟩),
     .append ⟨.data, 0⟩ (.ofRec ⟨3, [1], some [11]⟩), .create ⟨.data, 1⟩,
     .append ⟨.data, 1⟩ (.ofRec ⟨4, [2], none⟩),
     .create ⟨.data, 2⟩, .create ⟨.hint, 2⟩,
     .append ⟨.data, 2⟩ (.ofRec ⟨3, [1], some [11]⟩), .append ⟨.hint, 2⟩ (.ofHint ⟨3, 27, 0, [1]⟩),
     .fsync ⟨.data, 2⟩, .fsync ⟨.hint, 2⟩, .unlink ⟨.data, 0⟩, .unlink ⟨.data, 1⟩, .create ⟨.data, 3⟩,
     .append ⟨.data, 3⟩ (.ofRec ⟨5, [3], some [30]⟩)] := by decide

/-- the monitor accepts the demo trace ... -/
example : ((({} : Mon).run (TEv.call (.create ⟨.data, 0⟩) :: evsOf c14Cfg fresh (c14Ops.take 6))).okFresh,
           (({} : Mon).run (TEv.call (.create ⟨.data, 0⟩) :: evsOf c14Cfg fresh (c14Ops.take 6))).okOwn,
           (({} : Mon).run (TEv.call (.create ⟨.data, 0⟩) :: evsOf c14Cfg fresh (c14Ops.take 6))).okTop,
           (({} : Mon).run (TEv.call (.create ⟨.data, 0⟩) :: evsOf c14Cfg fresh (c14Ops.take 6))).bound)
    = (true, true, true, 4) := by decide

/-- ... and rejects a reused id, a hint file without its data file, an append to a file of an
    earlier life, an append after unlink, and the removal of the newest file -/
example : (({} : Mon).run [.call (.create ⟨.data, 1⟩), .call (.create ⟨.data, 1⟩)]).okFresh = false := by decide
example : (({} : Mon).run [.call (.create ⟨.data, 1⟩), .call (.create ⟨.hint, 2⟩)]).okFresh = false := by decide
example : (({} : Mon).run [.call (.create ⟨.data, 1⟩), .restart, .call (.append ⟨.data, 1⟩ (.raw []))]).okOwn = false := by
  decide
example : (({} : Mon).run [.call (.create ⟨.data, 1⟩), .call (.unlink ⟨.data, 1⟩),
    .call (.append ⟨.data, 1⟩ (.raw []))]).okOwn = false := by decide
example : (({} : Mon).run [.call (.create ⟨.data, 1⟩), .call (.unlink ⟨.data, 1⟩)]).okTop = false := by decide

end Store
