/-
  C15 — the connection limit holds and slots are never leaked.
  Theorems over the `ConnLimit` transition system, for every sequence of connections opening and
  ending in every way (clean close, protocol error, handler panic, server-side close), in any overlap.
-/
import BitcaskVerif.Conc.ConnLimit
import BitcaskVerif.Conc.AcceptBackoff

namespace ConnLimit

/-- **C15 (accounting).** In every reachable state each of the `max` permits is free, held by the
    listener waiting in `accept`, or owned by exactly one running handler. -/
theorem c15_inv (max : Nat) (es : List Ev) (s : St) (h : run (init max) es = some s) :
    s.permits + s.handlers.length + (if s.holding then 1 else 0) = max := by
  have := run_inv es (inv_init max) h
  have hm := run_max es h
  unfold Inv at this
  rw [this, hm]; rfl

/-- **C15 (bound).** At no time are more than `max` connections being served. -/
theorem c15_bound (max : Nat) (es : List Ev) (s : St) (h : run (init max) es = some s) :
    s.handlers.length ≤ max := by
  have := c15_inv max es s h
  omega

/-- **C15 (no leak).** Whenever every handler has ended — whatever the causes were — all `max`
    permits are available again (free, or already taken by the listener for the next accept). -/
theorem c15_no_leak (max : Nat) (es : List Ev) (s : St) (h : run (init max) es = some s)
    (hnone : s.handlers = []) : s.permits + (if s.holding then 1 else 0) = max := by
  have := c15_inv max es s h
  simp [hnone] at this
  exact this

/-- **C15 (the freed slots are usable).** While fewer than `max` connections are served and a
    client is waiting, the listener can make a step (take a permit, or accept): a waiting client
    is never locked out by connections that came and went earlier. -/
theorem c15_progress (max : Nat) (es : List Ev) (s : St) (h : run (init max) es = some s)
    (hlt : s.handlers.length < max) (hp : s.pending ≠ []) :
    (step s .acquire).isSome ∨ (step s .accept).isSome := by
  have hi := c15_inv max es s h
  cases hh : s.holding with
  | true =>
    right
    simp only [step, hh, ↓reduceIte]
    cases hpd : s.pending with
    | nil => exact absurd hpd hp
    | cons c rest => simp
  | false =>
    left
    simp only [hh] at hi
    have : s.permits > 0 := by simp at hi; omega
    simp [step, hh, this]

/-- the cause with which a handler ends is irrelevant to the accounting: every `finish` returns
    exactly one permit -/
theorem c15_finish_any_cause (s : St) (c : Nat) (w w' : Cause) :
    step s (.finish c w) = step s (.finish c w') := rfl

/-- **C15 (a failed accept costs nothing).** A failing accept(2) call — with or without the loss of the
    connection that was waiting — changes neither the free permits, nor the permit the listener holds, nor the
    connections being served: the retry runs on the permit taken before the first attempt. -/
theorem c15_accept_failure_free (s s' : St) (gone : Bool) (h : step s (.acceptFail gone) = some s') :
    s'.permits = s.permits ∧ s'.holding = s.holding ∧ s'.handlers = s.handlers ∧ s'.max = s.max := by
  simp only [step] at h
  split at h
  · simp only [Option.some.injEq] at h; subst h
    cases gone <;> simp
  · cases h

/-- ... so after any number of failed attempts the listener can still accept on that permit -/
theorem c15_accept_after_failures (s : St) (n : Nat) (s' : St)
    (h : run s (List.replicate n (.acceptFail false)) = some s') (hp : s.pending ≠ []) (hn : 0 < n) :
    (step s' .accept).isSome := by
  induction n generalizing s with
  | zero => omega
  | succ n ih =>
    simp only [List.replicate_succ, run] at h
    cases hs : step s (.acceptFail false) with
    | none => simp [hs] at h
    | some s1 =>
      simp only [hs] at h
      have e : s1 = s ∧ s.holding = true := by
        simp only [step] at hs
        split at hs
        · rename_i hh
          simp only [Bool.false_eq_true, ↓reduceIte, Option.some.injEq] at hs
          exact ⟨hs.symm, hh⟩
        · cases hs
      obtain ⟨rfl, hh⟩ := e
      cases n with
      | zero =>
        simp only [List.replicate_zero, run, Option.some.injEq] at h; subst h
        simp only [step, hh, ↓reduceIte]
        cases hpd : s1.pending with
        | nil => exact absurd hpd hp
        | cons c rest => simp
      | succ m => exact ih s1 h hp (by omega)

/-! ### non-vacuity: three clients, limit 2 — two served, the third only after one of them ends
    (here: by a handler panic) -/

def demo : List Ev :=
  [.connect 1, .connect 2, .connect 3, .acquire, .accept, .acquire, .accept,
   .finish 1 .panic, .acquire, .accept]

example : (run (init 2) demo).map (·.handlers) = some [2, 3] := by decide
example : (run (init 2) (demo.take 7)).map (fun s => (s.handlers, s.pending, s.permits)) = some ([1, 2], [3], 0) := by decide
/-- with no permit left the listener cannot accept the third client -/
example : ((run (init 2) (demo.take 7)).bind (step · .acquire)) = none := by decide


/-- limit 2, the first accept fails three times: both clients are served all the same, a third one waits -/
example : (run (init 2) [.connect 1, .acquire, .acceptFail false, .acceptFail false, .acceptFail false, .accept,
    .connect 2, .acquire, .accept, .connect 3]).map (fun s => (s.handlers, s.pending, s.permits)) = some ([1, 2], [3], 0) := by decide

end ConnLimit

/-! ### the retry loop around accept(2) (`Listener::accept`) — how many failures in a row the listener survives -/

namespace AcceptBackoff

/-- **C15 (transient accept failures do not end the listener).** `k` failing accept(2) calls in a row, the last of
    which still finds the back-off `min·2^(k-1)` at or below the maximum, followed by a connection: the call of
    `Listener::accept` returns that connection after `k + 1` calls and `min·(2^k − 1)` ms of sleep (no `u64` wrap:
    `min·2^k < 2^64`). Every call of `Listener::accept` starts again from `min`, so this holds for every later burst. -/
theorem c15_backoff_survives (min max k : Nat) (rest : List Bool)
    (hw : min * 2 ^ k < 2 ^ 64) (hm : k = 0 ∨ min * 2 ^ (k - 1) ≤ max) :
    accept min max (List.replicate k false ++ true :: rest) = (.accepted, k + 1, min * (2 ^ k - 1)) :=
  loop_fails_then_ok max k min rest hw hm

/-- **C15 (the listener gives up exactly when the back-off has passed the maximum).** After `k` survived failures the
    `(k+1)`-th failure in a row ends the listener iff it finds `min·2^k > max`. -/
theorem c15_backoff_gives_up (min max k : Nat) (rest : List Bool)
    (hw : min * 2 ^ k < 2 ^ 64) (hm : k = 0 ∨ min * 2 ^ (k - 1) ≤ max) (hg : max < min * 2 ^ k) :
    accept min max (List.replicate k false ++ false :: rest) = (.gaveUp, k + 1, min * (2 ^ k - 1)) :=
  loop_fails_then_give_up max k min rest hw hm hg

/-- **C15 (edge: `min_backoff_ms = 0`).** The back-off never grows: the listener retries for ever without sleeping and
    never gives up, whatever the maximum. -/
theorem c15_backoff_zero_min (max k : Nat) :
    accept 0 max (List.replicate k false) = (.waiting, k, 0) :=
  loop_zero_never_gives_up max k

/-- **C15 (only a run of failures ends the listener).** For every sequence of accept(2) outcomes and every configuration:
    if a call of `Listener::accept` gives up, every accept(2) call it made had failed — one connection in between ends the
    call successfully, and the next call starts again from `min`. -/
theorem c15_backoff_gives_up_only_on_failures (min max : Nat) (outs : List Bool)
    (h : (accept min max outs).1 = .gaveUp) :
    (accept min max outs).2.1 ≤ outs.length ∧
      outs.take (accept min max outs).2.1 = List.replicate (accept min max outs).2.1 false :=
  loop_gaveUp_prefix_fails max outs min h

-- non-vacuity / the two configurations that occur: the harness's server (10 ms, 100 ms) and the defaults of
-- `net::Config` (500 ms, 64 s)
example : accept 10 100 (List.replicate 4 false ++ [true]) = (.accepted, 5, 150) := by decide
example : accept 10 100 (List.replicate 5 false ++ [true]) = (.gaveUp, 5, 150) := by decide
example : accept 500 64000 (List.replicate 8 false ++ [true]) = (.accepted, 9, 127500) := by decide
example : accept 500 64000 (List.replicate 9 false) = (.gaveUp, 9, 127500) := by decide
/-- a wrap of the `u64`: from 2^63 the doubled back-off is 0, and the listener never gives up afterwards -/
example : accept (2 ^ 63) (2 ^ 63) (List.replicate 6 false) = (.waiting, 6, 2 ^ 63) := by decide

end AcceptBackoff
