/-
  C03 (lives) — crash recovery composes over any number of lives, also when a life ends with a
  kill INSIDE a merge pass.

  Props/C03.lean proves that a kill at any cut of any operation — merge passes included — leaves a
  directory that opens to the right contents, but its reachability predicates (`ReachC`,
  `ReachM`) stop at a kill inside a merge: the recovered store violates `HintsExact` (an output
  data file holds a record its hint file does not list).  This file closes that gap.

  What recovery really does with such a file (`rebuild_storage`, `populate_keydir_with_hintfile`,
  model: `rebuild` / `fileScan`): if a data file has a hint file, ONLY the hint file is read; the
  records it does not list are invisible.  `Sim d1 d` (Store/LivesBase.lean) relates a directory
  `d` to its *visible part* `d1`; `c03_lives_visible_part` says that in every reachable state the
  scan of the directory is the scan of its visible part, that the visible part has exact hint
  files (so the crash-free theory applies to it), and that every invisible record is a value
  record that is a copy of the record the index entry of its key addresses (as long as that
  entry lies before it).  The last fact is what "the inputs of the interrupted merge are still
  on disk" amounts to: the merge copies a record BEFORE it re-points the index entry, and it
  unlinks its inputs only after all outputs and hint files are complete.

  Are the stale outputs harmless in later lives?  For reopens, writes and the copy phase of later
  merges: yes, they stay invisible.  But `unlinkOne` removes the hint file of a merged file first
  and its data file second; a kill in between leaves the stale output WITHOUT hint file, and the
  next scan reads all its records.  This is harmless if — and only if — the D3 side condition
  `NoHazard` of every merge pass is taken over ALL records of the directory, including the
  invisible ones (which is what `NoHazard s sel` literally says for the states of this file).
  With the side condition restricted to what the scan sees, a deleted key can be resurrected:
  `c03_lives_visible_hazard_counterexample` (decide-checked; the hazardous selection is the one
  the store's own policy `selectFiles` makes).

  Main theorems: `c03_lives_merge_partial` (one life, from any reachable state),
  `c03_lives_all_partial` (any number of lives from a fresh store).  "partial": the D3 side
  condition (`opOk`: `NoHazard` for each merge's selection) is a hypothesis, as in Props/C03.lean.

  Helper lemmas: Store/LivesBase.lean (definitions), LivesOpen.lean (opening a directory with a
  visible part), LivesEvents.lean (events), LivesWrite.lean (put / delete / reopen),
  LivesDapp.lean, LivesMergeSim.lean, LivesLoop.lean (copy phase), LivesUnlink.lean,
  LivesMerge.lean (removal phase, whole pass), LivesHistory.lean (histories).
-/
import BitcaskVerif.Store.LivesHistory

namespace Store

open Tr

/-! ### the weakened recovery invariant -/

/-- **`HintsPrefix`**: of every hint file the entries the scan accepts (all entries up to the
    first one that points beyond the end of the data file, `accOf`) describe exactly a PREFIX of
    the records of the data file — keys, positions, lengths, timestamps, in order.  Records
    behind that prefix, and hint entries behind the accepted ones, are ignored by recovery. -/
def HintsPrefix (d : Disk) : Prop :=
  ∀ fid hs, AL.get fid d.hint = some hs →
    ∃ n, hintEvs fid (accOf d fid hs) = evData fid ((dataOf d fid).take n) 0

/-- `HintsExact` (the invariant of the crash-free theory) is the special case "all entries are
    accepted and the prefix is the whole file" -/
theorem c03_lives_hintsExact_prefix (d : Disk) (h : HintsExact d) : HintsPrefix d := by
  intro fid hs hg
  refine ⟨(dataOf d fid).length, ?_⟩
  unfold accOf
  rw [accLen_all (h.fit' hg), List.take_length]
  exact h fid hs hg

/-- **C03 (lives): the lives invariant.**  Every state reachable by sets, deletes, reads, reopens,
    hazard-free merge passes and kills at ANY cut of ANY of these operations (followed by
    recovery) satisfies the lives invariant `LJ`; in particular the store invariant `Inv` (reads
    are sound) and `HintsPrefix`. -/
theorem c03_lives_invariant (cfg : Cfg) (s : St) (h : ReachL cfg s) :
    LJ s ∧ Inv s ∧ HintsPrefix s.disk ∧ ∀ k, get s k ≠ .corrupt := by
  have hl := reachL_lj h
  refine ⟨hl, hl.inv, ?_, fun k => get_not_corrupt hl.inv k⟩
  obtain ⟨d1, w⟩ := hl
  intro fid hs hg
  have hg1 := (w.sim.file fid).acc hs hg
  refine ⟨(dataOf d1 fid).length, ?_⟩
  rw [← List.prefix_iff_eq_take.mp (w.sim.pre fid)]
  exact w.rinv.hx fid _ hg1

/-- **C03 (lives): what recovery sees.**  In every reachable state the directory has a visible
    part `d1` such that
    * the startup scan of the directory IS the startup scan of `d1` (index, counters, next id):
      records a hint file does not list are never read;
    * `d1` has exact hint files, ascending ids, and with it the store satisfies the recovery
      invariant of the crash-free theory (`RInv`, `Full`);
    * every record of the directory that is not in `d1` is a value record, and it is a copy of
      the record the index entry of its key addresses whenever that entry lies before it. -/
theorem c03_lives_visible_part (cfg : Cfg) (s : St) (h : ReachL cfg s) :
    ∃ d1, Sim d1 s.disk ∧ rebuild s.disk = rebuild d1 ∧ HintsExact d1 ∧
      RInv { s with disk := d1 } ∧ Full { s with disk := d1 } ∧
      JunkOK d1 s.disk (kdF s.keydir) ∧ Full s := by
  obtain ⟨d1, w⟩ := reachL_lj h
  exact ⟨d1, w.sim, w.sim.rebuild w.rinv.hx, w.rinv.hx, w.rinv, w.full1, w.junk, w.fullA⟩

/-- the states of Props/C03.lean (`ReachM`: kills only inside merge-free operations) are among
    the states of this file -/
theorem c03_lives_reachM (cfg : Cfg) (s : St) (h : ReachM cfg s) : ReachL cfg s := h.toReachL

/-! ### one operation in flight -/

/-- **C03 (lives), one operation.**  `s` reachable as above (e.g. recovered from a kill inside a
    merge pass).  For EVERY cut `c` of the next operation `op` — set, delete, read, reopen or a
    merge pass satisfying its side conditions `opOk` (existing files in ascending order, covering
    iteration order, `NoHazard s sel`: defect D3) — the directory opens to a store that satisfies
    the store invariant, never reads a bad location, reads as before `op` or as after `op` (a
    merge or reopen does not change the contents), and is again such a reachable state. -/
theorem c03_lives_op_cut_partial (cfg : Cfg) (s : St) (h : ReachL cfg s) (op : TOp) (hop : opOk s op)
    (c : List Call) (hc : Cut (stepC cfg s op).2 c) :
    ((openDisk (applyCalls s.disk c)).1.abs = s.abs ∨
     (openDisk (applyCalls s.disk c)).1.abs = specOp s.abs op) ∧
    Inv (openDisk (applyCalls s.disk c)).1 ∧
    (∀ k, get (openDisk (applyCalls s.disk c)).1 k ≠ .corrupt) ∧
    ReachL cfg (openDisk (applyCalls s.disk c)).1 := by
  have hr : ReachL cfg (openDisk (applyCalls s.disk c)).1 := .crash op c h hop hc
  have hi := (reachL_lj hr).inv
  refine ⟨?_, hi, fun k => get_not_corrupt hi k, hr⟩
  rcases stepC_cut_recJ cfg (reachL_lj h) op hop hc with r | r
  · exact .inl r.2
  · exact .inr r.2

/-- **C03 (lives), merge pass, hazard hypothesis per prefix.**  The form of
    `c03_merge_cut_prefixes_partial` for reachable states of this file: any selection of existing
    files (any order), provided for every prefix `done` of it the files outside `done` do not
    resurrect an absent key — ALL their records counted, visible to the scan or not. -/
theorem c03_lives_merge_cut_prefixes_partial (cfg : Cfg) (s : St) (h : ReachL cfg s) (sel : List Nat)
    (order : List Key) (hsel : ∀ id, id ∈ sel → id ≤ s.active) (hcov : Covers order s)
    (hz : ∀ done, done <+: sel → NoHazard s done) (c : List Call)
    (hc : Cut (mergeWith cfg s sel order).2 c) :
    (openDisk (applyCalls s.disk c)).1.abs = s.abs ∧ Inv (openDisk (applyCalls s.disk c)).1 ∧
    LJ (openDisk (applyCalls s.disk c)).1 := by
  obtain ⟨d1, w⟩ := reachL_lj h
  have r := (mergeWith_cut_recW cfg w sel order hsel hcov hz hc).recJ
  exact ⟨r.2, r.1.inv, r.1⟩

/-! ### histories -/

/-- **C03 (lives), one life.**  From any reachable state `s` (in particular: one recovered from a
    kill inside a merge pass): after the acknowledged operations `ops` — merge passes included —
    and a kill at ANY cut `c` of the next operation `op` — a merge pass included — the directory
    opens to a store that satisfies the invariant, never reads a bad location, contains every
    acknowledged operation, and `op` applied or not; and it is again a reachable state, so the
    statement applies to the next life as well. -/
theorem c03_lives_merge_partial (cfg : Cfg) (s : St) (h : ReachL cfg s) (ops : List TOp)
    (hv : ValidOps cfg s ops) (op : TOp) (hop : opOk (runC cfg s ops) op) (c : List Call)
    (hc : Cut (stepC cfg (runC cfg s ops) op).2 c) :
    ((openDisk (applyCalls (runC cfg s ops).disk c)).1.abs = specRun s.abs ops ∨
     (openDisk (applyCalls (runC cfg s ops).disk c)).1.abs = specOp (specRun s.abs ops) op) ∧
    Inv (openDisk (applyCalls (runC cfg s ops).disk c)).1 ∧
    (∀ k, get (openDisk (applyCalls (runC cfg s ops).disk c)).1 k ≠ .corrupt) ∧
    ReachL cfg (openDisk (applyCalls (runC cfg s ops).disk c)).1 := by
  have hr := reachL_runC ops h hv
  obtain ⟨_, e⟩ := runC_lj cfg ops (reachL_lj h) hv
  have := c03_lives_op_cut_partial cfg (runC cfg s ops) hr op hop c hc
  rw [e] at this
  exact this

/-- the acknowledged operations of a life act on the contents as on the abstract map, and the
    store stays reachable -/
theorem c03_lives_run (cfg : Cfg) (s : St) (h : ReachL cfg s) (ops : List TOp) (hv : ValidOps cfg s ops) :
    (runC cfg s ops).abs = specRun s.abs ops ∧ ReachL cfg (runC cfg s ops) :=
  ⟨(runC_lj cfg ops (reachL_lj h) hv).2, reachL_runC ops h hv⟩

/-- **C03 (lives), any number of lives.**  Starting from a fresh store, after any sequence of
    lives — each a list of acknowledged sets / deletes / reads / reopens / merge passes followed
    by a kill at any cut of one more operation (a merge pass included), then recovery — the store
    satisfies the invariant, never reads a bad location, and its contents are among those the
    specification allows: in every life all acknowledged operations applied, the one in flight
    applied or not. -/
theorem c03_lives_all_partial (cfg : Cfg) (lives : List Life) (hv : ValidLivesM cfg fresh lives) :
    SpecLives Map.empty lives (runLives cfg fresh lives).abs ∧ Inv (runLives cfg fresh lives) ∧
      (∀ k, get (runLives cfg fresh lives) k ≠ .corrupt) ∧ ReachL cfg (runLives cfg fresh lives) := by
  obtain ⟨a, b⟩ := runLives_specM cfg lives ReachL.fresh hv
  rw [fresh_abs] at b
  exact ⟨b, (reachL_lj a).inv, fun k => get_not_corrupt (reachL_lj a).inv k, a⟩

/-! ### the hazard hypothesis: all records, not only the visible ones -/

/-- the events the startup scan processes (ids ascending): of a file with a hint file only the
    accepted hint entries -/
def visEvs (d : Disk) : List Ev := (AL.keys d.data).flatMap (fileEvs d)

/-- the hazard condition restricted to what the scan sees: no absent key would be recovered by a
    startup scan of the unselected files -/
def NoHazardVis (s : St) (sel : List Nat) : Prop :=
  ∀ k, AL.get k s.keydir = none →
    replay ((visEvs s.disk).filter (fun e => decide (e.loc.fid ∉ sel))) k = none

/-- what the scan processes are the records of the visible part -/
theorem c03_lives_visEvs {d1 d : Disk} (h : Sim d1 d) (hx : HintsExact d1) (ha : Asc d1.data) :
    visEvs d = allEvs d1.data := by
  unfold visEvs
  rw [← flatMap_keys_allEvs ha, h.keys]
  apply flatMap_congr_mem
  intro fid _
  unfold fileEvs
  cases hg : AL.get fid d.hint with
  | none =>
    show evData fid (dataOf d fid) 0 = evData fid (dataOf d1 fid) 0
    rw [(h.file fid).unh hg]
  | some hs =>
    show hintEvs fid (accOf d fid hs) = evData fid (dataOf d1 fid) 0
    exact hx fid _ ((h.file fid).acc hs hg)

/-- **the hypothesis of the theorems above implies the visible one**: in a reachable state,
    `NoHazard s sel` (all records) implies `NoHazardVis s sel`; the converse fails
    (`c03_lives_visible_hazard_counterexample`).  In the states of Props/C03.lean (`ReachM`) the
    two coincide: there all records are visible. -/
theorem c03_lives_hazard_visible (cfg : Cfg) (s : St) (h : ReachL cfg s) (sel : List Nat)
    (hz : NoHazard s sel) : NoHazardVis s sel := by
  obtain ⟨d1, w⟩ := reachL_lj h
  have := noHazard_visible w.sim w.rinv.asc w.junk.vals hz
  intro k hk
  rw [c03_lives_visEvs w.sim w.rinv.hx w.rinv.asc]
  exact this k hk

theorem c03_lives_hazard_reachM (cfg : Cfg) (s : St) (h : ReachM cfg s) (sel : List Nat) :
    NoHazardVis s sel ↔ NoHazard s sel := by
  have hr := (reachM_rinv h).1
  have : visEvs s.disk = allEvs s.disk.data := c03_lives_visEvs (Sim.refl hr.hx) hr.hx hr.asc
  unfold NoHazardVis NoHazard
  rw [this]

/-- decidable sufficient condition for `NoHazardVis` (cf. `NoStaleValue`) -/
def NoStaleValueVis (s : St) (sel : List Nat) : Prop :=
  ∀ e ∈ (visEvs s.disk).filter (fun e => decide (e.loc.fid ∉ sel)),
    e.tomb = false → (AL.get e.key s.keydir).isSome = true

instance (s : St) (sel : List Nat) : Decidable (NoStaleValueVis s sel) :=
  inferInstanceAs (Decidable (∀ e ∈ (visEvs s.disk).filter (fun e => decide (e.loc.fid ∉ sel)),
    e.tomb = false → (AL.get e.key s.keydir).isSome = true))

theorem noHazardVis_of_noStaleValueVis {s : St} {sel : List Nat} (h : NoStaleValueVis s sel) :
    NoHazardVis s sel := by
  intro k hk
  apply replay_none_of_all_tomb
  intro e he hek
  cases ht : e.tomb with
  | true => rfl
  | false =>
    have := h e he ht
    rw [hek, hk] at this
    cases this

/-- `selectFiles` on a concrete state (`List.mergeSort` does not reduce) -/
theorem selectFiles_eq {cfg : Cfg} {s : St} {l : List Nat}
    (h : (s.stats.filter fun (fid, st) =>
      st.deadBytes > cfg.deadBytes || fragGt st cfg.fragNum cfg.fragDen ||
        fileSize (dataOf s.disk fid) + (AL.get fid s.disk.tails).getD 0 < cfg.smallFile).map (·.1) = l)
    (hs : l.Pairwise (· ≤ ·)) : selectFiles cfg s = l := by
  unfold selectFiles
  simp only
  rw [h]
  apply List.mergeSort_of_pairwise
  exact hs.imp (fun hab => by simpa using hab)

/-! #### the counterexample

  Rollover after 30 bytes (two 27-byte records never fit one file), no "small file" selection.
  Life 1: `set [1] [10]`, `set [2] [20]` (both in file 0); a merge of file 0 is killed between the
  data append and the hint append of key `[2]`: output 2 holds both records, its hint file lists
  only `[1]`.  Recovery: `[1] ↦ file 2` (hint), `[2] ↦ file 0`.
  Life 2: `delete [2]`, `set [3] [30]` (file 3).  The store's own policy selects files 0 and 3 (all
  dead / fragmented); file 2 is not selected.  The scan sees no record of `[2]` outside the
  selection — the copy in file 2 is invisible — so the merge is hazard-free for the scan
  (`NoHazardVis`), and indeed merge + restart leaves `[2]` deleted.  It is NOT hazard-free for
  all records (`NoHazard`).  The merge drops the tombstone of `[2]` and the original record.
  Then `set [1] [11]`; now file 2 holds only dead entries by the counters, the policy selects it.
  The merge is killed after it has removed the hint file of file 2 and before it removes the data
  file: the next scan reads file 2 record by record and finds `[2] ↦ [20]`. -/

def hzCfg : Cfg := { maxFile := 30, smallFile := 0 }

/-- the merge of life 1 up to the data append of the second key -/
def hzCut1 : List Call :=
  [.create ⟨.data, 2⟩, .create ⟨.hint, 2⟩, .append ⟨.data, 2⟩ (.ofRec ⟨0, [1], some [10]⟩),
   .append ⟨.hint, 2⟩ (.ofHint ⟨0, 27, 0, [1]⟩), .append ⟨.data, 2⟩ (.ofRec ⟨0, [2], some [20]⟩)]

def hzS0 : St := runC hzCfg fresh [.put 0 [1] [10], .put 0 [2] [20]]
/-- after the kill and recovery -/
def hzS1 : St := (openDiskWith [0, 1, 2] (applyCalls hzS0.disk hzCut1)).1
def hzS2 : St := runC hzCfg hzS1 [.del 1 [2], .put 1 [3] [30]]
/-- after the merge with the store's own selection -/
def hzS3 : St := (merge hzCfg hzS2 [[1], [3]]).1
def hzS4 : St := runC hzCfg hzS3 [.put 2 [1] [11]]
/-- the second merge of life 2 up to the removal of the hint file of file 2 -/
def hzCut2 : List Call :=
  [.create ⟨.data, 7⟩, .create ⟨.hint, 7⟩, .fsync ⟨.data, 7⟩, .fsync ⟨.hint, 7⟩, .unlink ⟨.hint, 2⟩]
/-- after the second kill and recovery -/
def hzS5 : St := (openDiskWith [1, 2, 4, 5, 6, 7] (applyCalls hzS4.disk hzCut2)).1

theorem hz_sel2 : selectFiles hzCfg hzS2 = [0, 3] := selectFiles_eq (by decide) (by decide)

theorem hz_S3 : hzS3 = (mergeWith hzCfg hzS2 [0, 3] [[1], [3]]).1 := by
  unfold hzS3 merge; rw [hz_sel2]

theorem hz_S4 : hzS4 = runC hzCfg (mergeWith hzCfg hzS2 [0, 3] [[1], [3]]).1 [.put 2 [1] [11]] := by
  unfold hzS4; rw [hz_S3]

theorem hz_sel4 : selectFiles hzCfg hzS4 = [2] := by
  rw [hz_S4]; exact selectFiles_eq (by decide) (by decide)

/-- `hzS1` is what the kill in life 1 and the recovery leave; it is a reachable state -/
theorem hz_reach1 : (openDisk (applyCalls hzS0.disk hzCut1)).1 = hzS1 ∧ ReachL hzCfg hzS1 := by
  have e : (openDisk (applyCalls hzS0.disk hzCut1)).1 = hzS1 := by
    rw [openDisk_eq_with (by decide)]; rfl
  refine ⟨e, ?_⟩
  rw [← e]
  have h0 : ReachL hzCfg hzS0 := reachL_runC _ .fresh ⟨trivial, trivial, trivial⟩
  exact .crash (.merge [0] [[1], [2]]) hzCut1 h0
    ⟨by decide, by decide, by decide, noHazard_of_noStaleValue (by decide)⟩
    (.boundary _ [.append ⟨.hint, 2⟩ (.ofHint ⟨0, 27, 27, [2]⟩), .fsync ⟨.data, 2⟩, .fsync ⟨.hint, 2⟩,
      .create ⟨.data, 3⟩, .create ⟨.hint, 3⟩, .fsync ⟨.data, 3⟩, .fsync ⟨.hint, 3⟩, .unlink ⟨.data, 0⟩,
      .create ⟨.data, 4⟩] (by decide))

/-- **The hazard hypothesis cannot be weakened to what the scan sees.**
    `hzS2` is reachable (life 1 ended by a kill inside a merge pass, then a delete and a set).
    1. Its merge pass — with the selection `[0, 3]` the store's own policy makes — satisfies every
       side condition of `opOk` with `NoHazard` replaced by `NoHazardVis`; merge followed by a
       restart leaves the deleted key `[2]` deleted.  `NoHazard hzS2 [0, 3]` itself is false.
    2. After one more set, the next merge pass (again the policy's selection, `[2]`: the stale
       output) satisfies every side condition, even `NoHazard`.
    3. A kill of that merge pass after the removal of the hint file of file 2 (`hzCut2`), and
       recovery, resurrect the deleted key: `[2]` reads `[20]`. -/
theorem c03_lives_visible_hazard_counterexample :
    ReachL hzCfg hzS2 ∧
    -- 1.
    selectFiles hzCfg hzS2 = [0, 3] ∧ (∀ id, id ∈ [0, 3] → id ≤ hzS2.active) ∧ Covers [[1], [3]] hzS2 ∧
    NoHazardVis hzS2 [0, 3] ∧ ¬ NoHazard hzS2 [0, 3] ∧
    get hzS2 [2] = .absent ∧ get (reopen hzS3).1 [2] = .absent ∧
    -- 2.
    selectFiles hzCfg hzS4 = [2] ∧ (∀ id, id ∈ [2] → id ≤ hzS4.active) ∧ Covers [[1], [3]] hzS4 ∧
    NoHazardVis hzS4 [2] ∧ NoHazard hzS4 [2] ∧
    -- 3.
    Cut (merge hzCfg hzS4 [[1], [3]]).2 hzCut2 ∧ (openDisk (applyCalls hzS4.disk hzCut2)).1 = hzS5 ∧
    get hzS4 [2] = .absent ∧ get hzS5 [2] = .value [20] := by
  refine ⟨reachL_runC _ hz_reach1.2 ⟨trivial, trivial, trivial⟩, hz_sel2, by decide, by decide,
    noHazardVis_of_noStaleValueVis (by decide), ?_, by decide, ?_, hz_sel4, ?_, ?_, ?_, ?_, ?_, ?_, ?_, ?_⟩
  · intro h
    have := h [2] (by decide)
    revert this
    decide
  · rw [hz_S3]
    show get (openDisk _).1 [2] = .absent
    rw [openDisk_eq_with (by decide)]
    decide
  · rw [hz_S4]; decide
  · rw [hz_S4]; decide
  · rw [hz_S4]; exact noHazardVis_of_noStaleValueVis (by decide)
  · rw [hz_S4]; exact noHazard_of_noStaleValue (by decide)
  · unfold merge
    rw [hz_sel4, hz_S4]
    exact .boundary _ [.unlink ⟨.data, 2⟩, .create ⟨.data, 8⟩] (by decide)
  · rw [openDisk_eq_with (by rw [hz_S4]; decide)]
    unfold hzS5
    rw [hz_S4]
    rfl
  · rw [hz_S4]; decide
  · unfold hzS5; rw [hz_S4]; decide

/-! ### non-vacuity -/

def lvCfg : Cfg := { maxFile := 30 }

/-- life 1: two sets (file 0), then a merge of file 0 that is killed between the data append and
    the hint append of key `[2]` -/
def lvCut1 : List Call :=
  [.create ⟨.data, 2⟩, .create ⟨.hint, 2⟩, .append ⟨.data, 2⟩ (.ofRec ⟨0, [1], some [10]⟩),
   .append ⟨.hint, 2⟩ (.ofHint ⟨0, 27, 0, [1]⟩), .append ⟨.data, 2⟩ (.ofRec ⟨0, [2], some [20]⟩)]

def lvLife1 : Life := ⟨[.put 0 [1] [10], .put 0 [2] [20]], .merge [0] [[1], [2]], lvCut1⟩

/-- the directory the kill leaves: output 2 holds two records, its hint file lists one -/
def lvD1 : Disk :=
  { data := [(0, [⟨0, [1], some [10]⟩, ⟨0, [2], some [20]⟩]), (1, []), (2, [⟨0, [1], some [10]⟩, ⟨0, [2], some [20]⟩])],
    hint := [(2, [⟨0, 27, 0, [1]⟩])], tails := [] }

def lvS1 : St := (openDiskWith [0, 1, 2] lvD1).1

theorem lv_crash1 : crashLife lvCfg fresh lvLife1 = lvS1 := by
  have hd : applyCalls (runC lvCfg fresh lvLife1.acked).disk lvLife1.cut = lvD1 := rfl
  unfold crashLife
  rw [hd, openDisk_eq_with (by decide)]
  rfl

/-- life 2: two writes, then a second merge — of file 0 AND the stale output 2 — that is killed
    after it has removed the hint file of the stale output and before it removes its data file -/
def lvCut2 : List Call :=
  [.create ⟨.data, 5⟩, .create ⟨.hint, 5⟩, .append ⟨.data, 5⟩ (.ofRec ⟨0, [1], some [10]⟩),
   .append ⟨.hint, 5⟩ (.ofHint ⟨0, 27, 0, [1]⟩), .fsync ⟨.data, 5⟩, .fsync ⟨.hint, 5⟩, .unlink ⟨.data, 0⟩,
   .unlink ⟨.hint, 2⟩]

def lvLife2 : Life := ⟨[.put 1 [3] [30], .put 1 [2] [21]], .merge [0, 2] [[1], [2], [3]], lvCut2⟩

theorem lv_valid1 : ValidLifeM lvCfg fresh lvLife1 :=
  ⟨⟨trivial, trivial, trivial⟩, ⟨by decide, by decide, by decide, noHazard_of_noStaleValue (by decide)⟩,
   .boundary _ [.append ⟨.hint, 2⟩ (.ofHint ⟨0, 27, 27, [2]⟩), .fsync ⟨.data, 2⟩, .fsync ⟨.hint, 2⟩,
     .create ⟨.data, 3⟩, .create ⟨.hint, 3⟩, .fsync ⟨.data, 3⟩, .fsync ⟨.hint, 3⟩, .unlink ⟨.data, 0⟩,
     .create ⟨.data, 4⟩] (by decide)⟩

theorem lv_valid2 : ValidLifeM lvCfg lvS1 lvLife2 :=
  ⟨⟨trivial, trivial, trivial⟩, ⟨by decide, by decide, by decide, noHazard_of_noStaleValue (by decide)⟩,
   .boundary _ [.unlink ⟨.data, 2⟩, .create ⟨.data, 6⟩] (by decide)⟩

/-- the hypotheses of `c03_lives_all_partial` are satisfiable by a two-life history with a kill
    between the data append and the hint append of a merge, then writes and a second merge
    (which is killed in the window where the stale output's unlisted record becomes visible) -/
example : ValidLivesM lvCfg fresh [lvLife1, lvLife2] := by
  refine ⟨lv_valid1, ?_, trivial⟩
  rw [lv_crash1]
  exact lv_valid2

/-- `lvS1` (recovered from the kill inside the merge) is a reachable state of this file, and it is
    NOT a state of the crash-free-merge theory: its hint files are not exact -/
theorem lv_reach1 : ReachL lvCfg lvS1 := by
  rw [← lv_crash1]
  exact (crashLife_specM lvCfg .fresh lvLife1 lv_valid1).1

example : ¬ HintsExact lvS1.disk := by
  intro h
  have := h 2 [⟨0, 27, 0, [1]⟩] (by decide)
  revert this
  decide

/-- the hypotheses of `c03_lives_merge_partial` / `c03_lives_op_cut_partial` /
    `c03_lives_merge_cut_prefixes_partial` are satisfiable in the second life -/
example : ReachL lvCfg lvS1 ∧ ValidOps lvCfg lvS1 lvLife2.acked ∧
    opOk (runC lvCfg lvS1 lvLife2.acked) lvLife2.inflight ∧
    Cut (stepC lvCfg (runC lvCfg lvS1 lvLife2.acked) lvLife2.inflight).2 lvCut2 :=
  ⟨lv_reach1, lv_valid2.1, lv_valid2.2.1, lv_valid2.2.2⟩

example : ∀ done, done <+: [0, 2] → NoHazard (runC lvCfg lvS1 lvLife2.acked) done := by
  have hall : ∀ e ∈ allEvs (runC lvCfg lvS1 lvLife2.acked).disk.data, e.tomb = false →
      (AL.get e.key (runC lvCfg lvS1 lvLife2.acked).keydir).isSome = true := by decide
  intro done _
  apply noHazard_of_noStaleValue
  intro e he ht
  exact hall e (List.mem_filter.mp he).1 ht

/-- in that instance the second recovery finds the unlisted record of the stale output; it is
    shadowed by the newer record of its key -/
example : get (runLives lvCfg fresh [lvLife1, lvLife2]) [2] = .value [21] ∧
    get (runLives lvCfg fresh [lvLife1, lvLife2]) [1] = .value [10] ∧
    get (runLives lvCfg fresh [lvLife1, lvLife2]) [3] = .value [30] := by
  show get (crashLife lvCfg (crashLife lvCfg fresh lvLife1) lvLife2) [2] = _ ∧
    get (crashLife lvCfg (crashLife lvCfg fresh lvLife1) lvLife2) [1] = _ ∧
    get (crashLife lvCfg (crashLife lvCfg fresh lvLife1) lvLife2) [3] = _
  rw [lv_crash1]
  unfold crashLife
  rw [openDisk_eq_with (by decide)]
  decide

/-- hypotheses of `c03_lives_hazard_visible` / `c03_lives_hazard_reachM`: `lvS1` with selection `[0]` -/
example : ReachL lvCfg lvS1 ∧ NoHazard lvS1 [0] := ⟨lv_reach1, noHazard_of_noStaleValue (by decide)⟩

example : ReachM lvCfg (runC lvCfg fresh lvLife1.acked) := reachM_runC _ .fresh ⟨trivial, trivial, trivial⟩

/-- hypothesis of `c03_lives_hintsExact_prefix`: the directory after a complete merge pass (one
    output with a non-empty, exact hint file) -/
example : HintsExact (mergeWith lvCfg (runC lvCfg fresh lvLife1.acked) [0] [[1], [2]]).1.disk :=
  (reach_rinv (.merge [0] [[1], [2]] (.put 0 [2] [20] (.put 0 [1] [10] .fresh)) (by decide) (by decide))).hx

/-- hypotheses of `c03_lives_visEvs`: the visible part of `lvS1` -/
example : ∃ d1, Sim d1 lvS1.disk ∧ HintsExact d1 ∧ Asc d1.data :=
  let ⟨d1, w⟩ := reachL_lj lv_reach1
  ⟨d1, w.sim, w.rinv.hx, w.rinv.asc⟩

/-- hypothesis of `noHazardVis_of_noStaleValueVis` (decidable), on the counterexample's state -/
example : NoStaleValueVis hzS2 [0, 3] := by decide

end Store
