/-
  C18 — background merge and sync follow the configured policy.
  Decision logic stated outright over the model's `canMerge` (the function the driver evaluates
  against `Context::can_merge` of the real store), and the timer bound.
-/
import BitcaskVerif.Conc.Background

namespace Store

/-- **C18 (policy never).** With merge policy `never` (or a window that does not contain the
    current hour) the trigger check never asks for a merge, whatever the counters say. -/
theorem c18_never (cfg : Cfg) (s : St) (h : cfg.policyAlways = false) : canMerge cfg s = false := by
  simp [canMerge, h]

/-- **C18 (policy always).** With policy `always` a merge is requested exactly when some file's
    dead bytes exceed the dead-bytes trigger or its fragmentation exceeds the fragmentation
    trigger. -/
theorem c18_always_iff (cfg : Cfg) (s : St) (h : cfg.policyAlways = true) :
    canMerge cfg s = true ↔
      ∃ f st, (f, st) ∈ s.stats ∧
        (st.deadBytes > cfg.trigDeadBytes ∨ fragGt st cfg.trigFragNum cfg.trigFragDen = true) := by
  simp only [canMerge, h, Bool.true_and, List.any_eq_true, Bool.or_eq_true, decide_eq_true_eq]
  constructor
  · rintro ⟨⟨f, st⟩, hm, hc⟩; exact ⟨f, st, hm, hc⟩
  · rintro ⟨f, st, hm, hc⟩; exact ⟨(f, st), hm, hc⟩

/-- what "fragmentation exceeds `num/den`" means: at least one dead entry, and
    `dead / (dead + live) > num / den` (cross-multiplied; no floating point in the model) -/
theorem c18_frag_meaning (st : Stat) (num den : Nat) :
    fragGt st num den = true ↔ st.dead ≠ 0 ∧ st.dead * den > num * (st.dead + st.live) := by
  unfold fragGt
  by_cases h : st.dead = 0
  · simp [h]
  · simp [h]

/-- with no trigger exceeded in any file, no merge is requested -/
theorem c18_no_trigger (cfg : Cfg) (s : St)
    (h : ∀ f st, (f, st) ∈ s.stats →
      ¬ (st.deadBytes > cfg.trigDeadBytes ∨ fragGt st cfg.trigFragNum cfg.trigFragDen = true)) :
    canMerge cfg s = false := by
  cases hp : cfg.policyAlways with
  | false => exact c18_never cfg s hp
  | true =>
    cases hc : canMerge cfg s with
    | false => rfl
    | true =>
      obtain ⟨f, st, hm, hx⟩ := (c18_always_iff cfg s hp).mp hc
      exact absurd hx (h f st hm)

end Store

namespace Background

/-- **C18 (every sampled delay is inside the jitter range)** — by construction of the uniform
    distribution `[interval − jitter, interval + jitter]`; stated for the bounds the model uses. -/
theorem c18_delay_range (interval jn jd : Nat) :
    mergeLo interval jn jd ≤ mergeHi interval jn jd := mergeLo_le_hi interval jn jd

/-- **C18 (a merge check happens within one interval plus jitter).** If every delay of the timer
    loop is at most `hi = interval·(1+jitter)`, then after any instant `t` at which the loop is
    still running it wakes (and evaluates the trigger) within `hi`. -/
theorem c18_check_within (hi : Nat) (ds : List Nat) (t0 t : Nat) (hd : ∀ d, d ∈ ds → d ≤ hi)
    (h1 : t0 ≤ t) (h2 : t < lastWake t0 ds) : ∃ w, w ∈ wakes t0 ds ∧ t < w ∧ w ≤ t + hi :=
  wake_within hi ds t0 t hd h1 h2

/-- **C18 (interval sync).** The sync loop sleeps exactly `interval` between syncs: at least one
    sync in every window of `interval` ticks while the loop runs. -/
theorem c18_sync_period (interval : Nat) (n : Nat) (t0 t : Nat)
    (h1 : t0 ≤ t) (h2 : t < lastWake t0 (List.replicate n interval)) :
    ∃ w, w ∈ wakes t0 (List.replicate n interval) ∧ t < w ∧ w ≤ t + interval :=
  wake_within interval _ t0 t (by intro d hd; rw [List.eq_of_mem_replicate hd]; exact Nat.le_refl _) h1 h2

/-! non-vacuity -/
example : wakes 0 [3, 5, 4] = [3, 8, 12] := by decide
example : ∃ w, w ∈ wakes 0 [3, 5, 4] ∧ 6 < w ∧ w ≤ 6 + 5 := ⟨8, by decide, by decide, by decide⟩

end Background

namespace Store
/-- non-vacuity: a file with 3 dead of 4 entries triggers at 1/2 and not at 7/8 -/
example : canMerge { policyAlways := true, trigFragNum := 1, trigFragDen := 2, trigDeadBytes := 1000 }
    { stats := [(0, { live := 1, dead := 3, deadBytes := 84 })] } = true := by decide
example : canMerge { policyAlways := true, trigFragNum := 7, trigFragDen := 8, trigDeadBytes := 1000 }
    { stats := [(0, { live := 1, dead := 3, deadBytes := 84 })] } = false := by decide
end Store
