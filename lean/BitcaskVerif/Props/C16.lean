/-
  C16 — graceful shutdown terminates, keeps acknowledged data, and tears no reply.
-/
import BitcaskVerif.Conc.Shutdown

namespace Shutdown

/-- reachability by the handler's own steps and by the environment (the server signalling, the
    client delivering more complete frames) -/
inductive Reach : St → Prop where
  | init (frames : Nat) : Reach { frames := frames }
  | own {s s' : St} (len chunk : Nat) : Reach s → s' ∈ own s len chunk → Reach s'
  | signal {s : St} : Reach s → Reach { s with signalled := true }
  | deliver {s : St} (n : Nat) : Reach s → Reach { s with frames := s.frames + n }

theorem reach_inv {s : St} (h : Reach s) : Inv s := by
  induction h with
  | init f => simp [Inv]
  | own len chunk _ hm ih => exact own_inv ih hm
  | signal _ ih => exact ih
  | deliver n _ ih => exact ih

/-- **C16 (no reply is torn).** A handler ends only between replies: whenever it is not inside
    `write_frame`, in particular when it is `done`, the bytes it has sent are exactly whole replies. -/
theorem c16_no_tear {s : St} (h : Reach s) (hd : s.phase = .done) : s.partialSent = 0 := by
  have := reach_inv h
  simp only [Inv, hd] at this
  exact this.1

/-- the same between any two replies (not only at the end) -/
theorem c16_no_tear_between {s : St} (h : Reach s) (hd : ∀ r, s.phase ≠ .writing r) : s.partialSent = 0 := by
  have := reach_inv h
  unfold Inv at this
  cases hp : s.phase with
  | writing r => exact absurd hp (hd r)
  | top => simp only [hp] at this; exact this.1
  | selecting => simp only [hp] at this; exact this.1
  | executing => simp only [hp] at this; exact this.1
  | done => simp only [hp] at this; exact this.1

/-- **C16 (every reply a client received is reflected in the store).** A reply is sent only after
    its store operation has returned; even a reply still being written belongs to an operation that
    already returned. -/
theorem c16_acked {s : St} (h : Reach s) : s.replied ≤ s.applied := by
  have := reach_inv h
  unfold Inv at this
  cases hp : s.phase <;> simp only [hp] at this <;> omega

theorem c16_acked_in_flight {s : St} (h : Reach s) (r : Nat) (hw : s.phase = .writing r) :
    s.replied + 1 ≤ s.applied := by
  have := reach_inv h
  simpa [Inv, hw] using this

/-- **C16 (termination).** After the signal a handler that is not done can always take a step of
    its own (it never waits for the client), and every such step brings it strictly closer to
    `done`: with replies of at most `maxReply` bytes it is done after at most
    `frames·(maxReply+7) + maxReply + 5` steps, whatever the client does not do. -/
theorem c16_progress (s : St) (len chunk : Nat) (hsig : s.signalled = true) (hne : s.phase ≠ .done) :
    own s len chunk ≠ [] := own_progress s len chunk hsig hne

theorem c16_terminates {s s' : St} {len chunk maxReply : Nat} (hsig : s.signalled = true)
    (hlen : len ≤ maxReply) (hw : ∀ r, s.phase = .writing r → r ≤ maxReply + 1)
    (h : s' ∈ own s len chunk) : s'.signalled = true ∧ dist maxReply s' < dist maxReply s :=
  own_dist hsig hlen hw h

/-- the writing bound used above is itself an invariant of runs whose replies are ≤ maxReply -/
theorem writing_bound {s s' : St} {len chunk maxReply : Nat} (hlen : len ≤ maxReply)
    (hw : ∀ r, s.phase = .writing r → r ≤ maxReply + 1) (h : s' ∈ own s len chunk) :
    ∀ r, s'.phase = .writing r → r ≤ maxReply + 1 := by
  unfold own at h
  cases hp : s.phase with
  | top => simp only [hp] at h; split at h <;> (simp only [List.mem_singleton] at h; subst h; intro r hr; simp at hr)
  | selecting =>
    simp only [hp, List.mem_append] at h
    rcases h with h | h <;> split at h <;> first | (simp only [List.mem_singleton] at h; subst h; intro r hr; simp at hr) | simp at h
  | executing =>
    simp only [hp, List.mem_singleton] at h; subst h
    intro r hr; simp at hr; omega
  | writing rem =>
    simp only [hp] at h
    have := hw rem hp
    split at h
    · simp only [List.mem_singleton] at h; subst h; intro r hr; simp at hr
    · simp only [List.mem_singleton] at h; subst h; intro r hr; simp at hr; omega
  | done => simp [hp] at h

/-- the distance is 0 exactly at `done` -/
theorem c16_done_iff (maxReply : Nat) (s : St) (h : dist maxReply s = 0) : s.phase = .done := by
  unfold dist at h
  cases hp : s.phase <;> simp [hp] at h
  · split at h <;> omega
  · rfl

/-! non-vacuity: a handler blocked in a store call when the signal fires still finishes its
    command, sends the whole 5-byte reply and only then leaves -/
example : ({ signalled := true, phase := .writing 6, applied := 1 } : St) ∈
    own { signalled := true, phase := .executing } 5 0 := by decide
example : ({ signalled := true, phase := .top, applied := 1, replied := 1, partialSent := 0 } : St) ∈
    own { signalled := true, phase := .writing 2, applied := 1, partialSent := 4 } 5 9 := by decide

end Shutdown
