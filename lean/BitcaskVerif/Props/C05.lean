/-
  C05 — compaction never changes what any key reads, now or after restart.

  `c05_now` holds at full strength.  `c05_restart` is FALSE at full strength on the code of the
  day (defect D3: a merge drops the tombstones of the selected files; an older value of a deleted
  key that survives in an unselected file comes back at the next open): see
  `c05_restart_counterexample`.  It is proved under the hypothesis `NoHazard s sel`
  (`c05_restart_partial`), and `c05_restart_iff` shows that this hypothesis is exactly what is
  missing: for every reachable state and every valid merge the restart preserves all reads if and
  only if `NoHazard s sel`.  Independently of the hypothesis, every key that is present before the
  merge reads the same after merge + restart (`c05_restart_present`): only deleted keys can be
  affected, and only by resurrection.

  Helper lemmas: `Store/MergeRecovery.lean`, `Store/RecInv.lean`, `Store/Reach.lean`.
-/
import BitcaskVerif.Store.Reach

namespace Store

/-- **C05 (now).** A merge pass over any subset `sel` of the existing files, with any KeyDir
    iteration order, leaves every key reading exactly as before (and keeps the invariant). -/
theorem c05_now (cfg : Cfg) (s : St) (sel : List Nat) (order : List Key) (h : Reach cfg s)
    (hsel : ∀ id, id ∈ sel → id ≤ s.active) (hcov : Covers order s) :
    (mergeWith cfg s sel order).1.abs = s.abs ∧ Inv (mergeWith cfg s sel order).1 :=
  ⟨(mergeWith_inv_abs cfg s sel order (reach_rinv h).inv hsel hcov).2,
   (mergeWith_inv_abs cfg s sel order (reach_rinv h).inv hsel hcov).1⟩

/-
  Full-strength statement — FALSE (D3), refuted by `c05_restart_counterexample`:

  theorem c05_restart (cfg : Cfg) (s : St) (sel : List Nat) (order : List Key) (h : Reach cfg s)
      (hsel : ∀ id, id ∈ sel → id ≤ s.active) (hcov : Covers order s) :
      (reopen (mergeWith cfg s sel order).1).1.abs = s.abs
-/

/-- **C05 (after restart), under `NoHazard`.** If no key absent from the index would be recovered
    from the unselected files alone, then after the merge, a close and a reopen every key reads
    exactly as before the merge. -/
theorem c05_restart_partial (cfg : Cfg) (s : St) (sel : List Nat) (order : List Key) (h : Reach cfg s)
    (hsel : ∀ id, id ∈ sel → id ≤ s.active) (hcov : Covers order s) (hz : NoHazard s sel) :
    (reopen (mergeWith cfg s sel order).1).1.abs = s.abs :=
  (merge_restart_iff cfg s sel order (reach_rinv h) hsel hcov).mpr hz

/-- … and after any number of close/reopen cycles. -/
theorem c05_restartN_partial (cfg : Cfg) (s : St) (sel : List Nat) (order : List Key) (h : Reach cfg s)
    (hsel : ∀ id, id ∈ sel → id ≤ s.active) (hcov : Covers order s) (hz : NoHazard s sel) (n : Nat) :
    (reopenN n (mergeWith cfg s sel order).1).abs = s.abs := by
  rw [(reopenN_abs n _ (mergeWith_rinv cfg s sel order (reach_rinv h) hsel hcov).1
    ((mergeWith_full_iff cfg s sel order (reach_rinv h) hsel hcov).mpr hz)).1]
  exact (c05_now cfg s sel order h hsel hcov).1

/-- **`NoHazard` is exactly the missing hypothesis**: for every reachable state and every valid
    merge, the restart preserves all reads if and only if the selection is hazard-free. -/
theorem c05_restart_iff (cfg : Cfg) (s : St) (sel : List Nat) (order : List Key) (h : Reach cfg s)
    (hsel : ∀ id, id ∈ sel → id ≤ s.active) (hcov : Covers order s) :
    (reopen (mergeWith cfg s sel order).1).1.abs = s.abs ↔ NoHazard s sel :=
  merge_restart_iff cfg s sel order (reach_rinv h) hsel hcov

/-- **C05 (after restart), keys that are present.** Without any hypothesis: a key that reads a
    value before the merge reads the same value after merge, close and reopen. -/
theorem c05_restart_present (cfg : Cfg) (s : St) (sel : List Nat) (order : List Key) (h : Reach cfg s)
    (hsel : ∀ id, id ∈ sel → id ≤ s.active) (hcov : Covers order s) (k : Key) (hk : s.abs k ≠ none) :
    (reopen (mergeWith cfg s sel order).1).1.abs k = s.abs k :=
  merge_restart_present cfg s sel order (reach_rinv h) hsel hcov k hk

/-- **C05 (after restart), in the design's wording**, for stores that have seen no merge yet
    (sets, deletes, reopens): if no key whose deciding record is a tombstone in a selected file
    has a value record in an unselected file, merge + restart preserves every read. -/
theorem c05_restart_partial_shadow (cfg : Cfg) (s : St) (sel : List Nat) (order : List Key)
    (h : ReachPD cfg s) (hsel : ∀ id, id ∈ sel → id ≤ s.active) (hcov : Covers order s)
    (hz : NoShadowedTombstoneDropped s sel) :
    (reopen (mergeWith cfg s sel order).1).1.abs = s.abs :=
  c05_restart_partial cfg s sel order h.toReach hsel hcov (noHazard_of_shadow (reachPD_rinv h).2 hz)

/-! ### the known finding (D3) -/

def d3Cfg : Cfg := { maxFile := 0 }
/-- value in file 0, tombstone in file 1, active file 2 -/
def d3St : St := (delete d3Cfg (put d3Cfg fresh 0 [107] [1]).1 0 [107]).1

/-- **C05 (after restart) fails at full strength**: set `k`, delete `k` (each entry in its own
    file), merge only the file holding the tombstone, reopen — `k` is back. -/
theorem c05_restart_counterexample :
    ∃ (cfg : Cfg) (s : St) (sel : List Nat) (order : List Key),
      Reach cfg s ∧ (∀ id, id ∈ sel → id ≤ s.active) ∧ Covers order s ∧
      (reopen (mergeWith cfg s sel order).1).1.abs ≠ s.abs := by
  refine ⟨d3Cfg, d3St, [1], [], .delete _ _ (.put _ _ _ .fresh), by decide, by decide, ?_⟩
  intro he
  have hk := congrFun he [107]
  have hasc : Asc (mergeWith d3Cfg d3St [1] []).1.disk.data := by decide
  have : reopen (mergeWith d3Cfg d3St [1] []).1 =
      openDiskWith (AL.keys (mergeWith d3Cfg d3St [1] []).1.disk.data) (mergeWith d3Cfg d3St [1] []).1.disk :=
    openDisk_eq_with hasc
  rw [this] at hk
  revert hk
  decide

/-- the witness indeed violates the hypothesis -/
example : ¬ NoHazard d3St [1] := by
  intro h
  have := h [107] (by decide)
  revert this
  decide

/-! ### non-vacuity of the hypothesis -/

/-- the history of `Props/C01` (rollover after every entry: value of key 2 in file 1, its
    tombstone in file 3, key 1 overwritten) -/
def demoSt : St := (run demoCfg fresh [.put [1] [10], .put [2] [20], .put [1] [11], .del [2]]).1

example : Reach demoCfg demoSt := reach_run demoCfg _ .fresh (by simp [ValidFrom])

/-- selecting the files of both the shadowed value and its tombstone (a strict subset of the
    files) is hazard-free … -/
example : NoHazard demoSt [1, 3] := noHazard_of_noStaleValue (by decide)
/-- … selecting only the tombstone's file is not -/
example : ¬ NoStaleValue demoSt [3] := by decide

/-- the design-wording hypothesis on the same instance (a store without earlier merges) -/
example : ReachPD demoCfg demoSt := reachPD_run demoCfg _ .fresh (by simp [NoMerge])
example : NoShadowedTombstoneDropped demoSt [1, 3] := by
  intro k e hl ht _ e' hm hek hq
  have hall : ∀ x ∈ allEvs demoSt.disk.data, x.loc.fid ∉ [1, 3] → x.key = [1] ∧ x.tomb = false := by decide
  have h1 := (hall e' hm hq).1
  rw [hek] at h1; subst h1
  have : lastFor [1] (allEvs demoSt.disk.data) = some ⟨[1], ⟨2, 0, 27, 0⟩, false⟩ := by decide
  rw [this] at hl; cases hl; cases ht

end Store
