/-
  C07 — the RESP parser is total: no input panics, aborts or mis-reads a number.

  Property theorems only (helper lemmas live in Resp/*Lemmas.lean). The model
  (`Resp/Model.lean`) has an explicit `panic` outcome at every index, `advance`, overflow and
  underflow site of `src/net/frame.rs`, so the statements below are about the Rust failure
  modes and are not artefacts of Lean's totality.
-/
import BitcaskVerif.Resp.ParseLemmas

namespace Resp

/-- value of a list of ASCII digits -/
def digitsValue (ds : List UInt8) : Nat := ds.foldl (fun acc d => acc * 10 + dvalN d) 0

theorem decNat_eq_digitsValue (buf : Buf) (i n : Nat) :
    decNat buf i n = digitsValue ((List.range n).map fun j => buf[i+j]!) := by
  induction n with
  | zero => simp [decNat, digitsValue]
  | succ n ih =>
    simp only [decNat, ih, digitsValue, List.range_succ, List.map_append, List.foldl_append,
      List.map_cons, List.map_nil, List.foldl_cons, List.foldl_nil]

/-- **C07 (totality of the completeness check).** For every byte string, `Frame::check` returns
    a length, `Incomplete` or an error — never a panic (index out of bounds, `advance` past the
    end, arithmetic overflow, `usize` underflow), and the recursion's fuel never runs out. -/
theorem c07_check_total (buf : Buf) :
    (∃ n, check buf = .ok n) ∨ check buf = .incomplete ∨ (∃ e, check buf = .err e) := by
  have := check_no_panic buf
  cases h : check buf with
  | ok n => exact .inl ⟨n, rfl⟩
  | incomplete => exact .inr (.inl rfl)
  | err e => exact .inr (.inr ⟨e, rfl⟩)
  | panic => exact absurd h this

/-- **C07 (totality of parsing)**, for `Frame::parse` called on its own on any bytes
    (not only behind `check`). -/
theorem c07_parse_total (buf : Buf) :
    (∃ f n, parse buf = .ok (f, n)) ∨ parse buf = .incomplete ∨ (∃ e, parse buf = .err e) := by
  have := parse_no_panic buf
  cases h : parse buf with
  | ok r => exact .inl ⟨r.1, r.2, rfl⟩
  | incomplete => exact .inr (.inl rfl)
  | err e => exact .inr (.inr ⟨e, rfl⟩)
  | panic => exact absurd h this

/-- what `Connection::parse_frame` (check, parse from 0, advance by the checked length) does
    with any buffer never panics — in particular the final `advance(len)` stays inside it -/
theorem c07_parse_frame_total (buf : Buf) : parseFrame buf ≠ .panic := parseFrame_no_panic buf

/-- **C07 (whenever the check accepts n bytes, parsing does not succeed with another length).** -/
theorem c07_check_parse_len (buf : Buf) (n m : Nat) (f : Frame)
    (hc : check buf = .ok n) (hp : parse buf = .ok (f, m)) : m = n := by
  have := parse_ok_check buf f m hp
  rw [hc] at this
  simp only [Out.ok.injEq] at this
  exact this.symm

/-- the accepted length is positive and inside the buffer (so `advance(len)` is safe and every
    accepted frame makes progress) -/
theorem c07_check_len_bounds (buf : Buf) (n : Nat) (h : check buf = .ok n) : 0 < n ∧ n ≤ buf.size :=
  check_ok_bounds buf n h

/-- **C07 (every accepted decimal has exactly the value written, at every buffer offset).**
    If `get_integer` at cursor `pos` returns `v` and moves the cursor to `p'`, then the bytes
    between the optional sign and `p' - 2` are all ASCII digits (at least one), the byte at
    `p' - 2` is CR, `v` is the signed decimal value of exactly those digits, and `v` fits `i64`. -/
theorem c07_int_exact (buf : Buf) (pos : Nat) (v : Int) (p' : Nat)
    (h : getInteger buf pos = .ok (v, p')) :
    pos < buf.size ∧ p' ≤ buf.size ∧
    ∃ ndigits, 0 < ndigits ∧ p' = (signInfo buf pos).2 + ndigits + 2
      ∧ (∀ j, j < ndigits → isDigit (buf[(signInfo buf pos).2 + j]!) = true)
      ∧ buf[p' - 2]! = 13
      ∧ v = sgn (signInfo buf pos).1 *
            (digitsValue ((List.range ndigits).map fun j => buf[(signInfo buf pos).2 + j]!) : Int)
      ∧ I64Min ≤ v ∧ v ≤ I64Max := by
  obtain ⟨hp, idx, h1, h2, h3, h4, h5, h6, h7⟩ := getInteger_exact buf pos v p' h
  refine ⟨hp, h3, idx - (signInfo buf pos).2, by omega, by omega, h4, ?_, ?_, ?_⟩
  · have : p' - 2 = idx := by omega
    rw [this]; exact h5
  · rw [← decNat_eq_digitsValue]; exact h6
  · simpa [inI64] using h7

/-- **C07 (out-of-range numbers are rejected).** A well-terminated digit string whose signed
    value does not fit `i64` yields `NotInteger`, never a wrapped value. -/
theorem c07_int_reject (buf : Buf) (pos : Nat) (hp : pos < buf.size) (ndigits : Nat) (hn : 0 < ndigits)
    (hfit : (signInfo buf pos).2 + ndigits < buf.size - 1)
    (hd : ∀ j, j < ndigits → isDigit (buf[(signInfo buf pos).2 + j]!) = true)
    (hcr : buf[(signInfo buf pos).2 + ndigits]! = 13)
    (hout : ¬ (I64Min ≤ sgn (signInfo buf pos).1 *
              (digitsValue ((List.range ndigits).map fun j => buf[(signInfo buf pos).2 + j]!) : Int)
            ∧ sgn (signInfo buf pos).1 *
              (digitsValue ((List.range ndigits).map fun j => buf[(signInfo buf pos).2 + j]!) : Int) ≤ I64Max)) :
    getInteger buf pos = .err .notInteger := by
  apply getInteger_reject buf pos hp ((signInfo buf pos).2 + ndigits) (by omega) hfit
  · intro j hj; exact hd j (by omega)
  · exact hcr
  · have e : (signInfo buf pos).2 + ndigits - (signInfo buf pos).2 = ndigits := by omega
    rw [e, decNat_eq_digitsValue]
    simpa [inI64] using hout

/-- the integer reader itself never panics, at any cursor of any buffer -/
theorem c07_int_total (buf : Buf) (pos : Nat) : getInteger buf pos ≠ .panic :=
  getInteger_no_panic buf pos

/-! ### non-vacuity: the hypotheses above are met by concrete inputs -/

/-- `":1\r\n"`: the integer reader accepts at cursor 1 with value 1 -/
example : getInteger #[58, 49, 13, 10] 1 = .ok (1, 4) := by
  have := getInteger_accept #[58, 49, 13, 10] 1 (by decide) 2 (by decide) (by decide)
    (by intro j hj; have : j = 0 := by simp [signInfo] at hj; omega
        subst this; decide) (by decide) (by decide)
  simpa [signInfo, sgn, decNat, dvalN] using this

end Resp
