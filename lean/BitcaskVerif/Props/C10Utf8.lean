/-
  C10 (supplement) — what the model's UTF-8 validator accepts.

  `Resp.validUtf8` (Resp/Model.lean) models Rust's `std::str::from_utf8(..).is_ok()`; the server uses it
  to refuse keys that are not UTF-8. The theorems below say exactly which byte strings it accepts:
  the encodings of sequences of Unicode scalar values, and nothing else.

  Definitions (Resp/Utf8Spec.lean):
    `isScalar c`  — `c < 0xD800 ∨ (0xE000 ≤ c ∧ c < 0x110000)`, the Unicode scalar values;
    `encodeCp c`  — the UTF-8 encoding form of a code point (Unicode Standard Table 3-6), written with
                    natural-number division and remainder.
-/
import BitcaskVerif.Resp.Utf8Spec

namespace Resp

/-! ## 1. Completeness and soundness -/

/-- **Every encoding of scalar values is accepted.** Take any list of Unicode scalar values, encode
    each one in UTF-8 and concatenate: the validator accepts the result. -/
theorem validUtf8_complete (cs : List Nat) (h : ∀ c ∈ cs, isScalar c) :
    validUtf8 (cs.flatMap encodeCp) = true := by
  have := valid_flatMap_append cs h []
  rw [List.append_nil] at this
  rw [this]; rfl

/-- the hypothesis of `validUtf8_complete` holds for "k", "é", "日", "😀" -/
example : ∀ c ∈ [0x6B, 0xE9, 0x65E5, 0x1F600], isScalar c := by decide

/-- **Nothing else is accepted.** A byte string the validator accepts IS the concatenation of the
    UTF-8 encodings of some list of Unicode scalar values. Hence an accepted string contains no lone
    continuation byte, no byte 0xC0, 0xC1 or 0xF5..0xFF, no truncated sequence, no overlong form, no
    encoded surrogate and nothing above U+10FFFF — none of those is produced by `encodeCp` on a
    scalar value. -/
theorem validUtf8_sound (bs : List UInt8) (h : validUtf8 bs = true) :
    ∃ cs : List Nat, (∀ c ∈ cs, isScalar c) ∧ bs = cs.flatMap encodeCp :=
  valid_decode_aux bs.length bs (Nat.le_refl _) h

/-- the hypothesis of `validUtf8_sound` holds for the six bytes of "ké日" -/
example : validUtf8 [0x6B, 0xC3, 0xA9, 0xE6, 0x97, 0xA5] = true := by decide

/-- **Exact characterisation**: accepted ⇔ is the encoding of a list of scalar values. -/
theorem validUtf8_iff (bs : List UInt8) :
    validUtf8 bs = true ↔ ∃ cs : List Nat, (∀ c ∈ cs, isScalar c) ∧ bs = cs.flatMap encodeCp := by
  constructor
  · exact validUtf8_sound bs
  · rintro ⟨cs, hcs, rfl⟩
    exact validUtf8_complete cs hcs

/-- **One step of decoding.** An accepted non-empty byte string begins with the encoding of one scalar
    value, and the bytes after that encoding are accepted in their turn. -/
theorem validUtf8_cons_decode (b : UInt8) (rest : List UInt8) (h : validUtf8 (b :: rest) = true) :
    ∃ c r, isScalar c ∧ b :: rest = encodeCp c ++ r ∧ validUtf8 r = true := by
  obtain ⟨c, r, hs, he, hr, _⟩ := valid_cons_decomp b rest h
  exact ⟨c, r, hs, he, hr⟩

example : validUtf8 (0xE6 :: [0x97, 0xA5, 0x6B]) = true := by decide

/-- **Decoding is unique.** Two lists of scalar values with the same UTF-8 encoding are the same list:
    an accepted byte string stands for exactly one sequence of characters (the encodings of scalar
    values are prefix-free). -/
theorem utf8_decode_unique (cs cs' : List Nat) (h : ∀ c ∈ cs, isScalar c) (h' : ∀ c ∈ cs', isScalar c)
    (e : cs.flatMap encodeCp = cs'.flatMap encodeCp) : cs = cs' :=
  flatMap_encodeCp_inj cs cs' h h' e

example : (∀ c ∈ [0xE9, 0x1F600], isScalar c) ∧
    [0xE9, 0x1F600].flatMap encodeCp = [0xE9, 0x1F600].flatMap encodeCp := by decide

/-- Without the scalar-value hypothesis `encodeCp` is not injective (it is only meant for code points
    below 0x110000): 0x4010000 and 0x10000 get the same four bytes. This shows the hypothesis of
    `utf8_decode_unique` is needed, not that anything is wrong. -/
example : encodeCp 0x4010000 = encodeCp 0x10000 := by decide

/-! ## 2. Corollaries -/

/-- **First byte.** The first byte of an accepted string is ASCII or lies in 0xC2..0xF4: never a
    continuation byte (0x80..0xBF), never 0xC0 or 0xC1, never 0xF5..0xFF. -/
theorem validUtf8_first_byte (b : UInt8) (rest : List UInt8) (h : validUtf8 (b :: rest) = true) :
    b ≤ 0x7F ∨ (0xC2 ≤ b ∧ b ≤ 0xF4) := by
  simp only [UInt8.le_iff_toNat_le, UInt8.toNat_ofNat, Nat.reducePow, Nat.reduceMod]
  rw [validUtf8_cons_nat] at h
  apply Classical.byContradiction
  intro hn
  rw [if_neg (by omega), if_neg (by omega), if_neg (by omega), if_neg (by omega), if_neg (by omega),
    if_neg (by omega), if_neg (by omega), if_neg (by omega)] at h
  exact absurd h (by simp)

example : validUtf8 (0xC3 :: [0xA9]) = true := by decide

/-- **Accepted strings are closed under concatenation.** -/
theorem validUtf8_append (a b : List UInt8) (ha : validUtf8 a = true) (hb : validUtf8 b = true) :
    validUtf8 (a ++ b) = true := by
  obtain ⟨cs, hcs, rfl⟩ := validUtf8_sound a ha
  rw [valid_flatMap_append cs hcs b, hb]

example : validUtf8 [0xC3, 0xA9] = true ∧ validUtf8 [0xE6, 0x97, 0xA5] = true := by decide

/-- **A valid prefix can be stripped.** After an accepted string, the whole is accepted exactly when
    the remainder is (so a key cannot be made acceptable, or unacceptable, by a valid prefix). -/
theorem validUtf8_append_iff (a b : List UInt8) (ha : validUtf8 a = true) :
    validUtf8 (a ++ b) = validUtf8 b := by
  obtain ⟨cs, hcs, rfl⟩ := validUtf8_sound a ha
  exact valid_flatMap_append cs hcs b

example : validUtf8 [0xF0, 0x9F, 0x98, 0x80] = true := by decide

/-- **ASCII is accepted.** Every string of bytes ≤ 0x7F is accepted. -/
theorem validUtf8_ascii (bs : List UInt8) (h : ∀ b ∈ bs, b ≤ 0x7F) : validUtf8 bs = true := by
  induction bs with
  | nil => rfl
  | cons b r ih =>
    have hb := h b (by simp)
    rw [UInt8.le_iff_toNat_le] at hb
    rw [valid_head1 b r hb]
    exact ih (fun x hx => h x (by simp [hx]))

example : ∀ b ∈ ([0x6B, 0x65, 0x79, 0x00, 0x7F] : List UInt8), b ≤ 0x7F := by decide

/-- **One-byte strings.** A string of a single byte is accepted exactly when that byte is ASCII: a
    lone lead byte, a lone continuation byte and every byte ≥ 0x80 on its own are refused. -/
theorem validUtf8_singleton (b : UInt8) : validUtf8 [b] = true ↔ b ≤ 0x7F := by
  rw [UInt8.le_iff_toNat_le, validUtf8_cons_nat]
  simp only [UInt8.toNat_ofNat, Nat.reducePow, Nat.reduceMod]
  repeat' split
  all_goals first | omega | simp_all [validUtf8]

/-! ## 3. Concrete byte strings -/

/-- a lone continuation byte is refused -/
theorem reject_lone_cont_80 : validUtf8 [0x80] = false := by decide
/-- a lone continuation byte is refused -/
theorem reject_lone_cont_BF : validUtf8 [0xBF] = false := by decide
/-- the overlong two-byte form of U+0000 is refused -/
theorem reject_overlong2 : validUtf8 [0xC0, 0x80] = false := by decide
/-- the overlong three-byte form of U+0000 is refused -/
theorem reject_overlong3 : validUtf8 [0xE0, 0x80, 0x80] = false := by decide
/-- the overlong four-byte form of U+0000 is refused -/
theorem reject_overlong4 : validUtf8 [0xF0, 0x80, 0x80, 0x80] = false := by decide
/-- the encoded surrogate U+D800 is refused -/
theorem reject_surrogate : validUtf8 [0xED, 0xA0, 0x80] = false := by decide
/-- U+110000, the first value above the Unicode range, is refused -/
theorem reject_above_max : validUtf8 [0xF4, 0x90, 0x80, 0x80] = false := by decide
/-- bytes 0xF5..0xFF never appear -/
theorem reject_F5_FF : validUtf8 [0xF5, 0x80, 0x80, 0x80] = false ∧ validUtf8 [0xFF] = false := by decide
/-- an ASCII byte followed by a continuation byte is refused -/
theorem reject_k_cont : validUtf8 [0x6B, 0x80] = false := by decide
/-- truncated two-, three- and four-byte sequences are refused -/
theorem reject_truncated :
    validUtf8 [0xC3] = false ∧ validUtf8 [0xE6, 0x97] = false ∧ validUtf8 [0xF0, 0x9F, 0x98] = false := by
  decide

/-- "é" = U+00E9 encodes to C3 A9 and is accepted -/
theorem accept_e_acute : encodeCp 0xE9 = [0xC3, 0xA9] ∧ validUtf8 [0xC3, 0xA9] = true := by decide
/-- "日" = U+65E5 encodes to E6 97 A5 and is accepted -/
theorem accept_nichi : encodeCp 0x65E5 = [0xE6, 0x97, 0xA5] ∧ validUtf8 [0xE6, 0x97, 0xA5] = true := by decide
/-- "😀" = U+1F600 encodes to F0 9F 98 80 and is accepted -/
theorem accept_grinning :
    encodeCp 0x1F600 = [0xF0, 0x9F, 0x98, 0x80] ∧ validUtf8 [0xF0, 0x9F, 0x98, 0x80] = true := by decide
/-- the extreme scalar values U+0000, U+007F, U+0080, U+07FF, U+0800, U+D7FF, U+E000, U+FFFF, U+10000,
    U+10FFFF encode to the expected bytes -/
theorem encodeCp_extremes :
    encodeCp 0 = [0x00] ∧ encodeCp 0x7F = [0x7F] ∧ encodeCp 0x80 = [0xC2, 0x80] ∧
    encodeCp 0x7FF = [0xDF, 0xBF] ∧ encodeCp 0x800 = [0xE0, 0xA0, 0x80] ∧
    encodeCp 0xD7FF = [0xED, 0x9F, 0xBF] ∧ encodeCp 0xE000 = [0xEE, 0x80, 0x80] ∧
    encodeCp 0xFFFF = [0xEF, 0xBF, 0xBF] ∧ encodeCp 0x10000 = [0xF0, 0x90, 0x80, 0x80] ∧
    encodeCp 0x10FFFF = [0xF4, 0x8F, 0xBF, 0xBF] := by decide

/-! ## 4. Agreement with Lean's own `Char` and `String` -/

/-- `isScalar` is Lean's own validity condition for `Char`. -/
theorem isScalar_iff_validChar (n : Nat) : isScalar n ↔ n.isValidChar := isScalar_iff_isValidChar n

/-- **`encodeCp` is Lean's encoder on characters.** -/
theorem encodeCp_char (c : Char) : encodeCp c.toNat = String.utf8EncodeChar c := encodeCp_toNat c

/-- The UTF-8 bytes of a one-character `String` are `encodeCp` of its code point. -/
theorem encodeCp_singleton (c : Char) : (String.singleton c).toUTF8.data.toList = encodeCp c.toNat := by
  rw [toUTF8_data]; simp

/-- **Every Lean `String` is accepted**: the UTF-8 bytes of any `String` pass the validator. -/
theorem validUtf8_string (s : String) : validUtf8 s.toUTF8.data.toList = true := by
  rw [toUTF8_data]
  apply validUtf8_complete
  intro c hc
  obtain ⟨ch, _, rfl⟩ := List.mem_map.1 hc
  exact isScalar_char ch

/-- **Every accepted byte string is a Lean `String`**: it is the UTF-8 bytes of some `String`. -/
theorem validUtf8_is_string (bs : List UInt8) (h : validUtf8 bs = true) :
    ∃ s : String, s.toUTF8.data.toList = bs := by
  obtain ⟨cs, hcs, rfl⟩ := validUtf8_sound bs h
  obtain ⟨l, rfl⟩ := scalars_are_chars cs hcs
  exact ⟨String.ofList l, by rw [toUTF8_data, String.toList_ofList]⟩

example : validUtf8 [0x6B, 0xF0, 0x9F, 0x98, 0x80] = true := by decide

end Resp
