/-
  C13 — compaction reclaims space and never grows the store.

  For every state of a crash-free history (`AReach`, see `Props/C19.lean`) and every merge pass
  with a valid selection and iteration order: the total size of the data files does not
  increase; if every non-empty data file is selected it becomes exactly the total length of the
  live entries, which is the size of a fresh store holding only the live key-value pairs (entry
  length does not depend on the timestamp); and a second such merge changes nothing further.

  Helper lemmas: `Store/SizeLemmas.lean`, `Store/SizeOps.lean` (and the C19 files).
-/
import BitcaskVerif.Props.C19
import BitcaskVerif.Store.SizeOps

namespace Store
open Store.Stats

/-- **C13 (never grows).** A merge pass never increases the total size of the data files. -/
theorem c13_nonincreasing {s : St} (h : AReach s) (cfg : Cfg) (sel : List Nat) (order : List Key)
    (hsel : ∀ id, id ∈ sel → id ≤ s.active) (hcov : Covers order s) :
    storeSize (mergeWith cfg s sel order).1.disk ≤ storeSize s.disk := by
  have g := areach_good h
  rw [(mergeWith_size cfg s sel order g.inv g.acc hsel hcov).1, storeSize_split sel s.disk]
  have := liveIn_le_sizeIn g.inv g.acc g.wf sel
  omega

/-- **C13 (lower bound).** The live entries never exceed the store. -/
theorem c13_lower {s : St} (h : AReach s) : liveSize s ≤ storeSize s.disk :=
  let g := areach_good h
  liveSize_le_storeSize g.inv g.acc g.wf

/-- **C13 (exact).** When every non-empty data file is selected, the merge leaves the store
    exactly as large as the live entries. -/
theorem c13_exact {s : St} (h : AReach s) (cfg : Cfg) (sel : List Nat) (order : List Key)
    (hsel : ∀ id, id ∈ sel → id ≤ s.active) (hcov : Covers order s) (hall : SelectsAll s sel) :
    storeSize (mergeWith cfg s sel order).1.disk = liveSize s := by
  have g := areach_good h
  rw [(mergeWith_size cfg s sel order g.inv g.acc hsel hcov).1,
    sizeOut_zero_of_all g.wf hall, liveIn_all g.inv g.acc hall]
  omega

/-- **C13 (the live size is the size of the live pairs).** Every KeyDir entry has the length
    `pairSize k v` of an entry holding the key and the value it reads — whatever its timestamp. -/
theorem c13_live_pairs {s : St} (h : AReach s) :
    liveSize s = ((livePairs s).map fun (k, v) => pairSize k v).sum :=
  let g := areach_good h
  liveSize_eq_pairs g.inv g.acc

/-- **C13 (… which is the size of a fresh store holding them).** Setting any list of pairs in a
    fresh store, under any configuration, yields data files of total size `Σ pairSize`. -/
theorem c13_fresh_size (cfg : Cfg) (kvs : List (Key × Val)) :
    storeSize (putAll cfg fresh kvs).disk = (kvs.map fun (k, v) => pairSize k v).sum := by
  have := putAll_size cfg kvs fresh fresh_inv
  rw [this]
  simp [fresh, storeSize, fileSize]

/-- **C13 (exact, against the reference store).** After a merge that selects every non-empty
    file, the store is exactly as large as a fresh store into which only the live pairs are set. -/
theorem c13_exact_fresh {s : St} (h : AReach s) (cfg cfg' : Cfg) (sel : List Nat) (order : List Key)
    (hsel : ∀ id, id ∈ sel → id ≤ s.active) (hcov : Covers order s) (hall : SelectsAll s sel) :
    storeSize (mergeWith cfg s sel order).1.disk = storeSize (putAll cfg' fresh (livePairs s)).disk := by
  rw [c13_exact h cfg sel order hsel hcov hall, c13_fresh_size, c13_live_pairs h]

/-- **C13 (idempotent).** Repeating such a merge (any configuration, any valid selection that
    again contains every non-empty file, any order) changes nothing further: the size stays the
    live size, which the merge passes do not change. -/
theorem c13_idem {s : St} (h : AReach s) (cfg : Cfg) (sel : List Nat) (order : List Key)
    (hsel : ∀ id, id ∈ sel → id ≤ s.active) (hcov : Covers order s) (hall : SelectsAll s sel)
    (cfg' : Cfg) (sel' : List Nat) (order' : List Key)
    (hsel' : ∀ id, id ∈ sel' → id ≤ (mergeWith cfg s sel order).1.active)
    (hcov' : Covers order' (mergeWith cfg s sel order).1)
    (hall' : SelectsAll (mergeWith cfg s sel order).1 sel') :
    storeSize (mergeWith cfg' (mergeWith cfg s sel order).1 sel' order').1.disk = liveSize s ∧
    storeSize (mergeWith cfg' (mergeWith cfg s sel order).1 sel' order').1.disk =
      storeSize (mergeWith cfg s sel order).1.disk := by
  have g := areach_good h
  have h1 : AReach (mergeWith cfg s sel order).1 := .merge cfg s sel order h hsel hcov
  have e1 := c13_exact h1 cfg' sel' order' hsel' hcov' hall'
  have e2 := (mergeWith_size cfg s sel order g.inv g.acc hsel hcov).2
  have e3 := c13_exact h cfg sel order hsel hcov hall
  rw [e1, e2, e3]
  exact ⟨rfl, rfl⟩

/-! ### the selection made by the thresholds (`merge` = `mergeWith` on `selectFiles`) -/

/-- the files the thresholds select are existing ones: `merge` is always a valid merge pass -/
theorem c13_select_valid {s : St} (h : AReach s) (cfg : Cfg) :
    ∀ id, id ∈ selectFiles cfg s → id ≤ s.active :=
  let g := areach_good h
  selectFiles_valid cfg g.inv g.acc

/-- **C13 (never grows), for the threshold-driven `merge`.** -/
theorem c13_merge_nonincreasing {s : St} (h : AReach s) (cfg : Cfg) (order : List Key)
    (hcov : Covers order s) : storeSize (merge cfg s order).1.disk ≤ storeSize s.disk :=
  c13_nonincreasing h cfg _ order (c13_select_valid h cfg) hcov

/-- **C13 (eligibility).** When every data file is smaller than the small-file threshold, the
    thresholds select every non-empty data file … -/
theorem c13_all_eligible {s : St} (h : AReach s) (cfg : Cfg)
    (hsmall : ∀ f, f ∈ AL.keys s.disk.data → fileSize (dataOf s.disk f) < cfg.smallFile) :
    SelectsAll s (selectFiles cfg s) :=
  let g := areach_good h
  selectFiles_all cfg g.acc g.wf hsmall

/-- … so the threshold-driven `merge` shrinks the store to exactly the live entries. -/
theorem c13_merge_exact {s : St} (h : AReach s) (cfg : Cfg) (order : List Key) (hcov : Covers order s)
    (hsmall : ∀ f, f ∈ AL.keys s.disk.data → fileSize (dataOf s.disk f) < cfg.smallFile) :
    storeSize (merge cfg s order).1.disk = liveSize s :=
  c13_exact h cfg _ order (c13_select_valid h cfg) hcov (c13_all_eligible h cfg hsmall)

/-! ### non-vacuity: a store with garbage in four files; selecting all of them leaves 27 bytes,
    the one live pair; selecting again (the output file) leaves 27 bytes -/

def c13Ops : List Op := [.put [1] [10], .put [2] [20], .put [1] [11], .del [2]]

example : SelectsAll (run demoCfg fresh c13Ops).1 [0, 1, 2, 3] := by decide
example : ∀ id, id ∈ [0, 1, 2, 3] → id ≤ (run demoCfg fresh c13Ops).1.active := by decide
example : Covers [[1], [2]] (run demoCfg fresh c13Ops).1 := by decide
example : storeSize (run demoCfg fresh c13Ops).1.disk = 99 := by decide
example : liveSize (run demoCfg fresh c13Ops).1 = 27 := by decide
example : storeSize (mergeWith demoCfg (run demoCfg fresh c13Ops).1 [0, 1, 2, 3] [[1], [2]]).1.disk = 27 := by decide
example : SelectsAll (mergeWith demoCfg (run demoCfg fresh c13Ops).1 [0, 1, 2, 3] [[1], [2]]).1 [5] := by decide
example : livePairs (run demoCfg fresh c13Ops).1 = [([1], [11])] := by decide
example : ∀ f, f ∈ AL.keys (run demoCfg fresh c13Ops).1.disk.data →
    fileSize (dataOf (run demoCfg fresh c13Ops).1.disk f) < demoCfg.smallFile := by decide

end Store
