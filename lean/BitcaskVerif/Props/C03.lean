/-
  C03 — a crash at any instant loses no acknowledged write and corrupts nothing.

  If the process is killed at any point (inside a write, at a file rollover, inside recovery
  itself, ...), the directory it leaves behind can always be opened, the opened store contains
  every set and delete that had returned before the kill, and the single operation in flight is
  either fully applied or not applied at all.

  Failure model: a killed process leaves exactly the effects of a prefix of its file-system
  calls, the last of which — if it is an append — may be torn at ANY byte (`Cut`, Store/
  CutLemmas.lean: `Payload.raw bs` with `bs.length <` the entry's length; this covers every byte
  prefix of the entry's encoding, see `encRec_length`).  The frame theorems `c03_frame_*` show
  that the call list an operation returns is exactly its effect on the directory, so cuts of the
  call list are cuts of the real effect sequence.

  Helper lemmas: Store/CutLemmas.lean (cuts, frame lemmas), Store/CutRecover.lean (what `openDisk`
  recovers from a cut directory), Store/CutHistory.lean (lives), Store/CutMerge.lean (copy phase
  of a merge), Store/CutUnlink.lean (unlink phase, whole merge), Store/CutHazard.lean (ascending
  removal order).
-/
import BitcaskVerif.Store.CutHistory
import BitcaskVerif.Store.CutHazard
import BitcaskVerif.Store.CodecLemmas

namespace Store

open Tr

/-! ### the call list of an operation is its effect on the directory -/

theorem c03_frame_put (cfg : Cfg) (s : St) (ts : Int) (k : Key) (v : Val) :
    applyCalls s.disk (put cfg s ts k v).2 = (put cfg s ts k v).1.disk := put_frame cfg s ts k v

theorem c03_frame_delete (cfg : Cfg) (s : St) (ts : Int) (k : Key) :
    applyCalls s.disk (delete cfg s ts k).2.2 = (delete cfg s ts k).1.disk := delete_frame cfg s ts k

theorem c03_frame_merge (cfg : Cfg) (s : St) (sel : List Nat) (order : List Key) :
    applyCalls s.disk (mergeWith cfg s sel order).2 = (mergeWith cfg s sel order).1.disk :=
  mergeWith_frame cfg s sel order

theorem c03_frame_open (d : Disk) : applyCalls d (openDisk d).2 = (openDisk d).1.disk := openDisk_frame d

/-! ### one operation in flight -/

/-- **C03 (set).** In every state reachable by sets, deletes, reopens, kills and recoveries, for
    every cut `c` of the calls of `put k v` (call boundaries and every byte position inside the
    append): the directory opens to a store satisfying the store invariant (reads are sound), and
    it reads either exactly as before the `put` or exactly as after it. -/
theorem c03_put_cut (cfg : Cfg) (s : St) (h : ReachC cfg s) (ts : Int) (k : Key) (v : Val) (c : List Call)
    (hc : Cut (put cfg s ts k v).2 c) :
    ((openDisk (applyCalls s.disk c)).1.abs = s.abs ∨
     (openDisk (applyCalls s.disk c)).1.abs = s.abs.set k v) ∧
    Inv (openDisk (applyCalls s.disk c)).1 := by
  rcases put_cut_recovers cfg (reachC_rinv h).1 (reachC_rinv h).2 ts k v hc with r | r
  · exact ⟨.inl r.2.2, r.1.inv⟩
  · exact ⟨.inr r.2.2, r.1.inv⟩

/-- **C03 (delete).** -/
theorem c03_delete_cut (cfg : Cfg) (s : St) (h : ReachC cfg s) (ts : Int) (k : Key) (c : List Call)
    (hc : Cut (delete cfg s ts k).2.2 c) :
    ((openDisk (applyCalls s.disk c)).1.abs = s.abs ∨
     (openDisk (applyCalls s.disk c)).1.abs = s.abs.del k) ∧
    Inv (openDisk (applyCalls s.disk c)).1 := by
  rcases delete_cut_recovers cfg (reachC_rinv h).1 (reachC_rinv h).2 ts k hc with r | r
  · exact ⟨.inl r.2.2, r.1.inv⟩
  · exact ⟨.inr r.2.2, r.1.inv⟩

/-- **C03 (crash during recovery itself).** `reopen` issues one call (it creates the next active
    file); whether or not it happened, the directory opens again to the same contents. -/
theorem c03_reopen_cut (cfg : Cfg) (s : St) (h : ReachC cfg s) (c : List Call) (hc : Cut (reopen s).2 c) :
    (openDisk (applyCalls s.disk c)).1.abs = s.abs ∧ Inv (openDisk (applyCalls s.disk c)).1 :=
  have r := reopen_cut_recovers (reachC_rinv h).1 (reachC_rinv h).2 hc
  ⟨r.2.2, r.1.inv⟩

/-- the states of C02 (`ReachPD`) are among those of `c03_put_cut` / `c03_delete_cut` -/
theorem c03_reachPD (cfg : Cfg) (s : St) (h : ReachPD cfg s) : ReachC cfg s := h.toReachC

/-- **C03 for states reached with merges** (`Reach`): the same statements hold provided nothing
    absent is resurrectable in `s` (`Full s`; it can fail only after a merge that dropped a
    tombstone shadowing an older value, defect D3 — `mergeWith_full_iff`). -/
theorem c03_put_cut_reach_partial (cfg : Cfg) (s : St) (h : Reach cfg s) (hf : Full s) (ts : Int) (k : Key)
    (v : Val) (c : List Call) (hc : Cut (put cfg s ts k v).2 c) :
    ((openDisk (applyCalls s.disk c)).1.abs = s.abs ∨
     (openDisk (applyCalls s.disk c)).1.abs = s.abs.set k v) ∧
    Inv (openDisk (applyCalls s.disk c)).1 := by
  rcases put_cut_recovers cfg (reach_rinv h) hf ts k v hc with r | r
  · exact ⟨.inl r.2.2, r.1.inv⟩
  · exact ⟨.inr r.2.2, r.1.inv⟩

theorem c03_delete_cut_reach_partial (cfg : Cfg) (s : St) (h : Reach cfg s) (hf : Full s) (ts : Int) (k : Key)
    (c : List Call) (hc : Cut (delete cfg s ts k).2.2 c) :
    ((openDisk (applyCalls s.disk c)).1.abs = s.abs ∨
     (openDisk (applyCalls s.disk c)).1.abs = s.abs.del k) ∧
    Inv (openDisk (applyCalls s.disk c)).1 := by
  rcases delete_cut_recovers cfg (reach_rinv h) hf ts k hc with r | r
  · exact ⟨.inl r.2.2, r.1.inv⟩
  · exact ⟨.inr r.2.2, r.1.inv⟩

/-! ### histories -/

/-- **C03 (one life, merge-free histories).** From any state `s` reachable by merge-free
    operations, kills and recoveries: after the acknowledged operations `ops` and a kill at any
    cut `c` of the next operation `op`, the recovered store reads as the abstract map after the
    acknowledged operations, with `op` applied or not applied; it satisfies the store invariant,
    no read hits a bad location, and it is again such a reachable state — so the statement
    applies to the next life as well ("crash, recover, continue"). -/
theorem c03_history_partial (cfg : Cfg) (s : St) (h : ReachC cfg s) (ops : List TOp)
    (hops : ∀ o ∈ ops, mergeFree o) (op : TOp) (hop : mergeFree op) (c : List Call)
    (hc : Cut (stepC cfg (runC cfg s ops) op).2 c) :
    ((openDisk (applyCalls (runC cfg s ops).disk c)).1.abs = specRun s.abs ops ∨
     (openDisk (applyCalls (runC cfg s ops).disk c)).1.abs = specOp (specRun s.abs ops) op) ∧
    Inv (openDisk (applyCalls (runC cfg s ops).disk c)).1 ∧
    (∀ k, get (openDisk (applyCalls (runC cfg s ops).disk c)).1 k ≠ .corrupt) ∧
    ReachC cfg (openDisk (applyCalls (runC cfg s ops).disk c)).1 := by
  have hv : ValidLife cfg s ⟨ops, op, c⟩ := ⟨hops, hop, hc⟩
  obtain ⟨a, b⟩ := crashLife_spec cfg h ⟨ops, op, c⟩ hv
  exact ⟨b, (reachC_rinv a).1.inv, fun k => get_not_corrupt (reachC_rinv a).1.inv k, a⟩

/-- **C03 (any number of lives, merge-free histories).** Starting from a fresh store, after any
    sequence of lives — each a list of acknowledged sets / deletes / reads / reopens followed by
    a kill at any cut of one more operation, then recovery — the store satisfies the invariant
    and its contents are among those the specification allows: in every life all acknowledged
    operations applied, the one in flight applied or not. -/
theorem c03_lives_partial (cfg : Cfg) (lives : List Life) (hv : ValidLives cfg fresh lives) :
    SpecLives Map.empty lives (runLives cfg fresh lives).abs ∧ Inv (runLives cfg fresh lives) ∧
      ∀ k, get (runLives cfg fresh lives) k ≠ .corrupt := by
  obtain ⟨a, b⟩ := runLives_spec cfg lives ReachC.fresh hv
  rw [fresh_abs] at b
  exact ⟨b, (reachC_rinv a).1.inv, fun k => get_not_corrupt (reachC_rinv a).1.inv k⟩

/-! ### merge passes -/

/-- **C03 (merge), general form.** `s` reachable by sets, deletes, merges and reopens; `sel` any
    list of existing file ids, `order` any iteration order covering the KeyDir.  If for every
    prefix `done` of `sel` (the files already removed at the moment of the kill; `done = []` says
    that nothing absent is resurrectable in `s` itself) the files outside `done` do not
    resurrect an absent key, then EVERY cut of the merge pass — creation of the outputs, every
    data append / hint append (torn at any byte), output rollover, the fsyncs, each unlink, the
    creation of the new active file — leaves a directory that opens to a store satisfying the
    invariant and reading exactly as before the merge. -/
theorem c03_merge_cut_prefixes_partial (cfg : Cfg) (s : St) (h : Reach cfg s) (sel : List Nat)
    (order : List Key) (hsel : ∀ id, id ∈ sel → id ≤ s.active) (hcov : Covers order s)
    (hz : ∀ done, done <+: sel → NoHazard s done) (c : List Call)
    (hc : Cut (mergeWith cfg s sel order).2 c) :
    (openDisk (applyCalls s.disk c)).1.abs = s.abs ∧ Inv (openDisk (applyCalls s.disk c)).1 :=
  have r := mergeWith_cut_recovers cfg (reach_rinv h) sel order hsel hcov hz hc
  ⟨r.2, r.1⟩

/-- **C03 (merge).** With the selected files in ascending id order (as `selectFiles` yields them
    and as the code removes them), it suffices that nothing absent is resurrectable in `s`
    (`Full s`) and that the complete selection is hazard-free (`NoHazard s sel`, the hypothesis
    of C05's restart theorem, defect D3): every cut of the merge pass opens to exactly the
    contents before the merge.  (`Full s` is needed as soon as `s` itself was produced by a
    hazardous merge: then already `reopen s` differs from `s`, `c05_restart_iff`.) -/
theorem c03_merge_cut_partial (cfg : Cfg) (s : St) (h : Reach cfg s) (sel : List Nat) (order : List Key)
    (hsel : ∀ id, id ∈ sel → id ≤ s.active) (hcov : Covers order s) (hsorted : sel.Pairwise (· ≤ ·))
    (hf : Full s) (hz : NoHazard s sel) (c : List Call) (hc : Cut (mergeWith cfg s sel order).2 c) :
    (openDisk (applyCalls s.disk c)).1.abs = s.abs ∧ Inv (openDisk (applyCalls s.disk c)).1 :=
  c03_merge_cut_prefixes_partial cfg s h sel order hsel hcov
    (fun _ hd => noHazard_prefix_of_sorted (reach_rinv h).asc hf hsorted hz hd) c hc

/-- **C03 (merge, copy phase only) needs no hazard hypothesis about `sel`**: up to the last call
    before the first unlink all sources are intact; only `Full s` is needed. -/
theorem c03_merge_copy_cut_partial (cfg : Cfg) (s : St) (h : Reach cfg s) (hf : Full s) (sel : List Nat)
    (order : List Key) (hsel : ∀ id, id ∈ sel → id ≤ s.active) (c : List Call)
    (hc : Cut (mergeLoop cfg s sel order).calls c) :
    (openDisk (applyCalls s.disk c)).1.abs = s.abs ∧ Inv (openDisk (applyCalls s.disk c)).1 :=
  have r := mergeLoop_cuts cfg (reach_rinv h) hf sel hsel order hc
  ⟨r.2, r.1⟩

/-- the calls of the copy phase are a prefix of the calls of the merge pass -/
theorem c03_merge_copy_prefix (cfg : Cfg) (s : St) (sel : List Nat) (order : List Key) :
    ∃ post, (mergeWith cfg s sel order).2 = (mergeLoop cfg s sel order).calls ++ post :=
  mergeWith_calls_prefix cfg s sel order

/-- **C03 (histories with merges).** `s` reachable by sets, deletes, reads, reopens, hazard-free
    merge passes (`opOk`: existing files in ascending order, covering iteration order,
    `NoHazard`), and kills inside merge-free operations followed by recovery.  After the
    acknowledged operations `ops` (merges included) and a kill at ANY cut of the next operation
    `op` — a merge pass included — the directory opens to a store that satisfies the invariant,
    never reads a bad location, and reads as the abstract map after `ops`, with `op` applied or
    not (a merge does not change the map).  If `op` is not a merge the recovered state is again
    such a reachable state.  (After a kill inside a merge the recovered store in general does
    not satisfy `HintsExact` — an output data file may hold one record its hint file does not
    list — so further lives after that are outside this theorem.) -/
theorem c03_history_merge_partial (cfg : Cfg) (s : St) (h : ReachM cfg s) (ops : List TOp)
    (hv : ValidOps cfg s ops) (op : TOp) (hop : opOk (runC cfg s ops) op) (c : List Call)
    (hc : Cut (stepC cfg (runC cfg s ops) op).2 c) :
    ((openDisk (applyCalls (runC cfg s ops).disk c)).1.abs = specRun s.abs ops ∨
     (openDisk (applyCalls (runC cfg s ops).disk c)).1.abs = specOp (specRun s.abs ops) op) ∧
    Inv (openDisk (applyCalls (runC cfg s ops).disk c)).1 ∧
    (∀ k, get (openDisk (applyCalls (runC cfg s ops).disk c)).1 k ≠ .corrupt) ∧
    (mergeFree op → ReachM cfg (openDisk (applyCalls (runC cfg s ops).disk c)).1) := by
  obtain ⟨a, b, e⟩ := runC_rinv_ok cfg ops (reachM_rinv h).1 (reachM_rinv h).2 hv
  have hi : Inv (openDisk (applyCalls (runC cfg s ops).disk c)).1 := by
    rcases stepC_cut_recoversW cfg a b op hop hc with r | r <;> exact r.1
  refine ⟨?_, hi, fun k => get_not_corrupt hi k, fun hm => .crash op c (reachM_runC ops h hv) hm hc⟩
  rcases stepC_cut_recoversW cfg a b op hop hc with r | r
  · left; rw [← e]; exact r.2
  · right; rw [← e]; exact r.2

/-! #### the removal order matters -/



def cexCfg : Cfg := { maxFile := 0 }
/-- file 0: `set [1] [10]`, file 1: `delete [1]`, file 2: active and empty -/
def cexSt : St := (delete cexCfg (put cexCfg fresh 0 [1] [10]).1 0 [1]).1
/-- the merge of both files, killed after the FIRST unlink -/
def cexCutDesc : List Call :=
  [.create ⟨.data, 3⟩, .create ⟨.hint, 3⟩, .fsync ⟨.data, 3⟩, .fsync ⟨.hint, 3⟩, .unlink ⟨.data, 1⟩]
def cexCutAsc : List Call :=
  [.create ⟨.data, 3⟩, .create ⟨.hint, 3⟩, .fsync ⟨.data, 3⟩, .fsync ⟨.hint, 3⟩, .unlink ⟨.data, 0⟩]

theorem cexSt_reach : ReachPD cexCfg cexSt := .delete _ _ (.put _ _ _ .fresh)

/-- the hypotheses of `c03_history_merge_partial` are satisfiable with an acknowledged merge and a
    merge in flight: two sets of the same key (files 0 and 1), a merge of file 0, a set, then a
    merge of files 1 and 3 that is killed -/
example : ValidOps cexCfg fresh [.put 0 [1] [10], .put 0 [1] [11], .merge [0] [[1]], .put 0 [2] [20]] ∧
    opOk (runC cexCfg fresh [.put 0 [1] [10], .put 0 [1] [11], .merge [0] [[1]], .put 0 [2] [20]])
      (.merge [1, 4] [[2], [1]]) :=
  ⟨⟨trivial, trivial, ⟨by decide, by decide, by decide, noHazard_of_noStaleValue (by decide)⟩, trivial, trivial⟩,
   ⟨by decide, by decide, by decide, noHazard_of_noStaleValue (by decide)⟩⟩


/-- **Descending removal order is unsafe**: all hypotheses of `c03_merge_cut_partial` except the
    ascending order hold, yet a kill after the first unlink (the file with the tombstone is gone,
    the file with the old value is still there) resurrects the deleted key. -/
theorem c03_merge_descending_counterexample :
    Reach cexCfg cexSt ∧ Full cexSt ∧ NoHazard cexSt [1, 0] ∧ (∀ id, id ∈ [1, 0] → id ≤ cexSt.active) ∧
    Covers [] cexSt ∧ Cut (mergeWith cexCfg cexSt [1, 0] []).2 cexCutDesc ∧
    cexSt.abs [1] = none ∧ (openDisk (applyCalls cexSt.disk cexCutDesc)).1.abs [1] = some [10] := by
  refine ⟨cexSt_reach.toReach, (reachPD_rinv cexSt_reach).2, noHazard_of_noStaleValue (by decide),
    by decide, by decide, .boundary _ [.unlink ⟨.data, 0⟩, .create ⟨.data, 4⟩] (by decide), by decide, ?_⟩
  rw [openDisk_eq_with (by decide)]
  decide

/-- the hypotheses of `c03_merge_cut_partial` are satisfiable: the same state and selection in
    ascending order, killed after the first unlink -/
example : Reach cexCfg cexSt ∧ Full cexSt ∧ NoHazard cexSt [0, 1] ∧ (∀ id, id ∈ [0, 1] → id ≤ cexSt.active) ∧
    Covers [] cexSt ∧ [0, 1].Pairwise (· ≤ ·) ∧ Cut (mergeWith cexCfg cexSt [0, 1] []).2 cexCutAsc :=
  ⟨cexSt_reach.toReach, (reachPD_rinv cexSt_reach).2, noHazard_of_noStaleValue (by decide),
    by decide, by decide, by decide, .boundary _ [.unlink ⟨.data, 1⟩, .create ⟨.data, 4⟩] (by decide)⟩

/-- and in that instance the deleted key stays deleted (as the theorem says) -/
example : (openDisk (applyCalls cexSt.disk cexCutAsc)).1.abs [1] = none := by
  rw [openDisk_eq_with (by decide)]
  decide

/-- a merge that copies a record, killed between the data append and the hint append (torn hint
    entry): hypotheses satisfiable with a non-trivial copy phase -/
def cexSt2 : St := (put cexCfg (put cexCfg fresh 0 [1] [10]).1 0 [2] [20]).1

example : Reach cexCfg cexSt2 ∧ Full cexSt2 ∧ NoHazard cexSt2 [0] ∧ Covers [[1], [2]] cexSt2 ∧
    Cut (mergeWith cexCfg cexSt2 [0] [[1], [2]]).2
      [.create ⟨.data, 3⟩, .create ⟨.hint, 3⟩, .append ⟨.data, 3⟩ (.ofRec ⟨0, [1], some [10]⟩),
       .append ⟨.hint, 3⟩ (.raw [0, 0, 0])] :=
  have hr : ReachPD cexCfg cexSt2 := .put _ _ _ (.put _ _ _ .fresh)
  ⟨hr.toReach, (reachPD_rinv hr).2, noHazard_of_noStaleValue (by decide), by decide,
   .torn [.create ⟨.data, 3⟩, .create ⟨.hint, 3⟩, .append ⟨.data, 3⟩ (.ofRec ⟨0, [1], some [10]⟩)]
     ⟨.hint, 3⟩ (.ofHint ⟨0, 27, 0, [1]⟩)
     [.fsync ⟨.data, 3⟩, .fsync ⟨.hint, 3⟩, .create ⟨.data, 4⟩, .create ⟨.hint, 4⟩, .fsync ⟨.data, 4⟩,
      .fsync ⟨.hint, 4⟩, .unlink ⟨.data, 0⟩, .create ⟨.data, 5⟩] [0, 0, 0] (by decide) (by decide)⟩

/-! ### the record-level cut model and bytes -/

/-- the number of bytes a `Cut` may leave of an entry ranges over all strict byte prefixes of its
    encoding: `payLen` is the length of the encoding -/
theorem c03_payLen_bytes (p : Payload) : payLen p = (encPayload p).length := by
  cases p with
  | ofRec r => exact (encRec_length r).symm
  | ofHint h => exact (encHint_length h).symm
  | raw bs => rfl

/-- **a torn append to a data file, at byte level**: if the file consists of the encodings of
    `rs` and the first `n` bytes (`n <` entry length) of the encoding of `r` were appended, the
    sequential decoder of the startup scan returns exactly `rs` — never an error — and `n` bytes
    remain after the last whole entry: records unchanged, `tails += n`, which is what `applyCall`
    does for `Payload.raw`. -/
theorem c03_bytes_torn_append (rs : List Rec) (hrs : ∀ x ∈ rs, x.Enc) (r : Rec) (hr : r.Enc) (n : Nat)
    (hn : n < r.len) :
    scanRecs ((rs.flatMap encRec ++ (encRec r).take n).length + 1) (rs.flatMap encRec ++ (encRec r).take n) = some rs ∧
    (rs.flatMap encRec ++ (encRec r).take n).length - fileSize rs = n := by
  have hl : ((encRec r).take n).length = n := by
    rw [List.length_take, encRec_length]; omega
  refine ⟨scanRecs_file rs hrs r hr _ (List.take_prefix _ _) (by rw [hl, encRec_length]; exact hn), ?_⟩
  rw [List.length_append, flatMap_encRec_length, hl]; omega

/-- **a complete append to a data file, at byte level** -/
theorem c03_bytes_whole_append (rs : List Rec) (hrs : ∀ x ∈ rs, x.Enc) (r : Rec) (hr : r.Enc) :
    scanRecs (((rs ++ [r]).flatMap encRec).length + 1) ((rs ++ [r]).flatMap encRec) = some (rs ++ [r]) ∧
    ((rs ++ [r]).flatMap encRec).length = fileSize (rs ++ [r]) := by
  have h := scanRecs_file (rs ++ [r]) (by
    intro x hx
    rcases List.mem_append.mp hx with hx | hx
    · exact hrs x hx
    · simp only [List.mem_singleton] at hx; subst hx; exact hr) r hr [] (List.nil_prefix)
    (by rw [encRec_length]; exact r.len_pos)
  rw [List.append_nil] at h
  exact ⟨h, flatMap_encRec_length _⟩

/-- **a torn append to a hint file, at byte level**: the hint scanner returns exactly the whole
    entries, so a torn hint entry is invisible (`applyCall` ignores `Payload.raw` on hint files) -/
theorem c03_bytes_torn_hint (hs : List Hint) (hhs : ∀ x ∈ hs, x.Enc) (h : Hint) (hh : h.Enc) (n : Nat)
    (hn : n < h.size) :
    scanHintsBytes ((hs.flatMap encHint ++ (encHint h).take n).length + 1)
      (hs.flatMap encHint ++ (encHint h).take n) = some hs := by
  have hl : ((encHint h).take n).length = n := by
    rw [List.length_take, encHint_length]; omega
  exact scanHintsBytes_file hs hhs h hh _ (List.take_prefix _ _) (by rw [hl, encHint_length]; exact hn)

/-- one data file at byte level with a torn last entry is, for the startup scan, the record-level
    directory with that many tail bytes -/
theorem c03_bytes_disk (id : Nat) (rs : List Rec) (hrs : ∀ x ∈ rs, x.Enc) (r : Rec) (hr : r.Enc) (n : Nat)
    (hn : n < r.len) (hpos : 0 < n) :
    ByteDisk.toDisk { data := [(id, rs.flatMap encRec ++ (encRec r).take n)], hint := [] } =
      some { data := [(id, rs)], hint := [], tails := [(id, n)] } := by
  have hl : ((encRec r).take n).length = n := by
    rw [List.length_take, encRec_length]; omega
  have := toDisk_single id rs hrs r hr _ (List.take_prefix (n) (encRec r)) (by rw [hl, encRec_length]; exact hn)
    (by rw [hl]; exact hpos)
  rw [hl] at this
  exact this

/-! ### non-vacuity -/

/-- with `sync = always` and a rollover after every entry a `put` issues three calls -/
example : (put { maxFile := 0, syncAlways := true } fresh 7 [1] [10]).2 =
    [.append ⟨.data, 0⟩ (.ofRec ⟨7, [1], some [10]⟩), .fsync ⟨.data, 0⟩, .create ⟨.data, 1⟩] := by decide

/-- a cut inside the append: 5 of the 27 bytes of the entry reached the file -/
example : Cut (put { maxFile := 0, syncAlways := true } fresh 7 [1] [10]).2
    [.append ⟨.data, 0⟩ (.raw [0, 0, 0, 0, 7])] :=
  .torn [] ⟨.data, 0⟩ (.ofRec ⟨7, [1], some [10]⟩) [.fsync ⟨.data, 0⟩, .create ⟨.data, 1⟩] [0, 0, 0, 0, 7]
    (by decide) (by decide)

/-- the directory it leaves: the old files plus 5 invisible bytes at the end of file 0 -/
example : applyCalls fresh.disk [.append ⟨.data, 0⟩ (.raw [0, 0, 0, 0, 7])] =
    { data := [(0, [])], hint := [], tails := [(0, 5)] } := rfl

/-- a cut between the fsync and the creation of the next file -/
example : Cut (put { maxFile := 0, syncAlways := true } fresh 7 [1] [10]).2
    [.append ⟨.data, 0⟩ (.ofRec ⟨7, [1], some [10]⟩), .fsync ⟨.data, 0⟩] :=
  .boundary _ [.create ⟨.data, 1⟩] (by decide)

/-- two lives: [put, delete | put torn], [reopen, put | delete cut before its append] -/
def demoLives : List Life :=
  [ ⟨[.put 1 [1] [10], .del 2 [1]], .put 3 [2] [20], [.append ⟨.data, 2⟩ (.raw [1, 2, 3])]⟩,
    ⟨[.reopen, .put 4 [1] [11]], .del 5 [1], []⟩ ]

example : ∀ l ∈ demoLives, (∀ o ∈ l.acked, mergeFree o) ∧ mergeFree l.inflight := by decide

/-- the first life is valid from a fresh store (rollover after every entry: the put in flight
    appends to file 2 and would create file 3) -/
example : ValidLife { maxFile := 0 } fresh ⟨[.put 1 [1] [10], .del 2 [1]], .put 3 [2] [20],
    [.append ⟨.data, 2⟩ (.raw [1, 2, 3])]⟩ :=
  ⟨by decide, trivial,
   .torn [] ⟨.data, 2⟩ (.ofRec ⟨3, [2], some [20]⟩) [.create ⟨.data, 3⟩] [1, 2, 3] (by decide) (by decide)⟩

end Store
