/-
  C04 — concurrent gets / sets / deletes with roll-overs and merges: never a panic, the reader
  pool is never diminished, linearizable, no deadlock.
  Theorems over the transition system `CStore.step` (`Conc/StoreLTS.lean`), for every event list,
  i.e. every interleaving of any number of reader, writer and merging threads at the granularity
  of the model (a writer can be preempted between any two chunks of a record, a reader between
  index lookup, open/map, remap test, slice, guard release and check-in).
-/
import BitcaskVerif.Conc.StoreLinStep
import BitcaskVerif.Conc.LinHist
import BitcaskVerif.Conc.StoreProgress
import BitcaskVerif.Conc.StoreMaps
import BitcaskVerif.Conc.StoreBound

namespace CStore

/-- **C04 (no panic).** With the remap test of the code of the day (`pos + len > mapped`), in
    every reachable state no thread is in a failure state: every `slice` lies inside the mapping
    after the remap test and reads the complete record the index entry promised, every `open` by
    name finds its file linked, the merge's copies read complete records. -/
theorem c04_safe (c : Cfg) (n : Nat) (s : Sys) (hfx : c.fixed = true) (h : Reachable c n s) :
    ∀ (t : Nat) (st : TState), s.threads[t]? = some st → st.isFailed = false :=
  (Inv.reachable h).safe.noFail hfx

/-- the D2 schedule: a reader maps the active file between the header chunk and the value chunk
    of a 9028-byte record (mapping = 59 bytes), a later `get` of that record with the same reader
    object passes the pinned remap test `pos ≥ mapped` (31 ≥ 59 is false) and slices 31..9059 -/
def d2Schedule : List Event :=
  [ (0, .invPut 1 5 30), (0, .lock), (0, .chunk 31), (0, .account), (0, .publish), (0, .unlock), (0, .resp),
    (0, .invPut 2 6 9027), (0, .lock), (0, .chunk 28),
    (1, .invGet 1), (1, .checkout), (1, .lookup), (1, .ensure []), (1, .remap), (1, .slice), (1, .release),
    (1, .checkin), (1, .resp),
    (0, .chunk 9000), (0, .account), (0, .publish), (0, .unlock), (0, .resp),
    (1, .invGet 2), (1, .checkout), (1, .lookup), (1, .ensure []), (1, .remap), (1, .slice) ]

def cfgPinned : Cfg := { cap := 1, maxFile := 100000, nsh := 0, shardFn := fun k => k, fixed := false }

/-- **C04 (the hypothesis `fixed` is load-bearing).** With the pinned remap test `pos ≥ mapped` a
    failure state is reachable: the `get` panics with its slice outside the mapping, the reader
    object is lost and the pool (capacity 1) stays empty. -/
theorem c04_safe_needs_fix :
    ∃ s, Reachable cfgPinned 2 s ∧
      s.threads[1]? = some (.failed .sliceOutOfMapping (some { id := 0, cache := [(0, 59)] })) ∧
      s.pool = [] := by
  refine ⟨(run cfgPinned (init 1 2) d2Schedule).get (by decide), ⟨d2Schedule, Option.some_get _ |>.symm⟩, ?_, ?_⟩ <;>
    decide

/-- the same schedule is harmless with the repaired test -/
example : ((run { cfgPinned with fixed := true } (init 1 2) d2Schedule).map
    fun s => s.threads[1]?) = some (some (.gSliced 2 { id := 0, cache := [(0, 9059)] } (some 6))) := by
  decide

/-- **C04 (pool).** In every reachable state every reader object is in the pool or checked out by
    exactly one `get` between `checkout` and `checkin`: earlier operations never reduce the
    ability to serve reads. -/
theorem c04_pool (c : Cfg) (n : Nat) (s : Sys) (hfx : c.fixed = true) (h : Reachable c n s) :
    s.pool.length + (s.threads.countP TState.holdsReader) = c.cap :=
  pool_exact hfx h

/-- **C04 (pool, any remap test).** Without the repair the accounting still holds if the readers
    lost by failed `get`s are counted. -/
theorem c04_pool_general (c : Cfg) (n : Nat) (s : Sys) (h : Reachable c n s) :
    s.pool.length + s.threads.countP TState.holdsReader + s.threads.countP TState.lostReader = c.cap :=
  (Inv.reachable h).pool

/-- **C04 (linearizable).** The invocations and responses of every execution (recorded in the
    ghost history together with the linearization points: index publish for `put` / `delete`,
    index lookup for `get`) are linearizable w.r.t. the map specification `mapSpec`: the completed
    operations — all of them, each once — and some of the pending ones can be put into one order
    that is a legal sequential run of the map with exactly the returned results and respects real
    time. Holds for every remap test (a failed `get` simply never responds). -/
theorem c04_lin (c : Cfg) (n : Nat) (s : Sys) (h : Reachable c n s) :
    Lin.TraceLinearizable mapSpec s.hist :=
  hist_linearizable h

/-- **C04 (linearizable, complete histories).** When every invoked operation has responded, the
    history of the execution — its completed operations with their invocation and response
    times — is linearizable in the plain sense of `Lin.Linearizable`. -/
theorem c04_lin_complete (c : Cfg) (n : Nat) (s : Sys) (h : Reachable c n s)
    (hq : Lin.Quiescent s.hist) :
    (∃ ops, Lin.HistoryOf s.hist ops) ∧
    ∀ ops, Lin.HistoryOf s.hist ops → Lin.Linearizable mapSpec ops := by
  obtain ⟨ops, ho, _⟩ := (hist_linearizable h).complete hq
  exact ⟨⟨ops, ho⟩, fun ops' ho' => (hist_linearizable h).history hq ho'⟩

/-- **C04 (linearizable, all operations completed).** In a reachable state in which every thread
    is idle again, the ghost history has no pending operation, it has a history (the list of its
    operations with invocation time, response time and result), and every listing of that history
    is linearizable w.r.t. the map. -/
theorem c04_lin_idle (c : Cfg) (n : Nat) (s : Sys) (h : Reachable c n s)
    (hidle : ∀ (t : Nat) (st : TState), s.threads[t]? = some st → st = .idle) :
    Lin.Quiescent s.hist ∧ (∃ ops, Lin.HistoryOf s.hist ops) ∧
      ∀ ops, Lin.HistoryOf s.hist ops → Lin.Linearizable mapSpec ops :=
  ⟨hist_quiescent h hidle, c04_lin_complete c n s h (hist_quiescent h hidle)⟩

/-- the value a `get` returns was fixed at its lookup: it is the abstract map's value at that
    moment (the ghost field `gv`), whatever happens between lookup and slice -/
theorem c04_get_value (c : Cfg) (n : Nat) (s : Sys) (h : Reachable c n s) (t : Nat) (pc : RPc)
    (k : Nat) (rd : Reader) (loc : Loc) (gv : Option Nat)
    (hth : s.threads[t]? = some (.gRead pc k rd loc gv)) :
    ∃ f r, s.file loc.fid = some f ∧ f.linked = true ∧ recAt f.recs loc.pos = some r ∧
      r.size = loc.len ∧ r.key = k ∧ r.val = gv ∧ loc.pos + loc.len ≤ f.size :=
  (Inv.reachable h).safe.guard_record hth

/-- **C04 (mappings).** Every cached mapping — of a pooled reader object, of a reader object in
    use (or lost), of the writer's own cache used by merge — is no longer than its file, also after
    the file was unlinked: a mapping is a prefix of the file's bytes. With `c04_safe` (the slice is
    inside the mapping) every slice reads bytes that exist. Holds for every remap test. -/
theorem c04_maps (c : Cfg) (n : Nat) (s : Sys) (h : Reachable c n s) :
    (∀ rd ∈ s.pool, CacheOK s rd.cache) ∧ CacheOK s s.wcache ∧
    ∀ (t : Nat) (st : TState) (rd : Reader), s.threads[t]? = some st → st.reader = some rd →
      CacheOK s rd.cache :=
  ⟨(MapInv.reachable h).pool, (MapInv.reachable h).wcache, (MapInv.reachable h).held⟩

/-- **C04 (no deadlock).** With the repaired remap test and a pool of at least one reader: in
    every reachable state in which some operation is pending, some thread with a pending
    operation can take a step that is neither a spin of the pool loop nor a new invocation
    (`Enabled`). Covers the whole lock structure of the model: the writer mutex, the shard read
    guards (publish and the merge's `enterShard` wait for them), the merge iterator's shard write
    lock (`lookup` waits for it), and the reader pool. -/
theorem c04_progress (c : Cfg) (n : Nat) (s : Sys) (hfx : c.fixed = true) (hcap : 0 < c.cap)
    (h : Reachable c n s)
    (hpend : ∃ (t : Nat) (st : TState), s.threads[t]? = some st ∧ st ≠ .idle) :
    ∃ (t : Nat) (a : Act), a ≠ .spin ∧ a.isInvoke = false ∧ (step c s (t, a)).isSome = true :=
  progress hfx hcap h hpend

/-- **C04 (every operation completes — own steps).** `budget c s st` bounds the number of steps a
    thread in state `st` still has to take itself: a `get` at most 8, a `put` / `delete` its
    remaining bytes plus 6, a merge twice the number of selected entries plus twice the number of
    shards plus the number of files to unlink plus a constant. Every own step of a pending
    operation strictly decreases it, except a spin of the pool loop, which changes nothing. -/
theorem c04_bounded_own (c : Cfg) (n : Nat) (s s' : Sys) (h : Reachable c n s) (t : Nat) (a : Act)
    (hstep : step c s (t, a) = some s') (st st' : TState) (hth : s.threads[t]? = some st)
    (hth' : s'.threads[t]? = some st') (hne : st ≠ .idle) :
    s' = s ∨ budget c s' st' < budget c s st :=
  own_step_decreases (Inv.reachable h).mutex (Inv.reachable h).safe (MergeAux.reachable h)
    (step_sound hstep) hth hth' hne

/-- **C04 (every operation completes — other threads).** No step of another thread changes the
    budget of an operation (a merge that still waits for the mutex excepted: its work is fixed
    when it gets the mutex). With `c04_progress` — whenever an operation is pending somebody can
    take a budget-decreasing step — every operation completes under a fair scheduler. -/
theorem c04_bounded_other (c : Cfg) (n : Nat) (s s' : Sys) (h : Reachable c n s) (t t' : Nat)
    (a : Act) (hstep : step c s (t', a) = some s') (hne : t ≠ t') (st : TState)
    (hth : s.threads[t]? = some st) (hst : ∀ sel, st ≠ .mInv sel) :
    s'.threads[t]? = some st ∧ budget c s' st = budget c s st := by
  refine ⟨?_, other_step_keeps (Inv.reachable h).mutex (step_sound hstep) hne hth hst⟩
  exact other_thread_unchanged (step_sound hstep) hne hth

/-- the state after the D2 schedule followed by the invocation of another `get` -/
def d2Wedged : Option Sys := run cfgPinned (init 1 2) (d2Schedule ++ [(0, .invGet 1)])

/-- **C04 (progress needs the fix, too).** After the D2 panic the pool of capacity 1 is empty for
    good: a later `get` can be invoked, cannot check a reader out, and can only spin. -/
theorem c04_progress_needs_fix :
    ∃ s, d2Wedged = some s ∧ s.threads[0]? = some (.gInv 1) ∧ s.pool = [] ∧
      step cfgPinned s (0, .checkout) = none ∧ (step cfgPinned s (0, .spin)).isSome = true := by
  refine ⟨d2Wedged.get (by decide), (Option.some_get _).symm, ?_, ?_, ?_, ?_⟩ <;> decide

/-! ### a non-trivial execution (non-vacuity of `Reachable`, and the model at work)

Two shards, files of at most 40 bytes, three threads: thread 0 writes (a record in two chunks, a
roll-over), thread 1 reads key 2 and holds the read guard of shard 0 while thread 2 starts a merge
of file 0 (the id 9 names no file and is ignored): the merge cannot enter shard 0 until the guard
is released, then copies and re-points key 2, unlinks file 0 and opens file 3; afterwards key 2 is
read from the merge output, key 1 is deleted and read as absent. -/

def cfgDemo : Cfg := { cap := 2, maxFile := 40, nsh := 1, shardFn := fun k => k, fixed := true }

def demo1 : List Event :=
  [ (0, .invPut 1 5 30), (0, .lock), (0, .chunk 20), (0, .chunk 11), (0, .account), (0, .publish), (0, .unlock), (0, .resp),
    (0, .invPut 2 6 30), (0, .lock), (0, .chunk 31), (0, .account), (0, .publish), (0, .unlock), (0, .resp),
    (0, .invPut 1 7 9), (0, .lock), (0, .chunk 10), (0, .account), (0, .publish), (0, .unlock), (0, .resp),
    (1, .invGet 2), (1, .checkout), (1, .lookup),
    (2, .invMerge [0, 9]), (2, .lock) ]

def demo2 : List Event :=
  [ (1, .ensure []), (1, .remap), (1, .slice), (1, .release),
    (2, .mEnter), (2, .mCopy 2), (2, .mRepoint), (2, .mLeave), (2, .mEnter), (2, .mLeave), (2, .mUnlink), (2, .mNewActive),
    (2, .unlock), (2, .resp), (1, .checkin), (1, .resp),
    (1, .invGet 2), (1, .checkout), (1, .lookup), (1, .ensure []), (1, .remap), (1, .slice), (1, .release), (1, .checkin), (1, .resp),
    (0, .invDel 1 4), (0, .lock), (0, .chunk 5), (0, .account), (0, .publish), (0, .unlock), (0, .resp),
    (1, .invGet 1), (1, .checkout), (1, .lookup), (1, .checkin), (1, .resp) ]

/-- while the reader holds its guard the merge is locked out of shard 0, a writer out of the mutex -/
example : ((run cfgDemo (init 2 3) demo1).map fun s =>
      (s.threads[1]?, s.mg.sel, (step cfgDemo s (2, .mEnter)).isSome, (step cfgDemo s (0, .invPut 3 3 3)).isSome)) =
    some (some (.gRead .looked 2 { id := 0 } ⟨0, 31, 31⟩ (some 6)), [0], false, true) := by decide

/-- the hypotheses of the theorems above are satisfiable in a non-trivial way: a reachable state of
    the repaired configuration in which a merge is running while a `get` holds a read guard -/
example : ∃ s, Reachable cfgDemo 3 s ∧ cfgDemo.fixed = true ∧ 0 < cfgDemo.cap ∧ s.mg.on = true ∧
    s.threads[2]? = some .merging ∧ (∃ st, s.threads[1]? = some st ∧ st ≠ .idle) :=
  ⟨(run cfgDemo (init 2 3) demo1).get (by decide), ⟨demo1, (Option.some_get _).symm⟩, rfl, by decide,
    by decide, by decide, .gRead .looked 2 { id := 0 } ⟨0, 31, 31⟩ (some 6), by decide, by decide⟩

/-- the whole schedule runs; at the end everybody is idle, both readers are back in the pool, file 0
    is unlinked, key 2 lives in the merge output (file 2), key 1 is gone, the active file is 3 -/
example : ((run cfgDemo (init 2 3) (demo1 ++ demo2)).map fun s =>
      (s.threads, s.index, s.amap, s.active)) =
    some ([.idle, .idle, .idle], [(2, ⟨2, 0, 31⟩)], [(2, 6)], 3) := by decide

example : ((run cfgDemo (init 2 3) (demo1 ++ demo2)).map fun s =>
      (s.pool.length, s.files.map fun x => (x.1, x.2.linked, x.2.size))) =
    some (2, [(0, false, 62), (1, true, 10), (2, true, 31), (3, true, 5)]) := by decide

/-- … and the replies recorded in the ghost history: the last three operations -/
example : ((run cfgDemo (init 2 3) (demo1 ++ demo2)).map fun s => s.hist.take 9) =
    some [.resp 1 (.found none), .lin 1 (.found none), .inv 1 (.get 1),
          .resp 0 (.deleted true), .lin 0 (.deleted true), .inv 0 (.del 1 4),
          .resp 1 (.found (some 6)), .lin 1 (.found (some 6)), .inv 1 (.get 2)] := by decide

end CStore
