/-
  C01 — the store behaves as a key-value map for every operation sequence.

  Refinement of the executable store model (`Store/Model.lean`, the definitions the driver runs
  against the real code) to the abstract map `Key → Option Val`, for every sequence of
  put / delete / get / merge, every configuration (`max_file_size` from 0 up, i.e. a rollover
  after every entry), every set of files a merge may select and every KeyDir iteration order.
-/
import BitcaskVerif.Store.MergeLemmas

namespace Store

inductive Op where
  | put (k : Key) (v : Val)
  | del (k : Key)
  | get (k : Key)
  /-- a merge pass that selects `sel` and whose KeyDir iterator yields `order` -/
  | merge (sel : List Nat) (order : List Key)

inductive OpOut where
  | done
  | flag (b : Bool)
  | read (r : GetRes)
deriving DecidableEq

/-- one operation of the model (timestamps do not influence any result; fixed to 0) -/
def step (cfg : Cfg) (s : St) : Op → St × OpOut
  | .put k v => ((put cfg s 0 k v).1, .done)
  | .del k => ((delete cfg s 0 k).1, .flag (delete cfg s 0 k).2.1)
  | .get k => (s, .read (get s k))
  | .merge sel order => ((mergeWith cfg s sel order).1, .done)

/-- one operation of the specification: a plain map; merges are invisible -/
def Map.step (m : Map) : Op → Map × OpOut
  | .put k v => (m.set k v, .done)
  | .del k => (m.del k, .flag (m k).isSome)
  | .get k => (m, .read (match m k with | some v => .value v | none => .absent))
  | .merge _ _ => (m, .done)

def run (cfg : Cfg) : St → List Op → St × List OpOut
  | s, [] => (s, [])
  | s, op :: ops =>
    let (s1, o) := step cfg s op
    let (s2, os) := run cfg s1 ops
    (s2, o :: os)

def Map.run : Map → List Op → Map × List OpOut
  | m, [] => (m, [])
  | m, op :: ops =>
    let (m1, o) := m.step op
    let (m2, os) := Map.run m1 ops
    (m2, o :: os)

/-- every merge in the sequence selects existing files (ids up to the active one at that moment)
    and its iteration order covers the KeyDir of that moment -/
def ValidFrom (cfg : Cfg) : St → List Op → Prop
  | _, [] => True
  | s, op :: ops =>
    (match op with
     | .merge sel order => (∀ id, id ∈ sel → id ≤ s.active) ∧ Covers order s
     | _ => True) ∧ ValidFrom cfg (step cfg s op).1 ops

/-- one step: the invariant is kept, the result is the map's, the abstraction commutes -/
theorem step_refines (cfg : Cfg) (s : St) (op : Op) (h : Inv s)
    (hv : match op with
          | .merge sel order => (∀ id, id ∈ sel → id ≤ s.active) ∧ Covers order s
          | _ => True) :
    Inv (step cfg s op).1 ∧ (step cfg s op).2 = (s.abs.step op).2 ∧
      (step cfg s op).1.abs = (s.abs.step op).1 := by
  cases op with
  | put k v => exact ⟨put_inv cfg s 0 k v h, rfl, put_abs cfg s 0 k v h⟩
  | del k =>
    obtain ⟨a, b⟩ := delete_abs cfg s 0 k h
    exact ⟨delete_inv cfg s 0 k h, by simp [step, Map.step, b], a⟩
  | get k =>
    refine ⟨h, ?_, rfl⟩
    simp only [step, Map.step, get_abs s k h]
    cases s.abs k <;> rfl
  | merge sel order =>
    obtain ⟨a, b⟩ := mergeWith_inv_abs cfg s sel order h hv.1 hv.2
    exact ⟨a, rfl, b⟩

/-- **C01.** From any state satisfying the invariant, every operation sequence produces exactly
    the results of the abstract map, ends in a state satisfying the invariant, and that state
    reads as the final map. -/
theorem c01_refines_from (cfg : Cfg) (ops : List Op) : ∀ (s : St), Inv s → ValidFrom cfg s ops →
    (run cfg s ops).2 = (Map.run s.abs ops).2 ∧ Inv (run cfg s ops).1 ∧
      (run cfg s ops).1.abs = (Map.run s.abs ops).1 := by
  induction ops with
  | nil => intro s h _; exact ⟨rfl, h, rfl⟩
  | cons op ops ih =>
    intro s h hv
    obtain ⟨i1, i2, i3⟩ := step_refines cfg s op h hv.1
    obtain ⟨j1, j2, j3⟩ := ih (step cfg s op).1 i1 hv.2
    simp only [run, Map.run]
    rw [i3] at j1 j3
    refine ⟨?_, j2, j3⟩
    rw [j1, i2]

/-- a freshly created store (open on an empty directory) -/
def fresh : St := { disk := { data := [(0, [])] } }

theorem fresh_eq_open : (openDisk {}).1 = fresh := by
  simp [fresh, openDisk, rebuild, sortedIds, AL.keys, AL.set]

theorem fresh_inv : Inv fresh := by
  constructor
  · intro k loc hk; simp [fresh] at hk
  · intro id hid; simp [fresh, AL.keys] at hid ⊢; omega
  · intro id hid; simp [fresh, AL.keys] at hid
  · simp [fresh, AL.get]

theorem fresh_abs : fresh.abs = Map.empty := by
  funext k
  apply abs_none_of_none
  simp [fresh]

/-- **C01 (from a fresh store).** Every get returns exactly the bytes of the most recent set of
    that key, or nothing; every delete reports whether the key was present — for all
    configurations, rollovers and merges in between. -/
theorem c01_refines (cfg : Cfg) (ops : List Op) (hv : ValidFrom cfg fresh ops) :
    (run cfg fresh ops).2 = (Map.run Map.empty ops).2 := by
  have := (c01_refines_from cfg ops fresh fresh_inv hv).1
  rw [fresh_abs] at this
  exact this

/-- **C01 (no read ever hits a bad location).** In every reachable state a read is a value or
    absent, never `corrupt` (the model's stand-in for a slice out of range / garbage decode). -/
theorem c01_reads_sound (cfg : Cfg) (ops : List Op) (hv : ValidFrom cfg fresh ops) (k : Key) :
    get (run cfg fresh ops).1 k ≠ .corrupt :=
  get_not_corrupt (c01_refines_from cfg ops fresh fresh_inv hv).2.1 k

/-! ### non-vacuity: a history that rolls over on every write, merges a strict subset and reads back -/

def demoCfg : Cfg := { maxFile := 0 }
def demoOps : List Op :=
  [.put [1] [10], .put [2] [20], .put [1] [11], .del [2], .merge [0, 2] [[1], [2]], .get [1], .get [2]]

example : ValidFrom demoCfg fresh demoOps := by
  simp only [demoOps, ValidFrom, and_true, true_and]
  decide
example : (run demoCfg fresh demoOps).2 =
    [.done, .done, .done, .flag true, .done, .read (.value [11]), .read .absent] := by decide

end Store
