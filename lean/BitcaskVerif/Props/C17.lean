/-
  C17 — a closed store rejects all use and stops its background worker.
-/
import BitcaskVerif.Conc.Close

namespace Close

/-- **C17 (every operation after the drop fails with `closed` and changes nothing on disk).** -/
theorem c17_closed (s : St) (n : Nat) (hc : s.closed = true) :
    (op s n).2 = .errClosed ∧ (op s n).1 = s := by
  simp [op, hc]

/-- the drop itself is what closes: from then on the flag stays set across every operation -/
theorem c17_drop_closes (s : St) : (drop s).closed = true := rfl

/-- **C17 (no further change on disk)**: after the drop, no step of the background worker —
    including the merge or sync it was about to start — issues a file-system call. -/
theorem c17_worker_silent {s s' : St} {k : Nat} (h : Steps s k s') (hc : s.closed = true) :
    s'.calls = s.calls := (steps_closed h hc).2.1

/-- **C17 (the worker exits promptly, wherever it was)**: from any state of the worker (sleeping
    with its timer pending or ready, about to check, about to merge or sync), once the store is
    dropped the worker can run at most 5 more steps of its own, it never needs to wait for its
    timer to take them, and when it cannot step any more it has exited. -/
theorem c17_worker_exits_bound {s s' : St} {k : Nat} (h : Steps s k s') (hc : s.closed = true) : k ≤ 5 := by
  have := (steps_closed h hc).2.2
  have hd : dist s ≤ 5 := by
    unfold dist; cases s.worker with
    | top => simp only; split <;> omega
    | selecting r => cases r <;> simp
    | fired => simp
    | acting => simp
    | exited => simp
  omega

theorem c17_worker_never_stuck (s : St) (want : Bool) (n : Nat) (hc : s.closed = true)
    (hne : s.worker ≠ .exited) : own s want n ≠ [] := own_progress s want n hc hne

/-- time passing does not resurrect anything: ticks keep the store closed and silent -/
theorem c17_tick_closed (s : St) (hc : s.closed = true) : (tick s).closed = true ∧ (tick s).calls = s.calls := by
  unfold tick; cases s.worker <;> simp [hc]

/-! non-vacuity: a worker sleeping with its timer far away exits in one own step after the drop -/
example : ({ closed := true, seen := true, worker := .exited } : St) ∈
    own (drop { worker := .selecting false }) false 0 := by decide
/-- about to merge at the moment of the drop: the merge is rejected, then the worker leaves -/
example : Steps (drop { worker := .acting, calls := 7 }) 3 { closed := true, seen := true, worker := .exited, calls := 7 } :=
  .step true 9 (s1 := { closed := true, worker := .top, calls := 7 }) (by decide)
    (.step true 9 (s1 := { closed := true, worker := .selecting false, calls := 7 }) (by decide)
      (.step true 9 (s1 := { closed := true, seen := true, worker := .exited, calls := 7 }) (by decide) (.refl _)))

end Close
