/-
  C12 — hint files are only an accelerator.

  For every state reachable by sets, deletes, merge passes (any selection, any iteration order,
  outputs rolling over into several files) and reopen cycles, deleting every hint file from the
  closed store changes nothing of what the next open recovers: not a single read
  (`c12_agree`), and in fact not the index, the per-file counters, the error flag or the id of
  the new active file (`c12_rebuild`).  Carried by the invariant `HintsExact` (part of `RInv`):
  every hint file lists exactly key, position, length and timestamp of every record of its data
  file, in order, and that data file contains no tombstone.

  Helper lemmas: `Store/Recovery.lean` (`rebuild_dropHints`), `Store/MergeRecovery.lean`,
  `Store/Reach.lean`.
-/
import BitcaskVerif.Store.Reach

namespace Store

/-- **C12 (strong form).** The startup scan of the directory without its hint files yields the
    same index, counters, flag and next file id as the scan that uses them. -/
theorem c12_rebuild (cfg : Cfg) (s : St) (h : Reach cfg s) :
    rebuild { s.disk with hint := [] } = rebuild s.disk :=
  rebuild_dropHints (reach_rinv h).hx

/-- **C12 (strong form, opened store).** The two opened stores differ in nothing but the hint
    files lying in the directory. -/
theorem c12_open (cfg : Cfg) (s : St) (h : Reach cfg s) :
    (openDisk { s.disk with hint := [] }).1 =
      { (openDisk s.disk).1 with disk := { (openDisk s.disk).1.disk with hint := [] } } := by
  have := c12_rebuild cfg s h
  simp only [openDisk, this]

/-- **C12.** Every key reads the same whether or not the hint files were deleted before the open. -/
theorem c12_agree (cfg : Cfg) (s : St) (h : Reach cfg s) :
    ∀ k, get (openDisk { s.disk with hint := [] }).1 k = get (openDisk s.disk).1 k := by
  intro k
  rw [c12_open cfg s h]
  exact get_congr_fun rfl rfl k

/-! ### non-vacuity: a reachable state with a non-empty hint file -/

/-- the history of `Props/C01` followed by its merge of files 0 and 2 -/
def hintSt : St := (run demoCfg fresh demoOps).1

example : Reach demoCfg hintSt := reach_run demoCfg _ .fresh (by
  simp only [demoOps, ValidFrom, and_true, true_and]
  decide)

example : hintSt.disk.hint = [(5, [{ ts := 0, len := 27, pos := 0, key := [1] }]), (6, [])] := by decide

end Store
