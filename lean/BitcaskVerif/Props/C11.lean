/-
  C11 — several clients issue SET, GET and single-key DEL concurrently on separate connections:
  all replies are consistent with a single order of the commands that respects real time and each
  connection's own order.

  The handler model: a connection handles one command at a time; for each command the store call
  happens (on a blocking thread) strictly between reading the request and writing the reply, and
  the reply carries the store call's result. So the network-level operation (request sent … reply
  received) is the store operation seen from further away (`Lin.Wider`), and the commands of one
  connection do not overlap (`Lin.SeqPerClient`). Nothing is added to the store LTS.
-/
import BitcaskVerif.Conc.StoreLinStep
import BitcaskVerif.Conc.LinHist

namespace CStore

open Lin

/-- **C11.** `ps` pairs every command as the clients see it (connection id, command, reply, time
    the request was sent, time the reply was received) with the store operation that served it.
    If the store operations form a linearizable history, the client-visible history is
    linearizable by an order that also respects each connection's own order. -/
theorem c11_lin (ps : List (OpRec Op Res × OpRec Op Res))
    (hcontain : ∀ p ∈ ps, Wider p.1 p.2)
    (hconn : SeqPerClient (ps.map Prod.fst))
    (hstore : Linearizable mapSpec (ps.map Prod.snd)) :
    LinearizablePO mapSpec (ps.map Prod.fst) :=
  widen_po ps hcontain hconn hstore

/-- **C11 on top of C04.** If the store operations are the history of a complete execution of the
    concurrent store, the client-visible history is linearizable. -/
theorem c11_lin_store (c : Cfg) (n : Nat) (s : Sys) (h : Reachable c n s)
    (ps : List (OpRec Op Res × OpRec Op Res))
    (hcontain : ∀ p ∈ ps, Wider p.1 p.2)
    (hconn : SeqPerClient (ps.map Prod.fst))
    (hhist : HistoryOf s.hist (ps.map Prod.snd)) (hq : Quiescent s.hist) :
    LinearizablePO mapSpec (ps.map Prod.fst) :=
  c11_lin ps hcontain hconn ((hist_linearizable h).history hq hhist)

/-- **C11 on top of C04, all commands answered.** The same when the execution ended with every
    store thread idle. -/
theorem c11_lin_idle (c : Cfg) (n : Nat) (s : Sys) (h : Reachable c n s)
    (hidle : ∀ (t : Nat) (st : TState), s.threads[t]? = some st → st = .idle)
    (ps : List (OpRec Op Res × OpRec Op Res))
    (hcontain : ∀ p ∈ ps, Wider p.1 p.2)
    (hconn : SeqPerClient (ps.map Prod.fst))
    (hhist : HistoryOf s.hist (ps.map Prod.snd)) :
    LinearizablePO mapSpec (ps.map Prod.fst) :=
  c11_lin_store c n s h ps hcontain hconn hhist (hist_quiescent h hidle)

/-- non-vacuity of the premises: two connections; connection 1 sets key 7 while connection 2 reads
    it twice, the first read overlapping the SET and still seeing nothing -/
example :
    let net : List (OpRec Op Res) :=
      [⟨1, .put 7 5 0, .unit, 0, 9⟩, ⟨2, .get 7, .found none, 1, 6⟩, ⟨2, .get 7, .found (some 5), 10, 14⟩]
    let store : List (OpRec Op Res) :=
      [⟨1, .put 7 5 0, .unit, 2, 8⟩, ⟨2, .get 7, .found none, 3, 5⟩, ⟨2, .get 7, .found (some 5), 11, 13⟩]
    (∀ p ∈ net.zip store, Wider p.1 p.2) ∧ SeqPerClient net ∧ Linearizable mapSpec store := by
  refine ⟨by simp [Wider], by simp [SeqPerClient], ?_⟩
  refine ⟨[⟨2, .get 7, .found none, 3, 5⟩, ⟨1, .put 7 5 0, .unit, 2, 8⟩, ⟨2, .get 7, .found (some 5), 11, 13⟩],
    ?_, ⟨_, ⟨rfl, rfl, ?_, rfl⟩⟩, by simp [Respects]⟩
  · exact List.Perm.swap _ _ _
  · simp [mapSpec]

end CStore
