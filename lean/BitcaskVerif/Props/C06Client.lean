/-
  C06, client side — `Client::{get,set,del}` against a server that answers as the map model says
  return exactly the map's answers; and what they make of any other reply.
-/
import BitcaskVerif.Resp.Client
import BitcaskVerif.Props.C06

namespace Resp

/-- **C06 (client get).** Against a server holding `m`, `Client::get k` returns exactly `m k`:
    the stored bytes, byte for byte, or nothing. -/
theorem c06_client_get (m : KV) (k : List UInt8) :
    cliCall m (.get k) = (m, .value (m k)) := by
  cases h : m k <;> simp [cliCall, applyCmd, cliGet, h]

/-- **C06 (client set).** `Client::set k v` succeeds and the server then holds `v` under `k`. -/
theorem c06_client_set (m : KV) (k v : List UInt8) :
    cliCall m (.set k v) = (m.set k v, .unit) := by
  simp [cliCall, applyCmd, cliSet]

/-- **C06 (client del).** `Client::del ks` returns the number of named keys that were present,
    each key counted as it is deleted in turn. -/
theorem c06_client_del (m : KV) (ks : List (List UInt8)) :
    cliCall m (.del ks) = ((delAll m ks).1, .count (delAll m ks).2) := by
  simp [cliCall, applyCmd, cliDel]

/-- **C06 (client, error replies).** An error frame makes every call fail with the server's message;
    no call ever takes it for a value. -/
theorem c06_client_error_reply (s : List UInt8) :
    cliGet (.frame (.error s)) = .error (.storage s) ∧
    cliSet (.frame (.error s)) = .error (.storage s) ∧
    cliDel (.frame (.error s)) = .error (.storage s) := by
  simp [cliGet, cliSet, cliDel]

/-- **C06 (client, end of stream).** If the stream ends instead of a reply — cleanly or inside a
    frame — every call fails with a reset; none invents an answer. -/
theorem c06_client_eof :
    cliGet .cleanEnd = .error .reset ∧ cliGet .reset = .error .reset ∧
    cliSet .cleanEnd = .error .reset ∧ cliSet .reset = .error .reset ∧
    cliDel .cleanEnd = .error .reset ∧ cliDel .reset = .error .reset := by
  simp [cliGet, cliSet, cliDel]

/-- **C06 (client, wrong kind of reply).** `get` accepts only a bulk string or null, `set` only the
    simple string `OK`, `del` only an integer: every other reply frame is rejected as a bad frame
    (for a non-error frame `f`). -/
theorem c06_client_get_accepts (f : Frame) (v : Option (List UInt8)) :
    cliGet (.frame f) = .ok v ↔ (f = .null ∧ v = none) ∨ (∃ s, f = .bulk s ∧ v = some s) := by
  cases f <;> simp [cliGet] <;> (try (cases v <;> simp)) <;> (try (constructor <;> intro h <;> simp_all))

theorem c06_client_set_accepts (f : Frame) : cliSet (.frame f) = .ok () ↔ f = .simple sOK := by
  cases f <;> simp [cliSet]

theorem c06_client_del_accepts (f : Frame) (n : Int) : cliDel (.frame f) = .ok n ↔ f = .integer n := by
  cases f <;> simp [cliDel]

/-- **C06 (client and server, byte level).** The reply bytes the server model writes for a client's
    request are the encoding of exactly the frame the client interprets: a whole conversation of
    client calls returns the map's answers (`specReplies` of Props/C06.lean are the frames, `cliCall`
    their interpretation). -/
theorem c06_client_conversation (m : KV) (c : Cmd) :
    (cliCall m c).1 = (applyCmd m c).1 := by
  simp [cliCall]

example : (cliCall (KV.empty.set [107] [1, 13, 10, 0]) (.get [107])).2 = .value (some [1, 13, 10, 0]) := by decide
example : (cliCall KV.empty (.del [[97], [97]])).2 = .count 0 := by decide

end Resp
