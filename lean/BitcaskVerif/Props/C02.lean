/-
  C02 — close/reopen preserves contents, deletions included.

  After any history of sets and deletes (overwrites, deletes of absent keys, re-sets; any
  `max_file_size` from 0 up, i.e. any number of data files; any timestamps), dropping the store
  and opening the same directory again yields a store in which every key reads exactly as before
  (deleted keys stay deleted), for any number of close/reopen cycles, with further writes in
  between.  Helper lemmas: `Store/Events.lean`, `Store/Recovery.lean`, `Store/RecInv.lean`,
  `Store/ReachPD.lean`.
-/
import BitcaskVerif.Store.ReachPD

namespace Store

/-- **C02.** Reopening a store reached by sets / deletes / earlier reopens changes what no key
    reads, and the reopened store satisfies the store invariant. -/
theorem c02_reopen (cfg : Cfg) (s : St) (h : ReachPD cfg s) :
    (reopen s).1.abs = s.abs ∧ Inv (reopen s).1 :=
  ⟨reopen_abs (reachPD_rinv h).1 (reachPD_rinv h).2, (reopen_rinv (reachPD_rinv h).1).1.inv⟩

/-- **C02 (idempotence).** Reopening again without writing changes nothing. -/
theorem c02_reopen_idempotent (cfg : Cfg) (s : St) (h : ReachPD cfg s) :
    (reopen (reopen s).1).1.abs = (reopen s).1.abs :=
  (c02_reopen cfg _ (ReachPD.reopen h)).1

/-- **C02 (any number of cycles).** -/
theorem c02_reopenN (cfg : Cfg) (n : Nat) (s : St) (h : ReachPD cfg s) :
    (reopenN n s).abs = s.abs ∧ Inv (reopenN n s) :=
  ⟨(reopenN_abs n s (reachPD_rinv h).1 (reachPD_rinv h).2).1,
   (reopenN_abs n s (reachPD_rinv h).1 (reachPD_rinv h).2).2.1.inv⟩

/-- **C02 (history form).** After any history of sets, deletes and reads from a fresh store and
    any number of reopen cycles, every key reads what the abstract map of the history holds. -/
theorem c02_history (cfg : Cfg) (ops : List Op) (n : Nat) (hn : NoMerge ops) :
    (reopenN n (run cfg fresh ops).1).abs = (Map.run Map.empty ops).1 := by
  have hr : ReachPD cfg (run cfg fresh ops).1 := reachPD_run cfg ops ReachPD.fresh hn
  rw [(c02_reopenN cfg n _ hr).1]
  have := (c01_refines_from cfg ops fresh fresh_inv (validFrom_of_noMerge cfg ops fresh hn)).2.2
  rw [fresh_abs] at this
  exact this

/-! ### non-vacuity -/

/-- overwrite, delete of a present key, delete of an absent key, re-set, rollover after every
    entry, reopen cycles with writes in between -/
example : ReachPD { maxFile := 0 }
    (reopen (put { maxFile := 0 } (reopen (reopen (delete { maxFile := 0 } (delete { maxFile := 0 }
      (put { maxFile := 0 } (put { maxFile := 0 } fresh 0 [1] [10]).1 0 [1] [11]).1 0 [1]).1 0 [2]).1).1).1 0 [1] [12]).1).1 :=
  .reopen (.put _ _ _ (.reopen (.reopen (.delete _ _ (.delete _ _ (.put _ _ _ (.put _ _ _ .fresh)))))))

example : NoMerge [.put [1] [10], .put [1] [11], .del [1], .del [2], .get [1], .put [1] [12]] := by
  simp [NoMerge]

end Store
