/-
  C06 — over the network SET/GET/DEL answer exactly as the map model, in order.

  The handler model (`Resp/Server.lean`) is what the driver runs against the real server. The
  theorems here are at the level of the frames a connection delivers; that the frames do not
  depend on how the bytes are cut into segments is C08 (`c08_stream`), and that the real store
  behaves as the map is C01.
-/
import BitcaskVerif.Resp.ServerLemmas

namespace Resp

/-- a request the client library can send: keys are UTF-8, DEL names at least one key -/
def WfCmd : Cmd → Prop
  | .set k _ => validUtf8 k = true
  | .get k => validUtf8 k = true
  | .del ks => ks ≠ [] ∧ ∀ k, k ∈ ks → validUtf8 k = true

theorem delKeys_map_bulk (ks : List (List UInt8)) (h : ∀ k, k ∈ ks → validUtf8 k = true) :
    delKeys (ks.map .bulk) = .ok ks := by
  induction ks with
  | nil => rfl
  | cons k ks ih =>
    simp only [List.map_cons, delKeys, h k List.mem_cons_self, ↓reduceIte,
      ih (fun x hx => h x (List.mem_cons_of_mem _ hx))]

/-- **C06 (requests are understood).** Every well-formed request frame is parsed back to the
    command it encodes. -/
theorem c06_cmd_roundtrip (c : Cmd) (h : WfCmd c) : Cmd.ofFrame (Cmd.toFrame c) = .ok c := by
  cases c with
  | set k v =>
    have hk : validUtf8 k = true := h
    simp [Cmd.toFrame, Cmd.ofFrame, getBytes, getString, sSET, sGET, sDEL, hk]
  | get k =>
    have hk : validUtf8 k = true := h
    simp [Cmd.toFrame, Cmd.ofFrame, getBytes, getString, sSET, sGET, sDEL, hk]
  | del ks =>
    obtain ⟨hne, hk⟩ := h
    cases ks with
    | nil => exact absurd rfl hne
    | cons k ks =>
      simp only [Cmd.toFrame, Cmd.ofFrame, getBytes, sDEL, ↓reduceIte, delKeys_map_bulk (k :: ks) hk]

/-- the replies the map model gives to a request sequence -/
def specReplies (m : KV) : List Cmd → KV × List Frame
  | [] => (m, [])
  | c :: cs =>
    let (m1, r) := applyCmd m c
    let (m2, rs) := specReplies m1 cs
    (m2, r :: rs)

def encodeAll : List Frame → List UInt8
  | [] => []
  | f :: fs => ((encode f).getD []) ++ encodeAll fs

/-- **C06 (exactly one reply per request, in request order, as the map says).** When a connection
    delivers the frames of well-formed requests followed by a clean end of stream, the handler
    writes exactly the concatenation of the map model's replies — `+OK` for SET, the stored bytes
    or null for GET, the count for DEL — leaves the store as the map model does, and ends cleanly. -/
theorem c06_replies (m : KV) (reqs : List Cmd) (h : ∀ c, c ∈ reqs → WfCmd c) :
    serveFrames m (reqs.map (fun c => .frame (Cmd.toFrame c)) ++ [.cleanEnd]) =
      ((specReplies m reqs).1, encodeAll (specReplies m reqs).2, .peerClosed) := by
  induction reqs generalizing m with
  | nil => simp [serveFrames, specReplies, encodeAll]
  | cons c cs ih =>
    simp only [List.map_cons, List.cons_append, serveFrames, c06_cmd_roundtrip c (h c List.mem_cons_self)]
    obtain ⟨b, hb⟩ := encode_reply_some m c
    cases ha : applyCmd m c with
    | mk m1 reply =>
      rw [ha] at hb
      simp only at hb
      simp only [hb, ih m1 (fun x hx => h x (List.mem_cons_of_mem _ hx)), specReplies, ha, encodeAll,
        Option.getD_some]

/-- **C06 (values come back byte for byte).** The reply to a GET of a present key is the bulk
    string holding exactly the stored bytes, whatever they are (CR, LF, NUL included). -/
theorem c06_get_exact (m : KV) (k v : List UInt8) (h : m k = some v) :
    (applyCmd m (.get k)).2 = .bulk v ∧
      encode (.bulk v) = some (36 :: intRepr v.length ++ crlf ++ v ++ crlf) := by
  simp [applyCmd, h, encode, encodeSingle]

/-- **C06 (DEL counts each key as it is deleted in turn)**: a key named twice is counted once. -/
theorem c06_del_duplicate (m : KV) (k : List UInt8) :
    (applyCmd m (.del [k, k])).2 = .integer (if (m k).isSome then 1 else 0) := by
  simp only [applyCmd, delAll, KV.del, ↓reduceIte, Option.isSome_none, Bool.false_eq_true]
  cases (m k).isSome <;> simp

theorem c06_del_absent_present (m : KV) (k : List UInt8) :
    (applyCmd m (.del [k])).1 k = none := by
  simp [applyCmd, delAll, KV.del]

/-! non-vacuity -/
example : (serveFrames KV.empty
    ([Cmd.get [107], Cmd.set [107] [13, 10, 0], Cmd.set [] []].map
      (fun c => .frame (Cmd.toFrame c)) ++ [.cleanEnd])).2 =
    ([36, 45, 49, 13, 10,  43, 79, 75, 13, 10,  43, 79, 75, 13, 10], .peerClosed) := by
  decide
example : WfCmd (.del [[107], [107]]) ∧ WfCmd (.set [] [13, 10, 0]) := by
  refine ⟨⟨by simp, ?_⟩, ?_⟩
  · intro k hk; simp at hk; subst hk; decide
  · show validUtf8 [] = true; decide

end Resp
