/-
  C20 (merge) — a file-system call that fails INSIDE A MERGE PASS is reported and leaves the
  store consistent.

  Model: `mergeF hintFirst cfg s sel order j torn` (Store/MergeFault.lean) — the pass
  `Writer::merge` in which call number `j` of the fault-free pass `mergeWith cfg s sel order` fails
  (`j` = 0-based index into its call list, whose last element is the creation of the new active
  file; `torn` = number of bytes of a failing append that reached the file).  The result carries
  the store with its possibly PENDING move of the active file (`StP`:
  `Writer::pending_active_fileid`), the calls that have taken effect and the error flag.
  `putP / deleteP / getP / mergeWithP` are the operations on such a store (they perform the
  pending move first).

  `hintFirst` selects the order inside one iteration of `merge_files`:
    `true`  — the code of the day (commit 924dfa8): copy the record, append the hint entry,
              re-point the index entry, count it;
    `false` — the order before that commit: copy, re-point, count, append the hint entry.
  The two differ only in the state a failing HINT append leaves (entry re-pointed or not).

  Proved for BOTH orders, for every configuration, every state satisfying the store invariant
  `Inv`, every selection `sel` of existing files, every iteration order covering the index, every
  `j`, `torn`:

    c20_merge_reported        the pass returns the error iff `j` is the index of one of its calls
    c20_merge_no_fault        beyond the last call `mergeF` is the fault-free pass
    c20_merge_dir             the calls that have taken effect are exactly the calls before `j` (a
                              failing append torn) followed by the creation of a fresh active file
                              (or: exactly those calls, with the fresh id pending, if `j` is the
                              last call), and they are the whole effect on the directory
    c20_merge_inv             every index entry addresses a complete copy of its record in an
                              existing file; no read is `corrupt`; after the (pending) move the store
                              invariant holds
    c20_merge_abs             no key reads differently — in the running process
    c20_merge_later_ops       every later fault-free put / delete / get / merge behaves as on the
                              abstract map, the pending-move case included
    c20_merge_later_runs      … and so does every later operation sequence (results included)
    c20_merge_histories       whole histories in which any put / delete may fail at any call of
                              `write` AND any merge pass may fail at any of its calls refine the
                              map on which failed operations have no effect (every failure is
                              reported, every acknowledged operation reads correctly)
    c20_merge_later_ids       the id invariant of C14 holds afterwards: all C14 theorems apply to
                              every continuation (`c20_merge_later_fresh_ids`: later files get ids
                              above every id in the directory and above every id created before)
    c20_merge_trace_accepted  the trace monitor of C14 accepts the calls of the failed pass itself,
                              followed by the pending move and every continuation
    c20_merge_restart_partial after an IMMEDIATE restart no key reads differently and the lives
                              invariant holds, under the D3 side condition `NoHazard s sel` of the
                              fault-free restart theorem (`c05_restart_partial`); at full strength
                              the statement is false for the same reason as without a fault:
                              `c20_merge_restart_counterexample` (decide-checked)

  THE ORDER BEFORE COMMIT 924dfa8 IS HARMFUL (`c20_merge_old_order_data_loss_counterexample`,
  decide-checked, `hintFirst = false`): a pass fails at a HINT append.  The record is already
  copied and the index entry re-pointed to the copy, but the output's hint file does not list the
  copy, and recovery reads ONLY the hint file of a data file that has one.  Everything above
  holds (reads, later operations, an immediate restart: the input still holds the record).  But
  the input was not removed and its counters are unchanged, so the NEXT, fault-free pass selects
  it again (the store's own policy `selectFiles`; the stale output is not selected unless it is
  "small"), finds no index entry in it, copies nothing and unlinks it — hazard-free in the sense
  of D3.  The only remaining copy of the record is the one recovery cannot see: in the running
  process the key still reads its value, after a restart (or crash) it is GONE.  Reproduced on
  the real code and fixed by commit 924dfa8.

  THE ORDER OF THE DAY (`hintFirst = true`):
    c20_merge_lj              after a pass that failed at ANY call the running store (after its
                              pending move) satisfies the lives invariant `LJ` — its index is the
                              index a restart would build, stale outputs are harmless — so
                              everything proved for `LJ` states applies to everything that follows
    c20_merge_then_ops_restart_partial
                              failed pass, then ANY sequence of fault-free puts, deletes, gets,
                              reopens and merge passes (each selecting existing files in ascending
                              order, with a covering iteration order and a hazard-free selection),
                              then a restart: every key reads exactly what the abstract map says —
                              in the running process and after the restart.  Acknowledged data
                              are never lost.  D3 side conditions stated explicitly.
    c20_merge_new_order_witness_harmless
                              the witness history of the old-order counterexample, decide-checked
    Side condition of the two theorems (`LJsel s sel`): no SELECTED file is a stale merge output
    holding records its hint file does not list (left by an earlier killed or failed pass).  It
    holds for every store without stale outputs (`ReachM`: histories without a kill inside a
    merge pass; `c20_merge_then_ops_restart_reach_partial`) and for selections of files without
    hint files.  It is needed for ONE failing call: the removal of the DATA file of such a stale
    output after its hint file has been removed.  Then the unlisted records become visible to a
    scan, which recovers their keys at a later position than the running index holds — the same
    record, a different entry — so `LJ` fails literally (`c20_merge_lj_needs_visible_example`,
    decide-checked), although an immediate restart still reads correctly
    (`c20_merge_restart_partial` has no such side condition) and no harmful continuation is
    known; covering it needs an invariant "index = scan up to copies", not attempted.

  Other observations:
    * `c20_merge_counters_stale_example` (decide-checked): after a failed pass the counters of the
      inputs that were NOT removed still count the records that were copied as live — C19's
      exactness ("counters = ground truth") does not survive a failed pass; no read and no later
      operation is affected (the invariants above do not depend on the counters), but the
      thresholds of a later `selectFiles` see these files as less fragmented than they are, until
      the next restart recomputes the counters.
    * One fault per pass; `fileids_to_merge` (which only reads metadata) is not a call of the model.

  Helper lemmas: Store/MergeFault.lean (model), MergeFaultInv.lean, MergeFaultLoop.lean,
  MergeFaultSpec.lean (running process), MergeFaultCalls.lean, MergeFaultDir.lean (calls and
  directory), MergeFaultRestart.lean, MergeFaultIds.lean, MergeFaultTrace.lean (C14),
  MergeFaultRun.lean (histories), MergeFaultLives.lean (lives invariant, order of the day).
-/
import BitcaskVerif.Store.MergeFaultRestart
import BitcaskVerif.Store.MergeFaultLives
import BitcaskVerif.Store.MergeFaultTrace
import BitcaskVerif.Store.MergeFaultRun
import BitcaskVerif.Props.C05
import BitcaskVerif.Props.C14
import BitcaskVerif.Props.C03Lives

namespace Store
open Store.Tr

/-! ### a concrete instance for the non-vacuity examples

  `max_file_size = 50`: two 27-byte entries per file.  Files 0 = [k1 ↦ 10, k2 ↦ 20],
  1 = [k3 ↦ 30, k2 ↦ 21], 2 = active (empty); three live keys.  The merge of files 0 and 1 in
  the order k1, k2, k3 issues 17 calls:
     0 create data 3    1 create hint 3    2 append data 3 (k1)   3 append hint 3
     4 append data 3 (k2)   5 append hint 3   6 fsync data 3   7 fsync hint 3
     8 create data 4    9 create hint 4   10 append data 4 (k3)  11 append hint 4
    12 fsync data 4    13 fsync hint 4    14 unlink data 0      15 unlink data 1
    16 create data 5 -/

def mfCfg : Cfg := { maxFile := 50 }
def mfOps : List TOp := [.put 0 [1] [10], .put 0 [2] [20], .put 0 [3] [30], .put 0 [2] [21]]
def mfSt : St := runC mfCfg fresh mfOps
def mfSel : List Nat := [0, 1]
def mfOrder : List Key := [[1], [2], [3]]

theorem mfSt_reachL : ReachL mfCfg mfSt := reachL_runC mfOps .fresh (by simp [mfOps, ValidOps, opOk])
theorem mfSt_lj : LJ mfSt := reachL_lj mfSt_reachL
theorem mfSt_inv : Inv mfSt := mfSt_lj.inv
theorem mfSt_idinv : IdInv mfSt :=
  (run_coup mfCfg mfOps fresh (Mon.start 0) ⟨fresh_idinv, monOk_start 0⟩ (by simp [mfOps, ValidC])).inv
theorem mfSel_le : ∀ id, id ∈ mfSel → id ≤ mfSt.active := by decide
theorem mfOrder_covers : Covers mfOrder mfSt := by decide
theorem mfSel_sorted : mfSel.Pairwise (· ≤ ·) := by decide
theorem mfSel_noHazard : NoHazard mfSt mfSel := noHazard_of_noStaleValue (by decide)

example : (mergeWith mfCfg mfSt mfSel mfOrder).2.length = 17 := by decide
example : (mergeWith mfCfg mfSt mfSel mfOrder).2[4]? =
    some (Call.append ⟨.data, 3⟩ (.ofRec { ts := 0, key := [2], val := some [21] })) := by decide
example : (mergeWith mfCfg mfSt mfSel mfOrder).2[8]? = some (Call.create ⟨.data, 4⟩) := by decide
example : (mergeWith mfCfg mfSt mfSel mfOrder).2[14]? = some (Call.unlink ⟨.data, 0⟩) := by decide
example : (mergeWith mfCfg mfSt mfSel mfOrder).2[16]? = some (Call.create ⟨.data, 5⟩) := by decide

/-! ### reported -/

/-- **C20-merge (reported).** For every configuration, state, selection, order, `j` and `torn`
    (no hypothesis): the pass returns the error if and only if `j` is the index of one of the
    calls of the pass — every failing call is reported, and nothing else is. -/
theorem c20_merge_reported (hintFirst : Bool) (cfg : Cfg) (s : St) (sel : List Nat) (order : List Key) (j torn : Nat) :
    (mergeF hintFirst cfg s sel order j torn).err = true ↔ j < (mergeWith cfg s sel order).2.length :=
  mergeF_err_iff' (hintFirst := hintFirst) cfg s sel order j torn

/-- **C20-merge (no fault).** If `j` is beyond the last call, `mergeF` is the fault-free pass:
    same state, nothing pending, same calls, no error. -/
theorem c20_merge_no_fault (hintFirst : Bool) (cfg : Cfg) (s : St) (sel : List Nat) (order : List Key) (j torn : Nat)
    (hj : (mergeWith cfg s sel order).2.length ≤ j) :
    (mergeF hintFirst cfg s sel order j torn).p = { st := (mergeWith cfg s sel order).1, pending := none } ∧
    (mergeF hintFirst cfg s sel order j torn).calls = (mergeWith cfg s sel order).2 ∧
    (mergeF hintFirst cfg s sel order j torn).err = false :=
  mergeF_no_fault (hintFirst := hintFirst) cfg s sel order j torn hj

example : (mergeWith mfCfg mfSt mfSel mfOrder).2.length ≤ 17 := by decide

/-- the four faults of the task statement are reported, a fifth "fault" beyond the last call is
    no fault -/
example : (mergeF true mfCfg mfSt mfSel mfOrder 4 5).err = true ∧ (mergeF true mfCfg mfSt mfSel mfOrder 8 0).err = true ∧
    (mergeF true mfCfg mfSt mfSel mfOrder 14 0).err = true ∧ (mergeF true mfCfg mfSt mfSel mfOrder 16 0).err = true ∧
    (mergeF true mfCfg mfSt mfSel mfOrder 17 0).err = false := by decide

/-! ### the calls and the directory -/

/-- **C20-merge (calls and directory).** Let `E = faultPrefix (calls of the fault-free pass) j torn`
    — the calls before `j`, followed, if call `j` is an append, by the torn prefix of it that
    reached the file — and `D` the directory after `E`.  `E` is a crash cut of the fault-free
    pass.  There is an id `b` above every id of `D` and above the old active id such that either
      * nothing is pending, `j` is not the last call, the new active file is `b`, the directory
        is `D` plus the empty data file `b`, and the calls are `E` followed by `create data b`; or
      * `j` is the last call (the creation of the new active file), `b` is pending, the active
        id is unchanged, the directory is `D` and the calls are `E`. -/
theorem c20_merge_dir (hintFirst : Bool) (cfg : Cfg) (s : St) (sel : List Nat) (order : List Key) (j torn : Nat) (h : Inv s)
    (hsel : ∀ id, id ∈ sel → id ≤ s.active) (hcov : Covers order s)
    (hj : j < (mergeWith cfg s sel order).2.length) :
    Cut (mergeWith cfg s sel order).2 (faultPrefix (mergeWith cfg s sel order).2 j torn) ∧
    ∃ b, FreshId b (applyCalls s.disk (faultPrefix (mergeWith cfg s sel order).2 j torn)) ∧ s.active < b ∧
      (((mergeF hintFirst cfg s sel order j torn).p.pending = none ∧ j + 1 < (mergeWith cfg s sel order).2.length ∧
        (mergeF hintFirst cfg s sel order j torn).p.st.active = b ∧
        (mergeF hintFirst cfg s sel order j torn).p.st.disk =
          { applyCalls s.disk (faultPrefix (mergeWith cfg s sel order).2 j torn) with
            data := AL.set b [] (applyCalls s.disk (faultPrefix (mergeWith cfg s sel order).2 j torn)).data } ∧
        (mergeF hintFirst cfg s sel order j torn).calls =
          faultPrefix (mergeWith cfg s sel order).2 j torn ++ [Call.create ⟨.data, b⟩]) ∨
       ((mergeF hintFirst cfg s sel order j torn).p.pending = some b ∧ j + 1 = (mergeWith cfg s sel order).2.length ∧
        (mergeF hintFirst cfg s sel order j torn).p.st.active = s.active ∧
        (mergeF hintFirst cfg s sel order j torn).p.st.disk =
          applyCalls s.disk (faultPrefix (mergeWith cfg s sel order).2 j torn) ∧
        (mergeF hintFirst cfg s sel order j torn).calls = faultPrefix (mergeWith cfg s sel order).2 j torn)) :=
  ⟨cut_faultPrefix _ j torn, mergeF_dir (hintFirst := hintFirst) cfg s sel order j torn h hsel hcov hj⟩

example : Inv mfSt ∧ (∀ id, id ∈ mfSel → id ≤ mfSt.active) ∧ Covers mfOrder mfSt ∧
    4 < (mergeWith mfCfg mfSt mfSel mfOrder).2.length :=
  ⟨mfSt_inv, mfSel_le, mfOrder_covers, by decide⟩

/-- (a) the second data append fails after 5 of its 27 bytes: calls 0–3, the torn append, the
    creation of the new active file 4 -/
example : (mergeF true mfCfg mfSt mfSel mfOrder 4 5).calls =
    [.create ⟨.data, 3⟩, .create ⟨.hint, 3⟩,
     .append ⟨.data, 3⟩ (.ofRec { ts := 0, key := [1], val := some [10] }),
     .append ⟨.hint, 3⟩ (.ofHint { ts := 0, len := 27, pos := 0, key := [1] }),
     .append ⟨.data, 3⟩ (.raw [0, 0, 0, 0, 0]), .create ⟨.data, 4⟩] := by decide

/-! ### the running process -/

/-- **C20-merge (invariant).** After the pass — failed at any call, or not at all — every index
    entry addresses a complete copy of its record in an existing file, no read is `corrupt`,
    the pending id (if any) is above every id in the directory, and the store after the pending
    move satisfies the store invariant `Inv` (without a pending move: the store itself). -/
theorem c20_merge_inv (hintFirst : Bool) (cfg : Cfg) (s : St) (sel : List Nat) (order : List Key) (j torn : Nat) (h : Inv s)
    (hsel : ∀ id, id ∈ sel → id ≤ s.active) (hcov : Covers order s) :
    InvP (mergeF hintFirst cfg s sel order j torn).p ∧
    (∀ k, getP (mergeF hintFirst cfg s sel order j torn).p k ≠ .corrupt) ∧
    ((mergeF hintFirst cfg s sel order j torn).p.pending = none → Inv (mergeF hintFirst cfg s sel order j torn).p.st) := by
  have hp := (mergeF_ok (hintFirst := hintFirst) cfg s sel order j torn h hsel hcov).1
  refine ⟨hp, fun k => ?_, hp.inv_of_none⟩
  rw [getP_abs hp k]
  cases (mergeF hintFirst cfg s sel order j torn).p.abs k <;> simp

/-- **C20-merge (reads).** No key reads differently after the pass, whichever call failed — in
    the running process. -/
theorem c20_merge_abs (hintFirst : Bool) (cfg : Cfg) (s : St) (sel : List Nat) (order : List Key) (j torn : Nat) (h : Inv s)
    (hsel : ∀ id, id ∈ sel → id ≤ s.active) (hcov : Covers order s) :
    (mergeF hintFirst cfg s sel order j torn).p.abs = s.abs ∧
    ∀ k, getP (mergeF hintFirst cfg s sel order j torn).p k = get s k := by
  obtain ⟨hp, ha⟩ := mergeF_ok (hintFirst := hintFirst) cfg s sel order j torn h hsel hcov
  refine ⟨ha, fun k => ?_⟩
  rw [getP_abs hp k, get_abs s k h, ha]
  cases s.abs k <;> rfl

/-- the hypotheses of the theorems above hold in the instance -/
example : Inv mfSt ∧ (∀ id, id ∈ mfSel → id ≤ mfSt.active) ∧ Covers mfOrder mfSt :=
  ⟨mfSt_inv, mfSel_le, mfOrder_covers⟩

/-- (a) second data append: k1 is re-pointed to its copy in file 3, k2 and k3 are not; the torn
    bytes are an invisible tail of file 3; the output counts one live record -/
example : (mergeF true mfCfg mfSt mfSel mfOrder 4 5).p =
    { st := { disk := { data := [(0, [⟨0, [1], some [10]⟩, ⟨0, [2], some [20]⟩]),
                                 (1, [⟨0, [3], some [30]⟩, ⟨0, [2], some [21]⟩]), (2, []),
                                 (3, [⟨0, [1], some [10]⟩]), (4, [])],
                        hint := [(3, [⟨0, 27, 0, [1]⟩])], tails := [(3, 5)] },
              keydir := [([1], ⟨3, 0, 27, 0⟩), ([2], ⟨1, 27, 27, 0⟩), ([3], ⟨1, 0, 27, 0⟩)],
              stats := [(0, ⟨1, 1, 27⟩), (1, ⟨2, 0, 0⟩), (3, ⟨1, 0, 0⟩)],
              active := 4, written := 0, bad := false },
      pending := none } := by rfl

/-- (b) the rollover `create` of data file 4 fails: `merge_fileid` is already 4, so the new active
    file is 5; file 4 does not exist; k1, k2 are re-pointed, k3 is not -/
example : (mergeF true mfCfg mfSt mfSel mfOrder 8 0).p =
    { st := { disk := { data := [(0, [⟨0, [1], some [10]⟩, ⟨0, [2], some [20]⟩]),
                                 (1, [⟨0, [3], some [30]⟩, ⟨0, [2], some [21]⟩]), (2, []),
                                 (3, [⟨0, [1], some [10]⟩, ⟨0, [2], some [21]⟩]), (5, [])],
                        hint := [(3, [⟨0, 27, 0, [1]⟩, ⟨0, 27, 27, [2]⟩])], tails := [] },
              keydir := [([1], ⟨3, 0, 27, 0⟩), ([2], ⟨3, 27, 27, 0⟩), ([3], ⟨1, 0, 27, 0⟩)],
              stats := [(0, ⟨1, 1, 27⟩), (1, ⟨2, 0, 0⟩), (3, ⟨2, 0, 0⟩)],
              active := 5, written := 0, bad := false },
      pending := none } := by rfl

/-- (c) the unlink of the first input fails: every key is re-pointed, both inputs (and their
    counters) are still there -/
example : (mergeF true mfCfg mfSt mfSel mfOrder 14 0).p =
    { st := { disk := { data := [(0, [⟨0, [1], some [10]⟩, ⟨0, [2], some [20]⟩]),
                                 (1, [⟨0, [3], some [30]⟩, ⟨0, [2], some [21]⟩]), (2, []),
                                 (3, [⟨0, [1], some [10]⟩, ⟨0, [2], some [21]⟩]),
                                 (4, [⟨0, [3], some [30]⟩]), (5, [])],
                        hint := [(3, [⟨0, 27, 0, [1]⟩, ⟨0, 27, 27, [2]⟩]), (4, [⟨0, 27, 0, [3]⟩])], tails := [] },
              keydir := [([1], ⟨3, 0, 27, 0⟩), ([2], ⟨3, 27, 27, 0⟩), ([3], ⟨4, 0, 27, 0⟩)],
              stats := [(0, ⟨1, 1, 27⟩), (1, ⟨2, 0, 0⟩), (3, ⟨2, 0, 0⟩), (4, ⟨1, 0, 0⟩)],
              active := 5, written := 0, bad := false },
      pending := none } := by rfl

/-- (d) the final `create` fails: `merge_files` is complete, the active id is still 2 and the move
    to file 5 is pending -/
example : (mergeF true mfCfg mfSt mfSel mfOrder 16 0).p =
    { st := { disk := { data := [(2, []), (3, [⟨0, [1], some [10]⟩, ⟨0, [2], some [21]⟩]),
                                 (4, [⟨0, [3], some [30]⟩])],
                        hint := [(3, [⟨0, 27, 0, [1]⟩, ⟨0, 27, 27, [2]⟩]), (4, [⟨0, 27, 0, [3]⟩])], tails := [] },
              keydir := [([1], ⟨3, 0, 27, 0⟩), ([2], ⟨3, 27, 27, 0⟩), ([3], ⟨4, 0, 27, 0⟩)],
              stats := [(3, ⟨2, 0, 0⟩), (4, ⟨1, 0, 0⟩)],
              active := 2, written := 0, bad := false },
      pending := some 5 } := by rfl

/-- (e) the HINT append for k2 (call 5) fails.  Order of the day: the record is in file 3, the
    entry of k2 still points into file 1 and file 3 counts one live record and one dead one, the copy
    nothing points at (commit 8c97bf1).  Order before commit
    924dfa8: the entry is re-pointed and counted although the hint file does not list the copy. -/
example : (mergeF true mfCfg mfSt mfSel mfOrder 5 0).p.st.keydir =
      [([1], ⟨3, 0, 27, 0⟩), ([2], ⟨1, 27, 27, 0⟩), ([3], ⟨1, 0, 27, 0⟩)] ∧
    (mergeF false mfCfg mfSt mfSel mfOrder 5 0).p.st.keydir =
      [([1], ⟨3, 0, 27, 0⟩), ([2], ⟨3, 27, 27, 0⟩), ([3], ⟨1, 0, 27, 0⟩)] ∧
    AL.get 3 (mergeF true mfCfg mfSt mfSel mfOrder 5 0).p.st.stats = some ⟨1, 1, 27⟩ ∧
    AL.get 3 (mergeF false mfCfg mfSt mfSel mfOrder 5 0).p.st.stats = some ⟨2, 0, 0⟩ ∧
    (mergeF true mfCfg mfSt mfSel mfOrder 5 0).p.st.disk = (mergeF false mfCfg mfSt mfSel mfOrder 5 0).p.st.disk ∧
    dataOf (mergeF true mfCfg mfSt mfSel mfOrder 5 0).p.st.disk 3 = [⟨0, [1], some [10]⟩, ⟨0, [2], some [21]⟩] ∧
    AL.get 3 (mergeF true mfCfg mfSt mfSel mfOrder 5 0).p.st.disk.hint = some [⟨0, 27, 0, [1]⟩] := by
  refine ⟨by decide, by decide, by decide, by decide, by rfl, by decide, by decide⟩

/-- in all four cases (and with the fault-free pass) the three keys read as before -/
example : ∀ b ∈ [true, false], ∀ j ∈ [4, 5, 8, 14, 16, 17], ∀ k ∈ [[1], [2], [3], [4]],
    getP (mergeF b mfCfg mfSt mfSel mfOrder j 5).p k = get mfSt k := by decide

/-! ### later operations -/

/-- **C20-merge (later operations).** After the pass — failed at any call — a fault-free put,
    delete, get or merge pass (any selection of existing files, any covering order) behaves
    exactly as on the abstract map read BEFORE the failed pass; this includes the case in which
    the move of the active file is still pending (the operation performs it first); afterwards
    nothing is pending and the store invariant holds again. -/
theorem c20_merge_later_ops (hintFirst : Bool) (cfg : Cfg) (s : St) (sel : List Nat) (order : List Key) (j torn : Nat) (h : Inv s)
    (hsel : ∀ id, id ∈ sel → id ≤ s.active) (hcov : Covers order s)
    (cfg' : Cfg) (ts' : Int) (k' : Key) (v' : Val) (sel' : List Nat) (order' : List Key)
    (hsel' : ∀ id, id ∈ sel' → id ≤ (mergeF hintFirst cfg s sel order j torn).p.move.1.active)
    (hcov' : Covers order' (mergeF hintFirst cfg s sel order j torn).p.st) :
    (putP cfg' (mergeF hintFirst cfg s sel order j torn).p ts' k' v').1.abs = s.abs.set k' v' ∧
    (deleteP cfg' (mergeF hintFirst cfg s sel order j torn).p ts' k').1.abs = s.abs.del k' ∧
    (deleteP cfg' (mergeF hintFirst cfg s sel order j torn).p ts' k').2.1 = (s.abs k').isSome ∧
    getP (mergeF hintFirst cfg s sel order j torn).p k' = (match s.abs k' with | some x => .value x | none => .absent) ∧
    (mergeWithP cfg' (mergeF hintFirst cfg s sel order j torn).p sel' order').1.abs = s.abs ∧
    Inv (putP cfg' (mergeF hintFirst cfg s sel order j torn).p ts' k' v').1.st ∧
    Inv (deleteP cfg' (mergeF hintFirst cfg s sel order j torn).p ts' k').1.st ∧
    Inv (mergeWithP cfg' (mergeF hintFirst cfg s sel order j torn).p sel' order').1.st := by
  obtain ⟨hp, ha⟩ := mergeF_ok (hintFirst := hintFirst) cfg s sel order j torn h hsel hcov
  obtain ⟨p1, p2, p3⟩ := putP_ok cfg' hp ts' k' v'
  obtain ⟨d1, d2, d3, d4⟩ := deleteP_ok cfg' hp ts' k'
  obtain ⟨m1, m2, m3⟩ := mergeWithP_ok cfg' hp sel' order' hsel' hcov'
  refine ⟨by rw [p2, ha], by rw [d2, ha], by rw [d3, ha], ?_, by rw [m2, ha],
    p1.inv_of_none p3, d1.inv_of_none d4, m1.inv_of_none m3⟩
  rw [getP_abs hp k', ha]
  cases s.abs k' <;> rfl

/-- the hypotheses about the later merge are satisfiable: after fault (d) (pending move to file 5)
    a second pass over the outputs 3 and 4 -/
example : (∀ id, id ∈ [3, 4] → id ≤ (mergeF true mfCfg mfSt mfSel mfOrder 16 0).p.move.1.active) ∧
    Covers [[3], [2], [1]] (mergeF true mfCfg mfSt mfSel mfOrder 16 0).p.st := by decide

/-- **C20-merge (later histories).** Every later sequence of fault-free puts, deletes, gets and
    merge passes returns exactly the results of the abstract map started at what the store read
    before the failed pass, keeps the invariant, and ends reading as the final map. -/
theorem c20_merge_later_runs (hintFirst : Bool) (cfg : Cfg) (s : St) (sel : List Nat) (order : List Key) (j torn : Nat) (h : Inv s)
    (hsel : ∀ id, id ∈ sel → id ≤ s.active) (hcov : Covers order s)
    (cfg' : Cfg) (ops : List Op) (hv : ValidFromP cfg' (mergeF hintFirst cfg s sel order j torn).p ops) :
    (runP cfg' (mergeF hintFirst cfg s sel order j torn).p ops).2 = (Map.run s.abs ops).2 ∧
    InvP (runP cfg' (mergeF hintFirst cfg s sel order j torn).p ops).1 ∧
    (runP cfg' (mergeF hintFirst cfg s sel order j torn).p ops).1.abs = (Map.run s.abs ops).1 := by
  obtain ⟨hp, ha⟩ := mergeF_ok (hintFirst := hintFirst) cfg s sel order j torn h hsel hcov
  have := runP_refines cfg' ops _ hp hv
  rw [ha] at this
  exact this

/-- after fault (d), with the move pending: overwrite k1, delete k3, read, merge the outputs, read -/
example : ValidFromP mfCfg (mergeF true mfCfg mfSt mfSel mfOrder 16 0).p
    [.get [2], .put [1] [11], .del [3], .del [9], .merge [3, 4] [[1], [2]], .get [1], .get [2], .get [3]] := by
  simp only [ValidFromP, and_true, true_and]
  decide
example : (runP mfCfg (mergeF true mfCfg mfSt mfSel mfOrder 16 0).p
    [.get [2], .put [1] [11], .del [3], .del [9], .merge [3, 4] [[1], [2]], .get [1], .get [2], .get [3]]).2 =
    [.read (.value [21]), .done, .flag true, .flag false, .done, .read (.value [11]), .read (.value [21]),
     .read .absent] := by decide

/-- **C20-merge (histories).** For every history from a fresh store in which any of the puts and
    deletes may fail with any of the write faults of `Props/C20.lean` and any of the merge passes
    may fail at any of its calls (`PFault.merge j torn`; any number of failures, one per
    operation; a failed pass may leave its move pending, the next operation performs it): every
    operation returns exactly what the abstract map returns on which failed operations have no
    effect — so every failure is reported and every earlier and later acknowledged operation reads
    correctly —, the invariant holds at the end and the final state reads as the final map. -/
theorem c20_merge_histories (hintFirst : Bool) (cfg : Cfg) (ops : List (Op × Option PFault))
    (hv : ValidPF hintFirst cfg { st := fresh, pending := none } ops) :
    (runPF hintFirst cfg { st := fresh, pending := none } ops).2 = (Map.runPF Map.empty ops).2 ∧
    InvP (runPF hintFirst cfg { st := fresh, pending := none } ops).1 ∧
    (runPF hintFirst cfg { st := fresh, pending := none } ops).1.abs = (Map.runPF Map.empty ops).1 := by
  have := runPF_refines cfg ops _ (InvP.of_inv fresh_inv) hv
  rw [show StP.abs { st := fresh, pending := none } = Map.empty from fresh_abs] at this
  exact this

/-- … and from any store satisfying the invariant, with or without a pending move -/
theorem c20_merge_histories_from (hintFirst : Bool) (cfg : Cfg) (ops : List (Op × Option PFault)) (p : StP) (h : InvP p)
    (hv : ValidPF hintFirst cfg p ops) :
    (runPF hintFirst cfg p ops).2 = (Map.runPF p.abs ops).2 ∧ InvP (runPF hintFirst cfg p ops).1 ∧
    (runPF hintFirst cfg p ops).1.abs = (Map.runPF p.abs ops).1 :=
  runPF_refines cfg ops p h hv

example : InvP (mergeF true mfCfg mfSt mfSel mfOrder 16 0).p :=
  (c20_merge_inv true mfCfg mfSt mfSel mfOrder 16 0 mfSt_inv mfSel_le mfOrder_covers).1

/-- a history with a failed put, a pass failing at the final `create` (move pending), a pass
    failing at a data append (performing the pending move first), reads in between -/
def mfHist : List (Op × Option PFault) :=
  [(.put [1] [10], none), (.put [2] [20], none), (.put [3] [30], some (.write .appendSmall)), (.put [3] [30], none),
   (.put [2] [21], none), (.merge [0, 1, 2] [[1], [2], [3]], some (.merge 17 0)), (.get [3], none),
   (.merge [4, 5] [[3], [2], [1]], some (.merge 4 7)), (.get [1], none), (.del [2], none), (.get [2], none),
   (.merge [4, 5, 7] [[1], [3]], none), (.get [1], none), (.get [3], none)]

example : ValidPF true mfCfg { st := fresh, pending := none } mfHist := by
  simp only [mfHist, ValidPF, and_true, true_and]
  decide
example : (runPF true mfCfg { st := fresh, pending := none } mfHist).2 =
    [.done .done, .done .done, .error, .done .done, .done .done, .error, .done (.read (.value [30])), .error,
     .done (.read (.value [10])), .done (.flag true), .done (.read .absent), .done .done,
     .done (.read (.value [10])), .done (.read (.value [30]))] := by decide

/-- **C20-merge (ids).** If the store satisfied the id invariant of the trace theory (C14) before
    the pass, it satisfies it after the pass — failed at any call — and the pending move.  Hence
    every C14 theorem applies to every continuation. -/
theorem c20_merge_later_ids (hintFirst : Bool) (cfg : Cfg) (s : St) (sel : List Nat) (order : List Key) (j torn : Nat) (h : Inv s)
    (hid : IdInv s) (hsel : ∀ id, id ∈ sel → id ≤ s.active) (hcov : Covers order s) :
    IdInv (mergeF hintFirst cfg s sel order j torn).p.move.1 ∧
    (∀ b, (mergeF hintFirst cfg s sel order j torn).p.pending = some b →
      FreshId b (mergeF hintFirst cfg s sel order j torn).p.st.disk) :=
  ⟨mergeF_idinv (hintFirst := hintFirst) cfg s sel order j torn h hid hsel hcov,
   fun b hb => (mergeF_ok (hintFirst := hintFirst) cfg s sel order j torn h hsel hcov).1.fresh b hb⟩

/-- … in particular **ids stay fresh**: in every later run (puts, deletes, gets, merge passes,
    reopens) every data file is created with an id above every data and hint id the failed pass
    left in the directory and above the id of every file created earlier in the run; the monitor
    of C14 accepts the whole run. -/
theorem c20_merge_later_fresh_ids (hintFirst : Bool) (cfg : Cfg) (s : St) (sel : List Nat) (order : List Key) (j torn : Nat)
    (h : Inv s) (hid : IdInv s) (hsel : ∀ id, id ∈ sel → id ≤ s.active) (hcov : Covers order s)
    (cfg' : Cfg) (ops : List TOp) (hv : ValidC cfg' (mergeF hintFirst cfg s sel order j torn).p.move.1 ops) :
    (∀ pre post id, traceOf cfg' (mergeF hintFirst cfg s sel order j torn).p.move.1 ops =
        pre ++ Call.create ⟨.data, id⟩ :: post →
      (∀ id0, id0 ∈ AL.keys (mergeF hintFirst cfg s sel order j torn).p.move.1.disk.data → id0 < id) ∧
      (∀ id0, id0 ∈ AL.keys (mergeF hintFirst cfg s sel order j torn).p.move.1.disk.hint → id0 < id) ∧
      (∀ g, Call.create g ∈ pre → g.id < id)) ∧
    ((Mon.start (mergeF hintFirst cfg s sel order j torn).p.move.1.active).run
        (evsOf cfg' (mergeF hintFirst cfg s sel order j torn).p.move.1 ops)).okFresh = true ∧
    ((Mon.start (mergeF hintFirst cfg s sel order j torn).p.move.1.active).run
        (evsOf cfg' (mergeF hintFirst cfg s sel order j torn).p.move.1 ops)).okOwn = true ∧
    ((Mon.start (mergeF hintFirst cfg s sel order j torn).p.move.1.active).run
        (evsOf cfg' (mergeF hintFirst cfg s sel order j torn).p.move.1 ops)).okTop = true := by
  have hi := mergeF_idinv (hintFirst := hintFirst) cfg s sel order j torn h hid hsel hcov
  obtain ⟨m1, m2, m3, _⟩ := c14_monitor cfg' _ ops hi hv
  exact ⟨fun pre post id ht => c14_fresh_id cfg' _ ops hi hv pre post id ht, m1, m2, m3⟩

example : IdInv mfSt := mfSt_idinv
example : ValidC mfCfg (mergeF true mfCfg mfSt mfSel mfOrder 4 5).p.move.1
    [.put 0 [1] [11], .merge [0, 1, 3] [[1], [2], [3]], .reopen, .del 0 [2]] := by
  simp only [ValidC, and_true, true_and]
  decide

/-- **C20-merge (trace).** Start the trace monitor of C14 in a state satisfying the id invariant.
    It accepts — all three verdicts stay `true`: every created file has a fresh id, every append
    goes to a file this process created and did not remove, the file with the largest id is never
    removed — the calls of the failed pass itself (torn append and creation of the new active file
    included), followed by the pending move (if any) and by the trace of EVERY continuation
    (puts, deletes, gets, merge passes, reopens). -/
theorem c20_merge_trace_accepted (hintFirst : Bool) (cfg : Cfg) (s : St) (sel : List Nat) (order : List Key) (j torn : Nat)
    (h : Inv s) (hid : IdInv s) (hsel : ∀ id, id ∈ sel → id ≤ s.active) (hcov : Covers order s)
    (cfg' : Cfg) (ops : List TOp) (hv : ValidC cfg' (mergeF hintFirst cfg s sel order j torn).p.move.1 ops) :
    ((Mon.start s.active).run
      (((mergeF hintFirst cfg s sel order j torn).calls ++ (mergeF hintFirst cfg s sel order j torn).p.move.2).map TEv.call ++
        evsOf cfg' (mergeF hintFirst cfg s sel order j torn).p.move.1 ops)).okFresh = true ∧
    ((Mon.start s.active).run
      (((mergeF hintFirst cfg s sel order j torn).calls ++ (mergeF hintFirst cfg s sel order j torn).p.move.2).map TEv.call ++
        evsOf cfg' (mergeF hintFirst cfg s sel order j torn).p.move.1 ops)).okOwn = true ∧
    ((Mon.start s.active).run
      (((mergeF hintFirst cfg s sel order j torn).calls ++ (mergeF hintFirst cfg s sel order j torn).p.move.2).map TEv.call ++
        evsOf cfg' (mergeF hintFirst cfg s sel order j torn).p.move.1 ops)).okTop = true := by
  obtain ⟨_, _, _, hc⟩ := mergeF_coup (hintFirst := hintFirst) cfg s sel order j torn (Mon.start s.active) h ⟨hid, monOk_start _⟩ hsel hcov
  have hr := run_coup cfg' ops _ _ hc hv
  rw [Mon.run_append]
  exact ⟨hr.mon.okF, hr.mon.okO, hr.mon.okT⟩

/-! ### restart -/

/-
  Full-strength statement — FALSE (defect D3, as for the fault-free pass), refuted by
  `c20_merge_restart_counterexample`:

  theorem c20_merge_restart (hintFirst : Bool) (cfg : Cfg) (s : St) (sel : List Nat) (order : List Key) (j torn : Nat) (hl : LJ s)
      (hsel : ∀ id, id ∈ sel → id ≤ s.active) (hcov : Covers order s) (hsorted : sel.Pairwise (· ≤ ·)) :
      (openDisk (mergeF hintFirst cfg s sel order j torn).p.st.disk).1.abs = s.abs
-/

/-- **C20-merge (restart), under `NoHazard`.** Let the store satisfy the lives invariant `LJ`
    (every state reachable from a fresh store by sets, deletes, reads, reopens, hazard-free merge
    passes and kills anywhere inside any of these does, `reachL_lj`), let `sel` be ascending, and
    assume the D3 side condition of the fault-free restart theorem: no key absent from the index
    would be recovered from the unselected files alone (`NoHazard s sel`; with `sel` ascending
    this covers every prefix of `sel` that the failed pass may have removed).  Then the store
    opened on the directory the pass left — failed at any call — reads every key exactly as
    before the pass, satisfies the lives invariant again (so everything proved for `LJ` states —
    operations, crashes, restarts — continues to apply), and no read is `corrupt`.
    The inputs that were not removed and the partial outputs are all in that directory: the
    outputs hold only copies of records the index addressed, listed by their hint files up to a
    prefix, so they are harmless. -/
theorem c20_merge_restart_partial (hintFirst : Bool) (cfg : Cfg) (s : St) (sel : List Nat) (order : List Key) (j torn : Nat)
    (hl : LJ s) (hsel : ∀ id, id ∈ sel → id ≤ s.active) (hcov : Covers order s)
    (hsorted : sel.Pairwise (· ≤ ·)) (hz : NoHazard s sel) :
    (openDisk (mergeF hintFirst cfg s sel order j torn).p.st.disk).1.abs = s.abs ∧
    LJ (openDisk (mergeF hintFirst cfg s sel order j torn).p.st.disk).1 ∧
    ∀ k, get (openDisk (mergeF hintFirst cfg s sel order j torn).p.st.disk).1 k ≠ .corrupt := by
  obtain ⟨a, b⟩ := mergeF_restart (hintFirst := hintFirst) cfg hl sel order j torn hsel hcov hsorted hz
  exact ⟨b, a, fun k => get_not_corrupt a.inv k⟩

/-- the same for the states of a history (`ReachL`) -/
theorem c20_merge_restart_reach_partial (hintFirst : Bool) (cfg cfg0 : Cfg) (s : St) (sel : List Nat) (order : List Key) (j torn : Nat)
    (hr : ReachL cfg0 s) (hsel : ∀ id, id ∈ sel → id ≤ s.active) (hcov : Covers order s)
    (hsorted : sel.Pairwise (· ≤ ·)) (hz : NoHazard s sel) :
    (openDisk (mergeF hintFirst cfg s sel order j torn).p.st.disk).1.abs = s.abs :=
  (c20_merge_restart_partial hintFirst cfg s sel order j torn (reachL_lj hr) hsel hcov hsorted hz).1

/-- the hypotheses hold in the instance -/
example : LJ mfSt ∧ (∀ id, id ∈ mfSel → id ≤ mfSt.active) ∧ Covers mfOrder mfSt ∧
    mfSel.Pairwise (· ≤ ·) ∧ NoHazard mfSt mfSel :=
  ⟨mfSt_lj, mfSel_le, mfOrder_covers, mfSel_sorted, mfSel_noHazard⟩

theorem d3St_reachL : ReachL d3Cfg d3St :=
  .step (.del 0 [107]) (.step (.put 0 [107] [1]) .fresh trivial) trivial

/-- **C20-merge (restart) fails at full strength** (D3): value of `k` in file 0, its tombstone in
    file 1; the pass that merges file 1 removes it and then fails to create the new active file;
    after a restart `k` is back. -/
theorem c20_merge_restart_counterexample :
    ∃ (cfg : Cfg) (s : St) (sel : List Nat) (order : List Key) (j torn : Nat),
      LJ s ∧ (∀ id, id ∈ sel → id ≤ s.active) ∧ Covers order s ∧ sel.Pairwise (· ≤ ·) ∧
      (mergeF true cfg s sel order j torn).err = true ∧
      (openDisk (mergeF true cfg s sel order j torn).p.st.disk).1.abs ≠ s.abs := by
  refine ⟨d3Cfg, d3St, [1], [], 5, 0, reachL_lj d3St_reachL, by decide, by decide, by decide, by decide, ?_⟩
  intro he
  have hk := congrFun he [107]
  have hasc : Asc (mergeF true d3Cfg d3St [1] [] 5 0).p.st.disk.data := by decide
  rw [openDisk_eq_with hasc] at hk
  revert hk
  decide

/-! ### the order before commit 924dfa8 (`hintFirst = false`) is harmful: a failing hint append, then a
     fault-free pass over the same input -/

/-- two 27-byte entries per file; no "small file" selection (as for files above `small_file`) -/
def hnCfg : Cfg := { maxFile := 50, smallFile := 0 }
/-- files 0 = [k1 ↦ 10, k2 ↦ 20 (dead)], 1 = [k3 ↦ 30, k2 ↦ 21], 2 = active -/
def hnS0 : St := runC hnCfg fresh mfOps
/-- the pass over file 0 (the policy's selection) fails at call 3: the hint append for k1 -/
def hnS1 : StP := (mergeF false hnCfg hnS0 [0] [[1], [2], [3]] 3 0).p
/-- the next pass, fault-free, with the policy's selection -/
def hnS2 : St := (merge hnCfg hnS1.st [[1], [2], [3]]).1

theorem hn_sel0 : selectFiles hnCfg hnS0 = [0] := selectFiles_eq (by decide) (by decide)
theorem hn_sel1 : selectFiles hnCfg hnS1.st = [0] := selectFiles_eq (by decide) (by decide)
theorem hn_S2 : hnS2 = (mergeWith hnCfg hnS1.st [0] [[1], [2], [3]]).1 := by
  unfold hnS2 merge; rw [hn_sel1]

/-- **C20-merge, order before commit 924dfa8 (re-point before the hint append): a failing hint
    append loses an acknowledged write at the next restart.**
    1. `hnS0` is reachable; its pass — selection `[0]` by the store's own policy — satisfies every
       side condition (`NoHazard` included).  Call 3 of the pass is the hint append for key `[1]`;
       it fails, the pass reports the error, nothing is pending.
    2. In the running process, and after an immediate restart, `[1]` still reads `[10]`.
    3. The next pass is fault-free, again with the policy's selection `[0]` (the counters of file
       0 are unchanged, the stale output 3 is not selected), and satisfies every side condition.
       It copies nothing and removes file 0.
    4. In the running process `[1]` still reads `[10]`; after a restart it is absent. -/
theorem c20_merge_old_order_data_loss_counterexample :
    -- 1.
    ReachL hnCfg hnS0 ∧ selectFiles hnCfg hnS0 = [0] ∧ (∀ id, id ∈ [0] → id ≤ hnS0.active) ∧
    Covers [[1], [2], [3]] hnS0 ∧ NoHazard hnS0 [0] ∧
    (mergeWith hnCfg hnS0 [0] [[1], [2], [3]]).2[3]? =
      some (Call.append ⟨.hint, 3⟩ (.ofHint { ts := 0, len := 27, pos := 0, key := [1] })) ∧
    (mergeF false hnCfg hnS0 [0] [[1], [2], [3]] 3 0).err = true ∧ hnS1.pending = none ∧
    -- 2.
    get hnS0 [1] = .value [10] ∧ get hnS1.st [1] = .value [10] ∧
    get (openDisk hnS1.st.disk).1 [1] = .value [10] ∧
    -- 3.
    Inv hnS1.st ∧ selectFiles hnCfg hnS1.st = [0] ∧ (∀ id, id ∈ [0] → id ≤ hnS1.st.active) ∧
    Covers [[1], [2], [3]] hnS1.st ∧ NoHazard hnS1.st [0] ∧
    -- 4.
    get hnS2 [1] = .value [10] ∧ get (reopen hnS2).1 [1] = .absent := by
  have hr : ReachL hnCfg hnS0 := reachL_runC mfOps .fresh (by simp [mfOps, ValidOps, opOk])
  have hsel : ∀ id, id ∈ [0] → id ≤ hnS0.active := by decide
  have hcov : Covers [[1], [2], [3]] hnS0 := by decide
  refine ⟨hr, hn_sel0, hsel, hcov, noHazard_of_noStaleValue (by decide), by decide, by decide, by rfl,
    by decide, by decide, ?_,
    (c20_merge_inv false hnCfg hnS0 [0] [[1], [2], [3]] 3 0 (reachL_lj hr).inv hsel hcov).2.2 (by rfl),
    hn_sel1, by decide, by decide, noHazard_of_noStaleValue (by decide), ?_, ?_⟩
  · rw [openDisk_eq_with (by decide)]
    decide
  · rw [hn_S2]; decide
  · rw [hn_S2]
    show get (openDisk _).1 [1] = .absent
    rw [openDisk_eq_with (by decide)]
    decide

/-! ### the order of the day (commit 924dfa8, `hintFirst = true`) -/

/-- **C20-merge (lives invariant).** Order of the day.  Let the store satisfy the lives invariant
    with every selected file completely visible (`LJsel s sel`), `sel` ascending existing files,
    `order` covering, and the D3 side condition `NoHazard s sel`.  After the pass — failed at ANY
    call `j`, or not at all — and its possibly pending move, the running store satisfies the lives
    invariant `LJ` again. -/
theorem c20_merge_lj (cfg : Cfg) (s : St) (sel : List Nat) (order : List Key) (j torn : Nat)
    (h : LJsel s sel) (hsel : ∀ id, id ∈ sel → id ≤ s.active) (hcov : Covers order s)
    (hsorted : sel.Pairwise (· ≤ ·)) (hz : NoHazard s sel) :
    LJ (mergeF true cfg s sel order j torn).p.move.1 :=
  mergeF_ljsel h cfg order j torn hsel hcov hsorted hz

/-- **C20-merge (failed pass, then operations, then restart), under `NoHazard`.** Order of the
    day.  Hypotheses on the failed pass as in `c20_merge_lj`.  Let `ops` be ANY later sequence of
    fault-free puts, deletes, gets, reopens and merge passes, valid in the sense of `ValidOps`:
    every merge pass of the sequence selects existing files in ascending order, its iteration
    order covers the index, and its selection is hazard-free (`NoHazard`, the D3 side condition)
    in the state it runs in.  Then
      * in the running process every key reads what the abstract map says after `ops`
        (`specRun s.abs ops`: the failed pass has no effect),
      * after a restart (`openDisk` of the directory) every key reads exactly the same — no
        acknowledged write is lost, no deleted key comes back —,
      * the restarted store satisfies the lives invariant and no read is `corrupt`. -/
theorem c20_merge_then_ops_restart_partial (cfg : Cfg) (s : St) (sel : List Nat) (order : List Key) (j torn : Nat)
    (h : LJsel s sel) (hsel : ∀ id, id ∈ sel → id ≤ s.active) (hcov : Covers order s)
    (hsorted : sel.Pairwise (· ≤ ·)) (hz : NoHazard s sel)
    (cfg' : Cfg) (ops : List TOp) (hv : ValidOps cfg' (mergeF true cfg s sel order j torn).p.move.1 ops) :
    (runC cfg' (mergeF true cfg s sel order j torn).p.move.1 ops).abs = specRun s.abs ops ∧
    (openDisk (runC cfg' (mergeF true cfg s sel order j torn).p.move.1 ops).disk).1.abs = specRun s.abs ops ∧
    LJ (openDisk (runC cfg' (mergeF true cfg s sel order j torn).p.move.1 ops).disk).1 ∧
    ∀ k, get (openDisk (runC cfg' (mergeF true cfg s sel order j torn).p.move.1 ops).disk).1 k ≠ .corrupt := by
  obtain ⟨_, b, c, d⟩ := mergeF_then_ops h cfg order j torn hsel hcov hsorted hz cfg' ops hv
  exact ⟨b, d, c, fun k => get_not_corrupt c.inv k⟩

/-- the same for the states of histories without a kill inside a merge pass (`ReachM`: sets,
    deletes, reads, reopens, hazard-free merge passes, kills inside the merge-free operations):
    they have no stale merge outputs, so `LJsel` holds for every selection -/
theorem c20_merge_then_ops_restart_reach_partial (cfg cfg0 : Cfg) (s : St) (sel : List Nat) (order : List Key)
    (j torn : Nat) (hr : ReachM cfg0 s) (hsel : ∀ id, id ∈ sel → id ≤ s.active) (hcov : Covers order s)
    (hsorted : sel.Pairwise (· ≤ ·)) (hz : NoHazard s sel)
    (cfg' : Cfg) (ops : List TOp) (hv : ValidOps cfg' (mergeF true cfg s sel order j torn).p.move.1 ops) :
    (runC cfg' (mergeF true cfg s sel order j torn).p.move.1 ops).abs = specRun s.abs ops ∧
    (openDisk (runC cfg' (mergeF true cfg s sel order j torn).p.move.1 ops).disk).1.abs = specRun s.abs ops :=
  let r := c20_merge_then_ops_restart_partial cfg s sel order j torn
    (ljsel_of_rinv (reachM_rinv hr).1 (reachM_rinv hr).2 sel) hsel hcov hsorted hz cfg' ops hv
  ⟨r.1, r.2.1⟩

/-- the pass of the old-order counterexample, with the order of the day -/
def hnT1 : StP := (mergeF true hnCfg hnS0 [0] [[1], [2], [3]] 3 0).p
/-- … and the next, fault-free pass with the policy's selection -/
def hnT2 : St := (merge hnCfg hnT1.st [[1], [2], [3]]).1

theorem hn_selT1 : selectFiles hnCfg hnT1.st = [0, 3] := selectFiles_eq (by decide) (by decide)
theorem hn_T2 : hnT2 = (mergeWith hnCfg hnT1.st [0, 3] [[1], [2], [3]]).1 := by
  unfold hnT2 merge; rw [hn_selT1]

theorem hnS0_reachM : ReachM hnCfg hnS0 := reachM_runC mfOps .fresh (by simp [mfOps, ValidOps, opOk])

/-- the hypotheses of `c20_merge_lj` / `c20_merge_then_ops_restart_partial` hold for the witness
    history: failed pass over file 0, then the next pass (over file 0 and the abandoned output 3) and a reopen -/
example : LJsel hnS0 [0] ∧ (∀ id, id ∈ [0] → id ≤ hnS0.active) ∧ Covers [[1], [2], [3]] hnS0 ∧
    [0].Pairwise (· ≤ ·) ∧ NoHazard hnS0 [0] ∧
    ValidOps hnCfg hnT1.move.1 [.merge [0, 3] [[1], [2], [3]], .reopen] :=
  ⟨ljsel_of_rinv (reachM_rinv hnS0_reachM).1 (reachM_rinv hnS0_reachM).2 _, by decide, by decide, by decide,
   noHazard_of_noStaleValue (by decide),
   ⟨⟨by decide, by decide, by decide, noHazard_of_noStaleValue (by decide)⟩, trivial, trivial⟩⟩

/-- **the witness history of the old-order counterexample is harmless with the order of the day.**
    The pass over file 0 fails at call 3 (the hint append for `[1]`): the error is reported, the
    entry of `[1]` still points into file 0 (the copy in file 3 is an unlisted, invisible record,
    counted as dead in file 3: commit 8c97bf1).  The next pass — fault-free, the policy selects file 0
    again AND the abandoned output 3 — finds the entry in file 0, copies the record to a new output
    WITH hint entry and removes file 0 and file 3: nothing of the failed pass is left behind.  In
    the running process and after a restart every key reads what it read before the failed pass. -/
theorem c20_merge_new_order_witness_harmless :
    (mergeF true hnCfg hnS0 [0] [[1], [2], [3]] 3 0).err = true ∧ hnT1.pending = none ∧
    AL.get [1] hnT1.st.keydir = some ⟨0, 0, 27, 0⟩ ∧
    dataOf hnT1.st.disk 3 = [⟨0, [1], some [10]⟩] ∧ AL.get 3 hnT1.st.disk.hint = some [] ∧
    AL.get 3 hnT1.st.stats = some ⟨0, 1, 27⟩ ∧ selectFiles hnCfg hnT1.st = [0, 3] ∧
    AL.get [1] hnT2.keydir = some ⟨5, 0, 27, 0⟩ ∧ AL.get 5 hnT2.disk.hint = some [⟨0, 27, 0, [1]⟩] ∧
    AL.get 0 hnT2.disk.data = none ∧ AL.get 3 hnT2.disk.data = none ∧ AL.get 3 hnT2.disk.hint = none ∧
    (∀ k ∈ [[1], [2], [3], [4]], get hnT2 k = get hnS0 k) ∧
    (∀ k ∈ [[1], [2], [3], [4]], get (reopen hnT2).1 k = get hnS0 k) := by
  refine ⟨by decide, by rfl, by decide, by decide, by decide, by decide, hn_selT1, ?_, ?_, ?_, ?_, ?_, ?_, ?_⟩
  · rw [hn_T2]; decide
  · rw [hn_T2]; decide
  · rw [hn_T2]; decide
  · rw [hn_T2]; decide
  · rw [hn_T2]; decide
  · rw [hn_T2]; decide
  · rw [hn_T2]
    show ∀ k ∈ [[1], [2], [3], [4]], get (openDisk _).1 k = get hnS0 k
    rw [openDisk_eq_with (by decide)]
    decide

/-- **why `LJsel` (and not just `LJ`) in `c20_merge_lj`.**  `hzS1` (Props/C03Lives.lean) is
    reachable: a pass over file 0 was killed between the data append and the hint append of key
    `[2]`; file 2 is a stale output holding `[1]`, `[2]` whose hint file lists only `[1]`;
    recovery: `[1] ↦ file 2`, `[2] ↦ file 0`.  A pass over file 2 (all side conditions hold,
    `NoHazard` included) fails at call 7, the removal of the DATA file 2, after the hint file of
    file 2 has been removed.  In the running process `[2]` still points into file 0; a scan now
    reads file 2 record by record and recovers `[2]` in file 2 — the same record, another entry.
    So the lives invariant (index = what the scan recovers) does not hold literally; every key
    reads correctly in the running process and after a restart. -/
theorem c20_merge_lj_needs_visible_example :
    ReachL hzCfg hzS1 ∧ (∀ id, id ∈ [2] → id ≤ hzS1.active) ∧ Covers [[1], [2]] hzS1 ∧
    [2].Pairwise (· ≤ ·) ∧ NoHazard hzS1 [2] ∧
    (mergeWith hzCfg hzS1 [2] [[1], [2]]).2[7]? = some (Call.unlink ⟨.data, 2⟩) ∧
    ¬ LJ (mergeF true hzCfg hzS1 [2] [[1], [2]] 7 0).p.move.1 ∧
    (∀ k ∈ [[1], [2], [3]], getP (mergeF true hzCfg hzS1 [2] [[1], [2]] 7 0).p k = get hzS1 k ∧
      get (openDisk (mergeF true hzCfg hzS1 [2] [[1], [2]] 7 0).p.st.disk).1 k = get hzS1 k) := by
  refine ⟨hz_reach1.2, by decide, by decide, by decide, noHazard_of_noStaleValue (by decide), by decide, ?_, ?_⟩
  · intro h
    have hk := congrFun h.keydir_open [2]
    have e : (mergeF true hzCfg hzS1 [2] [[1], [2]] 7 0).p.move.1 = (mergeF true hzCfg hzS1 [2] [[1], [2]] 7 0).p.st := by
      rfl
    rw [e, openDisk_eq_with (by decide)] at hk
    revert hk
    decide
  · rw [openDisk_eq_with (by decide)]
    decide

/-! ### counters -/

/-- **C20-merge (an abandoned copy is counted).** Order of the day.  When the hint append of an iteration
    fails, the copy just appended to the output `m.mid` — which no index entry points at — is counted in
    that file's counters as one dead entry of the record's length (commit 8c97bf1).  So the output has
    counters, and `selectFiles`, which only looks at files that have counters, can select it in a later
    pass (without them the file would stay in the directory for good: defect D14). -/
theorem c20_merge_abandoned_copy_counted (m : MergeSt) (k : Key) (loc : Loc) (r : Rec) (torn : Nat) :
    AL.get m.mid (failMove true m k loc r 1 torn).s.stats =
      some (((AL.get m.mid m.s.stats).getD {}).addDead r.len) ∧
    (failMove true m k loc r 1 torn).s.keydir = m.s.keydir := by
  simp [failMove, updStat, AL.get_set_same]

/-- the counters say so in numbers: at least one dead entry and at least the record's bytes -/
theorem c20_merge_abandoned_copy_dead (m : MergeSt) (k : Key) (loc : Loc) (r : Rec) (torn : Nat) :
    ∃ st, AL.get m.mid (failMove true m k loc r 1 torn).s.stats = some st ∧ 1 ≤ st.dead ∧ r.len ≤ st.deadBytes := by
  refine ⟨_, (c20_merge_abandoned_copy_counted m k loc r torn).1, ?_, ?_⟩ <;> simp [Stat.addDead]

/-- **Observation (counters).** After fault (c) — every record copied, the unlink of the first
    input fails — the counters of the two inputs still count the copied records as live (3 live
    records in files 0 and 1), while no index entry points into these files any more (ground
    truth: 0 live, 4 dead).  The per-file accounting of C19 is not exact after a failed pass. -/
theorem c20_merge_counters_stale_example :
    (mergeF true mfCfg mfSt mfSel mfOrder 14 0).p.st.stats =
      [(0, ⟨1, 1, 27⟩), (1, ⟨2, 0, 0⟩), (3, ⟨2, 0, 0⟩), (4, ⟨1, 0, 0⟩)] ∧
    truth (mergeF true mfCfg mfSt mfSel mfOrder 14 0).p.st =
      [(0, ⟨0, 2, 54⟩), (1, ⟨0, 2, 54⟩), (3, ⟨2, 0, 0⟩), (4, ⟨1, 0, 0⟩)] := by decide

end Store
