/-
  C08 — RESP encoding and decoding round-trip, independent of stream chunking.

  Property theorems only; helper lemmas live in `Resp/RoundTrip.lean` (whole frame at any buffer
  offset), `Resp/PrefixLemmas.lean` (buffer ends inside a frame) and `Resp/StreamLemmas.lean`
  (`read_frame` over a segmented stream).

  `WfFrame` (defined in `Resp/RoundTrip.lean`) is the set of frames the statement quantifies
  over: simple strings and errors that are UTF-8 without CR/LF, all 64-bit integers, bulk strings
  of arbitrary bytes (length fits `i64`), null, and one-level arrays of those — exactly what
  `Connection::write_frame` can write without reaching `unimplemented!()`.
  `wire f` is the byte string `write_frame` writes for `f`.
-/
import BitcaskVerif.Resp.StreamLemmas

namespace Resp

/-- **C08 (the encoder is total on well-formed frames)**: `write_frame` never reaches
    `unimplemented!()` on a non-array frame or a one-level array of non-array frames. -/
theorem c08_encode_total (f : Frame) : WfFrame f → ∃ e, encode f = some e :=
  encode_total f

/-- **C08 (round trip)**: the bytes written for a well-formed frame, followed by anything, are
    decoded back to the same frame, and both `check` and `parse` consume exactly those bytes. -/
theorem c08_roundtrip (f : Frame) (e rest : List UInt8) : WfFrame f → encode f = some e →
    parse (e ++ rest).toArray = .ok (f, e.length) ∧ check (e ++ rest).toArray = .ok e.length :=
  roundtrip f e rest

/-- the same for what the connection actually runs (`parse_frame`: check, parse, advance): it
    returns the frame written and consumes exactly its bytes, leaving `rest` in the buffer -/
theorem c08_parse_frame (f : Frame) (e rest : List UInt8) : WfFrame f → encode f = some e →
    parseFrame (e ++ rest).toArray = .frame f e.length :=
  parseFrame_roundtrip f e rest

/-- **C08 (every strict prefix of a valid encoding is incomplete)** — not an error, not a
    shorter frame, not a panic. -/
theorem c08_prefix (f : Frame) (e p : List UInt8) : WfFrame f → encode f = some e →
    p <+: e → p ≠ e → check p.toArray = .incomplete :=
  check_prefix f e p

/-- **C08 (independence of chunking)**: however the concatenated encodings of `fs` are cut into
    segments (any boundaries, one byte at a time, all at once), the reader loop returns exactly
    `fs`, in order, and then a clean end of stream. -/
theorem c08_stream (fs : List Frame) (segs : List (List UInt8)) :
    (∀ f ∈ fs, WfFrame f) → (∀ s ∈ segs, s ≠ []) →
    segs.flatten = fs.flatMap wire →
    readAll segs = fs.map .frame ++ [.cleanEnd] :=
  fun hw _ h => stream_clean fs segs hw h

/-- the same without the (unneeded) assumption that segments are non-empty: the model treats an
    empty segment as a read that returned no new bytes yet, not as end of stream -/
theorem c08_stream' (fs : List Frame) (segs : List (List UInt8)) :
    (∀ f ∈ fs, WfFrame f) → segs.flatten = fs.flatMap wire →
    readAll segs = fs.map .frame ++ [.cleanEnd] :=
  stream_clean fs segs

/-- `c08_stream` with the encodings named explicitly (`es[i]` is the encoding of `fs[i]`) -/
theorem c08_stream_enc (fs : List Frame) (es segs : List (List UInt8)) :
    (∀ f ∈ fs, WfFrame f) → fs.map encode = es.map some → segs.flatten = es.flatten →
    readAll segs = fs.map .frame ++ [.cleanEnd] :=
  fun hw he h => stream_clean fs segs hw (by rw [h, flatMap_wire_of_map fs es he])

/-- special case: the stream is delivered one byte at a time -/
theorem c08_stream_bytewise (fs : List Frame) : (∀ f ∈ fs, WfFrame f) →
    readAll ((fs.flatMap wire).map fun b => [b]) = fs.map .frame ++ [.cleanEnd] :=
  fun hw => stream_clean fs _ hw (flatten_singletons _)

/-- special case: the stream is delivered all at once -/
theorem c08_stream_whole (fs : List Frame) : (∀ f ∈ fs, WfFrame f) →
    readAll [fs.flatMap wire] = fs.map .frame ++ [.cleanEnd] :=
  fun hw => stream_clean fs _ hw (by simp)

/-- **C08 (a stream that ends inside a frame is an error, not a clean end)**: after the complete
    frames `fs`, a non-empty strict prefix `p` of one more encoding makes the reader return `fs`
    and then `ConnectionReset`, for every segmentation. -/
theorem c08_eof_inside (fs : List Frame) (f : Frame) (e p : List UInt8) (segs : List (List UInt8)) :
    (∀ g ∈ fs, WfFrame g) → WfFrame f → encode f = some e → p <+: e → p ≠ e → p ≠ [] →
    (∀ s ∈ segs, s ≠ []) →
    segs.flatten = fs.flatMap wire ++ p →
    readAll segs = fs.map .frame ++ [.reset] :=
  fun hw hf he hp hne hnil _ h => stream_reset fs f e p segs hw hf he hp hne hnil h

/-! ### non-vacuity: concrete well-formed frames, encodings, prefixes and segmentations -/

example : WfFrame (.simple [79, 75]) := by decide
example : WfFrame (.error [69, 82, 82, 32, 120]) := by decide
example : WfFrame (.integer I64Min) := by decide
example : WfFrame (.integer I64Max) := by decide
example : WfFrame (.bulk [13, 10, 0, 255]) := by decide
example : WfFrame .null := by decide
example : WfFrame (.array [.bulk [83, 69, 84], .bulk [13, 10], .integer (-5), .null, .simple []]) := by
  decide
example : WfFrame (.array []) := by decide
example : ¬ WfFrame (.simple [13]) := by decide
example : ¬ WfFrame (.array [.array []]) := by decide

/-- `"+OK\r\n"` and `"$-1\r\n"` are the encodings of `Simple("OK")` and `Null` -/
example : encode (.simple [79, 75]) = some [43, 79, 75, 13, 10] := by decide
example : encode .null = some [36, 45, 49, 13, 10] := by decide
/-- `":-5\r\n"`, `":-9223372036854775808\r\n"`, `"$3\r\n\r\n\0\r\n"`, `"*2\r\n$1\r\nG\r\n$-1\r\n"` -/
example : encode (.integer (-5)) = some [58, 45, 53, 13, 10] := by
  simp [encode, encodeSingle, intRepr, natDigits, crlf]
example : encode (.integer I64Min) = some [58, 45, 57, 50, 50, 51, 51, 55, 50, 48, 51, 54, 56,
    53, 52, 55, 55, 53, 56, 48, 56, 13, 10] := by
  simp [encode, encodeSingle, intRepr, natDigits, crlf, I64Min]
example : encode (.bulk [13, 10, 0]) = some [36, 51, 13, 10, 13, 10, 0, 13, 10] := by
  simp [encode, encodeSingle, intRepr, natDigits, crlf]
example : encode (.array [.bulk [71], .null])
    = some [42, 50, 13, 10, 36, 49, 13, 10, 71, 13, 10, 36, 45, 49, 13, 10] := by
  simp [encode, encodeItems, encodeSingle, intRepr, natDigits, crlf]

/-- the prefix `":-"` of the encoding of `Integer(-5)` is incomplete (finding D6 of DESIGN §4) -/
example : check #[58, 45] = .incomplete :=
  c08_prefix (.integer (-5)) [58, 45, 53, 13, 10] [58, 45] (by decide)
    (by simp [encode, encodeSingle, intRepr, natDigits, crlf]) (by decide) (by decide)

/-- hypotheses of `c08_prefix` are met: `"+O"` is a strict prefix of `"+OK\r\n"` -/
example : check #[43, 79] = .incomplete :=
  c08_prefix (.simple [79, 75]) [43, 79, 75, 13, 10] [43, 79] (by decide) (by decide)
    (by decide) (by decide)

/-- hypotheses of `c08_stream` are met: `"+OK\r\n$-1\r\n"` delivered as `"+O" "K\r\n$-" "1\r\n"` -/
example : readAll [[43, 79], [75, 13, 10, 36, 45], [49, 13, 10]]
    = [.frame (.simple [79, 75]), .frame .null, .cleanEnd] :=
  c08_stream [.simple [79, 75], .null] [[43, 79], [75, 13, 10, 36, 45], [49, 13, 10]]
    (by decide) (by decide) (by decide)

/-- hypotheses of `c08_eof_inside` are met: `"+OK\r\n$-"` delivered as `"+O" "K\r\n$-"`, the
    stream ends inside the encoding of `Null` -/
example : readAll [[43, 79], [75, 13, 10, 36, 45]] = [.frame (.simple [79, 75]), .reset] :=
  c08_eof_inside [.simple [79, 75]] .null [36, 45, 49, 13, 10] [36, 45]
    [[43, 79], [75, 13, 10, 36, 45]]
    (by decide) (by decide) (by decide) (by decide) (by decide) (by decide) (by decide) (by decide)

end Resp
