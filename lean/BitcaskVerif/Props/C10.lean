/-
  C10 — hostile or malformed input harms only the connection that sent it.

  For every byte stream, in every segmentation: the connection's handler never panics (so the
  process keeps running and the handler task ends by returning), and the store is changed by
  exactly the well-formed commands that precede the first error. Connections share nothing but
  the store, so other connections are affected only through those well-formed commands.
-/
import BitcaskVerif.Resp.ServerLemmas

namespace Resp

/-- **C10 (the handler survives anything).** Whatever bytes arrive, however they are segmented,
    the handler ends in one of: peer closed, connection reset, frame error, command error — never
    by a panic (index out of bounds, overflow, `advance` past the end, `unimplemented!`, or the
    reader's fuel running out). -/
theorem c10_outcome (m : KV) (segs : List (List UInt8)) : (serve m segs).2.2 ≠ .panic := by
  unfold serve
  exact serveFrames_no_panic m _ (readAll_no_panic segs)

/-- reading itself never panics, for any bytes in any segmentation -/
theorem c10_read_total (segs : List (List UInt8)) : ReadRes.panic ∉ readAll segs := readAll_no_panic segs

/-- **C10 (stored data changes only through well-formed SET and DEL).** After serving any byte
    stream the store equals the store before, with exactly the commands of the leading well-formed
    command frames applied in order; nothing after the first malformed frame, unknown command or
    truncated frame has any effect. -/
theorem c10_store (m : KV) (segs : List (List UInt8)) :
    (serve m segs).1 = applyAll m (goodPrefix (readAll segs)) := by
  unfold serve
  exact serveFrames_store m _ (readAll_no_panic segs)

/-- a GET never changes the store (so a connection that only reads, or only sends garbage, leaves
    every other connection's view untouched) -/
theorem c10_get_pure (m : KV) (k : List UInt8) : (applyCmd m (.get k)).1 = m := rfl

/-- **C10 (no memory blow-up behind the completeness check).** Whenever `check` accepts a buffer,
    the accepted length is within the bytes actually received; `parse_frame` parses only that
    buffer, and `Frame::parse` reserves at most one slot per remaining byte (D9 fix), so an absurd
    length prefix cannot make the server allocate beyond what the peer really sent. -/
theorem c10_alloc (buf : Buf) (n : Nat) (h : check buf = .ok n) : n ≤ buf.size :=
  (check_ok_bounds buf n h).2

/-! non-vacuity: garbage after a valid SET — the SET is applied, nothing else, no reply for the garbage -/
example : (serveFrames KV.empty [.frame (Cmd.toFrame (.set [104] [49])), .error .badEncoding]).2 =
    ([43, 79, 75, 13, 10], .frameError .badEncoding) := by decide

end Resp
