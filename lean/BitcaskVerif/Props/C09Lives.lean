/-
  C09 (lives) — with `sync = always` an acknowledged write survives power loss, merges included,
  over any number of lives — also when a life ends with a power failure (or a kill) INSIDE a
  merge pass.

  Props/C09.lean proves that every power-loss image of every cut of every operation opens to the
  right contents, from the states `ReachM`; after a failure inside a merge pass the recovered
  store is outside `ReachM` (an output data file may hold records its hint file does not list, or
  the hint file entries whose records are gone — the D5 check `pos + len ≤ data length` then
  stops the scan of the hint file).  This file closes that gap with the lives invariant `LJ` of
  Props/C03Lives.lean.

  Failure model.  `PowerLoss3` (Store/LivesPower.lean) = `PowerLoss2` (creations and removals
  persistent; every data file and every hint file cut back independently to any length at or
  above its durable length; where records are lost the partial record left behind is shorter
  than the first lost record) PLUS: a data file that loses no record keeps its length.
  `PowerLoss2` leaves the invisible tail of such a file arbitrary.  That is harmless while hint
  files are exact, but NOT after a power failure inside a merge: a stale output may keep hint
  entries whose records are gone, and a longer tail would make the D5 check accept them
  (`c09_lives_tail_counterexample`, decide-checked).  Real files do not grow in a power failure.
  As in Props/C09.lean a life starts with everything in the directory durable (`FullySynced2`;
  after a reboot whatever is on the disk is durable; `c09_lives_boundary_synced`: with
  `sync = always` everything is durable again whenever an operation has returned).

  Main theorems: `c09_lives_op_durable_partial` (one operation), `c09_lives_merge_partial`
  (one life from any reachable state; reachability `ReachP` = operations, kills at any cut,
  power failures at any cut, recoveries).  "partial": the D3 side condition (`opOk`:
  `NoHazard` — over ALL records, see Props/C03Lives.lean) is a hypothesis.

  Helper lemmas: Store/LivesGen.lean (general recovery theorem `recW_newFiles`),
  Store/LivesPower.lean (`hp_image`, images of the copy phase), Store/LivesPowerOps.lean.
-/
import BitcaskVerif.Props.C03Lives
import BitcaskVerif.Props.C09
import BitcaskVerif.Store.LivesPowerOps

namespace Store

open Tr

/-- the images of this file are images of Props/C09.lean -/
theorem c09_lives_images (sd : SDisk2) (I : Disk) (h : PowerLoss3 sd I) : PowerLoss2 sd I := h.toPL2

/-- the states of Props/C03Lives.lean are reachable states of this file -/
theorem c09_lives_reachL (cfg : Cfg) (s : St) (h : ReachL cfg s) : ReachP cfg s := h.toReachP

/-- **C09 (lives): the invariant.**  Every state reachable by operations, kills and power failures
    at any cut of any operation (merge passes included), and recoveries, satisfies the lives
    invariant, the store invariant, `HintsPrefix`, and never reads a bad location. -/
theorem c09_lives_invariant (cfg : Cfg) (s : St) (h : ReachP cfg s) :
    LJ s ∧ Inv s ∧ HintsPrefix s.disk ∧ ∀ k, get s k ≠ .corrupt := by
  have hl := reachP_lj h
  refine ⟨hl, hl.inv, ?_, fun k => get_not_corrupt hl.inv k⟩
  obtain ⟨d1, w⟩ := hl
  intro fid hs hg
  have hg1 := (w.sim.file fid).acc hs hg
  refine ⟨(dataOf d1 fid).length, ?_⟩
  rw [← List.prefix_iff_eq_take.mp (w.sim.pre fid)]
  exact w.rinv.hx fid _ hg1

/-- **C09 (lives), one operation.**  `sync = always`; `s` reachable as above (e.g. recovered from
    a power failure inside a merge pass), everything in its directory durable (`sd0`).  The power
    fails after the calls `c` — ANY cut — of the next operation `op` (set, delete, read, reopen,
    or a merge pass satisfying `opOk`).  Every image `I` the failure can leave opens to a store
    that satisfies the invariant, never reads a bad location, reads as before `op` or as after
    `op` — as after `op` if `op` had returned — and is again a reachable state. -/
theorem c09_lives_op_durable_partial (cfg : Cfg) (hs : cfg.syncAlways = true) (s : St) (h : ReachP cfg s)
    (sd0 : SDisk2) (hd : sd0.disk = s.disk) (hfs : FullySynced2 sd0) (op : TOp) (hop : opOk s op)
    (c : List Call) (hc : Cut (stepC cfg s op).2 c) (I : Disk) (hp : PowerLoss3 (syncCalls2 sd0 c) I) :
    ((openDisk I).1.abs = s.abs ∨ (openDisk I).1.abs = specOp s.abs op) ∧
    (c = (stepC cfg s op).2 → (openDisk I).1.abs = specOp s.abs op) ∧
    Inv (openDisk I).1 ∧ (∀ k, get (openDisk I).1 k ≠ .corrupt) ∧ ReachP cfg (openDisk I).1 := by
  have hr : ReachP cfg (openDisk I).1 := .power sd0 [] op c I h hs hd hfs trivial hop hc hp
  have hi := (reachP_lj hr).inv
  obtain ⟨a, b⟩ := stepC_image_recW cfg hs (reachP_lj h) hd hfs op hop hc hp
  refine ⟨?_, fun e => (b e).recJ.2, hi, fun k => get_not_corrupt hi k, hr⟩
  rcases a with r | r
  · exact .inl r.recJ.2
  · exact .inr r.recJ.2

/-- **C09 (lives), merge pass, hazard hypothesis per prefix** (cf.
    `c09_merge_durable_prefixes_partial`): every image of every cut of a merge pass opens to
    exactly the contents before the merge: a merge never removes the only durable copy of a
    value, and what it has half-written is either a copy of a live record or invisible. -/
theorem c09_lives_merge_durable_prefixes_partial (cfg : Cfg) (s : St) (h : ReachP cfg s) (sel : List Nat)
    (order : List Key) (hsel : ∀ id, id ∈ sel → id ≤ s.active) (hcov : Covers order s)
    (hz : ∀ done, done <+: sel → NoHazard s done) (sd0 : SDisk2) (hd : sd0.disk = s.disk)
    (hfs : FullySynced2 sd0) (c : List Call) (hc : Cut (mergeWith cfg s sel order).2 c) (I : Disk)
    (hp : PowerLoss3 (syncCalls2 sd0 c) I) :
    (openDisk I).1.abs = s.abs ∧ Inv (openDisk I).1 ∧ LJ (openDisk I).1 := by
  obtain ⟨d1, w⟩ := reachP_lj h
  have r := (mergeWith_image_recW cfg w sel order hsel hcov hz hd hfs hc hp).recJ
  exact ⟨r.2, r.1.inv, r.1⟩

/-- **C09 (lives), one life.**  `sync = always`; from any reachable state `s` whose directory is
    durable: after the acknowledged operations `ops` (merge passes included) the power fails at
    ANY cut `c` of the next operation `op` (a merge pass included).  Every image `I` opens to a
    store that satisfies the invariant, never reads a bad location, contains every acknowledged
    operation, and `op` applied or not — applied if `op` had returned; it is again a reachable
    state, so the statement applies to the next life as well (with `allSynced2` of its
    directory: `c09_lives_next_life`). -/
theorem c09_lives_merge_partial (cfg : Cfg) (hs : cfg.syncAlways = true) (s : St) (h : ReachP cfg s)
    (sd0 : SDisk2) (hd : sd0.disk = s.disk) (hfs : FullySynced2 sd0) (ops : List TOp) (hv : ValidOps cfg s ops)
    (op : TOp) (hop : opOk (runC cfg s ops) op) (c : List Call) (hc : Cut (stepC cfg (runC cfg s ops) op).2 c)
    (I : Disk) (hp : PowerLoss3 (syncCalls2 sd0 (traceOf cfg s ops ++ c)) I) :
    ((openDisk I).1.abs = specRun s.abs ops ∨ (openDisk I).1.abs = specOp (specRun s.abs ops) op) ∧
    (c = (stepC cfg (runC cfg s ops) op).2 → (openDisk I).1.abs = specOp (specRun s.abs ops) op) ∧
    Inv (openDisk I).1 ∧ (∀ k, get (openDisk I).1 k ≠ .corrupt) ∧ ReachP cfg (openDisk I).1 := by
  have hr : ReachP cfg (openDisk I).1 := .power sd0 ops op c I h hs hd hfs hv hop hc hp
  have hi := (reachP_lj hr).inv
  obtain ⟨a, b⟩ := history_image_recW cfg hs (reachP_lj h) hd hfs ops hv op hop hc hp
  refine ⟨?_, fun e => (b e).recJ.2, hi, fun k => get_not_corrupt hi k, hr⟩
  rcases a with r | r
  · exact .inl r.recJ.2
  · exact .inr r.recJ.2

/-- the next life starts from the recovered store with everything on the disk durable -/
theorem c09_lives_next_life (d : Disk) : (allSynced2 d).disk = d ∧ FullySynced2 (allSynced2 d) :=
  ⟨rfl, fullySynced2_all d⟩

/-- with `sync = always` everything (data and hint files) is durable whenever an operation —
    merge passes included — has returned -/
theorem c09_lives_boundary_synced (cfg : Cfg) (hs : cfg.syncAlways = true) (s : St) (h : ReachP cfg s)
    (sd0 : SDisk2) (hd : sd0.disk = s.disk) (hfs : FullySynced2 sd0) (ops : List TOp) (hv : ValidOps cfg s ops) :
    (syncCalls2 sd0 (traceOf cfg s ops)).disk = (runC cfg s ops).disk ∧
      FullySynced2 (syncCalls2 sd0 (traceOf cfg s ops)) :=
  runC_sync2L cfg hs ops sd0 (reachP_lj h) hd hfs hv

/-- **what half-written merge outputs amount to.**  A data file and its hint file cut back
    independently (to `kD` records and `kH` entries; `tail` bytes of a partial record remain,
    fewer than the first lost record has): the entries the scan accepts describe exactly as many
    records of what is left of the data file.  An entry whose record is missing or incomplete
    points beyond the end of the file (D5). -/
theorem c09_lives_cut_back (fid : Nat) (rs : List Rec) (hs : List Hint)
    (hex : hintEvs fid hs = evData fid (rs.take hs.length) 0) (kD kH tail : Nat)
    (htail : ∀ r, rs[kD]? = some r → tail < r.len) :
    hintEvs fid (accLen (fileSize (rs.take kD) + tail) (hs.take kH)) =
      evData fid ((rs.take kD).take (accLen (fileSize (rs.take kD) + tail) (hs.take kH)).length) 0 :=
  hp_image hex kD kH tail htail

/-! ### non-vacuity, and the tail of a file that loses nothing -/

/-- an image in which nothing is lost (every `SDisk2` has one) -/
theorem powerLoss3_self (sd : SDisk2) :
    PowerLoss3 sd (lossImage2 sd.disk (fun id => max (sd.dOf id) (dataOf sd.disk id).length)
      (fun id => sd.hOf id) sd.disk.tails) := by
  refine ⟨_, _, _, fun id => Nat.le_max_left _ _, fun id => Nat.le_refl _, ?_, fun _ _ => rfl, rfl⟩
  intro id r hr
  rw [List.getElem?_eq_none (Nat.le_max_right _ _)] at hr
  cases hr

/-- `pImg` of Props/C09.lean (merge of file 0 of `pSt`, the power fails after the hint append of the
    copied record; output data file 3 lost its record — 5 bytes of it remain — hint file 3 kept its
    entry) is an image of this file -/
theorem pImg_powerLoss3 : PowerLoss3 (syncCalls2 (allSynced2 pSt.disk) pCut) pImg := by
  rw [pSd]
  refine ⟨fun id => if id = 3 then 0 else 1, fun _ => 1, [(3, 5)], ?_, ?_, ?_, ?_, rfl⟩
  · intro id
    simp only [SDisk2.dOf, AL.get]
    repeat' split
    all_goals (first | omega | (subst_vars; decide) | simp)
  · intro id
    simp only [SDisk2.hOf, AL.get]
    repeat' split
    all_goals simp_all
  · intro id r
    simp only [dataOf, AL.get]
    repeat' split
    all_goals (first | (subst_vars; simp; try (intro h; subst h; decide)) | simp)
  · intro id hlen
    by_cases e : id = 3
    · subst e
      simp [dataOf, AL.get] at hlen
    · have e' : ¬ 3 = id := fun h => e h.symm
      simp [AL.get, e']

/-- the store recovered from `pImg`: a reachable state of this file whose hint file 3 lists a
    record that is gone -/
def pS1 : St := (openDisk pImg).1

theorem pS1_reach : ReachP pCfg pS1 := by
  have hm : ReachM pCfg pSt := .step (.put 0 [2] [20]) (.step (.put 0 [1] [10]) .fresh trivial) trivial
  have h0 : ReachP pCfg pSt := hm.toReachL.toReachP
  exact .power (allSynced2 pSt.disk) [] (.merge [0] [[1], [2]]) pCut pImg h0 rfl rfl (fullySynced2_all _) trivial
    ⟨by decide, by decide, by decide, noHazard_of_noStaleValue (by decide)⟩
    (.boundary _ [.fsync ⟨.data, 3⟩, .fsync ⟨.hint, 3⟩, .create ⟨.data, 4⟩, .create ⟨.hint, 4⟩, .fsync ⟨.data, 4⟩,
      .fsync ⟨.hint, 4⟩, .unlink ⟨.data, 0⟩, .create ⟨.data, 5⟩] (by decide))
    pImg_powerLoss3

theorem pS1_eq : pS1 = (openDiskWith [0, 1, 2, 3] pImg).1 := by
  unfold pS1; rw [openDisk_eq_with (by decide)]; rfl

/-- its hint files are not exact: outside the theory of Props/C09.lean -/
example : ¬ HintsExact pS1.disk := by
  rw [pS1_eq]
  intro h
  have := h 3 [⟨0, 27, 0, [1]⟩] (by decide)
  revert this
  decide

/-- second life: a set, then a merge of file 0 and the stale output 3; the power fails after the
    hint file of the stale output has been removed -/
def pCut2 : List Call :=
  [.create ⟨.data, 6⟩, .create ⟨.hint, 6⟩, .append ⟨.data, 6⟩ (.ofRec ⟨0, [1], some [10]⟩),
   .append ⟨.hint, 6⟩ (.ofHint ⟨0, 27, 0, [1]⟩), .fsync ⟨.data, 6⟩, .fsync ⟨.hint, 6⟩, .create ⟨.data, 7⟩,
   .create ⟨.hint, 7⟩, .fsync ⟨.data, 7⟩, .fsync ⟨.hint, 7⟩, .unlink ⟨.data, 0⟩, .unlink ⟨.hint, 3⟩]

/-- the hypotheses of `c09_lives_merge_partial` (and of `c09_lives_op_durable_partial`,
    `c09_lives_boundary_synced`) are satisfiable in the life after the power failure inside the
    merge: a set, then a second merge pass — which selects the stale output — cut inside its
    removal phase, with an image -/
example : ReachP pCfg pS1 ∧ (allSynced2 pS1.disk).disk = pS1.disk ∧ FullySynced2 (allSynced2 pS1.disk) ∧
    ValidOps pCfg pS1 [.put 1 [3] [30]] ∧
    opOk (runC pCfg pS1 [.put 1 [3] [30]]) (.merge [0, 3] [[1], [2], [3]]) ∧
    Cut (stepC pCfg (runC pCfg pS1 [.put 1 [3] [30]]) (.merge [0, 3] [[1], [2], [3]])).2 pCut2 ∧
    ∃ I, PowerLoss3 (syncCalls2 (allSynced2 pS1.disk) (traceOf pCfg pS1 [.put 1 [3] [30]] ++ pCut2)) I := by
  refine ⟨pS1_reach, rfl, fullySynced2_all _, ⟨trivial, trivial⟩, ?_, ?_, _, powerLoss3_self _⟩
  · rw [pS1_eq]
    exact ⟨by decide, by decide, by decide, noHazard_of_noStaleValue (by decide)⟩
  · rw [pS1_eq]
    exact .boundary _ [.unlink ⟨.data, 3⟩, .create ⟨.data, 8⟩] (by decide)

/-- hypotheses of `c09_lives_merge_durable_prefixes_partial` in the same instance -/
example : ∀ done, done <+: [0, 3] → NoHazard (runC pCfg pS1 [.put 1 [3] [30]]) done := by
  rw [pS1_eq]
  have hall : ∀ e ∈ allEvs (runC pCfg (openDiskWith [0, 1, 2, 3] pImg).1 [.put 1 [3] [30]]).disk.data,
      e.tomb = false →
      (AL.get e.key (runC pCfg (openDiskWith [0, 1, 2, 3] pImg).1 [.put 1 [3] [30]]).keydir).isSome = true := by
    decide
  intro done _
  apply noHazard_of_noStaleValue
  intro e he ht
  exact hall e (List.mem_filter.mp he).1 ht

/-- hypotheses of `c09_lives_cut_back`: two records, both hint entries survive, the second record
    does not (3 bytes of it remain): the scan accepts one entry -/
example : hintEvs 7 [⟨0, 27, 0, [1]⟩, ⟨0, 27, 27, [2]⟩] =
      evData 7 (([⟨0, [1], some [10]⟩, ⟨0, [2], some [20]⟩] : List Rec).take 2) 0 ∧
    (∀ r, ([⟨0, [1], some [10]⟩, ⟨0, [2], some [20]⟩] : List Rec)[1]? = some r → 3 < r.len) ∧
    accLen (fileSize (([⟨0, [1], some [10]⟩, ⟨0, [2], some [20]⟩] : List Rec).take 1) + 3)
      (([⟨0, 27, 0, [1]⟩, ⟨0, 27, 27, [2]⟩] : List Hint).take 2) = [⟨0, 27, 0, [1]⟩] := by
  refine ⟨by decide, ?_, by decide⟩
  intro r hr
  simp only [List.getElem?_cons_succ, List.getElem?_cons_zero, Option.some.injEq] at hr
  subst hr
  decide

/-- **Why a file that loses nothing must keep its length.**  `pS1` is a reachable state whose
    directory is durable.  With no operation in flight, `PowerLoss2` allows the image of its
    directory in which nothing is lost but the invisible tail of the stale output 3 is 100 bytes
    instead of 5.  In that image the dangling hint entry of file 3 fits inside the file, the scan
    accepts it, and the key `[1]` reads a location that holds no record.  (The image is not a
    `PowerLoss3` image.) -/
def pD1 : Disk :=
  { data := [(0, [⟨0, [1], some [10]⟩]), (1, [⟨0, [2], some [20]⟩]), (2, []), (3, []), (4, [])],
    hint := [(3, [⟨0, 27, 0, [1]⟩])], tails := [(3, 5)] }

def pImgBad : Disk := { pD1 with tails := [(3, 100)] }

theorem c09_lives_tail_counterexample :
    ReachP pCfg pS1 ∧ pS1.disk = pD1 ∧ FullySynced2 (allSynced2 pD1) ∧
    PowerLoss2 (syncCalls2 (allSynced2 pD1) []) pImgBad ∧
    get pS1 [1] = .value [10] ∧ get (openDisk pImgBad).1 [1] = .corrupt := by
  refine ⟨pS1_reach, by rw [pS1_eq]; rfl, fullySynced2_all _, ?_, ?_, ?_⟩
  · refine ⟨fun _ => 1, fun _ => 1, [(3, 100)], ?_, ?_, ?_, rfl⟩
    · intro id
      simp only [syncCalls2_nil, allSynced2, pD1, SDisk2.dOf, List.map, AL.get]
      repeat' split
      all_goals simp
    · intro id
      simp only [syncCalls2_nil, allSynced2, pD1, SDisk2.hOf, List.map, AL.get]
      repeat' split
      all_goals simp
    · intro id r
      simp only [syncCalls2_nil, allSynced2, pD1, dataOf, AL.get]
      repeat' split
      all_goals simp
  · rw [pS1_eq]; decide
  · unfold pImgBad
    rw [openDisk_eq_with (by decide)]
    decide

/-- hypotheses of `c09_lives_op_durable_partial`: a set in the life after the power failure
    inside the merge, the power failing before its first call -/
example : ReachP pCfg pS1 ∧ opOk pS1 (.put 1 [3] [30]) ∧ Cut (stepC pCfg pS1 (.put 1 [3] [30])).2 [] ∧
    ∃ I, PowerLoss3 (syncCalls2 (allSynced2 pS1.disk) []) I :=
  ⟨pS1_reach, trivial, Cut.nil _, _, powerLoss3_self _⟩

/-- the lives of Props/C03Lives.lean are reachable here: hypothesis of `c09_lives_reachL` -/
example : ReachL lvCfg lvS1 := lv_reach1

end Store
