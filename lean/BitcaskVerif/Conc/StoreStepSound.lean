/-
  `step_sound`: every successful branch of the executable `step` is a constructor of `Step`.
-/
import BitcaskVerif.Conc.StoreStep

namespace CStore

variable {c : Cfg} {s s' : Sys} {t : Tid}

theorem stLock_sound {r : Rec} (hth : s.threads[t]? = some (.wInv r))
    (h : stLock s t (.wWriting r) = some s') : Step c s t s' := by
  unfold stLock at h
  split at h
  · rename_i hm; cases h; exact .lock r hth hm
  · cases h

theorem stMergeLock_sound {sel : List Fid} (hth : s.threads[t]? = some (.mInv sel))
    (h : stMergeLock s t sel = some s') : Step c s t s' := by
  unfold stMergeLock at h
  split at h
  · rename_i hm; cases h
    refine .mergeLock sel _ hth hm ?_ rfl
    intro f hf
    simpa using (List.mem_filter.mp hf).2
  · cases h

theorem stChunk_sound {r : Rec} {n : Nat}
    (hth : s.threads[t]? = some (.wWriting r)) (h : stChunk s t r n = some s') : Step c s t s' := by
  unfold stChunk at h
  split at h
  · rename_i hf
    cases h
    exact .thr _ _ _ hth (.chunkNoFile r hf) rfl
  · rename_i f hf
    split at h
    · rename_i hc
      split at h
      · rename_i hd
        cases h
        exact .chunkDone r n f hth hf hc.1 hd
      · rename_i hd
        cases h
        exact .chunkPart r n f hth hf hc.1 (by omega)
    · cases h

theorem stAccount_sound {r : Rec} {loc : Loc} (hth : s.threads[t]? = some (.wAppended r loc)) :
    Step c s t (stAccount c s t r loc) := by
  unfold stAccount
  split
  · rename_i hw; exact .accountRoll r loc hth hw
  · rename_i hw; exact .accountStay r loc hth hw

theorem stPublish_sound {r : Rec} {loc : Loc} (hth : s.threads[t]? = some (.wAccounted r loc))
    (h : stPublish c s t r loc = some s') : Step c s t s' := by
  unfold stPublish at h
  split at h
  · rename_i hg
    split at h
    · rename_i v hv; cases h; exact .publishPut r loc v hth hg hv
    · rename_i hv; cases h; exact .publishDel r loc hth hg hv
  · cases h

theorem stCheckout_sound {k : Key} (hth : s.threads[t]? = some (.gInv k))
    (h : stCheckout s t k = some s') : Step c s t s' := by
  unfold stCheckout at h
  split at h
  · cases h
  · rename_i rd rest hp; cases h; exact .checkout k rd rest hth hp

theorem stSpin_sound {k : Key} (hth : s.threads[t]? = some (.gInv k))
    (h : stSpin s = some s') : Step c s t s' := by
  unfold stSpin at h
  split at h
  · rename_i hp; cases h; exact .spin k hth hp
  · cases h

theorem stLookup_sound {k : Key} {rd : Reader} (hth : s.threads[t]? = some (.gHave k rd))
    (h : stLookup c s t k rd = some s') : Step c s t s' := by
  unfold stLookup at h
  split at h
  · rename_i hw
    split at h
    · rename_i hi; cases h; exact .thr _ _ _ hth (.lookupMiss k rd hw hi) rfl
    · rename_i loc hi; cases h; exact .thr _ _ _ hth (.lookupHit k rd loc hw hi) rfl
  · cases h

theorem stEnsure_sound {k : Key} {rd : Reader} {loc : Loc} {gv : Option Val} {ev : List Fid}
    (hth : s.threads[t]? = some (.gRead .looked k rd loc gv)) :
    Step c s t (stEnsure s t k rd loc gv ev) := by
  unfold stEnsure
  simp only
  split
  · rename_i m hc; exact .thr _ _ s.hist hth (.ensureCached k rd loc gv ev m hc) rfl
  · rename_i hc
    split
    · rename_i hf; exact .thr _ _ s.hist hth (.ensureNoFile k rd loc gv ev hc hf) rfl
    · rename_i f hf
      split
      · rename_i hl; exact .thr _ _ s.hist hth (.ensureOpen k rd loc gv ev f hc hf hl) rfl
      · rename_i hl
        exact .thr _ _ s.hist hth (.ensureUnlinked k rd loc gv ev f hc hf (by simpa using hl)) rfl

theorem stRemap_sound {k : Key} {rd : Reader} {loc : Loc} {gv : Option Val}
    (hth : s.threads[t]? = some (.gRead .ensured k rd loc gv)) :
    Step c s t (stRemap c s t k rd loc gv) := by
  unfold stRemap
  split
  · rename_i m f hc hf
    split
    · rename_i ht; exact .thr _ _ s.hist hth (.remapFire k rd loc gv m f hc hf ht) rfl
    · rename_i ht
      exact .thr _ _ s.hist hth (.remapKeep k rd loc gv m f hc hf (by simpa using ht)) rfl
  · rename_i hno
    refine .thr _ _ s.hist hth (.remapNoFile k rd loc gv ?_) rfl
    cases hc : AL.get loc.fid rd.cache with
    | none => exact .inl rfl
    | some m =>
      cases hf : s.file loc.fid with
      | none => exact .inr rfl
      | some f => exact absurd hf (hno m f hc)

theorem stSlice_sound {k : Key} {rd : Reader} {loc : Loc} {gv : Option Val}
    (hth : s.threads[t]? = some (.gRead .remapped k rd loc gv)) :
    Step c s t (stSlice s t k rd loc) := by
  unfold stSlice
  split
  · rename_i m f hc hf
    split
    · rename_i r hs; exact .thr _ _ s.hist hth (.sliceOk k rd loc gv m f r hc hf hs) rfl
    · rename_i e hs; exact .thr _ _ s.hist hth (.sliceErr k rd loc gv m f e hc hf hs) rfl
  · rename_i hno
    refine .thr _ _ s.hist hth (.sliceNoFile k rd loc gv ?_) rfl
    cases hc : AL.get loc.fid rd.cache with
    | none => exact .inl rfl
    | some m =>
      cases hf : s.file loc.fid with
      | none => exact .inr rfl
      | some f => exact absurd hf (hno m f hc)

theorem stEnter_sound (hth : s.threads[t]? = some .merging) (h : stEnter c s = some s') :
    Step c s t s' := by
  unfold stEnter at h
  split at h
  · rename_i hc; cases h; exact .enter hth hc.1 hc.2.1 hc.2.2
  · cases h

theorem stCopy_sound {k : Key} (hth : s.threads[t]? = some .merging)
    (h : stCopy c s t k = some s') : Step c s t s' := by
  unfold stCopy at h
  split at h
  · rename_i hc
    split at h
    · cases h
    · rename_i loc hi
      split at h
      · rename_i hsel
        split at h
        · rename_i f o hf ho
          split at h
          · rename_i wc r hr; cases h
            exact .copyOk k loc f o wc r hth hc.1 hc.2.1 hc.2.2 hi hsel hf ho hr
          · rename_i wc e hr; cases h
            exact .copyFail k loc f o wc e hth hc.1 hc.2.1 hc.2.2 hi hsel hf ho hr
        · rename_i hno
          cases h
          refine .thr _ _ s.hist hth (.copyNoFile k loc hc.1 hc.2.1 hi ?_) rfl
          cases hf : s.file loc.fid with
          | none => exact .inl rfl
          | some f =>
            cases ho : s.file s.mg.out with
            | none => exact .inr rfl
            | some o => exact absurd ho (hno f o hf)
      · cases h
  · cases h

theorem stRepoint_sound (hth : s.threads[t]? = some .merging) (h : stRepoint c s = some s') :
    Step c s t s' := by
  unfold stRepoint at h
  split at h
  · cases h
  · rename_i k nl hp
    split at h
    · rename_i hw; cases h; exact .repointRoll k nl hth hp hw
    · rename_i hw; cases h; exact .repoint k nl hth hp hw

theorem stLeave_sound (hth : s.threads[t]? = some .merging) (h : stLeave c s = some s') :
    Step c s t s' := by
  unfold stLeave at h
  split at h
  · rename_i hc; cases h; exact .leave hth hc.1 hc.2.1 hc.2.2
  · cases h

theorem stUnlink_sound (hth : s.threads[t]? = some .merging) (h : stUnlink c s = some s') :
    Step c s t s' := by
  unfold stUnlink at h
  split at h
  · rename_i hc
    split at h
    · cases h
    · rename_i f rest htd; cases h; exact .unlink f rest hth hc.1 hc.2 htd
  · cases h

theorem stNewActive_sound (hth : s.threads[t]? = some .merging) (h : stNewActive c s t = some s') :
    Step c s t s' := by
  unfold stNewActive at h
  split at h
  · rename_i hc; cases h; exact .newActive hth hc.1 hc.2.1 hc.2.2
  · cases h

theorem step_sound {c : Cfg} {s s' : Sys} {e : Event} (h : step c s e = some s') :
    Step c s e.1 s' := by
  obtain ⟨t, a⟩ := e
  unfold step at h
  simp only at h
  cases hth : s.threads[t]? with
  | none => simp [hth] at h
  | some st =>
    simp only [hth] at h
    cases st with
    | gRead pc k rd loc gv =>
      cases pc <;> cases a <;> (try simp only [reduceCtorEq] at h) <;> cases h <;>
        first | exact stEnsure_sound hth | exact stRemap_sound hth | exact stSlice_sound hth
    | _ =>
      cases a <;> (try simp only [reduceCtorEq] at h) <;> first
        | exact stLock_sound hth h
        | exact stMergeLock_sound hth h
        | exact stChunk_sound hth h
        | exact stPublish_sound hth h
        | exact stCheckout_sound hth h
        | exact stSpin_sound hth h
        | exact stLookup_sound hth h
        | exact stEnter_sound hth h
        | exact stCopy_sound hth h
        | exact stRepoint_sound hth h
        | exact stLeave_sound hth h
        | exact stUnlink_sound hth h
        | exact stNewActive_sound hth h
        | (cases h; exact .thr _ _ _ hth (.invGet _) rfl)
        | (cases h; exact .thr _ _ _ hth (.invW _) rfl)
        | (cases h; exact .thr _ _ _ hth (.invMerge _) rfl)
        | (cases h; exact stAccount_sound hth)
        | (cases h; exact .unlock _ _ hth (.inl rfl))
        | (cases h; exact .unlock _ _ hth (.inr ⟨rfl, rfl⟩))
        | (cases h; exact .thr _ _ _ hth (.resp _) rfl)
        | (cases h; exact .thr _ _ s.hist hth (.release _ _ _) rfl)
        | (cases h; exact .checkin _ _ hth)

/-- the invariant rule: a property that holds initially and is preserved by `Step` holds in every
    reachable state -/
theorem run_induct {c : Cfg} {P : Sys → Prop} (hstep : ∀ s t s', P s → Step c s t s' → P s') :
    ∀ (es : List Event) (s s' : Sys), P s → run c s es = some s' → P s'
  | [], s, s', h, hr => by simp only [run, Option.some.injEq] at hr; subst hr; exact h
  | e :: es, s, s', h, hr => by
    simp only [run] at hr
    cases hs : step c s e with
    | none => simp [hs] at hr
    | some s1 =>
      simp only [hs] at hr
      exact run_induct hstep es s1 s' (hstep s e.1 s1 h (step_sound hs)) hr

end CStore
