/-
  C04 — linearizability of the concurrent store: the simulation of the map specification by the
  ghost history. Linearization points: the index publish for `put` / `delete`, the index lookup
  for `get`, the lock acquisition for `merge` (which does not change the map).
-/
import BitcaskVerif.Conc.StoreSafe
import BitcaskVerif.Conc.LinScan

namespace CStore

open Lin (Scan TSt upd upd_same upd_ne)

/-- the abstract store: a total map from keys to optional values -/
abbrev AMap := Nat → Option Nat

/-- the sequential specification of the store: `get` reads, `put` overwrites, `del` removes and
    tells whether the key was present, `merge` does nothing visible -/
def mapSpec : Lin.Spec AMap Op Res where
  init := fun _ => none
  apply m op :=
    match op with
    | .get k => (m, .found (m k))
    | .put k v _ => (fun k' => if k' = k then some v else m k', .unit)
    | .del k _ => (fun k' => if k' = k then none else m k', .deleted (m k).isSome)
    | .merge _ => (m, .unit)

/-- the operation a thread has invoked and not yet linearized -/
def TState.pendingOp : TState → Option Op
  | .gInv k | .gHave k _ => some (.get k)
  | .wInv r | .wWriting r | .wAppended r _ | .wAccounted r _ => some (recOp r)
  | .mInv sel => some (.merge sel)
  | _ => none

/-- the result a thread will return, once its operation is linearized -/
def TState.result : TState → Option Res
  | .gRead _ _ _ _ gv => some (.found gv)
  | .gSliced _ _ v | .gCheckin _ v => some (.found v)
  | .wPublished res | .respond res => some res
  | .merging | .mDone => some .unit
  | _ => none

/-- thread state of the model vs. thread state of the specification scan -/
def Rel (st : TState) (ts : TSt Op Res) : Prop :=
  st.isFailed = true ∨
  match ts with
  | .idle => st = .idle
  | .called op _ => st.pendingOp = some op
  | .lined _ res _ _ => st.result = some res

structure LinInv (s : Sys) (m : AMap) (th : Nat → TSt Op Res) : Prop where
  scan : Scan mapSpec s.hist m th
  amap : ∀ k, m k = AL.get k s.amap
  rel : ∀ (t : Nat) st, s.threads[t]? = some st → Rel st (th t)
  out : ∀ (t : Nat), s.threads[t]? = none → th t = .idle

theorem LinInv.init (cap n : Nat) : LinInv (init cap n) (fun _ => none) (fun _ => .idle) := by
  refine ⟨Scan.nil, fun _ => rfl, ?_, fun _ _ => rfl⟩
  intro t st hx
  rw [init_idle hx]; exact .inr rfl

theorem get_set_none {l : List TState} {t t' : Nat} {a : TState} (h : (l.set t a)[t']? = none) :
    l[t']? = none := by
  rw [List.getElem?_eq_none_iff] at h ⊢
  simpa using h

theorem ne_of_none_some {l : List TState} {t t' : Nat} {st : TState} (h : l[t']? = none)
    (h' : l[t]? = some st) : t' ≠ t := by
  intro e; subst e; rw [h] at h'; cases h'

/-- steps that leave the ghost history and the abstract map alone -/
theorem LinInv.set {s s' : Sys} {m : AMap} {th : Nat → TSt Op Res} {t : Nat} {st st' : TState}
    (h : LinInv s m th) (hth : s.threads[t]? = some st)
    (hthreads : s'.threads = s.threads.set t st') (hhist : s'.hist = s.hist)
    (hamap : s'.amap = s.amap) (hrel : ∀ ts, Rel st ts → Rel st' ts) : LinInv s' m th := by
  refine ⟨by rw [hhist]; exact h.scan, by intro k; rw [hamap]; exact h.amap k, ?_, ?_⟩
  · intro t' x hx
    rw [hthreads] at hx
    rcases get_set_thread hx with ⟨rfl, rfl⟩ | ⟨_, hx'⟩
    · exact hrel _ (h.rel _ _ hth)
    · exact h.rel _ _ hx'
  · intro t' hx
    rw [hthreads] at hx
    exact h.out t' (get_set_none hx)

theorem LinInv.same {s s' : Sys} {m : AMap} {th : Nat → TSt Op Res} (h : LinInv s m th)
    (hthreads : s'.threads = s.threads) (hhist : s'.hist = s.hist) (hamap : s'.amap = s.amap) :
    LinInv s' m th :=
  ⟨by rw [hhist]; exact h.scan, by intro k; rw [hamap]; exact h.amap k,
    by rw [hthreads]; exact h.rel, by rw [hthreads]; exact h.out⟩

/-- same pending operation / same result ⇒ same relation to the scan -/
theorem Rel.keep {st st' : TState} (hnf : st.isFailed = false)
    (hp : st'.pendingOp = st.pendingOp) (hr : st'.result = st.result) (hi : st' = .idle ↔ st = .idle) :
    ∀ ts, Rel st ts → Rel st' ts := by
  intro ts h
  rcases h with h | h
  · rw [hnf] at h; cases h
  · right
    cases ts with
    | idle => exact hi.mpr h
    | called op i => simp only at h ⊢; rw [hp]; exact h
    | lined op res i lp => simp only at h ⊢; rw [hr]; exact h

theorem Rel.failed (f : Fail) (lost : Option Reader) (ts : TSt Op Res) : Rel (.failed f lost) ts :=
  .inl rfl

theorem Rel.of_pending {st : TState} {op : Op} {ts : TSt Op Res} (hp : st.pendingOp = some op)
    (h : Rel st ts) : ∃ i, ts = .called op i := by
  rcases h with h | h
  · cases st <;> simp [TState.isFailed, TState.pendingOp] at h hp
  · cases ts with
    | idle => simp only at h; subst h; cases hp
    | called op' i => simp only at h; rw [hp] at h; cases h; exact ⟨i, rfl⟩
    | lined op' res i lp =>
      simp only at h
      cases st <;> simp [TState.result, TState.pendingOp] at h hp

theorem Rel.of_result {st : TState} {res : Res} {ts : TSt Op Res} (hr : st.result = some res)
    (h : Rel st ts) : ∃ op i lp, ts = .lined op res i lp := by
  rcases h with h | h
  · cases st <;> simp [TState.isFailed, TState.result] at h hr
  · cases ts with
    | idle => simp only at h; subst h; cases hr
    | called op' i =>
      simp only at h
      cases st <;> simp [TState.result, TState.pendingOp] at h hr
    | lined op' res' i lp => simp only at h; rw [hr] at h; cases h; exact ⟨op', i, lp, rfl⟩

theorem Rel.of_idle {ts : TSt Op Res} (h : Rel .idle ts) : ts = .idle := by
  rcases h with h | h
  · cases h
  · cases ts with
    | idle => rfl
    | called op' i => cases h
    | lined op' res' i lp => cases h

/-- an invocation -/
theorem LinInv.invoke {s s' : Sys} {m : AMap} {th : Nat → TSt Op Res} {t : Nat} {st' : TState}
    {op : Op} (h : LinInv s m th) (hth : s.threads[t]? = some .idle)
    (hthreads : s'.threads = s.threads.set t st') (hhist : s'.hist = .inv t op :: s.hist)
    (hamap : s'.amap = s.amap) (hp : st'.pendingOp = some op) : ∃ m' th', LinInv s' m' th' := by
  have hidle := Rel.of_idle (h.rel _ _ hth)
  refine ⟨m, _, by rw [hhist]; exact Scan.inv t op h.scan hidle,
    by intro k; rw [hamap]; exact h.amap k, ?_, ?_⟩
  · intro t' x hx
    rw [hthreads] at hx
    rcases get_set_thread hx with ⟨rfl, rfl⟩ | ⟨hne, hx'⟩
    · rw [upd_same]; exact .inr hp
    · rw [upd_ne _ _ hne]; exact h.rel _ _ hx'
  · intro t' hx
    rw [hthreads] at hx
    have hx' := get_set_none hx
    rw [upd_ne _ _ (ne_of_none_some hx' hth)]; exact h.out t' hx'

/-- a linearization point -/
theorem LinInv.linearize {s s' : Sys} {m : AMap} {th : Nat → TSt Op Res} {t : Nat}
    {st st' : TState} {op : Op} {res : Res} (h : LinInv s m th) (hth : s.threads[t]? = some st)
    (hp : st.pendingOp = some op)
    (hthreads : s'.threads = s.threads.set t st') (hhist : s'.hist = .lin t res :: s.hist)
    (hres : (mapSpec.apply m op).2 = res)
    (hamap : ∀ k, (mapSpec.apply m op).1 k = AL.get k s'.amap)
    (hr : st'.result = some res) : ∃ m' th', LinInv s' m' th' := by
  obtain ⟨i, hc⟩ := Rel.of_pending hp (h.rel _ _ hth)
  refine ⟨_, _, by rw [hhist, ← hres]; exact Scan.lin t op i h.scan hc, hamap, ?_, ?_⟩
  · intro t' x hx
    rw [hthreads] at hx
    rcases get_set_thread hx with ⟨rfl, rfl⟩ | ⟨hne, hx'⟩
    · rw [upd_same]; right; simp only; rw [hres]; exact hr
    · rw [upd_ne _ _ hne]; exact h.rel _ _ hx'
  · intro t' hx
    rw [hthreads] at hx
    have hx' := get_set_none hx
    rw [upd_ne _ _ (ne_of_none_some hx' hth)]; exact h.out t' hx'

/-- a response -/
theorem LinInv.respond {s s' : Sys} {m : AMap} {th : Nat → TSt Op Res} {t : Nat} {res : Res}
    (h : LinInv s m th) (hth : s.threads[t]? = some (.respond res))
    (hthreads : s'.threads = s.threads.set t .idle) (hhist : s'.hist = .resp t res :: s.hist)
    (hamap : s'.amap = s.amap) : ∃ m' th', LinInv s' m' th' := by
  obtain ⟨op, i, lp, hc⟩ := Rel.of_result (st := .respond res) rfl (h.rel _ _ hth)
  refine ⟨m, _, by rw [hhist]; exact Scan.resp t op res i lp h.scan hc,
    by intro k; rw [hamap]; exact h.amap k, ?_, ?_⟩
  · intro t' x hx
    rw [hthreads] at hx
    rcases get_set_thread hx with ⟨rfl, rfl⟩ | ⟨hne, hx'⟩
    · rw [upd_same]; exact .inr rfl
    · rw [upd_ne _ _ hne]; exact h.rel _ _ hx'
  · intro t' hx
    rw [hthreads] at hx
    have hx' := get_set_none hx
    rw [upd_ne _ _ (ne_of_none_some hx' hth)]; exact h.out t' hx'

end CStore
