/-
  C04 — preservation of the safety invariant by the thread-local transitions (`Local`):
  lookup, ensure, remap test, slice, release, invocation, response.
-/
import BitcaskVerif.Conc.StoreInv

namespace CStore

theorem sliceAt_ok {f : File} {k : Key} {loc : Loc} {m : Nat} {r : Rec}
    (hr : recAt f.recs loc.pos = some r) (hs : r.size = loc.len) (hk : r.key = k)
    (hm : loc.pos + loc.len ≤ m) : sliceAt f k loc m = .ok r := by
  unfold sliceAt
  simp [hm, hr, hs, hk]

theorem remapTest_false {pos len m : Nat} (h : remapTest true pos len m = false) : pos + len ≤ m := by
  unfold remapTest at h
  simp at h
  exact h

theorem wlockFree_ne {s : Sys} {sh : Nat} (h : wlockFree s sh = true) (hon : s.mg.on = true)
    (hin : s.mg.inShard = true) : sh ≠ s.mg.shard := by
  unfold wlockFree at h
  simp [hon, hin] at h
  exact fun e => h e.symm

theorem Local.guard {c : Cfg} {s : Sys} {st st' : TState} (hl : Local c s st st') :
    st'.guard c = st.guard c ∨ st'.guard c = none ∨
      ∃ k, st'.guard c = some (c.shardOf k) ∧ wlockFree s (c.shardOf k) = true := by
  cases hl <;> simp [TState.guard]
  case lookupHit k rd loc hw hi => exact ⟨k, rfl, hw⟩

/-- what the invariant says about a thread that holds a read guard: its record is there -/
theorem SafeInv.guard_record {c : Cfg} {s : Sys} (h : SafeInv c s) {t : Tid} {pc : RPc} {k : Key}
    {rd : Reader} {loc : Loc} {gv : Option Val}
    (hth : s.threads[t]? = some (.gRead pc k rd loc gv)) :
    ∃ f r, s.file loc.fid = some f ∧ f.linked = true ∧ recAt f.recs loc.pos = some r ∧
      r.size = loc.len ∧ r.key = k ∧ r.val = gv ∧ loc.pos + loc.len ≤ f.size := by
  obtain ⟨hi, hgv, _⟩ := h.guard t pc k rd loc gv hth
  obtain ⟨r, v, ⟨f, hf, hl, hr, hs⟩, hk, hv, hm⟩ := h.index k loc hi
  refine ⟨f, r, hf, hl, hr, hs, hk, by rw [hgv, hm, hv], ?_⟩
  have := recAt_bound hr
  unfold File.size; omega

theorem Local.newGuard {c : Cfg} {s : Sys} {t : Tid} {st st' : TState} (h : SafeInv c s)
    (hth : s.threads[t]? = some st) (hl : Local c s st st') :
    ∀ pc k rd loc gv, st' = .gRead pc k rd loc gv → GuardFacts c s pc k rd loc gv := by
  intro pc k' rd' loc' gv' hst
  cases hl with
  | lookupHit k rd loc hw hi => cases hst; exact ⟨hi, rfl, fun hne => absurd rfl hne⟩
  | ensureCached k rd loc gv ev m hc =>
    cases hst
    obtain ⟨h1, h2, _⟩ := h.guard t _ _ _ _ _ hth
    exact ⟨h1, h2, fun _ => ⟨m, hc, fun hp => by cases hp⟩⟩
  | ensureOpen k rd loc gv ev f hc hf hlk =>
    cases hst
    obtain ⟨h1, h2, _⟩ := h.guard t _ _ _ _ _ hth
    exact ⟨h1, h2, fun _ => ⟨f.size, AL.get_set_same _ _ _, fun hp => by cases hp⟩⟩
  | remapFire k rd loc gv m f hc hf ht =>
    cases hst
    obtain ⟨h1, h2, _⟩ := h.guard t _ _ _ _ _ hth
    obtain ⟨f', r, hf', _, _, _, _, _, hb⟩ := h.guard_record hth
    rw [hf] at hf'; cases hf'
    exact ⟨h1, h2, fun _ => ⟨f.size, AL.get_set_same _ _ _, fun _ _ => hb⟩⟩
  | remapKeep k rd loc gv m f hc hf ht =>
    cases hst
    obtain ⟨h1, h2, _⟩ := h.guard t _ _ _ _ _ hth
    refine ⟨h1, h2, fun _ => ⟨m, hc, fun _ hfx => ?_⟩⟩
    rw [hfx] at ht
    exact remapTest_false ht
  | _ => cases hst

theorem Local.noFail {c : Cfg} {s : Sys} {t : Tid} {st st' : TState} (hm : MutexInv s)
    (h : SafeInv c s) (hfx : c.fixed = true) (hth : s.threads[t]? = some st)
    (hl : Local c s st st') : st'.isFailed = false := by
  cases hl <;> try rfl
  case ensureNoFile k rd loc gv ev hc hf =>
    obtain ⟨f', r, hf', _⟩ := h.guard_record hth
    rw [hf] at hf'; cases hf'
  case ensureUnlinked k rd loc gv ev f hc hf hlk =>
    obtain ⟨f', r, hf', hl', _⟩ := h.guard_record hth
    rw [hf] at hf'; cases hf'
    rw [hlk] at hl'; cases hl'
  case remapNoFile k rd loc gv hno =>
    obtain ⟨f', r, hf', _⟩ := h.guard_record hth
    obtain ⟨_, _, h3⟩ := h.guard t _ _ _ _ _ hth
    obtain ⟨m, hc, _⟩ := h3 (by simp)
    rcases hno with hno | hno
    · rw [hno] at hc; cases hc
    · rw [hno] at hf'; cases hf'
  case sliceErr k rd loc gv m f e hc hf hs =>
    obtain ⟨f', r, hf', _, hr, hsz, hk, _, _⟩ := h.guard_record hth
    obtain ⟨_, _, h3⟩ := h.guard t _ _ _ _ _ hth
    obtain ⟨m', hc', hb⟩ := h3 (by simp)
    rw [hf] at hf'; cases hf'
    rw [hc] at hc'; cases hc'
    rw [sliceAt_ok hr hsz hk (hb rfl hfx)] at hs
    cases hs
  case sliceNoFile k rd loc gv hno =>
    obtain ⟨f', r, hf', _⟩ := h.guard_record hth
    obtain ⟨_, _, h3⟩ := h.guard t _ _ _ _ _ hth
    obtain ⟨m, hc, _⟩ := h3 (by simp)
    rcases hno with hno | hno
    · rw [hno] at hc; cases hc
    · rw [hno] at hf'; cases hf'
  case chunkNoFile r hf =>
    have hoff := hm.no_merge hth rfl (by simp)
    obtain ⟨f, hf', _⟩ := h.activeOk hoff
    rw [hf] at hf'; cases hf'
  case copyNoFile k loc hin hp hi hno =>
    have hon := hm.mergeOff t hth
    obtain ⟨r, v, ⟨f, hf, _⟩, _⟩ := h.index k loc hi
    obtain ⟨o, ho, _⟩ := h.mgOut hon
    rcases hno with hno | hno
    · rw [hno] at hf; cases hf
    · rw [hno] at ho; cases ho

theorem SafeInv.thr {c : Cfg} {s : Sys} {t : Tid} {st st' : TState} (hh : List HEv)
    (hm : MutexInv s) (h : SafeInv c s) (hth : s.threads[t]? = some st) (hl : Local c s st st') :
    SafeInv c { s with threads := s.threads.set t st', hist := hh } := by
  refine ⟨h.fresh, h.activeOk, h.index, h.amapDom, ?_, ?_, h.mgSel, h.mgOut, h.mgPending,
    h.visited, ?_, ?_⟩
  · refine h.writer.set rfl (fun _ _ x => x) ?_
    intro r loc hx
    cases hl <;> rcases hx with hx | hx <;> cases hx
  · exact h.guard.set rfl (fun _ _ _ _ _ _ _ _ => ⟨rfl, rfl⟩) (Local.newGuard (s := s) h hth hl)
  · intro hon hin
    have hold := h.wlock hon hin
    refine guardFree_set hold rfl ?_
    rcases hl.guard with hg | hg | ⟨k, hg, hw⟩
    · rw [hg]; exact guardFree_get hold hth
    · rw [hg]; simp
    · rw [hg]
      have := wlockFree_ne hw hon hin
      intro e; injection e with e; exact this e
  · intro hfx
    exact (h.noFail hfx).set rfl (hl.noFail hm h hfx hth)

end CStore
