/-
  C04 — no deadlock: whenever some operation is pending, some pending operation can take a real
  step (not a spin of the pool loop, not a new invocation). The wait-for graph of the lock
  structure: a `get` that holds a reader or a read guard never waits; a writer at `publish` and
  the merge at `enterShard` wait for read guards only; everybody else waits for the mutex, the
  merge iterator's shard lock (held only inside the mutex) or a pooled reader.
-/
import BitcaskVerif.Conc.StorePart

namespace CStore

variable {c : Cfg} {s : Sys} {t : Tid}

def Act.isInvoke : Act → Bool
  | .invGet _ | .invPut _ _ _ | .invDel _ _ | .invMerge _ => true
  | _ => false

/-- an event that moves a pending operation forward -/
def Enabled (c : Cfg) (s : Sys) : Prop :=
  ∃ (t : Nat) (a : Act), a ≠ .spin ∧ a.isInvoke = false ∧ (step c s (t, a)).isSome = true

/-- states whose next step needs nothing from anybody else -/
def TState.free : TState → Bool
  | .wWriting _ | .wAppended _ _ | .wPublished _ | .respond _ | .gRead _ _ _ _ _ | .gSliced _ _ _
  | .gCheckin _ _ | .mDone => true
  | _ => false

theorem enabled_chunk {r : Rec} (hm : MutexInv s) (hp : PartInv s)
    (hth : s.threads[t]? = some (.wWriting r)) : Enabled c s := by
  cases hf : s.file s.active with
  | none =>
    refine ⟨t, .chunk 1, by simp, rfl, ?_⟩
    simp [step, hth, stChunk, hf]
  | some f =>
    have hlt : f.part < r.size := by
      rcases hp _ _ hf with h0 | ⟨_, t0, r0, ht0, hlt⟩
      · rw [h0]; exact r.size_pos
      · have := hm.unique ht0 hth rfl rfl
        subst this; rw [hth] at ht0; cases ht0; exact hlt
    refine ⟨t, .chunk (r.size - f.part), by simp, rfl, ?_⟩
    have h1 : 0 < r.size - f.part ∧ f.part + (r.size - f.part) ≤ r.size := by omega
    have h2 : f.part + (r.size - f.part) = r.size := by omega
    simp [step, hth, stChunk, hf, h1, h2]

theorem enabled_free {st : TState} (hm : MutexInv s) (hp : PartInv s)
    (hth : s.threads[t]? = some st) (hf : st.free = true) : Enabled c s := by
  cases st with
  | wWriting r => exact enabled_chunk hm hp hth
  | wAppended r loc => exact ⟨t, .account, by simp, rfl, by simp [step, hth]⟩
  | wPublished res => exact ⟨t, .unlock, by simp, rfl, by simp [step, hth]⟩
  | respond res => exact ⟨t, .resp, by simp, rfl, by simp [step, hth]⟩
  | gRead pc k rd loc gv =>
    cases pc with
    | looked => exact ⟨t, .ensure [], by simp, rfl, by simp [step, hth]⟩
    | ensured => exact ⟨t, .remap, by simp, rfl, by simp [step, hth]⟩
    | remapped => exact ⟨t, .slice, by simp, rfl, by simp [step, hth]⟩
  | gSliced k rd v => exact ⟨t, .release, by simp, rfl, by simp [step, hth]⟩
  | gCheckin rd v => exact ⟨t, .checkin, by simp, rfl, by simp [step, hth]⟩
  | mDone => exact ⟨t, .unlock, by simp, rfl, by simp [step, hth]⟩
  | _ => cases hf

theorem shardClean_false (h : shardClean c s = false) :
    ∃ k loc, AL.get k s.index = some loc ∧ c.shardOf k = s.mg.shard ∧ loc.fid ∈ s.mg.sel := by
  apply Classical.byContradiction
  intro hne
  have : shardClean c s = true := by
    unfold shardClean
    rw [List.all_eq_true]
    intro ⟨k, l⟩ _
    simp only
    cases hg : AL.get k s.index with
    | none => rfl
    | some loc =>
      simp only [decide_eq_true_eq]
      by_cases h1 : c.shardOf k = s.mg.shard
      · right; intro h2; exact hne ⟨k, loc, hg, h1, h2⟩
      · left; exact h1
  rw [this] at h; cases h

theorem enabled_copy {k : Nat} {loc : Loc} (hth : s.threads[t]? = some .merging)
    (hin : s.mg.inShard = true) (hp : s.mg.pending = none) (hi : AL.get k s.index = some loc)
    (hsh : c.shardOf k = s.mg.shard) (hsel : loc.fid ∈ s.mg.sel) : Enabled c s := by
  refine ⟨t, .mCopy k, by simp, rfl, ?_⟩
  simp only [step, hth, stCopy, hin, hp, hsh, and_self, ↓reduceIte, hi, hsel]
  split
  · split <;> rfl
  · rfl

theorem enabled_merging (hth : s.threads[t]? = some .merging)
    (hg : ∀ sh, guardFree c s sh = true) : Enabled c s := by
  cases hin : s.mg.inShard with
  | true =>
    cases hp : s.mg.pending with
    | some p =>
      obtain ⟨k, nl⟩ := p
      refine ⟨t, .mRepoint, by simp, rfl, ?_⟩
      simp only [step, hth, stRepoint, hp]
      split <;> rfl
    | none =>
      cases hc : shardClean c s with
      | true =>
        exact ⟨t, .mLeave, by simp, rfl, by simp [step, hth, stLeave, hin, hp, hc]⟩
      | false =>
        obtain ⟨k, loc, hi, hsh, hsel⟩ := shardClean_false hc
        exact enabled_copy hth hin hp hi hsh hsel
  | false =>
    by_cases hsh : s.mg.shard ≤ c.nsh
    · exact ⟨t, .mEnter, by simp, rfl, by simp [step, hth, stEnter, hin, hsh, hg]⟩
    · have hsh' : c.nsh < s.mg.shard := by omega
      cases htd : s.mg.todo with
      | nil => exact ⟨t, .mNewActive, by simp, rfl, by simp [step, hth, stNewActive, hin, hsh', htd]⟩
      | cons f rest => exact ⟨t, .mUnlink, by simp, rfl, by simp [step, hth, stUnlink, hin, hsh', htd]⟩

theorem enabled_publish {r : Rec} {loc : Loc} (hth : s.threads[t]? = some (.wAccounted r loc))
    (hg : ∀ sh, guardFree c s sh = true) : Enabled c s := by
  refine ⟨t, .publish, by simp, rfl, ?_⟩
  simp only [step, hth, stPublish, hg, ↓reduceIte]
  split <;> rfl

theorem enabled_lock {r : Rec} (hth : s.threads[t]? = some (.wInv r)) (hmu : s.mutex = none) :
    Enabled c s :=
  ⟨t, .lock, by simp, rfl, by simp [step, hth, stLock, hmu]⟩

theorem enabled_mergeLock {sel : List Nat} (hth : s.threads[t]? = some (.mInv sel))
    (hmu : s.mutex = none) : Enabled c s :=
  ⟨t, .lock, by simp, rfl, by simp [step, hth, stMergeLock, hmu]⟩

theorem enabled_lookup {k : Nat} {rd : Reader} (hth : s.threads[t]? = some (.gHave k rd))
    (hoff : s.mg.on = false) : Enabled c s := by
  refine ⟨t, .lookup, by simp, rfl, ?_⟩
  have : wlockFree s (c.shardOf k) = true := by simp [wlockFree, hoff]
  simp only [step, hth, stLookup, this, ↓reduceIte]
  split <;> rfl

theorem enabled_checkout {k : Nat} {rd : Reader} {rest : List Reader}
    (hth : s.threads[t]? = some (.gInv k)) (hp : s.pool = rd :: rest) : Enabled c s :=
  ⟨t, .checkout, by simp, rfl, by simp [step, hth, stCheckout, hp]⟩

theorem guard_free_state {st : TState} {sh : Nat} (h : st.guard c = some sh) : st.free = true := by
  cases st <;> simp [TState.guard] at h <;> rfl

/-- **no deadlock** -/
theorem progress {n : Nat} (hfx : c.fixed = true) (hcap : 0 < c.cap) (hr : Reachable c n s)
    (hpend : ∃ (t : Nat) (st : TState), s.threads[t]? = some st ∧ st ≠ .idle) : Enabled c s := by
  have hinv := Inv.reachable hr
  have hpart := PartInv.reachable hr
  have hm := hinv.mutex
  by_cases h1 : ∃ (t : Nat) (st : TState), s.threads[t]? = some st ∧ st.free = true
  · obtain ⟨t, st, hth, hf⟩ := h1
    exact enabled_free hm hpart hth hf
  · have hnf : ∀ (t : Nat) (st : TState), s.threads[t]? = some st → st.free = false := by
      intro t st hth
      cases hf : st.free with
      | false => rfl
      | true => exact absurd ⟨t, st, hth, hf⟩ h1
    have hg : ∀ sh, guardFree c s sh = true := by
      intro sh
      unfold guardFree
      apply all_of_forall_get
      intro t st hth
      simp only [ne_eq, decide_eq_true_eq]
      intro hgd
      have := guard_free_state hgd
      rw [hnf t st hth] at this; cases this
    by_cases h2 : ∃ (t : Nat), s.threads[t]? = some .merging
    · obtain ⟨t, hth⟩ := h2
      exact enabled_merging hth hg
    · by_cases h3 : ∃ (t : Nat) (r : Rec) (loc : Loc), s.threads[t]? = some (.wAccounted r loc)
      · obtain ⟨t, r, loc, hth⟩ := h3
        exact enabled_publish hth hg
      · have hnofail := hinv.safe.noFail hfx
        have hnocrit : ∀ (t : Nat) (st : TState), s.threads[t]? = some st → st.inCrit = false := by
          intro t st hth
          have hf := hnf t st hth
          cases st <;> simp [TState.free, TState.inCrit] at hf ⊢
          · exact h3 ⟨t, _, _, hth⟩
          · exact h2 ⟨t, hth⟩
        have hmu : s.mutex = none := by
          cases hmx : s.mutex with
          | none => rfl
          | some t0 =>
            obtain ⟨st, hth, hc⟩ := hm.holder t0 hmx
            rcases hc with hc | hc
            · rw [hnocrit t0 st hth] at hc; cases hc
            · rw [hnofail t0 st hth] at hc; cases hc
        have hoff : s.mg.on = false := by
          cases hon : s.mg.on with
          | false => rfl
          | true =>
            obtain ⟨_, _, hx, _⟩ := hm.mergeOn hon
            rw [hmu] at hx; cases hx
        obtain ⟨t, st, hth, hne⟩ := hpend
        have hf := hnf t st hth
        cases st with
        | idle => exact absurd rfl hne
        | wInv r => exact enabled_lock hth hmu
        | mInv sel => exact enabled_mergeLock hth hmu
        | gHave k rd => exact enabled_lookup hth hoff
        | gInv k =>
          cases hp : s.pool with
          | cons rd rest => exact enabled_checkout hth hp
          | nil =>
            have hpool := pool_exact hfx hr
            rw [hp] at hpool
            have hpos : 0 < s.threads.countP TState.holdsReader := by
              unfold held at hpool; simp only [List.length_nil] at hpool; omega
            obtain ⟨st', hmem, hh⟩ := List.countP_pos_iff.mp hpos
            obtain ⟨t', hlt, rfl⟩ := List.getElem_of_mem hmem
            have hth' : s.threads[t']? = some s.threads[t'] := List.getElem?_eq_getElem hlt
            have hf' := hnf t' _ hth'
            cases hst : s.threads[t'] with
            | gHave k' rd' => rw [hst] at hth'; exact enabled_lookup hth' hoff
            | _ => rw [hst] at hh hf' <;> simp [TState.holdsReader, TState.free] at hh hf'
        | wAccounted r loc => exact absurd ⟨t, r, loc, hth⟩ h3
        | merging => exact absurd ⟨t, hth⟩ h2
        | failed f l => have := hnofail t _ hth; cases this
        | _ => cases hf

end CStore
