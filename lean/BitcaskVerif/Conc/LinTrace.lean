/-
  Linearizability of event traces (core Lean only).

  A trace is the list of invocation, linearization-point and response events of an execution,
  newest first; the time of an event is its number counted from the oldest event (0).
  `TraceLinearizable` is linearizability of the invocation / response events of the trace
  (linearization-point events are invisible to it). `Scan` says that every operation of the trace
  has a linearization-point event between its invocation and its response at which the
  specification, stepped in the order of these events, yields exactly the operation's result.
  The meta-theorem `Scan.linearizable` (in `Conc/LinScan.lean`): the latter implies the former.
-/
import BitcaskVerif.Conc.Lin

namespace Lin

inductive Ev (Op Res : Type) where
  | inv (t : Nat) (op : Op)
  | lin (t : Nat) (res : Res)
  | resp (t : Nat) (res : Res)
deriving DecidableEq, Repr

variable {σ Op Res : Type}

def Ev.tid : Ev Op Res → Nat
  | .inv t _ => t
  | .lin t _ => t
  | .resp t _ => t

/-- invocations and responses (the events of the history proper) -/
def Ev.isCall : Ev Op Res → Bool
  | .lin _ _ => false
  | _ => true

/-- event number `i` (0 = oldest) of the newest-first trace `h` is `e` -/
def EvAt : List (Ev Op Res) → Nat → Ev Op Res → Prop
  | [], _, _ => False
  | x :: older, i, e => (i = older.length ∧ x = e) ∨ EvAt older i e

theorem EvAt.lt {h : List (Ev Op Res)} {i : Nat} {e : Ev Op Res} (hh : EvAt h i e) : i < h.length := by
  induction h with
  | nil => cases hh
  | cons x xs ih =>
    rcases hh with ⟨rfl, _⟩ | hh
    · simp
    · have := ih hh; simp only [List.length_cons]; omega

theorem EvAt.cons {h : List (Ev Op Res)} {i : Nat} {e : Ev Op Res} (x : Ev Op Res) (hh : EvAt h i e) :
    EvAt (x :: h) i e := .inr hh

theorem EvAt.head (x : Ev Op Res) (h : List (Ev Op Res)) : EvAt (x :: h) h.length x := .inl ⟨rfl, rfl⟩

theorem EvAt.cons_inv {h : List (Ev Op Res)} {i : Nat} {e x : Ev Op Res} (hh : EvAt (x :: h) i e) :
    (i = h.length ∧ x = e) ∨ (i < h.length ∧ EvAt h i e) := by
  rcases hh with hh | hh
  · exact .inl hh
  · exact .inr ⟨hh.lt, hh⟩

theorem EvAt.functional {h : List (Ev Op Res)} {i : Nat} {e e' : Ev Op Res} (h1 : EvAt h i e)
    (h2 : EvAt h i e') : e = e' := by
  induction h with
  | nil => cases h1
  | cons x xs ih =>
    rcases h1.cons_inv with ⟨a, b⟩ | ⟨a, b⟩ <;> rcases h2.cons_inv with ⟨a', b'⟩ | ⟨a', b'⟩
    · rw [← b, ← b']
    · omega
    · omega
    · exact ih b b'

/-- `EvAt` is indexing into the chronological trace -/
theorem evAt_iff_reverse {h : List (Ev Op Res)} {i : Nat} {e : Ev Op Res} :
    EvAt h i e ↔ h.reverse[i]? = some e := by
  induction h with
  | nil => simp [EvAt]
  | cons x xs ih =>
    simp only [EvAt, List.reverse_cons]
    constructor
    · rintro (⟨rfl, rfl⟩ | hh)
      · simp
      · have := hh.lt
        rw [List.getElem?_append_left (by simpa using this)]
        exact ih.mp hh
    · intro hh
      by_cases hi : i < xs.length
      · rw [List.getElem?_append_left (by simpa using hi)] at hh
        exact .inr (ih.mpr hh)
      · have hi' : xs.reverse.length ≤ i := by simp; omega
        rw [List.getElem?_append_right hi'] at hh
        simp only [List.length_reverse] at hh
        have : i - xs.length = 0 := by
          cases hd : i - xs.length with
          | zero => rfl
          | succ n => rw [hd] at hh; simp at hh
        rw [this] at hh
        simp only [List.getElem?_cons_zero, Option.some.injEq] at hh
        exact .inl ⟨by omega, hh⟩

/-- thread `t` makes no call (invocation or response) strictly between times `i` and `j` -/
def Quiet (h : List (Ev Op Res)) (t i j : Nat) : Prop :=
  ∀ m e, i < m → m < j → EvAt h m e → e.isCall = true → e.tid ≠ t

theorem Quiet.cons_of_le {h : List (Ev Op Res)} {t i j : Nat} (x : Ev Op Res) (hq : Quiet h t i j)
    (hj : j ≤ h.length) : Quiet (x :: h) t i j := by
  intro m e h1 h2 he hc
  rcases he.cons_inv with ⟨a, _⟩ | ⟨_, b⟩
  · omega
  · exact hq m e h1 h2 b hc

theorem Quiet.snoc {h : List (Ev Op Res)} {t i : Nat} {x : Ev Op Res} (hq : Quiet h t i h.length)
    (hx : x.isCall = true → x.tid ≠ t) : Quiet (x :: h) t i (h.length + 1) := by
  intro m e h1 h2 he hc
  rcases he.cons_inv with ⟨_, b⟩ | ⟨a, b⟩
  · subst b; exact hx hc
  · exact hq m e h1 a b hc

/-- a completed operation of the trace: its invocation event, its response event, nothing of the
    same thread in between -/
def IsOp (h : List (Ev Op Res)) (o : OpRec Op Res) : Prop :=
  EvAt h o.inv (.inv o.tid o.op) ∧ EvAt h o.resp (.resp o.tid o.res) ∧ o.inv < o.resp ∧
    Quiet h o.tid o.inv o.resp

/-- an operation that was invoked and has not responded yet, completed with some result and the
    response time "now" -/
def IsPending (h : List (Ev Op Res)) (o : OpRec Op Res) : Prop :=
  EvAt h o.inv (.inv o.tid o.op) ∧ o.resp = h.length ∧ Quiet h o.tid o.inv h.length

/-- linearizability of the invocations and responses of a trace: the completed operations (all of
    them, each once) together with some of the pending ones, suitably completed, can be put into
    a legal sequential order that respects real time -/
def TraceLinearizable (sp : Spec σ Op Res) (h : List (Ev Op Res)) : Prop :=
  ∃ L : List (OpRec Op Res),
    (∀ o ∈ L, IsOp h o ∨ IsPending h o) ∧
    (∀ j t res, EvAt h j (.resp t res) → ∃ o ∈ L, o.resp = j) ∧
    L.Pairwise (fun a b => a.inv ≠ b.inv) ∧ Legal sp L ∧ Respects L

/-- `ops` is the history of the trace: exactly its completed operations, each once -/
def HistoryOf (h : List (Ev Op Res)) (ops : List (OpRec Op Res)) : Prop :=
  (∀ o ∈ ops, IsOp h o) ∧ (∀ j t res, EvAt h j (.resp t res) → ∃ o ∈ ops, o.resp = j) ∧
    ops.Pairwise (fun a b => a.inv ≠ b.inv)

/-- every invocation has got its response -/
def Quiescent (h : List (Ev Op Res)) : Prop :=
  ∀ i t op, EvAt h i (.inv t op) → ∃ j res, i < j ∧ EvAt h j (.resp t res)

/-- for a trace without pending operations `TraceLinearizable` is plain linearizability of its
    history -/
theorem TraceLinearizable.complete {sp : Spec σ Op Res} {h : List (Ev Op Res)}
    (hl : TraceLinearizable sp h) (hq : Quiescent h) :
    ∃ ops, HistoryOf h ops ∧ Linearizable sp ops := by
  obtain ⟨L, h1, h2, h3, h4, h5⟩ := hl
  refine ⟨L, ⟨?_, h2, h3⟩, ⟨L, List.Perm.refl _, h4, h5⟩⟩
  intro o ho
  rcases h1 o ho with hop | ⟨hinv, _, hquiet⟩
  · exact hop
  · exfalso
    obtain ⟨j, res, hij, hj⟩ := hq _ _ _ hinv
    exact hquiet j _ hij hj.lt hj rfl rfl

/-! ### linearization points in a trace -/

inductive TSt (Op Res : Type) where
  | idle
  | called (op : Op) (i : Nat)
  | lined (op : Op) (res : Res) (i lp : Nat)

def upd {α : Type} (f : Nat → α) (t : Nat) (x : α) : Nat → α := fun t' => if t' = t then x else f t'

theorem upd_same {α : Type} (f : Nat → α) (t : Nat) (x : α) : upd f t x t = x := by simp [upd]

theorem upd_ne {α : Type} (f : Nat → α) {t t' : Nat} (x : α) (h : t' ≠ t) : upd f t x t' = f t' := by
  simp [upd, h]

/-- `Scan sp h s th`: the trace `h` is well formed (per thread: invocation, linearization point,
    response, …), the specification stepped at the linearization points in their order is in
    state `s` and has produced at each point exactly the result the operation then returns;
    `th` tells where each thread is (with the times of its invocation and linearization point) -/
inductive Scan (sp : Spec σ Op Res) : List (Ev Op Res) → σ → (Nat → TSt Op Res) → Prop where
  | nil : Scan sp [] sp.init (fun _ => .idle)
  | inv {h : List (Ev Op Res)} {s : σ} {th : Nat → TSt Op Res} (t : Nat) (op : Op) :
      Scan sp h s th → th t = .idle →
      Scan sp (.inv t op :: h) s (upd th t (.called op h.length))
  | lin {h : List (Ev Op Res)} {s : σ} {th : Nat → TSt Op Res} (t : Nat) (op : Op) (i : Nat) :
      Scan sp h s th → th t = .called op i →
      Scan sp (.lin t (sp.apply s op).2 :: h) (sp.apply s op).1
        (upd th t (.lined op (sp.apply s op).2 i h.length))
  | resp {h : List (Ev Op Res)} {s : σ} {th : Nat → TSt Op Res} (t : Nat) (op : Op) (res : Res)
      (i lp : Nat) :
      Scan sp h s th → th t = .lined op res i lp →
      Scan sp (.resp t res :: h) s (upd th t .idle)

end Lin
