/-
  C04 — preservation of the safety invariant by the merge steps: lock + create output, enter
  shard, copy, re-point (+ roll the output over), leave shard, unlink, new active file.
-/
import BitcaskVerif.Conc.StoreInvC

namespace CStore

variable {c : Cfg} {s : Sys} {t : Tid}

theorem sliceAt_ok_inv {f : File} {k : Key} {loc : Loc} {m : Nat} {r : Rec}
    (h : sliceAt f k loc m = .ok r) :
    recAt f.recs loc.pos = some r ∧ r.size = loc.len ∧ r.key = k := by
  unfold sliceAt at h
  split at h
  · split at h
    · rename_i r' hr
      split at h
      · rename_i hc; cases h; exact ⟨hr, hc.1, hc.2⟩
      · cases h
    · cases h
  · cases h

theorem readThrough_ok_inv {f : File} {cache wc : List (Fid × Nat)} {k : Key} {loc : Loc} {r : Rec}
    (h : readThrough c f cache k loc = (wc, .ok r)) :
    recAt f.recs loc.pos = some r ∧ r.size = loc.len ∧ r.key = k := by
  unfold readThrough at h
  split at h
  · split at h
    · simp only [Prod.mk.injEq] at h; exact sliceAt_ok_inv h.2
    · simp only [Prod.mk.injEq] at h; cases h.2
  · simp only [Prod.mk.injEq] at h; exact sliceAt_ok_inv h.2

theorem readThrough_fixed {f : File} {cache : List (Fid × Nat)} {k : Key} {loc : Loc} {r : Rec}
    (hfx : c.fixed = true) (hl : f.linked = true) (hr : recAt f.recs loc.pos = some r)
    (hs : r.size = loc.len) (hk : r.key = k) : (readThrough c f cache k loc).2 = .ok r := by
  have hb : loc.pos + loc.len ≤ f.size := by
    have := recAt_bound hr; unfold File.size; omega
  unfold readThrough
  split
  · simp only [hl, ↓reduceIte]; exact sliceAt_ok hr hs hk hb
  · rename_i m hm
    simp only
    by_cases ht : remapTest c.fixed loc.pos loc.len m = true
    · simp only [ht, ↓reduceIte]; exact sliceAt_ok hr hs hk hb
    · simp only [ht]
      apply sliceAt_ok hr hs hk
      rw [hfx] at ht
      exact remapTest_false (by simpa using ht)

theorem shardClean_get {k : Key} {loc : Loc} (h : shardClean c s = true)
    (hi : AL.get k s.index = some loc) : c.shardOf k ≠ s.mg.shard ∨ loc.fid ∉ s.mg.sel := by
  have hk := AL.mem_keys_of_get hi
  unfold AL.keys at hk
  obtain ⟨⟨k', l'⟩, hmem, hk'⟩ := List.mem_map.mp hk
  simp only at hk'; subst hk'
  unfold shardClean at h
  have := List.all_eq_true.mp h _ hmem
  simp only [hi] at this
  simpa using this

theorem top_on (hon : s.mg.on = true) : top s = s.mg.out := by unfold top; simp [hon]

theorem SafeInv.mergeLock {sel : List Fid} (hm : MutexInv s) (h : SafeInv c s)
    (hmu : s.mutex = none)
    (hsel : ∀ f ∈ sel, f ≤ s.active) (hh : List HEv) :
    SafeInv c { s with
      mutex := some t
      files := AL.set (s.active + 1) {} s.files
      mg := { on := true, sel := sel, out := s.active + 1, shard := 0, inShard := false,
              pending := none, todo := sel }
      threads := s.threads.set t .merging
      hist := hh } := by
  have hoff : s.mg.on = false := by
    cases hon : s.mg.on with
    | false => rfl
    | true => obtain ⟨_, _, hx, _⟩ := hm.mergeOn hon; rw [hmu] at hx; cases hx
  have hnone : s.file (s.active + 1) = none := h.fresh (s.active + 1) (by rw [top_off hoff]; omega)
  have hgrow : FilesGrow s { s with
      mutex := some t
      files := AL.set (s.active + 1) {} s.files
      mg := { on := true, sel := sel, out := s.active + 1, shard := 0, inShard := false,
              pending := none, todo := sel }
      threads := s.threads.set t .merging
      hist := hh } := FilesGrow.create hnone rfl
  constructor
  · intro fid hfid
    have ht : s.active + 1 < fid := hfid
    show AL.get fid (AL.set (s.active + 1) _ s.files) = none
    rw [AL.get_set]
    have : fid ≠ s.active + 1 := by omega
    simp only [this, ↓reduceIte]
    exact h.fresh fid (by rw [top_off hoff]; omega)
  · intro hon; cases hon
  · intro k loc hi; exact (h.index k loc hi).grow hgrow rfl
  · exact h.amapDom
  · exact h.writer.set rfl (fun _ _ x => x.grow hgrow)
      (by intro r' loc' hx; rcases hx with hx | hx <;> cases hx)
  · exact h.guard.set rfl (fun _ _ _ _ _ _ _ _ => ⟨rfl, rfl⟩) (by intro _ _ _ _ _ e; cases e)
  · intro _; exact ⟨hsel, Nat.lt_succ_self _, fun _ x => x⟩
  · intro _; exact ⟨_, AL.get_set_same _ _ _, rfl⟩
  · intro _ k nl hp; cases hp
  · intro _ k loc _ _; exact Nat.zero_le _
  · intro _ hin; cases hin
  · intro hfx; exact (h.noFail hfx).set rfl rfl

theorem SafeInv.enter (h : SafeInv c s) (hg : guardFree c s s.mg.shard = true) :
    SafeInv c { s with mg := { s.mg with inShard := true } } := by
  refine ⟨h.fresh, h.activeOk, h.index, h.amapDom, h.writer, h.guard, h.mgSel, h.mgOut, ?_,
    h.visited, fun _ _ => hg, h.noFail⟩
  intro hon k nl hp
  obtain ⟨_, b, d, e⟩ := h.mgPending hon k nl hp
  exact ⟨rfl, b, d, e⟩

theorem SafeInv.copyOk {k : Key} {loc : Loc} {f o : File} {wc : List (Fid × Nat)} {r : Rec}
    (hm : MutexInv s) (h : SafeInv c s) (hth : s.threads[t]? = some .merging)
    (hin : s.mg.inShard = true) (hsh : c.shardOf k = s.mg.shard)
    (hi : AL.get k s.index = some loc) (hf : s.file loc.fid = some f)
    (ho : s.file s.mg.out = some o) (hr : readThrough c f s.wcache k loc = (wc, .ok r)) :
    SafeInv c { s with
      wcache := wc
      files := AL.set s.mg.out { o with recs := o.recs ++ [r] } s.files
      mg := { s.mg with pending := some (k, ⟨s.mg.out, csize o.recs, r.size⟩) } } := by
  have hon := hm.mergeOff t hth
  have holinked : o.linked = true := by
    obtain ⟨o', ho', hl⟩ := h.mgOut hon
    rw [ho] at ho'; cases ho'; exact hl
  have hgrow : FilesGrow s { s with
      wcache := wc
      files := AL.set s.mg.out { o with recs := o.recs ++ [r] } s.files
      mg := { s.mg with pending := some (k, ⟨s.mg.out, csize o.recs, r.size⟩) } } :=
    FilesGrow.append (x := { o with recs := o.recs ++ [r] }) (ys := [r]) ho rfl rfl rfl
  constructor
  · intro fid hfid
    have ht : top s < fid := hfid
    rw [top_on hon] at ht
    show AL.get fid (AL.set s.mg.out _ s.files) = none
    rw [AL.get_set]
    have : fid ≠ s.mg.out := by omega
    simp only [this, ↓reduceIte]
    exact h.fresh fid (by rw [top_on hon]; exact ht)
  · intro hoff; exact off_on hoff hon
  · intro k' loc' hi'; exact (h.index k' loc' hi').grow hgrow rfl
  · exact h.amapDom
  · exact h.writer.same rfl (fun _ _ x => x.grow hgrow)
  · exact h.guard.same rfl (fun _ _ _ _ _ _ _ => ⟨rfl, rfl⟩)
  · exact h.mgSel
  · intro _; exact ⟨_, AL.get_set_same _ _ _, holinked⟩
  · intro _ k' nl hp
    have hp' : some (k, (⟨s.mg.out, csize o.recs, r.size⟩ : Loc)) = some (k', nl) := hp
    cases hp'
    refine ⟨hin, hsh, rfl, ?_⟩
    obtain ⟨hrec, hsz, hkey⟩ := readThrough_ok_inv hr
    obtain ⟨r', v, ⟨f', hf', _, hr', _⟩, _, hv, hamap⟩ := h.index k loc hi
    rw [hf] at hf'; cases hf'
    rw [hrec] at hr'; cases hr'
    exact ⟨r, v, ⟨_, AL.get_set_same _ _ _, holinked, recAt_end _ _, rfl⟩, hkey, hv, hamap⟩
  · exact h.visited
  · exact h.wlock
  · exact h.noFail

theorem SafeInv.copyFail {k : Key} {loc : Loc} {f : File} {wc : List (Fid × Nat)} {e : Fail}
    (h : SafeInv c s) (hth : s.threads[t]? = some .merging)
    (hi : AL.get k s.index = some loc) (hf : s.file loc.fid = some f)
    (hr : readThrough c f s.wcache k loc = (wc, .error e)) :
    SafeInv c { s with wcache := wc, threads := s.threads.set t (.failed e none) } := by
  refine h.setSimple hth rfl rfl rfl rfl rfl rfl (by simp) (by simp) rfl ?_
  intro hfx
  exfalso
  obtain ⟨r', v, ⟨f', hf', hl, hr', hs⟩, hk, _, _⟩ := h.index k loc hi
  rw [hf] at hf'; cases hf'
  have := readThrough_fixed (cache := s.wcache) hfx hl hr' hs hk
  rw [hr] at this; cases this

end CStore
