/-
  C04 — preservation of the safety invariant by the merge steps re-point, leave shard, unlink,
  new active file. The unlink case is where "every shard was visited before the first unlink"
  is used.
-/
import BitcaskVerif.Conc.StoreInvD

namespace CStore

variable {c : Cfg} {s : Sys} {t : Tid}

/-- a thread that holds a read guard while the merge is inside a shard reads another key than the
    one being re-pointed -/
theorem SafeInv.pending_other_key (h : SafeInv c s) (hon : s.mg.on = true) {k : Key} {nl : Loc}
    (hp : s.mg.pending = some (k, nl)) {t' : Tid} {pc : RPc} {k' : Key} {rd : Reader} {loc : Loc}
    {gv : Option Val} (hx : s.threads[t']? = some (.gRead pc k' rd loc gv)) : k' ≠ k := by
  obtain ⟨hin, hsh, _, _⟩ := h.mgPending hon k nl hp
  have := guardFree_get (h.wlock hon hin) hx
  intro e; subst e
  exact this (by simp [TState.guard, hsh])

theorem SafeInv.repoint {k : Key} {nl : Loc} (hm : MutexInv s) (h : SafeInv c s)
    (hth : s.threads[t]? = some .merging) (hp : s.mg.pending = some (k, nl)) :
    SafeInv c { s with index := AL.set k nl s.index, mg := { s.mg with pending := none } } := by
  have hon := hm.mergeOff t hth
  obtain ⟨hin, hsh, hfid, hpts⟩ := h.mgPending hon k nl hp
  obtain ⟨hsel, hlt, _⟩ := h.mgSel hon
  constructor
  · exact h.fresh
  · exact h.activeOk
  · intro k' loc' hi
    have hi' : AL.get k' (AL.set k nl s.index) = some loc' := hi
    rw [AL.get_set] at hi'
    by_cases hk : k' = k
    · simp only [hk, ↓reduceIte, Option.some.injEq] at hi'
      subst hi'; subst hk; exact hpts
    · simp only [hk, ↓reduceIte] at hi'
      exact h.index k' loc' hi'
  · intro k' hi
    have hi' : AL.get k' (AL.set k nl s.index) = none := hi
    rw [AL.get_set] at hi'
    by_cases hk : k' = k
    · simp [hk] at hi'
    · simp only [hk, ↓reduceIte] at hi'
      exact h.amapDom k' hi'
  · exact h.writer
  · refine h.guard.same rfl ?_
    intro t' pc k' rd loc gv hx
    exact ⟨AL.get_set_other (h.pending_other_key hon hp hx) _ _, rfl⟩
  · exact h.mgSel
  · exact h.mgOut
  · intro _ k' nl' hp'; cases hp'
  · intro _ k' loc' hi hs
    have hi' : AL.get k' (AL.set k nl s.index) = some loc' := hi
    rw [AL.get_set] at hi'
    by_cases hk : k' = k
    · simp only [hk, ↓reduceIte, Option.some.injEq] at hi'
      subst hi'
      have hs' : nl.fid ∈ s.mg.sel := hs
      have := hsel _ hs'
      omega
    · simp only [hk, ↓reduceIte] at hi'
      exact h.visited hon k' loc' hi' hs
  · exact h.wlock
  · exact h.noFail

theorem SafeInv.repointRoll {k : Key} {nl : Loc} (hm : MutexInv s) (h : SafeInv c s)
    (hth : s.threads[t]? = some .merging) (hp : s.mg.pending = some (k, nl)) :
    SafeInv c { s with
      index := AL.set k nl s.index
      files := AL.set (s.mg.out + 1) {} s.files
      mg := { s.mg with pending := none, out := s.mg.out + 1 } } := by
  have hon := hm.mergeOff t hth
  obtain ⟨hin, hsh, hfid, hpts⟩ := h.mgPending hon k nl hp
  obtain ⟨hsel, hlt, htodo⟩ := h.mgSel hon
  have hnone : s.file (s.mg.out + 1) = none := h.fresh (s.mg.out + 1) (by rw [top_on hon]; omega)
  have hgrow : FilesGrow s { s with
      index := AL.set k nl s.index
      files := AL.set (s.mg.out + 1) {} s.files
      mg := { s.mg with pending := none, out := s.mg.out + 1 } } := FilesGrow.create hnone rfl
  constructor
  · intro fid hfid
    have ht : s.mg.out + 1 < fid := by
      have : top { s with
        index := AL.set k nl s.index
        files := AL.set (s.mg.out + 1) {} s.files
        mg := { s.mg with pending := none, out := s.mg.out + 1 } } = s.mg.out + 1 := top_on hon
      rw [← this]; exact hfid
    show AL.get fid (AL.set (s.mg.out + 1) _ s.files) = none
    rw [AL.get_set]
    have : fid ≠ s.mg.out + 1 := by omega
    simp only [this, ↓reduceIte]
    exact h.fresh fid (by rw [top_on hon]; omega)
  · intro hoff; exact off_on hoff hon
  · intro k' loc' hi
    have hi' : AL.get k' (AL.set k nl s.index) = some loc' := hi
    rw [AL.get_set] at hi'
    by_cases hk : k' = k
    · simp only [hk, ↓reduceIte, Option.some.injEq] at hi'
      subst hi'; subst hk; exact hpts.grow hgrow rfl
    · simp only [hk, ↓reduceIte] at hi'
      exact (h.index k' loc' hi').grow hgrow rfl
  · intro k' hi
    have hi' : AL.get k' (AL.set k nl s.index) = none := hi
    rw [AL.get_set] at hi'
    by_cases hk : k' = k
    · simp [hk] at hi'
    · simp only [hk, ↓reduceIte] at hi'
      exact h.amapDom k' hi'
  · exact h.writer.same rfl (fun _ _ x => x.grow hgrow)
  · refine h.guard.same rfl ?_
    intro t' pc k' rd loc gv hx
    exact ⟨AL.get_set_other (h.pending_other_key hon hp hx) _ _, rfl⟩
  · intro _; exact ⟨hsel, by show s.active < s.mg.out + 1; omega, htodo⟩
  · intro _; exact ⟨_, AL.get_set_same _ _ _, rfl⟩
  · intro _ k' nl' hp'; cases hp'
  · intro _ k' loc' hi hs
    have hi' : AL.get k' (AL.set k nl s.index) = some loc' := hi
    rw [AL.get_set] at hi'
    by_cases hk : k' = k
    · simp only [hk, ↓reduceIte, Option.some.injEq] at hi'
      subst hi'
      have hs' : nl.fid ∈ s.mg.sel := hs
      have := hsel _ hs'
      omega
    · simp only [hk, ↓reduceIte] at hi'
      exact h.visited hon k' loc' hi' hs
  · exact h.wlock
  · exact h.noFail

theorem SafeInv.leave (hm : MutexInv s) (h : SafeInv c s) (hth : s.threads[t]? = some .merging)
    (hp : s.mg.pending = none) (hc : shardClean c s = true) :
    SafeInv c { s with mg := { s.mg with inShard := false, shard := s.mg.shard + 1 } } := by
  have hon := hm.mergeOff t hth
  refine ⟨h.fresh, h.activeOk, h.index, h.amapDom, h.writer, h.guard, h.mgSel, h.mgOut, ?_, ?_, ?_,
    h.noFail⟩
  · intro _ k nl hp'
    have : s.mg.pending = some (k, nl) := hp'
    rw [hp] at this; cases this
  · intro _ k loc hi hs
    have h1 := h.visited hon k loc hi hs
    rcases shardClean_get hc hi with h2 | h2
    · show s.mg.shard + 1 ≤ c.shardOf k
      omega
    · exact absurd hs h2
  · intro _ hin; cases hin

theorem SafeInv.unlink {f : Fid} {rest : List Fid} (hm : MutexInv s) (h : SafeInv c s)
    (hth : s.threads[t]? = some .merging) (hin : s.mg.inShard = false) (hsh : c.nsh < s.mg.shard)
    (htd : s.mg.todo = f :: rest) :
    SafeInv c { s with files := unlinkFile s.files f, mg := { s.mg with todo := rest } } := by
  have hon := hm.mergeOff t hth
  obtain ⟨hsel, hlt, htodo⟩ := h.mgSel hon
  have hfsel : f ∈ s.mg.sel := htodo f (by rw [htd]; exact List.mem_cons_self)
  have hidx : ∀ k loc, AL.get k s.index = some loc → loc.fid ≠ f := by
    intro k loc hi e
    have := h.visited hon k loc hi (e ▸ hfsel)
    have := shardOf_le c k
    omega
  have hrec : ∀ k loc, AL.get k s.index = some loc → ∀ r, RecordAt s loc r →
      RecordAt { s with files := unlinkFile s.files f, mg := { s.mg with todo := rest } } loc r :=
    fun k loc hi r hr => hr.unlink rfl (hidx k loc hi)
  constructor
  · intro fid hfid
    exact file_unlink_none (h.fresh fid hfid)
  · intro hoff; exact off_on hoff hon
  · intro k loc hi
    obtain ⟨r, v, a, b⟩ := h.index k loc hi
    exact ⟨r, v, hrec k loc hi r a, b⟩
  · exact h.amapDom
  · intro t' r loc hx
    exfalso
    rcases hx with hx | hx
    · have := hm.unique hx hth rfl rfl; subst this; rw [hth] at hx; cases hx
    · have := hm.unique hx hth rfl rfl; subst this; rw [hth] at hx; cases hx
  · exact h.guard
  · intro _
    refine ⟨hsel, hlt, ?_⟩
    intro x hx
    exact htodo x (by rw [htd]; exact List.mem_cons_of_mem _ hx)
  · intro _
    obtain ⟨o, ho, hl⟩ := h.mgOut hon
    refine ⟨o, ?_, hl⟩
    have hne : s.mg.out ≠ f := by have := hsel f hfsel; omega
    show AL.get s.mg.out (unlinkFile s.files f) = some o
    rw [file_unlink_ne hne]; exact ho
  · intro _ k nl hp
    obtain ⟨a, _⟩ := h.mgPending hon k nl hp
    rw [hin] at a; cases a
  · exact h.visited
  · exact h.wlock
  · exact h.noFail

theorem SafeInv.newActive (hm : MutexInv s) (h : SafeInv c s)
    (hth : s.threads[t]? = some .merging) :
    SafeInv c { s with
      files := AL.set (s.mg.out + 1) {} s.files
      active := s.mg.out + 1
      written := 0
      mg := { s.mg with on := false }
      threads := s.threads.set t .mDone } := by
  have hon := hm.mergeOff t hth
  have hnone : s.file (s.mg.out + 1) = none := h.fresh (s.mg.out + 1) (by rw [top_on hon]; omega)
  have hgrow : FilesGrow s { s with
      files := AL.set (s.mg.out + 1) {} s.files
      active := s.mg.out + 1
      written := 0
      mg := { s.mg with on := false }
      threads := s.threads.set t .mDone } := FilesGrow.create hnone rfl
  constructor
  · intro fid hfid
    have ht : s.mg.out + 1 < fid := hfid
    show AL.get fid (AL.set (s.mg.out + 1) _ s.files) = none
    rw [AL.get_set]
    have : fid ≠ s.mg.out + 1 := by omega
    simp only [this, ↓reduceIte]
    exact h.fresh fid (by rw [top_on hon]; omega)
  · intro _; exact ⟨_, AL.get_set_same _ _ _, rfl⟩
  · intro k loc hi; exact (h.index k loc hi).grow hgrow rfl
  · exact h.amapDom
  · exact h.writer.set rfl (fun _ _ x => x.grow hgrow)
      (by intro r' loc' hx; rcases hx with hx | hx <;> cases hx)
  · exact h.guard.set rfl (fun _ _ _ _ _ _ _ _ => ⟨rfl, rfl⟩) (by intro _ _ _ _ _ e; cases e)
  · intro hon'; cases hon'
  · intro hon'; cases hon'
  · intro hon'; cases hon'
  · intro hon'; cases hon'
  · intro hon'; cases hon'
  · intro hfx; exact (h.noFail hfx).set rfl rfl

end CStore
