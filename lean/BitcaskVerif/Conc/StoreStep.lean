/-
  The transition function of `Conc/StoreLTS.lean` as a relation with one constructor per
  successful branch (`step_sound`), so that every invariant is proved by one `cases`.
  `Local` lists the transitions that change nothing but the acting thread's own state (and the
  ghost history).
-/
import BitcaskVerif.Conc.StoreLTS

namespace CStore

/-- transitions `st → st'` of one thread that leave every shared component untouched -/
inductive Local (c : Cfg) (s : Sys) : TState → TState → Prop where
  | invGet (k : Key) : Local c s .idle (.gInv k)
  | invW (r : Rec) : Local c s .idle (.wInv r)
  | invMerge (sel : List Fid) : Local c s .idle (.mInv sel)
  | resp (res : Res) : Local c s (.respond res) .idle
  | lookupMiss (k : Key) (rd : Reader) (hw : wlockFree s (c.shardOf k) = true)
      (hi : AL.get k s.index = none) : Local c s (.gHave k rd) (.gCheckin rd none)
  | lookupHit (k : Key) (rd : Reader) (loc : Loc) (hw : wlockFree s (c.shardOf k) = true)
      (hi : AL.get k s.index = some loc) :
      Local c s (.gHave k rd) (.gRead .looked k rd loc (AL.get k s.amap))
  | ensureCached (k : Key) (rd : Reader) (loc : Loc) (gv : Option Val) (ev : List Fid) (m : Nat)
      (hc : AL.get loc.fid (cacheDrop rd.cache ev) = some m) :
      Local c s (.gRead .looked k rd loc gv)
        (.gRead .ensured k { rd with cache := cacheDrop rd.cache ev } loc gv)
  | ensureOpen (k : Key) (rd : Reader) (loc : Loc) (gv : Option Val) (ev : List Fid) (f : File)
      (hc : AL.get loc.fid (cacheDrop rd.cache ev) = none) (hf : s.file loc.fid = some f)
      (hl : f.linked = true) :
      Local c s (.gRead .looked k rd loc gv)
        (.gRead .ensured k { rd with cache := AL.set loc.fid f.size (cacheDrop rd.cache ev) } loc gv)
  | ensureNoFile (k : Key) (rd : Reader) (loc : Loc) (gv : Option Val) (ev : List Fid)
      (hc : AL.get loc.fid (cacheDrop rd.cache ev) = none) (hf : s.file loc.fid = none) :
      Local c s (.gRead .looked k rd loc gv) (.failed .noFile (some rd))
  | ensureUnlinked (k : Key) (rd : Reader) (loc : Loc) (gv : Option Val) (ev : List Fid) (f : File)
      (hc : AL.get loc.fid (cacheDrop rd.cache ev) = none) (hf : s.file loc.fid = some f)
      (hl : f.linked = false) :
      Local c s (.gRead .looked k rd loc gv) (.failed .openUnlinked (some rd))
  | remapFire (k : Key) (rd : Reader) (loc : Loc) (gv : Option Val) (m : Nat) (f : File)
      (hc : AL.get loc.fid rd.cache = some m) (hf : s.file loc.fid = some f)
      (ht : remapTest c.fixed loc.pos loc.len m = true) :
      Local c s (.gRead .ensured k rd loc gv)
        (.gRead .remapped k { rd with cache := AL.set loc.fid f.size rd.cache } loc gv)
  | remapKeep (k : Key) (rd : Reader) (loc : Loc) (gv : Option Val) (m : Nat) (f : File)
      (hc : AL.get loc.fid rd.cache = some m) (hf : s.file loc.fid = some f)
      (ht : remapTest c.fixed loc.pos loc.len m = false) :
      Local c s (.gRead .ensured k rd loc gv) (.gRead .remapped k rd loc gv)
  | remapNoFile (k : Key) (rd : Reader) (loc : Loc) (gv : Option Val)
      (h : AL.get loc.fid rd.cache = none ∨ s.file loc.fid = none) :
      Local c s (.gRead .ensured k rd loc gv) (.failed .noFile (some rd))
  | sliceOk (k : Key) (rd : Reader) (loc : Loc) (gv : Option Val) (m : Nat) (f : File) (r : Rec)
      (hc : AL.get loc.fid rd.cache = some m) (hf : s.file loc.fid = some f)
      (hs : sliceAt f k loc m = .ok r) :
      Local c s (.gRead .remapped k rd loc gv) (.gSliced k rd r.val)
  | sliceErr (k : Key) (rd : Reader) (loc : Loc) (gv : Option Val) (m : Nat) (f : File) (e : Fail)
      (hc : AL.get loc.fid rd.cache = some m) (hf : s.file loc.fid = some f)
      (hs : sliceAt f k loc m = .error e) :
      Local c s (.gRead .remapped k rd loc gv) (.failed e (some rd))
  | sliceNoFile (k : Key) (rd : Reader) (loc : Loc) (gv : Option Val)
      (h : AL.get loc.fid rd.cache = none ∨ s.file loc.fid = none) :
      Local c s (.gRead .remapped k rd loc gv) (.failed .noFile (some rd))
  | release (k : Key) (rd : Reader) (v : Option Val) : Local c s (.gSliced k rd v) (.gCheckin rd v)
  | chunkNoFile (r : Rec) (hf : s.file s.active = none) :
      Local c s (.wWriting r) (.failed .noFile none)
  | copyNoFile (k : Key) (loc : Loc) (hin : s.mg.inShard = true) (hp : s.mg.pending = none)
      (hi : AL.get k s.index = some loc)
      (h : s.file loc.fid = none ∨ s.file s.mg.out = none) :
      Local c s .merging (.failed .noFile none)

/-- the ghost history after a thread-local transition `st → st'` of thread `t` -/
def histAfter (t : Tid) (st st' : TState) (hist : List HEv) : List HEv :=
  match st, st' with
  | .idle, .gInv k => .inv t (.get k) :: hist
  | .idle, .wInv r => .inv t (recOp r) :: hist
  | .idle, .mInv sel => .inv t (.merge sel) :: hist
  | .respond res, .idle => .resp t res :: hist
  | .gHave _ _, .gCheckin _ v => .lin t (.found v) :: hist
  | .gHave _ _, .gRead _ _ _ _ gv => .lin t (.found gv) :: hist
  | _, _ => hist

/-- `Step c s t s'`: thread `t` can take `s` to `s'` -/
inductive Step (c : Cfg) (s : Sys) (t : Tid) : Sys → Prop where
  | thr (st st' : TState) (h : List HEv) (hth : s.threads[t]? = some st) (hl : Local c s st st')
      (hh : h = histAfter t st st' s.hist) :
      Step c s t { s with threads := s.threads.set t st', hist := h }
  | spin (k : Key) (hth : s.threads[t]? = some (.gInv k)) (hp : s.pool = []) : Step c s t s
  | lock (r : Rec) (hth : s.threads[t]? = some (.wInv r)) (hm : s.mutex = none) :
      Step c s t { s with mutex := some t, threads := s.threads.set t (.wWriting r) }
  | mergeLock (sel sel' : List Fid) (hth : s.threads[t]? = some (.mInv sel)) (hm : s.mutex = none)
      (hsel : ∀ f ∈ sel', f ≤ s.active) (hfilter : sel' = sel.filter fun f => decide (f ≤ s.active)) :
      Step c s t { s with
        mutex := some t
        files := AL.set (s.active + 1) {} s.files
        mg := { on := true, sel := sel', out := s.active + 1, shard := 0, inShard := false,
                pending := none, todo := sel' }
        threads := s.threads.set t .merging
        hist := .lin t .unit :: s.hist }
  | chunkDone (r : Rec) (n : Nat) (f : File) (hth : s.threads[t]? = some (.wWriting r))
      (hf : s.file s.active = some f) (hn : 0 < n) (hd : f.part + n = r.size) :
      Step c s t { s with
        files := AL.set s.active { f with recs := f.recs ++ [r], part := 0 } s.files
        threads := s.threads.set t (.wAppended r ⟨s.active, csize f.recs, r.size⟩) }
  | chunkPart (r : Rec) (n : Nat) (f : File) (hth : s.threads[t]? = some (.wWriting r))
      (hf : s.file s.active = some f) (hn : 0 < n) (hd : f.part + n < r.size) :
      Step c s t { s with files := AL.set s.active { f with part := f.part + n } s.files }
  | accountRoll (r : Rec) (loc : Loc) (hth : s.threads[t]? = some (.wAppended r loc))
      (hw : s.written + loc.len > c.maxFile) :
      Step c s t { s with
        files := AL.set (s.active + 1) {} s.files
        active := s.active + 1
        written := 0
        threads := s.threads.set t (.wAccounted r loc) }
  | accountStay (r : Rec) (loc : Loc) (hth : s.threads[t]? = some (.wAppended r loc))
      (hw : ¬ s.written + loc.len > c.maxFile) :
      Step c s t { s with written := s.written + loc.len, threads := s.threads.set t (.wAccounted r loc) }
  | publishPut (r : Rec) (loc : Loc) (v : Val) (hth : s.threads[t]? = some (.wAccounted r loc))
      (hg : guardFree c s (c.shardOf r.key) = true) (hv : r.val = some v) :
      Step c s t { s with
        index := AL.set r.key loc s.index
        amap := AL.set r.key v s.amap
        threads := s.threads.set t (.wPublished .unit)
        hist := .lin t .unit :: s.hist }
  | publishDel (r : Rec) (loc : Loc) (hth : s.threads[t]? = some (.wAccounted r loc))
      (hg : guardFree c s (c.shardOf r.key) = true) (hv : r.val = none) :
      Step c s t { s with
        index := AL.del r.key s.index
        amap := AL.del r.key s.amap
        threads := s.threads.set t (.wPublished (.deleted (AL.get r.key s.index).isSome))
        hist := .lin t (.deleted (AL.get r.key s.index).isSome) :: s.hist }
  | unlock (st : TState) (res : Res) (hth : s.threads[t]? = some st)
      (hst : st = .wPublished res ∨ (st = .mDone ∧ res = .unit)) :
      Step c s t { s with mutex := none, threads := s.threads.set t (.respond res) }
  | checkout (k : Key) (rd : Reader) (rest : List Reader) (hth : s.threads[t]? = some (.gInv k))
      (hp : s.pool = rd :: rest) :
      Step c s t { s with pool := rest, threads := s.threads.set t (.gHave k rd) }
  | checkin (rd : Reader) (v : Option Val) (hth : s.threads[t]? = some (.gCheckin rd v)) :
      Step c s t { s with pool := s.pool ++ [rd], threads := s.threads.set t (.respond (.found v)) }
  | enter (hth : s.threads[t]? = some .merging) (hin : s.mg.inShard = false)
      (hsh : s.mg.shard ≤ c.nsh) (hg : guardFree c s s.mg.shard = true) :
      Step c s t { s with mg := { s.mg with inShard := true } }
  | copyOk (k : Key) (loc : Loc) (f o : File) (wc : List (Fid × Nat)) (r : Rec)
      (hth : s.threads[t]? = some .merging) (hin : s.mg.inShard = true) (hp : s.mg.pending = none)
      (hsh : c.shardOf k = s.mg.shard) (hi : AL.get k s.index = some loc) (hsel : loc.fid ∈ s.mg.sel)
      (hf : s.file loc.fid = some f) (ho : s.file s.mg.out = some o)
      (hr : readThrough c f s.wcache k loc = (wc, .ok r)) :
      Step c s t { s with
        wcache := wc
        files := AL.set s.mg.out { o with recs := o.recs ++ [r] } s.files
        mg := { s.mg with pending := some (k, ⟨s.mg.out, csize o.recs, r.size⟩) } }
  | copyFail (k : Key) (loc : Loc) (f o : File) (wc : List (Fid × Nat)) (e : Fail)
      (hth : s.threads[t]? = some .merging) (hin : s.mg.inShard = true) (hp : s.mg.pending = none)
      (hsh : c.shardOf k = s.mg.shard) (hi : AL.get k s.index = some loc) (hsel : loc.fid ∈ s.mg.sel)
      (hf : s.file loc.fid = some f) (ho : s.file s.mg.out = some o)
      (hr : readThrough c f s.wcache k loc = (wc, .error e)) :
      Step c s t { s with wcache := wc, threads := s.threads.set t (.failed e none) }
  | repointRoll (k : Key) (nl : Loc) (hth : s.threads[t]? = some .merging)
      (hp : s.mg.pending = some (k, nl)) (hw : nl.pos + nl.len > c.maxFile) :
      Step c s t { s with
        index := AL.set k nl s.index
        files := AL.set (s.mg.out + 1) {} s.files
        mg := { s.mg with pending := none, out := s.mg.out + 1 } }
  | repoint (k : Key) (nl : Loc) (hth : s.threads[t]? = some .merging)
      (hp : s.mg.pending = some (k, nl)) (hw : ¬ nl.pos + nl.len > c.maxFile) :
      Step c s t { s with index := AL.set k nl s.index, mg := { s.mg with pending := none } }
  | leave (hth : s.threads[t]? = some .merging) (hin : s.mg.inShard = true) (hp : s.mg.pending = none)
      (hc : shardClean c s = true) :
      Step c s t { s with mg := { s.mg with inShard := false, shard := s.mg.shard + 1 } }
  | unlink (f : Fid) (rest : List Fid) (hth : s.threads[t]? = some .merging)
      (hin : s.mg.inShard = false) (hsh : c.nsh < s.mg.shard) (htd : s.mg.todo = f :: rest) :
      Step c s t { s with files := unlinkFile s.files f, mg := { s.mg with todo := rest } }
  | newActive (hth : s.threads[t]? = some .merging) (hin : s.mg.inShard = false)
      (hsh : c.nsh < s.mg.shard) (htd : s.mg.todo = []) :
      Step c s t { s with
        files := AL.set (s.mg.out + 1) {} s.files
        active := s.mg.out + 1
        written := 0
        mg := { s.mg with on := false }
        threads := s.threads.set t .mDone }

end CStore
