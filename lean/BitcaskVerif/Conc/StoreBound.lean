/-
  C04 — every operation completes: a bound on the number of own steps. `budget c s st` bounds the
  number of steps thread `t` (in state `st`) still has to take; every own step other than a spin
  of the pool loop strictly decreases it (`own_step_decreases`), and once the operation has its
  lock / has been invoked as a `get`, no step of another thread increases it
  (`other_step_keeps`). Together with `progress` (somebody can always move) this gives completion
  of every operation under a fair scheduler.
-/
import BitcaskVerif.Conc.StoreProgress

namespace CStore

variable {c : Cfg} {s s' : Sys} {t : Tid}

/-- key `k` is indexed into a selected file -/
def selKey (sel : List Nat) (index : List (Nat × Loc)) (k : Nat) : Bool :=
  match AL.get k index with
  | some loc => decide (loc.fid ∈ sel)
  | none => false

/-- number of index bindings whose key is (currently) indexed into a selected file -/
def selCount (sel : List Nat) (index : List (Nat × Loc)) : Nat :=
  (AL.keys index).countP (selKey sel index)

theorem keys_set_of_get {l : List (Nat × Loc)} {k : Nat} {v v0 : Loc} (h : AL.get k l = some v0) :
    AL.keys (AL.set k v l) = AL.keys l := by
  induction l with
  | nil => cases h
  | cons x xs ih =>
    obtain ⟨k', v'⟩ := x
    by_cases e : k' = k
    · simp [AL.set, AL.keys, e]
    · simp only [AL.get, e, ↓reduceIte] at h
      have := ih h
      simp only [AL.keys] at this
      simp [AL.set, AL.keys, e, this]

theorem countP_le_of {α : Type} {p q : α → Bool} {l : List α}
    (himp : ∀ x ∈ l, q x = true → p x = true) : l.countP q ≤ l.countP p := by
  induction l with
  | nil => simp
  | cons a as ih =>
    have := ih (fun x hx => himp x (List.mem_cons_of_mem _ hx))
    simp only [List.countP_cons]
    have ha := himp a List.mem_cons_self
    cases hq : q a with
    | false => simp; omega
    | true => simp [ha hq]; omega

theorem countP_lt_of {α : Type} {p q : α → Bool} {l : List α}
    (himp : ∀ x ∈ l, q x = true → p x = true) (hex : ∃ x ∈ l, p x = true ∧ q x = false) :
    l.countP q < l.countP p := by
  induction l with
  | nil => obtain ⟨x, hx, _⟩ := hex; cases hx
  | cons a as ih =>
    have hle := countP_le_of (fun x hx => himp x (List.mem_cons_of_mem _ hx))
    simp only [List.countP_cons]
    obtain ⟨x, hx, hp, hq⟩ := hex
    rcases List.mem_cons.mp hx with rfl | hx'
    · simp [hp, hq]; omega
    · have := ih (fun y hy => himp y (List.mem_cons_of_mem _ hy)) ⟨x, hx', hp, hq⟩
      have ha := himp a List.mem_cons_self
      cases hqa : q a with
      | false => simp; omega
      | true => simp [ha hqa]; omega

/-- re-pointing a selected key to a file outside the selection decreases the count -/
theorem selCount_repoint {sel : List Nat} {index : List (Nat × Loc)} {k : Nat} {loc nl : Loc}
    (hi : AL.get k index = some loc) (hsel : loc.fid ∈ sel) (hnl : nl.fid ∉ sel) :
    selCount sel (AL.set k nl index) < selCount sel index := by
  unfold selCount
  rw [keys_set_of_get hi]
  apply countP_lt_of
  · intro k' _ hq
    unfold selKey at hq ⊢
    rw [AL.get_set] at hq
    by_cases e : k' = k
    · simp [e, hnl] at hq
    · simpa [e] using hq
  · refine ⟨k, AL.mem_keys_of_get hi, ?_, ?_⟩
    · simp [selKey, hi, hsel]
    · simp [selKey, AL.get_set_same, hnl]

/-! ### two more facts about a running merge -/

structure MergeAux (c : Cfg) (s : Sys) : Prop where
  pendingSel : s.mg.on = true → ∀ k nl, s.mg.pending = some (k, nl) →
    ∃ loc, AL.get k s.index = some loc ∧ loc.fid ∈ s.mg.sel
  shardBound : s.mg.on = true → s.mg.inShard = true → s.mg.shard ≤ c.nsh

theorem MergeAux.init (cap n : Nat) : MergeAux c (init cap n) :=
  ⟨fun h => (by cases h), fun h => (by cases h)⟩

theorem MergeAux.step (hm : MutexInv s) (h : MergeAux c s) (hs : Step c s t s') : MergeAux c s' := by
  cases hs with
  | thr st st' hh hth hl he => exact ⟨h.1, h.2⟩
  | spin => exact h
  | lock r hth hmu => exact ⟨h.1, h.2⟩
  | mergeLock sel sel' hth hmu hsel => exact ⟨fun _ k nl hp => (by cases hp), fun _ hin => (by cases hin)⟩
  | chunkDone r n f hth hf hn hd => exact ⟨h.1, h.2⟩
  | chunkPart r n f hth hf hn hd => exact ⟨h.1, h.2⟩
  | accountRoll r loc hth hw => exact ⟨h.1, h.2⟩
  | accountStay r loc hth hw => exact ⟨h.1, h.2⟩
  | publishPut r loc v hth hg hv =>
    have hoff := hm.no_merge hth rfl (by simp)
    exact ⟨fun hon => off_on hoff hon, h.2⟩
  | publishDel r loc hth hg hv =>
    have hoff := hm.no_merge hth rfl (by simp)
    exact ⟨fun hon => off_on hoff hon, h.2⟩
  | unlock st res hth hst => exact ⟨h.1, h.2⟩
  | checkout k rd rest hth hp => exact ⟨h.1, h.2⟩
  | checkin rd v hth => exact ⟨h.1, h.2⟩
  | enter hth hin hsh hg => exact ⟨h.1, fun _ _ => hsh⟩
  | copyOk k loc f o wc r hth hin hp hsh hi hsel hf ho hr =>
    refine ⟨?_, h.2⟩
    intro _ k' nl hp'
    have hp'' : some (k, (⟨s.mg.out, csize o.recs, r.size⟩ : Loc)) = some (k', nl) := hp'
    cases hp''
    exact ⟨loc, hi, hsel⟩
  | copyFail k loc f o wc e hth hin hp hsh hi hsel hf ho hr => exact ⟨h.1, h.2⟩
  | repointRoll k nl hth hp hw => exact ⟨fun _ k' nl' hp' => (by cases hp'), h.2⟩
  | repoint k nl hth hp hw => exact ⟨fun _ k' nl' hp' => (by cases hp'), h.2⟩
  | leave hth hin hp hc =>
    refine ⟨?_, fun _ hin' => (by cases hin')⟩
    intro _ k nl hp'
    have : s.mg.pending = some (k, nl) := hp'
    rw [hp] at this; cases this
  | unlink f rest hth hin hsh htd => exact ⟨h.1, h.2⟩
  | newActive hth hin hsh htd => exact ⟨fun hon => (by cases hon), fun hon => (by cases hon)⟩

/-! ### the budget -/

def mergeBudget (c : Cfg) (index : List (Nat × Loc)) (mg : MergeSt) : Nat :=
  2 * selCount mg.sel index + (if mg.pending.isSome then 0 else 1) + 2 * (c.nsh + 1 - mg.shard) +
    (if mg.inShard then 0 else 1) + mg.todo.length + 4

def activePart (s : Sys) : Nat :=
  match s.file s.active with
  | some f => f.part
  | none => 0

/-- the merge locals right after `lock` -/
def mgStart (s : Sys) (sel : List Nat) : MergeSt :=
  let sel' := sel.filter fun f => decide (f ≤ s.active)
  { on := true, sel := sel', out := s.active + 1, shard := 0, inShard := false, pending := none,
    todo := sel' }

/-- a bound on the number of steps the thread still has to take itself -/
def budget (c : Cfg) (s : Sys) : TState → Nat
  | .idle => 0
  | .respond _ => 1
  | .wPublished _ => 2
  | .wAccounted _ _ => 3
  | .wAppended _ _ => 4
  | .wWriting r => 5 + (r.size - activePart s)
  | .wInv r => 6 + r.size
  | .gCheckin _ _ => 2
  | .gSliced _ _ _ => 3
  | .gRead .remapped _ _ _ _ => 4
  | .gRead .ensured _ _ _ _ => 5
  | .gRead .looked _ _ _ _ => 6
  | .gHave _ _ => 7
  | .gInv _ => 8
  | .mDone => 2
  | .merging => mergeBudget c s.index s.mg
  | .mInv sel => 1 + mergeBudget c s.index (mgStart s sel)
  | .failed _ _ => 0

theorem mergeBudget_ge (c : Cfg) (index : List (Nat × Loc)) (mg : MergeSt) : 4 ≤ mergeBudget c index mg := by
  unfold mergeBudget; omega

theorem state_after_set {l : List TState} {st st' x : TState} (hth : l[t]? = some st)
    (hth' : (l.set t x)[t]? = some st') : st' = x := by
  rw [get_set_self hth] at hth'; cases hth'; rfl

/-- **own steps.** Every step of a thread with a pending operation, other than a spin of the pool
    loop (which leaves the state unchanged), strictly decreases the thread's budget. -/
theorem own_step_decreases (hm : MutexInv s) (hsafe : SafeInv c s) (haux : MergeAux c s)
    (hs : Step c s t s') {st st' : TState} (hth : s.threads[t]? = some st)
    (hth' : s'.threads[t]? = some st') (hne : st ≠ .idle) :
    s' = s ∨ budget c s' st' < budget c s st := by
  cases hs with
  | spin => exact .inl rfl
  | thr st0 st0' hh hth0 hl he =>
    right
    rw [hth] at hth0; cases hth0
    have := state_after_set hth hth'; subst this
    cases hl <;> first
      | exact absurd rfl hne
      | (simp only [budget]; omega)
      | (simp only [budget]; have := mergeBudget_ge c s.index s.mg; omega)
  | lock r hth0 hmu =>
    right; rw [hth] at hth0; cases hth0
    have := state_after_set hth hth'; subst this
    simp only [budget]; omega
  | mergeLock sel sel' hth0 hmu hsel hfilter =>
    right; rw [hth] at hth0; cases hth0
    have := state_after_set hth hth'; subst this
    subst hfilter
    simp only [budget, mgStart]; omega
  | chunkDone r n f hth0 hf hn hd =>
    right; rw [hth] at hth0; cases hth0
    have := state_after_set hth hth'; subst this
    simp only [budget]; omega
  | chunkPart r n f hth0 hf hn hd =>
    right; rw [hth] at hth0; cases hth0
    have : st' = .wWriting r := by
      have h1 : s.threads[t]? = some st' := hth'
      rw [hth] at h1; cases h1; rfl
    subst this
    have h1 : activePart s = f.part := by unfold activePart; rw [hf]
    have h2 : activePart { s with files := AL.set s.active { f with part := f.part + n } s.files } = f.part + n := by
      unfold activePart Sys.file
      simp only [AL.get_set_same]
    simp only [budget, h1, h2]; omega
  | accountRoll r loc hth0 hw =>
    right; rw [hth] at hth0; cases hth0
    have := state_after_set hth hth'; subst this
    simp only [budget]; omega
  | accountStay r loc hth0 hw =>
    right; rw [hth] at hth0; cases hth0
    have := state_after_set hth hth'; subst this
    simp only [budget]; omega
  | publishPut r loc v hth0 hg hv =>
    right; rw [hth] at hth0; cases hth0
    have := state_after_set hth hth'; subst this
    simp only [budget]; omega
  | publishDel r loc hth0 hg hv =>
    right; rw [hth] at hth0; cases hth0
    have := state_after_set hth hth'; subst this
    simp only [budget]; omega
  | unlock st0 res hth0 hst =>
    right; rw [hth] at hth0; cases hth0
    have := state_after_set hth hth'; subst this
    rcases hst with rfl | ⟨rfl, _⟩ <;> simp only [budget] <;> omega
  | checkout k rd rest hth0 hp =>
    right; rw [hth] at hth0; cases hth0
    have := state_after_set hth hth'; subst this
    simp only [budget]; omega
  | checkin rd v hth0 =>
    right; rw [hth] at hth0; cases hth0
    have := state_after_set hth hth'; subst this
    simp only [budget]; omega
  | enter hth0 hin hsh hg =>
    right; rw [hth] at hth0; cases hth0
    have : st' = .merging := by
      have h1 : s.threads[t]? = some st' := hth'
      rw [hth] at h1; cases h1; rfl
    subst this
    simp only [budget, mergeBudget, hin]; simp
  | copyOk k loc f o wc r hth0 hin hp hsh hi hsel hf ho hr =>
    right; rw [hth] at hth0; cases hth0
    have : st' = .merging := by
      have h1 : s.threads[t]? = some st' := hth'
      rw [hth] at h1; cases h1; rfl
    subst this
    simp only [budget, mergeBudget, hp]; simp
  | copyFail k loc f o wc e hth0 hin hp hsh hi hsel hf ho hr =>
    right; rw [hth] at hth0; cases hth0
    have := state_after_set hth hth'; subst this
    simp only [budget]; have := mergeBudget_ge c s.index s.mg; omega
  | repointRoll k nl hth0 hp hw =>
    right; rw [hth] at hth0; cases hth0
    have : st' = .merging := by
      have h1 : s.threads[t]? = some st' := hth'
      rw [hth] at h1; cases h1; rfl
    subst this
    have hon := hm.mergeOff t hth
    obtain ⟨loc, hi, hsel⟩ := haux.pendingSel hon k nl hp
    obtain ⟨_, _, hfid, _⟩ := hsafe.mgPending hon k nl hp
    obtain ⟨hle, hlt, _⟩ := hsafe.mgSel hon
    have hnl : nl.fid ∉ s.mg.sel := by intro hx; have := hle _ hx; omega
    have := selCount_repoint hi hsel hnl
    simp only [budget, mergeBudget, hp]; simp; omega
  | repoint k nl hth0 hp hw =>
    right; rw [hth] at hth0; cases hth0
    have : st' = .merging := by
      have h1 : s.threads[t]? = some st' := hth'
      rw [hth] at h1; cases h1; rfl
    subst this
    have hon := hm.mergeOff t hth
    obtain ⟨loc, hi, hsel⟩ := haux.pendingSel hon k nl hp
    obtain ⟨_, _, hfid, _⟩ := hsafe.mgPending hon k nl hp
    obtain ⟨hle, hlt, _⟩ := hsafe.mgSel hon
    have hnl : nl.fid ∉ s.mg.sel := by intro hx; have := hle _ hx; omega
    have := selCount_repoint hi hsel hnl
    simp only [budget, mergeBudget, hp]; simp; omega
  | leave hth0 hin hp hc =>
    right; rw [hth] at hth0; cases hth0
    have : st' = .merging := by
      have h1 : s.threads[t]? = some st' := hth'
      rw [hth] at h1; cases h1; rfl
    subst this
    have hon := hm.mergeOff t hth
    have := haux.shardBound hon hin
    simp only [budget, mergeBudget, hin]; simp; omega
  | unlink f rest hth0 hin hsh htd =>
    right; rw [hth] at hth0; cases hth0
    have : st' = .merging := by
      have h1 : s.threads[t]? = some st' := hth'
      rw [hth] at h1; cases h1; rfl
    subst this
    simp only [budget, mergeBudget, htd]; simp
  | newActive hth0 hin hsh htd =>
    right; rw [hth] at hth0; cases hth0
    have := state_after_set hth hth'; subst this
    simp only [budget]; have := mergeBudget_ge c s.index s.mg; omega

/-- a step of another thread while `t` is inside the mutex touches neither the files, nor the
    index, nor the merge locals, nor the active id -/
theorem other_step_frame (hm : MutexInv s) {t' : Nat} (hs : Step c s t' s') (hne : t ≠ t')
    {st : TState} (hth : s.threads[t]? = some st) (hc : st.inCrit = true) :
    s'.files = s.files ∧ s'.active = s.active ∧ s'.index = s.index ∧ s'.mg = s.mg := by
  have hmu := hm.crit t st hth hc
  have contra : ∀ {x : TState}, s.threads[t']? = some x → x.inCrit = true → False :=
    fun hx hcx => hne (hm.unique hth hx hc hcx)
  cases hs with
  | thr st0 st0' hh hth0 hl he => exact ⟨rfl, rfl, rfl, rfl⟩
  | spin => exact ⟨rfl, rfl, rfl, rfl⟩
  | lock r hth0 hmu' => exact ⟨rfl, rfl, rfl, rfl⟩
  | mergeLock sel sel' hth0 hmu' hsel hfilter => rw [hmu] at hmu'; cases hmu'
  | chunkDone r n f hth0 hf hn hd => exact (contra hth0 rfl).elim
  | chunkPart r n f hth0 hf hn hd => exact (contra hth0 rfl).elim
  | accountRoll r loc hth0 hw => exact (contra hth0 rfl).elim
  | accountStay r loc hth0 hw => exact ⟨rfl, rfl, rfl, rfl⟩
  | publishPut r loc v hth0 hg hv => exact (contra hth0 rfl).elim
  | publishDel r loc hth0 hg hv => exact (contra hth0 rfl).elim
  | unlock st0 res hth0 hst => exact ⟨rfl, rfl, rfl, rfl⟩
  | checkout k rd rest hth0 hp => exact ⟨rfl, rfl, rfl, rfl⟩
  | checkin rd v hth0 => exact ⟨rfl, rfl, rfl, rfl⟩
  | enter hth0 hin hsh hg => exact (contra hth0 rfl).elim
  | copyOk k loc f o wc r hth0 hin hp hsh hi hsel hf ho hr => exact (contra hth0 rfl).elim
  | copyFail k loc f o wc e hth0 hin hp hsh hi hsel hf ho hr => exact ⟨rfl, rfl, rfl, rfl⟩
  | repointRoll k nl hth0 hp hw => exact (contra hth0 rfl).elim
  | repoint k nl hth0 hp hw => exact (contra hth0 rfl).elim
  | leave hth0 hin hp hc' => exact (contra hth0 rfl).elim
  | unlink f rest hth0 hin hsh htd => exact (contra hth0 rfl).elim
  | newActive hth0 hin hsh htd => exact (contra hth0 rfl).elim

/-- **other threads' steps.** Once an operation is past its waiting point (any state except a
    merge that still waits for the mutex), no step of another thread changes its budget. -/
theorem other_step_keeps (hm : MutexInv s) {t' : Nat} (hs : Step c s t' s') (hne : t ≠ t')
    {st : TState} (hth : s.threads[t]? = some st) (hst : ∀ sel, st ≠ .mInv sel) :
    budget c s' st = budget c s st := by
  cases st with
  | wWriting r =>
    obtain ⟨h1, h2, _, _⟩ := other_step_frame hm hs hne hth rfl
    simp only [budget, activePart, Sys.file, h1, h2]
  | merging =>
    obtain ⟨_, _, h3, h4⟩ := other_step_frame hm hs hne hth rfl
    simp only [budget, h3, h4]
  | mInv sel => exact absurd rfl (hst sel)
  | gRead pc k rd loc gv => cases pc <;> rfl
  | _ => rfl

/-- a step of thread `t'` leaves every other thread's state alone -/
theorem other_thread_unchanged {t' : Nat} (hs : Step c s t' s') (hne : t ≠ t') {st : TState}
    (hth : s.threads[t]? = some st) : s'.threads[t]? = some st := by
  cases hs <;> first
    | exact hth
    | (show (s.threads.set t' _)[t]? = some st; rw [get_set_ne _ hne]; exact hth)

theorem MergeAux.reachable {n : Nat} (h : Reachable c n s) : MergeAux c s := by
  obtain ⟨es, hr⟩ := h
  have : MutexInv s ∧ MergeAux c s := by
    refine run_induct (P := fun s => MutexInv s ∧ MergeAux c s) ?_ es _ s
      ⟨MutexInv.init _ _, MergeAux.init _ _⟩ hr
    intro s t s' hi hs
    exact ⟨hi.1.step hs, hi.2.step hi.1 hs⟩
  exact this.2

end CStore
